(* ReachListProofs.v — the list walk of the XMI writer (ReachList.collect_list) ends on every heap, and what it answers:
   - collect_terminates: never out of fuel with |heap|+1, whatever the list kind and the shape of the tail chain
     (self tail, tail back to the first or to a middle node, dangling tail, ...);
   - collect_ok_elements / collect_ok_distinct: when it returns, it returns the head of the node at every position of the
     tail chain, in order, and the nodes of the chain are pairwise distinct; the traversal's own walk (Reach.list_heads)
     offers the same values to the open list (collect_heads);
   - collect_refuses_cyclic / collect_cyclic_refused: it raises ValueError exactly when some node occurs at two
     positions of the chain;
   - to_xmi_lists_terminates: traversal + all list walks of a to_xmi call never run out of fuel;
   - collect_unguarded_diverges_refuted: the walk without the node set runs out of every fuel on a one-node list whose
     tail is the node itself. *)
From Cassis Require Import Base Heap Schema Reach ReachProofs ReachSpec ReachList.
From Coq Require Import ZifyBool.
Open Scope Z_scope.

(* ------------------------------------------------------------------------------------------------ termination *)

Lemma collect_list_noof s h : forall k seen v,
  NoDup seen -> incl seen (map fst h) -> (List.length h - List.length seen < k)%nat -> noof (collect_list k s h seen v).
Proof.
  induction k as [|k IH]; intros seen v Hn Hi Hk; [lia|].
  cbn [collect_list]. destruct v; try discriminate.
  destruct (hget h o) as [f|] eqn:E; [|discriminate].
  destruct (has_feat s (o_type f) "head"); [|discriminate].
  destruct (memN o seen) eqn:C; [discriminate|].
  apply memN_notIn in C.
  assert (Hn' : NoDup (o :: seen)) by (constructor; assumption).
  assert (Hi' : incl (o :: seen) (map fst h)).
  { intros x [<-|Hx]; [eapply hget_dom; exact E|apply Hi; exact Hx]. }
  pose proof (NoDup_incl_length Hn' Hi') as Hl. rewrite map_length in Hl. cbn [List.length] in Hl.
  apply bind_noof; [|intros; discriminate].
  apply IH; try assumption. cbn [List.length]. lia.
Qed.
Theorem collect_terminates : forall s h v, list_elems s h v <> OutOfFuel.
Proof.
  intros s h v. apply collect_list_noof; [constructor|intros x []|cbn [List.length]; lia].
Qed.

Lemma feat_list_noof s h f fd : noof (feat_list s h f fd).
Proof.
  unfold feat_list. destruct (common_field fd); [discriminate|].
  assert (Hc : noof (if collects s fd
                     then (if is_list_name (fd_range fd) then do _ <- list_elems s h (slot f (fd_name fd)) ;; Ok tt else Err EValue)
                     else Ok tt)).
  { destruct (collects s fd); [|discriminate]. destruct (is_list_name (fd_range fd)); [|discriminate].
    apply bind_noof; [apply collect_terminates|intros; discriminate]. }
  destruct (slot f (fd_name fd)); try exact Hc. discriminate.
Qed.
Lemma obj_lists_noof s h f : noof (obj_lists s h f).
Proof.
  unfold obj_lists. destruct (is_array_name (o_type f)); [discriminate|].
  apply (fold_noof (fun (_ : unit) fd => feat_list s h f fd)); [intros; apply feat_list_noof|discriminate].
Qed.
Lemma written_lists_noof s h all : noof (written_lists s h all).
Proof.
  unfold written_lists.
  apply (fold_noof (fun (_ : unit) (p : xid * oid) =>
                      match hget h (snd p) with Some f => obj_lists s h f | None => Err EAttribute end)); [|discriminate].
  intros _ p. destruct (hget h (snd p)); [apply obj_lists_noof|discriminate].
Qed.
Theorem to_xmi_lists_terminates : forall s c, to_xmi_lists s c <> OutOfFuel.
Proof.
  intros s c. unfold to_xmi_lists. apply bind_noof; [apply worklist_terminates_fs|].
  intros w _. apply written_lists_noof.
Qed.

(* ------------------------------------------------------------------------------------------------ what the walk answers *)

(* the values the writer collects are the values the traversal offered to the open list *)
Lemma collect_heads s h : forall k seen v l, collect_list k s h seen v = Ok l -> list_heads k s h seen v = Ok l.
Proof.
  induction k as [|k IH]; intros seen v l H; cbn [collect_list] in H; [discriminate|].
  cbn [list_heads]. destruct v; try exact H.
  destruct (hget h o) as [f|]; [|exact H].
  destruct (has_feat s (o_type f) "head"); cbn [andb]; [|exact H].
  destruct (memN o seen); cbn [negb]; [discriminate|].
  destruct (collect_list k s h (o :: seen) (slot f "tail")) as [r| |] eqn:E; cbn [bind] in H; try discriminate.
  rewrite (IH _ _ _ E). exact H.
Qed.

Section Spec.
Variable s : schema.
Variable h : heap.

Lemma node_at_none v : node_here s h v = None -> forall n, node_at s h n v = None.
Proof. intros H [|n]; cbn [node_at]; rewrite H; reflexivity. Qed.
Lemma node_at_none_later : forall n v, node_at s h n v = None -> forall j, node_at s h (n + j) v = None.
Proof.
  induction n as [|n IH]; intros v H j.
  - cbn [node_at] in H. cbn [plus]. apply node_at_none. exact H.
  - cbn [node_at] in H. cbn [plus node_at]. destruct (node_here s h v) as [[o f]|]; [|reflexivity]. apply IH. exact H.
Qed.

(* the case analysis of one step of the walk, by what stands at the current position *)
Lemma collect_step k seen v :
  collect_list (S k) s h seen v =
  match v with
  | VRef o => match hget h o with
              | None => Err EAttribute
              | Some _ => match node_here s h v with
                          | Some (o, f) => if memN o seen then Err EValue
                                           else do r <- collect_list k s h (o :: seen) (slot f "tail") ;; Ok (slot f "head" :: r)
                          | None => Ok []
                          end
              end
  | _ => Ok []
  end.
Proof.
  destruct v; try reflexivity. cbn [collect_list node_here].
  destruct (hget h o) as [f|]; [|reflexivity]. destruct (has_feat s (o_type f) "head"); reflexivity.
Qed.

Lemma collect_ok_spec : forall k seen v l, collect_list k s h seen v = Ok l ->
  (forall n o f, node_at s h n v = Some (o, f) -> ~ In o seen) /\
  (forall n m o f g, node_at s h n v = Some (o, f) -> node_at s h m v = Some (o, g) -> n = m) /\
  (forall n, nth_error l n = option_map (fun p => slot (snd p) "head") (node_at s h n v)).
Proof.
  induction k as [|k IH]; intros seen v l H; [discriminate|].
  rewrite collect_step in H.
  destruct (node_here s h v) as [[o0 f0]|] eqn:Hv.
  - destruct (node_here_Some _ _ _ _ _ Hv) as (-> & Hg & Hh). rewrite Hg in H.
    destruct (memN o0 seen) eqn:Hm; [discriminate|]. apply memN_notIn in Hm.
    destruct (collect_list k s h (o0 :: seen) (slot f0 "tail")) as [r| |] eqn:Er; cbn [bind] in H; try discriminate.
    inversion H; subst l; clear H.
    destruct (IH _ _ _ Er) as (Hns & Hd & Hel).
    split; [|split].
    + intros [|n] o f Hn; cbn [node_at] in Hn; rewrite Hv in Hn.
      * inversion Hn; subst. exact Hm.
      * intros Hin. apply (Hns _ _ _ Hn). right. exact Hin.
    + intros [|n] [|m] o f g Hn Hm'; cbn [node_at] in Hn, Hm'; rewrite Hv in Hn, Hm'.
      * reflexivity.
      * inversion Hn; subst. exfalso. apply (Hns _ _ _ Hm'). left. reflexivity.
      * inversion Hm'; subst. exfalso. apply (Hns _ _ _ Hn). left. reflexivity.
      * f_equal. eapply Hd; eassumption.
    + intros [|n]; cbn [node_at nth_error]; rewrite Hv; [reflexivity|apply Hel].
  - assert (l = []) as ->.
    { destruct v; try (inversion H; reflexivity). cbn [node_here] in Hv.
      destruct (hget h o) as [f|]; [inversion H; reflexivity|discriminate]. }
    split; [|split].
    + intros n o f Hn. rewrite (node_at_none _ Hv) in Hn. discriminate.
    + intros n m o f g Hn. rewrite (node_at_none _ Hv) in Hn. discriminate.
    + intros n. rewrite (node_at_none _ Hv). destruct n; reflexivity.
Qed.

Lemma collect_value_spec : forall k seen v, collect_list k s h seen v = Err EValue ->
  exists n o f, node_at s h n v = Some (o, f) /\
                (In o seen \/ exists m g, (m < n)%nat /\ node_at s h m v = Some (o, g)).
Proof.
  induction k as [|k IH]; intros seen v H; [discriminate|].
  rewrite collect_step in H. destruct v; try discriminate.
  destruct (hget h o) as [f0|] eqn:Hg; [|discriminate].
  destruct (node_here s h (VRef o)) as [[o0 f]|] eqn:Hv; [|discriminate].
  destruct (node_here_Some _ _ _ _ _ Hv) as (Ho & _ & _). inversion Ho; subst o0; clear Ho.
  destruct (memN o seen) eqn:Hm.
  - exists O, o, f. split; [exact Hv|]. left. apply memN_In. exact Hm.
  - destruct (collect_list k s h (o :: seen) (slot f "tail")) as [r|e|] eqn:Er; cbn [bind] in H; try discriminate.
    inversion H; subst e; clear H.
    destruct (IH _ _ Er) as (n & o' & f' & Hn & Hc).
    exists (S n), o', f'. split; [cbn [node_at]; rewrite Hv; exact Hn|].
    destruct Hc as [[<-|Hin]|(m & g & Hlt & Hm')].
    + right. exists O, f. split; [lia|exact Hv].
    + left. exact Hin.
    + right. exists (S m), g. split; [lia|]. cbn [node_at]. rewrite Hv. exact Hm'.
Qed.

Lemma collect_attr_gen : forall k seen v, collect_list k s h seen v = Err EAttribute ->
  exists n, node_at s h n v = None /\
            (forall i o f, (i < n)%nat -> node_at s h i v = Some (o, f) -> ~ In o seen) /\
            forall i j o f g, (i < n)%nat -> (j < n)%nat ->
                              node_at s h i v = Some (o, f) -> node_at s h j v = Some (o, g) -> i = j.
Proof.
  induction k as [|k IH]; intros seen v H; [discriminate|].
  rewrite collect_step in H. destruct v; try discriminate.
  destruct (hget h o) as [f0|] eqn:Hg.
  - destruct (node_here s h (VRef o)) as [[o0 f]|] eqn:Hv; [|discriminate].
    destruct (node_here_Some _ _ _ _ _ Hv) as (Ho & _ & _). inversion Ho; subst o0; clear Ho.
    destruct (memN o seen) eqn:Hm; [discriminate|]. apply memN_notIn in Hm.
    destruct (collect_list k s h (o :: seen) (slot f "tail")) as [r|e|] eqn:Er; cbn [bind] in H; try discriminate.
    inversion H; subst e; clear H.
    destruct (IH _ _ Er) as (n & Hn & Hns & Hd).
    exists (S n). split; [cbn [node_at]; rewrite Hv; exact Hn|]. split.
    + intros [|i] o' f' Hi Hat; cbn [node_at] in Hat; rewrite Hv in Hat.
      * inversion Hat; subst. exact Hm.
      * intros Hin. apply (Hns i o' f'); [lia|exact Hat|right; exact Hin].
    + intros [|i] [|j] o' f' g' Hi Hj Hati Hatj; cbn [node_at] in Hati, Hatj; rewrite Hv in Hati, Hatj.
      * reflexivity.
      * inversion Hati; subst. exfalso. apply (Hns j o' g'); [lia|exact Hatj|left; reflexivity].
      * inversion Hatj; subst. exfalso. apply (Hns i o' f'); [lia|exact Hati|left; reflexivity].
      * f_equal. apply (Hd i j o' f' g'); [lia|lia|exact Hati|exact Hatj].
  - exists O. split; [cbn [node_at node_here]; rewrite Hg; reflexivity|]. split; intros; lia.
Qed.
Lemma collect_attr_spec : forall k seen v, collect_list k s h seen v = Err EAttribute ->
  exists n, node_at s h n v = None /\
            forall i j o f g, (i < n)%nat -> (j < n)%nat ->
                              node_at s h i v = Some (o, f) -> node_at s h j v = Some (o, g) -> i = j.
Proof.
  intros k seen v H. destruct (collect_attr_gen _ _ _ H) as (n & H1 & _ & H3). exists n. split; assumption.
Qed.

Lemma collect_err_kinds : forall k seen v e, collect_list k s h seen v = Err e -> e = EValue \/ e = EAttribute.
Proof.
  induction k as [|k IH]; intros seen v e H; [discriminate|].
  cbn [collect_list] in H. destruct v; try discriminate.
  destruct (hget h o) as [f|]; [|inversion H; right; reflexivity].
  destruct (has_feat s (o_type f) "head"); [|discriminate].
  destruct (memN o seen); [inversion H; left; reflexivity|].
  destruct (collect_list k s h (o :: seen) (slot f "tail")) as [r|e'|] eqn:Er; cbn [bind] in H; try discriminate.
  inversion H; subst e'. eapply IH. exact Er.
Qed.

(* some node stands at two positions of the tail chain that starts at v *)
Definition cyclic_chain (v : val) : Prop :=
  exists n m o f g, (n < m)%nat /\ node_at s h n v = Some (o, f) /\ node_at s h m v = Some (o, g).

Theorem collect_ok_elements : forall v l, list_elems s h v = Ok l ->
  forall n, nth_error l n = option_map (fun p => slot (snd p) "head") (node_at s h n v).
Proof. intros v l H. apply (collect_ok_spec _ _ _ _ H). Qed.
Theorem collect_ok_distinct : forall v l, list_elems s h v = Ok l -> ~ cyclic_chain v.
Proof.
  intros v l H (n & m & o & f & g & Hlt & Hn & Hm).
  destruct (collect_ok_spec _ _ _ _ H) as (_ & Hd & _). specialize (Hd _ _ _ _ _ Hn Hm). lia.
Qed.
Theorem collect_refuses_cyclic : forall v, list_elems s h v = Err EValue -> cyclic_chain v.
Proof.
  intros v H. destruct (collect_value_spec _ _ _ H) as (n & o & f & Hn & [[]|(m & g & Hlt & Hm)]).
  exists m, n, o, g, f. repeat split; assumption.
Qed.
Theorem collect_cyclic_refused : forall v, cyclic_chain v -> list_elems s h v = Err EValue.
Proof.
  intros v (n & m & o & f & g & Hlt & Hn & Hm).
  destruct (list_elems s h v) as [l|e|] eqn:E.
  - exfalso. apply (collect_ok_distinct _ _ E). exists n, m, o, f, g. repeat split; assumption.
  - destruct (collect_err_kinds _ _ _ _ E) as [->| ->]; [reflexivity|]. exfalso.
    destruct (collect_attr_spec _ _ _ E) as (n0 & Hnone & Hd).
    destruct (Nat.le_gt_cases n0 m) as [Hle|Hgt].
    + pose proof (node_at_none_later _ _ Hnone (m - n0)%nat) as Hl. replace (n0 + (m - n0))%nat with m in Hl by lia.
      rewrite Hl in Hm. discriminate.
    + assert (n = m) by (apply (Hd n m o f g); [lia|lia|exact Hn|exact Hm]). lia.
  - exfalso. exact (collect_terminates _ _ _ E).
Qed.
End Spec.

Theorem collect_refuses_exactly_cycles : forall s h v, list_elems s h v = Err EValue <-> cyclic_chain s h v.
Proof. intros s h v. split; [apply collect_refuses_cyclic|apply collect_cyclic_refused]. Qed.
Theorem collect_returns_elements : forall s h v l, list_elems s h v = Ok l ->
  (forall n, nth_error l n = option_map (fun p => slot (snd p) "head") (node_at s h n v)) /\
  list_heads (S (List.length h)) s h [] v = Ok l.
Proof. intros s h v l H. split; [apply collect_ok_elements; exact H|apply collect_heads; exact H]. Qed.

(* ------------------------------------------------------------------------------------------------ the guard is needed *)

Definition sI : schema :=
  [mkTi "uima.cas.NonEmptyIntegerList" ["uima.cas.NonEmptyIntegerList"; "uima.cas.IntegerList"; "uima.cas.ListBase"; "uima.cas.TOP"]
        [mkFd "head" "head" "uima.cas.Integer" None false; mkFd "tail" "tail" "uima.cas.IntegerList" None true];
   mkTi "uima.cas.EmptyIntegerList" ["uima.cas.EmptyIntegerList"; "uima.cas.IntegerList"; "uima.cas.ListBase"; "uima.cas.TOP"] []].
(* a one-element list of integers whose tail is the node itself *)
Definition hI : heap := [(1%N, mkFs "uima.cas.NonEmptyIntegerList" None [("head", VInt 7); ("tail", VRef 1%N)])].

Theorem collect_unguarded_diverges_refuted : forall fuel, collect_unguarded fuel sI hI (VRef 1%N) = OutOfFuel.
Proof.
  induction fuel as [|k IH]; [reflexivity|].
  change (bind (collect_unguarded k sI hI (VRef 1%N)) (fun r => Ok (VInt 7 :: r)) = OutOfFuel).
  rewrite IH. reflexivity.
Qed.
(* the guarded walk refuses it, and returns the elements of a list that ends *)
Theorem collect_guarded_ends :
  list_elems sI hI (VRef 1%N) = Err EValue /\
  list_elems sI [(1%N, mkFs "uima.cas.NonEmptyIntegerList" None [("head", VInt 7); ("tail", VRef 2%N)]);
                 (2%N, mkFs "uima.cas.NonEmptyIntegerList" None [("head", VInt 8); ("tail", VRef 3%N)]);
                 (3%N, mkFs "uima.cas.EmptyIntegerList" None [])] (VRef 1%N) = Ok [VInt 7; VInt 8].
Proof. split; vm_compute; reflexivity. Qed.
