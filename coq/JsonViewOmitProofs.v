(* JsonViewOmitProofs.v — C05, JSON half, "omission of empty views": the %VIEWS entry of a view without members says
   nothing the Sofa entry does not say.
     denote_json_restore / load_json_st_restore     a document and the same document with the entries of its member-less
                                                    views written out describe, and load into, the same CAS
     load_json_is_denotation_omitted                C05_json_load_is_denotation for documents that leave such entries out
     denote_json_omit / load_json_omit              a writer may leave out any choice of these entries
   The reader side rests on: every Sofa entry puts its view into cas.sofas during the sofa-first pass (load_sofa_names), no
   later pass removes one (load_fs_sofas, second_pass_sofas, mk_st4_has, load_view_has), and _parse_view on a view that
   exists and has no members changes nothing (load_view_noop). *)
From Coq Require Import Ascii ZifyBool Permutation.
From Cassis Require Import Base Heap Schema Canon Reach JsonDoc Json JsonProofs JsonProofs2 JsonLoadProofs JsonViewOmit.
Open Scope Z_scope.

(* ---------------------------------------------------------------------------------------------- the document *)

Lemma set_views_set_member vs d : set_views vs d = set_member K_VIEWS (JObj vs) d.
Proof. reflexivity. Qed.
Lemma fs_entries_set_views vs d : fs_entries (set_views vs d) = fs_entries d.
Proof. unfold fs_entries. rewrite set_views_set_member, jget_set_other by discriminate. reflexivity. Qed.
Lemma is_dict_form_set_views vs d : is_dict_form (set_views vs d) = is_dict_form d.
Proof. unfold is_dict_form. rewrite set_views_set_member, jget_set_other by discriminate. reflexivity. Qed.
Lemma doc_views_set_views vs vs0 d : doc_views d = Ok vs0 -> doc_views (set_views vs d) = Ok vs.
Proof.
  intros H. unfold doc_views in *. rewrite set_views_set_member, jget_set_same; [reflexivity|].
  destruct (jget K_VIEWS d); [discriminate|discriminate H].
Qed.

(* ---------------------------------------------------------------------------------------------- folds in the result monad *)

Lemma fold_err {A S} (f : res S -> A -> res S) l e : (forall x, f (Err e) x = Err e) -> fold_left f l (Err e) = Err e.
Proof. intros H. induction l as [|x r IH]; [reflexivity|]. cbn [fold_left]. rewrite H. exact IH. Qed.
Lemma fold_oof {A S} (f : res S -> A -> res S) l : (forall x, f OutOfFuel x = OutOfFuel) -> fold_left f l OutOfFuel = OutOfFuel.
Proof. intros H. induction l as [|x r IH]; [reflexivity|]. cbn [fold_left]. rewrite H. exact IH. Qed.
Lemma fold_res_inv {A S} (f : res S -> A -> res S) (g : S -> A -> res S) (P : S -> Prop) :
  (forall acc x, f acc x = do a <- acc ;; g a x) ->
  (forall st a st', P st -> g st a = Ok st' -> P st') ->
  forall l st st', P st -> fold_left f l (Ok st) = Ok st' -> P st'.
Proof.
  intros Hf Hg. induction l as [|x r IH]; intros st st' HP H.
  - cbn in H. injection H as <-. exact HP.
  - cbn [fold_left] in H. rewrite Hf in H. cbn [bind] in H. destruct (g st x) as [st1|e|] eqn:E.
    + exact (IH st1 st' (Hg st x st1 HP E) H).
    + rewrite fold_err in H; [discriminate|]. intros y. rewrite Hf. reflexivity.
    + rewrite fold_oof in H; [discriminate|]. intros y. rewrite Hf. reflexivity.
Qed.

Lemma fold_res_inv' {A S} (g : S -> A -> res S) (P : S -> Prop) :
  (forall st a st', P st -> g st a = Ok st' -> P st') ->
  forall l st st', P st -> fold_left (fun acc x => do a <- acc ;; g a x) l (Ok st) = Ok st' -> P st'.
Proof. apply fold_res_inv. intros; reflexivity. Qed.

(* ---------------------------------------------------------------------------------------------- cas.sofas only grows *)

Definition has (n : string) (st : lstate) : Prop := existsb (fun x => String.eqb (cs_name x) n) (l_sofas st) = true.

Lemma existsb_map_name (g : csofa -> csofa) n l :
  (forall x, cs_name (g x) = cs_name x) ->
  existsb (fun x => String.eqb (cs_name x) n) l = true -> existsb (fun x => String.eqb (cs_name x) n) (map g l) = true.
Proof.
  intros Hg H. apply existsb_exists in H as (x & Hx & Hn). apply existsb_exists. exists (g x). split; [apply in_map; exact Hx|].
  rewrite Hg. exact Hn.
Qed.

Lemma upsert_has_new cs l : existsb (fun x => String.eqb (cs_name x) (cs_name cs)) (upsert_sofa cs l) = true.
Proof.
  unfold upsert_sofa. destruct (existsb (fun x => String.eqb (cs_name x) (cs_name cs)) l) eqn:E.
  - apply existsb_exists in E as (x & Hx & Hn). apply existsb_exists. exists cs. split; [|apply String.eqb_refl].
    apply in_map_iff. exists x. split; [rewrite Hn; reflexivity|exact Hx].
  - rewrite existsb_app. cbn [existsb]. rewrite String.eqb_refl. cbn [orb]. apply orb_true_r.
Qed.
Lemma upsert_has_old cs l n :
  existsb (fun x => String.eqb (cs_name x) n) l = true -> existsb (fun x => String.eqb (cs_name x) n) (upsert_sofa cs l) = true.
Proof.
  intros H. unfold upsert_sofa. destruct (existsb (fun x => String.eqb (cs_name x) (cs_name cs)) l) eqn:E.
  - apply existsb_exists in H as (x & Hx & Hn). apply existsb_exists. destruct (String.eqb (cs_name x) (cs_name cs)) eqn:Ec.
    + exists cs. split; [apply in_map_iff; exists x; split; [rewrite Ec; reflexivity|exact Hx]|].
      apply String.eqb_eq in Ec. apply String.eqb_eq in Hn. apply String.eqb_eq. congruence.
    + exists x. split; [apply in_map_iff; exists x; split; [rewrite Ec; reflexivity|exact Hx]|exact Hn].
  - rewrite existsb_app, H. reflexivity.
Qed.

Lemma load_fs_sofas L s st e st' : load_fs L s st e = Ok st' -> l_sofas st' = l_sofas st.
Proof.
  unfold load_fs. destruct (e_type e) as [t0|]; [|discriminate]. destruct (sch_find s (norm_tname t0)) as [ti|]; [|discriminate].
  intros H. apply bind_Ok in H as (cf & _ & H). injection H as <-. reflexivity.
Qed.

Lemma prefetch_sofas L s dict es st m st' : prefetch_array L s dict es st m = Ok st' -> l_sofas st' = l_sofas st.
Proof.
  unfold prefetch_array. destruct (alookup (refkey "sofaArray") m) as [[| |r| | | |]|]; try (intros H; injection H as <-; reflexivity).
  destruct (Z.eqb r 0 || zmem r (l_tab st)); [intros H; injection H as <-; reflexivity|].
  destruct (dict && negb (zmem r (map fst es))); [discriminate|].
  intros H. apply bind_Ok in H as (st1 & F & H). injection H as <-.
  assert (E : l_sofas st1 = l_sofas st).
  { refine (fold_res_inv' (fun a e2 => if Z.eqb (fst e2) r then load_fs L s a e2 else Ok a) (fun x => l_sofas x = l_sofas st)
                           _ es st st1 eq_refl F).
    intros a e2 a' Ha. destruct (Z.eqb (fst e2) r); intros E; [rewrite (load_fs_sofas _ _ _ _ _ E); exact Ha|injection E as <-; exact Ha]. }
  destruct (zmem r (map fst es)); [unfold note_ahead; cbn [l_sofas]|]; exact E.
Qed.

(* _parse_sofa: the view of the entry is in cas.sofas afterwards, and so is every view that was there *)
Lemma load_sofa_names L s dict es st e st' : load_sofa L s dict es st e = Ok st' ->
  (forall n, has n st -> has n st') /\ (forall n, sofa_name e = Some n -> has n st').
Proof.
  unfold load_sofa. intros H. apply bind_Ok in H as (st1 & P & H). apply prefetch_sofas in P.
  revert H. unfold sofa_name.
  destruct (alookup "sofaID" (snd e)) as [[| | | |name| |]|]; try discriminate.
  destruct (alookup "sofaNum" (snd e)) as [[| |num| | | |]|]; try discriminate.
  intros H. apply bind_Ok in H as (ot & _ & H). apply bind_Ok in H as (txt & _ & H). apply bind_Ok in H as (mime & _ & H).
  apply bind_Ok in H as (uri & _ & H). injection H as <-. unfold has. cbn [l_sofas]. rewrite P. split.
  - intros n Hn. apply upsert_has_old. exact Hn.
  - intros n Hn. injection Hn as <-.
    match goal with |- existsb _ (upsert_sofa ?c ?l) = true => exact (upsert_has_new c l) end.
Qed.

Lemma first_pass_names L s dict es : forall l st st',
  fold_left (fun acc e => do a <- acc ;; if is_sofa_entry e then load_sofa L s dict es a e else Ok a) l (Ok st) = Ok st' ->
  (forall n, has n st -> has n st') /\
  (forall e n, In e l -> is_sofa_entry e = true -> sofa_name e = Some n -> has n st').
Proof.
  induction l as [|x r IH]; intros st st' H.
  - cbn in H. injection H as <-. split; [auto|intros e n []].
  - cbn [fold_left bind] in H. destruct (is_sofa_entry x) eqn:Ex.
    + destruct (load_sofa L s dict es st x) as [st1|er|] eqn:E1;
        [|rewrite fold_err in H by reflexivity; discriminate|rewrite fold_oof in H by reflexivity; discriminate].
      destruct (load_sofa_names _ _ _ _ _ _ _ E1) as [M1 N1]. destruct (IH st1 st' H) as [M2 N2]. split.
      * intros n Hn. apply M2, M1, Hn.
      * intros e n [<-|Hin] He Hn; [apply M2, (N1 n Hn)|exact (N2 e n Hin He Hn)].
    + destruct (IH st st' H) as [M2 N2]. split; [exact M2|]. intros e n [<-|Hin] He Hn; [congruence|exact (N2 e n Hin He Hn)].
Qed.

Lemma second_pass_sofas L s es st1 st2 : second_pass L s es st1 = Ok st2 -> l_sofas st2 = l_sofas st1.
Proof.
  unfold second_pass. intros F.
  refine (fold_res_inv' (fun a e => if is_sofa_entry e || zmem (fst e) (l_ahead a) then Ok a else load_fs L s a e)
                        (fun x => l_sofas x = l_sofas st1) _ es st1 st2 eq_refl F).
  intros a e a' Ha. destruct (is_sofa_entry e || zmem (fst e) (l_ahead a)); intros E;
    [injection E as <-; exact Ha|rewrite (load_fs_sofas _ _ _ _ _ E); exact Ha].
Qed.

Lemma mk_st4_has n st2 : has n st2 -> has n (mk_st4 st2).
Proof.
  unfold has, mk_st4. cbv zeta. cbn [l_init l_sofas]. destruct (l_init st2); cbn [l_sofas]; [auto|].
  apply existsb_map_name. intros x. unfold fix_initial. destruct (String.eqb (cs_name x) "_InitialView"); reflexivity.
Qed.

(* ---------------------------------------------------------------------------------------------- _parse_view *)

Lemma set_members_name x ms : cs_name (set_members x ms) = cs_name x.
Proof. reflexivity. Qed.

Lemma load_view_has st kv st' n : load_view (Ok st) kv = Ok st' -> has n st -> has n st'.
Proof.
  unfold load_view. cbn [bind]. intros H Hn. unfold has in *.
  assert (G : forall l, existsb (fun x => String.eqb (cs_name x) n) l = true ->
                        existsb (fun x => String.eqb (cs_name x) n)
                          (map (fun x => if String.eqb (cs_name x) (fst kv) then set_members x (cs_members x ++
                                 match jget K_MEMBERS (snd kv) with Some (JArr l0) => match mapM jint l0 with Ok ms => ms | _ => [] end | _ => [] end) else x) l) = true).
  { intros l. apply existsb_map_name. intros x. destruct (String.eqb (cs_name x) (fst kv)); reflexivity. }
  destruct (existsb (fun x => String.eqb (cs_name x) (fst kv)) (l_sofas st)); cbn [bind] in H;
    apply bind_Ok in H as (ms & Hms & H); apply bind_Ok in H as (u & _ & H); injection H as <-; cbn [l_sofas];
    (apply existsb_map_name; [intros x; destruct (String.eqb (cs_name x) (fst kv)); reflexivity|]).
  - exact Hn.
  - rewrite existsb_app, Hn. reflexivity.
Qed.

(* a view that exists and has no members: nothing to do *)
Lemma load_view_noop st kv : has (fst kv) st -> jget K_MEMBERS (snd kv) = Some (JArr []) -> load_view (Ok st) kv = Ok st.
Proof.
  intros H M. unfold has in H. unfold load_view. cbn [bind]. rewrite H. cbn [bind]. rewrite M. cbn [mapM bind fold_left].
  f_equal. destruct st as [sofas stab tab fs mid mnum ini ahead made]. cbn [l_sofas l_stab l_tab l_fs l_max_id l_max_num l_init l_ahead l_made].
  f_equal.
  - rewrite <- (map_id sofas) at 2. apply map_ext. intros x. destruct (String.eqb (cs_name x) (fst kv)); [|reflexivity].
    rewrite app_nil_r. destruct x; reflexivity.
  - rewrite <- (map_id fs) at 2. apply map_ext. intros p. reflexivity.
Qed.

Lemma views_fold_has vs : forall st st' n, fold_left load_view vs (Ok st) = Ok st' -> has n st -> has n st'.
Proof.
  induction vs as [|kv r IH]; intros st st' n H Hn.
  - cbn in H. injection H as <-. exact Hn.
  - cbn [fold_left] in H. destruct (load_view (Ok st) kv) as [st1|e|] eqn:E.
    + exact (IH st1 st' n H (load_view_has _ _ _ _ E Hn)).
    + rewrite fold_err in H by reflexivity. discriminate.
    + rewrite fold_oof in H by reflexivity. discriminate.
Qed.

Lemma noop_fold l : forall st,
  (forall kv, In kv l -> has (fst kv) st /\ jget K_MEMBERS (snd kv) = Some (JArr [])) -> fold_left load_view l (Ok st) = Ok st.
Proof.
  induction l as [|kv r IH]; intros st H; [reflexivity|]. cbn [fold_left].
  destruct (H kv (or_introl eq_refl)) as [Hh Hm]. rewrite (load_view_noop st kv Hh Hm). apply IH. intros kv' Hin. apply H. right. exact Hin.
Qed.

(* ---------------------------------------------------------------------------------------------- the views left out *)

Lemma missing_views_In es vs kv : In kv (missing_views es vs) ->
  (exists e, In e es /\ is_sofa_entry e = true /\ sofa_name e = Some (fst kv)) /\ jget K_MEMBERS (snd kv) = Some (JArr []).
Proof.
  unfold missing_views. intros H. apply in_flat_map in H as (e & He & H).
  destruct (is_sofa_entry e) eqn:Es; [|destruct H]. destruct (sofa_name e) as [n|] eqn:En; [|destruct H].
  destruct (alookup n vs); [destruct H|]. destruct H as [<-|[]]. split; [|reflexivity].
  exists e. split; [exact He|]. split; [exact Es|exact En].
Qed.

(* the sofa-first pass, the second pass and the initial-view rule leave every listed sofa's view in cas.sofas *)
Lemma names_after_passes L s dict es st1 st2 :
  fold_left (fun acc e => do a <- acc ;; if is_sofa_entry e then load_sofa L s dict es a e else Ok a) es (Ok st0) = Ok st1 ->
  second_pass L s es st1 = Ok st2 ->
  forall e n, In e es -> is_sofa_entry e = true -> sofa_name e = Some n -> has n (mk_st4 st2).
Proof.
  intros F1 F2 e n He Hs Hn. apply mk_st4_has. unfold has. rewrite (second_pass_sofas _ _ _ _ _ F2).
  exact (proj2 (first_pass_names L s dict es es st0 st1 F1) e n He Hs Hn).
Qed.

(* ---------------------------------------------------------------------------------------------- reader *)

Theorem load_json_st_restore L s d : load_json_st L s (restore_views d) = load_json_st L s d.
Proof.
  unfold restore_views. destruct (fs_entries d) as [es|e|] eqn:Es; [|reflexivity|reflexivity].
  destruct (doc_views d) as [vs|e|] eqn:Vs; [|reflexivity|reflexivity].
  rewrite !load_json_st_unfold. rewrite fs_entries_set_views, (doc_views_set_views _ vs d Vs), is_dict_form_set_views, Es, Vs. cbn [bind].
  destruct (fold_left (fun acc e => do a <- acc ;; if is_sofa_entry e then load_sofa L s (is_dict_form d) es a e else Ok a) es (Ok st0))
    as [st1|e|] eqn:F1; cbn [bind]; [|reflexivity|reflexivity].
  destruct (second_pass L s es st1) as [st2|e|] eqn:F2; cbn [bind]; [|reflexivity|reflexivity].
  rewrite fold_left_app. destruct (fold_left load_view vs (Ok (mk_st4 st2))) as [st5|e|] eqn:F5.
  - apply noop_fold. intros kv Hin. apply missing_views_In in Hin as [(e & He & Hs & Hn) Hm]. split; [|exact Hm].
    apply (views_fold_has vs _ _ _ F5). exact (names_after_passes L s _ es st1 st2 F1 F2 e _ He Hs Hn).
  - apply fold_err. reflexivity.
  - apply fold_oof. reflexivity.
Qed.

Theorem load_json_restore L s d : load_json L s (restore_views d) = load_json L s d.
Proof. unfold load_json. rewrite load_json_st_restore. reflexivity. Qed.
Theorem load_made_restore L s d : load_made L s (restore_views d) = load_made L s d.
Proof. unfold load_made. rewrite load_json_st_restore. reflexivity. Qed.

(* ---------------------------------------------------------------------------------------------- denotation *)

Definition members_of (views : list (string * json)) (name : string) : res (list Z) :=
  match alookup name views with
  | Some v => match jget K_MEMBERS v with Some (JArr l) => mapM jint l | _ => Err EKey end
  | None => Ok []
  end.

Lemma den_sofa_views_ext L vs vs' e :
  (forall n, sofa_name e = Some n -> members_of vs n = members_of vs' n) -> den_sofa L vs e = den_sofa L vs' e.
Proof.
  unfold den_sofa, sofa_name, members_of. cbv zeta.
  destruct (alookup "sofaID" (snd e)) as [[| | | |name| |]|]; try reflexivity. intros H. specialize (H name eq_refl).
  destruct (alookup "sofaNum" (snd e)) as [[| |num| | | |]|]; try reflexivity.
  rewrite H. reflexivity.
Qed.

Lemma members_of_restore es vs n : members_of (vs ++ missing_views es vs) n = members_of vs n.
Proof.
  unfold members_of. rewrite alookup_app. destruct (alookup n vs) as [v|]; [reflexivity|].
  destruct (alookup n (missing_views es vs)) as [v|] eqn:E; [|reflexivity].
  apply alookup_In in E. apply missing_views_In in E as [_ Hm]. cbn [snd] in Hm. rewrite Hm. reflexivity.
Qed.

Theorem denote_json_restore L s d : denote_json L s (restore_views d) = denote_json L s d.
Proof.
  unfold restore_views. destruct (fs_entries d) as [es|e|] eqn:Es; [|reflexivity|reflexivity].
  destruct (doc_views d) as [vs|e|] eqn:Vs; [|reflexivity|reflexivity].
  unfold denote_json. rewrite fs_entries_set_views, (doc_views_set_views _ vs d Vs), Es, Vs. cbn [bind].
  rewrite (mapM_ext (den_sofa L (vs ++ missing_views es vs)) (den_sofa L vs) (filter is_sofa_entry es)); [reflexivity|].
  intros e _. apply den_sofa_views_ext. intros n _. apply members_of_restore.
Qed.

(* C05: on a document that is well-formed once the entries of its member-less views are written out, the reader builds
   the CAS the document describes *)
Theorem load_json_is_denotation_omitted L s d cc :
  doc_ok_json L s (restore_views d) = true -> denote_json L s d = Ok cc -> load_json L s d = Ok (with_initial_view cc).
Proof.
  intros Hok Hden. rewrite <- (denote_json_restore L s d) in Hden. rewrite <- (load_json_restore L s d).
  exact (load_json_is_denotation L s _ cc Hok Hden).
Qed.

(* ---------------------------------------------------------------------------------------------- the writer's direction *)

(* what makes an entry omittable: no members, and a Sofa entry of the document carries the view's name *)
Definition listed (es : list entry) (n : string) : Prop :=
  exists e, In e es /\ is_sofa_entry e = true /\ sofa_name e = Some n.
Lemma omittable_spec es kv : omittable es kv = true -> listed es (fst kv) /\ jget K_MEMBERS (snd kv) = Some (JArr []).
Proof.
  unfold omittable. destruct (jget K_MEMBERS (snd kv)) as [[| | | | |[|]|]|]; try discriminate. intros H. split; [|reflexivity].
  apply existsb_exists in H as (e & He & H). apply andb_true_iff in H as [Hs Hn]. exists e. split; [exact He|]. split; [exact Hs|].
  destruct (sofa_name e) as [n|]; [|discriminate]. apply String.eqb_eq in Hn. subst n. reflexivity.
Qed.

Lemma filter_fold_noop es (p : string * json -> bool) l : forall st,
  (forall n, listed es n -> has n st) ->
  (forall kv, In kv l -> p kv = false -> omittable es kv = true) ->
  fold_left load_view (filter p l) (Ok st) = fold_left load_view l (Ok st).
Proof.
  induction l as [|kv r IH]; intros st Hst Hp; [reflexivity|]. cbn [filter]. destruct (p kv) eqn:P.
  - cbn [fold_left]. destruct (load_view (Ok st) kv) as [st1|e|] eqn:E.
    + apply IH; [|intros kv' Hin; apply Hp; right; exact Hin]. intros n Hn. exact (load_view_has _ _ _ _ E (Hst n Hn)).
    + rewrite !fold_err by reflexivity. reflexivity.
    + rewrite !fold_oof by reflexivity. reflexivity.
  - cbn [fold_left]. destruct (omittable_spec es kv (Hp kv (or_introl eq_refl) P)) as [Hl Hm].
    rewrite (load_view_noop st kv (Hst _ Hl) Hm). apply IH; [exact Hst|intros kv' Hin; apply Hp; right; exact Hin].
Qed.

Theorem load_json_st_omit L s keep d : load_json_st L s (omit_views keep d) = load_json_st L s d.
Proof.
  unfold omit_views. destruct (fs_entries d) as [es|e|] eqn:Es; [|reflexivity|reflexivity].
  destruct (doc_views d) as [vs|e|] eqn:Vs; [|reflexivity|reflexivity].
  rewrite !load_json_st_unfold. rewrite fs_entries_set_views, (doc_views_set_views _ vs d Vs), is_dict_form_set_views, Es, Vs. cbn [bind].
  destruct (fold_left (fun acc e => do a <- acc ;; if is_sofa_entry e then load_sofa L s (is_dict_form d) es a e else Ok a) es (Ok st0))
    as [st1|e|] eqn:F1; cbn [bind]; [|reflexivity|reflexivity].
  destruct (second_pass L s es st1) as [st2|e|] eqn:F2; cbn [bind]; [|reflexivity|reflexivity].
  apply (filter_fold_noop es).
  - intros n (e & He & Hs & Hn). exact (names_after_passes L s _ es st1 st2 F1 F2 e n He Hs Hn).
  - intros kv _ P. apply orb_false_iff in P as [_ P]. apply negb_false_iff in P. exact P.
Qed.
Theorem load_json_omit L s keep d : load_json L s (omit_views keep d) = load_json L s d.
Proof. unfold load_json. rewrite load_json_st_omit. reflexivity. Qed.
Theorem load_made_omit L s keep d : load_made L s (omit_views keep d) = load_made L s d.
Proof. unfold load_made. rewrite load_json_st_omit. reflexivity. Qed.

Lemma alookup_filter_keep {V} (p : string * V -> bool) n l v :
  alookup n l = Some v -> p (n, v) = true -> alookup n (filter p l) = Some v.
Proof.
  induction l as [|[k w] r IH]; intros H Hp; [discriminate|]. cbn [alookup] in H. destruct (String.eqb n k) eqn:E.
  - injection H as <-. apply String.eqb_eq in E. subst k. cbn [filter]. rewrite Hp. cbn [alookup]. rewrite String.eqb_refl. reflexivity.
  - cbn [filter]. destruct (p (k, w)); [cbn [alookup]; rewrite E|]; apply IH; assumption.
Qed.
Lemma alookup_filter_none {V} (p : string * V -> bool) n l : alookup n l = None -> alookup n (filter p l) = None.
Proof.
  induction l as [|[k w] r IH]; intros H; [reflexivity|]. cbn [alookup] in H. destruct (String.eqb n k) eqn:E; [discriminate|].
  cbn [filter]. destruct (p (k, w)); [cbn [alookup]; rewrite E|]; apply IH; exact H.
Qed.
Lemma alookup_filter_drop {V} (p : string * V -> bool) n l v :
  NoDup (map fst l) -> alookup n l = Some v -> p (n, v) = false -> alookup n (filter p l) = None.
Proof.
  induction l as [|[k w] r IH]; intros ND H Hp; [discriminate|]. cbn [map fst] in ND. inversion ND as [|? ? Hnin ND']; subst.
  cbn [alookup] in H. destruct (String.eqb n k) eqn:E.
  - injection H as <-. apply String.eqb_eq in E. subst k. cbn [filter]. rewrite Hp. apply alookup_filter_none.
    apply alookup_notin. intros k' v' Hin ->. apply Hnin. apply in_map_iff. exists (n, v'). split; [reflexivity|exact Hin].
  - cbn [filter]. destruct (p (k, w)); [cbn [alookup]; rewrite E|]; apply IH; assumption.
Qed.

Lemma members_of_omit es vs keep n : NoDup (map fst vs) ->
  members_of (filter (fun kv => keep (fst kv) || negb (omittable es kv)) vs) n = members_of vs n.
Proof.
  intros ND. unfold members_of. destruct (alookup n vs) as [v|] eqn:E.
  - destruct (keep n || negb (omittable es (n, v))) eqn:P.
    + rewrite (alookup_filter_keep (fun kv => keep (fst kv) || negb (omittable es kv)) n vs v E P). reflexivity.
    + rewrite (alookup_filter_drop (fun kv => keep (fst kv) || negb (omittable es kv)) n vs v ND E P).
      apply orb_false_iff in P as [_ P]. apply negb_false_iff in P. apply omittable_spec in P as [_ Hm]. cbn [snd] in Hm.
      rewrite Hm. reflexivity.
  - rewrite alookup_filter_none by exact E. reflexivity.
Qed.

Theorem denote_json_omit L s keep d vs :
  doc_views d = Ok vs -> NoDup (map fst vs) -> denote_json L s (omit_views keep d) = denote_json L s d.
Proof.
  intros Vs ND. unfold omit_views. destruct (fs_entries d) as [es|e|] eqn:Es; [|reflexivity|reflexivity]. rewrite Vs.
  unfold denote_json. rewrite fs_entries_set_views, (doc_views_set_views _ vs d Vs), Es, Vs. cbn [bind].
  rewrite (mapM_ext (den_sofa L (filter (fun kv => keep (fst kv) || negb (omittable es kv)) vs)) (den_sofa L vs) (filter is_sofa_entry es));
    [reflexivity|].
  intros e _. apply den_sofa_views_ext. intros n _. apply members_of_omit. exact ND.
Qed.

(* C05: a writer may leave out the %VIEWS entries of any member-less views whose sofas it lists: the document describes, and
   loads into, the same CAS *)
Theorem omit_views_invariant L s keep d vs :
  doc_views d = Ok vs -> NoDup (map fst vs) ->
  denote_json L s (omit_views keep d) = denote_json L s d /\ load_json L s (omit_views keep d) = load_json L s d
  /\ load_made L s (omit_views keep d) = load_made L s d.
Proof.
  intros Vs ND. split; [exact (denote_json_omit L s keep d vs Vs ND)|]. split; [exact (load_json_omit L s keep d)|exact (load_made_omit L s keep d)].
Qed.
Theorem restore_views_invariant L s d :
  load_json L s (restore_views d) = load_json L s d /\ load_made L s (restore_views d) = load_made L s d.
Proof. split; [exact (load_json_restore L s d)|exact (load_made_restore L s d)]. Qed.
