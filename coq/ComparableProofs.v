(* ComparableProofs.v — lemmas and theorems about the model of cas_to_comparable_text (Comparable.v). *)
From Cassis Require Import Base Heap Schema Reach Comparable.
From Coq Require Import Ascii DecimalString DecimalZ DecimalPos Decimal ZifyBool.
Open Scope Z_scope.

(* ================================================================================================ A. result monad *)
Lemma bind_ok {A B} (r : res A) (f : A -> res B) b :
  bind r f = Ok b -> exists a, r = Ok a /\ f a = Ok b.
Proof. destruct r; cbn; intros H; try discriminate. eauto. Qed.

Lemma mapM_length {A B} (f : A -> res B) l r : mapM f l = Ok r -> List.length r = List.length l.
Proof.
  revert r. induction l as [|x l IH]; cbn; intros r H.
  - injection H as <-. reflexivity.
  - apply bind_ok in H as (y & Hy & H). apply bind_ok in H as (ys & Hys & H). injection H as <-.
    cbn. f_equal. apply IH. exact Hys.
Qed.

Lemma mapM_ext_in {A B} (f g : A -> res B) l : (forall x, In x l -> f x = g x) -> mapM f l = mapM g l.
Proof.
  induction l as [|x l IH]; cbn; intros H; [reflexivity|].
  rewrite (H x) by auto. rewrite IH by auto. reflexivity.
Qed.

Lemma mapM_all_ok {A B} (f : A -> res B) l : (forall x, In x l -> exists y, f x = Ok y) -> exists r, mapM f l = Ok r.
Proof.
  induction l as [|x l IH]; cbn; intros H; [eauto|].
  destruct (H x) as (y & Hy); [auto|]. destruct IH as (r & Hr); [auto|].
  rewrite Hy, Hr. cbn. eauto.
Qed.

Lemma mapM_In {A B} (f : A -> res B) l r x : mapM f l = Ok r -> In x l -> exists y, f x = Ok y /\ In y r.
Proof.
  revert r. induction l as [|a l IH]; cbn; intros r H Hin; [contradiction|].
  apply bind_ok in H as (y & Hy & H). apply bind_ok in H as (ys & Hys & H). injection H as <-.
  destruct Hin as [->|Hin].
  - exists y. split; [exact Hy|left; reflexivity].
  - destruct (IH _ Hys Hin) as (z & Hz & Hzin). exists z. split; [exact Hz|right; exact Hzin].
Qed.

Lemma mapM_In_inv {A B} (f : A -> res B) l r y : mapM f l = Ok r -> In y r -> exists x, In x l /\ f x = Ok y.
Proof.
  revert r. induction l as [|a l IH]; cbn; intros r H Hin.
  - injection H as <-. contradiction.
  - apply bind_ok in H as (z & Hz & H). apply bind_ok in H as (ys & Hys & H). injection H as <-.
    destruct Hin as [->|Hin]; [exists a; auto|].
    destruct (IH _ Hys Hin) as (x & Hx & Hfx). exists x. auto.
Qed.

(* the same list mapped by two functions to the same result: the functions agree pointwise (on Ok values) *)
Lemma mapM_same {A B} (f g : A -> res B) l r x :
  mapM f l = Ok r -> mapM g l = Ok r -> In x l -> exists y, f x = Ok y /\ g x = Ok y.
Proof.
  revert r. induction l as [|a l IH]; cbn; intros r Hf Hg Hin; [contradiction|].
  apply bind_ok in Hf as (y & Hy & Hf). apply bind_ok in Hf as (ys & Hys & Hf). injection Hf as <-.
  apply bind_ok in Hg as (y' & Hy' & Hg). apply bind_ok in Hg as (ys' & Hys' & Hg). injection Hg as -> ->.
  destruct Hin as [->|Hin]; [eauto|]. eapply IH; eauto.
Qed.

(* two lists mapped to the same result: related position by position *)
Lemma mapM_same2 {A A' B} (f : A -> res B) (g : A' -> res B) l l' r x :
  mapM f l = Ok r -> mapM g l' = Ok r -> In x l -> exists x' y, In x' l' /\ f x = Ok y /\ g x' = Ok y.
Proof.
  revert l' r. induction l as [|a l IH]; cbn; intros l' r Hf Hg Hin; [contradiction|].
  apply bind_ok in Hf as (y & Hy & Hf). apply bind_ok in Hf as (ys & Hys & Hf). injection Hf as <-.
  destruct l' as [|a' l']; cbn in Hg; [discriminate|].
  apply bind_ok in Hg as (y' & Hy' & Hg). apply bind_ok in Hg as (ys' & Hys' & Hg). injection Hg as -> ->.
  destruct Hin as [->|Hin].
  - exists a', y. split; [left; reflexivity|split; assumption].
  - destruct (IH _ _ Hys Hys' Hin) as (x' & z & H1 & H2 & H3). exists x', z. split; [right; exact H1|split; assumption].
Qed.

Lemma mapM_map {A B C} (f : B -> res C) (g : A -> B) l : mapM f (map g l) = mapM (fun x => f (g x)) l.
Proof. induction l as [|x l IH]; cbn; [reflexivity|]. rewrite IH. reflexivity. Qed.

Lemma mapM_pure {A B} (g : A -> B) l : mapM (fun x => Ok (g x)) l = Ok (map g l).
Proof. induction l as [|x l IH]; cbn; [reflexivity|]. rewrite IH. reflexivity. Qed.

Lemma mapM_perm {A B} (f : A -> res B) l l' r :
  Permutation l l' -> mapM f l = Ok r -> exists r', mapM f l' = Ok r' /\ Permutation r r'.
Proof.
  intros P. revert r. induction P as [|x l l' P IH|x y l|l l' l'' P1 IH1 P2 IH2]; intros r H.
  - cbn in H. injection H as <-. exists []. split; [reflexivity|constructor].
  - cbn in H. apply bind_ok in H as (y & Hy & H). apply bind_ok in H as (ys & Hys & H). injection H as <-.
    destruct (IH _ Hys) as (r' & Hr' & Pr). exists (y :: r'). cbn. rewrite Hy, Hr'. cbn. split; [reflexivity|].
    constructor. exact Pr.
  - cbn in H. apply bind_ok in H as (a & Ha & H). apply bind_ok in H as (ys & Hys & H). injection H as <-.
    apply bind_ok in Hys as (b & Hb & Hys). apply bind_ok in Hys as (zs & Hzs & Hys). injection Hys as <-.
    exists (b :: a :: zs). cbn. rewrite Hb, Ha, Hzs. cbn. split; [reflexivity|]. apply perm_swap.
  - destruct (IH1 _ H) as (r' & Hr' & P'). destruct (IH2 _ Hr') as (r'' & Hr'' & P'').
    exists r''. split; [exact Hr''|]. eapply perm_trans; eauto.
Qed.

Lemma Permutation_filter {A} (p : A -> bool) l l' : Permutation l l' -> Permutation (filter p l) (filter p l').
Proof.
  induction 1 as [|x l l' P IH|x y l|l l' l'' P1 IH1 P2 IH2]; cbn.
  - constructor.
  - destruct (p x); [constructor|]; exact IH.
  - destruct (p x), (p y); try apply perm_swap; apply Permutation_refl.
  - eapply perm_trans; eauto.
Qed.

Lemma concat_eq_by_length {A} (a b : list (list A)) :
  Forall2 (fun x y => List.length x = List.length y) a b -> List.concat a = List.concat b -> a = b.
Proof.
  induction 1 as [|x y a b Hl HF IH]; cbn; intros H; [reflexivity|].
  assert (x = y /\ List.concat a = List.concat b) as [-> H'].
  { clear IH HF. revert y Hl H. induction x as [|c x IHx]; intros [|d y] Hl H; cbn in *; try discriminate.
    - auto.
    - injection H as -> H. injection Hl as Hl. destruct (IHx _ Hl H) as [-> ?]. auto. }
  f_equal. apply IH. exact H'.
Qed.

(* ================================================================================================ B. strictly sorted lists are canonical *)
Section Canon.
Variable A : Type.
Variable lt : A -> A -> Prop.
Hypothesis lt_irrefl : forall x, ~ lt x x.
Hypothesis lt_trans : forall x y z, lt x y -> lt y z -> lt x z.

Lemma sorted_perm_eq l l' : StronglySorted lt l -> StronglySorted lt l' -> Permutation l l' -> l = l'.
Proof.
  revert l'. induction l as [|x l IH]; intros l' S S' P.
  - apply Permutation_nil in P. subst. reflexivity.
  - destruct l' as [|y l']; [apply Permutation_sym, Permutation_nil in P; discriminate|].
    apply StronglySorted_inv in S as [S Hx]. apply StronglySorted_inv in S' as [S' Hy].
    assert (x = y) as <-.
    { assert (In x (y :: l')) as Hin by (eapply Permutation_in; [exact P|left; reflexivity]).
      assert (In y (x :: l)) as Hin' by (eapply Permutation_in; [apply Permutation_sym; exact P|left; reflexivity]).
      destruct Hin as [->|Hin]; [reflexivity|]. destruct Hin' as [->|Hin']; [reflexivity|].
      rewrite Forall_forall in Hx, Hy. exfalso. apply (lt_irrefl x). eapply lt_trans; [apply Hx; exact Hin'|apply Hy; exact Hin]. }
    f_equal. apply IH; [exact S|exact S'|]. eapply Permutation_cons_inv. exact P.
Qed.
End Canon.

Lemma StronglySorted_weaken {A} (R R' : A -> A -> Prop) l :
  StronglySorted R l -> NoDup l -> (forall a b, In a l -> In b l -> a <> b -> R a b -> R' a b) -> StronglySorted R' l.
Proof.
  induction 1 as [|x l S IH Hx]; intros ND H; [constructor|].
  inversion ND as [|? ? Hnin ND']; subst. constructor.
  - apply IH; [exact ND'|]. intros a b Ha Hb. apply H; right; assumption.
  - rewrite Forall_forall in *. intros b Hb. apply H; [left; reflexivity|right; exact Hb| |apply Hx; exact Hb].
    intros ->. contradiction.
Qed.

Lemma StronglySorted_map {A B} (R : B -> B -> Prop) (f : A -> B) l :
  StronglySorted (fun a b => R (f a) (f b)) l -> StronglySorted R (map f l).
Proof.
  induction 1 as [|x l S IH Hx]; cbn; constructor; [exact IH|].
  rewrite Forall_forall in *. intros b Hb. apply in_map_iff in Hb as (a & <- & Ha). apply Hx. exact Ha.
Qed.

(* ================================================================================================ C. the order of _compare_fs *)
(* the key _compare_fs orders by when the hash is not consulted: offset-bearing first, begin ascending, end descending *)
Definition ikey (f : fsobj) : Z * Z * Z :=
  match offs f with Some (b, e) => (0, b, - e) | None => (1, 0, 0) end.
Definition klt (k1 k2 : Z * Z * Z) : Prop :=
  let '(r1, b1, e1) := k1 in let '(r2, b2, e2) := k2 in
  r1 < r2 \/ (r1 = r2 /\ (b1 < b2 \/ (b1 = b2 /\ e1 < e2))).
Definition before (a b : item) : Prop := klt (ikey (snd a)) (ikey (snd b)).

Lemma klt_irrefl k : ~ klt k k.
Proof. destruct k as [[r b] e]. cbn. lia. Qed.
Lemma klt_trans k1 k2 k3 : klt k1 k2 -> klt k2 k3 -> klt k1 k3.
Proof. destruct k1 as [[? ?] ?], k2 as [[? ?] ?], k3 as [[? ?] ?]. cbn. lia. Qed.
Lemma klt_total k1 k2 : k1 <> k2 -> klt k1 k2 \/ klt k2 k1.
Proof.
  destruct k1 as [[r1 b1] e1], k2 as [[r2 b2] e2]. cbn. intros H.
  assert (r1 <> r2 \/ b1 <> b2 \/ e1 <> e2) by (destruct (Z.eq_dec r1 r2), (Z.eq_dec b1 b2), (Z.eq_dec e1 e2); subst; try tauto; lia).
  lia.
Qed.
Lemma before_irrefl a : ~ before a a.
Proof. apply klt_irrefl. Qed.
Lemma before_trans a b c : before a b -> before b c -> before a c.
Proof. apply klt_trans. Qed.

Lemma ikey_offs f g : ikey f = ikey g <-> offs f = offs g.
Proof.
  unfold ikey. destruct (offs f) as [[b e]|], (offs g) as [[b' e']|]; split; intros H; try discriminate; try reflexivity.
  - injection H as ? ?. f_equal. f_equal; lia.
  - injection H as -> ->. reflexivity.
Qed.

(* what a group must satisfy for the hash never to be consulted: the premise unique_offsets_per_type on one type *)
Definition uniq (l : list item) : Prop :=
  NoDup l /\ (forall a b, In a l -> In b l -> fst a = fst b -> a = b) /\
  (forall a b, In a l -> In b l -> ikey (snd a) = ikey (snd b) -> a = b).

Lemma val_eq_dec : forall a b : val, {a = b} + {a <> b}.
Proof.
  fix IH 1. intros a b. destruct a, b; try (right; discriminate).
  - left; reflexivity.
  - destruct (Z.eq_dec z z0); [left; subst; reflexivity|right; congruence].
  - destruct (string_dec x x0); [left; subst; reflexivity|right; congruence].
  - destruct (Bool.bool_dec b b0); [left; subst; reflexivity|right; congruence].
  - destruct (string_dec s s0); [left; subst; reflexivity|right; congruence].
  - destruct (N.eq_dec o o0); [left; subst; reflexivity|right; congruence].
  - destruct (list_eq_dec IH l l0); [left; subst; reflexivity|right; congruence].
  - destruct (string_dec n n0); [left; subst; reflexivity|right; congruence].
Defined.
Lemma item_eq_dec : forall a b : item, {a = b} + {a <> b}.
Proof.
  intros [o f] [o' f']. destruct (N.eq_dec o o'); [|right; congruence].
  destruct f as [ty i sl], f' as [ty' i' sl'].
  destruct (string_dec ty ty'); [|right; congruence].
  assert ({i = i'} + {i <> i'}) as [|] by (decide equality; apply Z.eq_dec); [|right; congruence].
  assert ({sl = sl'} + {sl <> sl'}) as [|].
  { apply list_eq_dec. intros [n v] [n' v']. destruct (string_dec n n'); [|right; congruence].
    destruct (val_eq_dec v v'); [left; subst; reflexivity|right; congruence]. }
  - left. subst. reflexivity.
  - right. congruence.
Qed.

Section Order.
Variable hash : tname -> fsobj -> Z.
Variable t : tname.

Lemma cmp_refl a : cmp hash t a a = 0.
Proof. unfold cmp. rewrite N.eqb_refl. reflexivity. Qed.

Lemma cmp_lt_before a b : fst a <> fst b -> ikey (snd a) <> ikey (snd b) -> (cmp hash t a b < 0 <-> before a b).
Proof.
  intros Hne Hk. unfold cmp, before, ikey in *. apply N.eqb_neq in Hne. rewrite Hne.
  destruct (offs (snd a)) as [[b1 e1]|], (offs (snd b)) as [[b2 e2]|]; cbn.
  - destruct (b1 - b2 =? 0) eqn:Eb; cbn [negb].
    + destruct (e2 - e1 =? 0) eqn:Ee; cbn [negb].
      * exfalso. apply Hk. f_equal; [f_equal|]; lia.
      * lia.
    + lia.
  - lia.
  - lia.
  - exfalso. apply Hk. reflexivity.
Qed.

Lemma cmp_before l a b : uniq l -> In a l -> In b l -> (cmp hash t a b < 0 <-> before a b).
Proof.
  intros (ND & U1 & U2) Ha Hb. destruct (N.eq_dec (fst a) (fst b)) as [E|E].
  - rewrite (U1 _ _ Ha Hb E). rewrite cmp_refl. split; [lia|]. intros H. exfalso. eapply before_irrefl. exact H.
  - apply cmp_lt_before; [exact E|]. intros Hk. apply E. rewrite (U2 _ _ Ha Hb Hk). reflexivity.
Qed.

Lemma before_total l a b : uniq l -> In a l -> In b l -> a <> b -> before a b \/ before b a.
Proof. intros (ND & U1 & U2) Ha Hb Hne. apply klt_total. intros Hk. apply Hne. apply U2; assumption. Qed.

(* C20 compare_total_order: on a group with unique offsets _compare_fs is a strict total order, whatever the hash is *)
Theorem compare_total_order l : uniq l ->
  (forall a b, In a l -> In b l -> (cmp hash t a b = 0 <-> a = b)) /\
  (forall a b, In a l -> In b l -> (cmp hash t a b < 0 <-> cmp hash t b a > 0)) /\
  (forall a b c, In a l -> In b l -> In c l -> cmp hash t a b < 0 -> cmp hash t b c < 0 -> cmp hash t a c < 0) /\
  (forall a b, In a l -> In b l -> (cmp hash t a b < 0 <-> before a b)).
Proof.
  intros U. assert (T := before_total l).
  assert (Hz : forall a b, In a l -> In b l -> a <> b -> cmp hash t a b <> 0 /\ (cmp hash t a b < 0 <-> cmp hash t b a > 0)).
  { intros a b Ha Hb Hne. pose proof (cmp_before l a b U Ha Hb) as H1. pose proof (cmp_before l b a U Hb Ha) as H2.
    destruct U as (ND & U1 & U2).
    assert (fst a <> fst b) as Hf by (intros E; apply Hne; apply U1; assumption).
    assert (ikey (snd a) <> ikey (snd b)) as Hk by (intros E; apply Hne; apply U2; assumption).
    clear H1 H2. unfold cmp. apply N.eqb_neq in Hf. rewrite Hf. rewrite N.eqb_sym in Hf. rewrite Hf.
    unfold ikey in Hk. destruct (offs (snd a)) as [[b1 e1]|], (offs (snd b)) as [[b2 e2]|]; cbn.
    - destruct (b1 - b2 =? 0) eqn:Eb; cbn [negb].
      + assert (b2 - b1 =? 0 = true) as -> by lia. cbn [negb].
        destruct (e2 - e1 =? 0) eqn:Ee; cbn [negb].
        * exfalso. apply Hk. f_equal; [f_equal|]; lia.
        * assert (e1 - e2 =? 0 = false) as -> by lia. cbn [negb]. lia.
      + assert (b2 - b1 =? 0 = false) as -> by lia. cbn [negb]. lia.
    - lia.
    - lia.
    - exfalso. apply Hk. reflexivity. }
  split; [|split; [|split]].
  - intros a b Ha Hb. split.
    + intros H. destruct U as (ND & U1 & U2). destruct (N.eq_dec (fst a) (fst b)) as [E|E]; [apply U1; assumption|].
      exfalso. assert (a <> b) as Hne by (intros ->; apply E; reflexivity). destruct (Hz a b Ha Hb Hne) as [Hnz _]. contradiction.
    + intros ->. apply cmp_refl.
  - intros a b Ha Hb. destruct (N.eq_dec (fst a) (fst b)) as [E|E].
    + destruct U as (ND & U1 & U2). rewrite (U1 _ _ Ha Hb E). rewrite cmp_refl. lia.
    + apply Hz; try assumption. intros ->. apply E. reflexivity.
  - intros a b c Ha Hb Hc H1 H2.
    apply (cmp_before l a b U Ha Hb) in H1. apply (cmp_before l b c U Hb Hc) in H2.
    apply (cmp_before l a c U Ha Hc). eapply before_trans; eauto.
  - intros a b Ha Hb. apply (cmp_before l); assumption.
Qed.

Variable sort : (item -> item -> Z) -> list item -> list item.
Hypothesis sort_ok : sort_contract sort.

Lemma uniq_perm l l' : Permutation l l' -> uniq l -> uniq l'.
Proof.
  intros P (ND & U1 & U2). split; [eapply Permutation_NoDup; eauto|].
  split; intros a b Ha Hb; [apply U1|apply U2]; eapply Permutation_in; try apply Permutation_sym; eauto.
Qed.

(* the result of the sort is strictly sorted by the key order *)
Lemma sort_sorted l : uniq l -> StronglySorted before (sort (cmp hash t) l).
Proof.
  intros U. destruct sort_ok as (SP & SS & _).
  assert (P := SP (cmp hash t) l).
  assert (U' := uniq_perm _ _ (Permutation_sym P) U).
  eapply StronglySorted_weaken.
  - apply SS. split; [|split].
    + intros x Hx. rewrite cmp_refl. lia.
    + intros x y z Hx Hy Hz H1 H2.
      apply (cmp_before l x y U Hx Hy) in H1. apply (cmp_before l y z U Hy Hz) in H2.
      apply (cmp_before l x z U Hx Hz). eapply before_trans; eauto.
    + intros x y z Hx Hy Hz H1 H2 H3.
      apply (cmp_before l x z U Hx Hz) in H3.
      assert (~ before x y) as N1 by (intros B; apply H1; apply (cmp_before l x y U Hx Hy); exact B).
      assert (~ before y z) as N2 by (intros B; apply H2; apply (cmp_before l y z U Hy Hz); exact B).
      clear H1 H2.
      destruct (item_eq_dec x y) as [->|Exy]; [contradiction|].
      destruct (item_eq_dec y z) as [->|Eyz]; [contradiction|].
      destruct (before_total l x y U Hx Hy Exy) as [H|H]; [contradiction|].
      destruct (before_total l y z U Hy Hz Eyz) as [H'|H']; [contradiction|].
      apply (before_irrefl x). eapply before_trans; [exact H3|]. eapply before_trans; eauto.
  - destruct U' as (ND & _). exact ND.
  - intros a b Ha Hb Hne Hn.
    assert (In a l) as Ha' by (eapply Permutation_in; eauto).
    assert (In b l) as Hb' by (eapply Permutation_in; eauto).
    assert (~ before b a) as N by (intros B; apply Hn; apply (cmp_before l b a U Hb' Ha'); exact B).
    destruct (before_total l a b U Ha' Hb' Hne); [assumption|contradiction].
Qed.

(* any strictly sorted permutation of the group IS the result of the sort *)
Lemma sort_canonical l m : uniq l -> Permutation m l -> StronglySorted before m -> sort (cmp hash t) l = m.
Proof.
  intros U P S. destruct sort_ok as (SP & _).
  eapply (sorted_perm_eq item before before_irrefl before_trans).
  - apply sort_sorted. exact U.
  - exact S.
  - eapply perm_trans; [apply SP|apply Permutation_sym; exact P].
Qed.
End Order.

(* independence of the order found, of the hash and of the sort algorithm *)
Theorem sort_invariant h1 h2 s1 s2 t l l' :
  sort_contract s1 -> sort_contract s2 -> uniq l -> Permutation l l' ->
  s1 (cmp h1 t) l = s2 (cmp h2 t) l'.
Proof.
  intros C1 C2 U P. apply (sort_canonical h1 t s1 C1); [exact U| |].
  - eapply perm_trans; [apply C2|apply Permutation_sym; exact P].
  - apply (sort_sorted h2 t s2 C2). eapply uniq_perm; eauto.
Qed.

(* ================================================================================================ D. dicts, grouping, sorted names *)
Lemma alookup_aset_same {V} k (v : V) g : alookup k g <> None -> alookup k (aset k v g) = Some v.
Proof.
  induction g as [|[k' v'] g IH]; cbn; intros H; [contradiction|].
  destruct (String.eqb k k') eqn:E; cbn; rewrite E; [reflexivity|]. apply IH. exact H.
Qed.
Lemma alookup_aset_other {V} k k' (v : V) g : k <> k' -> alookup k' (aset k v g) = alookup k' g.
Proof.
  intros Hne. induction g as [|[k2 v2] g IH]; cbn.
  - apply String.eqb_neq in Hne. rewrite String.eqb_sym in Hne. rewrite Hne. reflexivity.
  - destruct (String.eqb k k2) eqn:E; cbn.
    + apply String.eqb_eq in E. subst k2. apply String.eqb_neq in Hne. rewrite String.eqb_sym in Hne.
      rewrite Hne. reflexivity.
    + rewrite IH. reflexivity.
Qed.
Lemma akeys_aset {V} k (v : V) g : alookup k g <> None -> akeys (aset k v g) = akeys g.
Proof.
  unfold akeys. induction g as [|[k' v'] g IH]; cbn; intros H; [contradiction|].
  destruct (String.eqb k k') eqn:E; cbn; [reflexivity|]. f_equal. apply IH. exact H.
Qed.
Lemma alookup_app {V} k (g g' : list (string * V)) :
  alookup k (g ++ g') = match alookup k g with Some v => Some v | None => alookup k g' end.
Proof. induction g as [|[k' v'] g IH]; cbn; [reflexivity|]. destruct (String.eqb k k'); [reflexivity|exact IH]. Qed.
Lemma alookup_none_memb {V} k (g : list (string * V)) : alookup k g = None <-> memb k (akeys g) = false.
Proof.
  unfold akeys. induction g as [|[k' v'] g IH]; cbn; [tauto|].
  destruct (String.eqb k k'); cbn; [split; discriminate|exact IH].
Qed.

Definition ty (it : item) : tname := o_type (snd it).
Definition occ_step (acc : list string) (t : string) : list string := if memb t acc then acc else acc ++ [t].
Definition first_occ (l : list string) : list string := fold_left occ_step l [].
Definition of_type (t : tname) (it : item) : bool := String.eqb (ty it) t.

Lemma group_add_keys g it : akeys (group_add g it) = occ_step (akeys g) (ty it).
Proof.
  unfold group_add, occ_step, ty. destruct (alookup (o_type (snd it)) g) eqn:E.
  - rewrite akeys_aset by congruence.
    destruct (memb (o_type (snd it)) (akeys g)) eqn:M; [reflexivity|].
    apply alookup_none_memb in M. congruence.
  - apply alookup_none_memb in E. rewrite E. unfold akeys. rewrite map_app. reflexivity.
Qed.
Lemma group_add_get g it t : aget t (group_add g it) = if of_type t it then aget t g ++ [it] else aget t g.
Proof.
  unfold group_add, of_type, ty, aget. destruct (alookup (o_type (snd it)) g) eqn:E.
  - destruct (String.eqb (o_type (snd it)) t) eqn:Et.
    + apply String.eqb_eq in Et. subst t. rewrite alookup_aset_same by congruence. rewrite E. reflexivity.
    + apply String.eqb_neq in Et. rewrite alookup_aset_other by exact Et. reflexivity.
  - rewrite alookup_app. cbn. destruct (String.eqb (o_type (snd it)) t) eqn:Et.
    + apply String.eqb_eq in Et. subst t. rewrite E. rewrite String.eqb_refl. reflexivity.
    + rewrite String.eqb_sym in Et. rewrite Et. destruct (alookup t g); reflexivity.
Qed.
Lemma group_keys_gen l g : akeys (fold_left group_add l g) = fold_left occ_step (map ty l) (akeys g).
Proof. revert g. induction l as [|x l IH]; intros g; cbn [fold_left map]; [reflexivity|]. rewrite IH, group_add_keys. reflexivity. Qed.
Lemma group_get_gen l g t : aget t (fold_left group_add l g) = aget t g ++ filter (of_type t) l.
Proof.
  revert g. induction l as [|x l IH]; intros g; cbn [fold_left filter]; [rewrite app_nil_r; reflexivity|].
  rewrite IH, group_add_get. destruct (of_type t x); [rewrite <- app_assoc; reflexivity|reflexivity].
Qed.
Lemma group_keys l : akeys (group l) = first_occ (map ty l).
Proof. apply group_keys_gen. Qed.
Lemma group_get l t : aget t (group l) = filter (of_type t) l.
Proof. unfold group. rewrite group_get_gen. reflexivity. Qed.

Lemma occ_fold_spec l acc : NoDup acc ->
  NoDup (fold_left occ_step l acc) /\ (forall t, In t (fold_left occ_step l acc) <-> In t acc \/ In t l).
Proof.
  revert acc. induction l as [|x l IH]; intros acc ND; cbn; [split; [exact ND|intros t; tauto]|].
  assert (NoDup (occ_step acc x)) as ND'.
  { unfold occ_step. destruct (memb x acc) eqn:M; [exact ND|].
    eapply Permutation_NoDup; [apply Permutation_cons_append|].
    constructor; [|exact ND]. intros Hin. apply memb_In in Hin. congruence. }
  destruct (IH _ ND') as [N H]. split; [exact N|]. intros t. rewrite H.
  unfold occ_step. destruct (memb x acc) eqn:M.
  - apply memb_In in M. split; [tauto|]. intros [?|[->|?]]; tauto.
  - rewrite in_app_iff. cbn. tauto.
Qed.
Lemma first_occ_NoDup l : NoDup (first_occ l).
Proof. apply (occ_fold_spec l []). constructor. Qed.
Lemma first_occ_In l t : In t (first_occ l) <-> In t l.
Proof. destruct (occ_fold_spec l [] (NoDup_nil _)) as [_ H]. rewrite H. cbn. tauto. Qed.

(* ---- the order of Python's str comparison on the model's strings ---- *)
Definition slt (a b : string) : Prop := String.compare a b = Lt.
Lemma ascii_cmp_lt_trans a b c : Ascii.compare a b = Lt -> Ascii.compare b c = Lt -> Ascii.compare a c = Lt.
Proof. unfold Ascii.compare. rewrite !N.compare_lt_iff. lia. Qed.
Lemma ascii_cmp_refl a : Ascii.compare a a = Eq.
Proof. unfold Ascii.compare. apply N.compare_refl. Qed.
Lemma slt_irrefl a : ~ slt a a.
Proof. unfold slt. induction a as [|c a IH]; cbn; [discriminate|]. rewrite ascii_cmp_refl. exact IH. Qed.
Lemma slt_trans a b c : slt a b -> slt b c -> slt a c.
Proof.
  unfold slt. revert b c. induction a as [|x a IH]; intros [|y b] [|z c]; cbn; try discriminate; try reflexivity.
  destruct (Ascii.compare x y) eqn:E1; try discriminate.
  - apply Ascii.compare_eq_iff in E1. subst y. destruct (Ascii.compare x z) eqn:E2; try discriminate; [|reflexivity].
    intros H1 H2. eapply IH; eauto.
  - destruct (Ascii.compare y z) eqn:E2; try discriminate.
    + apply Ascii.compare_eq_iff in E2. subst z. rewrite E1. reflexivity.
    + rewrite (ascii_cmp_lt_trans _ _ _ E1 E2). reflexivity.
Qed.
Lemma leb_slt a b : String.leb a b = true -> a <> b -> slt a b.
Proof.
  unfold String.leb, slt. destruct (String.compare a b) eqn:E; try discriminate; [|reflexivity].
  intros _ H. exfalso. apply H. apply String.compare_eq_iff. exact E.
Qed.
Lemma slt_leb a b : slt a b -> String.leb a b = true.
Proof. unfold String.leb, slt. intros ->. reflexivity. Qed.
Lemma leb_refl a : String.leb a a = true.
Proof. destruct (String.leb_total a a); assumption. Qed.
Lemma leb_trans a b c : String.leb a b = true -> String.leb b c = true -> String.leb a c = true.
Proof.
  intros H1 H2. destruct (string_dec a b) as [->|N1]; [exact H2|]. destruct (string_dec b c) as [<-|N2]; [exact H1|].
  apply slt_leb. eapply slt_trans; apply leb_slt; eassumption.
Qed.

Section SortBy.
Context {A : Type} (key : A -> string).
Lemma insert_by_perm x l : Permutation (insert_by key x l) (x :: l).
Proof.
  induction l as [|y l IH]; cbn; [apply Permutation_refl|].
  destruct (String.leb (key x) (key y)); [apply Permutation_refl|].
  eapply perm_trans; [apply perm_skip; exact IH|apply perm_swap].
Qed.
Lemma sort_by_perm l : Permutation (sort_by key l) l.
Proof.
  induction l as [|x l IH]; cbn; [constructor|]. eapply perm_trans; [apply insert_by_perm|]. constructor. exact IH.
Qed.
Definition kle (a b : A) : Prop := String.leb (key a) (key b) = true.
Lemma insert_by_sorted x l : StronglySorted kle l -> StronglySorted kle (insert_by key x l).
Proof.
  induction 1 as [|y l S IH Hy]; cbn; [constructor; constructor|].
  destruct (String.leb (key x) (key y)) eqn:E.
  - constructor; [constructor; assumption|]. constructor; [exact E|].
    rewrite Forall_forall in *. intros z Hz. unfold kle. eapply leb_trans; [exact E|apply Hy; exact Hz].
  - constructor; [exact IH|]. rewrite Forall_forall in *. intros z Hz.
    apply (Permutation_in _ (insert_by_perm x l)) in Hz. destruct Hz as [<-|Hz]; [|apply Hy; exact Hz].
    unfold kle. destruct (String.leb_total (key x) (key y)) as [H|H]; [congruence|exact H].
Qed.
Lemma sort_by_sorted l : StronglySorted kle (sort_by key l).
Proof. induction l as [|x l IH]; cbn; [constructor|]. apply insert_by_sorted. exact IH. Qed.

(* distinct keys: the sorted list does not depend on the order of the input *)
Lemma sort_by_canonical l l' : NoDup (map key l) -> Permutation l l' -> sort_by key l = sort_by key l'.
Proof.
  intros ND P.
  assert (Kinj : forall a b, In a l -> In b l -> key a = key b -> a = b).
  { clear P. induction l as [|x l IH]; cbn; [contradiction|]. inversion ND as [|? ? Hn ND']; subst.
    intros a b [<-|Ha] [<-|Hb] E; try reflexivity.
    - exfalso. apply Hn. rewrite E. apply in_map. exact Hb.
    - exfalso. apply Hn. rewrite <- E. apply in_map. exact Ha.
    - apply IH; assumption. }
  assert (NDl : NoDup l) by (eapply NoDup_map_inv; exact ND).
  apply (sorted_perm_eq A (fun a b => slt (key a) (key b))).
  - intros x. apply slt_irrefl.
  - intros x y z. apply slt_trans.
  - eapply StronglySorted_weaken; [apply sort_by_sorted| |].
    + eapply Permutation_NoDup; [apply Permutation_sym, sort_by_perm|exact NDl].
    + intros a b Ha Hb Hne H. apply leb_slt; [exact H|]. intros E. apply Hne.
      apply Kinj; [eapply Permutation_in; [apply sort_by_perm|exact Ha]|eapply Permutation_in; [apply sort_by_perm|exact Hb]|exact E].
  - eapply StronglySorted_weaken; [apply sort_by_sorted| |].
    + eapply Permutation_NoDup; [apply Permutation_sym, sort_by_perm|]. eapply Permutation_NoDup; eauto.
    + intros a b Ha Hb Hne H. apply leb_slt; [exact H|]. intros E. apply Hne.
      apply Kinj; [| |exact E].
      * eapply Permutation_in; [apply Permutation_sym; exact P|]. eapply Permutation_in; [apply sort_by_perm|exact Ha].
      * eapply Permutation_in; [apply Permutation_sym; exact P|]. eapply Permutation_in; [apply sort_by_perm|exact Hb].
  - eapply perm_trans; [apply sort_by_perm|]. eapply perm_trans; [exact P|]. apply Permutation_sym, sort_by_perm.
Qed.
End SortBy.

(* ================================================================================================ E. the premise, and independence of the order found *)
Lemma resolve_spec h found items : resolve h found = Ok items ->
  map fst items = found /\ (forall it, In it items -> hget h (fst it) = Some (snd it)).
Proof.
  unfold resolve. revert items. induction found as [|o l IH]; cbn; intros items H.
  - injection H as <-. split; [reflexivity|contradiction].
  - apply bind_ok in H as (y & Hy & H). apply bind_ok in H as (ys & Hys & H). injection H as <-.
    destruct (hget h o) as [f|] eqn:E; [|discriminate]. injection Hy as <-.
    destruct (IH _ Hys) as [H1 H2]. split; [cbn; f_equal; exact H1|].
    intros it [<-|Hin]; [exact E|apply H2; exact Hin].
Qed.

Lemma okey_eqb_spec f g : okey_eqb f g = true <-> o_type f = o_type g /\ offs f = offs g.
Proof.
  unfold okey_eqb. rewrite andb_true_iff, String.eqb_eq.
  destruct (offs f) as [[b1 e1]|], (offs g) as [[b2 e2]|]; split; intros [H1 H2]; split; try assumption; try discriminate; try reflexivity.
  - apply andb_true_iff in H2 as [Hb He]. f_equal. f_equal; lia.
  - injection H2 as -> ->. rewrite !Z.eqb_refl. reflexivity.
Qed.

Lemma unique_keysb_spec l : unique_keysb l = true ->
  NoDup l /\ (forall a b, In a l -> In b l -> o_type (snd a) = o_type (snd b) -> offs (snd a) = offs (snd b) -> a = b).
Proof.
  induction l as [|x l IH]; cbn; intros H; [split; [constructor|contradiction]|].
  apply andb_true_iff in H as [Hx Hl]. apply negb_true_iff in Hx. destruct (IH Hl) as [ND U].
  assert (Hnone : forall y, In y l -> o_type (snd x) = o_type (snd y) -> offs (snd x) = offs (snd y) -> False).
  { intros y Hy Ht Ho. assert (existsb (fun y => okey_eqb (snd x) (snd y)) l = true) as C; [|congruence].
    apply existsb_exists. exists y. split; [exact Hy|]. apply okey_eqb_spec. auto. }
  split.
  - constructor; [|exact ND]. intros Hin. apply (Hnone x Hin); reflexivity.
  - intros a b [<-|Ha] [<-|Hb] Ht Ho; try reflexivity.
    + exfalso. eapply Hnone; eauto.
    + exfalso. eapply (Hnone a); eauto.
    + apply U; assumption.
Qed.

Lemma uniq_group h found items t :
  resolve h found = Ok items -> unique_keysb items = true -> uniq (filter (of_type t) items).
Proof.
  intros R K. destruct (resolve_spec _ _ _ R) as [_ Hh]. destruct (unique_keysb_spec _ K) as [ND U].
  split; [apply NoDup_filter; exact ND|]. split.
  - intros a b Ha Hb E. apply filter_In in Ha as [Ha _]. apply filter_In in Hb as [Hb _].
    pose proof (Hh _ Ha) as H1. pose proof (Hh _ Hb) as H2. rewrite E in H1. rewrite H1 in H2. injection H2 as H2.
    destruct a, b; cbn in *; subst; reflexivity.
  - intros a b Ha Hb E. apply filter_In in Ha as [Ha Ta]. apply filter_In in Hb as [Hb Tb].
    unfold of_type, ty in Ta, Tb. apply String.eqb_eq in Ta, Tb. apply U; try assumption; [congruence|].
    apply ikey_offs. exact E.
Qed.

Lemma first_occ_perm l l' : Permutation l l' -> Permutation (first_occ l) (first_occ l').
Proof.
  intros P. apply NoDup_Permutation; try apply first_occ_NoDup.
  intros t. rewrite !first_occ_In. split; apply Permutation_in; [exact P|apply Permutation_sym; exact P].
Qed.

Lemma listing_invariant h1 h2 s1 s2 s items items' :
  sort_contract s1 -> sort_contract s2 ->
  (forall t, uniq (filter (of_type t) items)) -> Permutation items items' ->
  listing h1 s1 s items = listing h2 s2 s items'.
Proof.
  intros C1 C2 U P. unfold listing. cbv zeta.
  assert (sort_by (fun t : string => t) (akeys (group items)) = sort_by (fun t : string => t) (akeys (group items'))) as <-.
  { apply sort_by_canonical.
    - rewrite map_id, group_keys. apply first_occ_NoDup.
    - rewrite !group_keys. apply first_occ_perm. apply Permutation_map. exact P. }
  apply mapM_ext_in. intros t _. destruct (sch_find s t); [|reflexivity]. do 2 f_equal.
  rewrite !group_get. apply sort_invariant; [exact C1|exact C2|apply U|apply Permutation_filter; exact P].
Qed.

(* C20 render_invariant_order: the rows do not depend on the order in which the structures are found, nor on the hash,
   nor on which correct sort algorithm is used *)
Theorem rows_invariant_order h1 h2 s1 s2 ff rs o s vs h found found' :
  sort_contract s1 -> sort_contract s2 ->
  unique_offsets_per_type h found = true -> Permutation found found' ->
  rows_of h1 s1 ff rs o s vs h found = rows_of h2 s2 ff rs o s vs h found'.
Proof.
  intros C1 C2 U P. unfold unique_offsets_per_type in U. destruct (resolve h found) as [items| |] eqn:R; try discriminate.
  assert (exists items', resolve h found' = Ok items' /\ Permutation items items') as (items' & R' & Pi).
  { unfold resolve in *. eapply mapM_perm; eauto. }
  unfold rows_of. rewrite R, R'. cbn [bind].
  rewrite (listing_invariant h1 h2 s1 s2 s items items' C1 C2); [reflexivity| |exact Pi].
  intros t. eapply uniq_group; [exact R|exact U].
Qed.

(* the views enter only through the set of indexed structures and the sofas *)
Lemma memN_In o l : memN o l = true <-> In o l.
Proof.
  induction l as [|x l IH]; cbn; [split; [discriminate|contradiction]|].
  rewrite orb_true_iff, IH, N.eqb_eq. split; intros [H|H]; auto.
Qed.

(* ================================================================================================ F. xmi:ids do not matter *)
Definition rmap {A B} (g : A -> B) (r : res A) : res B :=
  match r with Ok a => Ok (g a) | Err e => Err e | OutOfFuel => OutOfFuel end.
Lemma bind_rmap {A B C} (g : A -> B) (r : res A) (k : B -> res C) : bind (rmap g r) k = bind r (fun a => k (g a)).
Proof. destruct r; reflexivity. Qed.
Lemma mapM_rmap {A B B'} (f : A -> res B) (f' : A -> res B') (g : B -> B') l :
  (forall x, In x l -> f' x = rmap g (f x)) -> mapM f' l = rmap (map g) (mapM f l).
Proof.
  induction l as [|x l IH]; cbn; intros H; [reflexivity|].
  rewrite (H x) by auto. rewrite IH by auto. destruct (f x); cbn; try reflexivity. destruct (mapM f l); reflexivity.
Qed.

Definition ren_fs (rho : xid -> xid) (f : fsobj) : fsobj := mkFs (o_type f) (option_map rho (o_id f)) (o_slots f).
Definition ren_heap (rho : xid -> xid) (h : heap) : heap := map (fun p => (fst p, ren_fs rho (snd p))) h.
Definition ren_item (rho : xid -> xid) (it : item) : item := (fst it, ren_fs rho (snd it)).
Definition ren_dict (rho : xid -> xid) (d : adict) : adict := map (fun p => (option_map rho (fst p), snd p)) d.

Section Rename.
Variable rho : xid -> xid.
Hypothesis rho_inj : forall a b, rho a = rho b -> a = b.

Lemma hget_ren h o : hget (ren_heap rho h) o = option_map (ren_fs rho) (hget h o).
Proof. induction h as [|[o' f] h IH]; cbn; [reflexivity|]. destruct (N.eqb o o'); [reflexivity|exact IH]. Qed.
Lemma slot_ren f n : slot (ren_fs rho f) n = slot f n.
Proof. reflexivity. Qed.
Lemma offs_ren f : offs (ren_fs rho f) = offs f.
Proof. reflexivity. Qed.
Lemma ikey_ren f : ikey (ren_fs rho f) = ikey f.
Proof. reflexivity. Qed.

Lemma resolve_ren h found : resolve (ren_heap rho h) found = rmap (map (ren_item rho)) (resolve h found).
Proof.
  unfold resolve. apply mapM_rmap. intros o _. rewrite hget_ren. destruct (hget h o); reflexivity.
Qed.

Lemma filter_ren t l : filter (of_type t) (map (ren_item rho) l) = map (ren_item rho) (filter (of_type t) l).
Proof.
  induction l as [|x l IH]; cbn [map filter]; [reflexivity|]. change (of_type t (ren_item rho x)) with (of_type t x).
  destruct (of_type t x); cbn [map]; rewrite IH; reflexivity.
Qed.

Lemma NoDup_map_in {A B} (f : A -> B) l : NoDup l -> (forall a b, In a l -> In b l -> f a = f b -> a = b) -> NoDup (map f l).
Proof.
  induction 1 as [|x l Hn ND IH]; cbn; intros H; constructor.
  - intros Hin. apply in_map_iff in Hin as (y & Hy & Hin). apply Hn. rewrite <- (H y x); auto.
  - apply IH. intros a b Ha Hb. apply H; right; assumption.
Qed.

Lemma uniq_ren l : uniq l -> uniq (map (ren_item rho) l).
Proof.
  intros (ND & U1 & U2). split; [|split].
  - apply (NoDup_map_inv fst). rewrite map_map. cbn. apply NoDup_map_in; [exact ND|]. intros a b Ha Hb E. apply U1; assumption.
  - intros a' b' Ha Hb E. apply in_map_iff in Ha as (a & <- & Ha). apply in_map_iff in Hb as (b & <- & Hb).
    rewrite (U1 a b Ha Hb E). reflexivity.
  - intros a' b' Ha Hb E. apply in_map_iff in Ha as (a & <- & Ha). apply in_map_iff in Hb as (b & <- & Hb).
    rewrite (U2 a b Ha Hb E). reflexivity.
Qed.

Variable hash : tname -> fsobj -> Z.
Variable sort : (item -> item -> Z) -> list item -> list item.
Hypothesis sort_ok : sort_contract sort.

Lemma sort_ren t l : uniq l -> sort (cmp hash t) (map (ren_item rho) l) = map (ren_item rho) (sort (cmp hash t) l).
Proof.
  intros U. apply (sort_canonical hash t sort sort_ok).
  - apply uniq_ren. exact U.
  - apply Permutation_map. destruct sort_ok as (SP & _). apply SP.
  - apply StronglySorted_map. apply (sort_sorted hash t sort sort_ok). exact U.
Qed.

Definition ren_block (b : tinfo * list item) : tinfo * list item := (fst b, map (ren_item rho) (snd b)).

Lemma listing_ren s items : (forall t, uniq (filter (of_type t) items)) ->
  listing hash sort s (map (ren_item rho) items) = rmap (map ren_block) (listing hash sort s items).
Proof.
  intros U. unfold listing. cbv zeta.
  replace (akeys (group (map (ren_item rho) items))) with (akeys (group items)).
  2:{ rewrite !group_keys, map_map. reflexivity. }
  apply mapM_rmap. intros t _. destruct (sch_find s t); [|reflexivity]. cbn. unfold ren_block. cbn. do 2 f_equal.
  rewrite !group_get, filter_ren. apply sort_ren. apply U.
Qed.

Lemma flat_map_ren ls : flat_map snd (map ren_block ls) = map (ren_item rho) (flat_map snd ls).
Proof. induction ls as [|b ls IH]; cbn; [reflexivity|]. rewrite map_app, IH. reflexivity. Qed.

Lemma assign_ren dis pre :
  assign dis (map (fun p => (ren_item rho (fst p), snd p)) pre) = map (fun p => (ren_item rho (fst p), snd p)) (assign dis pre).
Proof.
  revert dis. induction pre as [|[it a] pre IH]; intros dis; cbn; [reflexivity|]. rewrite IH. reflexivity.
Qed.

Lemma anchors_ren o idx ls :
  anchors o idx (map ren_block ls) = rmap (ren_dict rho) (anchors o idx ls).
Proof.
  unfold anchors. rewrite flat_map_ren, mapM_map.
  rewrite (mapM_rmap (fun it => do a <- anchor_prefix (op_mark o) idx it ;; Ok (it, a)) _ (fun p => (ren_item rho (fst p), snd p))).
  2:{ intros it _. change (anchor_prefix (op_mark o) idx (ren_item rho it)) with (anchor_prefix (op_mark o) idx it).
      destruct (anchor_prefix (op_mark o) idx it); reflexivity. }
  rewrite bind_rmap. destruct (mapM _ (flat_map snd ls)) as [pre| |]; cbn; try reflexivity.
  rewrite assign_ren. unfold dict_of, ren_dict. rewrite !map_map. reflexivity.
Qed.

Lemma opt_eqb_ren k k' : opt_eqb Z.eqb (option_map rho k) (option_map rho k') = opt_eqb Z.eqb k k'.
Proof.
  destruct k as [a|], k' as [b|]; cbn; try reflexivity.
  destruct (Z.eqb a b) eqn:E.
  - apply Z.eqb_eq in E. subst. apply Z.eqb_refl.
  - apply Z.eqb_neq. intros H. apply rho_inj in H. apply Z.eqb_neq in E. contradiction.
Qed.
Lemma dget_ren k d : dget (option_map rho k) (ren_dict rho d) = dget k d.
Proof.
  unfold dget. generalize (@None string). induction d as [|[k' a] d IH]; intros acc; cbn; [reflexivity|].
  rewrite opt_eqb_ren. apply IH.
Qed.

Lemma render_val_ren fuel h d act v :
  render_val fuel (ren_heap rho h) (ren_dict rho d) act v = render_val fuel h d act v.
Proof.
  revert act v. induction fuel as [|k IH]; intros act v; [reflexivity|]. cbn [render_val].
  destruct v; try reflexivity.
  - rewrite hget_ren. destruct (hget h o) as [f|]; [|reflexivity]. cbn [option_map].
    change (o_type (ren_fs rho f)) with (o_type f). change (o_id (ren_fs rho f)) with (option_map rho (o_id f)).
    rewrite dget_ren. change (slot (ren_fs rho f) "elements") with (slot f "elements").
    destruct (is_array_name (o_type f)); [|reflexivity]. destruct (memN o act); [reflexivity|].
    destruct (slot f "elements"); try reflexivity.
    rewrite (mapM_ext_in _ (render_val k h d (o :: act))) by (intros; apply IH). reflexivity.
  - rewrite (mapM_ext_in _ (render_val k h d act)) by (intros; apply IH). reflexivity.
Qed.

Lemma render_fs_ren ff rs vs h d ti isann it :
  render_fs ff rs vs (ren_heap rho h) (ren_dict rho d) ti isann (ren_item rho it) = render_fs ff rs vs h d ti isann it.
Proof.
  unfold render_fs. cbn [snd fst ren_item].
  change (o_id (ren_fs rho (snd it))) with (option_map rho (o_id (snd it))). rewrite dget_ren.
  change (offs (ren_fs rho (snd it))) with (offs (snd it)).
  change (o_type (ren_fs rho (snd it))) with (o_type (snd it)).
  change (covered vs (ren_fs rho (snd it))) with (covered vs (snd it)).
  replace (List.length (ren_heap rho h)) with (List.length h) by (unfold ren_heap; rewrite map_length; reflexivity).
  destruct (match isann with true => _ | false => _ end) as [ct| |]; cbn [bind]; try reflexivity.
  destruct (is_array_name (o_type (snd it))).
  - change (slot (ren_fs rho (snd it)) "elements") with (slot (snd it) "elements"). rewrite render_val_ren. reflexivity.
  - rewrite (mapM_ext_in _ (fun fd => do p <- render_val (S (S (List.length h))) h d [] (slot (snd it) (fd_name fd)) ;; Ok (cell ff rs p))).
    + reflexivity.
    + intros fd _. change (slot (ren_fs rho (snd it)) (fd_name fd)) with (slot (snd it) (fd_name fd)).
      rewrite render_val_ren. reflexivity.
Qed.

Lemma block_ren ff rs o s vs h d b :
  block ff rs o s vs (ren_heap rho h) (ren_dict rho d) (ren_block b) = block ff rs o s vs h d b.
Proof.
  unfold block. cbn [fst snd ren_block]. destruct (memb (ti_name (fst b)) (op_exclude o)); [reflexivity|].
  rewrite mapM_map. rewrite (mapM_ext_in _ (render_fs ff rs vs h d (fst b) (op_covered o && memb T_ANNOTATION (ti_anc (fst b))))).
  - reflexivity.
  - intros it _. apply render_fs_ren.
Qed.

(* C20 render_invariant_ids: renumbering the xmi:ids by an injective map leaves the rows unchanged *)
Theorem rows_invariant_ids ff rs o s vs h found :
  unique_offsets_per_type h found = true ->
  rows_of hash sort ff rs o s vs (ren_heap rho h) found = rows_of hash sort ff rs o s vs h found.
Proof.
  intros U. unfold unique_offsets_per_type in U. destruct (resolve h found) as [items| |] eqn:R; try discriminate.
  unfold rows_of. rewrite resolve_ren, R. cbn [rmap bind].
  rewrite listing_ren by (intros t; eapply uniq_group; eauto).
  rewrite bind_rmap. destruct (listing hash sort s items) as [ls| |]; cbn [bind]; try reflexivity.
  rewrite anchors_ren, bind_rmap. destruct (anchors o (flat_map v_members vs) ls) as [d| |]; cbn [bind]; try reflexivity.
  rewrite mapM_map. rewrite (mapM_ext_in _ (block ff rs o s vs h d)) by (intros b _; apply block_ren). reflexivity.
Qed.
End Rename.

(* ================================================================================================ G. shape of the result, listing order *)
Lemma sch_find_name s t ti : sch_find s t = Some ti -> ti_name ti = t.
Proof.
  induction s as [|x s IH]; cbn; [discriminate|]. destruct (String.eqb t (ti_name x)) eqn:E; [|exact IH].
  intros H. injection H as <-. apply String.eqb_eq in E. congruence.
Qed.

(* the order in readable form *)
Definition listed_before (f g : fsobj) : Prop :=
  match offs f, offs g with
  | Some (b1, e1), Some (b2, e2) => b1 < b2 \/ (b1 = b2 /\ e1 > e2)
  | Some _, None => True
  | None, _ => False
  end.
Lemma before_listed a b : before a b <-> listed_before (snd a) (snd b).
Proof.
  unfold before, listed_before, ikey, klt. destruct (offs (snd a)) as [[b1 e1]|], (offs (snd b)) as [[b2 e2]|]; lia.
Qed.

Section Shape.
Variable hash : tname -> fsobj -> Z.
Variable sort : (item -> item -> Z) -> list item -> list item.
Variable ff : flt -> string.
Variable rs : string -> string.
Hypothesis sort_ok : sort_contract sort.

Lemma listing_blocks s items ls b : listing hash sort s items = Ok ls -> In b ls ->
  sch_find s (ti_name (fst b)) = Some (fst b) /\
  In (ti_name (fst b)) (map ty items) /\
  snd b = sort (cmp hash (ti_name (fst b))) (filter (of_type (ti_name (fst b))) items).
Proof.
  unfold listing. cbv zeta. intros L Hb. destruct (mapM_In_inv _ _ _ _ L Hb) as (t & Ht & Hf).
  destruct (sch_find s t) as [ti|] eqn:E; [|discriminate]. injection Hf as <-. cbn [fst snd].
  rewrite (sch_find_name _ _ _ E). split; [exact E|]. split.
  - eapply Permutation_in in Ht; [|apply sort_by_perm]. rewrite group_keys in Ht. apply (proj1 (first_occ_In _ _)) in Ht. exact Ht.
  - rewrite group_get. reflexivity.
Qed.

(* C20 listing_order: every type block lists exactly the found structures of the type, the offset-bearing ones first, by
   begin ascending and then end descending *)
Theorem listing_order s h found items ls : resolve h found = Ok items -> unique_keysb items = true ->
  listing hash sort s items = Ok ls ->
  forall b, In b ls ->
    StronglySorted (fun x y => listed_before (snd x) (snd y)) (snd b) /\
    Permutation (snd b) (filter (of_type (ti_name (fst b))) items).
Proof.
  intros R K L b Hb. destruct (listing_blocks _ _ _ _ L Hb) as (_ & _ & ->). split.
  - eapply StronglySorted_weaken with (R := before).
    + apply (sort_sorted hash _ sort sort_ok). eapply uniq_group; eauto.
    + destruct sort_ok as (SP & _). eapply Permutation_NoDup; [apply Permutation_sym, SP|].
      apply NoDup_filter. apply (unique_keysb_spec _ K).
    + intros x y _ _ _ H. apply before_listed. exact H.
  - destruct sort_ok as (SP & _). apply SP.
Qed.

(* the rows are the concatenation of the type blocks, each block [type name] :: header :: one row per listed structure *)
Lemma rows_of_inv o s vs h found R : rows_of hash sort ff rs o s vs h found = Ok R ->
  exists items ls d bl,
    resolve h found = Ok items /\ listing hash sort s items = Ok ls /\
    anchors o (flat_map v_members vs) ls = Ok d /\ mapM (block ff rs o s vs h d) ls = Ok bl /\ R = List.concat bl.
Proof.
  unfold rows_of. intros H. apply bind_ok in H as (items & H1 & H). apply bind_ok in H as (ls & H2 & H).
  apply bind_ok in H as (d & H3 & H). apply bind_ok in H as (bl & H4 & H). injection H as <-.
  exists items, ls, d, bl. auto.
Qed.

Definition isann_of (o : opts) (ti : tinfo) : bool := op_covered o && memb T_ANNOTATION (ti_anc ti).
Lemma block_inv o s vs h d b rows : block ff rs o s vs h d b = Ok rows ->
  (memb (ti_name (fst b)) (op_exclude o) = true /\ rows = []) \/
  (memb (ti_name (fst b)) (op_exclude o) = false /\
   exists rr, mapM (render_fs ff rs vs h d (fst b) (isann_of o (fst b))) (snd b) = Ok rr /\
              rows = [ti_name (fst b)] :: header (fst b) (isann_of o (fst b)) :: rr).
Proof.
  unfold block. destruct (memb (ti_name (fst b)) (op_exclude o)); intros H.
  - left. injection H as <-. auto.
  - right. split; [reflexivity|]. apply bind_ok in H as (rr & Hr & H). injection H as <-. exists rr. auto.
Qed.
End Shape.

(* ================================================================================================ H. rendering never fails *)
Lemma hget_In h o f : hget h o = Some f -> In (o, f) h.
Proof.
  induction h as [|[o' g] h IH]; cbn; [discriminate|]. destruct (N.eqb o o') eqn:E.
  - intros H. injection H as ->. apply N.eqb_eq in E. subst. left. reflexivity.
  - intros H. right. apply IH. exact H.
Qed.

Section Total.
Variable vs : list cview.
Variable h : heap.
Hypothesis heap_ok : forall o f, hget h o = Some f -> obj_ok vs h f = true.

Lemma alookup_forallb {V} (P : string * V -> bool) n sl v :
  forallb P sl = true -> alookup n sl = Some v -> P (n, v) = true.
Proof.
  induction sl as [|[m w] sl IH]; cbn [alookup forallb]; [discriminate|]. intros H. apply andb_true_iff in H as [H1 H2].
  destruct (String.eqb n m) eqn:E.
  - apply String.eqb_eq in E. subst m. intros H. injection H as <-. exact H1.
  - apply IH. exact H2.
Qed.
Lemma slot_sofa_ok o f : hget h o = Some f -> sofa_ok vs (slot f "sofa") = true.
Proof.
  intros H. apply heap_ok in H. unfold obj_ok in H. apply andb_true_iff in H as [H _]. unfold slot.
  destruct (alookup "sofa" (o_slots f)) as [v|] eqn:E; [|reflexivity].
  apply (alookup_forallb _ _ _ _ H E).
Qed.
Lemma slot_val_ok o f n : hget h o = Some f -> n <> "sofa" -> val_ok h (slot f n) = true.
Proof.
  intros H Hn. apply heap_ok in H. unfold obj_ok in H. apply andb_true_iff in H as [H _]. unfold slot.
  destruct (alookup n (o_slots f)) as [v|] eqn:E; [|reflexivity].
  pose proof (alookup_forallb _ _ _ _ H E) as P. cbn [fst snd] in P. apply String.eqb_neq in Hn. rewrite Hn in P. exact P.
Qed.
Lemma elements_shape o f : hget h o = Some f -> is_array_name (o_type f) = true ->
  slot f "elements" = VNone \/ exists l, slot f "elements" = VList l.
Proof.
  intros H A. apply heap_ok in H. unfold obj_ok in H. apply andb_true_iff in H as [_ H]. rewrite A in H.
  destruct (slot f "elements"); try discriminate; eauto.
Qed.

Lemma leaf_val_ok v : leaf_ok h v = true -> val_ok h v = true /\ (match v with VList _ => False | _ => True end).
Proof. destruct v; cbn; intros H; try discriminate; auto. Qed.

Lemma render_val_total d fuel : forall act v,
  NoDup act -> (forall o, In o act -> exists f, hget h o = Some f) -> val_ok h v = true ->
  (List.length h + 1 + (match v with VList _ => 1 | _ => 0 end) <= fuel + List.length act)%nat ->
  exists p, render_val fuel h d act v = Ok p.
Proof.
  induction fuel as [|k IH]; intros act v ND Hact Hv Hb.
  - exfalso. assert (List.length act <= List.length (map fst h))%nat as Hl.
    { apply NoDup_incl_length; [exact ND|]. intros o Ho. destruct (Hact o Ho) as (f & Hf).
      apply hget_In in Hf. apply in_map_iff. exists (o, f). auto. }
    rewrite map_length in Hl. destruct v; lia.
  - cbn [render_val]. destruct v; try (eexists; reflexivity).
    + cbn in Hv. destruct (hget h o) as [f|] eqn:Ho; [|discriminate].
      destruct (is_array_name (o_type f)) eqn:A; [|eexists; reflexivity].
      destruct (nonempty act && is_some (dget (o_id f) d)); [eexists; reflexivity|].
      destruct (memN o act) eqn:M; [eexists; reflexivity|].
      destruct (elements_shape o f Ho A) as [->|(l & El)]; [eexists; reflexivity|]. rewrite El.
      assert (val_ok h (VList l) = true) as Hl by (rewrite <- El; eapply slot_val_ok; [exact Ho|discriminate]).
      cbn in Hl. rewrite forallb_forall in Hl.
      destruct (mapM_all_ok (render_val k h d (o :: act)) l) as (r & Hr).
      * intros x Hx. destruct (leaf_val_ok x (Hl x Hx)) as [Hxv Hxl]. apply IH.
        -- constructor; [|exact ND]. intros Hin. apply memN_In in Hin. congruence.
        -- intros o' [<-|Ho']; [eauto|apply Hact; exact Ho'].
        -- exact Hxv.
        -- cbn [List.length]. destruct x; try contradiction; lia.
      * rewrite Hr. cbn. eauto.
    + cbn in Hv. rewrite forallb_forall in Hv.
      destruct (mapM_all_ok (render_val k h d act) l) as (r & Hr).
      * intros x Hx. destruct (leaf_val_ok x (Hv x Hx)) as [Hxv Hxl]. apply IH; try assumption.
        destruct x; try contradiction; lia.
      * rewrite Hr. cbn. eauto.
    + cbn in Hv. discriminate.
Qed.

Variable ff : flt -> string.
Variable rs : string -> string.

Lemma render_fs_total d ti isann it : hget h (fst it) = Some (snd it) ->
  exists r, render_fs ff rs vs h d ti isann it = Ok r.
Proof.
  intros Hit. unfold render_fs.
  assert (exists ct, (match isann with
                      | true => match offs (snd it) with
                                | Some (b, e) => do c <- covered vs (snd it) b e ;; Ok [c]
                                | None => Ok [] end
                      | false => Ok [] end) = Ok ct) as (ct & ->).
  { destruct isann; [|eauto]. destruct (offs (snd it)) as [[b e]|]; [|eauto].
    unfold covered. pose proof (slot_sofa_ok _ _ Hit) as S. destruct (slot (snd it) "sofa") as [| | | | | | |nm]; try discriminate; [cbn [bind]; eauto|].
    cbn [sofa_ok] in S. destruct (find_view vs nm) as [v|]; [|discriminate]. destruct (s_text (v_sofa v)); cbn [bind]; eauto. }
  cbn [bind]. destruct (is_array_name (o_type (snd it))).
  - destruct (render_val_total d (S (S (List.length h))) [fst it] (slot (snd it) "elements")) as (p & ->).
    + constructor; [intros []|constructor].
    + intros o [<-|[]]. eauto.
    + eapply slot_val_ok; [exact Hit|discriminate].
    + cbn [List.length]. destruct (slot (snd it) "elements"); lia.
    + cbn. eauto.
  - destruct (mapM_all_ok (fun fd => do p <- render_val (S (S (List.length h))) h d [] (slot (snd it) (fd_name fd)) ;; Ok (cell ff rs p))
                          (feats_sorted ti)) as (cs & ->).
    + intros fd Hfd. unfold feats_sorted in Hfd. apply filter_In in Hfd as [_ Hns]. unfold not_sofa in Hns.
      apply negb_true_iff, String.eqb_neq in Hns.
      destruct (render_val_total d (S (S (List.length h))) [] (slot (snd it) (fd_name fd))) as (p & ->).
      * constructor.
      * intros o [].
      * eapply slot_val_ok; [exact Hit|exact Hns].
      * cbn [List.length]. destruct (slot (snd it) (fd_name fd)); lia.
      * cbn. eauto.
    + cbn. eauto.
Qed.
End Total.

(* C20 render_total: on a well-formed CAS the rendering returns rows (no exception, no recursion overflow) *)
Theorem render_total hash sort ff rs o s vs h found :
  sort_contract sort -> wf_render s vs h found = true ->
  exists R, rows_of hash sort ff rs o s vs h found = Ok R.
Proof.
  intros (SP & _) W. unfold wf_render in W. apply andb_true_iff in W as [Wf Wh].
  rewrite forallb_forall in Wf, Wh.
  assert (heap_ok : forall x f, hget h x = Some f -> obj_ok vs h f = true).
  { intros x f H. apply hget_In in H. apply (Wh _ H). }
  unfold rows_of.
  destruct (mapM_all_ok (fun x => match hget h x with Some f => Ok (x, f) | None => Err EAttribute end) found) as (items & R).
  { intros x Hx. specialize (Wf x Hx). destruct (hget h x); [eauto|discriminate]. }
  unfold resolve. rewrite R. cbn [bind]. destruct (resolve_spec _ _ _ R) as [Hfst Hh].
  assert (exists ls, listing hash sort s items = Ok ls) as (ls & L).
  { unfold listing. cbv zeta. apply mapM_all_ok. intros t Ht.
    eapply Permutation_in in Ht; [|apply sort_by_perm]. rewrite group_keys in Ht. apply (proj1 (first_occ_In _ _)) in Ht.
    apply in_map_iff in Ht as (it & <- & Hit). assert (In (fst it) found) as Hf by (rewrite <- Hfst; apply in_map; exact Hit).
    specialize (Wf _ Hf). rewrite (Hh _ Hit) in Wf. unfold ty. destruct (sch_find s (o_type (snd it))); [eauto|discriminate]. }
  rewrite L. cbn [bind].
  assert (Hin : forall b it, In b ls -> In it (snd b) -> hget h (fst it) = Some (snd it)).
  { intros b it Hb Hit. destruct (listing_blocks hash sort s items ls b L Hb) as (_ & _ & E). rewrite E in Hit.
    eapply Permutation_in in Hit; [|apply SP]. apply filter_In in Hit as [Hit _]. apply Hh. exact Hit. }
  assert (exists d, anchors o (flat_map v_members vs) ls = Ok d) as (d & A).
  { unfold anchors.
    destruct (mapM_all_ok (fun it => do a <- anchor_prefix (op_mark o) (flat_map v_members vs) it ;; Ok (it, a)) (flat_map snd ls)) as (pre & ->).
    - intros it Hit. apply in_flat_map in Hit as (b & Hb & Hit). specialize (Hin b it Hb Hit).
      unfold anchor_prefix, view_of. pose proof (slot_sofa_ok vs h heap_ok _ _ Hin) as S.
      destruct (slot (snd it) "sofa"); try discriminate; cbn; eauto.
    - cbn. eauto. }
  rewrite A. cbn [bind].
  destruct (mapM_all_ok (block ff rs o s vs h d) ls) as (bl & ->).
  - intros b Hb. unfold block. destruct (memb (ti_name (fst b)) (op_exclude o)); [eauto|].
    destruct (mapM_all_ok (render_fs ff rs vs h d (fst b) (op_covered o && memb T_ANNOTATION (ti_anc (fst b)))) (snd b)) as (rr & ->).
    + intros it Hit. apply (render_fs_total vs h heap_ok). eapply Hin; eauto.
    + cbn. eauto.
  - cbn. eauto.
Qed.

(* ================================================================================================ the contract is satisfiable *)
Section Isort.
Variable c : item -> item -> Z.
Lemma ins_cmp_perm x l : Permutation (ins_cmp c x l) (x :: l).
Proof.
  induction l as [|y l IH]; cbn; [apply Permutation_refl|]. destruct (c x y <? 0); [apply Permutation_refl|].
  eapply perm_trans; [apply perm_skip; exact IH|apply perm_swap].
Qed.
Lemma isort_snoc l x : isort c (l ++ [x]) = ins_cmp c x (isort c l).
Proof. unfold isort. rewrite rev_app_distr. reflexivity. Qed.
Lemma isort_perm l : Permutation (isort c l) l.
Proof.
  induction l as [|x l IH] using rev_ind; [constructor|]. rewrite isort_snoc.
  eapply perm_trans; [apply ins_cmp_perm|]. eapply perm_trans; [apply perm_skip; exact IH|]. apply Permutation_cons_append.
Qed.

Definition nolater (a b : item) : Prop := ~ c b a < 0.
Lemma ins_cmp_sorted x m : swo c (x :: m) -> StronglySorted nolater m -> StronglySorted nolater (ins_cmp c x m).
Proof.
  intros (Irr & Tr & NTr) S. induction S as [|y r S IH Hy]; cbn; [constructor; constructor|].
  destruct (c x y <? 0) eqn:E.
  - assert (c x y < 0) as Lxy by lia. constructor; [constructor; assumption|]. constructor.
    + unfold nolater. intros Lyx. apply (Irr x); [left; reflexivity|]. apply (Tr x y x); cbn; auto.
    + rewrite Forall_forall in *. intros z Hz. unfold nolater in *. intros Lzx. apply (Hy z Hz).
      apply (Tr z x y); cbn; auto.
  - constructor.
    + apply IH; [intros a Ha; apply Irr; cbn in *; tauto| |].
      * intros a b d Ha Hb Hd. apply Tr; cbn in *; tauto.
      * intros a b d Ha Hb Hd. apply NTr; cbn in *; tauto.
    + rewrite Forall_forall in *. intros z Hz. apply (Permutation_in _ (ins_cmp_perm x r)) in Hz.
      destruct Hz as [<-|Hz]; [unfold nolater; lia|apply Hy; exact Hz].
Qed.
Lemma swo_incl l l' : (forall a, In a l' -> In a l) -> swo c l -> swo c l'.
Proof.
  intros I (A & B & D). split; [|split].
  - intros x Hx. apply A. auto.
  - intros x y z Hx Hy Hz. apply B; auto.
  - intros x y z Hx Hy Hz. apply D; auto.
Qed.
Lemma isort_sorted l : swo c l -> StronglySorted nolater (isort c l).
Proof.
  induction l as [|x l IH] using rev_ind; intros W; [constructor|]. rewrite isort_snoc. apply ins_cmp_sorted.
  - eapply swo_incl; [|exact W]. intros a [<-|Ha]; [apply in_or_app; right; left; reflexivity|].
    apply in_or_app. left. eapply Permutation_in; [apply isort_perm|exact Ha].
  - apply IH. eapply swo_incl; [|exact W]. intros a Ha. apply in_or_app. left. exact Ha.
Qed.

Lemma ins_cmp_stable p x m : swo c (x :: m) -> StronglySorted nolater m ->
  (forall y, In y m -> p x = true -> p y = true -> ~ c x y < 0) ->
  filter p (ins_cmp c x m) = filter p m ++ (if p x then [x] else []).
Proof.
  intros (Irr & Tr & NTr) S. induction S as [|y r S IH Hy]; intros Hp; cbn [ins_cmp]; [cbn [filter]; destruct (p x); reflexivity|].
  destruct (c x y <? 0) eqn:E.
  - assert (c x y < 0) as Lxy by lia.
    change (filter p (x :: y :: r)) with (if p x then x :: filter p (y :: r) else filter p (y :: r)).
    destruct (p x) eqn:Px; [|rewrite app_nil_r; reflexivity].
    assert (filter p (y :: r) = []) as ->; [|reflexivity].
    assert (forall z, In z (y :: r) -> p z = false) as Hnone.
    { intros z Hz. destruct (p z) eqn:Pz; [|reflexivity]. exfalso.
      destruct Hz as [<-|Hz]; [apply (Hp y); cbn; auto|].
      rewrite Forall_forall in Hy. apply (NTr x z y); cbn; auto; [apply (Hp z); cbn; auto|apply Hy; exact Hz]. }
    clear -Hnone. induction (y :: r) as [|a l IHl]; [reflexivity|]. cbn. rewrite (Hnone a) by (left; reflexivity).
    apply IHl. intros z Hz. apply Hnone. right. exact Hz.
  - cbn [filter]. rewrite IH.
    + destruct (p y); reflexivity.
    + intros a Ha. apply Irr. cbn in *. tauto.
    + intros a b d Ha Hb Hd. apply Tr; cbn in *; tauto.
    + intros a b d Ha Hb Hd. apply NTr; cbn in *; tauto.
    + intros z Hz. apply Hp. right. exact Hz.
Qed.
Lemma isort_stable p l : swo c l ->
  (forall x y, In x l -> In y l -> p x = true -> p y = true -> ~ c x y < 0) -> filter p (isort c l) = filter p l.
Proof.
  induction l as [|x l IH] using rev_ind; intros W Hp; [reflexivity|]. rewrite isort_snoc, filter_app. cbn [filter].
  assert (forall a, In a l -> In a (l ++ [x])) as Il by (intros a Ha; apply in_or_app; left; exact Ha).
  assert (In x (l ++ [x])) as Ix by (apply in_or_app; right; left; reflexivity).
  rewrite ins_cmp_stable.
  - rewrite IH; [reflexivity|eapply swo_incl; [|exact W]; exact Il|]. intros a b Ha Hb. apply Hp; auto.
  - eapply swo_incl; [|exact W]. intros a [<-|Ha]; [exact Ix|]. apply Il. eapply Permutation_in; [apply isort_perm|exact Ha].
  - apply isort_sorted. eapply swo_incl; [|exact W]. exact Il.
  - intros y Hy. apply Hp; [exact Ix|]. apply Il. eapply Permutation_in; [apply isort_perm|exact Hy].
Qed.
End Isort.

Theorem isort_contract : sort_contract isort.
Proof.
  split; [|split].
  - intros c l. apply isort_perm.
  - intros c l W. apply isort_sorted. exact W.
  - intros c l p W Hp. apply isort_stable; assumption.
Qed.

(* ================================================================================================ statements on the boolean premise *)
Lemma unique_offsets_inv h found : unique_offsets_per_type h found = true ->
  exists items, resolve h found = Ok items /\ unique_keysb items = true.
Proof. unfold unique_offsets_per_type. destruct (resolve h found) as [items| |]; try discriminate. eauto. Qed.

Theorem compare_total_order_b hash h found items t :
  unique_offsets_per_type h found = true -> resolve h found = Ok items ->
  let l := filter (of_type t) items in
  (forall a b, In a l -> In b l -> (cmp hash t a b = 0 <-> a = b)) /\
  (forall a b, In a l -> In b l -> (cmp hash t a b < 0 <-> cmp hash t b a > 0)) /\
  (forall a b c, In a l -> In b l -> In c l -> cmp hash t a b < 0 -> cmp hash t b c < 0 -> cmp hash t a c < 0) /\
  (forall a b, In a l -> In b l -> (cmp hash t a b < 0 <-> listed_before (snd a) (snd b))) /\
  (forall hash' a b, In a l -> In b l -> cmp hash' t a b = cmp hash t a b).
Proof.
  intros U R l. destruct (unique_offsets_inv _ _ U) as (items' & R' & K). rewrite R in R'. injection R' as <-.
  assert (Ul : uniq l) by (eapply uniq_group; eauto).
  destruct (compare_total_order hash t l Ul) as (A & B & C & D). split; [exact A|]. split; [exact B|]. split; [exact C|]. split.
  - intros a b Ha Hb. rewrite (D a b Ha Hb). apply before_listed.
  - intros hash' a b Ha Hb. destruct Ul as (ND & U1 & U2). unfold cmp.
    destruct (N.eqb (fst a) (fst b)) eqn:E; [reflexivity|]. apply N.eqb_neq in E.
    assert (ikey (snd a) <> ikey (snd b)) as Hk by (intros Ek; apply E; rewrite (U2 _ _ Ha Hb Ek); reflexivity).
    unfold ikey in Hk. destruct (offs (snd a)) as [[b1 e1]|], (offs (snd b)) as [[b2 e2]|]; try reflexivity.
    + destruct (b1 - b2 =? 0) eqn:Eb; cbn [negb]; [|reflexivity]. destruct (e2 - e1 =? 0) eqn:Ee; cbn [negb]; [|reflexivity].
      exfalso. apply Hk. f_equal; [f_equal|]; lia.
    + exfalso. apply Hk. reflexivity.
Qed.

Theorem listing_order_b hash sort s h found items ls :
  sort_contract sort -> unique_offsets_per_type h found = true -> resolve h found = Ok items ->
  listing hash sort s items = Ok ls ->
  forall b, In b ls ->
    StronglySorted (fun x y => listed_before (snd x) (snd y)) (snd b) /\
    Permutation (snd b) (filter (of_type (ti_name (fst b))) items).
Proof.
  intros C U R L. destruct (unique_offsets_inv _ _ U) as (items' & R' & K). rewrite R in R'. injection R' as <-.
  eapply listing_order; eauto.
Qed.

(* ================================================================================================ I. sensitivity: infrastructure *)
Lemma mapM_Forall2 {A A' B B'} (f : A -> res B) (g : A' -> res B') (Q : A -> A' -> Prop) (P : B -> B' -> Prop) l l' r r' :
  Forall2 Q l l' -> mapM f l = Ok r -> mapM g l' = Ok r' ->
  (forall x x' y y', Q x x' -> f x = Ok y -> g x' = Ok y' -> P y y') -> Forall2 P r r'.
Proof.
  intros F. revert r r'. induction F as [|x x' l l' Hq F IH]; cbn; intros r r' Hf Hg H.
  - injection Hf as <-. injection Hg as <-. constructor.
  - apply bind_ok in Hf as (y & Hy & Hf). apply bind_ok in Hf as (ys & Hys & Hf). injection Hf as <-.
    apply bind_ok in Hg as (y' & Hy' & Hg). apply bind_ok in Hg as (ys' & Hys' & Hg). injection Hg as <-.
    constructor; [eapply H; eauto|]. apply IH; auto.
Qed.
Lemma mapM_combine {A A' B} (f : A -> res B) (g : A' -> res B) l l' r x x' :
  mapM f l = Ok r -> mapM g l' = Ok r -> In (x, x') (combine l l') -> exists y, f x = Ok y /\ g x' = Ok y.
Proof.
  revert l' r. induction l as [|a l IH]; intros [|a' l'] r Hf Hg Hin; cbn in Hin; try contradiction.
  cbn in Hf, Hg. apply bind_ok in Hf as (y & Hy & Hf). apply bind_ok in Hf as (ys & Hys & Hf). injection Hf as <-.
  apply bind_ok in Hg as (y' & Hy' & Hg). apply bind_ok in Hg as (ys' & Hys' & Hg). injection Hg as -> ->.
  destruct Hin as [E|Hin]; [injection E as <- <-; eauto|]. eapply IH; eauto.
Qed.
Lemma mapM_combine_same {A B B'} (f : A -> res B) (g : A -> res B') l r r' x :
  mapM f l = Ok r -> mapM g l = Ok r' -> In x l -> exists y y', f x = Ok y /\ g x = Ok y' /\ In (y, y') (combine r r').
Proof.
  revert r r'. induction l as [|a l IH]; intros r r' Hf Hg Hin; [contradiction|].
  cbn in Hf, Hg. apply bind_ok in Hf as (y & Hy & Hf). apply bind_ok in Hf as (ys & Hys & Hf). injection Hf as <-.
  apply bind_ok in Hg as (y' & Hy' & Hg). apply bind_ok in Hg as (ys' & Hys' & Hg). injection Hg as <-.
  destruct Hin as [<-|Hin].
  - exists y, y'. split; [exact Hy|]. split; [exact Hy'|]. left. reflexivity.
  - destruct (IH _ _ Hys Hys' Hin) as (z & z' & H1 & H2 & H3). exists z, z'. split; [exact H1|]. split; [exact H2|]. right. exact H3.
Qed.
Lemma mapM_app {A B} (f : A -> res B) l1 l2 r : mapM f (l1 ++ l2) = Ok r ->
  exists r1 r2, mapM f l1 = Ok r1 /\ mapM f l2 = Ok r2 /\ r = r1 ++ r2.
Proof.
  revert r. induction l1 as [|x l1 IH]; cbn; intros r H; [exists [], r; auto|].
  apply bind_ok in H as (y & Hy & H). apply bind_ok in H as (ys & Hys & H). injection H as <-.
  destruct (IH _ Hys) as (r1 & r2 & H1 & H2 & ->). exists (y :: r1), r2. rewrite Hy, H1. cbn. auto.
Qed.
Lemma combine_map_r {A B} (g : A -> B) l x : In x l -> In (x, g x) (combine l (map g l)).
Proof. induction l as [|a l IH]; cbn; [contradiction|]. intros [<-|H]; [left; reflexivity|right; apply IH; exact H]. Qed.

Definition blk_rel (b b' : tinfo * list item) : Prop := fst b = fst b' /\ List.length (snd b) = List.length (snd b').

Section Differ.
Variable ff : flt -> string.
Variable rs : string -> string.
Variable o : opts.
Variable s : schema.

(* two renderings (different heaps, views, anchors) of listings with the same block structure that produce the same rows:
   corresponding blocks render to the same rows *)
Lemma equal_rows_blocks vs h d vs' h' d' ls ls' bl bl' b b' :
  Forall2 blk_rel ls ls' ->
  mapM (block ff rs o s vs h d) ls = Ok bl -> mapM (block ff rs o s vs' h' d') ls' = Ok bl' ->
  List.concat bl = List.concat bl' ->
  In (b, b') (combine ls ls') -> memb (ti_name (fst b)) (op_exclude o) = false ->
  exists rr, mapM (render_fs ff rs vs h d (fst b) (isann_of o (fst b))) (snd b) = Ok rr /\
             mapM (render_fs ff rs vs' h' d' (fst b) (isann_of o (fst b))) (snd b') = Ok rr.
Proof.
  intros F B B' E Hin Hex.
  assert (bl = bl') as <-.
  { apply concat_eq_by_length; [|exact E]. eapply mapM_Forall2; [exact F|exact B|exact B'|].
    intros x x' y y' (Ef & El) Hx Hx'. apply block_inv in Hx, Hx'. rewrite <- Ef in Hx'.
    destruct Hx as [(X & ->)|(X & rr & Hr & ->)], Hx' as [(X' & ->)|(X' & rr' & Hr' & ->)]; try congruence; try reflexivity.
    cbn. apply mapM_length in Hr, Hr'. congruence. }
  destruct (mapM_combine _ _ _ _ _ _ _ B B' Hin) as (rows & Hb & Hb').
  assert (fst b = fst b') as Ef.
  { clear -F Hin. revert Hin. induction F as [|x x' l l' (Ef & _) F IH]; cbn; [contradiction|].
    intros [E|Hin]; [injection E as <- <-; exact Ef|apply IH; exact Hin]. }
  apply block_inv in Hb, Hb'. rewrite <- Ef in Hb'.
  destruct Hb as [(X & _)|(_ & rr & Hr & ->)]; [congruence|].
  destruct Hb' as [(X' & _)|(_ & rr' & Hr' & E')]; [congruence|]. injection E' as <-. eauto.
Qed.
End Differ.

(* ---- strings ---- *)
Lemma append_assoc a b c : (a +++ b) +++ c = a +++ (b +++ c).
Proof. induction a as [|x a IH]; cbn; [reflexivity|]. rewrite IH. reflexivity. Qed.
Lemma append_inv_head a b c : a +++ b = a +++ c -> b = c.
Proof. induction a as [|x a IH]; cbn; intros H; [exact H|]. injection H as H. apply IH. exact H. Qed.
Lemma list_of_append a b : list_ascii_of_string (a +++ b) = (list_ascii_of_string a ++ list_ascii_of_string b)%list.
Proof. induction a as [|x a IH]; cbn; [reflexivity|]. rewrite IH. reflexivity. Qed.
Lemma append_inv_tail a b c : a +++ c = b +++ c -> a = b.
Proof.
  intros H. apply (f_equal list_ascii_of_string) in H. rewrite !list_of_append in H. apply app_inv_tail in H.
  apply (f_equal string_of_list_ascii) in H. rewrite !string_of_list_ascii_of_string in H. exact H.
Qed.

(* ---- replacing the content of found structures without touching identity, type and offsets ---- *)
Section Upd.
Variable upd : item -> item.
Hypothesis upd_fst : forall it, fst (upd it) = fst it.
Hypothesis upd_ty : forall it, o_type (snd (upd it)) = o_type (snd it).
Definition upd_block (b : tinfo * list item) : tinfo * list item := (fst b, map upd (snd b)).

Lemma filter_upd t l : filter (of_type t) (map upd l) = map upd (filter (of_type t) l).
Proof.
  induction l as [|x l IH]; cbn [map filter]; [reflexivity|].
  assert (of_type t (upd x) = of_type t x) as -> by (unfold of_type, ty; rewrite upd_ty; reflexivity).
  destruct (of_type t x); cbn [map]; rewrite IH; reflexivity.
Qed.
Lemma group_keys_upd items : akeys (group (map upd items)) = akeys (group items).
Proof.
  rewrite !group_keys, map_map. f_equal. apply map_ext. intros it. unfold ty. apply upd_ty.
Qed.

Variable hash : tname -> fsobj -> Z.
Variable sort : (item -> item -> Z) -> list item -> list item.
Hypothesis sort_ok : sort_contract sort.

(* whatever happens to the offsets: the same type blocks, with as many structures *)
Lemma listing_upd_shape s items ls ls' :
  listing hash sort s items = Ok ls -> listing hash sort s (map upd items) = Ok ls' ->
  Forall2 blk_rel ls ls' /\
  forall b, In b ls -> exists b', In (b, b') (combine ls ls') /\ fst b' = fst b /\
                                  Permutation (snd b') (map upd (filter (of_type (ti_name (fst b))) items)).
Proof.
  unfold listing. cbv zeta. rewrite group_keys_upd. intros L L'. destruct sort_ok as (SP & _). split.
  - eapply mapM_Forall2; [|exact L|exact L'|].
    + instantiate (1 := eq). clear. induction (sort_by _ _); constructor; auto.
    + intros t t' y y' <- Hy Hy'. destruct (sch_find s t); [|discriminate]. injection Hy as <-. injection Hy' as <-.
      split; [reflexivity|]. cbn [snd]. rewrite !group_get, filter_upd.
      rewrite (Permutation_length (SP _ _)), (Permutation_length (SP _ _)), map_length. reflexivity.
  - intros b Hb. destruct (mapM_In_inv _ _ _ _ L Hb) as (t & Ht & Hf).
    destruct (mapM_combine_same _ _ _ _ _ _ L L' Ht) as (y & y' & Hy & Hy' & Hc).
    rewrite Hf in Hy. injection Hy as <-. exists y'. split; [exact Hc|].
    destruct (sch_find s t) as [ti|] eqn:E; [|discriminate]. injection Hf as <-. injection Hy' as <-. cbn [fst snd].
    split; [reflexivity|]. rewrite (sch_find_name _ _ _ E), !group_get, filter_upd. apply SP.
Qed.

Hypothesis upd_key : forall it, offs (snd (upd it)) = offs (snd it).

Lemma uniq_upd l : uniq l -> uniq (map upd l).
Proof.
  intros (ND & U1 & U2). split; [|split].
  - apply (NoDup_map_inv fst). rewrite map_map.
    rewrite (map_ext (fun x => fst (upd x)) fst) by apply upd_fst.
    apply NoDup_map_in; [exact ND|]. intros a b Ha Hb E. apply U1; assumption.
  - intros a' b' Ha Hb E. apply in_map_iff in Ha as (a & <- & Ha). apply in_map_iff in Hb as (b & <- & Hb).
    rewrite !upd_fst in E. rewrite (U1 a b Ha Hb E). reflexivity.
  - intros a' b' Ha Hb E. apply in_map_iff in Ha as (a & <- & Ha). apply in_map_iff in Hb as (b & <- & Hb).
    unfold ikey in E. rewrite !upd_key in E. rewrite (U2 a b Ha Hb E). reflexivity.
Qed.
Lemma sort_upd t l : uniq l -> sort (cmp hash t) (map upd l) = map upd (sort (cmp hash t) l).
Proof.
  intros U. apply (sort_canonical hash t sort sort_ok).
  - apply uniq_upd. exact U.
  - apply Permutation_map. destruct sort_ok as (SP & _). apply SP.
  - apply StronglySorted_map. eapply StronglySorted_weaken with (R := before).
    + apply (sort_sorted hash t sort sort_ok). exact U.
    + destruct sort_ok as (SP & _). eapply Permutation_NoDup; [apply Permutation_sym, SP|apply U].
    + intros a b _ _ _ H. unfold before, ikey in *. rewrite !upd_key. exact H.
Qed.
Lemma listing_upd s items : (forall t, uniq (filter (of_type t) items)) ->
  listing hash sort s (map upd items) = rmap (map upd_block) (listing hash sort s items).
Proof.
  intros U. unfold listing. cbv zeta. rewrite group_keys_upd.
  apply mapM_rmap. intros t _. destruct (sch_find s t); [|reflexivity]. cbn. unfold upd_block. cbn. do 2 f_equal.
  rewrite !group_get, filter_upd. apply sort_upd. apply U.
Qed.
Lemma flat_map_upd ls : flat_map snd (map upd_block ls) = map upd (flat_map snd ls).
Proof. induction ls as [|b ls IH]; cbn; [reflexivity|]. rewrite map_app, IH. reflexivity. Qed.
Lemma assign_upd dis pre :
  assign dis (map (fun p => (upd (fst p), snd p)) pre) = map (fun p => (upd (fst p), snd p)) (assign dis pre).
Proof. revert dis. induction pre as [|[it a] pre IH]; intros dis; cbn; [reflexivity|]. rewrite IH. reflexivity. Qed.

(* anchors when neither the prefixes nor the ids change *)
Lemma anchors_upd o idx ls :
  (forall it, anchor_prefix (op_mark o) idx (upd it) = anchor_prefix (op_mark o) idx it) ->
  (forall it, o_id (snd (upd it)) = o_id (snd it)) ->
  anchors o idx (map upd_block ls) = anchors o idx ls.
Proof.
  intros Hp Hi. unfold anchors. rewrite flat_map_upd, mapM_map.
  rewrite (mapM_rmap (fun it => do a <- anchor_prefix (op_mark o) idx it ;; Ok (it, a)) _ (fun p => (upd (fst p), snd p))).
  2:{ intros it _. rewrite Hp. destruct (anchor_prefix (op_mark o) idx it); reflexivity. }
  rewrite bind_rmap. destruct (mapM _ (flat_map snd ls)) as [pre| |]; cbn; try reflexivity.
  rewrite assign_upd. unfold dict_of. rewrite !map_map. f_equal. apply map_ext. intros p. cbn. rewrite Hi. reflexivity.
Qed.
End Upd.

(* ---- replacing one object of the heap ---- *)
Lemma hget_hset h o f' x :
  hget (hset h o f') x = if N.eqb x o then (match hget h o with Some _ => Some f' | None => None end) else hget h x.
Proof.
  induction h as [|[o' g] h IH]; cbn; [destruct (N.eqb x o); reflexivity|].
  destruct (N.eqb o o') eqn:E; cbn.
  - apply N.eqb_eq in E. subst o'. destruct (N.eqb x o) eqn:Ex; reflexivity.
  - destruct (N.eqb x o') eqn:Ex.
    + apply N.eqb_eq in Ex. subst o'. rewrite N.eqb_sym, E. reflexivity.
    + exact IH.
Qed.
Lemma hset_length h o f' : List.length (hset h o f') = List.length h.
Proof. induction h as [|[o' g] h IH]; cbn; [reflexivity|]. destruct (N.eqb o o'); cbn; [reflexivity|]. rewrite IH. reflexivity. Qed.

Definition upd_at (o : oid) (f' : fsobj) (it : item) : item := if N.eqb (fst it) o then (o, f') else it.
Lemma upd_at_fst o f' it : fst (upd_at o f' it) = fst it.
Proof. unfold upd_at. destruct (N.eqb (fst it) o) eqn:E; [|reflexivity]. apply N.eqb_eq in E. cbn. congruence. Qed.
Lemma resolve_hset h o f f' found : hget h o = Some f ->
  resolve (hset h o f') found = rmap (map (upd_at o f')) (resolve h found).
Proof.
  intros Ho. unfold resolve. apply mapM_rmap. intros x _. rewrite hget_hset, Ho. unfold upd_at.
  destruct (N.eqb x o) eqn:E.
  - apply N.eqb_eq in E. subst x. rewrite Ho. cbn. rewrite N.eqb_refl. reflexivity.
  - destruct (hget h x); cbn; [rewrite E|]; reflexivity.
Qed.
Lemma slot_set f n v m : slot (set_slot f n v) m = if String.eqb m n then v else slot f m.
Proof.
  unfold slot, set_slot. cbn [o_slots]. induction (o_slots f) as [|[k w] sl IH]; cbn [aset alookup].
  - destruct (String.eqb m n); reflexivity.
  - destruct (String.eqb n k) eqn:E; cbn [alookup].
    + apply String.eqb_eq in E. subst k. destruct (String.eqb m n); reflexivity.
    + destruct (String.eqb m k) eqn:Em; [|exact IH].
      apply String.eqb_eq in Em. subst k. rewrite String.eqb_sym in E. rewrite E. reflexivity.
Qed.

(* ================================================================================================ I. sensitivity: the row of one structure *)
Definition ct_of (vs : list cview) (isann : bool) (f : fsobj) : res (list string) :=
  match isann, offs f with
  | true, Some (b, e) => do c <- covered vs f b e ;; Ok [c]
  | _, _ => Ok []
  end.
Definition fuel_of (h : heap) : nat := S (S (List.length h)).

Section RowShape.
Variable ff : flt -> string.
Variable rs : string -> string.
Definition cellf (h : heap) (d : adict) (act : list oid) (f : fsobj) (n : fname) : res string :=
  do p <- render_val (fuel_of h) h d act (slot f n) ;; Ok (cell ff rs p).

Lemma render_fs_nonarray vs h d ti isann it r :
  is_array_name (o_type (snd it)) = false -> render_fs ff rs vs h d ti isann it = Ok r ->
  exists ct cs, ct_of vs isann (snd it) = Ok ct /\
                mapM (fun fd => cellf h d [] (snd it) (fd_name fd)) (feats_sorted ti) = Ok cs /\
                r = cell ff rs (anchor_pv (dget (o_id (snd it)) d)) :: ct ++ cs.
Proof.
  intros A H. unfold render_fs in H. rewrite A in H. fold (ct_of vs isann (snd it)) in H.
  apply bind_ok in H as (ct & Hct & H). apply bind_ok in H as (cs & Hcs & H). injection H as <-.
  exists ct, cs. auto.
Qed.
Lemma render_fs_array vs h d ti isann it r :
  is_array_name (o_type (snd it)) = true -> render_fs ff rs vs h d ti isann it = Ok r ->
  exists ct c, ct_of vs isann (snd it) = Ok ct /\ cellf h d [fst it] (snd it) "elements" = Ok c /\
               r = cell ff rs (anchor_pv (dget (o_id (snd it)) d)) :: ct ++ [c].
Proof.
  intros A H. unfold render_fs in H. rewrite A in H. fold (ct_of vs isann (snd it)) in H.
  apply bind_ok in H as (ct & Hct & H). apply bind_ok in H as (p & Hp & H). injection H as <-.
  exists ct, (cell ff rs p). unfold cellf, fuel_of. rewrite Hp. auto.
Qed.
End RowShape.

Lemma ct_of_length vs isann f ct : ct_of vs isann f = Ok ct ->
  List.length ct = (if isann then match offs f with Some _ => 1 | None => 0 end else 0)%nat.
Proof.
  unfold ct_of. destruct isann; [|intros H; injection H as <-; reflexivity].
  destruct (offs f) as [[b e]|]; [|intros H; injection H as <-; reflexivity].
  intros H. apply bind_ok in H as (c & _ & H). injection H as <-. reflexivity.
Qed.
Lemma app_inv_length {A} (a b c d : list A) : List.length a = List.length b -> a ++ c = b ++ d -> a = b /\ c = d.
Proof.
  revert b. induction a as [|x a IH]; intros [|y b] L H; cbn in *; try discriminate; [auto|].
  injection H as -> H. injection L as L. destruct (IH _ L H) as [-> ->]. auto.
Qed.

(* every found structure is in the block of its type *)
Lemma listing_has hash sort s items ls it : sort_contract sort -> listing hash sort s items = Ok ls -> In it items ->
  exists b, In b ls /\ sch_find s (ty it) = Some (fst b) /\ In it (snd b).
Proof.
  intros (SP & _) L Hit. unfold listing in L. cbv zeta in L.
  assert (In (ty it) (sort_by (fun t : string => t) (akeys (group items)))) as Ht.
  { eapply Permutation_in; [apply Permutation_sym, sort_by_perm|]. rewrite group_keys. apply first_occ_In. apply in_map. exact Hit. }
  destruct (mapM_In _ _ _ _ L Ht) as (b & Hb & Hin). exists b. split; [exact Hin|].
  destruct (sch_find s (ty it)) as [ti|]; [|discriminate]. injection Hb as <-. cbn [fst snd]. split; [reflexivity|].
  eapply Permutation_in; [apply Permutation_sym, SP|]. rewrite group_get. apply filter_In. split; [exact Hit|].
  unfold of_type. apply String.eqb_refl.
Qed.

Definition upd_with (g : fsobj -> fsobj) (x : oid) (it : item) : item :=
  if N.eqb (fst it) x then (fst it, g (snd it)) else it.
Lemma upd_with_fst g x it : fst (upd_with g x it) = fst it.
Proof. unfold upd_with. destruct (N.eqb (fst it) x); reflexivity. Qed.
Lemma upd_with_pres {A} (P : fsobj -> A) g x it : (forall f, P (g f) = P f) -> P (snd (upd_with g x it)) = P (snd it).
Proof. intros H. unfold upd_with. destruct (N.eqb (fst it) x); [cbn; apply H|reflexivity]. Qed.
Lemma resolve_hset_with h x f g found : hget h x = Some f ->
  resolve (hset h x (g f)) found = rmap (map (upd_with g x)) (resolve h found).
Proof.
  intros Ho. unfold resolve. apply mapM_rmap. intros y _. rewrite hget_hset, Ho. unfold upd_with.
  destruct (N.eqb y x) eqn:E.
  - apply N.eqb_eq in E. subst y. rewrite Ho. cbn. rewrite N.eqb_refl. reflexivity.
  - destruct (hget h y); cbn; [rewrite E|]; reflexivity.
Qed.
Lemma Forall2_map_r {A B} (P : A -> B -> Prop) (g : A -> B) l : (forall x, P x (g x)) -> Forall2 P l (map g l).
Proof. intros H. induction l; cbn; constructor; auto. Qed.

(* the anchors of a CAS *)
Definition anchor_dict hash sort (o : opts) (s : schema) (vs : list cview) (h : heap) (found : list oid) : res adict :=
  do items <- resolve h found ;; do ls <- listing hash sort s items ;; anchors o (flat_map v_members vs) ls.

(* cell of a value that is neither an array nor a list: a primitive, None, or a reference rendered as an anchor *)
Definition scell (ff : flt -> string) (h : heap) (d : adict) (v : val) : option string :=
  match v with
  | VNone => Some NULL
  | VInt z => Some (z2s z)
  | VFlt x => Some (ff x)
  | VBool b => Some (b2s b)
  | VStr s => Some s
  | VRef q => match hget h q with
              | Some fq => if is_array_name (o_type fq) then None
                           else Some (match dget (o_id fq) d with Some a => a | None => "" end)
              | None => None end
  | _ => None
  end.
Lemma scell_render ff rs h d v c k act : scell ff h d v = Some c ->
  exists p, render_val (S k) h d act v = Ok p /\ cell ff rs p = c.
Proof.
  destruct v; cbn [scell render_val]; intros H; try discriminate; try (injection H as <-; eexists; split; reflexivity).
  destruct (hget h o) as [fq|]; [|discriminate]. destruct (is_array_name (o_type fq)); [discriminate|].
  injection H as <-. eexists. split; [reflexivity|]. destruct (dget (o_id fq) d); reflexivity.
Qed.
Lemma scell_hset ff h d x f g v : hget h x = Some f -> o_type (g f) = o_type f -> o_id (g f) = o_id f ->
  scell ff (hset h x (g f)) d v = scell ff h d v.
Proof.
  intros Hx Ht Hi. destruct v; try reflexivity. cbn [scell]. rewrite hget_hset, Hx.
  destruct (N.eqb o x) eqn:E; [|reflexivity]. apply N.eqb_eq in E. subst o. rewrite Hx, Ht, Hi. reflexivity.
Qed.

(* ================================================================================================ I.1 a primitive value / a reference target *)
Definition not_offset_name (n : fname) : Prop := n <> "begin" /\ n <> "end" /\ n <> "sofa".

Lemma anchor_prefix_set mark idx g x it :
  (forall f, o_type (g f) = o_type f) -> (forall f m, (m = "begin" \/ m = "end" \/ m = "sofa") -> slot (g f) m = slot f m) ->
  anchor_prefix mark idx (upd_with g x it) = anchor_prefix mark idx it.
Proof.
  intros Ht Hs. unfold upd_with. destruct (N.eqb (fst it) x); [|reflexivity].
  unfold anchor_prefix, view_of, offs. cbn [fst snd]. rewrite Ht, !Hs by tauto. reflexivity.
Qed.

Section Sensitive.
Variable hash : tname -> fsobj -> Z.
Variable sort : (item -> item -> Z) -> list item -> list item.
Variable ff : flt -> string.
Variable rs : string -> string.
Hypothesis sort_ok : sort_contract sort.

(* Changing the value of one feature (not begin/end/sofa) of one listed structure from a value rendered as c to a value
   rendered as c' <> c changes the rows.  Values: primitives, None, references to non-array structures. *)
Theorem sensitive_feature o s vs h found x f ti n v' d c c' R :
  unique_offsets_per_type h found = true ->
  In x found -> hget h x = Some f -> sch_find s (o_type f) = Some ti ->
  memb (o_type f) (op_exclude o) = false -> is_array_name (o_type f) = false ->
  not_offset_name n -> In n (map fd_name (feats_sorted ti)) ->
  anchor_dict hash sort o s vs h found = Ok d ->
  scell ff h d (slot f n) = Some c -> scell ff h d v' = Some c' -> c <> c' ->
  rows_of hash sort ff rs o s vs h found = Ok R ->
  rows_of hash sort ff rs o s vs (hset h x (set_slot f n v')) found <> Ok R.
Proof.
  intros U Hx Ho Hti Hex Harr (Nb & Ne & Ns) Hn AD Sc Sc' Hne HR HR'.
  set (g := fun f0 => set_slot f0 n v').
  change (set_slot f n v') with (g f) in HR'.
  assert (Gt : forall f0, o_type (g f0) = o_type f0) by reflexivity.
  assert (Gi : forall f0, o_id (g f0) = o_id f0) by reflexivity.
  assert (Gs : forall f0 m, m <> n -> slot (g f0) m = slot f0 m).
  { intros f0 m Hm. unfold g. rewrite slot_set. apply String.eqb_neq in Hm. rewrite Hm. reflexivity. }
  assert (Gs3 : forall f0 m, (m = "begin" \/ m = "end" \/ m = "sofa") -> slot (g f0) m = slot f0 m).
  { intros f0 m [->|[->| ->]]; apply Gs; congruence. }
  assert (Go : forall f0, offs (g f0) = offs f0) by (intros f0; unfold offs; rewrite !Gs3 by tauto; reflexivity).
  destruct (unique_offsets_inv _ _ U) as (items & Ri & K).
  destruct (rows_of_inv hash sort ff rs _ _ _ _ _ _ HR) as (items0 & ls & d0 & bl & R0 & L & A & B & ER).
  rewrite Ri in R0. injection R0 as <-.
  assert (d0 = d) as ->. { unfold anchor_dict in AD. rewrite Ri in AD. cbn [bind] in AD. rewrite L in AD. cbn [bind] in AD. congruence. }
  destruct (rows_of_inv hash sort ff rs _ _ _ _ _ _ HR') as (items' & ls' & d' & bl' & R1 & L' & A' & B' & ER').
  rewrite (resolve_hset_with h x f g found Ho), Ri in R1. cbn [rmap] in R1. injection R1 as <-.
  set (upd := upd_with g x) in *.
  assert (Uf : forall it, fst (upd it) = fst it) by (intros; apply upd_with_fst).
  assert (Ut : forall it, o_type (snd (upd it)) = o_type (snd it)) by (intros; apply (upd_with_pres o_type); exact Gt).
  assert (Uk : forall it, offs (snd (upd it)) = offs (snd it)) by (intros; apply (upd_with_pres offs); exact Go).
  rewrite (listing_upd upd Uf Ut hash sort sort_ok Uk) in L' by (intros t; eapply uniq_group; eauto).
  rewrite L in L'. cbn [rmap] in L'. injection L' as <-.
  rewrite (anchors_upd upd) in A'.
  2:{ intros it. apply anchor_prefix_set; assumption. }
  2:{ intros it. apply (upd_with_pres o_id). exact Gi. }
  rewrite A in A'. injection A' as <-.
  assert (Hit : In (x, f) items).
  { destruct (resolve_spec _ _ _ Ri) as [Hf Hh]. rewrite <- Hf in Hx. apply in_map_iff in Hx as ([y fy] & E & Hy).
    cbn in E. subst y. specialize (Hh _ Hy). cbn in Hh. rewrite Ho in Hh. injection Hh as <-. exact Hy. }
  destruct (listing_has hash sort s items ls (x, f) sort_ok L Hit) as (b & Hb & Hfb & Hib).
  unfold ty in Hfb. cbn [snd] in Hfb. rewrite Hti in Hfb. injection Hfb as Hfb.
  destruct (equal_rows_blocks ff rs o s vs h d vs (hset h x (g f)) d ls (map (upd_block upd) ls) bl bl' b (upd_block upd b)) as (rr & M & M').
  - apply Forall2_map_r. intros b0. split; [reflexivity|]. cbn. rewrite map_length. reflexivity.
  - exact B.
  - exact B'.
  - congruence.
  - apply combine_map_r. exact Hb.
  - rewrite <- Hfb. rewrite (sch_find_name _ _ _ Hti). exact Hex.
  - cbn [snd upd_block] in M'. rewrite mapM_map in M'.
    destruct (mapM_same _ _ _ _ _ M M' Hib) as (r & Hr & Hr').
    assert (upd (x, f) = (x, g f)) as Eu by (unfold upd, upd_with; cbn; rewrite N.eqb_refl; reflexivity).
    rewrite Eu in Hr'. rewrite <- Hfb in Hr, Hr'.
    apply render_fs_nonarray in Hr; [|exact Harr]. apply render_fs_nonarray in Hr'; [|exact Harr].
    destruct Hr as (ct & cs & Hct & Hcs & ->). destruct Hr' as (ct' & cs' & Hct' & Hcs' & E).
    cbn [snd] in *. injection E as E.
    assert (ct_of vs (isann_of o ti) (g f) = ct_of vs (isann_of o ti) f) as Ec.
    { unfold ct_of, covered. rewrite Go, Gs3 by tauto. reflexivity. }
    rewrite Ec, Hct in Hct'. injection Hct' as <-. apply app_inv_head in E. subst cs'.
    apply in_map_iff in Hn as (fd & Efd & Hfd).
    destruct (mapM_same _ _ _ _ _ Hcs Hcs' Hfd) as (c0 & H1 & H2). rewrite Efd in H1, H2.
    unfold cellf, fuel_of in H1, H2. rewrite hset_length in H2.
    destruct (scell_render ff rs h d (slot f n) c (S (List.length h)) [] Sc) as (p & Hp & Hc).
    rewrite Hp in H1. cbn [bind] in H1.
    assert (slot (g f) n = v') as Ev by (unfold g; rewrite slot_set, String.eqb_refl; reflexivity).
    rewrite Ev in H2. rewrite <- (scell_hset ff h d x f g v' Ho (Gt f) (Gi f)) in Sc'.
    destruct (scell_render ff rs _ d v' c' (S (List.length h)) [] Sc') as (p' & Hp' & Hc').
    rewrite Hp' in H2. cbn [bind] in H2. congruence.
Qed.
End Sensitive.

(* ---- decimal integers ---- *)
Definition s2z (s : string) : option Z := option_map Z.of_int (NilZero.int_of_string s).
Lemma s2z_z2s z : s2z (z2s z) = Some z.
Proof.
  unfold s2z, z2s. rewrite NilZero.isi.
  - cbn. rewrite DecimalZ.of_to. reflexivity.
  - destruct z as [|p|p]; cbn; try discriminate.
    intros H. injection H as H. exact (DecimalPos.Unsigned.to_uint_nonnil p H).
  - destruct z as [|p|p]; cbn; try discriminate.
    intros H. injection H as H. exact (DecimalPos.Unsigned.to_uint_nonnil p H).
Qed.
Lemma z2s_inj a b : z2s a = z2s b -> a = b.
Proof. intros H. apply (f_equal s2z) in H. rewrite !s2z_z2s in H. congruence. Qed.
Lemma uint_str_head d : exists c r, NilZero.string_of_uint d = String c r /\ c <> "<"%char.
Proof.
  destruct d; cbn; eexists; eexists; (split; [reflexivity|discriminate]).
Qed.
Lemma z2s_not_null z : z2s z <> NULL.
Proof.
  unfold z2s, NULL. destruct z as [|p|p]; cbn [Z.to_int NilZero.string_of_int].
  - discriminate.
  - destruct (uint_str_head (Pos.to_uint p)) as (c & r & -> & Hc). intros H. injection H as H _. congruence.
  - discriminate.
Qed.
Lemma b2s_inj a b : b2s a = b2s b -> a = b.
Proof. destruct a, b; cbn; intros H; try reflexivity; discriminate. Qed.

Lemma prim_scell ff h d v v' : float_contract ff -> prim_differs v v' ->
  exists c c', scell ff h d v = Some c /\ scell ff h d v' = Some c' /\ c <> c'.
Proof.
  intros (Fi & Fn) P. destruct v, v'; cbn in P; try contradiction; cbn [scell]; eexists; eexists; (split; [reflexivity|]); (split; [reflexivity|]).
  - intros H. symmetry in H. exact (z2s_not_null _ H).
  - intros H. symmetry in H. exact (Fn _ H).
  - destruct b; discriminate.
  - congruence.
  - apply z2s_not_null.
  - intros H. apply z2s_inj in H. contradiction.
  - apply Fn.
  - intros H. apply Fi in H. contradiction.
  - destruct b; discriminate.
  - intros H. apply b2s_inj in H. contradiction.
  - exact P.
  - exact P.
Qed.

(* C20 render_sensitive (primitive value): changing one primitive value of one listed structure changes the rows *)
Theorem sensitive_primitive hash sort ff rs o s vs h found x f ti n v' R :
  sort_contract sort -> float_contract ff ->
  unique_offsets_per_type h found = true ->
  In x found -> hget h x = Some f -> sch_find s (o_type f) = Some ti ->
  memb (o_type f) (op_exclude o) = false -> is_array_name (o_type f) = false ->
  not_offset_name n -> In n (map fd_name (feats_sorted ti)) ->
  prim_differs (slot f n) v' ->
  rows_of hash sort ff rs o s vs h found = Ok R ->
  rows_of hash sort ff rs o s vs (hset h x (set_slot f n v')) found <> Ok R.
Proof.
  intros C F U Hx Ho Hti Hex Harr Hn Hin P HR.
  destruct (rows_of_inv hash sort ff rs _ _ _ _ _ _ HR) as (items & ls & d & bl & R0 & L & A & _).
  assert (anchor_dict hash sort o s vs h found = Ok d) as AD by (unfold anchor_dict; rewrite R0; cbn [bind]; rewrite L; exact A).
  destruct (prim_scell ff h d _ _ F P) as (c & c' & S1 & S2 & Hne).
  eapply sensitive_feature; eauto.
Qed.

(* C20 render_sensitive (reference target): redirecting one reference of one listed structure to a structure with another
   anchor changes the rows *)
Theorem sensitive_reference hash sort ff rs o s vs h found x f ti n p q fp fq d ap aq R :
  sort_contract sort ->
  unique_offsets_per_type h found = true ->
  In x found -> hget h x = Some f -> sch_find s (o_type f) = Some ti ->
  memb (o_type f) (op_exclude o) = false -> is_array_name (o_type f) = false ->
  not_offset_name n -> In n (map fd_name (feats_sorted ti)) ->
  slot f n = VRef p -> hget h p = Some fp -> hget h q = Some fq ->
  is_array_name (o_type fp) = false -> is_array_name (o_type fq) = false ->
  anchor_dict hash sort o s vs h found = Ok d ->
  dget (o_id fp) d = Some ap -> dget (o_id fq) d = Some aq -> ap <> aq ->
  rows_of hash sort ff rs o s vs h found = Ok R ->
  rows_of hash sort ff rs o s vs (hset h x (set_slot f n (VRef q))) found <> Ok R.
Proof.
  intros C U Hx Ho Hti Hex Harr Hn Hin Sp Hp Hq Ap Aq AD Dp Dq Hne HR.
  eapply (sensitive_feature hash sort ff rs C o s vs h found x f ti n (VRef q) d ap aq); eauto.
  - rewrite Sp. cbn [scell]. rewrite Hp, Ap, Dp. reflexivity.
  - cbn [scell]. rewrite Hq, Aq, Dq. reflexivity.
Qed.

(* ================================================================================================ I.3 the anchor of a listed structure *)
Definition sfx_ok (sfx : string) : Prop := sfx = "" \/ exists n, sfx = "(" +++ z2s n +++ ")".
Lemma append_nil_r s : s +++ "" = s.
Proof. induction s as [|c s IH]; cbn; [reflexivity|]. rewrite IH. reflexivity. Qed.

Lemma assign_In dis pre it a : In (it, a) (assign dis pre) -> exists p sfx, In (it, p) pre /\ a = p +++ sfx /\ sfx_ok sfx.
Proof.
  revert dis. induction pre as [|[it0 p0] pre IH]; intros dis; cbn [assign]; [contradiction|].
  intros [E|H].
  - injection E as <- <-. exists p0. unfold with_count. destruct (count_of p0 dis =? 0).
    + exists "". rewrite append_nil_r. split; [left; reflexivity|]. split; [reflexivity|left; reflexivity].
    + eexists. split; [left; reflexivity|]. split; [reflexivity|]. right. eexists. reflexivity.
  - destruct (IH _ H) as (p & sfx & Hin & E & S). exists p, sfx. split; [right; exact Hin|]. auto.
Qed.
Lemma assign_fst dis pre : map fst (assign dis pre) = map fst pre.
Proof. revert dis. induction pre as [|[it0 p0] pre IH]; intros dis; cbn; [reflexivity|]. rewrite IH. reflexivity. Qed.

Lemma opt_eqb_eq k k' : opt_eqb Z.eqb k k' = true <-> k = k'.
Proof.
  destruct k as [a|], k' as [b|]; cbn; split; intros H; try discriminate; try reflexivity.
  - apply Z.eqb_eq in H. congruence.
  - injection H as ->. apply Z.eqb_refl.
Qed.

(* the dict answers with one of the entries stored under the key *)
Lemma dget_snoc k d e : dget k (d ++ [e]) = if opt_eqb Z.eqb k (fst e) then Some (snd e) else dget k d.
Proof. unfold dget. rewrite fold_left_app. reflexivity. Qed.
Lemma dget_some k d : (exists a, In (k, a) d) -> exists a, dget k d = Some a /\ In (k, a) d.
Proof.
  induction d as [|[k' a'] d IH] using rev_ind; intros (a0 & H0); [contradiction|].
  rewrite dget_snoc. cbn [fst snd]. destruct (opt_eqb Z.eqb k k') eqn:E.
  - apply opt_eqb_eq in E. subst k'. exists a'. split; [reflexivity|]. apply in_or_app. right. left. reflexivity.
  - apply in_app_or in H0 as [H0|[E0|[]]].
    + destruct IH as (a & Ha & Hin); [eauto|]. exists a. split; [exact Ha|]. apply in_or_app. left. exact Hin.
    + injection E0 as -> _. rewrite (proj2 (opt_eqb_eq k k) eq_refl) in E. discriminate.
Qed.

Lemma anchors_entry o idx ls d k a : anchors o idx ls = Ok d -> In (k, a) d ->
  exists it p sfx, In it (flat_map snd ls) /\ anchor_prefix (op_mark o) idx it = Ok p /\ k = o_id (snd it) /\
                   a = p +++ sfx /\ sfx_ok sfx.
Proof.
  unfold anchors. intros H Hin. apply bind_ok in H as (pre & Hpre & H). injection H as <-.
  unfold dict_of in Hin. apply in_map_iff in Hin as ([it a'] & E & Hin). cbn in E. injection E as <- <-.
  destruct (assign_In _ _ _ _ Hin) as (p & sfx & Hp & Ea & S).
  destruct (mapM_In_inv _ _ _ _ Hpre Hp) as (it' & Hit' & Hf). apply bind_ok in Hf as (p' & Hp' & Hf). injection Hf as <- <-.
  exists it', p', sfx. auto.
Qed.
Lemma anchors_has o idx ls d it : anchors o idx ls = Ok d -> In it (flat_map snd ls) -> exists a, In (o_id (snd it), a) d.
Proof.
  unfold anchors. intros H Hin. apply bind_ok in H as (pre & Hpre & H). injection H as <-.
  destruct (mapM_In _ _ _ _ Hpre Hin) as (y & Hy & Hiny). apply bind_ok in Hy as (p & _ & Hy). injection Hy as <-.
  assert (In it (map fst (assign [] pre))) as Hf by (rewrite assign_fst; apply in_map_iff; exists (it, p); auto).
  apply in_map_iff in Hf as ([it' a] & E & Hin'). cbn in E. subst it'. exists a. unfold dict_of.
  apply in_map_iff. exists (it, a). auto.
Qed.

(* the anchor of a listed structure whose id no other listed structure carries: its prefix, possibly with a counter *)
Lemma anchor_of o idx ls d it P :
  anchors o idx ls = Ok d -> In it (flat_map snd ls) ->
  (forall it', In it' (flat_map snd ls) -> o_id (snd it') = o_id (snd it) -> it' = it) ->
  anchor_prefix (op_mark o) idx it = Ok P ->
  exists sfx, sfx_ok sfx /\ dget (o_id (snd it)) d = Some (P +++ sfx).
Proof.
  intros A Hin Uid HP. destruct (dget_some (o_id (snd it)) d (anchors_has _ _ _ _ _ A Hin)) as (a & Ha & Hina).
  destruct (anchors_entry _ _ _ _ _ _ A Hina) as (it' & p & sfx & Hit' & Hp & Ek & Ea & S).
  rewrite (Uid it' Hit' (eq_sym Ek)) in Hp. rewrite HP in Hp. injection Hp as <-. exists sfx. split; [exact S|]. congruence.
Qed.

Lemma render_fs_head ff rs vs h d ti isann it r : render_fs ff rs vs h d ti isann it = Ok r ->
  exists tl, r = cell ff rs (anchor_pv (dget (o_id (snd it)) d)) :: tl.
Proof.
  unfold render_fs. intros H. apply bind_ok in H as (ct & _ & H). destruct (is_array_name (o_type (snd it))).
  - apply bind_ok in H as (p & _ & H). injection H as <-. eauto.
  - apply bind_ok in H as (cs & _ & H). injection H as <-. eauto.
Qed.
Lemma combine_same {A} (l : list A) x : In x l -> In (x, x) (combine l l).
Proof. induction l as [|a l IH]; cbn; [contradiction|]. intros [<-|H]; [left; reflexivity|right; apply IH; exact H]. Qed.
Lemma Forall2_refl {A} (P : A -> A -> Prop) l : (forall x, P x x) -> Forall2 P l l.
Proof. intros H. induction l; constructor; auto. Qed.

Lemma paren_split n n' sfx sfx' : paren_free n = true -> paren_free n' = true -> sfx_ok sfx -> sfx_ok sfx' ->
  n +++ sfx = n' +++ sfx' -> n = n'.
Proof.
  revert n'. induction n as [|c n IH]; intros [|c' n'] Pn Pn' S S' E; cbn in *.
  - reflexivity.
  - exfalso. apply andb_true_iff in Pn' as [Hc _]. destruct S as [->|(k & ->)]; [discriminate|].
    cbn in E. injection E as <- _. cbn in Hc. discriminate.
  - exfalso. apply andb_true_iff in Pn as [Hc _]. destruct S' as [->|(k & ->)]; [discriminate|].
    cbn in E. injection E as -> _. cbn in Hc. discriminate.
  - injection E as -> E. apply andb_true_iff in Pn as [_ Pn]. apply andb_true_iff in Pn' as [_ Pn'].
    f_equal. eapply IH; eauto.
Qed.

(* ================================================================================================ I.4 view and index status *)
Section Sensitive2.
Variable hash : tname -> fsobj -> Z.
Variable sort : (item -> item -> Z) -> list item -> list item.
Variable ff : flt -> string.
Variable rs : string -> string.
Hypothesis sort_ok : sort_contract sort.

Lemma listing_items s items ls b it : listing hash sort s items = Ok ls -> In b ls -> In it (snd b) -> In it items.
Proof.
  intros L Hb Hit. destruct (listing_blocks hash sort s items ls b L Hb) as (_ & _ & E). rewrite E in Hit.
  destruct sort_ok as (SP & _). eapply Permutation_in in Hit; [|apply SP]. apply filter_In in Hit. tauto.
Qed.

(* no other listed structure carries the xmi:id of x (Cas._find_all_fs refuses such a CAS) *)
Definition id_unshared (h : heap) (found : list oid) (x : oid) (f : fsobj) : Prop :=
  forall y fy, In y found -> hget h y = Some fy -> o_id fy = o_id f -> y = x.

Lemma found_item h found items x f : resolve h found = Ok items -> In x found -> hget h x = Some f -> In (x, f) items.
Proof.
  intros Ri Hx Ho. destruct (resolve_spec _ _ _ Ri) as [Hf Hh]. rewrite <- Hf in Hx. apply in_map_iff in Hx as ([y fy] & E & Hy).
  cbn in E. subst y. specialize (Hh _ Hy). cbn in Hh. rewrite Ho in Hh. injection Hh as <-. exact Hy.
Qed.
Lemma unshared_items h found items s ls x f : resolve h found = Ok items -> listing hash sort s items = Ok ls ->
  hget h x = Some f -> id_unshared h found x f ->
  forall it', In it' (flat_map snd ls) -> o_id (snd it') = o_id f -> it' = (x, f).
Proof.
  intros Ri L Ho Un it' Hin E. apply in_flat_map in Hin as (b & Hb & Hin). pose proof (listing_items _ _ _ _ _ L Hb Hin) as Hit.
  destruct (resolve_spec _ _ _ Ri) as [Hf Hh]. pose proof (Hh _ Hit) as H1.
  assert (In (fst it') found) as Hfo by (rewrite <- Hf; apply in_map; exact Hit).
  pose proof (Un _ _ Hfo H1 E) as Ex. destruct it' as [y fy]. cbn in *. subst y. rewrite Ho in H1. congruence.
Qed.

(* C20 render_sensitive (view): giving a listed structure the sofa of another view changes the rows *)
Theorem sensitive_view o s vs h found x f n n' R :
  unique_offsets_per_type h found = true ->
  In x found -> hget h x = Some f -> memb (o_type f) (op_exclude o) = false ->
  id_unshared h found x f ->
  slot f "sofa" = VSofa n -> n <> n' -> paren_free n = true -> paren_free n' = true ->
  rows_of hash sort ff rs o s vs h found = Ok R ->
  rows_of hash sort ff rs o s vs (hset h x (set_slot f "sofa" (VSofa n'))) found <> Ok R.
Proof.
  intros U Hx Ho Hex Un Sn Hne Pn Pn' HR HR'.
  set (g := fun f0 => set_slot f0 "sofa" (VSofa n')).
  change (set_slot f "sofa" (VSofa n')) with (g f) in HR'.
  assert (Gt : forall f0, o_type (g f0) = o_type f0) by reflexivity.
  assert (Gi : forall f0, o_id (g f0) = o_id f0) by reflexivity.
  assert (Gs : forall f0 m, m <> "sofa" -> slot (g f0) m = slot f0 m).
  { intros f0 m Hm. unfold g. rewrite slot_set. apply String.eqb_neq in Hm. rewrite Hm. reflexivity. }
  assert (Go : forall f0, offs (g f0) = offs f0) by (intros f0; unfold offs; rewrite !Gs by discriminate; reflexivity).
  destruct (unique_offsets_inv _ _ U) as (items & Ri & K).
  destruct (rows_of_inv hash sort ff rs _ _ _ _ _ _ HR) as (items0 & ls & d & bl & R0 & L & A & B & ER).
  rewrite Ri in R0. injection R0 as <-.
  destruct (rows_of_inv hash sort ff rs _ _ _ _ _ _ HR') as (items' & ls' & d' & bl' & R1 & L' & A' & B' & ER').
  rewrite (resolve_hset_with h x f g found Ho), Ri in R1. cbn [rmap] in R1. injection R1 as <-.
  set (upd := upd_with g x) in *.
  assert (Uf : forall it, fst (upd it) = fst it) by (intros; apply upd_with_fst).
  assert (Ut : forall it, o_type (snd (upd it)) = o_type (snd it)) by (intros; apply (upd_with_pres o_type); exact Gt).
  assert (Uk : forall it, offs (snd (upd it)) = offs (snd it)) by (intros; apply (upd_with_pres offs); exact Go).
  rewrite (listing_upd upd Uf Ut hash sort sort_ok Uk) in L' by (intros t; eapply uniq_group; eauto).
  rewrite L in L'. cbn [rmap] in L'. injection L' as <-.
  pose proof (found_item _ _ _ _ _ Ri Hx Ho) as Hit.
  destruct (listing_has hash sort s items ls (x, f) sort_ok L Hit) as (b & Hb & Hfb & Hib).
  assert (Eu : upd (x, f) = (x, g f)) by (unfold upd, upd_with; cbn; rewrite N.eqb_refl; reflexivity).
  destruct (equal_rows_blocks ff rs o s vs h d vs (hset h x (g f)) d' ls (map (upd_block upd) ls) bl bl' b (upd_block upd b)) as (rr & M & M').
  - apply Forall2_map_r. intros b0. split; [reflexivity|]. cbn. rewrite map_length. reflexivity.
  - exact B.
  - exact B'.
  - congruence.
  - apply combine_map_r. exact Hb.
  - apply sch_find_name in Hfb. unfold ty in Hfb. cbn [snd] in Hfb. rewrite Hfb. exact Hex.
  - cbn [snd upd_block] in M'. rewrite mapM_map in M'.
    destruct (mapM_same _ _ _ _ _ M M' Hib) as (r & Hr & Hr'). rewrite Eu in Hr'.
    apply render_fs_head in Hr as (tl & ->). apply render_fs_head in Hr' as (tl' & E). cbn [snd] in E. injection E as E _.
    assert (In (x, f) (flat_map snd ls)) as Hfl by (apply in_flat_map; eauto).
    pose proof (unshared_items _ _ _ _ _ _ _ Ri L Ho Un) as Uid.
    set (base := short_name (o_type f)
                 +++ (match offs f with
                      | Some _ => "[" +++ int_str (slot f "begin") +++ "-" +++ int_str (slot f "end") +++ "]"
                      | None => "" end)
                 +++ (if op_mark o && memN x (flat_map v_members vs) then "*" else "")).
    destruct (anchor_of o _ ls d (x, f) (short_name (o_type f)
                 +++ (match offs f with
                      | Some _ => "[" +++ int_str (slot f "begin") +++ "-" +++ int_str (slot f "end") +++ "]"
                      | None => "" end)
                 +++ (if op_mark o && memN x (flat_map v_members vs) then "*" else "") +++ "@" +++ n) A Hfl) as (sfx & S & D).
    { intros it' H1 H2. apply Uid; assumption. }
    { unfold anchor_prefix, view_of. cbn [fst snd]. rewrite Sn. reflexivity. }
    destruct (anchor_of o _ (map (upd_block upd) ls) d' (x, g f) (short_name (o_type f)
                 +++ (match offs f with
                      | Some _ => "[" +++ int_str (slot f "begin") +++ "-" +++ int_str (slot f "end") +++ "]"
                      | None => "" end)
                 +++ (if op_mark o && memN x (flat_map v_members vs) then "*" else "") +++ "@" +++ n') A') as (sfx' & S' & D').
    { rewrite flat_map_upd. rewrite <- Eu. apply in_map. exact Hfl. }
    { intros it'' H1 H2. rewrite flat_map_upd in H1. apply in_map_iff in H1 as (it' & <- & H1).
      pose proof (upd_with_pres o_id g x it' Gi) as Hq. fold upd in Hq. rewrite Hq in H2.
      cbn [snd] in H2. rewrite (Uid it' H1 H2). exact Eu. }
    { unfold anchor_prefix, view_of. cbn [fst snd]. rewrite Gt, Go, (Gs f "begin"), (Gs f "end") by discriminate.
      unfold g. rewrite slot_set. cbn [String.eqb Ascii.eqb Bool.eqb]. reflexivity. }
    cbn [snd] in D, D'. change (o_id (g f)) with (o_id f) in D'. rewrite D, D' in E. cbn [anchor_pv cell] in E.
    rewrite !append_assoc in E. apply append_inv_head in E. apply append_inv_head in E.
    apply append_inv_head in E. cbn [String.append] in E. injection E as E.
    apply Hne. exact (paren_split n n' sfx sfx' Pn Pn' S S' E).
Qed.

(* C20 render_sensitive (index status): indexing or un-indexing one listed structure changes the rows *)
Theorem sensitive_index o s vs vs' h found x f R :
  unique_offsets_per_type h found = true ->
  In x found -> hget h x = Some f -> memb (o_type f) (op_exclude o) = false ->
  id_unshared h found x f -> op_mark o = true ->
  memN x (flat_map v_members vs) = true -> memN x (flat_map v_members vs') = false ->
  rows_of hash sort ff rs o s vs h found = Ok R ->
  rows_of hash sort ff rs o s vs' h found <> Ok R.
Proof.
  intros U Hx Ho Hex Un Mk M1 M2 HR HR'.
  destruct (unique_offsets_inv _ _ U) as (items & Ri & K).
  destruct (rows_of_inv hash sort ff rs _ _ _ _ _ _ HR) as (items0 & ls & d & bl & R0 & L & A & B & ER).
  rewrite Ri in R0. injection R0 as <-.
  destruct (rows_of_inv hash sort ff rs _ _ _ _ _ _ HR') as (items' & ls' & d' & bl' & R1 & L' & A' & B' & ER').
  rewrite Ri in R1. injection R1 as <-. rewrite L in L'. injection L' as <-.
  pose proof (found_item _ _ _ _ _ Ri Hx Ho) as Hit.
  destruct (listing_has hash sort s items ls (x, f) sort_ok L Hit) as (b & Hb & Hfb & Hib).
  destruct (equal_rows_blocks ff rs o s vs h d vs' h d' ls ls bl bl' b b) as (rr & M & M').
  - apply Forall2_refl. intros b0. split; reflexivity.
  - exact B.
  - exact B'.
  - congruence.
  - apply combine_same. exact Hb.
  - apply sch_find_name in Hfb. unfold ty in Hfb. cbn [snd] in Hfb. rewrite Hfb. exact Hex.
  - destruct (mapM_same _ _ _ _ _ M M' Hib) as (r & Hr & Hr').
    apply render_fs_head in Hr as (tl & ->). apply render_fs_head in Hr' as (tl' & E). cbn [snd] in E. injection E as E _.
    assert (In (x, f) (flat_map snd ls)) as Hfl by (apply in_flat_map; eauto).
    pose proof (unshared_items _ _ _ _ _ _ _ Ri L Ho Un) as Uid.
    assert (exists V, view_of f = Ok V) as (V & HV).
    { unfold anchors in A. apply bind_ok in A as (pre & Hpre & _). destruct (mapM_In _ _ _ _ Hpre Hfl) as (y & Hy & _).
      apply bind_ok in Hy as (p & Hp & _). unfold anchor_prefix in Hp. cbn [snd] in Hp. destruct (view_of f); try discriminate. eauto. }
    set (pfx := fun star : string => short_name (o_type f)
                 +++ (match offs f with
                      | Some _ => "[" +++ int_str (slot f "begin") +++ "-" +++ int_str (slot f "end") +++ "]"
                      | None => "" end)
                 +++ star +++ (match V with Some nm => "@" +++ nm | None => "" end)).
    destruct (anchor_of o _ ls d (x, f) (pfx "*") A Hfl) as (sfx & S & D).
    { intros it' H1 H2. apply Uid; assumption. }
    { unfold anchor_prefix. cbn [fst snd]. rewrite HV, Mk, M1. cbn [bind andb]. reflexivity. }
    destruct (anchor_of o _ ls d' (x, f) (pfx "") A' Hfl) as (sfx' & S' & D').
    { intros it' H1 H2. apply Uid; assumption. }
    { unfold anchor_prefix. cbn [fst snd]. rewrite HV, Mk, M2. cbn [bind andb]. reflexivity. }
    unfold pfx in D, D'.
    cbn [snd] in D, D'. rewrite D, D' in E. cbn [anchor_pv cell] in E.
    rewrite !append_assoc in E. apply append_inv_head in E. apply append_inv_head in E.
    cbn [String.append] in E. destruct V as [nm|]; cbn [String.append] in E.
    + discriminate.
    + destruct S' as [->|(k & ->)]; cbn in E; discriminate.
Qed.
End Sensitive2.

(* ================================================================================================ I.5 an offset *)
Definition int_or_none (v : val) : Prop := v = VNone \/ exists z, v = VInt z.
Lemma int_cell_inj ff rs h d h' d' k k' act act' v v' c :
  int_or_none v -> int_or_none v' ->
  (do p <- render_val (S k) h d act v ;; Ok (cell ff rs p)) = Ok c ->
  (do p <- render_val (S k') h' d' act' v' ;; Ok (cell ff rs p)) = Ok c -> v = v'.
Proof.
  intros [->|(z & ->)] [->|(z' & ->)]; cbn; intros H H'; try reflexivity.
  - exfalso. injection H as <-. injection H' as H'. exact (z2s_not_null _ H').
  - exfalso. injection H as <-. injection H' as H'. symmetry in H'. exact (z2s_not_null _ H').
  - injection H as <-. injection H' as H'. apply z2s_inj in H'. congruence.
Qed.

Section Sensitive3.
Variable hash : tname -> fsobj -> Z.
Variable sort : (item -> item -> Z) -> list item -> list item.
Variable ff : flt -> string.
Variable rs : string -> string.
Hypothesis sort_ok : sort_contract sort.

(* C20 render_sensitive (offset): changing begin or end of one listed structure changes the rows, provided begin and end of
   the listed structures of its type hold integers or None (they are the Integer features of uima.tcas.Annotation) *)
Theorem sensitive_offset o s vs h found x f ti n z' R :
  unique_offsets_per_type h found = true ->
  In x found -> hget h x = Some f -> sch_find s (o_type f) = Some ti ->
  memb (o_type f) (op_exclude o) = false -> is_array_name (o_type f) = false ->
  In "begin" (map fd_name (feats_sorted ti)) -> In "end" (map fd_name (feats_sorted ti)) ->
  (forall y fy, In y found -> hget h y = Some fy -> o_type fy = o_type f ->
                int_or_none (slot fy "begin") /\ int_or_none (slot fy "end")) ->
  (n = "begin" \/ n = "end") -> offs (set_slot f n (VInt z')) <> offs f ->
  rows_of hash sort ff rs o s vs h found = Ok R ->
  rows_of hash sort ff rs o s vs (hset h x (set_slot f n (VInt z'))) found <> Ok R.
Proof.
  intros U Hx Ho Hti Hex Harr Hfb Hfe Typed Hn Hoffs HR HR'.
  set (g := fun f0 => set_slot f0 n (VInt z')).
  change (set_slot f n (VInt z')) with (g f) in HR', Hoffs.
  assert (Gt : forall f0, o_type (g f0) = o_type f0) by reflexivity.
  destruct (unique_offsets_inv _ _ U) as (items & Ri & K).
  destruct (rows_of_inv hash sort ff rs _ _ _ _ _ _ HR) as (items0 & ls & d & bl & R0 & L & A & B & ER).
  rewrite Ri in R0. injection R0 as <-.
  destruct (rows_of_inv hash sort ff rs _ _ _ _ _ _ HR') as (items' & ls' & d' & bl' & R1 & L' & A' & B' & ER').
  rewrite (resolve_hset_with h x f g found Ho), Ri in R1. cbn [rmap] in R1. injection R1 as <-.
  set (upd := upd_with g x) in *.
  assert (Uf : forall it, fst (upd it) = fst it) by (intros; apply upd_with_fst).
  assert (Ut : forall it, o_type (snd (upd it)) = o_type (snd it)) by (intros; apply (upd_with_pres o_type); exact Gt).
  destruct (listing_upd_shape upd Ut hash sort sort_ok s items ls ls' L L') as (F2 & Hcorr).
  assert (Hit : In (x, f) items) by (eapply found_item; eauto).
  destruct (listing_has hash sort s items ls (x, f) sort_ok L Hit) as (b & Hb & Hfb' & Hib).
  unfold ty in Hfb'. cbn [snd] in Hfb'. rewrite Hti in Hfb'. injection Hfb' as Hfb'.
  destruct (Hcorr b Hb) as (b' & Hc & Efb & Pb').
  destruct (equal_rows_blocks ff rs o s vs h d vs (hset h x (g f)) d' ls ls' bl bl' b b' F2 B B') as (rr & M & M').
  - congruence.
  - exact Hc.
  - rewrite <- Hfb'. rewrite (sch_find_name _ _ _ Hti). exact Hex.
  - destruct (mapM_same2 _ _ _ _ _ _ M M' Hib) as (y' & r & Hy' & Hr & Hr').
    eapply Permutation_in in Hy'; [|exact Pb']. apply in_map_iff in Hy' as (y & Ey & Hy).
    apply filter_In in Hy as [Hy Hty]. unfold of_type, ty in Hty. apply String.eqb_eq in Hty.
    rewrite <- Hfb', (sch_find_name _ _ _ Hti) in Hty.
    rewrite <- Hfb' in Hr, Hr'.
    assert (o_type (snd y') = o_type f) as Hty' by (rewrite <- Ey, Ut; exact Hty).
    apply render_fs_nonarray in Hr; [|exact Harr]. apply render_fs_nonarray in Hr'; [|rewrite Hty'; exact Harr].
    destruct Hr as (ct & cs & Hct & Hcs & ->). destruct Hr' as (ct' & cs' & Hct' & Hcs' & E).
    cbn [snd] in *. injection E as _ E.
    assert (List.length cs = List.length cs') as Lc by (apply mapM_length in Hcs, Hcs'; congruence).
    assert (List.length ct = List.length ct') as Lt.
    { apply (f_equal (@List.length _)) in E. rewrite !app_length in E. lia. }
    destruct (app_inv_length _ _ _ _ Lt E) as [_ <-].
    (* the begin and end cells *)
    assert (Hslots : slot f "begin" = slot (snd y') "begin" /\ slot f "end" = slot (snd y') "end").
    { destruct (resolve_spec _ _ _ Ri) as [Hf Hh].
      assert (Ty' : int_or_none (slot (snd y') "begin") /\ int_or_none (slot (snd y') "end")).
      { rewrite <- Ey. unfold upd, upd_with. destruct (N.eqb (fst y) x) eqn:Ex; cbn [snd].
        - assert (In (fst y) found) as Hyf by (rewrite <- Hf; apply in_map; exact Hy).
          destruct (Typed _ _ Hyf (Hh _ Hy) Hty) as [T1 T2]. unfold g. rewrite !slot_set.
          destruct Hn as [-> | ->]; cbn [String.eqb Ascii.eqb Bool.eqb]; split; try assumption; right; eauto.
        - assert (In (fst y) found) as Hyf by (rewrite <- Hf; apply in_map; exact Hy).
          exact (Typed _ _ Hyf (Hh _ Hy) Hty). }
      destruct (Typed _ _ Hx Ho eq_refl) as [T1 T2]. destruct Ty' as [T1' T2'].
      apply in_map_iff in Hfb as (fdb & Eb & Hfdb). apply in_map_iff in Hfe as (fde & Ee & Hfde).
      destruct (mapM_same _ _ _ _ _ Hcs Hcs' Hfdb) as (cb & H1 & H2). rewrite Eb in H1, H2.
      destruct (mapM_same _ _ _ _ _ Hcs Hcs' Hfde) as (ce & H3 & H4). rewrite Ee in H3, H4.
      unfold cellf, fuel_of in *. split; eapply int_cell_inj; eauto. }
    destruct Hslots as [Sb Se].
    assert (offs (snd y') = offs f) as Eo by (unfold offs; rewrite <- Sb, <- Se; reflexivity).
    unfold upd, upd_with in Ey. destruct (N.eqb (fst y) x) eqn:Ex.
    + apply N.eqb_eq in Ex. destruct (resolve_spec _ _ _ Ri) as [_ Hh]. pose proof (Hh _ Hy) as Hgy. rewrite Ex, Ho in Hgy.
      injection Hgy as Hgy. rewrite <- Ey in Eo. cbn [snd] in Eo. rewrite <- Hgy in Eo. contradiction.
    + subst y'. destruct (unique_keysb_spec _ K) as [_ Uq].
      assert (y = (x, f)) as Eyx by (apply Uq; try assumption; cbn [snd]; try assumption).
      rewrite Eyx in Ex. cbn in Ex. rewrite N.eqb_refl in Ex. discriminate.
Qed.
End Sensitive3.

(* ================================================================================================ I.2 an array element *)
(* repr of an array element: a primitive, None, a reference to a non-array structure rendered as its anchor, or (23e9ca1)
   a reference to an array that has an anchor -- a listed array -- rendered as that anchor, not by its content *)
Definition srepr (ff : flt -> string) (rs : string -> string) (h : heap) (d : adict) (v : val) : option string :=
  match v with
  | VNone => Some (rs NULL)
  | VInt z => Some (z2s z)
  | VFlt x => Some (ff x)
  | VBool b => Some (b2s b)
  | VStr s => Some (rs s)
  | VRef q => match hget h q with
              | Some fq => if is_array_name (o_type fq)
                           then match dget (o_id fq) d with Some a => Some (rs a) | None => None end
                           else Some (match dget (o_id fq) d with Some a => rs a | None => "None" end)
              | None => None end
  | _ => None
  end.
Lemma srepr_render ff rs h d v c k act : act <> [] -> srepr ff rs h d v = Some c ->
  exists p, render_val (S k) h d act v = Ok p /\ repr_pv ff rs p = c.
Proof.
  intros Hact.
  destruct v; cbn [srepr render_val]; intros H; try discriminate; try (injection H as <-; eexists; split; reflexivity).
  destruct (hget h o) as [fq|]; [|discriminate]. destruct (is_array_name (o_type fq)).
  - destruct (dget (o_id fq) d) as [a|]; [|discriminate]. injection H as <-.
    destruct act; [contradiction|]. eexists. split; reflexivity.
  - injection H as <-. eexists. split; [reflexivity|]. destruct (dget (o_id fq) d); reflexivity.
Qed.

Definition join_pre (l : list string) : string := fold_right (fun s acc => s +++ ", " +++ acc) "" l.
Definition join_post (l : list string) : string := match l with [] => "" | _ => ", " +++ join_comma l end.
Lemma join_comma_cons a r : r <> [] -> join_comma (a :: r) = a +++ ", " +++ join_comma r.
Proof. destruct r; [contradiction|reflexivity]. Qed.
Lemma join_comma_mid A x B : join_comma (A ++ x :: B) = join_pre A +++ x +++ join_post B.
Proof.
  induction A as [|a A IH].
  - cbn [app join_pre fold_right String.append]. destruct B; cbn [join_comma join_post]; [rewrite append_nil_r|]; reflexivity.
  - change ((a :: A) ++ x :: B) with (a :: (A ++ x :: B)).
    rewrite join_comma_cons by (destruct A; discriminate). rewrite IH.
    change (join_pre (a :: A)) with (a +++ ", " +++ join_pre A). rewrite !append_assoc. reflexivity.
Qed.

Lemma elems_cell_differ ff rs h d k act pre e e' post r r' c c' : act <> [] ->
  mapM (render_val (S k) h d act) (pre ++ e :: post) = Ok r ->
  mapM (render_val (S k) h d act) (pre ++ e' :: post) = Ok r' ->
  srepr ff rs h d e = Some c -> srepr ff rs h d e' = Some c' -> c <> c' ->
  cell ff rs (PList r) <> cell ff rs (PList r').
Proof.
  intros Hact M M' S S' Hne E.
  apply mapM_app in M as (r1 & r2 & M1 & M2 & ->). apply mapM_app in M' as (r1' & r2' & M1' & M2' & ->).
  rewrite M1 in M1'. injection M1' as <-.
  cbn [mapM] in M2, M2'. apply bind_ok in M2 as (p & Hp & M2). apply bind_ok in M2 as (ps & Hps & M2). injection M2 as <-.
  apply bind_ok in M2' as (p' & Hp' & M2'). apply bind_ok in M2' as (ps' & Hps' & M2'). injection M2' as <-.
  rewrite Hps in Hps'. injection Hps' as <-.
  destruct (srepr_render ff rs h d e c k act Hact S) as (q & Hq & Hc). rewrite Hp in Hq. injection Hq as <-.
  destruct (srepr_render ff rs h d e' c' k act Hact S') as (q' & Hq' & Hc'). rewrite Hp' in Hq'. injection Hq' as <-.
  cbn [cell repr_pv] in E. apply append_inv_head in E. apply append_inv_tail in E.
  rewrite !map_app in E. cbn [map] in E. rewrite !join_comma_mid in E. apply append_inv_head in E. apply append_inv_tail in E.
  congruence.
Qed.

(* rendering below an array that is being rendered does not look at its elements *)
Lemma render_val_agree h d a fa fa' : hget h a = Some fa -> o_type fa' = o_type fa -> o_id fa' = o_id fa ->
  is_array_name (o_type fa) = true ->
  forall k act v, In a act -> render_val k (hset h a fa') d act v = render_val k h d act v.
Proof.
  intros Ha Et Ei Arr. induction k as [|k IH]; intros act v Hin; [reflexivity|]. cbn [render_val].
  destruct v; try reflexivity.
  - rewrite hget_hset, Ha. destruct (N.eqb o a) eqn:E.
    + apply N.eqb_eq in E. subst o. rewrite Ha, Et, Ei, Arr. rewrite (proj2 (memN_In a act) Hin).
      destruct (nonempty act && is_some (dget (o_id fa) d)); reflexivity.
    + destruct (hget h o) as [f|]; [|reflexivity]. destruct (is_array_name (o_type f)); [|reflexivity].
      destruct (nonempty act && is_some (dget (o_id f) d)); [reflexivity|].
      destruct (memN o act); [reflexivity|]. destruct (slot f "elements"); try reflexivity.
      rewrite (mapM_ext_in _ (render_val k h d (o :: act))); [reflexivity|]. intros x _. apply IH. right. exact Hin.
  - rewrite (mapM_ext_in _ (render_val k h d act)); [reflexivity|]. intros x _. apply IH. exact Hin.
Qed.
Lemma srepr_hset ff rs h d x f f' v : hget h x = Some f -> o_type f' = o_type f -> o_id f' = o_id f ->
  srepr ff rs (hset h x f') d v = srepr ff rs h d v.
Proof.
  intros Hx Ht Hi. destruct v; try reflexivity. cbn [srepr]. rewrite hget_hset, Hx.
  destruct (N.eqb o x) eqn:E; [|reflexivity]. apply N.eqb_eq in E. subst o. rewrite Hx, Ht, Hi. reflexivity.
Qed.

(* an array held directly by a feature (no array is being rendered above it) is expanded by content *)
(* 23e9ca1, the other side of the coin: while some array is being rendered, the CONTENT of an array that has an anchor is
   not looked at -- the outer cell shows the anchor only; a change inside such a nested array shows in its own row
   (sensitive_array_element_listed), not in the cell of the array or feature it is nested in *)
Lemma render_val_nested_agree h d b fb fb' ab : hget h b = Some fb -> o_type fb' = o_type fb -> o_id fb' = o_id fb ->
  is_array_name (o_type fb) = true -> dget (o_id fb) d = Some ab ->
  forall k act v, act <> [] -> render_val k (hset h b fb') d act v = render_val k h d act v.
Proof.
  intros Hb Et Ei Arr D. induction k as [|k IH]; intros act v Hact; [reflexivity|]. cbn [render_val].
  destruct v; try reflexivity.
  - rewrite hget_hset, Hb. destruct (N.eqb o b) eqn:E.
    + apply N.eqb_eq in E. subst o. rewrite Hb, Et, Ei, Arr, D. destruct act; [contradiction|reflexivity].
    + destruct (hget h o) as [f|]; [|reflexivity]. destruct (is_array_name (o_type f)); [|reflexivity].
      destruct (nonempty act && is_some (dget (o_id f) d)); [reflexivity|].
      destruct (memN o act); [reflexivity|]. destruct (slot f "elements"); try reflexivity.
      rewrite (mapM_ext_in _ (render_val k h d (o :: act))); [reflexivity|]. intros x _. apply IH. discriminate.
  - rewrite (mapM_ext_in _ (render_val k h d act)); [reflexivity|]. intros x _. apply IH. exact Hact.
Qed.

Lemma render_val_ref_array k h d o f l : hget h o = Some f -> is_array_name (o_type f) = true ->
  slot f "elements" = VList l ->
  render_val (S k) h d [] (VRef o) = (do r <- mapM (render_val k h d [o]) l ;; Ok (PList r)).
Proof. intros H A E. cbn [render_val]. rewrite H, A, E. reflexivity. Qed.
(* 23e9ca1: an array met while another array is being rendered is referred to by its anchor when it has one *)
Lemma render_val_nested_array k h d act o f a : hget h o = Some f -> is_array_name (o_type f) = true ->
  act <> [] -> dget (o_id f) d = Some a ->
  render_val (S k) h d act (VRef o) = Ok (PStr a).
Proof. intros H A N D. cbn [render_val]. rewrite H, A, D. destruct act; [contradiction|reflexivity]. Qed.
Lemma render_val_list k h d act l :
  render_val (S k) h d act (VList l) = (do r <- mapM (render_val k h d act) l ;; Ok (PList r)).
Proof. reflexivity. Qed.

Section Sensitive4.
Variable hash : tname -> fsobj -> Z.
Variable sort : (item -> item -> Z) -> list item -> list item.
Variable ff : flt -> string.
Variable rs : string -> string.
Hypothesis sort_ok : sort_contract sort.

(* what the two array-element theorems share: the rows of the listed structure (x, f) before and after the change of the
   elements of the array a differ as soon as the row of x does *)
Lemma array_change_rows o s vs h found a fa l' x f R :
  unique_offsets_per_type h found = true ->
  hget h a = Some fa -> is_array_name (o_type fa) = true ->
  In x found -> hget h x = Some f -> memb (o_type f) (op_exclude o) = false ->
  rows_of hash sort ff rs o s vs h found = Ok R ->
  rows_of hash sort ff rs o s vs (hset h a (set_slot fa "elements" (VList l'))) found = Ok R ->
  exists d ti r, anchor_dict hash sort o s vs h found = Ok d /\ sch_find s (o_type f) = Some ti /\
    render_fs ff rs vs h d ti (isann_of o ti) (x, f) = Ok r /\
    render_fs ff rs vs (hset h a (set_slot fa "elements" (VList l'))) d ti (isann_of o ti)
              (upd_with (fun f0 => set_slot f0 "elements" (VList l')) a (x, f)) = Ok r.
Proof.
  intros U Ha Arr Hx Ho Hex HR HR'.
  set (g := fun f0 => set_slot f0 "elements" (VList l')).
  change (set_slot fa "elements" (VList l')) with (g fa) in *.
  assert (Gt : forall f0, o_type (g f0) = o_type f0) by reflexivity.
  assert (Gi : forall f0, o_id (g f0) = o_id f0) by reflexivity.
  assert (Gs : forall f0 m, m <> "elements" -> slot (g f0) m = slot f0 m).
  { intros f0 m Hm. unfold g. rewrite slot_set. apply String.eqb_neq in Hm. rewrite Hm. reflexivity. }
  assert (Gs3 : forall f0 m, (m = "begin" \/ m = "end" \/ m = "sofa") -> slot (g f0) m = slot f0 m).
  { intros f0 m [->|[->| ->]]; apply Gs; discriminate. }
  assert (Go : forall f0, offs (g f0) = offs f0) by (intros f0; unfold offs; rewrite !Gs3 by tauto; reflexivity).
  destruct (unique_offsets_inv _ _ U) as (items & Ri & K).
  destruct (rows_of_inv hash sort ff rs _ _ _ _ _ _ HR) as (items0 & ls & d & bl & R0 & L & A & B & ER).
  rewrite Ri in R0. injection R0 as <-.
  destruct (rows_of_inv hash sort ff rs _ _ _ _ _ _ HR') as (items' & ls' & d' & bl' & R1 & L' & A' & B' & ER').
  rewrite (resolve_hset_with h a fa g found Ha), Ri in R1. cbn [rmap] in R1. injection R1 as <-.
  set (upd := upd_with g a) in *.
  assert (Uf : forall it, fst (upd it) = fst it) by (intros; apply upd_with_fst).
  assert (Ut : forall it, o_type (snd (upd it)) = o_type (snd it)) by (intros; apply (upd_with_pres o_type); exact Gt).
  assert (Uk : forall it, offs (snd (upd it)) = offs (snd it)) by (intros; apply (upd_with_pres offs); exact Go).
  rewrite (listing_upd upd Uf Ut hash sort sort_ok Uk) in L' by (intros t; eapply uniq_group; eauto).
  rewrite L in L'. cbn [rmap] in L'. injection L' as <-.
  rewrite (anchors_upd upd) in A'.
  2:{ intros it. apply anchor_prefix_set; assumption. }
  2:{ intros it. apply (upd_with_pres o_id). exact Gi. }
  rewrite A in A'. injection A' as <-.
  assert (Hit : In (x, f) items) by (eapply found_item; eauto).
  destruct (listing_has hash sort s items ls (x, f) sort_ok L Hit) as (b & Hb & Hfb & Hib).
  unfold ty in Hfb. cbn [snd] in Hfb.
  destruct (equal_rows_blocks ff rs o s vs h d vs (hset h a (g fa)) d ls (map (upd_block upd) ls) bl bl' b (upd_block upd b)) as (rr & M & M').
  - apply Forall2_map_r. intros b0. split; [reflexivity|]. cbn. rewrite map_length. reflexivity.
  - exact B.
  - exact B'.
  - congruence.
  - apply combine_map_r. exact Hb.
  - rewrite (sch_find_name _ _ _ Hfb). exact Hex.
  - cbn [snd upd_block] in M'. rewrite mapM_map in M'.
    destruct (mapM_same _ _ _ _ _ M M' Hib) as (r & Hr & Hr').
    exists d, (fst b), r. split; [|split; [exact Hfb|split; [exact Hr|exact Hr']]].
    unfold anchor_dict. rewrite Ri. cbn [bind]. rewrite L. exact A.
Qed.

(* C20 render_sensitive (array element, array held by a feature of a listed structure) *)
Theorem sensitive_array_element_held o s vs h found x f ti n a fa pre e e' post d c c' R :
  unique_offsets_per_type h found = true ->
  In x found -> hget h x = Some f -> x <> a -> sch_find s (o_type f) = Some ti ->
  memb (o_type f) (op_exclude o) = false -> is_array_name (o_type f) = false ->
  In n (map fd_name (feats_sorted ti)) -> slot f n = VRef a ->
  hget h a = Some fa -> is_array_name (o_type fa) = true -> slot fa "elements" = VList (pre ++ e :: post) ->
  anchor_dict hash sort o s vs h found = Ok d ->
  srepr ff rs h d e = Some c -> srepr ff rs h d e' = Some c' -> c <> c' ->
  rows_of hash sort ff rs o s vs h found = Ok R ->
  rows_of hash sort ff rs o s vs (hset h a (set_slot fa "elements" (VList (pre ++ e' :: post)))) found <> Ok R.
Proof.
  intros U Hx Ho Hxa Hti Hex Harr Hn Sn Ha Arr El AD Sc Sc' Hne HR HR'.
  destruct (array_change_rows o s vs h found a fa _ x f R U Ha Arr Hx Ho Hex HR HR') as (d0 & ti0 & r & AD0 & Hti0 & Hr & Hr').
  rewrite AD in AD0. injection AD0 as <-. rewrite Hti in Hti0. injection Hti0 as <-.
  assert (upd_with (fun f0 => set_slot f0 "elements" (VList (pre ++ e' :: post))) a (x, f) = (x, f)) as Eu.
  { unfold upd_with. cbn [fst]. apply N.eqb_neq in Hxa. rewrite Hxa. reflexivity. }
  rewrite Eu in Hr'. set (fa' := set_slot fa "elements" (VList (pre ++ e' :: post))) in *.
  apply render_fs_nonarray in Hr; [|exact Harr]. apply render_fs_nonarray in Hr'; [|exact Harr].
  destruct Hr as (ct & cs & Hct & Hcs & ->). destruct Hr' as (ct' & cs' & Hct' & Hcs' & E).
  cbn [snd] in *. injection E as E. rewrite Hct in Hct'. injection Hct' as <-. apply app_inv_head in E. subst cs'.
  apply in_map_iff in Hn as (fd & Efd & Hfd).
  destruct (mapM_same _ _ _ _ _ Hcs Hcs' Hfd) as (c0 & H1 & H2). rewrite Efd in H1, H2.
  unfold cellf, fuel_of in H1, H2. rewrite hset_length in H2. rewrite Sn in H1, H2.
  assert (slot fa' "elements" = VList (pre ++ e' :: post)) as El'.
  { unfold fa'. rewrite slot_set. reflexivity. }
  remember (S (List.length h)) as k eqn:Ek.
  rewrite (render_val_ref_array k h d a fa _ Ha Arr El) in H1.
  rewrite (render_val_ref_array k (hset h a fa') d a fa' (pre ++ e' :: post)) in H2;
    [|rewrite hget_hset, N.eqb_refl, Ha; reflexivity|exact Arr|exact El'].
  rewrite (mapM_ext_in _ (render_val k h d [a])) in H2.
  2:{ intros v _. apply (render_val_agree h d a fa fa' Ha eq_refl eq_refl Arr). left. reflexivity. }
  subst k.
  apply bind_ok in H1 as (p & Hp & H1). apply bind_ok in Hp as (r1 & Hr1 & Hp). injection Hp as <-.
  apply bind_ok in H2 as (p' & Hp' & H2). apply bind_ok in Hp' as (r2 & Hr2 & Hp'). injection Hp' as <-.
  assert (E : cell ff rs (PList r1) = cell ff rs (PList r2)) by (rewrite <- H2 in H1; exact (f_equal (fun r => match r with Ok y => y | _ => "" end) H1)).
  revert E. eapply (elems_cell_differ ff rs h d _ [a]); eauto. discriminate.
Qed.

(* C20 render_sensitive (array element, array listed itself) *)
Theorem sensitive_array_element_listed o s vs h found a fa pre e e' post d c c' R :
  unique_offsets_per_type h found = true ->
  In a found -> hget h a = Some fa -> is_array_name (o_type fa) = true ->
  memb (o_type fa) (op_exclude o) = false -> slot fa "elements" = VList (pre ++ e :: post) ->
  anchor_dict hash sort o s vs h found = Ok d ->
  srepr ff rs h d e = Some c -> srepr ff rs h d e' = Some c' -> c <> c' ->
  rows_of hash sort ff rs o s vs h found = Ok R ->
  rows_of hash sort ff rs o s vs (hset h a (set_slot fa "elements" (VList (pre ++ e' :: post)))) found <> Ok R.
Proof.
  intros U Hx Ha Arr Hex El AD Sc Sc' Hne HR HR'.
  destruct (array_change_rows o s vs h found a fa _ a fa R U Ha Arr Hx Ha Hex HR HR') as (d0 & ti & r & AD0 & Hti & Hr & Hr').
  rewrite AD in AD0. injection AD0 as <-.
  set (fa' := set_slot fa "elements" (VList (pre ++ e' :: post))) in *.
  assert (upd_with (fun f0 => set_slot f0 "elements" (VList (pre ++ e' :: post))) a (a, fa) = (a, fa')) as Eu.
  { unfold upd_with. cbn [fst snd]. rewrite N.eqb_refl. reflexivity. }
  rewrite Eu in Hr'.
  apply render_fs_array in Hr; [|exact Arr]. apply render_fs_array in Hr'; [|exact Arr].
  destruct Hr as (ct & c1 & Hct & Hc1 & ->). destruct Hr' as (ct' & c2 & Hct' & Hc2 & E).
  cbn [fst snd] in *. injection E as E.
  assert (forall m, m <> "elements" -> slot fa' m = slot fa m) as Gs.
  { intros m Hm. unfold fa'. rewrite slot_set. apply String.eqb_neq in Hm. rewrite Hm. reflexivity. }
  assert (ct_of vs (isann_of o ti) fa' = ct_of vs (isann_of o ti) fa) as Ec.
  { unfold ct_of, covered, offs. rewrite (Gs "begin"), (Gs "end"), (Gs "sofa") by discriminate. reflexivity. }
  rewrite Ec, Hct in Hct'. injection Hct' as <-. apply app_inv_head in E. injection E as E.
  unfold cellf, fuel_of in Hc1, Hc2. rewrite hset_length in Hc2. rewrite El in Hc1.
  assert (slot fa' "elements" = VList (pre ++ e' :: post)) as El' by (unfold fa'; rewrite slot_set; reflexivity).
  rewrite El' in Hc2. remember (S (List.length h)) as k eqn:Ek. rewrite render_val_list in Hc1, Hc2.
  rewrite (mapM_ext_in _ (render_val k h d [a])) in Hc2.
  2:{ intros v _. apply (render_val_agree h d a fa fa' Ha eq_refl eq_refl Arr). left. reflexivity. }
  subst k.
  apply bind_ok in Hc1 as (p & Hp & H1). apply bind_ok in Hp as (r1 & Hr1 & Hp). injection Hp as <-.
  apply bind_ok in Hc2 as (p' & Hp' & H2). apply bind_ok in Hp' as (r2 & Hr2 & Hp'). injection Hp' as <-.
  assert (E' : cell ff rs (PList r1) = cell ff rs (PList r2)).
  { rewrite <- E in H2. rewrite <- H2 in H1. exact (f_equal (fun r => match r with Ok y => y | _ => "" end) H1). }
  revert E'. eapply (elems_cell_differ ff rs h d _ [a]); eauto. discriminate.
Qed.

(* the row of a listed array a does not change when the elements of ANOTHER array b that has an anchor change: where b is
   nested in a, a's row holds b's anchor *)
Theorem listed_array_row_ignores_nested vs h d ti isann a fa b fb fb' ab :
  a <> b -> is_array_name (o_type fa) = true ->
  hget h b = Some fb -> is_array_name (o_type fb) = true -> o_type fb' = o_type fb -> o_id fb' = o_id fb ->
  dget (o_id fb) d = Some ab ->
  render_fs ff rs vs (hset h b fb') d ti isann (a, fa) = render_fs ff rs vs h d ti isann (a, fa).
Proof.
  intros Hab Arr Hb ArrB Et Ei D. unfold render_fs. cbn [fst snd]. rewrite Arr, hset_length.
  rewrite (render_val_nested_agree h d b fb fb' ab Hb Et Ei ArrB D) by discriminate. reflexivity.
Qed.
End Sensitive4.
