(* CorrC14.v — correspondence harness for C14.  Two kinds of cases:
   CSeq : an in-process history on one CAS.  Labels are 1..n (the scenario's object labels).  The case carries: the id of
          every label before the first operation (-1 = none), the generator's next id computed from the scenario, the
          labels of the byte arrays holding sofa data in view order (ta, from the scenario), the
          labels each traversal visits (computed by the harness with an identity-based traversal of its own; the id-less ones
          ordered as the implementation was seen to visit them), the label lists behind the canonical queries (from the
          scenario: members per view, members of the queried subtree per view), for every handle (Cas object: the ones
          the CAS was built through and one more per view from get_view) the view it points at (from the scenario), the
          answers of the canonical queries through every handle before the first operation, the number of operations in
          front of the edit (the scenario may replace document text / primitive feature values between two operations:
          nothing the model knows about changes, but the bytes do, so digest classes are counted per segment; = the
          number of operations when there is no edit), the operations, each with the handle it is called through, and
          what was observed after each one (compactly):
            ob_delta   labels whose id changed in this step, with the new id
            ob_doc     labels of the structures listed in the written document, in document order (DSame j = the same
                       listing as at step j)
            ob_class   digest class of the document: index of the first step with the same operation and the same bytes
            ob_queries sorted ids the canonical queries (select_all, select(T)) returned through every handle (None = the
                       same as after the previous step)
            ob_cur     the view every handle points at (None = the same as after the previous step)
          The model must predict all of it: which ids are assigned to whom, the listing order, that documents repeat.
   CEmit: one CAS with all ids present.  The set-valued inputs in an order chosen by the harness (not the emitted one), and
          the orders observed in the XMI document, the JSON documents (FULL/MINIMAL) and type-system XML documents. *)
From Cassis Require Import Base Determinism.
Open Scope Z_scope.

Inductive docobs := DNone | DNew (l : list Z) | DSame (j : Z).
Record stepobs := mkObs {
  ob_delta : list (Z * Z); ob_doc : docobs; ob_class : Z; ob_queries : option (list (list Z)); ob_cur : option (list Z) }.

Record emitobs := mkEmit {
  em_found_x : list fsitem;             (* what XMI writes separately, in label order *)
  em_found_j : list fsitem;             (* what JSON writes separately, in label order *)
  em_sofas : list sofaitem;
  em_views : list (string * viewitem);  (* members in select_all order *)
  em_x_fs : list (Z * string);          (* observed: (xmi:id, package of the element's namespace) in document order *)
  em_x_ns : list string;                (* observed: packages in xmlns declaration order, uima.cas left out *)
  em_x_views : list (list Z);
  em_j_types : list (list string * list string);   (* (type names as a set in harness order, observed order) per mode *)
  em_j_fs : list Z;                     (* observed %ID order *)
  em_j_views : list (list Z);
  em_ts : list (list string * list string * list string) }.  (* (redeclared set, type-name set, observed name order) *)

Inductive case :=
| CSeq (ids : list Z) (next : Z) (ta tx tj : list Z) (cur : list Z) (qall qsub : list (list Z)) (q0 : list (list Z))
       (cut : Z) (hops : list (Z * op)) (obs : list stepobs)
| CEmit (e : emitobs).

Definition optz_eqb (a b : option Z) : bool :=
  match a, b with Some x, Some y => Z.eqb x y | None, None => true | _, _ => false end.
Definition pair_eqb (a b : N * Z) : bool := N.eqb (fst a) (fst b) && Z.eqb (snd a) (snd b).
Definition doc_eqb (a b : option (list (N * Z))) : bool :=
  match a, b with Some x, Some y => list_eqb pair_eqb x y | None, None => true | _, _ => false end.
Definition zs_eqb := list_eqb Z.eqb.
Definition ss_eqb := list_eqb String.eqb.
Definition nl (l : list Z) : list N := map Z.to_N l.

Fixpoint number_from (i : Z) (ids : list Z) : list entry :=
  match ids with
  | [] => []
  | x :: r => mkE (Z.to_N i) (if x <? 0 then None else Some x) :: number_from (i + 1) r
  end.
Definition init_state (ids : list Z) (next : Z) : state := mkSt (number_from 1 ids) next.

Fixpoint set_nth (n : nat) (v : option Z) (l : list (option Z)) : list (option Z) :=
  match l, n with
  | [], _ => []
  | _ :: r, O => v :: r
  | x :: r, S n' => x :: set_nth n' v r
  end.
Definition apply_delta (delta : list (Z * Z)) (ids : list (option Z)) : list (option Z) :=
  fold_left (fun acc p => set_nth (Z.to_nat (fst p - 1)) (Some (snd p)) acc) delta ids.

(* index of the first earlier step with the same operation and an equal model document *)
Fixpoint first_same (o : op) (d : list (N * Z)) (i : Z) (hist : list (op * option (list (N * Z)))) : option Z :=
  match hist with
  | [] => None
  | (o', d') :: r =>
      if op_eqb o o' && doc_eqb (Some d) d' then Some i else first_same o d (i + 1) r
  end.
Fixpoint classes (base i : Z) (seen : list (op * option (list (N * Z)))) (todo : list (op * option (list (N * Z)))) : list Z :=
  match todo with
  | [] => []
  | (o, None) :: r => (-1) :: classes base (i + 1) (seen ++ [(o, None)]) r
  | (o, Some d) :: r =>
      (match first_same o d base seen with Some j => j | None => i end) :: classes base (i + 1) (seen ++ [(o, Some d)]) r
  end.
(* the documents written before and after the edit are counted separately (seen = the steps from index base on) *)
Definition classes_cut (cut : nat) (l : list (op * option (list (N * Z)))) : list Z :=
  classes 0 0 [] (firstn cut l) ++ classes (Z.of_nat cut) (Z.of_nat cut) [] (skipn cut l).

(* the canonical queries through every handle: select_all() per handle, then select(T) per handle *)
Fixpoint upto (n : nat) : list N := match n with O => [] | S k => upto k ++ [N.of_nat k] end.
Definition hqueries (qall qsub : list (list N)) (hs : hstate) : list (list Z) :=
  let hd := upto (List.length (hs_cur hs)) in map (hquery qall hs) hd ++ map (hquery qsub hs) hd.

Fixpoint check_steps (qall qsub : list (list N)) (r : list (hstate * option (list (N * Z)))) (obs : list stepobs)
                     (ids : list (option Z)) (docs : list (list N)) (lastq : list (list Z)) (lastc : list Z) : bool :=
  match r, obs with
  | [], [] => true
  | (hs, d) :: r', o :: obs' =>
      let s := hs_store hs in
      let c := match ob_cur o with Some c => c | None => lastc end in
      let ids' := apply_delta (ob_delta o) ids in
      let od := match ob_doc o with
                | DNone => None
                | DNew l => Some (nl l)
                | DSame j => Some (nth (Z.to_nat j) docs [])
                end in
      let q := match ob_queries o with Some q => q | None => lastq end in
      list_eqb optz_eqb (map e_id (st_entries s)) ids' &&
      (match d, od with
       | None, None => true
       | Some d, Some l => list_eqb N.eqb (map fst d) l
       | _, _ => false
       end) &&
      list_eqb zs_eqb (hqueries qall qsub hs) q &&
      list_eqb N.eqb (hs_cur hs) (nl c) &&
      check_steps qall qsub r' obs' ids' (docs ++ [match od with Some l => l | None => [] end]) q c
  | _, _ => false
  end.

Definition check_seq ids next ta tx tj cur qall qsub q0 cut (hops : list (Z * op)) (obs : list stepobs) : bool :=
  let hs0 := mkHs (nl cur) (init_state ids next) in
  let qa := map nl qall in
  let qs := map nl qsub in
  let r := hrun (nl ta) (nl tx) (nl tj) (map (fun p => (Z.to_N (fst p), snd p)) hops) hs0 in
  list_eqb zs_eqb (hqueries qa qs hs0) q0 &&
  check_steps qa qs r obs (map e_id (st_entries (hs_store hs0))) [] q0 cur &&
  zs_eqb (classes_cut (Z.to_nat cut) (combine (map snd hops) (map snd r))) (map ob_class obs).

Definition tys (names : list string) : list tyitem := map (fun n => mkTy n "") names.

Definition check_emit (e : emitobs) : bool :=
  let x := xmi_emit (em_found_x e) (em_sofas e) (map snd (em_views e)) in
  let j := json_emit None (em_found_j e) (em_sofas e) (em_views e) in
  list_eqb (fun a b => Z.eqb (fst a) (fst b) && String.eqb (snd a) (snd b))
           (map (fun i => (fi_id i, pkg_of (fi_type i))) (xd_fs x)) (em_x_fs e) &&
  ss_eqb (filter (fun u => negb (String.eqb u "uima.cas")) (xd_ns x)) (em_x_ns e) &&
  list_eqb zs_eqb (map vi_members (xd_views x)) (em_x_views e) &&
  forallb (fun p : list string * list string => ss_eqb (map ty_name (json_types_emit (tys (fst p)))) (snd p)) (em_j_types e) &&
  zs_eqb (map fi_id (jd_fs j)) (em_j_fs e) &&
  list_eqb zs_eqb (map (fun nv => vi_members (snd nv)) (jd_views j)) (em_j_views e) &&
  forallb (fun p : list string * list string * list string =>
             let '(redecl, names, seen) := p in
             let (r, t) := tsxml_emit redecl (tys names) in ss_eqb (r ++ map ty_name t) seen) (em_ts e).

Definition check_case (c : case) : bool :=
  match c with
  | CSeq ids next ta tx tj cur qall qsub q0 cut hops obs => check_seq ids next ta tx tj cur qall qsub q0 cut hops obs
  | CEmit e => check_emit e
  end.

(* premises of the theorems of Props/C14.v: ids pairwise distinct, and either everything the formats visit has an id
   already (saves_commute_when_ids_present) or all ids are below the generator's next id (wf_state: fresh ids); for emit
   cases unique ids and unique names (sort_unique) *)
Fixpoint snodupb (l : list string) : bool :=
  match l with [] => true | x :: r => negb (memb x r) && snodupb r end.
Definition premises (c : case) : bool :=
  match c with
  | CSeq ids next ta tx tj cur qall qsub q0 cut hops obs =>
      let s0 := init_state ids next in
      znodupb (present (st_entries s0)) &&
      ((settledb (xmi_trav (nl ta) (nl tx)) s0 && settledb (uniq (nl ta) ++ nl tj) s0) || wf_stateb s0)
  | CEmit e =>
      znodupb (map fi_id (em_found_x e)) && znodupb (map fi_id (em_found_j e)) &&
      forallb (fun p : list string * list string => snodupb (fst p)) (em_j_types e) &&
      forallb (fun p : list string * list string * list string => snodupb (snd (fst p))) (em_ts e)
  end.
