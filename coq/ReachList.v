(* ReachList.v — the third loop of the implementation that is not structural (after the worklist of Cas._find_all_fs and
   its inline FSList walk, both in Reach.v): CasXmiSerializer._collect_list_elements (cassis/xmi.py:744-757), the walk
   over the head/tail nodes of a list that the XMI writer stores inside the element of its holder.  It serves every
   list kind — uima.cas.FSList and the lists of primitive values IntegerList / FloatList / StringList — whenever the
   feature has no multipleReferencesAllowed:

       elements = []; seen_nodes = set(); current = value
       while hasattr(current, "head"):
           if id(current) in seen_nodes: raise ValueError("Cannot serialize cyclic list ... inline")
           seen_nodes.add(id(current)); elements.append(current.head); current = current.tail

   The tail of a NonEmpty*List node is an ordinary reference, so the nodes of any list kind can form a cycle; the node
   set is what makes the walk end.  `to_xmi_lists` is the part of Cas.to_xmi that decides between "returns" and "raises
   ValueError": the traversal (Reach.find_all_fs with inlinable collections left out, as `cas._find_all_fs()` is called
   by the writer) followed, for every structure found in id order, by the list walks of its features in the order of
   the `elif` chain of _serialize_feature_structure.  Definitions only; proofs in ReachListProofs.v. *)
From Cassis Require Import Base Heap Schema Reach.
Open Scope Z_scope.

Fixpoint collect_list (fuel : nat) (s : schema) (h : heap) (seen : list oid) (v : val) : res (list val) :=
  match fuel with
  | O => OutOfFuel
  | S k =>
    match v with
    | VRef o =>
      match hget h o with
      | Some f =>
        if has_feat s (o_type f) "head" then
          if memN o seen then Err EValue
          else do r <- collect_list k s h (o :: seen) (slot f "tail") ;; Ok (slot f "head" :: r)
        else Ok []
      | None => Err EAttribute
      end
    | _ => Ok []
    end
  end.
(* every node is walked once, so |heap| steps and one more to see the end or the repetition suffice
   (ReachListProofs.collect_terminates) *)
Definition list_elems (s : schema) (h : heap) (v : val) : res (list val) :=
  collect_list (S (List.length h)) s h [] v.

(* the branches of _serialize_feature_structure that call _collect_list_elements: `is_instance_of(range, StringList) and
   not multipleReferencesAllowed`, `is_primitive_list(range) and not ...`, `range.name == FSList and not ...` *)
Definition collects (s : schema) (fd : fdecl) : bool :=
  negb (fd_multi fd) && (isa s (fd_range fd) T_STRING_LIST || is_list_name (fd_range fd)).
Definition common_field (fd : fdecl) : bool := String.eqb (fd_name fd) "xmiID" || String.eqb (fd_name fd) "type".
(* `if type_name not in _LIST_TYPES: raise ValueError` comes first *)
Definition feat_list (s : schema) (h : heap) (f : fsobj) (fd : fdecl) : res unit :=
  if common_field fd then Ok tt else
  match slot f (fd_name fd) with
  | VNone => Ok tt
  | v => if collects s fd
         then (if is_list_name (fd_range fd) then do _ <- list_elems s h v ;; Ok tt else Err EValue)
         else Ok tt
  end.
(* arrays are written from `elements` and return early; every other structure goes through Type.all_features *)
Definition obj_lists (s : schema) (h : heap) (f : fsobj) : res unit :=
  if is_array_name (o_type f) then Ok tt
  else fold_left (fun acc fd => do _ <- acc ;; feat_list s h f fd) (sch_feats s (o_type f)) (Ok tt).
Definition written_lists (s : schema) (h : heap) (all : list (xid * oid)) : res unit :=
  fold_left (fun acc p => do _ <- acc ;;
                          match hget h (snd p) with Some f => obj_lists s h f | None => Err EAttribute end)
            (sort_ids all) (Ok tt).
Definition to_xmi_lists (s : schema) (c : cas) : res unit :=
  do w <- find_all_fs false s c ;; written_lists s (w_heap w) (w_all w).

(* ---- the same walk without the node set, kept for the refutation (ReachListProofs.collect_unguarded_diverges_refuted):
   whatever the list kind, leaving the guard out loses termination ---- *)
Fixpoint collect_unguarded (fuel : nat) (s : schema) (h : heap) (v : val) : res (list val) :=
  match fuel with
  | O => OutOfFuel
  | S k =>
    match v with
    | VRef o =>
      match hget h o with
      | Some f =>
        if has_feat s (o_type f) "head"
        then do r <- collect_unguarded k s h (slot f "tail") ;; Ok (slot f "head" :: r)
        else Ok []
      | None => Err EAttribute
      end
    | _ => Ok []
    end
  end.
