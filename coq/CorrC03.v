(* CorrC03.v — correspondence harness for C03.  Three kinds of cases in one type:
   Table: a text and what the implementation's python_to_external returned for the offsets -1..len+2, what
          external_to_python returned for -1..utf16len+2, and the code units of text.encode("utf-16-le");
   Hist:  a Sofa built by the constructor with `init`, then the sofaString setter called with each of `sets`,
          and the two conversions of the resulting converter on the query offsets `qs`;
   Doc:   a CAS with one sofa per entry of `views` (each entry: the successive sofa_string assignments of that
          view), annotations with the index of their own sofa, and the observations: begin/end found in the
          emitted XMI and JSON (parsed with the standard library), begin/end/covered text after loading each
          document back; then, on each loaded CAS, the operations `pmv` (per annotation: remove / assign offsets /
          add to another view) and the further sofa_string assignments `post` (per view) and
          the begin/end found in the documents written from the loaded CAS (XMI from the XMI-loaded one, JSON
          from the JSON-loaded one), and what get_covered_text() of each loaded annotation returns after these
          changes (`xmi_c2`, `json_c2`: the text of the view must be the one assigned last, also for an annotation
          that is a member of no view, whatever the document said about views).  An annotation that changed its view before the first save is given as
          `ann_run (mkDann v b e) ops` (Offsets.ann_run: the model of Cas.add / Cas.remove / attribute assignment).
          The case does not say how the loaded documents were laid out (order of the elements / of the entries of
          %FEATURE_STRUCTURES, sofas before or after the annotations): the model of the readers does not depend on it.
          check_case evaluates the model of Offsets.v on the same input. *)
From Cassis Require Import Base Offsets.
Open Scope Z_scope.

Definition obs_w := (option Z * option Z)%type.
Definition obs_l := (option Z * option Z * option text)%type.

Inductive case :=
| Table (t : text) (p2e_obs e2p_obs : list Z) (units : list N)
| Hist (init : option text) (sets : list (option text)) (qs : list (option Z)) (p2e_obs e2p_obs : list (option Z))
| Doc (views : list (list (option text))) (anns : list dann)
      (xmi_w json_w : list obs_w) (xmi_l json_l : list obs_l)
      (pmv : list (list aop)) (post : list (list (option text))) (xmi_w2 json_w2 : list obs_w)
      (xmi_c2 json_c2 : list (option text)).

Definition opt_eqb {A} (eqb : A -> A -> bool) (a b : option A) : bool :=
  match a, b with Some x, Some y => eqb x y | None, None => true | _, _ => false end.
Definition text_eqb : text -> text -> bool := list_eqb N.eqb.
Definition obs_w_eqb (a b : obs_w) : bool :=
  opt_eqb Z.eqb (fst a) (fst b) && opt_eqb Z.eqb (snd a) (snd b).
Definition obs_l_eqb (a b : obs_l) : bool :=
  obs_w_eqb (fst a) (fst b) && opt_eqb text_eqb (snd a) (snd b).

Definition doc_sofas (views : list (list (option text))) : list sofa := map (sofa_run None) views.
Definition model_written (ss : list sofa) (anns : list dann) : list obs_w :=
  map (fun a => let w := write_ann ss a in (da_b w, da_e w)) anns.
Definition model_loaded (load : option text -> sofa) (ss : list sofa) (anns : list dann) : list obs_l :=
  let ss' := map (fun s => load (s_text s)) ss in
  map (fun a => let r := read_ann ss' (write_ann ss a) in (da_b r, da_e r, covered_text ss' r)) anns.

(* continue on the loaded CAS: annotations removed / re-added to another view, more setter calls per view, then write again *)
Definition model_rewritten (load : option text -> sofa) (ss : list sofa) (anns : list dann) (pmv : list (list aop))
                           (post : list (list (option text))) : list obs_w :=
  let ss' := map (fun s => load (s_text s)) ss in
  let anns' := run_moves (map (fun a => read_ann ss' (write_ann ss a)) anns) pmv in
  let ss2 := map (fun sp => fold_left sofa_set (snd sp) (fst sp)) (combine ss' post) in
  model_written ss2 anns'.
(* ... and get_covered_text() of the same annotations at that moment: a slice of the text their view has NOW *)
Definition model_recovered (load : option text -> sofa) (ss : list sofa) (anns : list dann) (pmv : list (list aop))
                           (post : list (list (option text))) : list (option text) :=
  let ss' := map (fun s => load (s_text s)) ss in
  let anns' := run_moves (map (fun a => read_ann ss' (write_ann ss a)) anns) pmv in
  let ss2 := map (fun sp => fold_left sofa_set (snd sp) (fst sp)) (combine ss' post) in
  map (covered_text ss2) anns'.

Definition check_case (c : case) : bool :=
  match c with
  | Table t po eo units =>
      let cv := mk_conv t in
      list_eqb Z.eqb (map (py2ext cv) (zrange (-1) (List.length t + 4))) po &&
      list_eqb Z.eqb (map (ext2py cv) (zrange (-1) (Z.to_nat (utf16_len t) + 4))) eo &&
      list_eqb N.eqb (utf16 t) units
  | Hist init sets qs po eo =>
      let s := sofa_run init sets in
      list_eqb (opt_eqb Z.eqb) (map (p2e (s_tbl s)) qs) po &&
      list_eqb (opt_eqb Z.eqb) (map (e2p (s_tbl s)) qs) eo
  | Doc views anns xw jw xl jl pmv post xw2 jw2 xc2 jc2 =>
      let ss := doc_sofas views in
      list_eqb obs_w_eqb (model_written ss anns) xw &&
      list_eqb obs_w_eqb (model_written ss anns) jw &&
      list_eqb obs_l_eqb (model_loaded load_sofa_xmi ss anns) xl &&
      list_eqb obs_l_eqb (model_loaded load_sofa_json ss anns) jl &&
      list_eqb obs_w_eqb (model_rewritten load_sofa_xmi ss anns pmv post) xw2 &&
      list_eqb obs_w_eqb (model_rewritten load_sofa_json ss anns pmv post) jw2 &&
      list_eqb (opt_eqb text_eqb) (model_recovered load_sofa_xmi ss anns pmv post) xc2 &&
      list_eqb (opt_eqb text_eqb) (model_recovered load_sofa_json ss anns pmv post) jc2
  end.

(* premises of the theorems in Props/C03.v: the table theorems hold for every text; the document theorems
   speak about annotations whose view has a text and whose offsets lie inside it *)
Definition premises (c : case) : bool :=
  match c with
  | Table _ _ _ _ => true
  | Hist init sets _ _ _ => match s_text (sofa_run init sets) with Some _ => true | None => false end
  | Doc views anns _ _ _ _ _ _ _ _ _ _ => forallb (ann_okb (doc_sofas views)) anns
  end.
