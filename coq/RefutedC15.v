(* RefutedC15.v — the loop of Cas._find_all_fs as it was before fix ce2ede6 (pinned tree), refuted as regression evidence:
   candidates were tested against the ids already *popped* (`ref.xmiID in all_fs`), so a structure met k times before it
   is popped is queued k times and rescanned k times — 2^(n+1)-1 pops on a chain of n diamonds — and the inline FSList
   walk did not advance past a null or already visited head: it needs more than any fuel.  The repaired loop (Reach.v)
   pops n+1 times on the same heaps. *)
From Cassis Require Import Base Heap Schema Reach.
Open Scope Z_scope.

(* one iteration of the old loop: same id handling, same candidates (obj_cands is what the scan looks at), but queued
   through push_old; a structure popped again under its own id is accepted and rescanned *)
Definition pop_old (inl : bool) (s : schema) (w : wstate) : res wstate :=
  match w_open w with
  | [] => Ok w
  | o :: rest =>
    let w := mkW (w_heap w) (w_next w) (w_all w) (w_queued w) rest in
    match hget (w_heap w) o with
    | None => Err EAttribute
    | Some f =>
      if is_null_id f then Ok w else
      let '(i, f, w) := assign_id o f w in
      do w <- record_fs i o w ;;
      do l <- obj_cands inl s (w_heap w) f ;; Ok (push_old w l)
    end
  end.
Fixpoint run_old (fuel : nat) (inl : bool) (s : schema) (w : wstate) (pops : N) : res (wstate * N) :=
  match fuel with
  | O => match w_open w with [] => Ok (w, pops) | _ => OutOfFuel end
  | S k => match w_open w with [] => Ok (w, pops) | _ => do w' <- pop_old inl s w ;; run_old k inl s w' (pops + 1)%N end
  end.

(* chain of n "diamonds": node k refers to node k+1 through both of its reference features *)
Definition sD : schema :=
  [mkTi "t.N" ["t.N"; "uima.cas.TOP"] [mkFd "a" "a" "t.N" None false; mkFd "b" "b" "t.N" None false];
   mkTi "uima.cas.TOP" ["uima.cas.TOP"] []].
Fixpoint diamond_from (k : N) (n : nat) : heap :=
  match n with
  | O => [(k, mkFs "t.N" None [])]
  | S m => (k, mkFs "t.N" None [("a", VRef (k + 1)%N); ("b", VRef (k + 1)%N)]) :: diamond_from (k + 1)%N m
  end.
Definition diamond (n : nat) : cas := mkCas [] (diamond_from 1%N n) 1.
Definition old_pops (n : nat) : option N :=
  match run_old (2 ^ 12) false sD (mkW (c_heap (diamond n)) 1 [] [] [1%N]) 0%N with Ok (_, p) => Some p | _ => None end.
Definition new_pops (n : nat) : option nat :=
  match find_all_from false sD (diamond n) [1%N] with Ok w => Some (List.length (w_queued w)) | _ => None end.

Theorem old_loop_exponential :
  map old_pops [1; 2; 3; 4; 5; 6; 7; 8; 9; 10]%nat
  = map Some [3; 7; 15; 31; 63; 127; 255; 511; 1023; 2047]%N.
Proof. vm_compute. reflexivity. Qed.
Theorem repaired_loop_linear :
  map new_pops [1; 2; 3; 4; 5; 6; 7; 8; 9; 10]%nat = map Some [2; 3; 4; 5; 6; 7; 8; 9; 10; 11]%nat.
Proof. vm_compute. reflexivity. Qed.
(* the old loop returns the same structures — it is only the number of iterations that explodes *)
Theorem old_loop_same_result :
  forallb (fun n => match run_old (2 ^ 12) false sD (mkW (c_heap (diamond n)) 1 [] [] [1%N]) 0%N, find_all_from false sD (diamond n) [1%N] with
                    | Ok (w, _), Ok w' => list_eqb (fun a b => Z.eqb (fst a) (fst b) && N.eqb (snd a) (snd b)) (w_all w) (w_all w')
                    | _, _ => false end) [1; 2; 3; 4; 5; 6]%nat = true.
Proof. vm_compute. reflexivity. Qed.

(* the old inline list walk: `while hasattr(v, "head"): if not v.head or v.head.xmiID in all_fs: continue; ...; v = v.tail` *)
Fixpoint list_walk_old (fuel : nat) (s : schema) (w : wstate) (v : val) : res wstate :=
  match fuel with
  | O => OutOfFuel
  | S k =>
    match v with
    | VRef o =>
      match hget (w_heap w) o with
      | Some f =>
        if has_feat s (o_type f) "head" then
          match slot f "head" with
          | VRef hd => if visited_id w hd then list_walk_old k s w v                      (* `continue` without advancing *)
                       else list_walk_old k s (push_old w [VRef hd]) (slot f "tail")
          | _ => list_walk_old k s w v                                                  (* null head: `continue` *)
          end
        else Ok w
      | None => Err EAttribute
      end
    | _ => Ok w
    end
  end.

Definition sL : schema :=
  [mkTi "uima.cas.NonEmptyFSList" ["uima.cas.NonEmptyFSList"; "uima.cas.FSList"; "uima.cas.ListBase"; "uima.cas.TOP"]
        [mkFd "head" "head" "uima.cas.TOP" None true; mkFd "tail" "tail" "uima.cas.FSList" None true];
   mkTi "uima.cas.EmptyFSList" ["uima.cas.EmptyFSList"; "uima.cas.FSList"; "uima.cas.ListBase"; "uima.cas.TOP"] []].
(* a one-element list whose head is null *)
Definition hL : heap :=
  [(1%N, mkFs "uima.cas.NonEmptyFSList" None [("head", VNone); ("tail", VRef 2%N)]); (2%N, mkFs "uima.cas.EmptyFSList" None [])].
Definition wL : wstate := mkW hL 1 [] [] [].

Theorem list_walk_diverges_refuted : forall fuel, list_walk_old fuel sL wL (VRef 1%N) = OutOfFuel.
Proof. induction fuel as [|k IH]; [reflexivity|]. exact IH. Qed.
(* the repaired walk ends on it, and on a cyclic chain of two nodes *)
Theorem list_walk_repaired_ends :
  list_heads 3 sL hL [] (VRef 1%N) = Ok [VNone] /\
  list_heads 3 sL [(1%N, mkFs "uima.cas.NonEmptyFSList" None [("head", VRef 1%N); ("tail", VRef 2%N)]);
                   (2%N, mkFs "uima.cas.NonEmptyFSList" None [("head", VNone); ("tail", VRef 1%N)])] [] (VRef 1%N)
    = Ok [VRef 1%N; VNone].
Proof. split; vm_compute; reflexivity. Qed.
