(* ReachTypes.v — C15, clause "type trees dozens of levels deep": the work of the walk over the subtypes of a type.

   Type.descendants (cassis/typesystem.py 757-764) is what Cas.select, select_covered (_get_feature_structures,
   _get_feature_structures_in_range) and Type._add_feature iterate over.  It follows the _children tables, which are
   mutable state: create_type appends to them and merge_typesystems moves an entry when it re-parents a type under a
   more specific supertype.  The walk is modelled in TS.v (`descendants`, on fuel); here its COST is bounded:

   - subtype_walk_linear: on every type system that satisfies the hierarchy invariant WFh (a type is listed among the
     children of p exactly when p is its supertype, and once) the walk from any type returns with the fuel desc_fuel,
     hands out no type twice, and therefore at most as many types as the type system has;
   - merged_subtype_walk_linear: the same for every type system that merge_typesystems returns (WFh is preserved by the
     modelled merge, MergeProofs.merge_WFh), whatever was re-parented on the way;
   - stale_child_walk_exponential: WFh cannot be dropped.  When a re-parented type is left in the children of its old
     supertype (one stale entry per level, everything else as declared), the walk from the root of a tree of depth k
     hands out 3 * 2^k - 2 types although there are 2k + 1: the walk enumerates paths, not types;
   - (fourth wave, at the end of the file) supertype_walk_ends / merged_supertype_walk_ends: the walk UP the supertype
     attributes (Type.subsumes) returns on every type system satisfying WFh, in particular on every result of the modelled
     merge; ring_supertype_walk_diverges: on a supertype chain that is a ring it runs out of every fuel. *)
From Cassis Require Import Base TS TSProofs Merge MergeProofs.
From Coq Require Import Lia.

Lemma below_named ts a d : In a ts -> below ts (t_name a) d -> In d (map t_name ts).
Proof.
  intros Ha Hb. inversion Hb as [|d' td s Hf _ _]; subst.
  - apply in_map. exact Ha.
  - destruct (find_ty_In ts d td Hf) as [Hin Hn]. rewrite <- Hn. apply in_map. exact Hin.
Qed.

Theorem subtype_walk_linear ts a : WFh ts -> In a ts ->
  exists l, descendants (desc_fuel ts) ts (t_name a) = Some l /\ NoDup l /\ (List.length l <= List.length ts)%nat.
Proof.
  intros W Ha. destruct (descendants_full_spec ts a W Ha) as (l & Hl & Hnd & Hspec).
  exists l. split; [exact Hl|]. split; [exact Hnd|].
  rewrite <- (map_length t_name ts). apply NoDup_incl_length; [exact Hnd|].
  intros d Hd. apply (below_named ts a d Ha). apply Hspec. exact Hd.
Qed.

Theorem merged_subtype_walk_linear inputs ts a : all_WFh inputs -> merge inputs = Ok ts -> In a ts ->
  exists l, descendants (desc_fuel ts) ts (t_name a) = Some l /\ NoDup l /\ (List.length l <= List.length ts)%nat.
Proof.
  intros Hin Hm Ha. apply subtype_walk_linear; [|exact Ha]. exact (merge_WFh inputs ts Hin Hm).
Qed.

(* ------------------------------------------------------------------------------------------------ the premise is needed *)
Open Scope string_scope.
Fixpoint primes (i : nat) : string := match i with O => "" | S j => String (Ascii.ascii_of_nat 39) (primes j) end.
Definition tn (i : nat) : tname := "d.T" ++ primes i.
Definition xn (i : nat) : tname := "d.X" ++ primes i.
Definition bare (n : tname) (s : option tname) (kids : list tname) (r : nat) : ty := mkTy n s None kids [] [] None [] r.

(* levels i .. i+k of the refined tree  T_i <- X_i <- T_(i+1) <- ...; stale: T_(i+1) is still listed under T_i as well *)
Fixpoint levels (stale : bool) (k i : nat) : tsys :=
  match k with
  | O => [bare (tn i) (Some (match i with O => TOP | S j => xn j end)) [] (2 * i + 1)]
  | S k' => bare (tn i) (Some (match i with O => TOP | S j => xn j end))
                 (if stale then [tn (S i); xn i] else [xn i]) (2 * i + 1)
            :: bare (xn i) (Some (tn i)) [tn (S i)] (2 * i + 2)
            :: levels stale k' (S i)
  end.
Definition ladder (stale : bool) (k : nat) : tsys := bare TOP None [tn 0] 0 :: levels stale k 0.
Definition walked (ts : tsys) (n : tname) : option nat := option_map (@List.length tname) (descendants (desc_fuel ts) ts n).

Theorem stale_child_walk_exponential :
  map (fun k => walked (ladder true k) (tn 0)) [1; 2; 3; 4; 5; 6; 7; 8; 9; 10]%nat
  = map Some [4; 10; 22; 46; 94; 190; 382; 766; 1534; 3070]%nat.
Proof. vm_compute. reflexivity. Qed.

(* the same trees with the children tables as declared: well-formed, and the walk hands out every type once *)
Theorem declared_children_walk_linear :
  forallb (fun k => wfhb (ladder false k)) [1; 2; 3; 4; 5; 6; 7; 8; 9; 10]%nat = true /\
  map (fun k => walked (ladder false k) (tn 0)) [1; 2; 3; 4; 5; 6; 7; 8; 9; 10]%nat
  = map Some [3; 5; 7; 9; 11; 13; 15; 17; 19; 21]%nat.
Proof. split; vm_compute; reflexivity. Qed.

(* the stale tables violate exactly the clause of WFh that ties _children to the supertype attribute *)
Example stale_ladder_not_WFh : wfhb (ladder true 1) = false.
Proof. vm_compute. reflexivity. Qed.

(* ------------------------------------------------------------------------------------------------ fourth wave: the walk UP
   Type.subsumes (typesystem.py 771-791: `while cur: ... cur = cur.supertype`) is what TypeSystem.subsumes, typecheck (range
   and element type of every reference), select (through is_instance_of, the same walk written recursively) and
   merge_typesystems itself run.  It follows the supertype attributes, which merge_typesystems rewrites when it re-parents
   a type.  On every type system satisfying WFh - every supertype is registered with a smaller rank - the walk returns
   (and decides `below`); in particular on every type system the modelled merge returns.  WFh cannot be dropped: on a
   supertype chain that is a ring the walk for a type outside the ring runs out of every fuel. *)
Theorem supertype_walk_ends ts a b : WFh ts -> In a ts -> In b ts ->
  exists r, subsumes_ty ts a b = Ok r /\ (r = true <-> below ts (t_name a) (t_name b)).
Proof. exact (subsumes_ty_spec ts a b). Qed.

Theorem merged_supertype_walk_ends inputs ts a b : all_WFh inputs -> merge inputs = Ok ts -> In a ts -> In b ts ->
  exists r, subsumes_ty ts a b = Ok r /\ (r = true <-> below ts (t_name a) (t_name b)).
Proof. intros Hin Hm. apply supertype_walk_ends. exact (merge_WFh inputs ts Hin Hm). Qed.

(* t.A <- t.B <- t.A: what re-parenting t.A under its own descendant t.B leaves behind *)
Definition ring2 : tsys :=
  [bare TOP None ["t.C"] 0; bare "t.C" (Some TOP) [] 1; bare "t.A" (Some "t.B") ["t.B"] 2; bare "t.B" (Some "t.A") ["t.A"] 3].

Theorem ring_supertype_walk_diverges : forall k, walks_up k ring2 "t.C" "t.A" = None /\ walks_up k ring2 "t.C" "t.B" = None.
Proof.
  induction k as [|k [IHa IHb]]; [split; reflexivity|].
  split; cbn [walks_up].
  - change (String.eqb "t.C" "t.A") with false. cbv iota.
    change (find_ty ring2 "t.A") with (Some (bare "t.A" (Some "t.B") ["t.B"] 2)). cbn [t_super bare]. exact IHb.
  - change (String.eqb "t.C" "t.B") with false. cbv iota.
    change (find_ty ring2 "t.B") with (Some (bare "t.B" (Some "t.A") ["t.A"] 3)). cbn [t_super bare]. exact IHa.
Qed.

Example ring_not_WFh : wfhb ring2 = false.
Proof. vm_compute. reflexivity. Qed.
