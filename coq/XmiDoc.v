(* XmiDoc.v — abstract XMI documents and their declarative reading (DESIGN.md section 4.4).
   An abstract document is what a namespace-aware XML parser reports about the children of <xmi:XMI>: per element its
   namespace URI, local name, attributes (unescaped values) and child elements (tag, text).  Prefix spelling, escaping,
   whitespace between elements and <a/> versus <a></a> are below this level (harness/xmlabs.py produces these terms with
   xml.etree only).
   `denote_xmi` is the id-keyed, order-free meaning of a document under the UIMA XMI rules, written from the format
   rules and not from cassis' reader: it is the "independent implementation of the format" of C04/C05.
   `doc_ok_xmi` says the document is closed: ids distinct, every reference / element token / member / sofa resolves.
   Floats are opaque tokens (Heap.flt = float.hex()); lexing of float literals is the Section parameter `parse_flt`.
   Definitions only. *)
From Coq Require Import Ascii.
From Cassis Require Import Base Offsets.
From Cassis Require Import Heap Schema Canon Lex.
Open Scope Z_scope.

Record xelem := mkX {
  x_ns : string;                          (* namespace URI of the element *)
  x_tag : string;                         (* local name *)
  x_attrs : list (string * string);       (* attribute name -> unescaped value; xmi:id under the name "xmi:id" *)
  x_kids : list (string * string) }.      (* child elements in document order: tag -> text ("" when there is none) *)
Definition xdoc := list xelem.            (* children of the root in document order, incl. cas:NULL, cas:Sofa, cas:View *)

Definition NS_CAS := "http:///uima/cas.ecore".
Definition NS_XMI := "http://www.omg.org/XMI".
Definition A_ID := "xmi:id".

Definition xattr (e : xelem) (n : string) : option string := alookup n (x_attrs e).
Definition xkids (e : xelem) (n : string) : list string :=
  map snd (filter (fun p => String.eqb (fst p) n) (x_kids e)).
Definition is_cas (tag : string) (e : xelem) : bool := String.eqb (x_ns e) NS_CAS && String.eqb (x_tag e) tag.
Definition is_null := is_cas "NULL".
Definition is_sofa := is_cas "Sofa".
Definition is_view := is_cas "View".
Definition is_fs (e : xelem) : bool := negb (is_null e || is_sofa e || is_view e).

Fixpoint mapM {A B} (f : A -> res B) (l : list A) : res (list B) :=
  match l with [] => Ok [] | x :: r => do y <- f x ;; do ys <- mapM f r ;; Ok (y :: ys) end.
Definition int_attr (a : string) : res Z := match s2z a with Some z => Ok z | None => Err EValue end.
Definition x_id (e : xelem) : res xid := match xattr e A_ID with Some a => int_attr a | None => Err EKey end.

(* ---- type name <-> (namespace URI, tag) ----
   UIMA: the package a.b of type a.b.C becomes the namespace http:///a/b.ecore and C the local name; a type without
   a package lives in the package uima.noNamespace. *)
Definition NO_NS := "uima.noNamespace".
Definition ns_of_type (n : tname) : string * string :=
  let q := match rsplit_dot n with Some _ => n | None => NO_NS ++ "." ++ n end in
  match rsplit_dot q with
  | Some (pkg, short) => ("http:///" ++ replace_char "."%char "/"%char pkg ++ ".ecore", short)
  | None => ("", q)
  end.
Definition type_of_elem (ns tag : string) : option tname :=
  match strip_prefix "http:///" ns with
  | None => None
  | Some p =>
    match strip_suffix ".ecore" p with
    | None => None
    | Some p' =>
      let pkg := replace_char "/"%char "."%char p' in
      if String.eqb pkg NO_NS then Some tag else Some (pkg ++ "." ++ tag)
    end
  end.

(* ---- feature kinds of the format ---- *)
Inductive pkind := PInt | PFlt | PBool | PStr.
Definition pkind_of_prim (p : tname) : pkind :=
  if String.eqb p "uima.cas.Boolean" then PBool
  else if String.eqb p "uima.cas.Float" || String.eqb p "uima.cas.Double" then PFlt
  else if String.eqb p "uima.cas.String" then PStr
  else PInt.                                  (* Byte, Short, Integer, Long *)
Inductive fkind :=
 | FPrim (k : pkind)          (* one attribute *)
 | FStrColl                   (* StringArray / StringList held inline: child elements, or the empty attribute *)
 | FTokColl (k : pkind)       (* other primitive array / list held inline: blank-separated tokens in one attribute *)
 | FBytes                     (* ByteArray held inline: hex digits *)
 | FIdColl                    (* FSArray / FSList held inline: blank-separated xmi:ids, 0 = null *)
 | FRef.                      (* everything else: the xmi:id of another element *)
(* how the elements of a collection type are written *)
Definition coll_kind (n : tname) : option fkind :=
  if String.eqb n T_STRING_ARRAY || String.eqb n T_STRING_LIST then Some FStrColl
  else if String.eqb n "uima.cas.ByteArray" then Some FBytes
  else if String.eqb n "uima.cas.IntegerArray" || String.eqb n "uima.cas.ShortArray" || String.eqb n "uima.cas.LongArray"
          || String.eqb n "uima.cas.IntegerList" then Some (FTokColl PInt)
  else if String.eqb n "uima.cas.FloatArray" || String.eqb n "uima.cas.DoubleArray" || String.eqb n "uima.cas.FloatList"
       then Some (FTokColl PFlt)
  else if String.eqb n "uima.cas.BooleanArray" then Some (FTokColl PBool)
  else if String.eqb n T_FS_ARRAY || String.eqb n T_FS_LIST then Some FIdColl
  else None.
Definition fkind_of (s : schema) (fd : fdecl) : fkind :=
  match prim_of s (fd_range fd) with
  | Some p => FPrim (pkind_of_prim p)
  | None => if fd_multi fd then FRef else match coll_kind (fd_range fd) with Some k => k | None => FRef end
  end.

Section Flt.
Variable parse_flt : string -> option flt.       (* float literal of the document -> the double (as its hex token) *)

Definition dec_prim (k : pkind) (a : string) : res cval :=
  match k with
  | PStr => Ok (CStr a)
  | PInt => match s2z a with Some z => Ok (CInt z) | None => Err EValue end
  | PBool => match s2b a with Some b => Ok (CBool b) | None => Err EValue end
  | PFlt => match parse_flt a with Some x => Ok (CFlt x) | None => Err EValue end
  end.
Definition dec_id (a : string) : res cval :=
  match s2z a with Some 0 => Ok CNull | Some i => Ok (CRef i) | None => Err EValue end.
(* a child element without text is the null string: the format cannot tell "" from null here *)
Definition dec_strs (kids : list string) : list cval := map (fun t => if String.eqb t "" then CNull else CStr t) kids.

(* value of a collection written under the name n on element e; None: nothing is written *)
Definition dec_coll (k : fkind) (e : xelem) (n : string) : res (option (list cval)) :=
  match k with
  | FStrColl =>
    match xkids e n with
    | [] => match xattr e n with
            | None => Ok None
            | Some a => if String.eqb a "" then Ok (Some []) else Err EValue   (* strings are never tokens *)
            end
    | l => Ok (Some (dec_strs l))
    end
  | FTokColl p => match xattr e n with None => Ok None | Some a => do l <- mapM (dec_prim p) (split_ws a) ;; Ok (Some l) end
  | FBytes => match xattr e n with
              | None => Ok None
              | Some a => match parse_hex a with Some l => Ok (Some (map CInt l)) | None => Err EValue end
              end
  | FIdColl => match xattr e n with None => Ok None | Some a => do l <- mapM dec_id (split_ws a) ;; Ok (Some l) end
  | _ => Err EValue
  end.

(* one declared feature of an ordinary (non-array) element; `conv` maps UTF-16 offsets of the element's own sofa *)
Definition dec_feature (s : schema) (conv : Z -> Z) (is_ann : bool) (e : xelem) (fd : fdecl) : res cval :=
  let n := fd_xname fd in
  match fkind_of s fd with
  | FPrim k =>
    match xattr e n with
    | None => Ok CNull
    | Some a =>
      do v <- dec_prim k a ;;
      if is_ann && (String.eqb n "begin" || String.eqb n "end")
      then Ok (match v with CInt z => CInt (conv z) | _ => v end) else Ok v
    end
  | FRef => match xattr e n with None => Ok CNull | Some a => dec_id a end
  | k => do o <- dec_coll k e n ;; Ok (match o with Some l => CColl (fd_range fd) l | None => CNull end)
  end.

(* sofas *)
Definition opt_int (o : option string) : res (option Z) :=
  match o with None => Ok None | Some a => do z <- int_attr a ;; Ok (Some z) end.
Definition dec_sofa (e : xelem) : res csofa :=
  do i <- x_id e ;;
  do num <- match xattr e "sofaNum" with Some a => int_attr a | None => Err EKey end ;;
  do name <- match xattr e "sofaID" with Some a => Ok a | None => Err EKey end ;;
  do txt <- match xattr e "sofaString" with
            | None => Ok None
            | Some a => match utf8_decode a with Some t => Ok (Some t) | None => Err EValue end
            end ;;
  do arr <- opt_int (xattr e "sofaArray") ;;
  Ok (mkCsofa i num name txt (xattr e "mimeType") (xattr e "sofaURI") arr []).
Definition dec_view (e : xelem) : res (xid * list xid) :=
  do so <- match xattr e "sofa" with Some a => int_attr a | None => Err EKey end ;;
  do ms <- match xattr e "members" with Some a => mapM int_attr (split_ws a) | None => Ok [] end ;;
  Ok (so, ms).
Definition doc_sofas (d : xdoc) : res (list csofa) := mapM dec_sofa (filter is_sofa d).
Definition doc_views (d : xdoc) : res (list (xid * list xid)) := mapM dec_view (filter is_view d).
(* a sofa without a View element has no members *)
Definition members_of (views : list (xid * list xid)) (i : xid) : list xid :=
  zsort (flat_map snd (filter (fun v => Z.eqb (fst v) i) views)).
Definition with_members (views : list (xid * list xid)) (c : csofa) : csofa :=
  mkCsofa (cs_id c) (cs_num c) (cs_name c) (cs_text c) (cs_mime c) (cs_uri c) (cs_arr c) (members_of views (cs_id c)).

(* UTF-16 code units -> code points with the table of the text of the sofa the element names *)
Definition conv_of (sofas : list csofa) (e : xelem) : Z -> Z :=
  match xattr e "sofa" with
  | None => fun z => z
  | Some a =>
    match s2z a with
    | None => fun z => z
    | Some i =>
      match find (fun c => Z.eqb (cs_id c) i) sofas with
      | Some c => match cs_text c with Some t => ext2py (mk_conv t) | None => fun z => z end
      | None => fun z => z
      end
    end
  end.

Definition dec_fs (s : schema) (sofas : list csofa) (e : xelem) : res (xid * cfs) :=
  do i <- x_id e ;;
  match type_of_elem (x_ns e) (x_tag e) with
  | None => Err EValue
  | Some tn =>
    match sch_find s tn with
    | None => Err ETypeNotFound
    | Some ti =>
      match (if is_array_name tn then coll_kind tn else None) with
      | Some k =>          (* an array stored as an element of its own: its one feature `elements` *)
        do o <- dec_coll k e "elements" ;;
        Ok (i, mkCfs tn (sort_s (map (fun fd => (fd_xname fd,
               if String.eqb (fd_xname fd) "elements" then match o with Some l => CColl "" l | None => CNull end
               else CNull)) (ti_feats ti))))
      | None =>
        let conv := conv_of sofas e in
        let is_ann := isa s tn T_ANNOTATION in
        do fs <- mapM (fun fd => do v <- dec_feature s conv is_ann e fd ;; Ok (fd_xname fd, v)) (ti_feats ti) ;;
        Ok (i, mkCfs tn (sort_s fs))
      end
    end
  end.

Definition denote_xmi (s : schema) (d : xdoc) : res ccas :=
  do sofas <- doc_sofas d ;;
  do views <- doc_views d ;;
  do fss <- mapM (dec_fs s sofas) (filter is_fs d) ;;
  Ok (mkCcas (sort_by cs_id (map (with_members views) sofas)) (sort_by fst fss)).

(* ---- closedness ---- *)
Fixpoint memZ (z : Z) (l : list Z) : bool := match l with [] => false | x :: r => Z.eqb z x || memZ z r end.
Fixpoint nodupZ (l : list Z) : bool := match l with [] => true | x :: r => negb (memZ x r) && nodupZ r end.
Fixpoint refs_of (v : cval) : list xid :=
  match v with
  | CRef i => [i]
  | CColl _ l => (fix go (l : list cval) : list xid := match l with [] => [] | x :: r => (refs_of x ++ go r)%list end) l
  | _ => []
  end.
(* the ids a feature structure element mentions: (ids that must be sofas, ids that must be feature structures) *)
Definition fs_refs (s : schema) (f : cfs) : list xid * list xid :=
  let base := isa s (cf_type f) T_ANNOTATION_BASE in
  fold_right (fun nv acc =>
      if base && String.eqb (fst nv) "sofa" then ((refs_of (snd nv) ++ fst acc)%list, snd acc)
      else (fst acc, (refs_of (snd nv) ++ snd acc)%list)) ([], []) (cf_feats f).
Definition opt_list {A} (o : option A) : list A := match o with Some x => [x] | None => [] end.

Definition doc_ok_xmi (s : schema) (d : xdoc) : bool :=
  match mapM x_id (filter is_null d), doc_views d, denote_xmi s d with
  | Ok nulls, Ok views, Ok cc =>
    let sofa_ids := map cs_id (cc_sofas cc) in
    let fs_ids := map fst (cc_fs cc) in
    (* ids: cas:NULL is 0 and occurs at most once; all ids distinct, sofas included *)
    forallb (Z.eqb 0) nulls && (List.length nulls <=? 1)%nat
    && nodupZ (0 :: (sofa_ids ++ fs_ids)%list)
    (* every reference, element token and sofa attribute of a feature structure resolves *)
    && forallb (fun p => let '(ss, fs) := fs_refs s (snd p) in
                         forallb (fun i => memZ i sofa_ids) ss && forallb (fun i => memZ i fs_ids) fs) (cc_fs cc)
    (* every view names a sofa, at most one view per sofa, every member and sofa array is a feature structure *)
    && forallb (fun v => memZ (fst v) sofa_ids) views && nodupZ (map fst views)
    && forallb (fun c => forallb (fun i => memZ i fs_ids) (cs_members c ++ opt_list (cs_arr c))%list) (cc_sofas cc)
  | _, _, _ => false
  end.

End Flt.

(* ---- canonical content up to what the format cannot express: "" = null inside string arrays / lists ---- *)
Definition norm_str (v : cval) : cval := match v with CStr s => if String.eqb s "" then CNull else v | _ => v end.
Definition norm_feat (s : schema) (fd : fdecl) (v : cval) : cval :=
  match fkind_of s fd, v with
  | FStrColl, CColl k l => CColl k (map norm_str l)
  | _, _ => v
  end.
Definition is_str_array (tn : tname) : bool := String.eqb tn T_STRING_ARRAY.
Definition norm_cfs (s : schema) (f : cfs) : cfs :=
  if is_str_array (cf_type f)
  then mkCfs (cf_type f) (map (fun nv => (fst nv, match snd nv with CColl k l => CColl k (map norm_str l) | v => v end)) (cf_feats f))
  else if is_array_name (cf_type f) then f         (* other arrays stored as elements of their own: nothing to identify *)
  else mkCfs (cf_type f)
         (map (fun nv => match find (fun fd => String.eqb (fd_xname fd) (fst nv)) (sch_feats s (cf_type f)) with
                         | Some fd => (fst nv, norm_feat s fd (snd nv))
                         | None => nv end) (cf_feats f)).
Definition norm_xmi (s : schema) (c : ccas) : ccas :=
  mkCcas (cc_sofas c) (map (fun p => (fst p, norm_cfs s (snd p))) (cc_fs c)).
