(* XmiRtTotal.v — C01: the one premise the totality of the round trip needs beyond XmiRt.wf_rtb.  The reader indexes
   sofas[value] for the sofa feature of every subtype of AnnotationBase (xmi.py:221-223), so a structure whose type has the
   feature `sofa` must hold the sofa of a view: what Cas.add guarantees for every indexed structure, and what DESIGN.md 4.4
   lists as part of wf_casb ("every serialised annotation has a sofa of this CAS").  Xmi.wf_inb accepts an unset sofa slot
   (the writer then omits the attribute and the reader raises KeyError: None; see reader_total_wf_rtb_refuted).
   Definitions only; proofs in XmiRtTotalProofs.v. *)
From Cassis Require Import Base Offsets.
From Cassis Require Import Heap Schema Canon Lex Reach XmiDoc Xmi XmiLoad XmiRt.
Open Scope Z_scope.

Definition sofa_set_inb (s : schema) (f : fsobj) : bool :=
  match sch_find s (o_type f) with
  | Some ti => negb (XmiLoad.has_feat ti "sofa") || match slot f "sofa" with VSofa _ => true | _ => false end
  | None => true
  end.
Definition wf_rt_totalb (s : schema) (c : cas) : bool :=
  wf_rtb s c && forallb (fun p => sofa_set_inb s (snd p)) (c_heap c).
