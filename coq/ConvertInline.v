(* ConvertInline.v — C16, inline_outline: for a well-formed CAS (ConvertWf.wf_convb, a boolean on schema and CAS) the XMI
   view of its canonical content is Convert.inline_of of its JSON view:
       wf_convb s c = true -> canon_json s c = Ok j -> inline_of s j = Xmi.canon_xmi s c.
   The two views come from the two traversals find_all_fs true (JSON: every collection is a structure) and
   find_all_fs false (XMI: collections held by features without multipleReferencesAllowed are taken by content).  The proof
   does not simulate one worklist by the other; it uses the declarative results of ReachProofs / ReachSpec
   (find_all_exact, find_all_closed, find_all_contains_seeds, succs_declarative): with Tf = the set the JSON traversal
   returns and X = the set the XMI traversal returns,
     - X is contained in Tf (succ_false_T: an XMI successor is reached by JSON successor steps through the inlined
       collection: the array, or the nodes of the tail chain), hence every XMI structure carries its id already and the XMI
       traversal leaves the CAS unchanged (run_same);
     - on canonical content, succ_c of the id of a structure of X lists the ids of its XMI successors (succ_c_spec), so
       the closure reach_c computes is the set of ids of X and the sofa byte arrays (vis_spec);
     - per structure, inlining by content (inline_fs: elements_c / heads_c on the JSON view) reads the same slots as
       Xmi.canon_fs (elements_val / list_heads on the heap): obj_agree. *)
From Coq Require Import Lia ZifyBool Permutation Sorted.
From Cassis Require Import Base Heap Schema Canon Reach ReachProofs ReachSpec JsonDoc Json JsonProofs JsonProofs2 JsonLoadProofs
                           Convert ConvertWf ConvertReach.
From Cassis Require Lex Xmi XmiDoc XmiProofs XmiWf XmiDocOk XmiLoad JsonDocOk.
Open Scope Z_scope.

(* ------------------------------------------------------------------------------------------------ small general facts *)

Ltac andb_all := repeat match goal with H : (_ && _ = true) |- _ => apply andb_prop in H; destruct H end.

Lemma mapM_same {A B} (f : A -> res B) l : XmiDoc.mapM f l = mapM f l.
Proof. reflexivity. Qed.

Definition simple (v : val) : bool := match v with VRef _ | VSofa _ | VList _ => false | _ => true end.

Lemma pyname_plain n : n <> "self" -> n <> "type" -> XmiLoad.pyname n = n.
Proof.
  intros H1 H2. unfold XmiLoad.pyname. apply String.eqb_neq in H1. apply String.eqb_neq in H2. rewrite H1, H2. reflexivity.
Qed.

Lemma fd_find_In l n fd : fd_find l n = Some fd -> In fd l /\ fd_name fd = n.
Proof.
  induction l as [|g r IH]; cbn [fd_find]; [discriminate|]. destruct (String.eqb n (fd_name g)) eqn:E.
  - intros [= <-]. apply String.eqb_eq in E. split; [left; reflexivity|symmetry; exact E].
  - intros H. destruct (IH H) as [A B]. split; [right; exact A|exact B].
Qed.
Lemma fd_find_None l n : fd_find l n = None -> forall fd, In fd l -> fd_name fd <> n.
Proof.
  induction l as [|g r IH]; cbn [fd_find]; [intros _ fd []|]. destruct (String.eqb n (fd_name g)) eqn:E; [discriminate|].
  intros H fd [<-|Hin]; [apply String.eqb_neq in E; congruence|exact (IH H fd Hin)].
Qed.

Lemma slot_absent f n : ~ In n (map fst (o_slots f)) -> slot f n = VNone.
Proof.
  unfold slot. intros H. destruct (alookup n (o_slots f)) as [v|] eqn:E; [|reflexivity].
  exfalso. apply H. apply alookup_In in E. change n with (fst (n, v)). apply in_map. exact E.
Qed.


Lemma NoDup_app_disj {A} (a b : list A) x : NoDup (a ++ b) -> In x a -> In x b -> False.
Proof.
  induction a as [|y r IH]; cbn [app]; intros Hnd Ha Hb; [destruct Ha|]. inversion Hnd as [|? ? Hy Hr]; subst.
  destruct Ha as [->|Ha]; [apply Hy; apply in_or_app; right; exact Hb|exact (IH Hr Ha Hb)].
Qed.
Lemma NoDup_app_right {A} (a b : list A) : NoDup (a ++ b) -> NoDup b.
Proof. induction a as [|y r IH]; cbn [app]; intros H; [exact H|]. inversion H; subst. apply IH. assumption. Qed.
Lemma NoDup_flat_inj {A B} (g : A -> list B) l : NoDup (flat_map g l) ->
  forall a b x, In a l -> In b l -> In x (g a) -> In x (g b) -> a = b.
Proof.
  induction l as [|y r IH]; cbn [flat_map]; intros Hnd a b x Ha Hb Hxa Hxb; [destruct Ha|].
  destruct Ha as [->|Ha], Hb as [->|Hb]; try reflexivity.
  - exfalso. apply (NoDup_app_disj _ _ x Hnd Hxa). apply in_flat_map. exists b. split; assumption.
  - exfalso. apply (NoDup_app_disj _ _ x Hnd Hxb). apply in_flat_map. exists a. split; assumption.
  - exact (IH (NoDup_app_right _ _ Hnd) a b x Ha Hb Hxa Hxb).
Qed.
Lemma NoDup_flat_base {A B} (g : A -> list B) l : (forall a, In a l -> g a <> []) -> NoDup (flat_map g l) -> NoDup l.
Proof.
  induction l as [|y r IH]; cbn [flat_map]; intros Hne Hnd; [constructor|]. constructor.
  - intros Hy. destruct (g y) as [|x gy] eqn:E; [apply (Hne y (or_introl eq_refl)); exact E|].
    apply (NoDup_app_disj _ _ x Hnd); [left; reflexivity|]. apply in_flat_map. exists y. split; [exact Hy|rewrite E; left; reflexivity].
  - apply IH; [intros a Ha; apply Hne; right; exact Ha|exact (NoDup_app_right _ _ Hnd)].
Qed.

Lemma finsert_s x l : finsert x l = Lex.insert_s x l.
Proof. induction l as [|y r IH]; cbn [finsert Lex.insert_s]; [reflexivity|]. rewrite IH. reflexivity. Qed.
Lemma sort_feats_s l : sort_feats l = Lex.sort_s l.
Proof. unfold sort_feats, Lex.sort_s. induction l as [|x r IH]; cbn [fold_right]; [reflexivity|]. rewrite IH. apply finsert_s. Qed.
Lemma collect_heads s h : forall k seen v l, Xmi.collect_list k s h seen v = Ok l -> list_heads k s h seen v = Ok l.
Proof.
  induction k as [|k IH]; intros seen v l H; cbn [Xmi.collect_list list_heads] in *; [discriminate|].
  destruct v; try exact H. destruct (hget h o) as [f|]; [|exact H].
  destruct (has_feat s (o_type f) "head"); cbn [andb]; [|exact H].
  destruct (memN o seen); cbn [negb]; [discriminate|].
  destruct (Xmi.collect_list k s h (o :: seen) (slot f "tail")) as [r| |] eqn:E; cbn [bind] in H; try discriminate.
  rewrite (IH _ _ _ E). exact H.
Qed.

(* one step of the fold in Convert.succ_c *)
Definition succ_step (s : schema) (cc : ccas) (cf : cfs) (acc : res (list xid)) (fd : fdecl) : res (list xid) :=
  do l <- acc ;;
  if String.eqb (fd_name fd) "sofa" || is_primitive s (fd_range fd) then Ok l else
  match feat_val cf (fd_xname fd) with
  | CNull => Ok l
  | v =>
    if inline_fdb fd then
      if String.eqb (fd_range fd) T_FS_ARRAY || String.eqb (fd_range fd) T_FS_LIST
      then do ms <- members_c s cc fd v ;; Ok (l ++ crefs ms) else Ok l
    else Ok (l ++ crefs [v])
  end.
Lemma succ_c_unfold s cc i cf ti : fs_lookup cc i = Some cf -> is_array_name (cf_type cf) = false -> sch_find s (cf_type cf) = Some ti ->
  succ_c s cc i = fold_left (succ_step s cc cf) (ti_feats ti) (Ok []).
Proof. intros H1 H2 H3. unfold succ_c. rewrite H1, H2, H3. reflexivity. Qed.

Lemma Forall2_In_right {A B} (R : A -> B -> Prop) l l' b : Forall2 R l l' -> In b l' -> exists a, In a l /\ R a b.
Proof. induction 1 as [|x y r r' Hxy _ IH]; intros Hin; [destruct Hin|]. destruct Hin as [<-|Hin]; [exists x; split; [left; reflexivity|exact Hxy]|].
  destruct (IH Hin) as (a & Ha & Hr). exists a. split; [right; exact Ha|exact Hr]. Qed.
Lemma Forall2_In_left {A B} (R : A -> B -> Prop) l l' a : Forall2 R l l' -> In a l -> exists b, In b l' /\ R a b.
Proof. induction 1 as [|x y r r' Hxy _ IH]; intros Hin; [destruct Hin|]. destruct Hin as [<-|Hin]; [exists y; split; [left; reflexivity|exact Hxy]|].
  destruct (IH Hin) as (b & Hb & Hr). exists b. split; [right; exact Hb|exact Hr]. Qed.

Lemma Forall2_mapM {A B} (G : A -> res B) l l' : Forall2 (fun a b => G a = Ok b) l l' -> mapM G l = Ok l'.
Proof. induction 1 as [|a b r r' Hab _ IH]; [reflexivity|]. cbn [mapM]. rewrite Hab, IH. reflexivity. Qed.
Lemma Forall2_total {A B} (R : A -> B -> Prop) l : (forall a, In a l -> exists b, R a b) -> exists l', Forall2 R l l'.
Proof.
  induction l as [|a r IH]; intros H; [exists []; constructor|]. destruct (H a (or_introl eq_refl)) as (b & Hb).
  destruct IH as (r' & Hr); [intros x Hx; apply H; right; exact Hx|]. exists (b :: r'). constructor; assumption.
Qed.
Lemma Forall2_weaken {A B} (R R' : A -> B -> Prop) l l' : (forall a b, R a b -> R' a b) -> Forall2 R l l' -> Forall2 R' l l'.
Proof. intros H. induction 1; constructor; auto. Qed.

(* sorting by name / by id commutes with a map that keeps the keys *)
Lemma RS_insert {B} (R : fname * cval -> fname * B -> Prop) x y l l' : fst x = fst y -> R x y ->
  Forall2 (fun a b => fst a = fst b /\ R a b) l l' -> Forall2 (fun a b => fst a = fst b /\ R a b) (finsert x l) (Lex.insert_s y l').
Proof.
  intros Hk Hr. induction 1 as [|a b r r' [Hab Rab] Hrr IH]; cbn [finsert Lex.insert_s]; [constructor; [split; assumption|constructor]|].
  unfold fname in *. rewrite <- Hk, <- Hab. destruct (String.leb (fst x) (fst a)).
  - constructor; [split; assumption|]. constructor; [split; assumption|exact Hrr].
  - constructor; [split; assumption|exact IH].
Qed.
Lemma RS_sort {B} (R : fname * cval -> fname * B -> Prop) a b :
  Forall2 (fun a b => fst a = fst b /\ R a b) a b -> Forall2 (fun a b => fst a = fst b /\ R a b) (sort_feats a) (Lex.sort_s b).
Proof.
  unfold sort_feats, Lex.sort_s. induction 1 as [|x y r r' [Hk Hr] _ IH]; cbn [fold_right]; [constructor|]. apply RS_insert; assumption.
Qed.
Lemma RZ_insert {A B} (ka : A -> Z) (kb : B -> Z) (R : A -> B -> Prop) x y l l' : ka x = kb y -> R x y ->
  Forall2 (fun a b => ka a = kb b /\ R a b) l l' -> Forall2 (fun a b => ka a = kb b /\ R a b) (insert_by ka x l) (insert_by kb y l').
Proof.
  intros Hk Hr. induction 1 as [|a b r r' [Hab Rab] Hrr IH]; cbn [insert_by]; [constructor; [split; assumption|constructor]|].
  rewrite <- Hk, <- Hab. destruct (ka x <=? ka a).
  - constructor; [split; assumption|]. constructor; [split; assumption|exact Hrr].
  - constructor; [split; assumption|exact IH].
Qed.
Lemma RZ_sort {A B} (ka : A -> Z) (kb : B -> Z) (R : A -> B -> Prop) a b :
  Forall2 (fun a b => ka a = kb b /\ R a b) a b -> Forall2 (fun a b => ka a = kb b /\ R a b) (sort_by ka a) (sort_by kb b).
Proof.
  unfold sort_by. induction 1 as [|x y r r' [Hk Hr] _ IH]; cbn [fold_right]; [constructor|]. apply RZ_insert; assumption.
Qed.
Definition sorted_by {A} (key : A -> Z) : list A -> Prop := Sorted (fun a b => key a <= key b).
Lemma insert_by_sorted {A} (key : A -> Z) x l : sorted_by key l -> sorted_by key (insert_by key x l).
Proof.
  unfold sorted_by. induction l as [|y r IH]; intros H; cbn [insert_by]; [repeat constructor|].
  destruct (key x <=? key y) eqn:E.
  - constructor; [exact H|constructor; lia].
  - inversion H as [|? ? Hr Hy]; subst. constructor; [apply IH; exact Hr|].
    destruct r as [|z r']; cbn [insert_by]; [constructor; lia|].
    destruct (key x <=? key z); constructor; try lia. inversion Hy; subst. assumption.
Qed.
Lemma sort_by_sorted {A} (key : A -> Z) l : sorted_by key (sort_by key l).
Proof. unfold sort_by. induction l as [|x r IH]; cbn [fold_right]; [constructor|apply insert_by_sorted; exact IH]. Qed.
Lemma sort_by_of_sorted {A} (key : A -> Z) l : sorted_by key l -> sort_by key l = l.
Proof.
  unfold sorted_by, sort_by. induction l as [|x r IH]; intros H; [reflexivity|]. inversion H as [|? ? Hr Hx]; subst.
  cbn [fold_right]. rewrite (IH Hr). destruct r as [|y r']; [reflexivity|].
  inversion Hx; subst. cbn [insert_by]. destruct (key x <=? key y) eqn:E; [reflexivity|lia].
Qed.
Lemma filter_sorted {A} (key : A -> Z) (p : A -> bool) l : sorted_by key l -> sorted_by key (filter p l).
Proof.
  unfold sorted_by. intros H. apply StronglySorted_Sorted. apply Sorted_StronglySorted in H; [|intros a b d; lia].
  induction H as [|x r Hr IH Hx]; cbn [filter]; [constructor|]. destruct (p x); [|exact IH]. constructor; [exact IH|].
  rewrite Forall_forall in *. intros y Hy. apply filter_In in Hy. apply Hx. exact (proj1 Hy).
Qed.
Lemma sorted_keys {A B} (ka : A -> Z) (kb : B -> Z) l l' : Forall2 (fun a b => ka a = kb b) l l' -> sorted_by ka l -> sorted_by kb l'.
Proof.
  unfold sorted_by. induction 1 as [|a b r r' Hab Hrr IH]; intros H; [constructor|]. inversion H as [|? ? Hr Hx]; subst.
  constructor; [exact (IH Hr)|]. destruct Hrr as [|a' b' r2 r2' Hab' _]; [constructor|]. inversion Hx; subst. constructor. lia.
Qed.

Lemma Forall2_map_eq {A B K} (ka : A -> K) (kb : B -> K) l l' : Forall2 (fun a b => ka a = kb b) l l' -> map ka l = map kb l'.
Proof. induction 1 as [|a b r r' Hab _ IH]; [reflexivity|]. cbn [map]. rewrite Hab, IH. reflexivity. Qed.
Lemma inline_fs_fst s cc p q : inline_fs s cc p = Ok q -> fst q = fst p.
Proof.
  unfold inline_fs. cbv zeta. destruct (is_array_name (cf_type (snd p))); [intros [= <-]; reflexivity|].
  destruct (sch_find s (cf_type (snd p))); [|discriminate].
  match goal with |- bind ?m _ = _ -> _ => destruct m; cbn [bind]; try discriminate end. intros [= <-]. reflexivity.
Qed.

Lemma mapM_totalJ {A B} (f : A -> res B) l : (forall x, In x l -> exists y, f x = Ok y) -> exists ys, mapM f l = Ok ys.
Proof.
  induction l as [|x r IH]; intros H; [exists []; reflexivity|].
  destruct (H x (or_introl eq_refl)) as (y & Ey). destruct IH as (ys & Eys); [intros z Hz; apply H; right; exact Hz|].
  exists (y :: ys). cbn [mapM]. rewrite Ey. cbn [bind]. rewrite Eys. reflexivity.
Qed.

(* ------------------------------------------------------------------------------------------------ the setting *)

Section Inline.
Variables (s : schema) (c : cas) (wT wF : wstate).
Local Notation h := (c_heap c).
Hypothesis WF : wf_convb s c = true.
Hypothesis ET : find_all_fs true s c = Ok wT.
Hypothesis EF : find_all_fs false s c = Ok wF.

Definition Tf (o : oid) : Prop := In o (returned wT).
Definition Tv (v : val) : Prop := forall x, v = VRef x -> Tf x.

Lemma wf_parts : Xmi.wf_inb s c = true /\ XmiLoad.schema_okb s = true /\ wf_jsonb s c = true /\ ids_distinctb s c = true
                 /\ refs_wfb s c = true /\ slots_declb s h = true /\ arrays_privateb s c = true.
Proof.
  pose proof WF as W. unfold wf_convb in W.
  repeat match type of W with (_ && _ = true) => apply andb_prop in W; let H' := fresh "P" in destruct W as [W H'] end.
  repeat split; assumption.
Qed.
Lemma wf_casb_holds : Xmi.wf_casb s c = true.
Proof. destruct wf_parts as (W & _). exact (proj1 (XmiDocOk.wf_inb_parts s c W)). Qed.

Lemma no_nulls o : ~ null_in h o.
Proof. destruct (XmiWf.wf_casb_parts s c wf_casb_holds) as (_ & _ & _ & _ & Hn & _). exact (XmiWf.no_null_in h Hn o). Qed.

Lemma obj_in o f : hget h o = Some f -> Xmi.obj_inb s c f = true.
Proof.
  intros Hg. destruct (XmiWf.wf_casb_parts s c wf_casb_holds) as (_ & _ & _ & _ & _ & _ & _ & _ & _ & Ho).
  rewrite forallb_forall in Ho. exact (Ho _ (hget_In _ _ _ Hg)).
Qed.

(* the schema: python names by the rule, array types have exactly `elements` *)
Lemma ti_ok t ti : sch_find s t = Some ti -> XmiLoad.ti_okb s ti = true /\ ti_name ti = t.
Proof.
  intros Hf. destruct (JsonProofs.sch_find_name s t ti Hf) as [Hn Hin]. split; [|exact Hn].
  destruct wf_parts as (_ & Hs & _). unfold XmiLoad.schema_okb in Hs. apply andb_prop in Hs. destruct Hs as [Hs _].
  apply andb_prop in Hs. destruct Hs as [Hs _]. rewrite forallb_forall in Hs. exact (Hs ti Hin).
Qed.
Lemma fd_names t ti fd : sch_find s t = Some ti -> In fd (ti_feats ti) ->
  fd_name fd = XmiLoad.pyname (fd_xname fd) /\ fd_xname fd <> "self_" /\ fd_xname fd <> "type_".
Proof.
  intros Hf Hin. destruct (ti_ok t ti Hf) as [Hok _]. unfold XmiLoad.ti_okb in Hok. cbv zeta in Hok.
  repeat match type of Hok with (_ && _ = true) => apply andb_prop in Hok; let H' := fresh "P" in destruct Hok as [Hok H'] end.
  rewrite forallb_forall in P4. specialize (P4 fd Hin). apply andb_prop in P4. destruct P4 as [P4 _].
  apply andb_prop in P4. destruct P4 as [Pn Pr]. apply String.eqb_eq in Pn. split; [exact Pn|].
  unfold XmiLoad.reserved_free in Pr. apply Bool.negb_true_iff in Pr. apply Bool.orb_false_iff in Pr. destruct Pr as [R1 R2].
  split; apply String.eqb_neq; assumption.
Qed.
(* for a name the rule leaves alone, python name and document name select the same declaration *)
Lemma plain_name t ti fd p : sch_find s t = Some ti -> In fd (ti_feats ti) ->
  p <> "self" -> p <> "type" -> p <> "self_" -> p <> "type_" -> (fd_name fd = p <-> fd_xname fd = p).
Proof.
  intros Hf Hin P1 P2 P3 P4. destruct (fd_names t ti fd Hf Hin) as (Hn & X3 & X4). unfold XmiLoad.pyname in Hn.
  destruct (String.eqb (fd_xname fd) "self") eqn:E1; [apply String.eqb_eq in E1|];
    [|destruct (String.eqb (fd_xname fd) "type") eqn:E2; [apply String.eqb_eq in E2|]]; cbn [orb] in Hn.
  - rewrite E1 in Hn. cbn in Hn. split; intros H; congruence.
  - rewrite E2 in Hn. cbn in Hn. split; intros H; congruence.
  - split; intros H; congruence.
Qed.
Lemma array_feats t ti : sch_find s t = Some ti -> is_array_name t = true ->
  exists fd, ti_feats ti = [fd] /\ fd_name fd = "elements" /\ fd_xname fd = "elements" /\ fd_range fd = T_TOP.
Proof.
  intros Hf Ha. destruct (ti_ok t ti Hf) as [Hok Hn]. unfold XmiLoad.ti_okb in Hok. cbv zeta in Hok.
  apply andb_prop in Hok. destruct Hok as [_ Hok]. rewrite Hn, Ha in Hok. cbn [negb orb] in Hok.
  destruct (ti_feats ti) as [|fd [|g r]]; try discriminate. exists fd. split; [reflexivity|].
  apply andb_prop in Hok. destruct Hok as [Hok H3]. apply andb_prop in Hok. destruct Hok as [H1 H2].
  apply String.eqb_eq in H1. apply String.eqb_eq in H2. apply String.eqb_eq in H3. repeat split; assumption.
Qed.
Lemma array_type_agree t ti : sch_find s t = Some ti -> is_array_type ti = Ok (is_array_name t).
Proof.
  intros Hf. destruct (JsonProofs.sch_find_name s t ti Hf) as [Hn Hin]. destruct wf_parts as (_ & _ & _ & _ & Hr & _).
  unfold refs_wfb in Hr. apply andb_prop in Hr. destruct Hr as [Hr _]. apply andb_prop in Hr. destruct Hr as [_ Hr].
  rewrite forallb_forall in Hr. specialize (Hr ti Hin). rewrite Hn in Hr. unfold is_array_type in *.
  destruct (ti_anc ti) as [|a [|b r]]; apply Bool.eqb_prop in Hr; rewrite Hr; reflexivity.
Qed.

(* ------------------------------------------------------------------------------------------------ the JSON traversal's result *)

Lemma ET' : find_all_from true s c (member_seeds c) = Ok wT.
Proof. exact ET. Qed.
Lemma EF' : find_all_from false s c (member_seeds c) = Ok wF.
Proof. exact EF. Qed.

Lemma T_found i o : In (i, o) (w_all wT) -> exists f, hget h o = Some f /\ o_id f = Some i /\ obj_okb s c f = true.
Proof.
  intros Hin. destruct wf_parts as (_ & _ & Hj & _). unfold wf_jsonb in Hj. rewrite ET in Hj.
  repeat match type of Hj with (_ && _ = true) => apply andb_prop in Hj; let H' := fresh "P" in destruct Hj as [Hj H'] end.
  rewrite forallb_forall in P0. specialize (P0 _ Hin). cbn [snd fst] in P0. destruct (hget h o) as [f|]; [|discriminate].
  apply andb_prop in P0. destruct P0 as [A B]. exists f. split; [reflexivity|]. split; [exact (opt_eqb_some _ _ B)|exact A].
Qed.
Lemma Tf_obj o : Tf o -> exists i f, In (i, o) (w_all wT) /\ hget h o = Some f /\ o_id f = Some i /\ obj_okb s c f = true.
Proof.
  intros Ho. apply returned_In in Ho. destruct Ho as (i & Hi). destruct (T_found i o Hi) as (f & A & B & C).
  exists i, f. repeat split; assumption.
Qed.
Lemma T_closed o x : Tf o -> In x (succs true s h o) -> Tf x.
Proof.
  intros Ho Hx. destruct (find_all_closed _ _ _ _ _ ET' o x Ho Hx) as [H|H]; [exact H|destruct (no_nulls x H)].
Qed.
Lemma T_members o : In o (member_seeds c) -> Tf o.
Proof.
  intros Ho. destruct (find_all_contains_seeds _ _ _ _ _ ET' o Ho) as [H|H]; [exact H|destruct (no_nulls o H)].
Qed.
(* every structure found was scanned: its candidates are defined *)
Lemma T_cands o f : Tf o -> hget h o = Some f -> exists l, obj_cands true s h f = Ok l.
Proof.
  intros Ho Hg. apply returned_In in Ho. destruct Ho as (i & Hi).
  destruct (find_all_scanned true s c wT ET i o Hi) as (f' & l & Hg' & Hc).
  destruct (find_all_shape _ _ _ _ _ ET') as [Hsh _].
  destruct (shape_some _ _ o f' Hsh Hg') as (f2 & Hg2 & Hs2). rewrite Hg in Hg2. inversion Hg2; subst f2.
  exists l. rewrite <- Hc. apply obj_cands_shape; [symmetry; exact Hsh|symmetry; exact Hs2].
Qed.
Lemma T_succ o f x : Tf o -> hget h o = Some f -> succ_rel true s h o x -> Tf x.
Proof.
  intros Ho Hg Hs. destruct (T_cands o f Ho Hg) as (l & Hc). apply (T_closed o x Ho).
  unfold succs. rewrite Hg, Hc. apply (succs_declarative true s h o f l Hg Hc). exact Hs.
Qed.

(* ------------------------------------------------------------------------------------------------ what the slots of a structure found hold *)

Lemma kind_coll_nonprim fd : Xmi.kind_agreeb s fd = true -> Xmi.is_coll_wkind (Xmi.wbranch s fd) = true ->
  is_primitive s (fd_range fd) = false.
Proof.
  unfold Xmi.kind_agreeb. intros H W. apply andb_prop in H. destruct H as [_ H]. apply XmiWf.prim_of_none.
  unfold XmiDoc.fkind_of in H. destruct (prim_of s (fd_range fd)); [|reflexivity].
  destruct (Xmi.wbranch s fd); try discriminate W; discriminate H.
Qed.

Lemma cands_fold_each inl f : forall feats l0 l, cands_fold inl s h f feats (Ok l0) = Ok l ->
  forall fd, In fd feats -> exists l', feat_cands inl s h f fd = Ok l'.
Proof.
  induction feats as [|g r IH]; intros l0 l H fd Hin; [destruct Hin|].
  rewrite cands_fold_cons in H. cbn [bind] in H.
  destruct (feat_cands inl s h f g) as [l'| |] eqn:E; cbn [bind] in H;
    [|rewrite cands_fold_err in H; discriminate|rewrite cands_fold_oof in H; discriminate].
  destruct Hin as [<-|Hin]; [exists l'; exact E|exact (IH _ _ H fd Hin)].
Qed.

Inductive slot_kind (fd : fdecl) (v : val) : Prop :=
 | sk_sofa : fd_name fd = "sofa" -> fd_xname fd = "sofa" ->
             (v = VNone \/ exists n so, v = VSofa n /\ find_sofa c n = Some so) -> slot_kind fd v
 | sk_prim : fd_name fd <> "sofa" -> fd_xname fd <> "sofa" -> is_primitive s (fd_range fd) = true -> XmiDocOk.simple v = true ->
             slot_kind fd v
 | sk_ref : fd_name fd <> "sofa" -> fd_xname fd <> "sofa" -> is_primitive s (fd_range fd) = false ->
            (v = VNone \/ exists x, v = VRef x /\ Tf x) -> slot_kind fd v.

Lemma feat_in o f ti fd : hget h o = Some f -> sch_find s (o_type f) = Some ti -> is_array_name (o_type f) = false ->
  In fd (ti_feats ti) -> Xmi.feat_inb s c (o_type f) f fd = true.
Proof.
  intros Hg Hf Ha Hin. pose proof (obj_in o f Hg) as Ho. unfold Xmi.obj_inb in Ho. cbv zeta in Ho. rewrite Hf, Ha in Ho.
  andb_all. match goal with H : forallb (Xmi.feat_inb _ _ _ _) _ = true |- _ => rewrite forallb_forall in H; exact (H fd Hin) end.
Qed.

Lemma slot_kinds o f ti fd : Tf o -> hget h o = Some f -> sch_find s (o_type f) = Some ti -> is_array_name (o_type f) = false ->
  In fd (ti_feats ti) -> slot_kind fd (slot f (fd_name fd)).
Proof.
  intros Ho Hg Hf Ha Hin. pose proof (feat_in o f ti fd Hg Hf Ha Hin) as Hfi. unfold Xmi.feat_inb in Hfi. cbv zeta in Hfi.
  apply andb_prop in Hfi. destruct Hfi as [Hfi Hval]. apply andb_prop in Hfi. destruct Hfi as [Hfi Hsd].
  apply andb_prop in Hfi. destruct Hfi as [_ Hka].
  destruct (String.eqb (fd_name fd) "sofa") eqn:En.
  - (* the sofa reference *)
    pose proof Hsd as Hsd'. unfold Xmi.sofa_decl_okb in Hsd'. rewrite En in Hsd'. cbn [orb andb] in Hsd'.
    apply andb_prop in Hsd'. destruct Hsd' as [Hx Hw]. apply String.eqb_eq in En. apply String.eqb_eq in Hx.
    apply sk_sofa; [exact En|exact Hx|].
    destruct (slot f (fd_name fd)) eqn:Ev; try (left; reflexivity); right;
      apply andb_prop in Hval; destruct Hval as [Hval _]; unfold Xmi.value_inb in Hval;
      destruct (Xmi.wbranch s fd) eqn:Ew; try discriminate Hw; unfold Xmi.value_okb in Hval; rewrite Ew in Hval; try discriminate Hval.
    unfold Xmi.sofa_of_view in Hval.
    destruct (find (fun v => String.eqb (s_name (v_sofa v)) n) (c_views c)) as [vw|] eqn:Efd; [|discriminate].
    exists n, (v_sofa vw). split; [reflexivity|]. unfold find_sofa. rewrite Efd. reflexivity.
  - assert (Hxn : String.eqb (fd_xname fd) "sofa" = false).
    { unfold Xmi.sofa_decl_okb in Hsd. rewrite En in Hsd. cbn [orb andb] in Hsd. destruct (String.eqb (fd_xname fd) "sofa"); [discriminate|reflexivity]. }
    apply String.eqb_neq in En. pose proof Hxn as Hxn'. apply String.eqb_neq in Hxn'.
    destruct (is_primitive s (fd_range fd)) eqn:Ep.
    + apply sk_prim; try assumption.
      destruct (slot f (fd_name fd)) eqn:Ev; try reflexivity; exfalso;
        apply andb_prop in Hval; destruct Hval as [Hval _]; unfold Xmi.value_inb in Hval;
        destruct (Xmi.wbranch s fd) eqn:Ew;
        try (pose proof (kind_coll_nonprim fd Hka) as K; rewrite Ew in K; specialize (K eq_refl); congruence);
        try (pose proof (XmiDocOk.wbranch_WSofa s fd Ew); congruence);
        try (pose proof (XmiWf.wbranch_WRef s fd Ew); congruence);
        unfold Xmi.value_okb in Hval; rewrite Ew in Hval; try discriminate Hval;
        destruct (XmiDoc.fkind_of s fd) as [[]| | | | |]; discriminate Hval.
    + apply sk_ref; try assumption.
      destruct (T_cands o f Ho Hg) as (l & Hc). unfold obj_cands in Hc. rewrite Hf in Hc.
      rewrite (array_type_agree _ _ Hf), Ha in Hc. cbn [bind] in Hc.
      fold (cands_fold true s h f (ti_feats ti) (Ok [])) in Hc.
      destruct (cands_fold_each true f _ _ _ Hc fd Hin) as (l' & Hl'). unfold feat_cands in Hl'.
      apply String.eqb_neq in En. rewrite En, Ep in Hl'. apply String.eqb_neq in En.
      destruct (slot f (fd_name fd)) eqn:Ev; try (left; reflexivity); try discriminate Hl'.
      right. exists o0. split; [reflexivity|]. apply (T_succ o f o0 Ho Hg).
      eapply sr_feature; try eassumption; [rewrite (array_type_agree _ _ Hf), Ha; reflexivity|]. apply fs_ref; [reflexivity|exact Ev].
Qed.

(* arrays: `elements` is a list of plain values, or for an FSArray of nulls and references to structures found *)
Definition elem_good (t : tname) (v : val) : Prop := XmiDocOk.simple v = true \/ (t = T_FS_ARRAY /\ exists x, v = VRef x /\ Tf x).

Lemma has_feat_array t ti : sch_find s t = Some ti -> is_array_name t = true ->
  has_feat s t "elements" = true /\ forall p, p <> "elements" -> has_feat s t p = false.
Proof.
  intros Hf Ha. destruct (array_feats t ti Hf Ha) as (fd & Hfs & Hn & _). unfold has_feat, sch_feats. rewrite Hf, Hfs. cbn [fd_find].
  rewrite Hn. split; [reflexivity|]. intros p Hp. apply String.eqb_neq in Hp. rewrite Hp. reflexivity.
Qed.

Lemma arr_kinds o f : hget h o = Some f -> obj_okb s c f = true -> is_array_name (o_type f) = true ->
  (Tf o \/ o_type f <> T_FS_ARRAY) ->
  exists l, slot f "elements" = VList l /\ Forall (elem_good (o_type f)) l.
Proof.
  intros Hg Hok Ha HT. pose proof (obj_in o f Hg) as Ho. unfold Xmi.obj_inb in Ho. cbv zeta in Ho.
  unfold obj_okb in Hok. cbv zeta in Hok. apply andb_prop in Hok. destruct Hok as [_ Hok].
  destruct (sch_find s (o_type f)) as [ti|] eqn:Hf; [|discriminate]. rewrite Ha in Ho, Hok.
  destruct (slot f "elements") as [| | | | | |l|] eqn:Ev; try discriminate Hok. exists l. split; [reflexivity|].
  andb_all. match goal with H : forallb (Xmi.array_elem_inb _ _) _ = true |- _ => rename H into P0 end.
  apply Forall_forall. intros v Hv. rewrite forallb_forall in P0. specialize (P0 v Hv). unfold Xmi.array_elem_inb in P0.
  destruct (String.eqb (o_type f) T_STRING_ARRAY).
  { left. apply XmiDocOk.str_simple. exact P0. }
  destruct (String.eqb (o_type f) T_FS_ARRAY) eqn:Efs.
  - apply String.eqb_eq in Efs. destruct v; try discriminate P0; [left; reflexivity|]. right. split; [exact Efs|]. exists o0. split; [reflexivity|].
    destruct HT as [HT|HT]; [|contradiction]. apply (T_succ o f o0 HT Hg).
    destruct (ti_ok _ _ Hf) as [_ Hn].
    eapply sr_elements; try eassumption; [rewrite (array_type_agree _ _ Hf), Ha; reflexivity|congruence|].
    split; [exact (proj1 (has_feat_array _ _ Hf Ha))|]. exists l. split; assumption.
  - left. eapply XmiDocOk.prim_simple. exact P0.
Qed.

(* an object has only declared attributes *)
Lemma slot_declared o f p : hget h o = Some f -> slot f p <> VNone -> has_feat s (o_type f) p = true.
Proof.
  intros Hg Hv. destruct wf_parts as (_ & _ & _ & _ & _ & Hs & _). unfold slots_declb in Hs. rewrite forallb_forall in Hs.
  specialize (Hs _ (hget_In _ _ _ Hg)). cbn [snd] in Hs. rewrite forallb_forall in Hs.
  unfold slot in Hv. destruct (alookup p (o_slots f)) as [v|] eqn:E; [|contradiction]. apply alookup_In in E. exact (Hs _ E).
Qed.
Lemma has_feat_fd t ti p : sch_find s t = Some ti -> has_feat s t p = true -> exists fd, In fd (ti_feats ti) /\ fd_name fd = p.
Proof.
  intros Hf H. unfold has_feat, sch_feats in H. rewrite Hf in H. destruct (fd_find (ti_feats ti) p) as [fd|] eqn:E; [|discriminate].
  exists fd. exact (fd_find_In _ _ _ E).
Qed.

(* a reference held in any slot of a structure found (not an array) points to a structure found *)
Lemma Tv_slot o f ti p : Tf o -> hget h o = Some f -> sch_find s (o_type f) = Some ti -> is_array_name (o_type f) = false ->
  Tv (slot f p).
Proof.
  intros Ho Hg Hf Ha x Hx. assert (Hnn : slot f p <> VNone) by (rewrite Hx; discriminate).
  destruct (has_feat_fd _ ti p Hf (slot_declared o f p Hg Hnn)) as (fd & Hin & Hn). subst p.
  destruct (slot_kinds o f ti fd Ho Hg Hf Ha Hin) as [_ _ [H|(n & so & H & _)]|_ _ _ H|_ _ _ [H|(y & H & Hy)]]; rewrite Hx in H; try discriminate H.
  inversion H; subst y. exact Hy.
Qed.


(* ------------------------------------------------------------------------------------------------ the XMI traversal stays inside the JSON one *)

Lemma okb_type f : obj_okb s c f = true -> exists ti, sch_find s (o_type f) = Some ti.
Proof.
  unfold obj_okb. cbv zeta. intros H. apply andb_prop in H. destruct H as [_ H].
  destruct (sch_find s (o_type f)) as [ti|]; [exists ti; reflexivity|discriminate].
Qed.
Lemma head_not_array f : has_feat s (o_type f) "head" = true -> is_array_name (o_type f) = false.
Proof.
  intros Hh. destruct (is_array_name (o_type f)) eqn:Ea; [|reflexivity]. exfalso.
  destruct (sch_find s (o_type f)) as [ti|] eqn:Hf.
  - rewrite (proj2 (has_feat_array _ _ Hf Ea) "head") in Hh; [discriminate|discriminate].
  - unfold has_feat, sch_feats in Hh. rewrite Hf in Hh. discriminate.
Qed.

Lemma chain_T v g : chain s h v g -> Tv v -> exists o ti, hget h o = Some g /\ Tf o /\ sch_find s (o_type g) = Some ti /\ is_array_name (o_type g) = false.
Proof.
  induction 1 as [o f Hg Hh|o f g Hg Hh Hc IH]; intros HT.
  - pose proof (HT o eq_refl) as Ho. destruct (Tf_obj o Ho) as (i & f' & _ & Hg' & _ & Hok). rewrite Hg in Hg'. inversion Hg'; subst f'.
    destruct (okb_type f Hok) as (ti & Hf). exists o, ti. repeat split; try assumption. exact (head_not_array f Hh).
  - pose proof (HT o eq_refl) as Ho. destruct (Tf_obj o Ho) as (i & f' & _ & Hg' & _ & Hok). rewrite Hg in Hg'. inversion Hg'; subst f'.
    destruct (okb_type f Hok) as (ti & Hf). apply IH. exact (Tv_slot o f ti "tail" Ho Hg Hf (head_not_array f Hh)).
Qed.

Lemma succ_false_T o f x : Tf o -> hget h o = Some f -> succ_rel false s h o x -> Tf x.
Proof.
  intros Ho Hg Hs. destruct Hs as [f' t Hg' Hf Hat Hn He|f' t fd Hg' Hf Hat Hin Hns Hp Hs]; rewrite Hg in Hg'; inversion Hg'; subst f'.
  - apply (T_succ o f x Ho Hg). eapply sr_elements; eassumption.
  - assert (Ha : is_array_name (o_type f) = false) by (rewrite (array_type_agree _ _ Hf) in Hat; congruence).
    destruct Hs as [_ Hv|a af _ _ Hv Hga He|g _ _ Hc Hd].
    + exact (Tv_slot o f t _ Ho Hg Hf Ha x Hv).
    + pose proof (Tv_slot o f t _ Ho Hg Hf Ha a Hv) as Hta.
      destruct (Tf_obj a Hta) as (ia & af' & _ & Hga' & _ & Hoka). rewrite Hga in Hga'. inversion Hga'; subst af'.
      destruct He as (Hhe & l & Hl & Hx). destruct (okb_type af Hoka) as (tia & Hfa).
      destruct (is_array_name (o_type af)) eqn:Eaa.
      * destruct (arr_kinds a af Hga Hoka Eaa (or_introl Hta)) as (l' & Hl' & Hgood). rewrite Hl in Hl'. inversion Hl'; subst l'.
        rewrite Forall_forall in Hgood. destruct (Hgood _ Hx) as [Hsim|(_ & y & Hy & HTy)]; [discriminate Hsim|].
        inversion Hy; subst y. exact HTy.
      * exfalso. destruct (has_feat_fd _ tia "elements" Hfa Hhe) as (fde & Hine & Hne).
        pose proof (slot_kinds a af tia fde Hta Hga Hfa Eaa Hine) as K. rewrite Hne, Hl in K.
        destruct K as [_ _ [K|(n & so & K & _)]|_ _ _ K|_ _ _ [K|(y & K & _)]]; discriminate K.
    + destruct (chain_T _ g Hc (Tv_slot o f t _ Ho Hg Hf Ha)) as (og & tig & Hgg & Hog & Hfg & Hag).
      exact (Tv_slot og g tig "head" Hog Hgg Hfg Hag x Hd).
Qed.

Lemma wf_heap_false : wf_heapb false s h = true.
Proof. destruct (XmiWf.wf_casb_parts s c wf_casb_holds) as (_ & H & _). exact H. Qed.

Lemma reach_false_T o : reach false s h (member_seeds c) o -> Tf o.
Proof.
  induction 1 as [o Ho|o x _ IH _ Hx]; [exact (T_members o Ho)|].
  destruct (Tf_obj o IH) as (i & f & _ & Hg & _).
  assert (Hl : live h o = true) by (unfold live; rewrite Hg; reflexivity).
  apply (succ_false_T o f x IH Hg). apply (succs_declarative_wf false s h o wf_heap_false Hl). exact Hx.
Qed.
Lemma F_sub o : In o (returned wF) -> Tf o.
Proof. intros Ho. apply (find_all_exact _ _ _ _ _ EF') in Ho. destruct Ho as [Hr _]. exact (reach_false_T o Hr). Qed.

(* every structure the XMI traversal meets carries its id already: the traversal changes nothing *)
Lemma pop_same inl w w' o rest f i : w_open w = o :: rest -> hget (w_heap w) o = Some f -> o_id f = Some i ->
  pop inl s w = Ok w' -> w_heap w' = w_heap w /\ w_next w' = w_next w.
Proof.
  intros Ho Hg Hi H. destruct (pop_cases_enq _ _ _ _ _ _ Ho H) as (f1 & Eg & [[_ ->]|(_ & i1 & f' & hp & nx & all' & l & Hid & _ & _ & He)]).
  - cbn. split; reflexivity.
  - rewrite Hg in Eg. inversion Eg; subst f1. destruct Hid as [(_ & _ & -> & ->)|(Ei & _)]; [|congruence].
    destruct (enqueue_spec _ _ _ He) as (add & Hext & _). unfold extends in Hext. subst w'. cbn. split; reflexivity.
Qed.
Lemma run_same inl h0 n0 seeds : (forall o, reach inl s h0 seeds o -> exists f i, hget h0 o = Some f /\ o_id f = Some i) ->
  forall k popped w w', Inv inl s h0 n0 seeds popped w -> run k inl s w = Ok w' -> w_heap w' = w_heap w /\ w_next w' = w_next w.
Proof.
  intros Hid. induction k as [|k IH]; intros popped w w' I H; cbn [run] in H.
  - destruct (w_open w); [inversion H; subst; split; reflexivity|discriminate].
  - destruct (w_open w) as [|o rest] eqn:Ho; [inversion H; subst; split; reflexivity|].
    destruct (pop inl s w) as [w1| |] eqn:Ep; cbn [bind] in H; try discriminate.
    pose proof (i_split _ _ _ _ _ _ _ I) as Hsp. rewrite Ho in Hsp.
    pose proof (i_nodup _ _ _ _ _ _ _ I) as Hnd. rewrite Hsp in Hnd. destruct (NoDup_mid _ _ _ Hnd) as [Hop _].
    assert (Hq : In o (w_queued w)) by (rewrite Hsp; apply in_or_app; right; left; reflexivity).
    destruct (Hid o (i_reach _ _ _ _ _ _ _ I o Hq)) as (f & i & Hg & Hi).
    rewrite <- (i_unpopped _ _ _ _ _ _ _ I o Hop) in Hg.
    destruct (pop_same inl w w1 o rest f i Ho Hg Hi Ep) as [A B].
    destruct (IH _ _ _ (pop_Inv _ _ _ _ _ _ _ _ _ _ Ho I Ep) H) as [A' B']. split; congruence.
Qed.

Lemma F_same : w_heap wF = h /\ w_next wF = c_next_id c.
Proof.
  pose proof EF' as H. unfold find_all_from, start in H.
  destruct (enqueue (mkW h (c_next_id c) [] [] []) (map VRef (member_seeds c))) as [w0| |] eqn:E0; cbn [bind] in H; try discriminate.
  destruct (start_Inv false s _ _ _ _ E0) as [I0 _].
  assert (Hid : forall o, reach false s h (member_seeds c) o -> exists f i, hget h o = Some f /\ o_id f = Some i).
  { intros o Hr. destruct (Tf_obj o (reach_false_T o Hr)) as (i & f & _ & Hg & Hi & _). exists f, i. split; assumption. }
  destruct (run_same false h (c_next_id c) (member_seeds c) Hid _ _ _ _ I0 H) as [A B].
  destruct (enqueue_spec _ _ _ E0) as (add & Hext & _). unfold extends in Hext. subst w0. cbn in A, B. split; assumption.
Qed.


(* ------------------------------------------------------------------------------------------------ ids, and the JSON view as a table *)

Variable cc : ccas.
Hypothesis EJ : canon_json s c = Ok cc.

Local Notation has_id := (XmiWf.has_id h).
Definition J (o : oid) : Prop := Tf o \/ In o (sofa_arrays c).
Definition idz (o : oid) : Z := match hget h o with Some f => match o_id f with Some i => i | None => 0 end | None => 0 end.
Definition arr_ids : list Z :=
  flat_map (fun o => match hget h o with Some f => match o_id f with Some i => [i] | None => [] end | None => [] end) (sofa_arrays c).

Lemma has_id_fun o i j : has_id o i -> has_id o j -> i = j.
Proof. intros (f & A & B) (g & A' & B'). congruence. Qed.
Lemma has_id_idz o i : has_id o i -> idz o = i.
Proof. intros (f & A & B). unfold idz. rewrite A, B. reflexivity. Qed.

(* the sofa byte arrays are private (arrays_privateb): each belongs to one sofa, none is found by the traversal *)
Lemma arrays_once_all : sofa_arrays_once c = sofa_arrays c.
Proof.
  destruct wf_parts as (_ & _ & _ & _ & _ & _ & Hp). unfold arrays_privateb in Hp. apply andb_prop in Hp. destruct Hp as [Hn _].
  apply JsonDocOk.nodupN_NoDup in Hn. unfold sofa_arrays_once.
  assert (G : forall l seen, NoDup l -> (forall o, In o l -> ~ In o seen) -> odedup seen l = l).
  { induction l as [|o r IH]; intros seen Hnd Hns; [reflexivity|]. cbn [odedup]. inversion Hnd as [|? ? Hni Hnd']; subst.
    destruct (omem o seen) eqn:E; [apply JsonProofs.omem_In in E; destruct (Hns o (or_introl eq_refl) E)|].
    f_equal. apply IH; [exact Hnd'|]. intros o' Ho' Hin. apply in_app_or in Hin. destruct Hin as [Hin|[<-|[]]]; [exact (Hns o' (or_intror Ho') Hin)|exact (Hni Ho')]. }
  apply G; [exact Hn|intros o _ []].
Qed.
Lemma unwritten_all : forall l, (forall io, In io l -> In io (w_all wT)) -> unwritten (sofa_arrays c) l = l.
Proof.
  destruct wf_parts as (_ & _ & _ & _ & _ & _ & Hp). unfold arrays_privateb in Hp. apply andb_prop in Hp. destruct Hp as [_ Hf].
  rewrite ET in Hf. rewrite forallb_forall in Hf. unfold unwritten.
  induction l as [|io r IH]; intros Hl; [reflexivity|]. cbn [filter]. rewrite (Hf io (Hl io (or_introl eq_refl))). f_equal.
  apply IH. intros x Hx. apply Hl. right. exact Hx.
Qed.
Lemma ids_nodup : NoDup (map s_xid (map v_sofa (c_views c)) ++ map fst (w_all wT) ++ arr_ids).
Proof.
  destruct wf_parts as (_ & _ & _ & Hd & _). unfold ids_distinctb in Hd. rewrite ET in Hd. apply znodup_NoDup in Hd.
  rewrite arrays_once_all, (unwritten_all (w_all wT) (fun io H => H)) in Hd. exact Hd.
Qed.
Lemma arr_obj o : In o (sofa_arrays c) ->
  exists f i, hget h o = Some f /\ o_id f = Some i /\ o_type f = T_BYTE_ARRAY /\ obj_okb s c f = true.
Proof.
  intros Hin. destruct wf_parts as (_ & _ & Hj & _). unfold wf_jsonb in Hj. rewrite ET in Hj. andb_all.
  match goal with H : forallb _ (sofa_arrays c) = true |- _ => rewrite forallb_forall in H; specialize (H o Hin); rename H into P end.
  destruct (hget h o) as [f|]; [|discriminate]. andb_all. destruct (o_id f) as [i|] eqn:Ei; [|discriminate].
  exists f, i. repeat split; try assumption. apply String.eqb_eq. assumption.
Qed.
Lemma J_obj o : J o -> exists f i, hget h o = Some f /\ o_id f = Some i /\ obj_okb s c f = true.
Proof.
  intros [Ho|Ho]; [destruct (Tf_obj o Ho) as (i & f & _ & A & B & C)|destruct (arr_obj o Ho) as (f & i & A & B & _ & C)];
    exists f, i; repeat split; assumption.
Qed.
Lemma Tf_id_in o i : Tf o -> has_id o i -> In (i, o) (w_all wT).
Proof.
  intros Ho Hi. destruct (Tf_obj o Ho) as (i' & f & Hin & A & B & _). assert (i = i') by (apply (has_id_fun o); [exact Hi|exists f; split; assumption]).
  subst i'. exact Hin.
Qed.
Lemma arr_id_in o i : In o (sofa_arrays c) -> has_id o i -> In i arr_ids.
Proof.
  intros Ho (f & A & B). unfold arr_ids. apply in_flat_map. exists o. split; [exact Ho|]. rewrite A, B. left. reflexivity.
Qed.
Lemma Tf_arr_disjoint o o' i : Tf o -> In o' (sofa_arrays c) -> has_id o i -> has_id o' i -> False.
Proof.
  intros Ho Ho' Hi Hi'. pose proof (NoDup_app_right _ _ ids_nodup) as Hnd. apply (NoDup_app_disj _ _ i Hnd).
  - change i with (fst (i, o)). apply in_map. exact (Tf_id_in o i Ho Hi).
  - exact (arr_id_in o' i Ho' Hi').
Qed.
Lemma J_inj o o' i : J o -> J o' -> has_id o i -> has_id o' i -> o = o'.
Proof.
  intros [Ho|Ho] [Ho'|Ho'] Hi Hi'.
  - destruct (find_all_each_once _ _ _ _ _ ET') as [Hnd _].
    symmetry. exact (NoDup_fst_inj _ _ _ _ Hnd (Tf_id_in o' i Ho' Hi') (Tf_id_in o i Ho Hi)).
  - destruct (Tf_arr_disjoint o o' i Ho Ho' Hi Hi').
  - destruct (Tf_arr_disjoint o' o i Ho' Ho Hi' Hi).
  - pose proof (NoDup_app_right _ _ (NoDup_app_right _ _ ids_nodup)) as Hnd. unfold arr_ids in Hnd.
    apply (NoDup_flat_inj _ _ Hnd o o' i Ho Ho').
    + destruct Hi as (f & A & B). rewrite A, B. left. reflexivity.
    + destruct Hi' as (f & A & B). rewrite A, B. left. reflexivity.
Qed.
Lemma arrs_nodup : NoDup (sofa_arrays c).
Proof.
  pose proof (NoDup_app_right _ _ (NoDup_app_right _ _ ids_nodup)) as Hnd. unfold arr_ids in Hnd.
  apply (NoDup_flat_base _ _) in Hnd; [exact Hnd|]. intros o Ho. cbv beta. destruct (arr_obj o Ho) as (f & i & A & B & _). rewrite A, B. discriminate.
Qed.
Lemma id_nonzero o i : has_id o i -> i <> 0.
Proof. destruct (XmiWf.wf_casb_parts s c wf_casb_holds) as (_ & _ & _ & _ & Hn & _). exact (XmiWf.no_null_ids h Hn o i). Qed.

Definition objsJ : list oid := sofa_arrays c ++ map snd (sort_ids (w_all wT)).
Lemma objsJ_J o : In o objsJ <-> J o.
Proof.
  unfold objsJ, J, Tf, returned. rewrite in_app_iff. split; intros [H|H]; try (left; exact H); try (right; exact H).
  - left. apply in_map_iff in H. destruct H as (io & E & H). apply in_map_iff. exists io. split; [exact E|]. apply sort_ids_In. exact H.
  - right. apply in_map_iff in H. destruct H as (io & E & H). apply in_map_iff. exists io. split; [exact E|]. apply sort_ids_In. exact H.
Qed.

Lemma cc_parts : exists fss sofas, mapM (canon_item s c) objsJ = Ok fss /\ mapM (canon_sofa c) (c_views c) = Ok sofas /\
  cc = mkCcas (sort_by cs_id sofas) (sort_by fst fss).
Proof.
  pose proof EJ as H. unfold canon_json in H. rewrite ET in H. cbn [bind] in H. unfold canon_of, listed in H.
  rewrite arrays_once_all, (unwritten_all (sort_ids (w_all wT)) (fun io Hio => proj1 (sort_ids_In io (w_all wT)) Hio)) in H.
  change (fun o : oid => match hget h o with
                         | Some f => match o_id f with Some i => do cf <- canon_fs s c f ;; Ok (i, cf) | None => Err EValue end
                         | None => Err EAttribute end) with (canon_item s c) in H.
  fold objsJ in H. destruct (mapM (canon_item s c) objsJ) as [fss| |]; cbn [bind] in H; try discriminate.
  destruct (mapM (canon_sofa c) (c_views c)) as [sofas| |]; cbn [bind] in H; try discriminate.
  exists fss, sofas. repeat split. inversion H. reflexivity.
Qed.

Lemma canon_item_key o r : canon_item s c o = Ok r -> fst r = idz o.
Proof.
  unfold canon_item, idz. destruct (hget h o) as [f|]; [|discriminate]. destruct (o_id f) as [i|]; [|discriminate].
  destruct (canon_fs s c f); cbn [bind]; try discriminate. intros [= <-]. reflexivity.
Qed.
Lemma keys_perm : Permutation (map fst (cc_fs cc)) (map fst (w_all wT) ++ arr_ids).
Proof.
  destruct cc_parts as (fss & sofas & Hf & _ & ->). cbn [cc_fs].
  eapply Permutation_trans; [apply Permutation_map; apply sort_by_is_perm|].
  pose proof (mapM_keys _ idz fst objsJ canon_item_key fss Hf) as K.
  match goal with |- Permutation ?a _ => replace a with (map idz objsJ) by (symmetry; exact K) end. unfold objsJ. rewrite map_app.
  eapply Permutation_trans; [apply Permutation_app_comm|]. apply Permutation_app.
  - rewrite map_map. eapply Permutation_trans; [apply Permutation_map; apply sort_ids_is_perm|].
    assert (E : forall l, (forall io, In io l -> In io (w_all wT)) -> map (fun x => idz (snd x)) l = map fst l).
    { induction l as [|[i o] r IH]; intros Hl; [reflexivity|]. cbn [map fst snd]. f_equal.
      - destruct (T_found i o (Hl _ (or_introl eq_refl))) as (f & A & B & _). apply has_id_idz. exists f. split; assumption.
      - apply IH. intros io Hio. apply Hl. right. exact Hio. }
    rewrite (E _ (fun io H => H)). apply Permutation_refl.
  - unfold arr_ids. assert (E : forall l, (forall o, In o l -> In o (sofa_arrays c)) ->
      map idz l = flat_map (fun o => match hget h o with Some f => match o_id f with Some i => [i] | None => [] end | None => [] end) l).
    { induction l as [|o r IH]; intros Hl; [reflexivity|]. cbn [map flat_map].
      destruct (arr_obj o (Hl _ (or_introl eq_refl))) as (f & i & A & B & _). unfold idz at 1. rewrite A, B. cbn [app]. f_equal.
      apply IH. intros o' Ho'. apply Hl. right. exact Ho'. }
    rewrite (E _ (fun o H => H)). apply Permutation_refl.
Qed.
Lemma keys_nodup : NoDup (map fst (cc_fs cc)).
Proof.
  eapply Permutation_NoDup; [apply Permutation_sym; exact keys_perm|]. exact (NoDup_app_right _ _ ids_nodup).
Qed.

Lemma lookup_J i cf : fs_lookup cc i = Some cf <->
  exists o f, J o /\ hget h o = Some f /\ o_id f = Some i /\ canon_fs s c f = Ok cf.
Proof.
  pose proof keys_nodup as Hnd. destruct cc_parts as (fss & sofas & Hf & _ & Ecc). unfold fs_lookup. split.
  - intros H. apply zlookup_In in H. rewrite Ecc in H. cbn [cc_fs] in H.
    apply (Permutation_in _ (sort_by_is_perm fst fss)) in H. destruct (mapM_In _ _ _ Hf _ H) as (o & Ho & Hc).
    unfold canon_item in Hc. destruct (hget h o) as [f|] eqn:Hg; [|discriminate]. destruct (o_id f) as [i'|] eqn:Hi; [|discriminate].
    destruct (canon_fs s c f) as [cf'| |] eqn:Ecf; cbn [bind] in Hc; try discriminate. inversion Hc; subst i' cf'.
    exists o, f. split; [apply objsJ_J; exact Ho|]. repeat split; assumption.
  - intros (o & f & HJ & Hg & Hi & Hc). apply objsJ_J in HJ. destruct (mapM_In_l _ _ _ Hf _ HJ) as (b & Hb & Eb).
    unfold canon_item in Eb. rewrite Hg, Hi, Hc in Eb. cbn [bind] in Eb. inversion Eb; subst b.
    apply zlookup_nodup; [exact Hnd|]. rewrite Ecc. cbn [cc_fs]. apply (Permutation_in _ (Permutation_sym (sort_by_is_perm fst fss))). exact Hb.
Qed.


(* ------------------------------------------------------------------------------------------------ values: heap vs. JSON view vs. XMI view *)

(* a value the three readings agree on: a reference to a structure found (read as its id), or a plain value *)
Inductive Re : val -> cval -> Prop :=
 | Re_ref x i : Tf x -> has_id x i -> Re (VRef x) (CRef i)
 | Re_simple v w : XmiDocOk.simple v = true -> cv_atom c v = Ok w -> Re v w.

Lemma Re_cv v w : Re v w -> cv_atom c v = Ok w /\ cv_json c v = Ok w /\ Xmi.cv c v = Ok w.
Proof.
  intros [x i _ (f & A & B)|v' w' Hs Hc].
  - cbn [cv_atom cv_json ref_id Xmi.cv]. unfold Xmi.ref_id. rewrite A, B. cbn [bind]. repeat split; reflexivity.
  - split; [exact Hc|]. destruct v'; try discriminate Hs; cbn [cv_json cv_atom Xmi.cv] in *; split; exact Hc.
Qed.
Lemma Re_of_cv v w : (XmiDocOk.simple v = true \/ exists x, v = VRef x /\ Tf x) -> cv_json c v = Ok w -> Re v w.
Proof.
  intros [Hs|(x & -> & Hx)] Hc.
  - apply Re_simple; [exact Hs|]. destruct v; try discriminate Hs; exact Hc.
  - destruct (Tf_obj x Hx) as (i & f & _ & A & B & _). cbn [cv_json cv_atom ref_id] in Hc. rewrite A, B in Hc. cbn [bind] in Hc.
    inversion Hc; subst w. apply Re_ref; [exact Hx|exists f; split; assumption].
Qed.
Lemma Re_total v : (XmiDocOk.simple v = true \/ exists x, v = VRef x /\ Tf x) -> exists w, Re v w.
Proof.
  intros [Hs|(x & -> & Hx)].
  - destruct v; try discriminate Hs; eexists; (apply Re_simple; [reflexivity|cbn [cv_atom]; reflexivity]).
  - destruct (Tf_obj x Hx) as (i & f & _ & A & B & _). exists (CRef i). apply Re_ref; [exact Hx|exists f; split; assumption].
Qed.
Lemma Re_list l : Forall (fun v => XmiDocOk.simple v = true \/ exists x, v = VRef x /\ Tf x) l ->
  exists lw, mapM (cv_atom c) l = Ok lw /\ Forall2 Re l lw.
Proof.
  induction 1 as [|v r Hv _ (lw & Hm & Hf)]; [exists []; split; [reflexivity|constructor]|].
  destruct (Re_total v Hv) as (w & Hw). exists (w :: lw). cbn [mapM]. rewrite (proj1 (Re_cv v w Hw)), Hm. cbn [bind].
  split; [reflexivity|constructor; assumption].
Qed.
Lemma Re_mapM_cv l lw : Forall2 Re l lw -> mapM (Xmi.cv c) l = Ok lw.
Proof.
  induction 1 as [|v w r rw Hv _ IH]; [reflexivity|]. cbn [mapM]. rewrite (proj2 (proj2 (Re_cv v w Hv))), IH. reflexivity.
Qed.
Lemma Re_crefs l lw : Forall2 Re l lw -> Forall2 has_id (refs_of l) (crefs lw).
Proof.
  induction 1 as [|v w r rw Hv _ IH]; [constructor|]. unfold refs_of, crefs in *. cbn [flat_map].
  destruct Hv as [x i _ Hi|v w Hs Hc]; [cbn [app]; constructor; assumption|].
  destruct v; try discriminate Hs; cbn [cv_atom] in Hc; inversion Hc; subst w; cbn [app]; exact IH.
Qed.

(* the slot of a declared feature, read in both views *)
Lemma slot_cv fd v : slot_kind fd v ->
  exists w, cv_json c v = Ok w /\ Xmi.cv c v = Ok w /\ (fd_name fd <> "sofa" -> Re v w).
Proof.
  intros [Hn _ [->|(n & so & -> & Hso)]|Hn _ _ Hs|Hn _ _ [->|(x & -> & Hx)]].
  - exists CNull. split; [reflexivity|split; [reflexivity|]]. intros H. destruct (H Hn).
  - exists (CRef (s_xid so)). cbn [cv_json cv_atom ref_id Xmi.cv]. unfold Xmi.sofa_of_view, find_sofa in *. rewrite Hso. cbn [bind].
    split; [reflexivity|split; [reflexivity|]]. intros H. destruct (H Hn).
  - destruct (Re_total v (or_introl Hs)) as (w & Hw). destruct (Re_cv v w Hw) as (_ & A & B). exists w. split; [exact A|split; [exact B|intros _; exact Hw]].
  - exists CNull. split; [reflexivity|split; [reflexivity|]]. intros _. apply Re_simple; reflexivity.
  - destruct (Re_total (VRef x) (or_intror (ex_intro _ x (conj eq_refl Hx)))) as (w & Hw). destruct (Re_cv _ w Hw) as (_ & A & B).
    exists w. split; [exact A|split; [exact B|intros _; exact Hw]].
Qed.

(* canonical JSON entry of a structure *)
Local Notation jfeat f := (fun fd => do v <- cv_json c (slot f (fd_name fd)) ;; Ok (fd_xname fd, v)).

Lemma canonJ_struct f ti cf : sch_find s (o_type f) = Some ti -> is_array_name (o_type f) = false -> canon_fs s c f = Ok cf ->
  exists fv, mapM (jfeat f) (ti_feats ti) = Ok fv /\ cf = mkCfs (o_type f) (sort_feats fv).
Proof.
  intros Hf Ha H. unfold canon_fs in H. cbv zeta in H. rewrite Hf, Ha in H.
  destruct (mapM (jfeat f) (ti_feats ti)) as [fv| |]; cbn [bind] in H; try discriminate. exists fv. split; [reflexivity|]. inversion H. reflexivity.
Qed.
Lemma xnames_nodup o f ti : hget h o = Some f -> sch_find s (o_type f) = Some ti -> NoDup (map fd_xname (ti_feats ti)).
Proof.
  intros Hg Hf. pose proof (obj_in o f Hg) as Ho. unfold Xmi.obj_inb in Ho. cbv zeta in Ho. rewrite Hf in Ho. andb_all.
  apply XmiProofs.nodups_NoDup. assumption.
Qed.
Lemma jfeat_lookup f x : forall feats fv, mapM (jfeat f) feats = Ok fv ->
  alookup x fv = match xfind feats x with
                 | Some fd => match cv_json c (slot f (fd_name fd)) with Ok w => Some w | _ => None end
                 | None => None end.
Proof.
  unfold xfind. induction feats as [|g r IH]; intros fv H; cbn [mapM] in H; [inversion H; reflexivity|].
  destruct (cv_json c (slot f (fd_name g))) as [w| |] eqn:Ew; cbn [bind] in H; try discriminate.
  destruct (mapM (jfeat f) r) as [fr| |]; cbn [bind] in H; try discriminate. inversion H; subst fv. cbn [alookup find].
  rewrite String.eqb_sym. destruct (String.eqb (fd_xname g) x); [rewrite Ew; reflexivity|exact (IH fr eq_refl)].
Qed.
Lemma jfeat_keys f : forall feats fv, mapM (jfeat f) feats = Ok fv -> map fst fv = map fd_xname feats.
Proof.
  intros feats fv H. apply (mapM_keys (jfeat f) fd_xname fst feats); [|exact H].
  intros a b Hb. destruct (cv_json c (slot f (fd_name a))); cbn [bind] in Hb; try discriminate. inversion Hb. reflexivity.
Qed.
Lemma canonJ_lookup o f ti cf x : hget h o = Some f -> sch_find s (o_type f) = Some ti -> is_array_name (o_type f) = false ->
  canon_fs s c f = Ok cf ->
  alookup x (cf_feats cf) = match xfind (ti_feats ti) x with
                            | Some fd => match cv_json c (slot f (fd_name fd)) with Ok w => Some w | _ => None end
                            | None => None end.
Proof.
  intros Hg Hf Ha Hc. destruct (canonJ_struct f ti cf Hf Ha Hc) as (fv & Hm & ->). cbn [cf_feats].
  rewrite <- (jfeat_lookup f x _ fv Hm). rewrite sort_feats_s. symmetry. apply alookup_perm.
  - match goal with |- NoDup ?a => replace a with (map fd_xname (ti_feats ti)) by (symmetry; exact (jfeat_keys f _ fv Hm)) end.
    exact (xnames_nodup o f ti Hg Hf).
  - apply Permutation_sym. apply XmiDocOk.sort_s_perm.
Qed.

Definition plain (p : string) : Prop := p <> "self" /\ p <> "type" /\ p <> "self_" /\ p <> "type_".

(* for a name the python-name rule leaves alone: reading the attribute p of the object and reading the feature p of its
   canonical JSON entry give the same value, and the type has the feature iff the entry has it *)
Lemma feat_val_plain o f ti cf p : hget h o = Some f -> sch_find s (o_type f) = Some ti -> is_array_name (o_type f) = false ->
  canon_fs s c f = Ok cf -> plain p ->
  cv_json c (slot f p) = Ok (feat_val cf p) /\ has_featc cf p = has_feat s (o_type f) p.
Proof.
  intros Hg Hf Ha Hc (P1 & P2 & P3 & P4). unfold feat_val, has_featc. rewrite (canonJ_lookup o f ti cf p Hg Hf Ha Hc).
  destruct (canonJ_struct f ti cf Hf Ha Hc) as (fv & Hm & _).
  unfold has_feat, sch_feats. rewrite Hf.
  destruct (xfind (ti_feats ti) p) as [fd|] eqn:Ex.
  - destruct (xfind_in _ _ _ Ex) as [Hin Hx]. pose proof (proj2 (plain_name _ ti fd p Hf Hin P1 P2 P3 P4) Hx) as Hn.
    destruct (mapM_In_l _ _ _ Hm fd Hin) as (b & _ & Eb). rewrite Hn in *.
    destruct (cv_json c (slot f p)) as [w| |]; cbn [bind] in Eb; try discriminate. split; [reflexivity|].
    destruct (fd_find (ti_feats ti) p) as [fd'|] eqn:Efd; [reflexivity|]. exfalso. exact (fd_find_None _ _ Efd fd Hin Hn).
  - assert (Hnone : fd_find (ti_feats ti) p = None).
    { destruct (fd_find (ti_feats ti) p) as [fd'|] eqn:Efd; [|reflexivity]. exfalso. destruct (fd_find_In _ _ _ Efd) as [Hin Hn].
      pose proof (proj1 (plain_name _ ti fd' p Hf Hin P1 P2 P3 P4) Hn) as Hx. unfold xfind in Ex.
      pose proof (find_none _ _ Ex fd' Hin) as K. cbv beta in K. rewrite Hx, String.eqb_refl in K. discriminate. }
    rewrite Hnone. split; [|reflexivity].
    destruct (slot f p) eqn:Ev; try reflexivity; exfalso;
      (assert (Hnn : slot f p <> VNone) by (rewrite Ev; discriminate));
      pose proof (slot_declared o f p Hg Hnn) as K; unfold has_feat, sch_feats in K; rewrite Hf, Hnone in K; discriminate.
Qed.

(* the slot of a structure found under a plain name other than `sofa`: a plain value or a reference to a structure found *)
Lemma slot_plain_kind o f ti p : Tf o -> hget h o = Some f -> sch_find s (o_type f) = Some ti -> is_array_name (o_type f) = false ->
  p <> "sofa" -> XmiDocOk.simple (slot f p) = true \/ exists x, slot f p = VRef x /\ Tf x.
Proof.
  intros Ho Hg Hf Ha Hp. destruct (slot f p) eqn:Ev; try (left; reflexivity);
    (assert (Hnn : slot f p <> VNone) by (rewrite Ev; discriminate));
    destruct (has_feat_fd _ ti p Hf (slot_declared o f p Hg Hnn)) as (fd & Hin & Hn); subst p;
    pose proof (slot_kinds o f ti fd Ho Hg Hf Ha Hin) as K; rewrite Ev in K;
    destruct K as [K0 _ _|_ _ _ K|_ _ _ [K|(y & K & Hy)]]; try contradiction; try discriminate K.
  right. exists o0. inversion K; subst y. split; [reflexivity|exact Hy].
Qed.

Lemma J_canon o : J o -> exists f i cf, hget h o = Some f /\ o_id f = Some i /\ canon_fs s c f = Ok cf /\ fs_lookup cc i = Some cf.
Proof.
  intros HJ. destruct (J_obj o HJ) as (f & i & Hg & Hi & _). destruct cc_parts as (fss & _ & Hm & _).
  destruct (mapM_In_l _ _ _ Hm o (proj2 (objsJ_J o) HJ)) as (b & _ & Eb). unfold canon_item in Eb. rewrite Hg, Hi in Eb.
  destruct (canon_fs s c f) as [cf| |] eqn:Ec; cbn [bind] in Eb; try discriminate.
  exists f, i, cf. repeat split; try assumption. apply lookup_J. exists o, f. repeat split; assumption.
Qed.

(* arrays *)
Lemma arr_canon a af : J a -> hget h a = Some af -> is_array_name (o_type af) = true ->
  exists l lw, slot af "elements" = VList l /\ Forall2 Re l lw /\ canon_fs s c af = Ok (mkCfs (o_type af) [("elements", CColl "" lw)]).
Proof.
  intros HJ Hg Ha. destruct (J_obj a HJ) as (f & i & Hg' & _ & Hok). rewrite Hg in Hg'. inversion Hg'; subst f.
  assert (HT : Tf a \/ o_type af <> T_FS_ARRAY).
  { destruct HJ as [H|H]; [left; exact H|right]. destruct (arr_obj a H) as (f & _ & Hg2 & _ & Ht & _). rewrite Hg in Hg2. inversion Hg2; subst f.
    rewrite Ht. discriminate. }
  destruct (arr_kinds a af Hg Hok Ha HT) as (l & Hl & Hgood).
  assert (Hgood' : Forall (fun v => XmiDocOk.simple v = true \/ exists x, v = VRef x /\ Tf x) l).
  { apply Forall_forall. intros v Hv. rewrite Forall_forall in Hgood. destruct (Hgood v Hv) as [H|(_ & H)]; [left; exact H|right; exact H]. }
  destruct (Re_list l Hgood') as (lw & Hm & Hf). exists l, lw. split; [exact Hl|]. split; [exact Hf|].
  destruct (okb_type af Hok) as (ti & Hti). unfold canon_fs. cbv zeta. rewrite Hti, Ha, Hl. cbn [cv_json]. rewrite Hm. reflexivity.
Qed.


(* ------------------------------------------------------------------------------------------------ the members of an inlined collection *)

Definition goodv (v : val) : Prop := XmiDocOk.simple v = true \/ exists x, v = VRef x /\ Tf x.

Lemma seen_mem n i : Tf n -> has_id n i -> forall seen seenC, Forall2 has_id seen seenC -> (forall m, In m seen -> Tf m) ->
  zmem i seenC = memN n seen.
Proof.
  intros Hn Hi. induction 1 as [|m j r rc Hm _ IH]; intros HT; [reflexivity|]. unfold zmem in *. cbn [existsb memN].
  rewrite (IH (fun m' H' => HT m' (or_intror H'))). f_equal.
  destruct (Z.eqb i j) eqn:E1, (N.eqb n m) eqn:E2; try reflexivity; exfalso.
  - apply Z.eqb_eq in E1. subst j. apply N.eqb_neq in E2. apply E2.
    exact (J_inj n m i (or_introl Hn) (or_introl (HT m (or_introl eq_refl))) Hi Hm).
  - apply N.eqb_eq in E2. subst m. apply Z.eqb_neq in E1. apply E1. exact (has_id_fun n i j Hi Hm).
Qed.

Lemma plain_head : plain "head". Proof. repeat split; discriminate. Qed.
Lemma plain_tail : plain "tail". Proof. repeat split; discriminate. Qed.
Lemma plain_elements : plain "elements". Proof. repeat split; discriminate. Qed.

Lemma heads_sim : forall k seen v hs, list_heads k s h seen v = Ok hs -> goodv v -> (forall n, In n seen -> Tf n) ->
  forall k2 w seenC, cv_json c v = Ok w -> Forall2 has_id seen seenC -> (List.length hs < k2)%nat ->
  exists lw, heads_c k2 cc seenC w = Ok lw /\ Forall2 Re hs lw.
Proof.
  induction k as [|k IH]; intros seen v hs H Hgood HT k2 w seenC Hcv Hseen Hlen; cbn [list_heads] in H; [discriminate|].
  destruct k2 as [|k2]; [lia|]. cbn [heads_c].
  destruct Hgood as [Hs|(x & -> & Hx)].
  - destruct v; try discriminate Hs; cbn [cv_json cv_atom] in Hcv; inversion Hcv; subst w; inversion H; subst hs;
      exists []; (split; [reflexivity|constructor]).
  - destruct (J_canon x (or_introl Hx)) as (f & i & cf & Hg & Hi & Hc & Hlk). rewrite Hg in H.
    cbn [cv_json cv_atom ref_id] in Hcv. rewrite Hg, Hi in Hcv. cbn [bind] in Hcv. inversion Hcv; subst w. rewrite Hlk.
    assert (Hid : has_id x i) by (exists f; split; assumption).
    destruct (Tf_obj x Hx) as (_ & f' & _ & Hg' & _ & Hok). rewrite Hg in Hg'. inversion Hg'; subst f'.
    destruct (okb_type f Hok) as (ti & Hf).
    destruct (has_feat s (o_type f) "head") eqn:Hh; cbn [andb] in H.
    + pose proof (head_not_array f Hh) as Ha.
      destruct (feat_val_plain x f ti cf "head" Hg Hf Ha Hc plain_head) as [Hvh Hfh].
      destruct (feat_val_plain x f ti cf "tail" Hg Hf Ha Hc plain_tail) as [Hvt _].
      rewrite Hfh, Hh. cbn [andb]. rewrite (seen_mem x i Hx Hid seen seenC Hseen HT).
      destruct (memN x seen) eqn:Em; cbn [negb] in *.
      * inversion H; subst hs. exists []. split; [reflexivity|constructor].
      * destruct (list_heads k s h (x :: seen) (slot f "tail")) as [r| |] eqn:Er; cbn [bind] in H; try discriminate.
        inversion H; subst hs. cbn [List.length] in Hlen.
        assert (Hgt : goodv (slot f "tail")) by (apply (slot_plain_kind x f ti "tail" Hx Hg Hf Ha); discriminate).
        assert (HT' : forall n, In n (x :: seen) -> Tf n) by (intros n [<-|Hn]; [exact Hx|exact (HT n Hn)]).
        destruct (IH _ _ _ Er Hgt HT' k2 _ (i :: seenC) Hvt (Forall2_cons _ _ Hid Hseen) ltac:(lia)) as (lw & Hlw & Hre).
        rewrite Hlw. cbn [bind]. eexists. split; [reflexivity|]. constructor; [|exact Hre].
        apply Re_of_cv; [|exact Hvh]. apply (slot_plain_kind x f ti "head" Hx Hg Hf Ha). discriminate.
    + inversion H; subst hs. assert (Hfc : has_featc cf "head" = false).
      { destruct (is_array_name (o_type f)) eqn:Ea.
        - destruct (arr_canon x f (or_introl Hx) Hg Ea) as (l & lw & _ & _ & Hc'). rewrite Hc in Hc'. inversion Hc'; subst cf. reflexivity.
        - destruct (feat_val_plain x f ti cf "head" Hg Hf Ea Hc plain_head) as [_ Hfh]. rewrite Hfh. exact Hh. }
      rewrite Hfc. cbn [andb]. exists []. split; [reflexivity|constructor].
Qed.

Lemma heads_len : forall k seen v hs, list_heads k s h seen v = Ok hs -> goodv v -> NoDup seen -> (forall n, In n seen -> Tf n) ->
  (List.length hs + List.length seen <= List.length (returned wT))%nat.
Proof.
  assert (Hbase : forall seen, NoDup seen -> (forall n, In n seen -> Tf n) -> (List.length seen <= List.length (returned wT))%nat).
  { intros seen Hnd HT. apply NoDup_incl_length; [exact Hnd|]. intros n Hn. exact (HT n Hn). }
  induction k as [|k IH]; intros seen v hs H Hgood Hnd HT; cbn [list_heads] in H; [discriminate|].
  destruct Hgood as [Hs|(x & -> & Hx)].
  - destruct v; try discriminate Hs; inversion H; subst hs; cbn [List.length plus]; apply Hbase; assumption.
  - destruct (Tf_obj x Hx) as (i & f & _ & Hg & _ & Hok). rewrite Hg in H. destruct (okb_type f Hok) as (ti & Hf).
    destruct (has_feat s (o_type f) "head") eqn:Hh; cbn [andb] in H; [|inversion H; subst hs; cbn [List.length plus]; apply Hbase; assumption].
    destruct (memN x seen) eqn:Em; cbn [negb] in H; [inversion H; subst hs; cbn [List.length plus]; apply Hbase; assumption|].
    destruct (list_heads k s h (x :: seen) (slot f "tail")) as [r| |] eqn:Er; cbn [bind] in H; try discriminate. inversion H; subst hs.
    pose proof (head_not_array f Hh) as Ha.
    assert (Hgt : goodv (slot f "tail")) by (apply (slot_plain_kind x f ti "tail" Hx Hg Hf Ha); discriminate).
    assert (Hnd' : NoDup (x :: seen)) by (constructor; [apply memN_notIn; exact Em|exact Hnd]).
    assert (HT' : forall n, In n (x :: seen) -> Tf n) by (intros n [<-|Hn]; [exact Hx|exact (HT n Hn)]).
    pose proof (IH _ _ _ Er Hgt Hnd' HT') as K. cbn [List.length] in *. lia.
Qed.
Lemma cc_len : (List.length (returned wT) <= List.length (cc_fs cc))%nat.
Proof.
  pose proof (Permutation_length keys_perm) as K. rewrite app_length, !map_length in K. unfold returned. rewrite map_length. lia.
Qed.

Section Members.
Variables (o : oid) (f : fsobj) (ti : tinfo) (fd : fdecl).
Hypothesis Ho : Tf o.
Hypothesis Hg : hget h o = Some f.
Hypothesis Hf : sch_find s (o_type f) = Some ti.
Hypothesis Ha : is_array_name (o_type f) = false.
Hypothesis Hin : In fd (ti_feats ti).
Hypothesis Hinl : Xmi.inline_fd fd = true.

Lemma inline_facts : Xmi.kind_agreeb s fd = true /\ Xmi.is_coll_wkind (Xmi.wbranch s fd) = true /\ fd_name fd <> "sofa" /\
  is_primitive s (fd_range fd) = false /\
  (slot f (fd_name fd) <> VNone -> Xmi.value_inb s c fd (slot f (fd_name fd)) = true).
Proof.
  pose proof (feat_in o f ti fd Hg Hf Ha Hin) as Hfi. unfold Xmi.feat_inb in Hfi. cbv zeta in Hfi.
  apply andb_prop in Hfi. destruct Hfi as [Hfi Hval]. apply andb_prop in Hfi. destruct Hfi as [Hfi Hsd].
  apply andb_prop in Hfi. destruct Hfi as [_ Hka].
  assert (Hck : Xmi.is_coll_wkind (Xmi.wbranch s fd) = true) by (rewrite <- (XmiWf.kind_agree_inline s fd Hka); exact Hinl).
  split; [exact Hka|]. split; [exact Hck|]. split; [|split; [exact (kind_coll_nonprim fd Hka Hck)|]].
  - apply (XmiWf.sofa_decl_not_sofa s fd Hsd). destruct (Xmi.wbranch s fd); try exact I. discriminate Hck.
  - intros Hnn. destruct (slot f (fd_name fd)); try contradiction; apply andb_prop in Hval; exact (proj1 Hval).
Qed.

Lemma members_array a : is_array_name (fd_range fd) = true -> slot f (fd_name fd) = VRef a ->
  exists af l lw ia, hget h a = Some af /\ has_id a ia /\ Tf a /\ slot af "elements" = VList l /\
    has_feat s (o_type af) "elements" = true /\ Forall2 Re l lw /\ members_c s cc fd (CRef ia) = Ok lw.
Proof.
  intros Har Hv. destruct inline_facts as (Hka & Hck & Hns & Hnp & Hval).
  assert (Hnn : slot f (fd_name fd) <> VNone) by (rewrite Hv; discriminate). specialize (Hval Hnn). rewrite Hv in Hval.
  pose proof (Tv_slot o f ti _ Ho Hg Hf Ha a Hv) as Hta.
  destruct (J_canon a (or_introl Hta)) as (af & ia & cfa & Hga & Hia & Hca & Hlk).
  destruct (Tf_obj a Hta) as (_ & af' & _ & Hga' & _ & Hoka). rewrite Hga in Hga'. inversion Hga'; subst af'.
  destruct (okb_type af Hoka) as (tia & Hfa).
  assert (Hel : exists l0, slot af "elements" = VList l0).
  { pose proof (XmiDocOk.kind_agree_range s fd Hka) as Hr. unfold Xmi.value_inb in Hval.
    destruct (Xmi.wbranch s fd) eqn:Ew; try discriminate Hck.
    - unfold Xmi.value_okb in Hval. rewrite Ew in Hval. cbn [Xmi.elements_val] in Hval. rewrite Hga in Hval.
      destruct (slot af "elements"); try discriminate Hval. eexists; reflexivity.
    - rewrite Hr in Har. discriminate Har.
    - unfold Xmi.value_okb in Hval. rewrite Ew in Hval. cbn [Xmi.elements_val] in Hval. rewrite Hga in Hval.
      destruct (slot af "elements"); try discriminate Hval. eexists; reflexivity.
    - rewrite (XmiDocOk.prim_list_not_array _ Hr) in Har. discriminate Har.
    - rewrite Hga in Hval. apply andb_prop in Hval. destruct Hval as [_ Hval].
      destruct (slot af "elements"); try discriminate Hval. eexists; reflexivity.
    - rewrite Hr in Har. discriminate Har. }
  destruct Hel as (l0 & Hl0).
  assert (Haa : is_array_name (o_type af) = true).
  { destruct (is_array_name (o_type af)) eqn:Eaa; [reflexivity|exfalso].
    assert (Hp : "elements" <> "sofa") by discriminate.
    destruct (slot_plain_kind a af tia "elements" Hta Hga Hfa Eaa Hp) as [K|(y & K & _)]; rewrite Hl0 in K; discriminate K. }
  destruct (arr_canon a af (or_introl Hta) Hga Haa) as (l & lw & Hl & Hre & Hca').
  rewrite Hca in Hca'. inversion Hca'; subst cfa.
  exists af, l, lw, ia. split; [exact Hga|]. split; [exists af; split; assumption|]. split; [exact Hta|]. split; [exact Hl|].
  split; [exact (proj1 (has_feat_array _ _ Hfa Haa))|]. split; [exact Hre|].
  unfold members_c. rewrite Har. cbn [elements_c]. rewrite Hlk. reflexivity.
Qed.

Lemma members_list : is_array_name (fd_range fd) = false -> slot f (fd_name fd) <> VNone ->
  exists hs lw w, list_heads (S (List.length h)) s h [] (slot f (fd_name fd)) = Ok hs /\ cv_json c (slot f (fd_name fd)) = Ok w /\
    Forall2 Re hs lw /\ members_c s cc fd w = Ok lw.
Proof.
  intros Har Hnn. destruct inline_facts as (Hka & Hck & Hns & Hnp & Hval). specialize (Hval Hnn).
  assert (Hheads : exists hs, list_heads (S (List.length h)) s h [] (slot f (fd_name fd)) = Ok hs).
  { pose proof (XmiDocOk.kind_agree_range s fd Hka) as Hr. unfold Xmi.value_inb in Hval.
    assert (Hle : forall l, Xmi.list_elems_of s h (fd_range fd) (slot f (fd_name fd)) = Ok l ->
                  exists hs, list_heads (S (List.length h)) s h [] (slot f (fd_name fd)) = Ok hs).
    { intros l Hl. unfold Xmi.list_elems_of in Hl. destruct (is_list_name (fd_range fd)); [|discriminate].
      unfold Xmi.list_elems in Hl. exists l. apply collect_heads. exact Hl. }
    destruct (Xmi.wbranch s fd) eqn:Ew; try discriminate Hck.
    - rewrite Hr in Har. discriminate Har.
    - unfold Xmi.value_okb in Hval. rewrite Ew in Hval.
      destruct (Xmi.list_elems_of s h (fd_range fd) (slot f (fd_name fd))) as [l| |] eqn:El; try discriminate Hval. exact (Hle l eq_refl).
    - unfold is_array_name in Har. rewrite Hr in Har. discriminate Har.
    - unfold Xmi.value_okb in Hval. rewrite Ew in Hval.
      destruct (Xmi.list_elems_of s h (fd_range fd) (slot f (fd_name fd))) as [l| |] eqn:El; try discriminate Hval. exact (Hle l eq_refl).
    - rewrite Hr in Har. discriminate Har.
    - destruct (Xmi.list_elems_of s h (fd_range fd) (slot f (fd_name fd))) as [l| |] eqn:El; try discriminate Hval. exact (Hle l eq_refl). }
  destruct Hheads as (hs & Hhs).
  assert (Hgood : goodv (slot f (fd_name fd))) by (exact (slot_plain_kind o f ti _ Ho Hg Hf Ha Hns)).
  destruct (Re_total _ Hgood) as (w & Hw). destruct (Re_cv _ _ Hw) as (_ & Hcv & _).
  pose proof (heads_len _ _ _ _ Hhs Hgood (NoDup_nil _) (fun n (H : In n []) => match H with end)) as Hlen.
  pose proof cc_len as Hcl. cbn [List.length] in Hlen.
  destruct (heads_sim _ _ _ _ Hhs Hgood (fun n (H : In n []) => match H with end) (S (List.length (cc_fs cc))) w [] Hcv (Forall2_nil _) ltac:(lia))
    as (lw & Hlw & Hre).
  exists hs, lw, w. split; [exact Hhs|]. split; [exact Hcv|]. split; [exact Hre|]. unfold members_c. rewrite Har. exact Hlw.
Qed.
End Members.


(* ------------------------------------------------------------------------------------------------ successors on canonical content *)

Lemma canonJ_type o f cf : J o -> hget h o = Some f -> canon_fs s c f = Ok cf -> cf_type cf = o_type f.
Proof.
  intros HJ Hg Hc. destruct (J_obj o HJ) as (f' & _ & Hg' & _ & Hok). rewrite Hg in Hg'. inversion Hg'; subst f'.
  destruct (okb_type f Hok) as (ti & Hf). destruct (is_array_name (o_type f)) eqn:Ea.
  - destruct (arr_canon o f HJ Hg Ea) as (l & lw & _ & _ & Hc'). rewrite Hc in Hc'. inversion Hc'. reflexivity.
  - destruct (canonJ_struct f ti cf Hf Ea Hc) as (fv & _ & ->). reflexivity.
Qed.

Lemma feat_val_decl o f ti cf fd : hget h o = Some f -> sch_find s (o_type f) = Some ti -> is_array_name (o_type f) = false ->
  canon_fs s c f = Ok cf -> In fd (ti_feats ti) -> cv_json c (slot f (fd_name fd)) = Ok (feat_val cf (fd_xname fd)).
Proof.
  intros Hg Hf Ha Hc Hin. unfold feat_val. rewrite (canonJ_lookup o f ti cf _ Hg Hf Ha Hc).
  rewrite (xfind_unique _ fd (xnames_nodup o f ti Hg Hf) Hin).
  destruct (canonJ_struct f ti cf Hf Ha Hc) as (fv & Hm & _). destruct (mapM_In_l _ _ _ Hm fd Hin) as (b & _ & Eb).
  destruct (cv_json c (slot f (fd_name fd))) as [w| |]; cbn [bind] in Eb; try discriminate. reflexivity.
Qed.

Lemma inline_fdb_eq fd : inline_fdb fd = Xmi.inline_fd fd.
Proof. reflexivity. Qed.

Section Succ.
Variables (o : oid) (f : fsobj) (ti : tinfo) (cf : cfs).
Hypothesis Ho : Tf o.
Hypothesis Hg : hget h o = Some f.
Hypothesis Hf : sch_find s (o_type f) = Some ti.
Hypothesis Ha : is_array_name (o_type f) = false.
Hypothesis Hc : canon_fs s c f = Ok cf.

Lemma feat_step fd l' lacc : In fd (ti_feats ti) -> feat_cands false s h f fd = Ok l' ->
  exists lj, succ_step s cc cf (Ok lacc) fd = Ok (lacc ++ lj) /\ Forall2 has_id (refs_of l') lj.
Proof.
  intros Hin Hl'. unfold succ_step. cbn [bind]. unfold feat_cands in Hl'.
  pose proof (feat_val_decl o f ti cf fd Hg Hf Ha Hc Hin) as Hfv.
  destruct (slot_kinds o f ti fd Ho Hg Hf Ha Hin) as [Hn _ _|Hn _ Hp _|Hn _ Hp Hv].
  - apply String.eqb_eq in Hn. rewrite Hn in *. cbn [orb]. inversion Hl'; subst l'. exists []. rewrite app_nil_r. split; [reflexivity|constructor].
  - apply String.eqb_neq in Hn. rewrite Hn, Hp in *. cbn [orb]. inversion Hl'; subst l'. exists []. rewrite app_nil_r. split; [reflexivity|constructor].
  - apply String.eqb_neq in Hn. rewrite Hn, Hp in *. cbn [orb]. apply String.eqb_neq in Hn.
    destruct Hv as [Hv|(x & Hv & Hx)].
    + rewrite Hv in *. cbn [cv_json cv_atom] in Hfv. inversion Hfv as [E]. inversion Hl'; subst l'.
      exists []. rewrite app_nil_r. split; [reflexivity|constructor].
    + destruct (Tf_obj x Hx) as (ix & fx & _ & Hgx & Hix & _).
      rewrite Hv in Hfv, Hl'. cbn [cv_json cv_atom ref_id] in Hfv. rewrite Hgx, Hix in Hfv. cbn [bind] in Hfv. inversion Hfv as [E].
      rewrite XmiWf.inlined_inline in Hl'. rewrite inline_fdb_eq.
      destruct (Xmi.inline_fd fd) eqn:Ei.
      * destruct (String.eqb (fd_range fd) T_FS_ARRAY) eqn:Er.
        -- apply String.eqb_eq in Er. cbn [orb].
           assert (Har : is_array_name (fd_range fd) = true) by (rewrite Er; reflexivity).
           destruct (members_array o f ti fd Ho Hg Hf Ha Hin Ei x Har Hv) as (af & l & lw & ia & Hga & Hia & _ & Hl & Hhe & Hre & Hm).
           assert (ia = ix) by (apply (has_id_fun x); [exact Hia|exists fx; split; assumption]). subst ia.
           rewrite Hm. cbn [bind]. cbn [elements_of] in Hl'. rewrite Hga in Hl'. unfold own_elements in Hl'. rewrite Hhe, Hl in Hl'.
           inversion Hl'; subst l'. exists (crefs lw). split; [reflexivity|exact (Re_crefs _ _ Hre)].
        -- destruct (String.eqb (fd_range fd) T_FS_LIST) eqn:Er2; cbn [orb].
           ++ apply String.eqb_eq in Er2.
              assert (Har : is_array_name (fd_range fd) = false) by (rewrite Er2; reflexivity).
              assert (Hnn : slot f (fd_name fd) <> VNone) by (rewrite Hv; discriminate).
              destruct (members_list o f ti fd Ho Hg Hf Ha Hin Ei Har Hnn) as (hs & lw & w & Hhs & Hcv & Hre & Hm).
              rewrite Hv in Hhs, Hcv. cbn [cv_json cv_atom ref_id] in Hcv. rewrite Hgx, Hix in Hcv. cbn [bind] in Hcv. inversion Hcv; subst w.
              rewrite Hm. cbn [bind]. rewrite Hhs in Hl'. inversion Hl'; subst l'. exists (crefs lw). split; [reflexivity|exact (Re_crefs _ _ Hre)].
           ++ inversion Hl'; subst l'. exists []. rewrite app_nil_r. split; [reflexivity|constructor].
      * inversion Hl'; subst l'. exists [ix]. split; [reflexivity|]. cbn. constructor; [exists fx; split; assumption|constructor].
Qed.

Lemma succ_fold : forall feats cacc lacc lc, (forall fd, In fd feats -> In fd (ti_feats ti)) ->
  Forall2 has_id (refs_of cacc) lacc -> cands_fold false s h f feats (Ok cacc) = Ok lc ->
  exists l, fold_left (succ_step s cc cf) feats (Ok lacc) = Ok l /\ Forall2 has_id (refs_of lc) l.
Proof.
  induction feats as [|fd r IH]; intros cacc lacc lc Hsub Hacc H.
  - cbn in H. inversion H; subst lc. exists lacc. split; [reflexivity|exact Hacc].
  - rewrite cands_fold_cons in H. cbn [bind] in H.
    destruct (feat_cands false s h f fd) as [l'| |] eqn:E; cbn [bind] in H;
      [|rewrite cands_fold_err in H; discriminate|rewrite cands_fold_oof in H; discriminate].
    destruct (feat_step fd l' lacc (Hsub fd (or_introl eq_refl)) E) as (lj & Hj & Hrj).
    cbn [fold_left]. rewrite Hj. apply (IH (cacc ++ l') (lacc ++ lj) lc); [intros g Hg'; apply Hsub; right; exact Hg'| |exact H].
    rewrite refs_of_app. apply Forall2_app; assumption.
Qed.
End Succ.

(* succ_c of the id of a structure found lists the ids of its successors in the XMI traversal *)
Lemma succ_c_spec o f i : Tf o -> hget h o = Some f -> o_id f = Some i ->
  exists l, succ_c s cc i = Ok l /\ Forall2 has_id (succs false s h o) l.
Proof.
  intros Ho Hg Hi. destruct (J_canon o (or_introl Ho)) as (f' & i' & cf & Hg' & Hi' & Hc & Hlk).
  rewrite Hg in Hg'. inversion Hg'; subst f'. rewrite Hi in Hi'. inversion Hi'; subst i'.
  destruct (Tf_obj o Ho) as (_ & f' & _ & Hg2 & _ & Hok). rewrite Hg in Hg2. inversion Hg2; subst f'.
  destruct (okb_type f Hok) as (ti & Hf). pose proof (canonJ_type o f cf (or_introl Ho) Hg Hc) as Hty.
  destruct (ti_ok _ _ Hf) as [_ Hname].
  destruct (wf_obj false s h o f wf_heap_false Hg) as (lc & Hlc & _).
  unfold succs. rewrite Hg, Hlc. unfold obj_cands in Hlc. rewrite Hf, (array_type_agree _ _ Hf) in Hlc. cbn [bind] in Hlc.
  destruct (is_array_name (o_type f)) eqn:Ea.
  - destruct (arr_canon o f (or_introl Ho) Hg Ea) as (l & lw & Hl & Hre & Hc'). rewrite Hc in Hc'. inversion Hc'; subst cf.
    unfold succ_c. rewrite Hlk. cbn [cf_type feat_val cf_feats alookup]. rewrite Ea. rewrite Hname in Hlc.
    change (String.eqb "elements" "elements") with true. cbv iota.
    destruct (String.eqb (o_type f) T_FS_ARRAY).
    + unfold own_elements in Hlc. rewrite (proj1 (has_feat_array _ _ Hf Ea)), Hl in Hlc. inversion Hlc; subst lc.
      eexists. split; [reflexivity|exact (Re_crefs _ _ Hre)].
    + inversion Hlc; subst lc. exists []. split; [reflexivity|constructor].
  - rewrite <- Hty in Ea, Hf. rewrite (succ_c_unfold s cc i cf ti Hlk Ea Hf). rewrite Hty in Ea, Hf.
    fold (cands_fold false s h f (ti_feats ti) (Ok [])) in Hlc.
    exact (succ_fold o f ti cf Ho Hg Hf Ea Hc (ti_feats ti) [] [] lc (fun fd H => H) (Forall2_nil _) Hlc).
Qed.
Lemma succ_c_arr o i : In o (sofa_arrays c) -> has_id o i -> succ_c s cc i = Ok [].
Proof.
  intros Ho Hi. destruct (J_canon o (or_intror Ho)) as (f & i' & cf & Hg & Hi' & Hc & Hlk).
  assert (i' = i) by (apply (has_id_fun o); [exists f; split; assumption|exact Hi]). subst i'.
  destruct (arr_obj o Ho) as (f' & _ & Hg' & _ & Hty & _). rewrite Hg in Hg'. inversion Hg'; subst f'.
  assert (Ea : is_array_name (o_type f) = true) by (rewrite Hty; reflexivity).
  destruct (arr_canon o f (or_intror Ho) Hg Ea) as (l & lw & _ & _ & Hc'). rewrite Hc in Hc'. inversion Hc'; subst cf.
  unfold succ_c. rewrite Hlk. cbn [cf_type]. rewrite Ea, Hty. reflexivity.
Qed.


(* ------------------------------------------------------------------------------------------------ what the XMI writer lists *)

Definition arr_pairs : list (xid * oid) := map (fun o => (idz o, o)) (sofa_arrays c).
Definition allX : list (xid * oid) := w_all wF ++ arr_pairs.
Definition X (o : oid) : Prop := In o (returned wF) \/ In o (sofa_arrays c).

Lemma add_arrays_eq n : forall vs all, (forall v, In v vs -> In v (c_views c)) ->
  NoDup (flat_map (fun v => match s_arr (v_sofa v) with Some o => [o] | None => [] end) vs) ->
  (forall o, In o (flat_map (fun v => match s_arr (v_sofa v) with Some o => [o] | None => [] end) vs) -> ~ In o (map snd all)) ->
  Xmi.add_sofa_arrays vs h n all =
  Ok (h, n, all ++ map (fun o => (idz o, o)) (flat_map (fun v => match s_arr (v_sofa v) with Some o => [o] | None => [] end) vs)).
Proof.
  induction vs as [|v r IH]; intros all Hsub Hnd Hni; cbn [Xmi.add_sofa_arrays flat_map map].
  - rewrite app_nil_r. reflexivity.
  - cbn [flat_map] in Hnd, Hni. destruct (s_arr (v_sofa v)) as [o|] eqn:Ea.
    + cbn [app] in Hnd, Hni. inversion Hnd as [|? ? Hno Hnd']; subst.
      assert (Hm : memN o (map snd all) = false) by (apply memN_notIn; apply Hni; left; reflexivity). rewrite Hm.
      assert (Hoa : In o (sofa_arrays c)).
      { unfold sofa_arrays. apply in_flat_map. exists v. split; [apply Hsub; left; reflexivity|rewrite Ea; left; reflexivity]. }
      destruct (arr_obj o Hoa) as (f & i & Hg & Hi & _). rewrite Hg, Hi.
      rewrite (IH (all ++ [(i, o)])); [|intros v' Hv'; apply Hsub; right; exact Hv'|exact Hnd'|].
      * cbn [app map]. rewrite <- app_assoc. cbn [app]. unfold idz at 2. rewrite Hg, Hi. reflexivity.
      * intros o' Ho' Hin. rewrite map_app in Hin. apply in_app_or in Hin. destruct Hin as [Hin|[<-|[]]].
        -- exact (Hni o' (or_intror Ho') Hin).
        -- cbn [snd] in Ho'. contradiction.
    + cbn [app]. apply IH; [intros v' Hv'; apply Hsub; right; exact Hv'|exact Hnd|exact Hni].
Qed.

Lemma written_eq : Xmi.written s c = Ok (c, allX).
Proof.
  unfold Xmi.written. rewrite EF. cbn [bind]. destruct F_same as [Hh Hn]. rewrite Hh, Hn.
  rewrite (add_arrays_eq (c_next_id c) (c_views c) (w_all wF) (fun v H => H) arrs_nodup).
  - cbn [bind fst snd]. unfold allX, arr_pairs, sofa_arrays. destruct c. reflexivity.
  - intros o Ho Hin. fold (sofa_arrays c) in Ho. fold (returned wF) in Hin.
    destruct (arr_obj o Ho) as (f & i & Hg & Hi & _).
    apply (Tf_arr_disjoint o o i (F_sub o Hin) Ho); exists f; split; assumption.
Qed.

Lemma F_ids i o : In (i, o) (w_all wF) -> has_id o i.
Proof. intros Hin. destruct (ids_assigned _ _ _ _ _ EF') as (H1 & _). destruct (H1 i o Hin) as (f & A & B). rewrite (proj1 F_same) in A. exists f. split; assumption. Qed.
Lemma allX_spec i o : In (i, o) allX <-> X o /\ has_id o i.
Proof.
  unfold allX, X, arr_pairs. rewrite in_app_iff. split.
  - intros [H|H].
    + split; [left; apply returned_In; exists i; exact H|exact (F_ids i o H)].
    + apply in_map_iff in H. destruct H as (o' & E & Ho'). inversion E; subst o'. split; [right; exact Ho'|].
      destruct (arr_obj o Ho') as (f & j & A & B & _). unfold idz. rewrite A, B. exists f. split; assumption.
  - intros [[H|H] Hi].
    + left. apply returned_In in H. destruct H as (i' & H). rewrite (has_id_fun o i i' Hi (F_ids i' o H)). exact H.
    + right. apply in_map_iff. exists o. split; [|exact H]. rewrite (has_id_idz o i Hi). reflexivity.
Qed.
Lemma X_J o : X o -> J o.
Proof. intros [H|H]; [left; exact (F_sub o H)|right; exact H]. Qed.

(* ------------------------------------------------------------------------------------------------ the closure computed on canonical content *)

Definition seedsC : list xid :=
  flat_map cs_members (cc_sofas cc) ++ flat_map (fun cs => match cs_arr cs with Some a => [a] | None => [] end) (cc_sofas cc).
Definition Q (j : xid) : Prop := exists o, X o /\ has_id o j.

Lemma sofa_of_cc cs : In cs (cc_sofas cc) -> exists v, In v (c_views c) /\ canon_sofa c v = Ok cs.
Proof.
  destruct cc_parts as (fss & sofas & _ & Hs & ->). cbn [cc_sofas]. intros Hin.
  apply (Permutation_in _ (sort_by_is_perm cs_id sofas)) in Hin. destruct (mapM_In _ _ _ Hs cs Hin) as (v & Hv & E). exists v. split; assumption.
Qed.
Lemma sofa_in_cc v : In v (c_views c) -> exists cs, In cs (cc_sofas cc) /\ canon_sofa c v = Ok cs.
Proof.
  destruct cc_parts as (fss & sofas & _ & Hs & ->). cbn [cc_sofas]. intros Hin.
  destruct (mapM_In_l _ _ _ Hs v Hin) as (cs & Hcs & E). exists cs. split; [|exact E].
  apply (Permutation_in _ (Permutation_sym (sort_by_is_perm cs_id sofas))). exact Hcs.
Qed.
Lemma canon_sofa_parts v cs : canon_sofa c v = Ok cs ->
  exists arr ms, (match s_arr (v_sofa v) with None => Ok None | Some o => ref_id c (VRef o) end) = Ok arr /\
                 member_ids h (v_members v) = Ok ms /\ cs_arr cs = arr /\ cs_members cs = zsort ms.
Proof.
  unfold canon_sofa. cbv zeta. intros H.
  destruct (match s_arr (v_sofa v) with None => Ok None | Some o => ref_id c (VRef o) end) as [arr| |]; cbn [bind] in H; try discriminate.
  destruct (member_ids h (v_members v)) as [ms| |]; cbn [bind] in H; try discriminate. inversion H; subst cs. exists arr, ms. repeat split.
Qed.

Lemma seeds_Q j : In j seedsC -> Q j.
Proof.
  unfold seedsC. intros Hin. apply in_app_or in Hin. destruct Hin as [Hin|Hin]; apply in_flat_map in Hin; destruct Hin as (cs & Hcs & Hj);
    destruct (sofa_of_cc cs Hcs) as (v & Hv & Ec); destruct (canon_sofa_parts v cs Ec) as (arr & ms & Harr & Hms & Ea & Em).
  - rewrite Em in Hj. apply (proj1 (zsort_In _ _)) in Hj. destruct (member_ids_In _ _ _ _ Hms Hj) as (o & f & Ho & Hg & Hi).
    exists o. split; [|exists f; split; assumption]. left.
    assert (Hs : In o (member_seeds c)) by (unfold member_seeds; apply in_flat_map; exists v; split; assumption).
    destruct (find_all_contains_seeds _ _ _ _ _ EF' o Hs) as [H|H]; [exact H|destruct (no_nulls o H)].
  - rewrite Ea in Hj. destruct arr as [a|]; [|destruct Hj]. destruct Hj as [<-|[]].
    destruct (s_arr (v_sofa v)) as [o|] eqn:Eo; [|discriminate]. cbn [ref_id] in Harr. destruct (hget h o) as [f|] eqn:Hg; [|discriminate].
    inversion Harr as [Hi]. exists o. split; [|exists f; split; assumption]. right. unfold sofa_arrays. apply in_flat_map. exists v. split; [exact Hv|].
    rewrite Eo. left. reflexivity.
Qed.
Lemma member_seed o j : In o (member_seeds c) -> has_id o j -> In j seedsC.
Proof.
  intros Ho (f & Hg & Hi). unfold member_seeds in Ho. apply in_flat_map in Ho. destruct Ho as (v & Hv & Ho).
  destruct (sofa_in_cc v Hv) as (cs & Hcs & Ec). destruct (canon_sofa_parts v cs Ec) as (arr & ms & _ & Hms & _ & Em).
  unfold seedsC. apply in_or_app. left. apply in_flat_map. exists cs. split; [exact Hcs|]. rewrite Em. apply zsort_In.
  unfold member_ids in Hms. destruct (mapM_In_l _ _ _ Hms o Ho) as (b & Hb & Eb). rewrite Hg, Hi in Eb. inversion Eb; subst b. exact Hb.
Qed.
Lemma arr_seed o j : In o (sofa_arrays c) -> has_id o j -> In j seedsC.
Proof.
  intros Ho (f & Hg & Hi). unfold sofa_arrays in Ho. apply in_flat_map in Ho. destruct Ho as (v & Hv & Ho).
  destruct (s_arr (v_sofa v)) as [o'|] eqn:Eo; [|destruct Ho]. destruct Ho as [->|[]].
  destruct (sofa_in_cc v Hv) as (cs & Hcs & Ec). destruct (canon_sofa_parts v cs Ec) as (arr & ms & Harr & _ & Ea & _).
  rewrite Eo in Harr. cbn [ref_id] in Harr. rewrite Hg in Harr. inversion Harr as [Earr].
  unfold seedsC. apply in_or_app. right. apply in_flat_map. exists cs. split; [exact Hcs|]. rewrite Ea, <- Earr, Hi. left. reflexivity.
Qed.

Lemma Q_succ i : Q i -> exists l, succ_c s cc i = Ok l /\ forall j, In j l -> j <> 0 -> Q j.
Proof.
  intros (o & [Ho|Ho] & Hi).
  - destruct Hi as (f & Hg & Hi). destruct (succ_c_spec o f i (F_sub o Ho) Hg Hi) as (l & Hl & Hf2). exists l. split; [exact Hl|].
    intros j Hj _. destruct (Forall2_In_right _ _ _ j Hf2 Hj) as (x & Hx & Hxj). exists x. split; [|exact Hxj]. left.
    destruct (find_all_closed _ _ _ _ _ EF' o x Ho Hx) as [H|H]; [exact H|destruct (no_nulls x H)].
  - exists []. split; [exact (succ_c_arr o i Ho Hi)|intros j []].
Qed.
Lemma Q_key i : Q i -> In i (map fst (cc_fs cc)).
Proof.
  intros (o & Ho & Hi). destruct (J_canon o (X_J o Ho)) as (f & i' & cf & Hg & Hi' & _ & Hlk).
  assert (i' = i) by (apply (has_id_fun o); [exists f; split; assumption|exact Hi]). subst i'.
  unfold fs_lookup in Hlk. apply zlookup_In in Hlk. change i with (fst (i, cf)). apply in_map. exact Hlk.
Qed.

Lemma vis_exists : exists vis, reach_c (reach_fuel cc) s cc [] seedsC = Ok vis.
Proof.
  apply (reach_c_total Q).
  - intros i Hi. destruct (Q_succ i Hi) as (l & Hl & _). exists l. exact Hl.
  - intros i l Hi Hl. destruct (Q_succ i Hi) as (l' & Hl' & Hq). rewrite Hl in Hl'. inversion Hl'; subst l'. exact Hq.
  - exact Q_key.
  - constructor.
  - intros i [].
  - intros i Hi _. exact (seeds_Q i Hi).
  - unfold reach_fuel. cbn [List.length]. lia.
Qed.

Section Vis.
Variable vis : list xid.
Hypothesis Evis : reach_c (reach_fuel cc) s cc [] seedsC = Ok vis.

Lemma vis_sound i : In i vis -> Q i.
Proof.
  apply (reach_c_sound Q s cc) with (k := reach_fuel cc) (visited := []) (open := seedsC); try exact Evis.
  - intros j l Hj Hl. destruct (Q_succ j Hj) as (l' & Hl' & Hq). rewrite Hl in Hl'. inversion Hl'; subst l'. exact Hq.
  - intros j [].
  - intros j Hj _. exact (seeds_Q j Hj).
Qed.
Lemma vis_complete o i : X o -> has_id o i -> In i vis.
Proof.
  destruct (reach_c_closed s cc _ _ _ _ Evis) as (_ & Hseeds & Hexp).
  assert (Hseed : forall j, In j seedsC -> j <> 0 -> In j vis) by (intros j Hj Hj0; destruct (Hseeds j Hj) as [H|H]; [contradiction|exact H]).
  intros [Ho|Ho] Hi; [|exact (Hseed i (arr_seed o i Ho Hi) (id_nonzero o i Hi))].
  apply (find_all_exact _ _ _ _ _ EF') in Ho. destruct Ho as [Hr _]. revert i Hi.
  induction Hr as [o Ho|o x Hr IH _ Hx]; intros i Hi; [exact (Hseed i (member_seed o i Ho Hi) (id_nonzero o i Hi))|].
  destruct (Tf_obj o (reach_false_T o Hr)) as (io & f & _ & Hg & Hio & _).
  assert (Hido : has_id o io) by (exists f; split; assumption).
  destruct (Hexp io (IH io Hido)) as [[]|(l & Hl & Hcl)].
  destruct (succ_c_spec o f io (reach_false_T o Hr) Hg Hio) as (l' & Hl' & Hf2). rewrite Hl in Hl'. inversion Hl'; subst l'.
  destruct (Forall2_In_left _ _ _ x Hf2 Hx) as (j & Hj & Hxj). rewrite (has_id_fun x i j Hi Hxj).
  destruct (Hcl j Hj) as [H0|H]; [destruct (id_nonzero x j Hxj H0)|exact H].
Qed.
End Vis.


(* ------------------------------------------------------------------------------------------------ one structure in both views *)

Lemma Re_mapM_cvX l lw : Forall2 Re l lw -> XmiDoc.mapM (Xmi.cv c) l = Ok lw.
Proof. intros H. rewrite mapM_same. exact (Re_mapM_cv l lw H). Qed.

Section Feat.
Variables (o : oid) (f : fsobj) (ti : tinfo).
Hypothesis Ho : Tf o.
Hypothesis Hg : hget h o = Some f.
Hypothesis Hf : sch_find s (o_type f) = Some ti.
Hypothesis Ha : is_array_name (o_type f) = false.

Lemma feat_agree fd : In fd (ti_feats ti) ->
  exists wJ wX, cv_json c (slot f (fd_name fd)) = Ok wJ /\ inline_val s cc fd wJ = Ok wX /\
                Xmi.canon_feature s c f fd = Ok (fd_xname fd, wX).
Proof.
  intros Hin. pose proof (slot_kinds o f ti fd Ho Hg Hf Ha Hin) as Hk. unfold inline_val, Xmi.canon_feature. cbv zeta.
  rewrite inline_fdb_eq. destruct (Xmi.inline_fd fd) eqn:Ei.
  - destruct (inline_facts o f ti fd Hg Hf Ha Hin Ei) as (_ & _ & Hns & Hnp & _).
    destruct Hk as [Hn _ _|_ _ Hp _|_ _ _ [Hv|(x & Hv & Hx)]]; [contradiction|congruence| |].
    + rewrite Hv. exists CNull, CNull. repeat split.
    + destruct (Tf_obj x Hx) as (ix & fx & _ & Hgx & Hix & _).
      assert (Hcv : cv_json c (VRef x) = Ok (CRef ix)) by (cbn [cv_json cv_atom ref_id]; rewrite Hgx, Hix; reflexivity).
      destruct (is_array_name (fd_range fd)) eqn:Har.
      * destruct (members_array o f ti fd Ho Hg Hf Ha Hin Ei x Har Hv) as (af & l & lw & ia & Hga & Hia & _ & Hl & _ & Hre & Hm).
        assert (ia = ix) by (apply (has_id_fun x); [exact Hia|exists fx; split; assumption]). subst ia.
        rewrite Hv. exists (CRef ix), (CColl (fd_range fd) lw). split; [exact Hcv|]. rewrite Hm. cbn [bind]. split; [reflexivity|].
        cbn [Xmi.elements_val]. rewrite Hga. cbn [bind]. rewrite Hl, (Re_mapM_cvX l lw Hre). reflexivity.
      * assert (Hnn : slot f (fd_name fd) <> VNone) by (rewrite Hv; discriminate).
        destruct (members_list o f ti fd Ho Hg Hf Ha Hin Ei Har Hnn) as (hs & lw & w & Hhs & Hcw & Hre & Hm).
        rewrite Hv in *. rewrite Hcv in Hcw. inversion Hcw; subst w.
        exists (CRef ix), (CColl (fd_range fd) lw). split; [exact Hcv|]. rewrite Hm. cbn [bind]. split; [reflexivity|].
        rewrite Hhs. cbn [bind]. rewrite (Re_mapM_cvX hs lw Hre). reflexivity.
  - destruct (slot_cv fd _ Hk) as (w & HJ & HX & _). exists w, w. split; [exact HJ|]. split; [reflexivity|]. rewrite HX. reflexivity.
Qed.

Lemma struct_agree i cf : canon_fs s c f = Ok cf -> exists cfX, inline_fs s cc (i, cf) = Ok (i, cfX) /\ Xmi.canon_fs s c (i, o) = Ok (i, cfX).
Proof.
  intros Hc. destruct (canonJ_struct f ti cf Hf Ha Hc) as (fv & Hm & ->).
  pose (G := fun nv : fname * cval => match xfind (ti_feats ti) (fst nv) with
                                      | Some fd => do v <- inline_val s cc fd (snd nv) ;; Ok (fst nv, v)
                                      | None => Ok nv end).
  assert (Hrel : forall feats fvp, (forall fd, In fd feats -> In fd (ti_feats ti)) -> mapM (jfeat f) feats = Ok fvp ->
            exists fx, XmiDoc.mapM (Xmi.canon_feature s c f) feats = Ok fx /\ Forall2 (fun a b => fst a = fst b /\ G a = Ok b) fvp fx).
  { induction feats as [|fd r IH]; intros fvp Hsub Hmp; cbn [mapM] in Hmp.
    - inversion Hmp; subst fvp. exists []. split; [reflexivity|constructor].
    - destruct (feat_agree fd (Hsub fd (or_introl eq_refl))) as (wJ & wX & HJ & HI & HXf).
      rewrite HJ in Hmp. cbn [bind] in Hmp. destruct (mapM (jfeat f) r) as [fr| |] eqn:Er; cbn [bind] in Hmp; try discriminate.
      inversion Hmp; subst fvp. destruct (IH fr (fun g Hg' => Hsub g (or_intror Hg')) eq_refl) as (fx & Hfx & Hrel).
      exists ((fd_xname fd, wX) :: fx). cbn [XmiDoc.mapM]. rewrite HXf. cbn [bind]. rewrite Hfx. cbn [bind]. split; [reflexivity|].
      constructor; [|exact Hrel]. split; [reflexivity|]. unfold G. cbn [fst snd].
      rewrite (xfind_unique _ fd (xnames_nodup o f ti Hg Hf) (Hsub fd (or_introl eq_refl))). rewrite HI. reflexivity. }
  destruct (Hrel (ti_feats ti) fv (fun fd H => H) Hm) as (fx & Hfx & Hr).
  exists (mkCfs (o_type f) (Lex.sort_s fx)). split.
  - unfold inline_fs. cbn [snd fst cf_type cf_feats]. rewrite Ha, Hf.
    pose proof (Forall2_mapM G _ _ (Forall2_weaken _ _ _ _ (fun a b H => proj2 H) (RS_sort _ _ _ Hr))) as K.
    match goal with |- bind ?m _ = _ => replace m with (Ok (Lex.sort_s fx) : res (list (fname * cval))) by (symmetry; exact K) end. reflexivity.
  - unfold Xmi.canon_fs. cbn [snd fst]. rewrite Hg, Hf, Hfx. reflexivity.
Qed.
End Feat.

Lemma array_agree o f i : J o -> hget h o = Some f -> is_array_name (o_type f) = true ->
  exists cf, canon_fs s c f = Ok cf /\ inline_fs s cc (i, cf) = Ok (i, cf) /\ Xmi.canon_fs s c (i, o) = Ok (i, cf).
Proof.
  intros HJ Hg Ha. destruct (arr_canon o f HJ Hg Ha) as (l & lw & Hl & Hre & Hc). eexists. split; [exact Hc|]. split.
  - unfold inline_fs. cbn [snd cf_type]. rewrite Ha. reflexivity.
  - destruct (J_obj o HJ) as (f' & _ & Hg' & _ & Hok). rewrite Hg in Hg'. inversion Hg'; subst f'. destruct (okb_type f Hok) as (ti & Hf).
    destruct (array_feats _ ti Hf Ha) as (fd & Hfs & Hn & Hx & Hr).
    unfold Xmi.canon_fs. cbn [snd fst]. rewrite Hg, Hf, Hfs. cbn [XmiDoc.mapM]. unfold Xmi.canon_feature. cbv zeta.
    assert (Hi : Xmi.inline_fd fd = false) by (unfold Xmi.inline_fd; rewrite Hr; apply Bool.andb_false_r).
    rewrite Hi, Hn, Hx, Hl, XmiProofs.cv_list, (Re_mapM_cvX l lw Hre). reflexivity.
Qed.

Lemma obj_agree o i : X o -> has_id o i ->
  exists cf cfX, fs_lookup cc i = Some cf /\ inline_fs s cc (i, cf) = Ok (i, cfX) /\ Xmi.canon_fs s c (i, o) = Ok (i, cfX).
Proof.
  intros HX Hi. destruct (J_canon o (X_J o HX)) as (f & i' & cf & Hg & Hi' & Hc & Hlk).
  assert (i' = i) by (apply (has_id_fun o); [exists f; split; assumption|exact Hi]). subst i'.
  destruct (is_array_name (o_type f)) eqn:Ea.
  - destruct (array_agree o f i (X_J o HX) Hg Ea) as (cf' & Hc' & HI & HXf). rewrite Hc in Hc'. inversion Hc'; subst cf'.
    exists cf, cf. repeat split; assumption.
  - assert (Ho : Tf o).
    { destruct HX as [H|H]; [exact (F_sub o H)|]. destruct (arr_obj o H) as (f' & _ & Hg' & _ & Hty & _). rewrite Hg in Hg'. inversion Hg'; subst f'.
      rewrite Hty in Ea. discriminate Ea. }
    destruct (Tf_obj o Ho) as (_ & f' & _ & Hg' & _ & Hok). rewrite Hg in Hg'. inversion Hg'; subst f'. destruct (okb_type f Hok) as (ti & Hf).
    destruct (struct_agree o f ti Ho Hg Hf Ea i cf Hc) as (cfX & HI & HXf). exists cf, cfX. repeat split; assumption.
Qed.


(* ------------------------------------------------------------------------------------------------ assembly *)

Lemma canon_sofa_agree v cs : In v (c_views c) -> canon_sofa c v = Ok cs -> Xmi.canon_sofa c v = Ok cs.
Proof.
  intros Hv H. unfold canon_sofa in H. cbv zeta in H. unfold Xmi.canon_sofa. cbv zeta.
  destruct (match s_arr (v_sofa v) with None => Ok None | Some o => ref_id c (VRef o) end) as [arr| |] eqn:Harr; cbn [bind] in H; try discriminate.
  destruct (member_ids h (v_members v)) as [ms| |] eqn:Hms; cbn [bind] in H; try discriminate.
  assert (Hm : XmiDoc.mapM (Xmi.member_id h) (v_members v) = Ok ms).
  { rewrite mapM_same. apply Forall2_mapM. unfold member_ids in Hms. eapply Forall2_weaken; [|exact (mapM_Forall2 _ _ _ Hms)].
    intros a b Hab. cbv beta in Hab. unfold Xmi.member_id. destruct (hget h a) as [f|]; [|discriminate]. destruct (o_id f); [exact Hab|discriminate]. }
  rewrite Hm. cbn [bind].
  destruct (s_arr (v_sofa v)) as [o|] eqn:Eo.
  - assert (Hoa : In o (sofa_arrays c)) by (unfold sofa_arrays; apply in_flat_map; exists v; split; [exact Hv|rewrite Eo; left; reflexivity]).
    destruct (arr_obj o Hoa) as (f & i & Hg & Hi & _). cbn [ref_id] in Harr. rewrite Hg, Hi in Harr. inversion Harr; subst arr.
    unfold Xmi.ref_id. rewrite Hg, Hi. cbn [bind]. exact H.
  - inversion Harr; subst arr. cbn [bind]. exact H.
Qed.

Lemma arr_ids_eq : map idz (sofa_arrays c) = arr_ids.
Proof.
  unfold arr_ids. assert (E : forall l, (forall o, In o l -> In o (sofa_arrays c)) ->
      map idz l = flat_map (fun o => match hget h o with Some f => match o_id f with Some i => [i] | None => [] end | None => [] end) l).
  { induction l as [|o r IH]; intros Hl; [reflexivity|]. cbn [map flat_map].
    destruct (arr_obj o (Hl _ (or_introl eq_refl))) as (f & i & A & B & _). unfold idz at 1. rewrite A, B. cbn [app]. f_equal.
    apply IH. intros o' Ho'. apply Hl. right. exact Ho'. }
  exact (E _ (fun o H => H)).
Qed.
Lemma allX_keys_nodup : NoDup (map fst allX).
Proof.
  unfold allX, arr_pairs. rewrite map_app, map_map. cbn [fst]. apply XmiWf.NoDup_app_intro.
  - exact (proj1 (find_all_each_once _ _ _ _ _ EF')).
  - change (map (fun x : oid => idz x) (sofa_arrays c)) with (map idz (sofa_arrays c)). rewrite arr_ids_eq.
    exact (NoDup_app_right _ _ (NoDup_app_right _ _ ids_nodup)).
  - intros i Hi Hi'. apply in_map_iff in Hi. destruct Hi as ([i1 o] & E & Hin). cbn [fst] in E. subst i1.
    apply in_map_iff in Hi'. destruct Hi' as (o' & E' & Ho').
    destruct (arr_obj o' Ho') as (f' & j & A & B & _). assert (Hid' : has_id o' i) by (rewrite <- E'; unfold idz; rewrite A, B; exists f'; split; assumption).
    exact (Tf_arr_disjoint o o' i (F_sub o (proj2 (returned_In wF o) (ex_intro _ i Hin))) Ho' (F_ids i o Hin) Hid').
Qed.

Theorem inline_of_canon : inline_of s cc = Xmi.canon_xmi s c.
Proof.
  unfold Xmi.canon_xmi. rewrite written_eq. cbn [bind fst snd]. unfold Xmi.canon_of.
  destruct cc_parts as (fss & sofas & Hfss & Hsofas & Ecc).
  assert (HS : XmiDoc.mapM (Xmi.canon_sofa c) (c_views c) = Ok sofas).
  { rewrite mapM_same. apply Forall2_mapM.
    assert (G : forall vs sf, (forall v, In v vs -> In v (c_views c)) -> Forall2 (fun a b => canon_sofa c a = Ok b) vs sf ->
                Forall2 (fun a b => Xmi.canon_sofa c a = Ok b) vs sf).
    { intros vs sf Hsub. induction 1 as [|a b r r' Hab _ IH]; constructor.
      - apply canon_sofa_agree; [apply Hsub; left; reflexivity|exact Hab].
      - apply IH. intros v Hv. apply Hsub. right. exact Hv. }
    exact (G _ _ (fun v H => H) (mapM_Forall2 _ _ _ Hsofas)). }
  rewrite HS. cbn [bind].
  unfold inline_of. fold seedsC. destruct vis_exists as (vis & Evis). rewrite Evis. cbn [bind].
  (* the XMI writer's list *)
  assert (HX : exists fssX, Forall2 (fun io b => Xmi.canon_fs s c io = Ok b) (sort_ids allX) fssX).
  { apply Forall2_total. intros [i o] Hin. apply (proj1 (sort_ids_In _ _)) in Hin. apply (proj1 (allX_spec _ _)) in Hin. destruct Hin as [HXo Hi].
    destruct (obj_agree o i HXo Hi) as (cf & cfX & _ & _ & Hc). exists (i, cfX). exact Hc. }
  destruct HX as (fssX & HX).
  assert (HXm : XmiDoc.mapM (Xmi.canon_fs s c) (sort_ids allX) = Ok fssX) by exact (Forall2_mapM _ _ _ HX).
  rewrite HXm. cbn [bind].
  (* the inlined list *)
  assert (Hlook : forall i cf, In (i, cf) (cc_fs cc) -> fs_lookup cc i = Some cf).
  { intros i cf Hin. apply zlookup_nodup; [exact keys_nodup|exact Hin]. }
  assert (HI : exists fssI, Forall2 (fun a b => inline_fs s cc a = Ok b) (filter (fun p => zmem (fst p) vis) (cc_fs cc)) fssI).
  { apply Forall2_total. intros [i cf] Hin. apply (proj1 (filter_In _ _ _)) in Hin. destruct Hin as [Hin Hv]. cbn [fst] in Hv. apply (proj1 (zmem_In _ _)) in Hv.
    destruct (vis_sound vis Evis i Hv) as (o & HXo & Hi). destruct (obj_agree o i HXo Hi) as (cf0 & cfX & Hlk & HIf & _).
    rewrite (Hlook i cf Hin) in Hlk. inversion Hlk; subst cf0. exists (i, cfX). exact HIf. }
  destruct HI as (fssI & HI). rewrite (Forall2_mapM _ _ _ HI). cbn [bind]. f_equal. rewrite Ecc at 1. cbn [cc_sofas]. f_equal.
  (* both lists are sorted by id and have the same entries *)
  assert (HkI : Forall2 (fun a b => fst a = fst b) (filter (fun p => zmem (fst p) vis) (cc_fs cc)) fssI).
  { eapply Forall2_weaken; [|exact HI]. intros a b Hab. cbv beta in Hab. symmetry. exact (inline_fs_fst _ _ _ _ Hab). }
  assert (HkX : Forall2 (fun a b => fst a = fst b) (sort_ids allX) fssX).
  { eapply Forall2_weaken; [|exact HX]. intros a b Hab. cbv beta in Hab. symmetry. exact (XmiDocOk.canon_fs_fst _ _ _ _ Hab). }
  assert (HndI : NoDup (map fst fssI)).
  { refine (eq_ind _ (@NoDup _) _ _ (Forall2_map_eq fst fst _ _ HkI)). apply NoDup_filter_map. exact keys_nodup. }
  assert (HndX : NoDup (map fst fssX)).
  { refine (eq_ind _ (@NoDup _) _ _ (Forall2_map_eq fst fst _ _ HkX)).
    eapply Permutation_NoDup; [apply Permutation_map; apply Permutation_sym; apply sort_ids_is_perm|]. exact allX_keys_nodup. }
  transitivity (sort_by fst fssI).
  - symmetry. apply sort_by_of_sorted. apply (sorted_keys _ _ _ _ HkI). apply filter_sorted. rewrite Ecc. cbn [cc_fs]. apply sort_by_sorted.
  - apply sort_by_perm_eq; [|exact HndI]. apply NoDup_Permutation; [exact (NoDup_map_inv _ _ HndI)|exact (NoDup_map_inv _ _ HndX)|].
    intros [i' cfz]. split; intros Hin.
    + destruct (Forall2_In_right _ _ _ _ HI Hin) as ([i cf] & HP & Hab). cbv beta in Hab.
      pose proof (inline_fs_fst _ _ _ _ Hab) as Hk. cbn [fst] in Hk. subst i'.
      apply (proj1 (filter_In _ _ _)) in HP. destruct HP as [Hcc Hv]. cbn [fst] in Hv. apply (proj1 (zmem_In _ _)) in Hv.
      destruct (vis_sound vis Evis i Hv) as (o & HXo & Hi). destruct (obj_agree o i HXo Hi) as (cf0 & cfX & Hlk & HIf & HXf).
      rewrite (Hlook i cf Hcc) in Hlk. inversion Hlk; subst cf0. rewrite Hab in HIf. inversion HIf; subst cfz.
      assert (HL : In (i, o) (sort_ids allX)) by (apply sort_ids_In; apply allX_spec; split; assumption).
      destruct (Forall2_In_left _ _ _ _ HX HL) as (b & Hb & Hcb). cbv beta in Hcb. rewrite HXf in Hcb. inversion Hcb; subst b. exact Hb.
    + destruct (Forall2_In_right _ _ _ _ HX Hin) as ([i o] & HL & Hab). cbv beta in Hab.
      pose proof (XmiDocOk.canon_fs_fst _ _ _ _ Hab) as Hk. cbn [fst] in Hk. subst i'.
      apply (proj1 (sort_ids_In _ _)) in HL. apply (proj1 (allX_spec _ _)) in HL. destruct HL as [HXo Hi].
      destruct (obj_agree o i HXo Hi) as (cf & cfX & Hlk & HIf & HXf). rewrite Hab in HXf. inversion HXf; subst cfz.
      assert (HP : In (i, cf) (filter (fun p => zmem (fst p) vis) (cc_fs cc))).
      { apply filter_In. split; [unfold fs_lookup in Hlk; exact (zlookup_In _ _ _ Hlk)|]. cbn [fst]. apply zmem_In. exact (vis_complete vis Evis o i HXo Hi). }
      destruct (Forall2_In_left _ _ _ _ HI HP) as (b & Hb & Hcb). cbv beta in Hcb. rewrite HIf in Hcb. inversion Hcb; subst b. exact Hb.
Qed.


(* ------------------------------------------------------------------------------------------------ by-products *)

(* the JSON traversal, too, changes nothing: the CAS is what a save leaves behind *)
Lemma T_same : w_heap wT = h /\ w_next wT = c_next_id c.
Proof.
  pose proof ET' as H. unfold find_all_from, start in H.
  destruct (enqueue (mkW h (c_next_id c) [] [] []) (map VRef (member_seeds c))) as [w0| |] eqn:E0; cbn [bind] in H; try discriminate.
  destruct (start_Inv true s _ _ _ _ E0) as [I0 _].
  assert (Hid : forall o, reach true s h (member_seeds c) o -> exists f i, hget h o = Some f /\ o_id f = Some i).
  { intros o Hr. assert (Ho : Tf o) by (apply (find_all_exact _ _ _ _ _ ET'); split; [exact Hr|exact (no_nulls o)]).
    destruct (Tf_obj o Ho) as (i & f & _ & Hg & Hi & _). exists f, i. split; assumption. }
  destruct (run_same true h (c_next_id c) (member_seeds c) Hid _ _ _ _ I0 H) as [A B].
  destruct (enqueue_spec _ _ _ E0) as (add & Hext & _). unfold extends in Hext. subst w0. cbn in A, B. split; assumption.
Qed.

(* the JSON view exists *)
Lemma canon_fs_total o : J o -> exists f i cf, hget h o = Some f /\ o_id f = Some i /\ canon_fs s c f = Ok cf.
Proof.
  intros HJ. destruct (J_obj o HJ) as (f & i & Hg & Hi & Hok). exists f, i.
  destruct (is_array_name (o_type f)) eqn:Ea.
  - destruct (arr_canon o f HJ Hg Ea) as (l & lw & _ & _ & Hc). eexists. repeat split; eassumption.
  - assert (Ho : Tf o).
    { destruct HJ as [H|H]; [exact H|]. destruct (arr_obj o H) as (f' & _ & Hg' & _ & Hty & _). rewrite Hg in Hg'. inversion Hg'; subst f'.
      rewrite Hty in Ea. discriminate Ea. }
    destruct (okb_type f Hok) as (ti & Hf).
    destruct (mapM_totalJ (fun fd => do v <- cv_json c (slot f (fd_name fd)) ;; Ok (fd_xname fd, v)) (ti_feats ti)) as (fv & Hfv).
    { intros fd Hin. destruct (slot_cv fd _ (slot_kinds o f ti fd Ho Hg Hf Ea Hin)) as (w & Hw & _). rewrite Hw. eexists. reflexivity. }
    exists (mkCfs (o_type f) (sort_feats fv)). split; [exact Hg|]. split; [exact Hi|]. unfold canon_fs. cbv zeta. rewrite Hf, Ea, Hfv. reflexivity.
Qed.
Lemma canon_json_exists : exists j, canon_json s c = Ok j.
Proof.
  unfold canon_json. rewrite ET. cbn [bind]. unfold canon_of, listed.
  rewrite arrays_once_all, (unwritten_all (sort_ids (w_all wT)) (fun io Hio => proj1 (sort_ids_In io (w_all wT)) Hio)).
  change (fun o : oid => match hget h o with
                         | Some f => match o_id f with Some i => do cf <- canon_fs s c f ;; Ok (i, cf) | None => Err EValue end
                         | None => Err EAttribute end) with (canon_item s c).
  fold objsJ. destruct (mapM_totalJ (canon_item s c) objsJ) as (fss & Hfss).
  { intros o Ho. apply (proj1 (objsJ_J o)) in Ho. destruct (canon_fs_total o Ho) as (f & i & cf & Hg & Hi & Hc).
    unfold canon_item. rewrite Hg, Hi, Hc. eexists. reflexivity. }
  rewrite Hfss. cbn [bind]. destruct (mapM_totalJ (canon_sofa c) (c_views c)) as (sofas & Hs).
  { intros v Hv. unfold canon_sofa. cbv zeta.
    assert (Harr : exists arr, (match s_arr (v_sofa v) with None => Ok None | Some o => ref_id c (VRef o) end) = Ok arr).
    { destruct (s_arr (v_sofa v)) as [o|] eqn:Eo; [|eexists; reflexivity].
      assert (Hoa : In o (sofa_arrays c)) by (unfold sofa_arrays; apply in_flat_map; exists v; split; [exact Hv|rewrite Eo; left; reflexivity]).
      destruct (arr_obj o Hoa) as (f & i & Hg & _). cbn [ref_id]. rewrite Hg. eexists. reflexivity. }
    destruct Harr as (arr & Harr). rewrite Harr. cbn [bind].
    destruct (mapM_totalJ (fun o => match hget h o with
                                    | Some f => match o_id f with Some i => Ok i | None => Err EType end
                                    | None => Err EAttribute end) (v_members v)) as (ms & Hms).
    { intros o Ho. assert (Hs : In o (member_seeds c)) by (unfold member_seeds; apply in_flat_map; exists v; split; assumption).
      destruct (Tf_obj o (T_members o Hs)) as (i & f & _ & Hg & Hi & _). rewrite Hg, Hi. eexists. reflexivity. }
    unfold member_ids. rewrite Hms. cbn [bind]. eexists. reflexivity. }
  rewrite Hs. cbn [bind]. eexists. reflexivity.
Qed.


End Inline.

(* ------------------------------------------------------------------------------------------------ the theorem *)

Theorem inline_outline s c j : wf_convb s c = true -> canon_json s c = Ok j -> inline_of s j = Xmi.canon_xmi s c.
Proof.
  intros WF EJ.
  assert (HT : exists wT, find_all_fs true s c = Ok wT).
  { unfold canon_json in EJ. destruct (find_all_fs true s c) as [wT| |]; try discriminate. exists wT. reflexivity. }
  destruct HT as (wT & ET).
  assert (HF : exists wF, find_all_fs false s c = Ok wF).
  { pose proof WF as W. unfold wf_convb in W. andb_all.
    match goal with H : Xmi.wf_inb s c = true |- _ => pose proof (proj1 (XmiDocOk.wf_inb_parts s c H)) as Wc end.
    destruct (XmiWf.wf_casb_parts s c Wc) as (Hpos & Hwf & Hsl & Hids & _).
    rewrite find_all_fs_from. exact (find_all_ok false s c (member_seeds c) Hwf Hsl Hids). }
  destruct HF as (wF & EF).
  exact (inline_of_canon s c wT wF WF ET EF j EJ).
Qed.

(* totality of the JSON view and stability of the CAS under the JSON traversal, under the same premise *)
Theorem canon_json_total s c : wf_convb s c = true -> exists j, canon_json s c = Ok j.
Proof.
  intros WF. pose proof WF as W. unfold wf_convb in W. andb_all.
  assert (HT : exists wT, find_all_fs true s c = Ok wT).
  { match goal with H : wf_jsonb s c = true |- _ => unfold wf_jsonb in H; destruct (find_all_fs true s c) as [wT| |]; try discriminate H end.
    exists wT. reflexivity. }
  destruct HT as (wT & ET). exact (canon_json_exists s c wT WF ET).
Qed.
Theorem json_traversal_same s c w : wf_convb s c = true -> find_all_fs true s c = Ok w -> cas_after c w = c.
Proof.
  intros WF ET. destruct (T_same s c w WF ET) as [A B]. unfold cas_after. rewrite A, B. destruct c. reflexivity.
Qed.
Theorem inline_outline_total s c : wf_convb s c = true ->
  exists j x, canon_json s c = Ok j /\ Xmi.canon_xmi s c = Ok x /\ inline_of s j = Ok x.
Proof.
  intros WF. destruct (canon_json_total s c WF) as (j & EJ). pose proof (inline_outline s c j WF EJ) as H.
  pose proof WF as W. unfold wf_convb in W. andb_all.
  match goal with H : Xmi.wf_inb s c = true |- _ => pose proof (proj1 (XmiDocOk.wf_inb_parts s c H)) as Wc end.
  assert (HX : exists x, Xmi.canon_xmi s c = Ok x).
  { unfold Xmi.canon_xmi.
    assert (HF : exists wF, find_all_fs false s c = Ok wF).
    { destruct (XmiWf.wf_casb_parts s c Wc) as (Hpos & Hwf & Hsl & Hids & _). rewrite find_all_fs_from. exact (find_all_ok false s c (member_seeds c) Hwf Hsl Hids). }
    destruct HF as (wF & EF).
    assert (HT : exists wT, find_all_fs true s c = Ok wT).
    { unfold canon_json in EJ. destruct (find_all_fs true s c) as [wT| |]; try discriminate. exists wT. reflexivity. }
    destruct HT as (wT & ET). rewrite (written_eq s c wT wF WF ET EF j EJ). cbn [bind fst snd]. unfold Xmi.canon_of.
    destruct (XmiDocOk.mapM_total (Xmi.canon_sofa c) (c_views c)) as (sofas & Hs).
    { intros v Hv. destruct (sofa_in_cc s c wT WF ET j EJ v Hv) as (cs & _ & Hcs). exists cs. exact (canon_sofa_agree s c wT WF ET v cs Hv Hcs). }
    rewrite Hs. cbn [bind].
    destruct (XmiDocOk.mapM_total (Xmi.canon_fs s c) (sort_ids (allX c wF))) as (fss & Hf).
    { intros [i o] Hin. apply (proj1 (sort_ids_In _ _)) in Hin. apply (proj1 (allX_spec s c wT wF WF ET EF i o)) in Hin. destruct Hin as [HXo Hi].
      destruct (obj_agree s c wT wF WF ET EF j EJ o i HXo Hi) as (cf & cfX & _ & _ & Hc). exists (i, cfX). exact Hc. }
    rewrite Hf. cbn [bind]. eexists. reflexivity. }
  destruct HX as (x & EX). exists j, x. split; [exact EJ|]. split; [exact EX|]. rewrite H. exact EX.
Qed.
