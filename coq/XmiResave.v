(* XmiResave.v — the writer's document is a function of the canonical content: every element the writer produces for a
   feature structure is `encc_fs` of its canonical entry (and of the sofa texts, for offsets), every Sofa / View element is
   determined by its csofa entry.  Hence two well-formed CASes with the same canonical content (up to ""/null in string
   collections) write the same elements: the documents are permutations of each other (C01 xmi_resave_identical). *)
From Coq Require Import Ascii ZifyBool.
From Cassis Require Import Base Offsets OffsetsProofs.
From Cassis Require Import Heap Schema Canon Lex LexProofs Reach ReachProofs ReachSpec XmiDoc Xmi XmiProofs XmiWf XmiDocOk.
Open Scope Z_scope.

(* ---- association lists with distinct keys ---- *)
Lemma alookup_some_in {V} n (l : list (string * V)) v : alookup n l = Some v -> In (n, v) l.
Proof.
  induction l as [|[k w] r IH]; cbn [alookup]; [discriminate|]. destruct (String.eqb n k) eqn:E.
  - intros H. inversion H; subst. apply String.eqb_eq in E. subst. left. reflexivity.
  - intros H. right. apply IH. exact H.
Qed.
Lemma alookup_in {V} n (v : V) l : NoDup (map fst l) -> In (n, v) l -> alookup n l = Some v.
Proof.
  induction l as [|[k w] r IH]; intros ND Hi; [destruct Hi|]. cbn [map fst] in ND. inversion ND as [|? ? Hn ND']; subst.
  cbn [alookup]. destruct Hi as [E|Hi].
  - inversion E; subst. rewrite String.eqb_refl. reflexivity.
  - destruct (String.eqb n k) eqn:E; [|apply IH; assumption]. apply String.eqb_eq in E. subst k.
    exfalso. apply Hn. apply (in_map fst) in Hi. exact Hi.
Qed.
Lemma alookup_perm {V} (l l' : list (string * V)) n : NoDup (map fst l) -> Permutation l l' -> alookup n l' = alookup n l.
Proof.
  intros ND P. assert (NoDup (map fst l')) as ND' by (eapply Permutation_NoDup; [apply Permutation_map; exact P|exact ND]).
  destruct (alookup n l) as [v|] eqn:E.
  - apply alookup_in; [exact ND'|]. eapply Permutation_in; [exact P|]. apply alookup_some_in. exact E.
  - destruct (alookup n l') as [v'|] eqn:E'; [|reflexivity]. apply alookup_some_in in E'.
    apply (Permutation_in _ (Permutation_sym P)) in E'. rewrite (alookup_in n v' l ND E') in E. discriminate.
Qed.

Section Enc.
Variable fmt_flt : flt -> string.

(* ---- the encoder from canonical values ---- *)
Definition str_of (v : cval) : string := match v with CStr t => t | _ => "" end.
Definition id_of (v : cval) : string := match v with CRef j => z2s j | _ => "0" end.
Definition tok_of (v : cval) : string := match v with CInt z => z2s z | CBool b => b2s b | CFlt x => fmt_flt x | _ => "" end.
Definition byte_of (v : cval) : string := match v with CInt z => hex_byte z | _ => "" end.
Definition encc_coll (k : fkind) (n : string) (l : list cval) : contrib :=
  match k with
  | FStrColl => match l with [] => c_attr n "" | _ => c_kids n (map str_of l) end
  | FTokColl _ => c_attr n (join (map tok_of l))
  | FBytes => c_attr n (concat_s (map byte_of l))
  | FIdColl => c_attr n (join (map id_of l))
  | _ => c_none
  end.
(* offs = true: the value is an offset of an annotation, written in UTF-16 code units *)
Definition encc (s : schema) (conv : Z -> Z) (offs : bool) (fd : fdecl) (x : cval) : contrib :=
  let n := fd_xname fd in
  match x with
  | CNull => c_none
  | CColl _ l => encc_coll (fkind_of s fd) n l
  | CInt z => c_attr n (z2s (if offs then conv z else z))
  | CBool b => c_attr n (b2s b)
  | CFlt f => c_attr n (fmt_flt f)
  | CStr t => c_attr n t
  | CRef j => c_attr n (z2s j)
  end.

Lemma str_of_norm l : map str_of (map norm_str l) = map str_of l.
Proof.
  rewrite map_map. apply map_ext. intros v. destruct v; try reflexivity. cbn [norm_str]. destruct (String.eqb s ""%string) eqn:E; [|reflexivity].
  apply String.eqb_eq in E. subst. reflexivity.
Qed.
Lemma encc_norm s conv offs fd x : encc s conv offs fd (norm_feat s fd x) = encc s conv offs fd x.
Proof.
  unfold norm_feat. destruct (fkind_of s fd) eqn:K; try reflexivity. destruct x; try reflexivity.
  unfold encc. rewrite K. cbn [encc_coll]. rewrite str_of_norm. destruct l; reflexivity.
Qed.

Section Vals.
Variables (s : schema) (c : cas) (ids : list Z).
Hypothesis H0 : memZ 0 ids = false.

(* element lists: what the writer prints and what the canonical content keeps are related token by token *)
Lemma mapM_pair (enc : val -> res string) (P : val -> bool) (tk : cval -> string) l :
  (forall v, P v = true -> exists t y, enc v = Ok t /\ cv c v = Ok y /\ tk y = t) -> forallb P l = true ->
  exists ys, mapM enc l = Ok (map tk ys) /\ mapM (cv c) l = Ok ys.
Proof.
  intros HP. induction l as [|v r IH]; intros H; [exists []; split; reflexivity|].
  cbn [forallb] in H. apply andb_prop in H. destruct H as [Hv Hr]. destruct (HP v Hv) as (t & y & E1 & E2 & E3).
  destruct (IH Hr) as (ys & F1 & F2). exists (y :: ys). cbn [mapM map]. rewrite E1, E2, F1, F2, E3. split; reflexivity.
Qed.
Lemma pair_str v : str_or_none v = true -> exists t y, str_text v = Ok t /\ cv c v = Ok y /\ str_of y = t.
Proof. destruct v; try discriminate; intros _; eexists; eexists; repeat split. Qed.
Lemma pair_ref v : ref_okb (c_heap c) ids v = true -> exists t y, ser_ref (c_heap c) v = Ok t /\ cv c v = Ok y /\ id_of y = t.
Proof.
  destruct v; try discriminate; intros H.
  - exists "0"%string, CNull. repeat split.
  - cbn [ref_okb] in H. cbn [ser_ref cv]. unfold id_str, ref_id. destruct (hget (c_heap c) o) as [f|]; [|discriminate].
    destruct (o_id f) as [j|]; [|discriminate]. exists (z2s j), (CRef j). repeat split.
Qed.

Definition plain (fd : fdecl) (x : cval) : contrib := encc s (fun z => z) false fd x.

Lemma encc_strcoll fd v l ct x : fkind_of s fd = FStrColl -> forallb str_or_none l = true ->
  (match l with [] => Ok (c_attr (fd_xname fd) "") | _ => do ts <- mapM str_text l ;; Ok (c_kids (fd_xname fd) ts) end) = Ok ct ->
  (do l' <- mapM (cv c) l ;; Ok (CColl v l')) = Ok x -> ct = plain fd x.
Proof.
  intros K HV HE HC. destruct (mapM_pair str_text str_or_none str_of l pair_str HV) as (ys & E1 & E2).
  rewrite E2 in HC. cbn [bind] in HC. injection HC as <-. unfold plain, encc. rewrite K. cbn [encc_coll].
  destruct l as [|e l'].
  - injection HE as <-. cbn [mapM] in E2. injection E2 as <-. reflexivity.
  - rewrite E1 in HE. cbn [bind] in HE. injection HE as <-.
    destruct ys as [|y ys']; [cbn [mapM] in E2; destruct (cv c e); cbn [bind] in E2; try discriminate; destruct (mapM (cv c) l'); discriminate|].
    reflexivity.
Qed.
Lemma encc_idcoll fd v l ct x : fkind_of s fd = FIdColl -> forallb (ref_okb (c_heap c) ids) l = true ->
  (do ts <- mapM (ser_ref (c_heap c)) l ;; Ok (c_attr (fd_xname fd) (join ts))) = Ok ct ->
  (do l' <- mapM (cv c) l ;; Ok (CColl v l')) = Ok x -> ct = plain fd x.
Proof.
  intros K HV HE HC. destruct (mapM_pair (ser_ref (c_heap c)) _ id_of l pair_ref HV) as (ys & E1 & E2).
  rewrite E2 in HC. rewrite E1 in HE. cbn [bind] in *. injection HC as <-. injection HE as <-.
  unfold plain, encc. rewrite K. reflexivity.
Qed.

(* primitive arrays and lists *)
Lemma pair_int (enc : val -> res string) v : (forall z, enc (VInt z) = Ok (z2s z)) -> is_vint v = true ->
  exists t y, enc v = Ok t /\ cv c v = Ok y /\ tok_of y = t.
Proof. intros He. destruct v; try discriminate. intros _. exists (z2s z), (CInt z). repeat split. apply He. Qed.
Lemma pair_flt (enc : val -> res string) v : (forall z, enc (VFlt z) = Ok (fmt_flt z)) -> is_vflt v = true ->
  exists t y, enc v = Ok t /\ cv c v = Ok y /\ tok_of y = t.
Proof. intros He. destruct v; try discriminate. intros _. exists (fmt_flt x), (CFlt x). repeat split. apply He. Qed.
Lemma pair_bool (enc : val -> res string) v : (forall z, enc (VBool z) = Ok (b2s z)) -> is_vbool v = true ->
  exists t y, enc v = Ok t /\ cv c v = Ok y /\ tok_of y = t.
Proof. intros He. destruct v; try discriminate. intros _. exists (b2s b), (CBool b). repeat split. apply He. Qed.
Lemma pair_byte v : is_vbyte v = true ->
  exists t y, (match v with VInt x => Ok (hex_byte x) | _ => Err EType end) = Ok t /\ cv c v = Ok y /\ byte_of y = t.
Proof. destruct v; try discriminate. intros _. exists (hex_byte z), (CInt z). repeat split. Qed.

Lemma toks_attr fd k P (enc : val -> res string) (tk : cval -> string) (fin : list string -> string) v l a x :
  fkind_of s fd = k -> encc_coll k (fd_xname fd) = (fun l' => c_attr (fd_xname fd) (fin (map tk l'))) ->
  (forall e, P e = true -> exists t y, enc e = Ok t /\ cv c e = Ok y /\ tk y = t) -> forallb P l = true ->
  (do ts <- mapM enc l ;; Ok (fin ts)) = Ok a -> (do l' <- mapM (cv c) l ;; Ok (CColl v l')) = Ok x ->
  c_attr (fd_xname fd) a = plain fd x.
Proof.
  intros K EK HP HV HE HC. destruct (mapM_pair enc P tk l HP HV) as (ys & E1 & E2).
  rewrite E2 in HC. rewrite E1 in HE. cbn [bind] in *. injection HC as <-. injection HE as <-.
  unfold plain, encc. rewrite K, EK. reflexivity.
Qed.

Lemma encc_primarr fd v l a x : is_prim_array_name (fd_range fd) = true -> coll_kind (fd_range fd) = Some (fkind_of s fd) ->
  fkind_of s fd <> FStrColl ->
  forallb (prim_elem_okb (fd_range fd)) l = true -> ser_prim_array fmt_flt (fd_range fd) l = Ok a ->
  (do l' <- mapM (cv c) l ;; Ok (CColl v l')) = Ok x -> c_attr (fd_xname fd) a = plain fd x.
Proof.
  intros P CK NS HV HE HC. unfold is_prim_array_name in P. apply memb_In in P. cbn [prim_array_names In] in P.
  unfold ser_prim_array in HE.
  destruct P as [E|[E|[E|[E|[E|[E|[E|[E|[]]]]]]]]]; rewrite <- E in *; cbn [String.eqb Ascii.eqb Bool.eqb orb] in HE;
    cbv iota in HE; cbn in CK; injection CK as CK; symmetry in CK.
  - eapply (toks_attr fd _ is_vflt _ tok_of join); try eassumption; try reflexivity.
    intros e He. apply pair_flt; [reflexivity|exact He].
  - eapply (toks_attr fd _ is_vint _ tok_of join); try eassumption; try reflexivity.
    intros e He. apply pair_int; [reflexivity|exact He].
  - eapply (toks_attr fd _ is_vbool _ tok_of join); try eassumption; try reflexivity.
    intros e He. apply pair_bool; [reflexivity|exact He].
  - eapply (toks_attr fd _ is_vbyte _ byte_of concat_s); try eassumption; try reflexivity.
    intros e He. apply pair_byte. exact He.
  - eapply (toks_attr fd _ is_vint _ tok_of join); try eassumption; try reflexivity.
    intros e He. apply pair_int; [reflexivity|exact He].
  - eapply (toks_attr fd _ is_vint _ tok_of join); try eassumption; try reflexivity.
    intros e He. apply pair_int; [reflexivity|exact He].
  - eapply (toks_attr fd _ is_vflt _ tok_of join); try eassumption; try reflexivity.
    intros e He. apply pair_flt; [reflexivity|exact He].
  - contradiction NS.
Qed.
Lemma encc_primlist fd v l a x : fd_range fd = "uima.cas.IntegerList"%string \/ fd_range fd = "uima.cas.FloatList"%string ->
  (exists p, fkind_of s fd = FTokColl p) ->
  forallb (prim_elem_okb (fd_range fd)) l = true -> ser_prim_list fmt_flt l = Ok a ->
  (do l' <- mapM (cv c) l ;; Ok (CColl v l')) = Ok x -> c_attr (fd_xname fd) a = plain fd x.
Proof.
  intros R (p & K) HV HE HC. unfold ser_prim_list in HE. destruct R as [R|R]; rewrite R in HV.
  - eapply (toks_attr fd _ is_vint _ tok_of join); try eassumption; try reflexivity.
    intros e He. apply pair_int; [reflexivity|exact He].
  - eapply (toks_attr fd _ is_vflt _ tok_of join); try eassumption; try reflexivity.
    intros e He. apply pair_flt; [reflexivity|exact He].
Qed.

(* every branch of the writer: the contribution is the encoding of the canonical value *)
Lemma enc_value_encc fd v ct x : kind_agreeb s fd = true -> v <> VNone -> value_okb s c ids fd v = true ->
  enc_value fmt_flt s c (fd_xname fd) (fd_range fd) (wbranch s fd) v = Ok ct -> canon_val s c fd v = Ok x ->
  ct = plain fd x.
Proof.
  intros HA Hv HV HE HC. pose proof (kind_agree_inline s fd HA) as HI. pose proof (kind_agree_range s fd HA) as HR.
  assert (KK : match wbranch s fd with
               | WStrArr | WStrList => fkind_of s fd = FStrColl
               | WFsArr | WFsList => fkind_of s fd = FIdColl
               | WPrimArr => fkind_of s fd = FBytes \/ exists p, fkind_of s fd = FTokColl p
               | WPrimList => exists p, fkind_of s fd = FTokColl p
               | _ => True end).
  { unfold kind_agreeb in HA. apply andb_prop in HA. destruct HA as [_ HA].
    destruct (wbranch s fd); try exact I; destruct (fkind_of s fd) as [k| |k| | |]; try discriminate; eauto. }
  unfold value_okb in HV. unfold canon_val in HC. destruct (wbranch s fd) eqn:W; cbn [is_coll_wkind] in HI; rewrite HI in HC;
    try rewrite (match_not_none v _ _ Hv) in HC; cbn [enc_value] in HE.
  - (* string array *)
    rewrite HR in HC at 1. change (is_array_name T_STRING_ARRAY) with true in HC. cbv iota in HC.
    destruct (elements_val (c_heap c) v) as [[| | | | | |l|]| |] eqn:EV; try discriminate. cbn [bind] in HE, HC.
    apply (encc_strcoll fd (fd_range fd) l ct x KK HV); [|exact HC]. destruct l; exact HE.
  - (* string list *)
    rewrite HR in HC at 1. change (is_array_name T_STRING_LIST) with false in HC. cbv iota in HC.
    destruct (list_elems_of s (c_heap c) (fd_range fd) v) as [l| |] eqn:EL; try discriminate.
    destruct (list_elems_heads s c _ _ _ EL) as [_ EH]. rewrite EH in HC. cbn [bind] in HE, HC.
    apply (encc_strcoll fd (fd_range fd) l ct x KK HV); [|exact HC]. destruct l; exact HE.
  - (* primitive array *)
    assert (is_array_name (fd_range fd) = true) as IA by (unfold is_array_name; rewrite HR; reflexivity). rewrite IA in HC.
    destruct (elements_val (c_heap c) v) as [[| | | | | |l|]| |] eqn:EV; try discriminate. cbn [bind] in HE, HC.
    destruct (ser_prim_array fmt_flt (fd_range fd) l) as [a| |] eqn:SE; cbn [bind] in HE; try discriminate. injection HE as <-.
    apply (encc_primarr fd (fd_range fd) l a x HR); try assumption.
    + apply (fkind_coll s fd _ eq_refl). destruct KK as [K|[p K]]; [left; exact K|right; exists p; exact K].
    + destruct KK as [K|[p K]]; rewrite K; discriminate.
  - (* primitive list *)
    rewrite (prim_list_not_array _ HR) in HC.
    destruct (list_elems_of s (c_heap c) (fd_range fd) v) as [l| |] eqn:EL; try discriminate.
    destruct (list_elems_heads s c _ _ _ EL) as [_ EH]. rewrite EH in HC. cbn [bind] in HE, HC.
    destruct (ser_prim_list fmt_flt l) as [a| |] eqn:SE; cbn [bind] in HE; try discriminate. injection HE as <-.
    apply (encc_primlist fd (fd_range fd) l a x); try assumption.
    destruct KK as [p K]. pose proof (fkind_coll s fd _ eq_refl (or_intror (ex_intro _ p K))) as CK. rewrite K in CK.
    unfold is_prim_list_name in HR. apply memb_In in HR. cbn [prim_list_names In] in HR.
    destruct HR as [E|[E|[E|[]]]]; auto. rewrite <- E in CK. discriminate.
  - (* FSArray *)
    rewrite HR in HC at 1. change (is_array_name T_FS_ARRAY) with true in HC. cbv iota in HC.
    destruct (elements_val (c_heap c) v) as [[| | | | | |l|]| |] eqn:EV; try discriminate. cbn [bind] in HE, HC.
    apply (encc_idcoll fd (fd_range fd) l ct x KK HV HE HC).
  - (* FSList *)
    rewrite HR in HC at 1. change (is_array_name T_FS_LIST) with false in HC. cbv iota in HC.
    destruct (list_elems_of s (c_heap c) (fd_range fd) v) as [l| |] eqn:EL; try discriminate.
    destruct (list_elems_heads s c _ _ _ EL) as [_ EH]. rewrite EH in HC. cbn [bind] in HE, HC.
    apply (encc_idcoll fd (fd_range fd) l ct x KK HV HE HC).
  - destruct v; try discriminate. cbn [cv] in HC. destruct (sofa_of_view c n) as [so|]; [|discriminate].
    injection HE as <-. injection HC as <-. reflexivity.
  - destruct v; try discriminate. injection HE as <-. injection HC as <-. reflexivity.
  - destruct v; try discriminate. injection HE as <-. injection HC as <-. reflexivity.
  - destruct (fkind_of s fd) as [[| | |]| | | | |]; try discriminate; destruct v; try discriminate;
      injection HE as <-; injection HC as <-; reflexivity.
  - destruct v; try discriminate. destruct (pair_ref (VRef o) HV) as (t & y & E1 & E2 & E3).
    cbn [ser_ref] in E1. rewrite E1 in HE. rewrite E2 in HC. cbn [bind] in HE. injection HE as <-. injection HC as <-.
    cbn [cv] in E2. unfold ref_id in E2. destruct (hget (c_heap c) o) as [f|]; [|discriminate]. destruct (o_id f); [|discriminate].
    injection E2 as <-. cbn [id_of] in E3. subst t. reflexivity.
Qed.

(* one feature, offsets of annotations included *)
Definition offs_flag (tn : tname) (fd : fdecl) : bool :=
  isa s tn T_ANNOTATION && (String.eqb (fd_xname fd) "begin" || String.eqb (fd_xname fd) "end").
Definition conv_out_spec (f : fsobj) (conv : Z -> Z) : Prop :=
  forall vn so, slot f "sofa" = VSofa vn -> sofa_of_view c vn = Some so ->
    forall z, conv z = match s_text so with Some t => py2ext (mk_conv t) z | None => z end.
Lemma enc_feature_encc tn f fd ct nx conv :
  feat_okb s c ids tn f fd = true -> (isa s tn T_ANNOTATION = true -> conv_out_spec f conv) ->
  enc_feature fmt_flt s c tn f fd = Ok ct -> canon_feature s c f fd = Ok nx ->
  fst nx = fd_xname fd /\ ct = encc s conv (offs_flag tn fd) fd (snd nx).
Proof.
  intros HF HCv HE HC. unfold feat_okb in HF. apply andb_prop in HF. destruct HF as [HF HS].
  apply andb_prop in HF. destruct HF as [HN HA]. apply negb_true_iff in HN.
  unfold enc_feature in HE. rewrite HN in HE. cbv zeta in HE, HS. rewrite canon_feature_eq in HC.
  destruct (canon_val s c fd (slot f (fd_name fd))) as [x| |] eqn:CV; cbn [bind] in HC; try discriminate. injection HC as <-.
  cbn [fst snd]. split; [reflexivity|].
  destruct (val_eqb (slot f (fd_name fd)) VNone) eqn:EV.
  { assert (slot f (fd_name fd) = VNone) as E by (destruct (slot f (fd_name fd)); try discriminate; reflexivity).
    rewrite E in *. injection HE as <-. unfold canon_val in CV. destruct (inline_fd fd); injection CV as <-; reflexivity. }
  assert (slot f (fd_name fd) <> VNone) as Hv by (intros E; rewrite E in EV; discriminate).
  rewrite (match_not_none _ _ _ Hv) in HE. rewrite (match_not_none _ _ _ Hv) in HS.
  apply andb_prop in HS. destruct HS as [HV HO].
  unfold conv_out in HE. unfold offset_okb in HO. unfold offs_flag.
  destruct (isa s tn T_ANNOTATION && (String.eqb (fd_xname fd) "begin" || String.eqb (fd_xname fd) "end")) eqn:FL.
  - destruct (fkind_of s fd) as [k| |k| | |] eqn:K; try discriminate. destruct k; try discriminate.
    destruct (slot f (fd_name fd)) as [|z| | | | | |]; try discriminate.
    destruct (slot f "sofa") as [| | | | | | |vn] eqn:SS; try discriminate.
    destruct (sofa_of_view c vn) as [so|] eqn:SV; [|discriminate].
    assert (isa s tn T_ANNOTATION = true) as Hisa by (apply andb_prop in FL; apply FL).
    pose proof (HCv Hisa vn so SS SV z) as CVz.
    pose proof (kind_agree_inline s fd HA) as HI.
    unfold kind_agreeb in HA. rewrite K in HA. apply andb_prop in HA. destruct HA as [_ HA].
    destruct (wbranch s fd) eqn:W; try discriminate. cbn [is_coll_wkind] in HI.
    unfold canon_val in CV. rewrite HI in CV. cbn [cv] in CV. injection CV as <-.
    cbn [bind enc_value] in HE. unfold encc. rewrite CVz.
    destruct (s_text so); injection HE as <-; reflexivity.
  - cbn [bind] in HE. rewrite (enc_value_encc fd _ ct x HA Hv HV HE CV). unfold plain, encc. destruct x; reflexivity.
Qed.

(* ---- one element as a function of its canonical entry ---- *)
Definition cf_get (cf : cfs) (n : string) : cval := match alookup n (cf_feats cf) with Some x => x | None => CNull end.
Definition conv_canon (sofas : list csofa) (cf : cfs) : Z -> Z :=
  match cf_get cf "sofa" with
  | CRef sid => match find (fun cs => Z.eqb (cs_id cs) sid) sofas with
                | Some cs => match cs_text cs with Some t => py2ext (mk_conv t) | None => fun z => z end
                | None => fun z => z
                end
  | _ => fun z => z
  end.
Definition arr_contrib (tn : tname) (x : cval) : contrib :=
  match x with
  | CColl _ l =>
    if String.eqb tn T_STRING_ARRAY
    then (match l with [] => [("elements", "")] | _ => [] end, map (fun t => ("elements", t)) (map str_of l))
    else if String.eqb tn T_FS_ARRAY then ([("elements", join (map id_of l))], [])
    else if String.eqb tn "uima.cas.ByteArray" then ([("elements", concat_s (map byte_of l))], [])
    else ([("elements", join (map tok_of l))], [])
  | _ => ([], [])
  end.
Definition encc_fs (sofas : list csofa) (p : xid * cfs) : xelem :=
  let cf := snd p in
  let tn := cf_type cf in
  let nt := ns_of_type tn in
  if is_array_name tn then
    let a := arr_contrib tn (cf_get cf "elements") in mkX (fst nt) (snd nt) ((A_ID, z2s (fst p)) :: fst a) (snd a)
  else
    let conv := conv_canon sofas cf in
    let cs := map (fun fd => encc s conv (offs_flag tn fd) fd (cf_get cf (fd_xname fd))) (sch_feats s tn) in
    mkX (fst nt) (snd nt) ((A_ID, z2s (fst p)) :: flat_map fst cs) (flat_map snd cs).

Definition sofas_of (sofas : list csofa) : Prop :=
  forall v, In v (c_views c) ->
    exists cs, find (fun cs => Z.eqb (cs_id cs) (s_xid (v_sofa v))) sofas = Some cs /\ cs_text cs = s_text (v_sofa v).

Lemma Forall2_map_eq {A B} (F : A -> B) l l' : Forall2 (fun a b => b = F a) l l' -> l' = map F l.
Proof. induction 1 as [|a b l l' E HF IH]; [reflexivity|]. cbn [map]. rewrite E, IH. reflexivity. Qed.
Lemma ord_elem sofas i o f ti e i' cf :
  sofas_of sofas -> hget (c_heap c) o = Some f -> sch_find s (o_type f) = Some ti -> is_array_name (o_type f) = false ->
  fs_okb s c ids (i, o) = true ->
  enc_fs fmt_flt s c (fst (ns_of_type (o_type f))) i f = Ok e -> canon_fs s c (i, o) = Ok (i', cf) ->
  e = encc_fs sofas (i', norm_cfs s cf).
Proof.
  intros SO HG HS IA HO HE HC.
  unfold fs_okb in HO. cbn [snd fst] in HO. rewrite HG, HS, IA in HO.
  apply andb_prop in HO. destruct HO as [_ H]. apply andb_prop in H. destruct H as [H HF2]. apply andb_prop in H. destruct H as [HND HNI].
  apply andb_prop in HF2. destruct HF2 as [HFeat HAnn]. apply nodups_NoDup in HND.
  unfold enc_fs in HE. change (is_prim_array_name (o_type f) || String.eqb (o_type f) T_FS_ARRAY) with (is_array_name (o_type f)) in HE.
  rewrite IA, HS in HE.
  destruct (mapM (enc_feature fmt_flt s c (o_type f) f) (ti_feats ti)) as [cs| |] eqn:HM; cbn [bind] in HE; try discriminate.
  injection HE as <-.
  unfold canon_fs in HC. cbn [snd fst] in HC. rewrite HG, HS in HC.
  destruct (mapM (canon_feature s c f) (ti_feats ti)) as [fs| |] eqn:CM; cbn [bind] in HC; try discriminate.
  injection HC as <- <-.
  apply mapM_inv in HM. apply mapM_inv in CM.
  (* the canonical entries, by name *)
  assert (NC : cf_feats (norm_cfs s (mkCfs (o_type f) (sort_s fs))) = sort_s (map (normN s (ti_feats ti)) fs)).
  { unfold norm_cfs. cbn [cf_type cf_feats]. rewrite (not_array_not_str _ IA), IA. cbn [cf_feats].
    rewrite sort_s_map by (apply normN_fst). unfold sch_feats. rewrite HS. reflexivity. }
  assert (TN : cf_type (norm_cfs s (mkCfs (o_type f) (sort_s fs))) = o_type f).
  { unfold norm_cfs. cbn [cf_type]. rewrite (not_array_not_str _ IA), IA. reflexivity. }
  assert (KEYS0 : forall FE, map (fun x => fst (normN s FE x)) fs = map fd_xname (ti_feats ti)).
  { intros FE. clear - CM. induction CM as [|fd nv l l' E HF IH]; [reflexivity|]. cbn [map]. rewrite IH. f_equal.
    rewrite normN_fst. rewrite canon_feature_eq in E. destruct (canon_val s c fd (slot f (fd_name fd))); cbn [bind] in E; try discriminate.
    inversion E. reflexivity. }
  assert (KEYS : map fst (map (normN s (ti_feats ti)) fs) = map fd_xname (ti_feats ti)) by (rewrite map_map; apply KEYS0).
  assert (GET : forall fd nv, In fd (ti_feats ti) -> canon_feature s c f fd = Ok nv ->
            cf_get (norm_cfs s (mkCfs (o_type f) (sort_s fs))) (fd_xname fd) = norm_feat s fd (snd nv)).
  { intros fd nv Hfd E. unfold cf_get. rewrite NC.
    assert (NDK : NoDup (map fst (map (normN s (ti_feats ti)) fs))) by (rewrite KEYS; exact HND).
    rewrite (alookup_perm (map (normN s (ti_feats ti)) fs) (sort_s (map (normN s (ti_feats ti)) fs)) (fd_xname fd) NDK (Permutation_sym (sort_s_perm _))).
    assert (In nv fs) as Hnv.
    { clear - CM Hfd E. induction CM as [|fd0 nv0 l l' E0 HF IH]; [destruct Hfd|]. destruct Hfd as [->|Hfd].
      - rewrite E in E0. inversion E0. left. reflexivity.
      - right. apply IH. exact Hfd. }
    assert (fst nv = fd_xname fd) as En.
    { rewrite canon_feature_eq in E. destruct (canon_val s c fd (slot f (fd_name fd))); cbn [bind] in E; try discriminate. inversion E. reflexivity. }
    rewrite (alookup_in (fd_xname fd) (norm_feat s fd (snd nv)) (map (normN s (ti_feats ti)) fs) NDK); [reflexivity|].
    apply in_map_iff. exists nv. split; [|exact Hnv]. unfold normN. rewrite En, (find_self (ti_feats ti) fd HND Hfd). reflexivity. }
  (* the offset converter of the canonical entry is the one of the annotation's own sofa *)
  assert (CV : isa s (o_type f) T_ANNOTATION = true ->
               conv_out_spec f (conv_canon sofas (norm_cfs s (mkCfs (o_type f) (sort_s fs))))).
  { intros Hisa vn so SS SV z. rewrite Hisa in HAnn. apply existsb_exists in HAnn. destruct HAnn as (fd & Hfd & HP).
    apply andb_prop in HP. destruct HP as [HP HW]. apply andb_prop in HP. destruct HP as [HN HX].
    apply String.eqb_eq in HN. apply String.eqb_eq in HX.
    destruct (XmiProofs.Forall2_combine_in _ _ _ fd CM Hfd) as (nv & _ & E).
    pose proof (GET fd nv Hfd E) as G. rewrite HX in G.
    rewrite canon_feature_eq, HN, SS in E. unfold canon_val in E.
    pose proof (forallb_In _ _ _ HFeat Hfd) as FO. unfold feat_okb in FO. apply andb_prop in FO. destruct FO as [FO _].
    apply andb_prop in FO. destruct FO as [_ KA]. pose proof (kind_agree_inline s fd KA) as HI.
    destruct (wbranch s fd); try discriminate. cbn [is_coll_wkind] in HI. rewrite HI in E. cbn [cv] in E. rewrite SV in E.
    cbn [bind] in E. inversion E; subst nv. cbn [snd] in G.
    unfold conv_canon. rewrite G. unfold norm_feat. destruct (fkind_of s fd); cbv iota;
      (destruct (sofa_of_view_in c vn so SV) as (v & Hv & <-); destruct (SO v Hv) as (cs0 & Ef & Et); rewrite Ef, Et;
       destruct (s_text (v_sofa v)); reflexivity). }
  assert (CS : cs = map (fun fd => encc s (conv_canon sofas (norm_cfs s (mkCfs (o_type f) (sort_s fs)))) (offs_flag (o_type f) fd) fd
                                   (cf_get (norm_cfs s (mkCfs (o_type f) (sort_s fs))) (fd_xname fd))) (ti_feats ti)).
  { apply Forall2_map_eq. apply (Forall2_impl_in _ _ _ _ HM). intros fd ct Hfd E1.
    destruct (XmiProofs.Forall2_combine_in _ _ _ fd CM Hfd) as (nv & _ & E2).
    destruct (enc_feature_encc (o_type f) f fd ct nv _ (forallb_In _ _ _ HFeat Hfd) CV E1 E2) as [_ ->].
    rewrite (GET fd nv Hfd E2), encc_norm. reflexivity. }
  unfold encc_fs. cbn [fst snd]. rewrite TN, IA. unfold sch_feats. rewrite HS, <- CS. reflexivity.
Qed.

(* arrays stored as elements of their own *)
Lemma ser_prim_array_canon tn l a ys : is_prim_array_name tn = true -> tn <> T_STRING_ARRAY ->
  forallb (prim_elem_okb tn) l = true -> ser_prim_array fmt_flt tn l = Ok a -> mapM (cv c) l = Ok ys ->
  a = if String.eqb tn "uima.cas.ByteArray" then concat_s (map byte_of ys) else join (map tok_of ys).
Proof.
  intros P NS HV HE HC. unfold is_prim_array_name in P. apply memb_In in P. cbn [prim_array_names In] in P.
  unfold ser_prim_array in HE.
  assert (G : forall (Q : val -> bool) (enc : val -> res string) (tk : cval -> string) (fin : list string -> string),
            (forall e, Q e = true -> exists t y, enc e = Ok t /\ cv c e = Ok y /\ tk y = t) -> forallb Q l = true ->
            (do ts <- mapM enc l ;; Ok (fin ts)) = Ok a -> a = fin (map tk ys)).
  { intros Q enc tk fin HQ HQl HEa. destruct (mapM_pair enc Q tk l HQ HQl) as (ys' & E1 & E2).
    rewrite HC in E2. injection E2 as <-. rewrite E1 in HEa. cbn [bind] in HEa. injection HEa as <-. reflexivity. }
  destruct P as [E|[E|[E|[E|[E|[E|[E|[E|[]]]]]]]]]; rewrite <- E in *; cbn [String.eqb Ascii.eqb Bool.eqb orb] in HE |- *;
    cbv iota in HE |- *.
  - eapply (G is_vflt) with (tk := tok_of) (fin := join); [|exact HV|exact HE]; intros e He; apply pair_flt; [reflexivity|exact He].
  - eapply (G is_vint) with (tk := tok_of) (fin := join); [|exact HV|exact HE]; intros e He; apply pair_int; [reflexivity|exact He].
  - eapply (G is_vbool) with (tk := tok_of) (fin := join); [|exact HV|exact HE]; intros e He; apply pair_bool; [reflexivity|exact He].
  - eapply (G is_vbyte) with (tk := byte_of) (fin := concat_s); [|exact HV|exact HE]; intros e He; apply pair_byte; exact He.
  - eapply (G is_vint) with (tk := tok_of) (fin := join); [|exact HV|exact HE]; intros e He; apply pair_int; [reflexivity|exact He].
  - eapply (G is_vint) with (tk := tok_of) (fin := join); [|exact HV|exact HE]; intros e He; apply pair_int; [reflexivity|exact He].
  - eapply (G is_vflt) with (tk := tok_of) (fin := join); [|exact HV|exact HE]; intros e He; apply pair_flt; [reflexivity|exact He].
  - contradiction NS. reflexivity.
Qed.

Definition norm_coll' (v : cval) : cval := match v with CColl k l => CColl k (map norm_str l) | v => v end.
Lemma arr_contrib_norm tn x : arr_contrib tn (norm_coll' x) = arr_contrib tn x \/ String.eqb tn T_STRING_ARRAY = false.
Proof.
  destruct (String.eqb tn T_STRING_ARRAY) eqn:E; [left|right; reflexivity]. destruct x; try reflexivity.
  cbn [norm_coll' arr_contrib]. rewrite E, str_of_norm. destruct l; reflexivity.
Qed.

Lemma arr_elem sofas i o f ti e i' cf :
  hget (c_heap c) o = Some f -> sch_find s (o_type f) = Some ti -> is_array_name (o_type f) = true ->
  fs_okb s c ids (i, o) = true ->
  enc_fs fmt_flt s c (fst (ns_of_type (o_type f))) i f = Ok e -> canon_fs s c (i, o) = Ok (i', cf) ->
  e = encc_fs sofas (i', norm_cfs s cf).
Proof.
  intros HG HS IA HO HE HC.
  unfold fs_okb in HO. cbn [snd fst] in HO. rewrite HG, HS, IA in HO.
  apply andb_prop in HO. destruct HO as [_ H]. apply andb_prop in H. destruct H as [HNN H]. apply andb_prop in HNN. destruct HNN as [HND _].
  apply nodups_NoDup in HND.
  apply andb_prop in H. destruct H as [H HOth]. apply andb_prop in H. destruct H as [H HEl].
  apply andb_prop in H. destruct H as [H HIsa]. apply andb_prop in H. destruct H as [HFd HMem]. apply eqb_prop in HIsa.
  (* the canonical entry *)
  unfold canon_fs in HC. cbn [snd fst] in HC. rewrite HG, HS in HC.
  assert (exists X, cv c (slot f "elements") = Ok X /\
            mapM (canon_feature s c f) (ti_feats ti)
            = Ok (map (fun fd => (fd_xname fd, if String.eqb (fd_xname fd) "elements" then X else CNull)) (ti_feats ti))) as (X & CX & CM).
  { assert (exists X, cv c (slot f "elements") = Ok X) as (X & CX).
    { destruct (slot f "elements") as [| | | | | |l|]; try discriminate; [exists CNull; reflexivity|].
      rewrite cv_list. destruct (mapM_cv c ids l) as (l' & El & _); [|rewrite El; eexists; reflexivity].
      intros e0 He0. pose proof (forallb_In _ _ _ HEl He0) as P. unfold array_elem_okb in P.
      destruct (String.eqb (o_type f) T_STRING_ARRAY); [apply cv_simple; apply str_simple; exact P|].
      destruct (String.eqb (o_type f) T_FS_ARRAY); [apply cv_ref; exact P|apply cv_simple; eapply prim_simple; exact P]. }
    exists X. split; [exact CX|]. apply mapM_ok_map. intros fd Hfd. rewrite canon_feature_eq. unfold canon_val.
    pose proof (forallb_In _ _ _ HFd Hfd) as P. apply andb_prop in P. destruct P as [PN PI].
    apply String.eqb_eq in PN. apply negb_true_iff in PI. rewrite PI.
    pose proof (forallb_In _ _ _ HOth Hfd) as Q. cbv beta in Q.
    destruct (String.eqb (fd_xname fd) "elements") eqn:EE.
    - apply String.eqb_eq in EE. rewrite PN, EE, CX. reflexivity.
    - cbn [orb] in Q. destruct (slot f (fd_name fd)); try discriminate. reflexivity. }
  rewrite CM in HC. cbn [bind] in HC. injection HC as <- <-.
  set (fs := map (fun fd => (fd_xname fd, if String.eqb (fd_xname fd) "elements" then X else CNull)) (ti_feats ti)) in *.
  assert (KEYS : map fst fs = map fd_xname (ti_feats ti)) by (unfold fs; rewrite map_map; reflexivity).
  assert (NDK : NoDup (map fst fs)) by (rewrite KEYS; exact HND).
  assert (INX : In ("elements"%string, X) fs).
  { apply memb_In in HMem. apply in_map_iff in HMem. destruct HMem as (fd & E & Hfd). unfold fs. apply in_map_iff. exists fd.
    split; [|exact Hfd]. rewrite E. reflexivity. }
  assert (GET : cf_get (norm_cfs s (mkCfs (o_type f) (sort_s fs))) "elements"
                = if is_str_array (o_type f) then norm_coll' X else X).
  { unfold cf_get, norm_cfs. cbn [cf_type cf_feats]. destruct (is_str_array (o_type f)) eqn:SA; cbn [cf_feats].
    - rewrite (alookup_in "elements" (norm_coll' X)); [reflexivity| |].
      + rewrite map_map. cbn [fst]. change (map (fun x : string * cval => fst x) (sort_s fs)) with (map fst (sort_s fs)).
        eapply Permutation_NoDup; [apply Permutation_map; apply Permutation_sym; apply sort_s_perm|]. exact NDK.
      + apply in_map_iff. exists ("elements"%string, X). split; [destruct X; reflexivity|].
        eapply Permutation_in; [apply Permutation_sym; apply sort_s_perm|exact INX].
    - rewrite IA. cbn [cf_feats].
      rewrite (alookup_perm fs (sort_s fs) "elements" NDK (Permutation_sym (sort_s_perm fs))).
      rewrite (alookup_in "elements" X fs NDK INX). reflexivity. }
  assert (TN : cf_type (norm_cfs s (mkCfs (o_type f) (sort_s fs))) = o_type f).
  { unfold norm_cfs. cbn [cf_type]. destruct (is_str_array (o_type f)); [reflexivity|]. rewrite IA. reflexivity. }
  unfold encc_fs. cbn [fst snd]. rewrite TN, IA, GET.
  assert (AC : arr_contrib (o_type f) (if is_str_array (o_type f) then norm_coll' X else X) = arr_contrib (o_type f) X).
  { unfold is_str_array. destruct (arr_contrib_norm (o_type f) X) as [E|E]; [destruct (String.eqb (o_type f) T_STRING_ARRAY); [exact E|reflexivity]|].
    rewrite E. reflexivity. }
  rewrite AC. clear GET AC TN.
  (* the element *)
  unfold enc_fs in HE. change (is_prim_array_name (o_type f) || String.eqb (o_type f) T_FS_ARRAY) with (is_array_name (o_type f)) in HE.
  rewrite IA in HE.
  destruct (slot f "elements") as [| | | | | |l|] eqn:SE; try discriminate.
  - injection HE as <-. cbn [cv] in CX. injection CX as <-. reflexivity.
  - rewrite cv_list in CX. destruct (mapM (cv c) l) as [ys| |] eqn:EY; cbn [bind] in CX; try discriminate. injection CX as <-.
    rewrite HIsa in HE. cbn [arr_contrib]. destruct (String.eqb (o_type f) T_STRING_ARRAY) eqn:ES.
    + assert (forallb str_or_none l = true) as HV' by (rewrite <- HEl; apply forallb_ext_eq; intros x; unfold array_elem_okb; rewrite ES; reflexivity).
      destruct (mapM_pair str_text str_or_none str_of l pair_str HV') as (ys' & E1 & E2). rewrite EY in E2. injection E2 as <-.
      rewrite E1 in HE. cbn [bind] in HE. injection HE as <-. cbn [fst snd].
      destruct l as [|x0 l0].
      * cbn [mapM] in EY. injection EY as <-. reflexivity.
      * destruct ys as [|y0 ys0]; [cbn [mapM] in EY; destruct (cv c x0); cbn [bind] in EY; try discriminate; destruct (mapM (cv c) l0); discriminate|].
        reflexivity.
    + destruct (String.eqb (o_type f) T_FS_ARRAY) eqn:EF.
      * assert (forallb (ref_okb (c_heap c) ids) l = true) as HV' by (rewrite <- HEl; apply forallb_ext_eq; intros x; unfold array_elem_okb; rewrite ES, EF; reflexivity).
        destruct (mapM_pair (ser_ref (c_heap c)) _ id_of l pair_ref HV') as (ys' & E1 & E2). rewrite EY in E2. injection E2 as <-.
        rewrite E1 in HE. cbn [bind] in HE. injection HE as <-. reflexivity.
      * destruct (ser_prim_array fmt_flt (o_type f) l) as [a| |] eqn:SEr; cbn [bind] in HE; try discriminate. injection HE as <-.
        assert (is_prim_array_name (o_type f) = true) as HP by (unfold is_array_name in IA; rewrite EF, orb_false_r in IA; exact IA).
        assert (o_type f <> T_STRING_ARRAY) as NSA by (apply String.eqb_neq; exact ES).
        assert (forallb (prim_elem_okb (o_type f)) l = true) as HV'.
        { rewrite <- HEl. apply forallb_ext_eq. intros x. unfold array_elem_okb. rewrite ES, EF. reflexivity. }
        rewrite (ser_prim_array_canon (o_type f) l a ys HP NSA HV' SEr EY).
        destruct (String.eqb (o_type f) "uima.cas.ByteArray"); reflexivity.
Qed.

Lemma elem_encc sofas io e p : sofas_of sofas -> fs_okb s c ids io = true -> elem_of fmt_flt s c io e ->
  canon_fs s c io = Ok p -> e = encc_fs sofas (fst p, norm_cfs s (snd p)).
Proof.
  intros SO HO (f & HG & HE) HC. destruct io as [i o]. destruct p as [i' cf]. cbn [fst snd] in *.
  assert (exists ti, sch_find s (o_type f) = Some ti) as (ti & HS).
  { unfold fs_okb in HO. cbn [snd] in HO. rewrite HG in HO. destruct (sch_find s (o_type f)) as [ti|]; [eauto|].
    rewrite andb_false_r in HO. discriminate. }
  destruct (is_array_name (o_type f)) eqn:IA.
  - eapply arr_elem; eassumption.
  - eapply ord_elem; eassumption.
Qed.
End Vals.
End Enc.

(* ------------------------------------------------------------------------------------------------ the document as a function of the content *)
Definition encc_sofa (cs : csofa) : xelem :=
  mkX NS_CAS "Sofa" (sofa_attrs (z2s (cs_id cs)) (z2s (cs_num cs)) (cs_name cs) (cs_mime cs)
                                (option_map utf8_encode (cs_text cs)) (cs_uri cs) (option_map z2s (cs_arr cs))) [].
Definition encc_view (cs : csofa) : xelem :=
  mkX NS_CAS "View" [("sofa", z2s (cs_id cs)); ("members", join (map z2s (cs_members cs)))] [].
Definition doc_of_canon (fmt_flt : flt -> string) (s : schema) (cc : ccas) : xdoc :=
  (null_elem :: map (encc_fs fmt_flt s (cc_sofas cc)) (cc_fs cc) ++ map encc_sofa (cc_sofas cc) ++ map encc_view (cc_sofas cc))%list.

Lemma Forall2_shared {A B C} (R : A -> B -> Prop) (S : A -> C -> Prop) (T : B -> C -> Prop) l lb lc :
  Forall2 R l lb -> Forall2 S l lc -> (forall x y z, In x l -> R x y -> S x z -> T y z) -> Forall2 T lb lc.
Proof.
  intros H. revert lc. induction H as [|a b l lb Hab HF IH]; intros lc HS HT; inversion HS as [|? z ? lc' Haz HS']; subst; constructor.
  - apply (HT a b z); [left; reflexivity|exact Hab|exact Haz].
  - apply IH; [exact HS'|]. intros x y z0 Hx. apply HT. right. exact Hx.
Qed.
Lemma find_unique {A} (key : A -> Z) l x : NoDup (map key l) -> In x l -> find (fun y => Z.eqb (key y) (key x)) l = Some x.
Proof.
  induction l as [|y r IH]; intros ND Hi; [destruct Hi|]. cbn [map] in ND. inversion ND as [|? ? Hn ND']; subst.
  cbn [find]. destruct Hi as [->|Hi]; [rewrite Z.eqb_refl; reflexivity|].
  destruct (Z.eqb (key y) (key x)) eqn:E; [|apply IH; assumption]. apply Z.eqb_eq in E. exfalso. apply Hn. rewrite E. apply in_map. exact Hi.
Qed.

Section Doc.
Variable fmt_flt : flt -> string.
Variable parse_flt : string -> option flt.
Hypothesis flt_rt : forall x, parse_flt (fmt_flt x) = Some x.
Hypothesis flt_tok : forall x, tok_ok (fmt_flt x).
Variables (s : schema) (c : cas) (all : list (xid * oid)).
Hypothesis WF : wf_xmib s c all = true.
Local Notation ids := (map fst all).
Local Notation sids := (map (fun v => s_xid (v_sofa v)) (c_views c)).
Local Notation VL := (map (fun v => (s_xid (v_sofa v), zsort (msf c v))) (c_views c)).
Local Notation CS := (map (with_members VL) (map (g0 c) (c_views c))).

Lemma members_of_view v : NoDup sids -> In v (c_views c) -> members_of VL (s_xid (v_sofa v)) = zsort (msf c v).
Proof.
  intros NDS Hv. unfold members_of.
  pose proof (filter_views (V:=list Z) (fun w => zsort (msf c w)) (c_views c) v NDS Hv) as FV. cbv beta in FV.
  unfold xid in *. rewrite FV. cbn [flat_map snd]. rewrite app_nil_r, zsort_idem. reflexivity.
Qed.

(* the written document is, up to the order of its elements, the document of its own denotation *)
Theorem write_doc_canon d cc : write_doc fmt_flt s c all = Ok d -> denote_xmi parse_flt s d = Ok cc ->
  Permutation d (doc_of_canon fmt_flt s cc).
Proof.
  intros H DN. destruct (wf_parts s c all WF) as (Z1 & Z2 & ND & NDS & W3 & W4).
  destruct (write_doc_struct fmt_flt s c all WF d H) as (fss & ses & ves & Ed & F1 & F2 & F3 & F4 & E1 & S2 & V2).
  assert (forall vn so, sofa_of_view c vn = Some so -> s_xid so <> 0) as Hs0.
  { intros vn so SV E. destruct (sofa_of_view_in c vn so SV) as [v [Hv <-]].
    assert (In 0 sids) as Hi by (rewrite <- E; apply (in_map (fun v => s_xid (v_sofa v))); exact Hv).
    apply memZ_In in Hi. rewrite Hi in Z1. discriminate. }
  assert (forall io, In io (sort_ids all) -> fs_okb s c ids io = true) as OK4.
  { intros io Hi. apply sort_ids_in in Hi. apply (forallb_In _ _ _ W4 Hi). }
  assert (sofas_track (g0 c)) as HT by (intros v; split; reflexivity).
  pose proof (dec_all fmt_flt parse_flt flt_rt flt_tok s c ids Z2 Hs0 (g0 c) HT NDS (sort_ids all) fss E1 OK4) as DA.
  assert (doc_views d = Ok VL) as DV.
  { unfold doc_views. rewrite F2.
    apply (mapM_Forall2_ok dec_view (fun v => (s_xid (v_sofa v), zsort (msf c v))) (c_views c) ves).
    apply (Forall2_impl_in _ _ _ _ V2). tauto. }
  unfold denote_xmi in DN. rewrite DV in DN. unfold doc_sofas in DN. rewrite F1, F3 in DN.
  rewrite (mapM_Forall2_ok dec_sofa (g0 c) (c_views c) ses) in DN by (apply (Forall2_impl_in _ _ _ _ S2); tauto).
  cbn [bind] in DN. rewrite DA in DN.
  destruct (mapM (fun io => do x <- canon_fs s c io ;; Ok (fst x, norm_cfs s (snd x))) (sort_ids all)) as [FSS| |] eqn:EFS;
    cbn [bind] in DN; try discriminate.
  injection DN as <-. unfold doc_of_canon. cbn [cc_sofas cc_fs].
  set (SL := sort_by cs_id CS).
  assert (PSL : Permutation SL CS) by apply sort_by_perm.
  assert (NDC : NoDup (map cs_id CS)) by (rewrite !map_map; exact NDS).
  assert (SO : sofas_of c SL).
  { intros v Hv. exists (with_members VL (g0 c v)). split; [|reflexivity].
    change (s_xid (v_sofa v)) with (cs_id (with_members VL (g0 c v))).
    apply (find_unique cs_id).
    - eapply Permutation_NoDup; [apply Permutation_map; apply Permutation_sym; exact PSL|exact NDC].
    - eapply Permutation_in; [apply Permutation_sym; exact PSL|]. rewrite map_map. apply in_map_iff. exists v. split; [reflexivity|exact Hv]. }
  (* feature structure elements *)
  assert (EFSS : fss = map (encc_fs fmt_flt s SL) FSS).
  { apply Forall2_map_eq. apply mapM_inv in EFS.
    apply (Forall2_shared _ _ _ _ _ _ EFS E1). intros io p e Hio Hp He.
    destruct (canon_fs s c io) as [p0| |] eqn:EC; cbn [bind] in Hp; try discriminate. injection Hp as <-.
    apply (elem_encc fmt_flt s c ids SL io e p0 SO (OK4 io Hio) He EC). }
  (* sofa and view elements *)
  assert (ESES : ses = map encc_sofa CS).
  { rewrite !map_map. apply Forall2_map_eq. apply (Forall2_impl_in _ _ _ _ S2). intros v e Hv [HE _].
    pose proof (forallb_In _ _ _ W3 Hv) as VO. unfold view_okb in VO. apply andb_prop in VO. destruct VO as [VO _].
    apply andb_prop in VO. destruct VO as [VA _].
    unfold enc_sofa in HE. unfold encc_sofa. cbn [with_members g0 cs_id cs_num cs_name cs_mime cs_text cs_uri cs_arr]. unfold arr_id.
    destruct (s_arr (v_sofa v)) as [o|].
    - cbn [ref_okb] in VA. unfold id_str in HE. destruct (hget (c_heap c) o) as [f|]; [|discriminate].
      destruct (o_id f) as [j|]; [|discriminate]. cbn [bind] in HE. injection HE as <-. reflexivity.
    - cbn [bind] in HE. injection HE as <-. reflexivity. }
  assert (EVES : ves = map encc_view CS).
  { rewrite !map_map. apply Forall2_map_eq. apply (Forall2_impl_in _ _ _ _ V2). intros v e Hv [HE _].
    unfold enc_view in HE. rewrite (members_ok c ids v (forallb_In _ _ _ W3 Hv)) in HE. cbn [bind] in HE. injection HE as <-.
    unfold encc_view. cbn [with_members cs_id cs_members g0]. rewrite (members_of_view v NDS Hv). reflexivity. }
  rewrite Ed, EFSS, ESES, EVES. apply perm_skip. fold SL.
  apply Permutation_app; [|apply Permutation_app].
  - apply Permutation_map. apply Permutation_sym. apply sort_by_perm.
  - apply Permutation_map. apply Permutation_sym. exact PSL.
  - apply Permutation_map. apply Permutation_sym. exact PSL.
Qed.
End Doc.

(* ------------------------------------------------------------------------------------------------ re-save *)
Section Resave.
Variable fmt_flt : flt -> string.
Variable parse_flt : string -> option flt.
Hypothesis flt_rt : forall x, parse_flt (fmt_flt x) = Some x.
Hypothesis flt_tok : forall x, tok_ok (fmt_flt x).

(* the document saved for a well-formed CAS is, up to element order, the document of its (normalised) canonical content *)
Theorem save_xmi_canon s c d c' cc : wf_inb s c = true -> save_xmi fmt_flt s c = Ok (d, c') ->
  (do x <- canon_xmi s c ;; Ok (norm_xmi s x)) = Ok cc -> Permutation d (doc_of_canon fmt_flt s cc).
Proof.
  intros WI HS HC. destruct (wf_inb_parts s c WI) as [WC _].
  destruct (save_xmi_split fmt_flt s c d c' HS) as (all & HW & HD).
  pose proof (wf_written s c c' all WC HW) as WX.
  apply (write_doc_canon fmt_flt parse_flt flt_rt flt_tok s c' all WX d cc HD).
  rewrite (denote_save_xmi_wf fmt_flt parse_flt flt_rt flt_tok s c d c' WC HS). exact HC.
Qed.

(* C01 xmi_resave_identical: two well-formed CASes with the same canonical content (up to ""/null inside string arrays and
   lists) are saved to the same elements — same namespaces, tags, attributes in the same order, child elements in the same
   order; only the order of the elements in the document may differ *)
Theorem xmi_resave_identical s ca cb da db ca' cb' cc :
  wf_inb s ca = true -> wf_inb s cb = true ->
  (do x <- canon_xmi s ca ;; Ok (norm_xmi s x)) = Ok cc -> (do x <- canon_xmi s cb ;; Ok (norm_xmi s x)) = Ok cc ->
  save_xmi fmt_flt s ca = Ok (da, ca') -> save_xmi fmt_flt s cb = Ok (db, cb') ->
  Permutation da db.
Proof.
  intros WA WB CA CB SA SB.
  apply perm_trans with (doc_of_canon fmt_flt s cc); [exact (save_xmi_canon s ca da ca' cc WA SA CA)|].
  apply Permutation_sym. exact (save_xmi_canon s cb db cb' cc WB SB CB).
Qed.
Lemma doc_ok_denote s d : doc_ok_xmi parse_flt s d = true -> exists cc, denote_xmi parse_flt s d = Ok cc.
Proof.
  unfold doc_ok_xmi. destruct (mapM x_id (filter is_null d)); try discriminate. destruct (doc_views d); try discriminate.
  destruct (denote_xmi parse_flt s d) as [cc| |]; try discriminate. intros _. exists cc. reflexivity.
Qed.
(* the same, stated over the equality of the canonical contents only (their definedness follows from C04_doc_ok) *)
Theorem xmi_resave_identical_eq s ca cb da db ca' cb' :
  wf_inb s ca = true -> wf_inb s cb = true ->
  (do x <- canon_xmi s ca ;; Ok (norm_xmi s x)) = (do x <- canon_xmi s cb ;; Ok (norm_xmi s x)) ->
  save_xmi fmt_flt s ca = Ok (da, ca') -> save_xmi fmt_flt s cb = Ok (db, cb') ->
  Permutation da db.
Proof.
  intros WA WB E SA SB.
  destruct (doc_ok_denote s da (doc_ok_save_xmi fmt_flt parse_flt flt_rt flt_tok s ca da ca' WA SA)) as (cc & DN).
  rewrite (denote_save_xmi_wf fmt_flt parse_flt flt_rt flt_tok s ca da ca' (proj1 (wf_inb_parts s ca WA)) SA) in DN.
  apply (xmi_resave_identical s ca cb da db ca' cb' cc WA WB DN); [rewrite <- E; exact DN|exact SA|exact SB].
Qed.
End Resave.
