(* Bridge.v — from the hierarchical model of a type system (TS.v: types with supertype, children, own and inherited
   feature tables; C10/C11) to the flattened view that every heap-level model takes as its `schema` (Schema.v: per type
   the ancestor chain ti_anc and the effective features ti_feats in Type.all_features order), and to the `types`
   argument of the index models (Index.select_covered_view / select_covering_view: the names of type_.descendants).
   Definitions only; BridgeProofs.v proves, for every well-formed type system (hence, by C10/C11's reachable_WF, for
   every type system any history can reach), that the flattened view answers like the type system it came from.

   On the Python side the heap-level checks compute their schema independently (harness/scen.schema_of); the C11
   correspondence compares, inside Coq, `flatten` of the model's final state with that computation (CorrC11.v). *)
From Cassis Require Import Base TS Schema.

(* f.name[:-1] *)
Fixpoint drop_last (s : string) : string :=
  match s with
  | EmptyString => EmptyString
  | String c r => match r with EmptyString => EmptyString | String _ _ => String c (drop_last r) end
  end.
(* the name of a feature in documents: create_feature renames self / type to self_ / type_ and sets _has_reserved_name;
   the serialisers strip the underscore again *)
Definition xname_of (f : feat) : fname := if f_reserved f then drop_last (f_name f) else f_name f.
(* bool(feature.multipleReferencesAllowed) *)
Definition multi_bool (f : feat) : bool := match f_multi f with Some true => true | _ => false end.

Definition fdecl_of (f : feat) : fdecl := mkFd (f_name f) (xname_of f) (f_range f) (f_elem f) (multi_bool f).

(* the ancestor chain of a registered type: itself, its supertype, ..., uima.cas.TOP.  The walk is TS.ancestors on the
   fuel S (t_rank t); under WFh that fuel is never exhausted (BridgeProofs.flatten_anc_chain: the chain ends in TOP). *)
Definition anc_chain (ts : tsys) (t : ty) : list tname := t_name t :: ancestors_of ts t.
Definition tinfo_of (ts : tsys) (t : ty) : tinfo := mkTi (t_name t) (anc_chain ts t) (map fdecl_of (all_features t)).

(* one entry per registered type, in registration order *)
Definition flatten (ts : tsys) : schema := map (tinfo_of ts) ts.
(* the part of the flattened view that a case mentions *)
Definition flatten_on (ts : tsys) (names : list tname) : schema :=
  flat_map (fun n => match find_ty ts n with Some t => [tinfo_of ts t] | None => [] end) names.

(* {c.name for c in type_.descendants} as Cas._get_feature_structures_in_range builds it (in the order of the walk; the
   code iterates a set: BridgeProofs speaks about every duplicate-free arrangement of these names) *)
Definition desc_names (ts : tsys) (T : tname) : list tname :=
  match descendants (desc_fuel ts) ts T with Some l => l | None => [] end.

(* ---- boolean comparison of schemas (used by the correspondence, CorrC11.v) ---- *)
Definition ostring_eqb (a b : option string) : bool :=
  match a, b with None, None => true | Some x, Some y => String.eqb x y | _, _ => false end.
Definition fdecl_eqb (a b : fdecl) : bool :=
  String.eqb (fd_name a) (fd_name b) && String.eqb (fd_xname a) (fd_xname b) && String.eqb (fd_range a) (fd_range b)
  && ostring_eqb (fd_elem a) (fd_elem b) && Bool.eqb (fd_multi a) (fd_multi b).
Definition tinfo_eqb (a b : tinfo) : bool :=
  String.eqb (ti_name a) (ti_name b) && list_eqb String.eqb (ti_anc a) (ti_anc b) && list_eqb fdecl_eqb (ti_feats a) (ti_feats b).
Definition schema_eqb (a b : schema) : bool := list_eqb tinfo_eqb a b.
(* the same, with the effective features compared as a set (for histories whose feature ORDER scen.schema_of does not claim) *)
Definition fdecl_set_eqb (a b : list fdecl) : bool :=
  Nat.eqb (List.length a) (List.length b)
  && forallb (fun x => existsb (fdecl_eqb x) b) a && forallb (fun x => existsb (fdecl_eqb x) a) b.
Definition tinfo_eqb_unordered (a b : tinfo) : bool :=
  String.eqb (ti_name a) (ti_name b) && list_eqb String.eqb (ti_anc a) (ti_anc b) && fdecl_set_eqb (ti_feats a) (ti_feats b).
Definition schema_eqb_unordered (a b : schema) : bool := list_eqb tinfo_eqb_unordered a b.
