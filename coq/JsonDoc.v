(* JsonDoc.v — abstract JSON values and the declarative reading of a JSON-CAS document (UIMA JSON CAS 0.4.0 as
   cassis/json.py speaks it).  This is the "independent implementation of the format" of C02/C04/C05/C16:
     json, json_eqb, jcanon        abstract JSON values, boolean equality, canonical form (object members sorted)
     lex, std_lex                  the lexical codecs the format borrows: UTF-8 (sofa text) and base64 (byte arrays)
     fs_entries                    %FEATURE_STRUCTURES as an array of objects with %ID, or as an id-keyed object
     denote_json : lex -> schema -> json -> res ccas
                                   '@' reference keys, '#' special floats, %ELEMENTS per array kind, byte arrays as
                                   base64 tokens, begin/end from UTF-16 code units to code points with the text of the
                                   annotation's own sofa, %VIEWS with %SOFA and %MEMBERS; id-keyed and order-free
     doc_ok_json                   ids distinct, every reference / element / member / %SOFA resolves, keys legal
     jtype, parse_jtypes, jdecl_of the embedded type declarations of %TYPES and what they declare ("X[]" ranges)
   Definitions only; proofs are in JsonProofs.v. *)
From Coq Require Import Ascii DecimalString.
From Cassis Require Import Base Heap Schema Canon.
From Cassis Require Offsets.
Open Scope Z_scope.

(* ------------------------------------------------------------------------------------------ JSON values *)

Inductive json :=
 | JNull | JBool (b : bool) | JInt (z : Z)
 | JFlt (x : flt)                       (* float.hex() token of a finite double; NaN/Infinity never occur as numbers *)
 | JStr (s : string)                    (* UTF-8 bytes, unescaped *)
 | JArr (l : list json)
 | JObj (l : list (string * json)).     (* members in document order *)

Fixpoint json_eqb (a b : json) : bool :=
  match a, b with
  | JNull, JNull => true
  | JBool x, JBool y => Bool.eqb x y
  | JInt x, JInt y => Z.eqb x y
  | JFlt x, JFlt y => String.eqb x y
  | JStr x, JStr y => String.eqb x y
  | JArr x, JArr y =>
      (fix go (x y : list json) : bool :=
         match x, y with [], [] => true | p :: x', q :: y' => json_eqb p q && go x' y' | _, _ => false end) x y
  | JObj x, JObj y =>
      (fix go (x y : list (string * json)) : bool :=
         match x, y with
         | [], [] => true
         | (k, p) :: x', (k', q) :: y' => String.eqb k k' && json_eqb p q && go x' y'
         | _, _ => false end) x y
  | _, _ => false
  end.

(* "member order inside JSON objects not being significant": members sorted by key (bytewise), recursively *)
Fixpoint jinsert (kv : string * json) (l : list (string * json)) : list (string * json) :=
  match l with
  | [] => [kv]
  | y :: r => if String.leb (fst kv) (fst y) then kv :: y :: r else y :: jinsert kv r
  end.
Definition jsort (l : list (string * json)) : list (string * json) := fold_right jinsert [] l.
Fixpoint jcanon (j : json) : json :=
  match j with
  | JArr l => JArr ((fix go (l : list json) : list json := match l with [] => [] | x :: r => jcanon x :: go r end) l)
  | JObj l => JObj (jsort ((fix go (l : list (string * json)) : list (string * json) :=
                              match l with [] => [] | (k, v) :: r => (k, jcanon v) :: go r end) l))
  | _ => j
  end.
Definition json_equiv (a b : json) : bool := json_eqb (jcanon a) (jcanon b).

Definition jget (k : string) (j : json) : option json := match j with JObj l => alookup k l | _ => None end.

(* ------------------------------------------------------------------------------------------ small helpers *)

Fixpoint mapM {A B} (f : A -> res B) (l : list A) : res (list B) :=
  match l with [] => Ok [] | x :: r => do y <- f x ;; do ys <- mapM f r ;; Ok (y :: ys) end.

Fixpoint starts_with (p s : string) : bool :=
  match p, s with
  | EmptyString, _ => true
  | String a p', String b s' => Ascii.eqb a b && starts_with p' s'
  | _, _ => false
  end.
Fixpoint drop_prefix (p s : string) : option string :=
  match p, s with
  | EmptyString, _ => Some s
  | String a p', String b s' => if Ascii.eqb a b then drop_prefix p' s' else None
  | _, _ => None
  end.
(* s[:-2] when s ends in "[]" *)
Fixpoint strip_brackets (s : string) : option string :=
  match s with
  | EmptyString => None
  | String c r => if String.eqb s "[]" then Some "" else option_map (String c) (strip_brackets r)
  end.

Definition jz2s (z : Z) : string := NilZero.string_of_int (Z.to_int z).        (* str(int) *)
Definition js2z (s : string) : option Z := option_map Z.of_int (NilZero.int_of_string s).   (* int(str), plain decimals *)

Fixpoint znodup (l : list Z) : bool := match l with [] => true | x :: r => negb (existsb (Z.eqb x) r) && znodup r end.
Fixpoint snodup (l : list string) : bool := match l with [] => true | x :: r => negb (memb x r) && snodup r end.
Definition zmem (x : Z) (l : list Z) : bool := existsb (Z.eqb x) l.

(* ------------------------------------------------------------------------------------------ lexical codecs *)

(* What the format borrows from other standards.  Theorems take `lex_ok L` as an explicit premise; the check
   evaluates the models with std_lex and tests the contract on every generated text and byte array. *)
Record lex := mkLex {
  txt_enc : text -> string;             (* str -> UTF-8 bytes of the JSON string *)
  txt_dec : string -> option text;
  b64_enc : list Z -> string;           (* base64.b64encode(bytes(l)).decode("ascii") *)
  b64_dec : string -> option (list Z) }.

Definition cp_okb (c : N) : bool := ((c <? 1114112) && negb ((55296 <=? c) && (c <? 57344)))%N.
Definition text_okb (t : text) : bool := forallb cp_okb t.
Definition byte_okb (z : Z) : bool := (0 <=? z) && (z <? 256).
Definition bytes_okb (l : list Z) : bool := forallb byte_okb l.
Definition lex_ok (L : lex) : Prop :=
  (forall t, text_okb t = true -> txt_dec L (txt_enc L t) = Some t) /\
  (forall l, bytes_okb l = true -> b64_dec L (b64_enc L l) = Some l) /\
  (forall l, b64_enc L l = "" -> l = []).

Definition nbyte (n : N) : ascii := ascii_of_N n.
Definition utf8_enc1 (c : N) : list ascii :=
  (if c <? 128 then [nbyte c]
   else if c <? 2048 then [nbyte (192 + c / 64); nbyte (128 + c mod 64)]
   else if c <? 65536 then [nbyte (224 + c / 4096); nbyte (128 + (c / 64) mod 64); nbyte (128 + c mod 64)]
   else [nbyte (240 + c / 262144); nbyte (128 + (c / 4096) mod 64); nbyte (128 + (c / 64) mod 64);
         nbyte (128 + c mod 64)])%N.
Definition utf8_enc (t : text) : string := string_of_list_ascii (flat_map utf8_enc1 t).
Definition cont (a : ascii) : option N :=
  let x := N_of_ascii a in if ((128 <=? x) && (x <? 192))%N then Some (x - 128)%N else None.
Fixpoint utf8_dec (s : string) : option text :=
  match s with
  | EmptyString => Some []
  | String a r =>
    let x := N_of_ascii a in
    if (x <? 128)%N then option_map (cons x) (utf8_dec r)
    else if (x <? 192)%N then None
    else if (x <? 224)%N then
      match r with
      | String b r1 =>
        match cont b, utf8_dec r1 with Some y, Some l => Some (((x - 192) * 64 + y)%N :: l) | _, _ => None end
      | _ => None end
    else if (x <? 240)%N then
      match r with
      | String b (String c r2) =>
        match cont b, cont c, utf8_dec r2 with
        | Some y, Some z, Some l => Some (((x - 224) * 4096 + y * 64 + z)%N :: l) | _, _, _ => None end
      | _ => None end
    else
      match r with
      | String b (String c (String d r3)) =>
        match cont b, cont c, cont d, utf8_dec r3 with
        | Some y, Some z, Some w, Some l => Some (((x - 240) * 262144 + y * 4096 + z * 64 + w)%N :: l)
        | _, _, _, _ => None end
      | _ => None end
  end.

(* base64, standard alphabet, '=' padding *)
Definition b64c (i : Z) : ascii :=
  ascii_of_N (Z.to_N (if i <? 26 then 65 + i else if i <? 52 then 97 + (i - 26) else if i <? 62 then 48 + (i - 52)
                      else if i =? 62 then 43 else 47)).
Definition b64v (a : ascii) : option Z :=
  let x := Z.of_N (N_of_ascii a) in
  if (65 <=? x) && (x <=? 90) then Some (x - 65)
  else if (97 <=? x) && (x <=? 122) then Some (x - 97 + 26)
  else if (48 <=? x) && (x <=? 57) then Some (x - 48 + 52)
  else if x =? 43 then Some 62 else if x =? 47 then Some 63 else None.
Definition pad : ascii := "="%char.
Fixpoint b64_enc_l (l : list Z) : list ascii :=
  match l with
  | [] => []
  | [a] => [b64c (a / 4); b64c ((a mod 4) * 16); pad; pad]
  | [a; b] => [b64c (a / 4); b64c ((a mod 4) * 16 + b / 16); b64c ((b mod 16) * 4); pad]
  | a :: b :: c :: r =>
      b64c (a / 4) :: b64c ((a mod 4) * 16 + b / 16) :: b64c ((b mod 16) * 4 + c / 64) :: b64c (c mod 64) :: b64_enc_l r
  end.
Fixpoint b64_dec_l (l : list ascii) : option (list Z) :=
  match l with
  | [] => Some []
  | c1 :: c2 :: c3 :: c4 :: r =>
    match b64v c1, b64v c2 with
    | Some v1, Some v2 =>
      if Ascii.eqb c3 pad then
        if Ascii.eqb c4 pad then match r with [] => Some [v1 * 4 + v2 / 16] | _ => None end else None
      else
        match b64v c3 with
        | Some v3 =>
          if Ascii.eqb c4 pad then
            match r with [] => Some [v1 * 4 + v2 / 16; (v2 mod 16) * 16 + v3 / 4] | _ => None end
          else
            match b64v c4, b64_dec_l r with
            | Some v4, Some rest =>
                Some (v1 * 4 + v2 / 16 :: (v2 mod 16) * 16 + v3 / 4 :: (v3 mod 4) * 64 + v4 :: rest)
            | _, _ => None
            end
        | None => None
        end
    | _, _ => None
    end
  | _ => None
  end.
Definition std_b64_enc (l : list Z) : string := string_of_list_ascii (b64_enc_l l).
Definition std_b64_dec (s : string) : option (list Z) := b64_dec_l (list_ascii_of_string s).
Definition std_lex : lex := mkLex utf8_enc utf8_dec std_b64_enc std_b64_dec.

(* ------------------------------------------------------------------------------------------ names *)

Definition T_BYTE_ARRAY := "uima.cas.ByteArray".
Definition T_FLOAT_ARRAY := "uima.cas.FloatArray".
Definition T_DOUBLE_ARRAY := "uima.cas.DoubleArray".
Definition T_FLOAT := "uima.cas.Float".
Definition T_DOUBLE := "uima.cas.Double".
Definition T_DOCANN := "uima.tcas.DocumentAnnotation".
Definition K_ID := "%ID".
Definition K_TYPE := "%TYPE".
Definition K_ELEMENTS := "%ELEMENTS".
Definition K_FS := "%FEATURE_STRUCTURES".
Definition K_VIEWS := "%VIEWS".
Definition K_TYPES := "%TYPES".
Definition K_SOFA := "%SOFA".
Definition K_MEMBERS := "%MEMBERS".
Definition refkey (x : string) : string := String "@" x.
Definition numkey (x : string) : string := String "#" x.

(* array_type_name_for_type / element_type_name_for_array_type (cassis/typesystem.py) *)
Definition array_type_name_for (e : tname) : tname :=
  if String.eqb e "uima.cas.Byte" then "uima.cas.ByteArray" else
  if String.eqb e "uima.cas.Float" then "uima.cas.FloatArray" else
  if String.eqb e "uima.cas.Double" then "uima.cas.DoubleArray" else
  if String.eqb e "uima.cas.Boolean" then "uima.cas.BooleanArray" else
  if String.eqb e "uima.cas.Integer" then "uima.cas.IntegerArray" else
  if String.eqb e "uima.cas.Short" then "uima.cas.ShortArray" else
  if String.eqb e "uima.cas.Long" then "uima.cas.LongArray" else
  if String.eqb e "uima.cas.String" then "uima.cas.StringArray" else T_FS_ARRAY.
Definition element_type_name_for (a : tname) : tname :=
  if String.eqb a "uima.cas.ByteArray" then "uima.cas.Byte" else
  if String.eqb a "uima.cas.FloatArray" then "uima.cas.Float" else
  if String.eqb a "uima.cas.DoubleArray" then "uima.cas.Double" else
  if String.eqb a "uima.cas.BooleanArray" then "uima.cas.Boolean" else
  if String.eqb a "uima.cas.IntegerArray" then "uima.cas.Integer" else
  if String.eqb a "uima.cas.ShortArray" then "uima.cas.Short" else
  if String.eqb a "uima.cas.LongArray" then "uima.cas.Long" else
  if String.eqb a "uima.cas.StringArray" then "uima.cas.String" else T_TOP.

(* ------------------------------------------------------------------------------------------ entries *)

(* one feature structure of the document: its id and the members of its JSON object *)
Definition entry := (xid * list (string * json))%type.

(* FS as an array of objects carrying %ID, or as an object keyed by the decimal id *)
Definition fs_entries (d : json) : res (list entry) :=
  match jget K_FS d with
  | Some (JArr l) =>
      mapM (fun j => match j with
                     | JObj m => match alookup K_ID m with Some (JInt i) => Ok (i, m) | _ => Err EValue end
                     | _ => Err EAttribute end) l
  | Some (JObj l) =>
      mapM (fun kv => match js2z (fst kv), snd kv with
                      | Some i, JObj m => Ok (i, m)
                      | None, _ => Err EValue
                      | _, _ => Err EAttribute end) l
  | _ => Ok []
  end.
Definition e_type (e : entry) : option string := match alookup K_TYPE (snd e) with Some (JStr t) => Some t | _ => None end.
Definition is_sofa_entry (e : entry) : bool := match e_type e with Some t => String.eqb t T_SOFA | None => false end.
(* "%TYPE": "X[]" names an FSArray *)
Definition norm_tname (t : string) : string := match strip_brackets t with Some _ => T_FS_ARRAY | None => t end.
Definition doc_views (d : json) : res (list (string * json)) :=
  match jget K_VIEWS d with Some (JObj l) => Ok l | _ => Err EAttribute end.

Fixpoint zlookup {V} (k : Z) (l : list (Z * V)) : option V :=
  match l with [] => None | (k', v) :: r => if Z.eqb k k' then Some v else zlookup k r end.

(* ------------------------------------------------------------------------------------------ values *)

Definition den_prim (j : json) : res cval :=
  match j with
  | JNull => Ok CNull | JBool b => Ok (CBool b) | JInt z => Ok (CInt z) | JFlt x => Ok (CFlt x) | JStr s => Ok (CStr s)
  | _ => Err EValue
  end.
(* '#' keys and float array elements: a float, or one of the special-value strings *)
Definition den_special (j : json) : res cval :=
  match j with
  | JFlt x => Ok (CFlt x)
  | JStr s => if String.eqb s "NaN" then Ok (CFlt "nan")
              else if String.eqb s "Infinity" || String.eqb s "Inf" then Ok (CFlt "inf")
              else if String.eqb s "-Infinity" || String.eqb s "-Inf" then Ok (CFlt "-inf")
              else Err EValue
  | _ => Err EValue
  end.
(* '@' keys and FSArray elements: an id or null *)
Definition den_ref (j : json) : res cval :=
  match j with JNull => Ok CNull | JInt i => Ok (CRef i) | _ => Err EValue end.

Definition den_feature (m : list (string * json)) (fd : fdecl) : res (fname * cval) :=
  let x := fd_xname fd in
  do v <- match alookup (refkey x) m with
          | Some j => den_ref j
          | None => match alookup (numkey x) m with
                    | Some j => den_special j
                    | None => match alookup x m with Some j => den_prim j | None => Ok CNull end
                    end
          end ;;
  Ok (x, v).

Definition den_elements (L : lex) (t : tname) (o : option json) : res (list cval) :=
  match o with
  | None | Some JNull | Some (JStr "") | Some (JArr []) => Ok []
  | Some j =>
    if String.eqb t T_BYTE_ARRAY then
      match j with
      | JStr tok => match b64_dec L tok with Some l => Ok (map CInt l) | None => Err EValue end
      | _ => Err EType end
    else match j with
         | JArr l => if String.eqb t T_FLOAT_ARRAY || String.eqb t T_DOUBLE_ARRAY then mapM den_special l
                     else if String.eqb t T_FS_ARRAY then mapM den_ref l
                     else mapM den_prim l
         | _ => Err EValue
         end
  end.

(* begin/end are UTF-16 code unit offsets in the document and code point offsets in the CAS; the table is the one of the
   annotation's own sofa (Offsets.ext2py: positions inside a surrogate pair or outside the text pass through) *)
Definition conv_off (txt : option text) (v : cval) : cval :=
  match v, txt with
  | CInt j, Some t => CInt (Offsets.ext2py (Offsets.mk_conv t) j)
  | _, _ => v
  end.
Definition is_offset_name (x : string) : bool := String.eqb x "begin" || String.eqb x "end".

Fixpoint finsert (x : fname * cval) (l : list (fname * cval)) : list (fname * cval) :=
  match l with [] => [x] | y :: r => if String.leb (fst x) (fst y) then x :: y :: r else y :: finsert x r end.
Definition sort_feats (l : list (fname * cval)) : list (fname * cval) := fold_right finsert [] l.

Definition den_fs (L : lex) (s : schema) (stab : list (xid * option text)) (e : entry) : res (xid * cfs) :=
  let m := snd e in
  match e_type e with
  | None => Err EAttribute
  | Some t0 =>
    let t := norm_tname t0 in
    match sch_find s t with
    | None => Err ETypeNotFound
    | Some ti =>
      if is_array_name t then
        do els <- den_elements L t (alookup K_ELEMENTS m) ;;
        Ok (fst e, mkCfs t [("elements", CColl "" els)])
      else
        do fv <- mapM (den_feature m) (ti_feats ti) ;;
        do fv' <- (if isa s t T_ANNOTATION then
                     match alookup "sofa" fv with
                     | Some (CRef sid) =>
                         match zlookup sid stab with
                         | Some txt => Ok (map (fun p => if is_offset_name (fst p) then (fst p, conv_off txt (snd p)) else p) fv)
                         | None => Err EAttribute
                         end
                     | _ => Err EAttribute
                     end
                   else Ok fv) ;;
        Ok (fst e, mkCfs t (sort_feats fv'))
    end
  end.

Definition opt_jstr (o : option json) : res (option string) :=
  match o with None | Some JNull => Ok None | Some (JStr s) => Ok (Some s) | _ => Err EType end.
Definition jint (j : json) : res Z := match j with JInt i => Ok i | _ => Err EKey end.

Definition den_sofa (L : lex) (views : list (string * json)) (e : entry) : res csofa :=
  let m := snd e in
  match alookup "sofaID" m, alookup "sofaNum" m with
  | Some (JStr name), Some (JInt num) =>
    do ot <- opt_jstr (alookup "sofaString" m) ;;
    do txt <- match ot with
              | None => Ok None
              | Some st => match txt_dec L st with Some t => Ok (Some t) | None => Err EValue end
              end ;;
    do mime <- opt_jstr (alookup "mimeType" m) ;;
    do uri <- opt_jstr (alookup "sofaURI" m) ;;
    do arr <- match alookup (refkey "sofaArray") m with
              | None | Some JNull => Ok None | Some (JInt i) => Ok (Some i) | _ => Err EValue end ;;
    do members <- match alookup name views with
                  | Some v => match jget K_MEMBERS v with Some (JArr l) => mapM jint l | _ => Err EKey end
                  | None => Ok []
                  end ;;
    Ok (mkCsofa (fst e) num name txt mime uri arr (zsort members))
  | _, _ => Err EValue
  end.

(* the CAS a document describes *)
Definition denote_json (L : lex) (s : schema) (d : json) : res ccas :=
  do es <- fs_entries d ;;
  do views <- doc_views d ;;
  do sofas <- mapM (den_sofa L views) (filter is_sofa_entry es) ;;
  let stab := map (fun cs => (cs_id cs, cs_text cs)) sofas in
  do fss <- mapM (den_fs L s stab) (filter (fun e => negb (is_sofa_entry e)) es) ;;
  Ok (mkCcas (sort_by cs_id sofas) (sort_by fst fss)).

(* ------------------------------------------------------------------------------------------ well-formed documents *)

Inductive kcls := KPlain (n : string) | KRef (n : string) | KNum (n : string) | KRes.
Definition classify (k : string) : kcls :=
  match k with
  | String "%" _ => KRes
  | String "@" r => KRef r
  | String "#" r => KNum r
  | _ => KPlain k
  end.
Definition kname (k : string) : option string :=
  match classify k with KPlain n | KRef n | KNum n => Some n | KRes => None end.
Definition xfind (l : list fdecl) (x : string) : option fdecl := find (fun fd => String.eqb (fd_xname fd) x) l.

Definition int_prims : list tname := ["uima.cas.Byte"; "uima.cas.Short"; "uima.cas.Integer"; "uima.cas.Long"].
Definition prim_val_ok (s : schema) (r : tname) (j : json) : bool :=
  match prim_of s r, j with
  | Some _, JNull => true
  | Some p, JInt _ => memb p int_prims
  | Some p, JFlt _ => String.eqb p T_FLOAT || String.eqb p T_DOUBLE
  | Some p, JBool _ => String.eqb p "uima.cas.Boolean"
  | Some p, JStr _ => String.eqb p T_STRING
  | _, _ => false
  end.
Definition is_float_range (s : schema) (r : tname) : bool :=
  match prim_of s r with Some p => String.eqb p T_FLOAT || String.eqb p T_DOUBLE | None => false end.
Definition special_ok (j : json) : bool := match den_special j with Ok _ => true | _ => false end.
Definition ref_ok (ids : list xid) (j : json) : bool := match j with JNull => true | JInt i => zmem i ids | _ => false end.

Definition elements_ok (L : lex) (s : schema) (ids : list xid) (t : tname) (o : option json) : bool :=
  match o with
  | None => true
  | Some j =>
    if String.eqb t T_BYTE_ARRAY then match j with JStr tok => match b64_dec L tok with Some _ => true | None => false end | _ => false end
    else match j with
         | JArr l => if String.eqb t T_FLOAT_ARRAY || String.eqb t T_DOUBLE_ARRAY then forallb special_ok l
                     else if String.eqb t T_FS_ARRAY then forallb (ref_ok ids) l
                     else forallb (prim_val_ok s (element_type_name_for t)) l
         | _ => false
         end
  end.

Definition member_ok (s : schema) (ti : tinfo) (ids sofa_ids : list xid) (kv : string * json) : bool :=
  match classify (fst kv) with
  | KRes => String.eqb (fst kv) K_ID || String.eqb (fst kv) K_TYPE
  | KRef n => match xfind (ti_feats ti) n with
              | Some fd => negb (is_primitive s (fd_range fd)) &&
                           (if String.eqb (fd_range fd) T_SOFA then ref_ok sofa_ids (snd kv) else ref_ok ids (snd kv))
              | None => false end
  | KNum n => match xfind (ti_feats ti) n with
              | Some fd => is_float_range s (fd_range fd) && special_ok (snd kv) | None => false end
  | KPlain n => match xfind (ti_feats ti) n with
                | Some fd => prim_val_ok s (fd_range fd) (snd kv) | None => false end
  end.
Definition knames (m : list (string * json)) : list string :=
  flat_map (fun kv => match kname (fst kv) with Some n => [n] | None => [] end) m.

(* ids: ids of the non-sofa entries; sofa_ids: ids of the sofa entries *)
Definition entry_ok (L : lex) (s : schema) (ids sofa_ids : list xid) (e : entry) : bool :=
  let m := snd e in
  snodup (map fst m) &&
  match e_type e with
  | None => false
  | Some t0 =>
    let t := norm_tname t0 in
    match sch_find s t with
    | None => false
    | Some ti =>
      if is_array_name t then
        forallb (fun kv => String.eqb (fst kv) K_ID || String.eqb (fst kv) K_TYPE || String.eqb (fst kv) K_ELEMENTS) m
        && elements_ok L s ids t (alookup K_ELEMENTS m)
      else
        forallb (member_ok s ti ids sofa_ids) m && snodup (knames m)
        && (if isa s t T_ANNOTATION
            then match alookup (refkey "sofa") m with Some (JInt i) => zmem i sofa_ids | _ => false end else true)
    end
  end.

Definition sofa_keys : list string :=
  [K_ID; K_TYPE; "sofaNum"; "sofaID"; "mimeType"; "@sofaArray"; "sofaString"; "sofaURI"].
(* a member that has a `sofa` feature is indexed in the view of that sofa (View.add re-points the feature otherwise) *)
Definition member_sofa_ok (s : schema) (fes : list entry) (sid : xid) (i : xid) : bool :=
  match find (fun e => Z.eqb (fst e) i) fes with
  | None => false
  | Some e =>
    match e_type e with
    | None => false
    | Some t0 =>
      if is_array_name (norm_tname t0) then true else
      match sch_find s (norm_tname t0) with
      | None => false
      | Some ti => match xfind (ti_feats ti) "sofa" with
                   | None => true
                   | Some _ => match alookup (refkey "sofa") (snd e) with Some (JInt x) => Z.eqb x sid | _ => false end
                   end
      end
    end
  end.
Definition view_ok (s : schema) (fes : list entry) (sofas : list csofa) (kv : string * json) : bool :=
  let ids := map fst fes in
  match jget K_SOFA (snd kv), jget K_MEMBERS (snd kv) with
  | Some (JInt sid), Some (JArr l) =>
      existsb (fun cs => Z.eqb (cs_id cs) sid && String.eqb (cs_name cs) (fst kv)) sofas
      && forallb (ref_ok ids) l && forallb (fun j => match j with JInt _ => true | _ => false end) l
      && znodup (flat_map (fun j => match j with JInt i => [i] | _ => [] end) l)
      && forallb (member_sofa_ok s fes sid) (flat_map (fun j => match j with JInt i => [i] | _ => [] end) l)
  | _, _ => false
  end.

Definition doc_ok_json (L : lex) (s : schema) (d : json) : bool :=
  match fs_entries d, doc_views d with
  | Ok es, Ok views =>
    let ses := filter is_sofa_entry es in
    let fes := filter (fun e => negb (is_sofa_entry e)) es in
    let ids := map fst fes in
    let sofa_ids := map fst ses in
    match mapM (den_sofa L views) ses with
    | Ok sofas =>
      znodup (map fst es) && forallb (fun i => 0 <? i) (map fst es) && snodup (map fst views)
      && snodup (map cs_name sofas) && znodup (map cs_num sofas)
      && forallb (fun e => snodup (map fst (snd e)) && forallb (fun kv => memb (fst kv) sofa_keys) (snd e)) ses
      && forallb (fun cs => match cs_arr cs with
                            | Some a => existsb (fun e => Z.eqb (fst e) a &&
                                                          match e_type e with Some t => String.eqb t T_BYTE_ARRAY | None => false end) fes
                            | None => true end) sofas
      && forallb (fun cs => match alookup (cs_name cs) views with Some _ => true | None => false end) sofas
      && forallb (view_ok s fes sofas) views
      && forallb (entry_ok L s ids sofa_ids) fes
    | _ => false
    end
  | _, _ => false
  end.

(* ---- C04, the "closed" part of the property on its own, without the schema: all ids of the document are distinct;
   every '@' member, every element of an FSArray ("X[]" type names included), every view member names a feature
   structure of the document; every %SOFA names a sofa entry of the document that carries the view's name ---- *)
Definition doc_ids_distinctb (d : json) : bool :=
  match fs_entries d with Ok es => znodup (map fst es) | _ => false end.
Definition jints (l : list json) : list Z := flat_map (fun j => match j with JInt i => [i] | _ => [] end) l.
Definition entry_refs (e : entry) : list Z :=
  let m := snd e in
  match e_type e with
  | None => []
  | Some t0 =>
    if String.eqb (norm_tname t0) T_FS_ARRAY then match alookup K_ELEMENTS m with Some (JArr l) => jints l | _ => [] end
    else flat_map (fun kv => match classify (fst kv), snd kv with KRef _, JInt i => [i] | _, _ => [] end) m
  end.
Definition view_refs_ok (es : list entry) (kv : string * json) : bool :=
  match jget K_SOFA (snd kv), jget K_MEMBERS (snd kv) with
  | Some (JInt sid), Some (JArr l) =>
      existsb (fun e => Z.eqb (fst e) sid && is_sofa_entry e
                        && match alookup "sofaID" (snd e) with Some (JStr n) => String.eqb n (fst kv) | _ => false end) es
      && forallb (fun j => match j with JInt i => zmem i (map fst es) | _ => false end) l
  | _, _ => false
  end.
Definition doc_refs_resolveb (d : json) : bool :=
  match fs_entries d, doc_views d with
  | Ok es, Ok views =>
      forallb (fun e => forallb (fun i => zmem i (map fst es)) (entry_refs e)) es && forallb (view_refs_ok es) views
  | _, _ => false
  end.

(* ---- C05: every CAS has the view _InitialView.  A document that does not mention it describes a CAS in which that view
   is empty; its sofa takes the next id and the next sofaNum after those of the document (941f890) ---- *)
Definition zmax_list (l : list Z) : Z := fold_left Z.max l 0.
Definition with_initial_view (c : ccas) : ccas :=
  if existsb (fun cs => String.eqb (cs_name cs) "_InitialView") (cc_sofas c) then c
  else mkCcas (sort_by cs_id (cc_sofas c ++ [mkCsofa (zmax_list (map cs_id (cc_sofas c) ++ map fst (cc_fs c)) + 1)
                                                      (zmax_list (map cs_num (cc_sofas c)) + 1) "_InitialView" None None None None []]))
              (cc_fs c).

(* ------------------------------------------------------------------------------------------ embedded type system *)

(* a feature and a type as %TYPES declares them (member names, not the redundant %NAME, are what the reader uses) *)
Record jfeat := mkJf { jf_name : fname; jf_range : string; jf_elem : option string; jf_multi : option bool }.
Record jtype := mkJt { jt_name : tname; jt_super : tname; jt_feats : list jfeat }.

Definition parse_jfeat (kv : string * json) : res jfeat :=
  match jget "%RANGE" (snd kv) with
  | Some (JStr r) =>
      Ok (mkJf (fst kv) r
               (match jget "%ELEMENT_TYPE" (snd kv) with Some (JStr e) => Some e | _ => None end)
               (match jget "%MULTIPLE_REFERENCES_ALLOWED" (snd kv) with Some (JBool b) => Some b | _ => None end))
  | _ => Err EKey
  end.
Definition parse_jtype (kv : string * json) : res jtype :=
  match snd kv with
  | JObj m =>
      match alookup "%SUPER_TYPE" m with
      | Some (JStr sup) =>
          do fs <- mapM parse_jfeat (filter (fun kv => negb (starts_with "%" (fst kv))) m) ;;
          Ok (mkJt (fst kv) sup fs)
      | _ => Err EKey
      end
  | _ => Err EType
  end.
(* no %TYPES (TypeSystemMode.NONE): no declarations *)
Definition parse_jtypes (d : json) : res (list jtype) :=
  match jget K_TYPES d with Some (JObj l) => mapM parse_jtype l | _ => Ok [] end.

(* what a declared feature means (_parse_features): "X[]" is an array range whose element type is X; the element
   type of a primitive array is implied; reserved python names get an underscore *)
Definition pyname (n : fname) : fname :=
  if String.eqb n "self" || String.eqb n "type" then String.append n "_" else n.
Definition jrange (jf : jfeat) : tname * option tname :=
  match strip_brackets (jf_range jf) with
  | Some e => let r := array_type_name_for e in (r, if is_prim_array_name r then None else Some e)
  | None => (jf_range jf, jf_elem jf)
  end.
Definition jdecl_of (jf : jfeat) : fdecl :=
  mkFd (pyname (jf_name jf)) (jf_name jf) (fst (jrange jf)) (snd (jrange jf))
       (match jf_multi jf with Some true => true | _ => false end).

Fixpoint jt_find (jts : list jtype) (n : tname) : option jtype :=
  match jts with [] => None | t :: r => if String.eqb n (jt_name t) then Some t else jt_find r n end.

(* TypeSystem(): the predefined types and DocumentAnnotation (data; compared with the implementation on every run) *)
Definition fd_el := mkFd "elements" "elements" "uima.cas.TOP" None true.
Definition fd_sofa := mkFd "sofa" "sofa" "uima.cas.Sofa" None false.
Definition fd_begin := mkFd "begin" "begin" "uima.cas.Integer" None false.
Definition fd_end := mkFd "end" "end" "uima.cas.Integer" None false.
Definition mk_arr (n : tname) := mkTi n [n; "uima.cas.ArrayBase"; "uima.cas.TOP"] [fd_el].
Definition mk_prim (n : tname) := mkTi n [n; "uima.cas.TOP"] [].
Definition mk_lst (n : tname) := mkTi n [n; "uima.cas.ListBase"; "uima.cas.TOP"] [].
Definition mk_empty (n l : tname) := mkTi n [n; l; "uima.cas.ListBase"; "uima.cas.TOP"] [].
Definition mk_nonempty (n l h : tname) (m : bool) :=
  mkTi n [n; l; "uima.cas.ListBase"; "uima.cas.TOP"] [mkFd "head" "head" h None m; mkFd "tail" "tail" l None true].
Definition builtin_schema : schema :=
  [ mkTi "uima.cas.TOP" ["uima.cas.TOP"] []; mk_prim "uima.cas.NULL";
    mk_prim "uima.cas.Boolean"; mk_prim "uima.cas.Byte"; mk_prim "uima.cas.Short"; mk_prim "uima.cas.Integer";
    mk_prim "uima.cas.Long"; mk_prim "uima.cas.Float"; mk_prim "uima.cas.Double"; mk_prim "uima.cas.String";
    mkTi "uima.cas.ArrayBase" ["uima.cas.ArrayBase"; "uima.cas.TOP"] [fd_el];
    mk_arr "uima.cas.FSArray"; mk_arr "uima.cas.BooleanArray"; mk_arr "uima.cas.ByteArray"; mk_arr "uima.cas.ShortArray";
    mk_arr "uima.cas.LongArray"; mk_arr "uima.cas.DoubleArray"; mk_arr "uima.cas.FloatArray";
    mk_arr "uima.cas.IntegerArray"; mk_arr "uima.cas.StringArray";
    mk_prim "uima.cas.ListBase";
    mk_lst "uima.cas.FSList"; mk_empty "uima.cas.EmptyFSList" "uima.cas.FSList";
    mk_nonempty "uima.cas.NonEmptyFSList" "uima.cas.FSList" "uima.cas.TOP" true;
    mk_lst "uima.cas.FloatList"; mk_empty "uima.cas.EmptyFloatList" "uima.cas.FloatList";
    mk_nonempty "uima.cas.NonEmptyFloatList" "uima.cas.FloatList" "uima.cas.Float" false;
    mk_lst "uima.cas.IntegerList"; mk_empty "uima.cas.EmptyIntegerList" "uima.cas.IntegerList";
    mk_nonempty "uima.cas.NonEmptyIntegerList" "uima.cas.IntegerList" "uima.cas.Integer" false;
    mk_lst "uima.cas.StringList"; mk_empty "uima.cas.EmptyStringList" "uima.cas.StringList";
    mk_nonempty "uima.cas.NonEmptyStringList" "uima.cas.StringList" "uima.cas.String" false;
    mkTi "uima.cas.Sofa" ["uima.cas.Sofa"; "uima.cas.TOP"]
      [mkFd "sofaNum" "sofaNum" "uima.cas.Integer" None false; mkFd "sofaID" "sofaID" "uima.cas.String" None false;
       mkFd "mimeType" "mimeType" "uima.cas.String" None false; mkFd "sofaArray" "sofaArray" "uima.cas.TOP" None true;
       mkFd "sofaString" "sofaString" "uima.cas.String" None false; mkFd "sofaURI" "sofaURI" "uima.cas.String" None false];
    mkTi "uima.cas.AnnotationBase" ["uima.cas.AnnotationBase"; "uima.cas.TOP"] [fd_sofa];
    mkTi "uima.tcas.Annotation" ["uima.tcas.Annotation"; "uima.cas.AnnotationBase"; "uima.cas.TOP"] [fd_begin; fd_end; fd_sofa];
    mkTi "uima.tcas.DocumentAnnotation"
      ["uima.tcas.DocumentAnnotation"; "uima.tcas.Annotation"; "uima.cas.AnnotationBase"; "uima.cas.TOP"]
      [mkFd "language" "language" "uima.cas.String" None false; fd_begin; fd_end; fd_sofa] ].
(* _PREDEFINED_TYPES: everything above except DocumentAnnotation *)
Definition predefined_names : list tname :=
  filter (fun n => negb (String.eqb n T_DOCANN)) (map ti_name builtin_schema).
Definition is_predefined (n : tname) : bool := memb n predefined_names.

(* the type system a list of declarations builds on top of `base` (TypeSystem() for a document loaded without a type
   system): ancestors through the declared supertypes, effective features = declared ones, then the supertype's.
   A declaration of a name that `base` already has (DocumentAnnotation, predefined types) creates no type but its
   features are added to the existing one (_parse_features runs for every declared type). *)
Definition jt_extra (jts : list jtype) (n : tname) (have : list fdecl) : list fdecl :=
  match jt_find jts n with
  | Some jt => filter (fun fd => negb (existsb (fun g => String.eqb (fd_name g) (fd_name fd)) have)) (map jdecl_of (jt_feats jt))
  | None => []
  end.
Fixpoint jt_info (fuel : nat) (base : schema) (jts : list jtype) (n : tname) : option tinfo :=
  match fuel with
  | O => None
  | S k =>
    match sch_find base n with
    | Some ti =>
        (* features added to ancestors that `base` has reach the type through the chain *)
        let inherited := match ti_anc ti with
                         | _ :: p :: _ => match jt_info k base jts p with Some pi => ti_feats pi | None => [] end
                         | _ => [] end in
        let feats := ti_feats ti ++ jt_extra jts n (ti_feats ti) in
        Some (mkTi n (ti_anc ti)
                   (feats ++ filter (fun fd => negb (existsb (fun g => String.eqb (fd_name g) (fd_name fd)) feats)) inherited))
    | None =>
      match jt_find jts n with
      | Some jt =>
          match jt_info k base jts (jt_super jt) with
          | Some p => Some (mkTi n (n :: ti_anc p) (map jdecl_of (jt_feats jt) ++ ti_feats p))
          | None => None
          end
      | None => None
      end
    end
  end.
Definition schema_of_jtypes (base : schema) (jts : list jtype) : schema :=
  flat_map (fun jt => match jt_info (S (S (List.length jts + List.length base))) base jts (jt_name jt) with
                      | Some ti => [ti] | None => [] end) jts ++ base.
