(* CorrC04.v — correspondence harness for C04 (XMI half): a case carries the scenario as the model's input (schema, CAS
   with the ids the structures have after the save), the float lexeme table, the abstract document parsed (xml.etree) from
   the bytes the implementation wrote, and the canonical content scen.canon observed from the in-memory CAS.
   check_case: (1) the implementation's document is closed (doc_ok_xmi); (2) read by the independent denotation it
   describes exactly the observed content up to ""/null in string collections; (3) it is the model writer's document up to
   element and attribute order; (4) the model's own canonical content is the observed one. *)
From Cassis Require Import Base Offsets.
From Cassis Require Import Heap Schema Canon Lex Reach XmiDoc Xmi.
Open Scope Z_scope.

Record case := mkCase {
  k_schema : schema;
  k_cas : cas;
  k_ftab : list (string * flt);      (* document literal -> double (float.hex) for every float of the scenario *)
  k_doc : xdoc;
  k_canon : ccas }.

Definition tab_parse (t : list (string * flt)) (a : string) : option flt := alookup a t.
Definition tab_fmt (t : list (string * flt)) (x : flt) : string :=
  match find (fun p => String.eqb (snd p) x) t with Some p => fst p | None => "?" end.

(* documents modulo attribute order and element order *)
Definition pair_eqb (a b : string * string) : bool := String.eqb (fst a) (fst b) && String.eqb (snd a) (snd b).
Definition xelem_eqb (a b : xelem) : bool :=
  String.eqb (x_ns a) (x_ns b) && String.eqb (x_tag a) (x_tag b)
  && list_eqb pair_eqb (sort_s (x_attrs a)) (sort_s (x_attrs b)) && list_eqb pair_eqb (x_kids a) (x_kids b).
Fixpoint remove_first (e : xelem) (l : list xelem) : option (list xelem) :=
  match l with
  | [] => None
  | x :: r => if xelem_eqb e x then Some r else option_map (cons x) (remove_first e r)
  end.
Fixpoint xdoc_perm_eqb (a b : xdoc) : bool :=
  match a with
  | [] => match b with [] => true | _ => false end
  | e :: r => match remove_first e b with Some b' => xdoc_perm_eqb r b' | None => false end
  end.

Definition check_doc_ok (c : case) : bool := doc_ok_xmi (tab_parse (k_ftab c)) (k_schema c) (k_doc c).
Definition check_denote (c : case) : bool :=
  match denote_xmi (tab_parse (k_ftab c)) (k_schema c) (k_doc c) with
  | Ok x => ccas_eqb x (norm_xmi (k_schema c) (k_canon c))
  | _ => false
  end.
Definition check_save (c : case) : bool :=
  match save_xmi (tab_fmt (k_ftab c)) (k_schema c) (k_cas c) with
  | Ok (d, _) => xdoc_perm_eqb d (k_doc c)
  | _ => false
  end.
Definition check_canon (c : case) : bool :=
  match canon_xmi (k_schema c) (k_cas c) with Ok x => ccas_eqb x (k_canon c) | _ => false end.
Definition check_case (c : case) : bool := check_doc_ok c && check_denote c && check_save c && check_canon c.
(* premises of the theorems in Props/C04.v: well-formedness of the input CAS (nothing about the written set) *)
Definition premises (c : case) : bool := wf_inb (k_schema c) (k_cas c).
