(* DescrProofs2.v — deepening of C12 (1): what a well-formed descriptor loads to is a well-formed type system
   (load_preserves_wf), so that re-reading what is re-emitted is a fixpoint (reemit_fixpoint: third emission = second);
   str.strip() is idempotent. *)
From Cassis Require Import Base Descr DescrProofs.
From Coq Require Import Ascii.

(* ------------------------------------------------------------------ strip is idempotent *)
Definition headok (s : string) : bool := match s with EmptyString => true | String c _ => negb (is_ws c) end.

Lemma rstrip_cons c r :
  rstrip (String c r) = match rstrip r with
                        | EmptyString => if is_ws c then EmptyString else String c EmptyString
                        | String a b => String c (String a b)
                        end.
Proof. cbn [rstrip]. destruct (rstrip r); reflexivity. Qed.

Lemma rstrip_idem s : rstrip (rstrip s) = rstrip s.
Proof.
  induction s as [|c r IH]; [reflexivity|]. rewrite rstrip_cons.
  destruct (rstrip r) as [|a b] eqn:E.
  - destruct (is_ws c) eqn:W; [reflexivity|]. rewrite rstrip_cons. cbn [rstrip]. rewrite W. reflexivity.
  - rewrite rstrip_cons, IH. reflexivity.
Qed.

Lemma headok_lstrip s : headok (lstrip s) = true.
Proof. induction s as [|c r IH]; [reflexivity|]. cbn [lstrip]. destruct (is_ws c) eqn:W; [exact IH|]. cbn [headok]. rewrite W. reflexivity. Qed.

Lemma headok_fix s : headok s = true -> lstrip s = s.
Proof. destruct s as [|c r]; [reflexivity|]. cbn [headok lstrip]. intros H. apply negb_true_iff in H. rewrite H. reflexivity. Qed.

Lemma headok_rstrip s : headok s = true -> headok (rstrip s) = true.
Proof.
  destruct s as [|c r]; [reflexivity|]. cbn [headok]. intros H. rewrite rstrip_cons.
  destruct (rstrip r); [|exact H]. apply negb_true_iff in H. rewrite H. cbn [headok]. rewrite H. reflexivity.
Qed.

Lemma strip_idem s : strip (strip s) = strip s.
Proof.
  unfold strip. rewrite (headok_fix (rstrip (lstrip s))); [apply rstrip_idem|].
  apply headok_rstrip. apply headok_lstrip.
Qed.

Lemma trim_d_idem x : trim_d (trim_d x) = trim_d x.
Proof. destruct x as [s|]; [|reflexivity]. cbn. rewrite strip_idem. reflexivity. Qed.

Lemma trim_feat_idem f : trim_feat (trim_feat f) = trim_feat f.
Proof.
  unfold trim_feat. cbn [f_name f_descr f_range f_elem f_multi]. rewrite !strip_idem, trim_d_idem.
  destruct (f_elem f) as [e|]; cbn [option_map]; [rewrite strip_idem|]; reflexivity.
Qed.

Lemma trim_type_idem t : trim_type (trim_type t) = trim_type t.
Proof.
  unfold trim_type. cbn [t_name t_descr t_super t_feats]. rewrite !strip_idem, trim_d_idem, map_map. f_equal.
  apply map_ext. apply trim_feat_idem.
Qed.

Lemma prep_in d t : In t (prep d) -> (exists t0, t = trim_type t0) \/ t = default_docann.
Proof.
  unfold prep, with_docann, trim. destruct (has_decl DOCANN (map trim_type d)).
  - intros H. apply in_map_iff in H. destruct H as [t0 [<- _]]. left. eauto.
  - intros H. apply in_app_or in H. destruct H as [H|[<-|[]]]; [|right; reflexivity].
    apply in_map_iff in H. destruct H as [t0 [<- _]]. left. eauto.
Qed.

Lemma prep_trimmed d t : In t (prep d) -> trim_type t = t.
Proof. intros H. destruct (prep_in d t H) as [[t0 ->]| ->]; [apply trim_type_idem|reflexivity]. Qed.

Lemma prep_has_docann d : has_decl DOCANN (prep d) = true.
Proof.
  unfold prep, with_docann. destruct (has_decl DOCANN (trim d)) eqn:E; [exact E|].
  apply has_decl_In. rewrite map_app. apply in_or_app. right. left. reflexivity.
Qed.

(* ------------------------------------------------------------------ a well-formed descriptor loads to a well-formed type system *)
Lemma builtin_names_trimmed : forallb (fun b => trimmedb (t_name b)) builtins = true.
Proof. vm_compute. reflexivity. Qed.

Lemma is_builtin_trimmed n : is_builtin n = true -> trimmedb n = true.
Proof.
  intros H. apply has_decl_In in H. apply in_map_iff in H. destruct H as [b [<- Hb]].
  pose proof builtin_names_trimmed as A. rewrite forallb_forall in A. apply A. exact Hb.
Qed.

Lemma map_fix_in {A} (g : A -> A) l x : map g l = l -> In x l -> g x = x.
Proof.
  induction l as [|y r IH]; cbn [map]; intros E Hin; [destruct Hin|].
  injection E as E1 E2. destruct Hin as [<-|Hin]; [exact E1|apply IH; assumption].
Qed.

Section LoadWf.
  Variable d : descr.
  Variable order : list tname.
  Hypothesis Hwf : wf_descrb d = true.
  Hypothesis Hnamed : named_descrb d = true.
  Hypothesis Hord : order_okb order d = true.
  Local Notation P := (prep d).
  Local Notation created := (sel_decls (prep d) order).
  Local Notation types := (map stype_of_decl (sel_decls (prep d) order)).

  Lemma lw_perm : Permutation created (user_decls P).
  Proof.
    destruct (wf_descr_parts d Hwf) as [Hnd _]. unfold order_okb in Hord. apply andb_true_iff in Hord.
    destruct Hord as [H1 H2]. apply sel_decls_perm; assumption.
  Qed.

  Lemma lw_nodup : NoDup (map t_name created).
  Proof. unfold order_okb in Hord. apply andb_true_iff in Hord. destruct Hord as [H1 _]. apply (topo_nodup P order []). exact H1. Qed.

  Lemma lw_name_trimmed t : In t P -> trimmedb (t_name t) = true.
  Proof.
    intros H. unfold trimmedb. apply andb_true_iff. split.
    - apply String.eqb_eq. pose proof (prep_trimmed d t H) as E. apply (f_equal t_name) in E. exact E.
    - unfold named_descrb in Hnamed. rewrite forallb_forall in Hnamed. apply Hnamed. exact H.
  Qed.

  Lemma lw_known_trimmed n : known P n = true -> trimmedb n = true.
  Proof.
    unfold known. intros H. apply orb_true_iff in H. destruct H as [H|H]; [apply is_builtin_trimmed; exact H|].
    apply has_decl_In in H. apply in_map_iff in H. destruct H as [t [<- Ht]]. apply lw_name_trimmed. exact Ht.
  Qed.

  Lemma lw_find_created n : is_builtin n = false -> find_decl n created = find_decl n P.
  Proof.
    intros Eb. rewrite find_decl_findk, (findk_perm t_name n _ _ lw_perm lw_nodup), <- find_decl_findk.
    apply find_decl_user. exact Eb.
  Qed.

  Lemma lw_known_knownst n : known P n = true -> knownst types n = true.
  Proof.
    unfold known, knownst. destruct (is_builtin n) eqn:Eb; [reflexivity|]. cbn [orb]. intros H.
    rewrite (find_st_map stype_of_decl) by reflexivity. rewrite (lw_find_created n Eb).
    unfold has_decl in H. destruct (find_decl n P); [reflexivity|discriminate].
  Qed.

  Lemma lw_feat f : trim_feat f = f -> wf_fdeclb P f = true -> wf_sfeatb types (sfeat_of_decl f) = true.
  Proof.
    intros Ht Hw. unfold wf_fdeclb, feat_refs_ok in Hw. rewrite !andb_true_iff in Hw. destruct Hw as [Hn [Hr He]].
    apply negb_true_iff in Hn.
    assert (strip (f_name f) = f_name f) as Sn by (apply (f_equal f_name) in Ht; exact Ht).
    unfold wf_sfeatb. rewrite !andb_true_iff. repeat split.
    - unfold reserved_okb, sfeat_of_decl, pyname. cbn [sf_res sf_name].
      destruct (String.eqb (f_name f) "self") eqn:E1.
      + apply String.eqb_eq in E1. rewrite E1. reflexivity.
      + destruct (String.eqb (f_name f) "type") eqn:E2.
        * apply String.eqb_eq in E2. rewrite E2. reflexivity.
        * cbn [orb fst snd negb andb]. rewrite E1, E2. cbn [orb negb andb]. unfold trimmedb. rewrite Sn, String.eqb_refl, Hn. reflexivity.
    - cbn [sfeat_of_decl sf_range]. apply lw_known_trimmed. exact Hr.
    - cbn [sfeat_of_decl sf_range]. apply lw_known_knownst. exact Hr.
    - cbn [sfeat_of_decl sf_elem]. destruct (f_elem f) as [e|]; [|reflexivity].
      rewrite (lw_known_trimmed _ He), (lw_known_knownst _ He). reflexivity.
  Qed.

  Lemma lw_type t : In t created -> wf_stypeb types (stype_of_decl t) = true.
  Proof.
    intros Hc. apply sel_decls_spec in Hc. destruct Hc as [Hin [Hnb _]].
    destruct (wf_descr_parts d Hwf) as [_ [Hall _]].
    destruct (wf_user_super P Hall t Hin Hnb) as [Hk Hfin].
    rewrite forallb_forall in Hall. specialize (Hall t Hin). unfold wf_tdeclb in Hall.
    apply andb_true_iff in Hall. destruct Hall as [Hall _]. apply andb_true_iff in Hall. destruct Hall as [_ Hfs].
    unfold wf_stypeb. cbn [stype_of_decl st_name st_super st_feats].
    rewrite (lw_name_trimmed t Hin), Hnb, (lw_known_trimmed _ Hk), (lw_known_knownst _ Hk), Hfin. cbn [negb andb].
    rewrite forallb_map. rewrite forallb_forall in *. intros f Hf. apply lw_feat; [|apply Hfs; exact Hf].
    pose proof (prep_trimmed d t Hin) as E. apply (f_equal t_feats) in E. cbn [trim_type t_feats] in E.
    apply (map_fix_in trim_feat (t_feats t)); assumption.
  Qed.

  Lemma lw_no_top t : In t P -> t_name t <> "uima.cas.TOP".
  Proof.
    intros Hin E. destruct (wf_descr_parts d Hwf) as [_ [Hall _]]. rewrite forallb_forall in Hall. specialize (Hall t Hin).
    unfold wf_tdeclb in Hall. rewrite !andb_true_iff in Hall. destruct Hall as [[Hk _] Hb].
    rewrite E in Hb. change (is_builtin "uima.cas.TOP") with true in Hb. cbv iota in Hb.
    unfold builtin_check1 in Hb. rewrite E in Hb.
    change (find_decl "uima.cas.TOP" builtins) with (Some (mkT "uima.cas.TOP" None "" [])) in Hb. cbv iota beta in Hb.
    cbn [t_super] in Hb. destruct (String.eqb (t_super t) "") eqn:Es; cbn [negb] in Hb; [|discriminate].
    apply String.eqb_eq in Es. rewrite Es in Hk. unfold known in Hk. change (is_builtin "") with false in Hk. cbn [orb] in Hk.
    apply has_decl_In in Hk. apply in_map_iff in Hk. destruct Hk as [t' [En Ht']].
    unfold named_descrb in Hnamed. rewrite forallb_forall in Hnamed. specialize (Hnamed t' Ht'). rewrite En in Hnamed. discriminate.
  Qed.

  Lemma lw_docann : docann_okb (state_of order d) = true.
  Proof.
    pose proof (re_find_st d order Hwf Hord DOCANN eq_refl) as Hf. cbv zeta in Hf.
    pose proof (prep_has_docann d) as Hh. unfold has_decl in Hh.
    destruct (find_decl DOCANN P) as [t0|] eqn:E0; [|discriminate]. cbn [option_map] in Hf.
    unfold docann_okb. rewrite Hf. reflexivity.
  Qed.

  Theorem load_preserves_wf_state : wf_tsb (state_of order d) = true.
  Proof.
    destruct (wf_descr_parts d Hwf) as [Hnd [Hall Hnc]].
    unfold wf_tsb. rewrite !andb_true_iff. repeat split.
    - cbn [state_of s_types]. rewrite spec_types_sel. apply nodupb_NoDup. rewrite map_st_name_stype. exact lw_nodup.
    - cbn [state_of s_types]. rewrite spec_types_sel. rewrite forallb_forall. intros s Hs.
      apply in_map_iff in Hs. destruct Hs as [t [<- Ht]]. apply lw_type. exact Ht.
    - cbn [state_of s_types]. rewrite spec_types_sel.
      rewrite (noclashb_perm _ (map stype_of_decl (user_decls P))); [exact Hnc|apply Permutation_map; exact lw_perm|].
      rewrite map_st_name_stype. exact lw_nodup.
    - cbn [state_of s_redecl]. apply nodupb_NoDup. apply spec_redecl_nodup. exact Hnd.
    - cbn [state_of s_redecl]. rewrite forallb_forall. intros n Hn. unfold spec_redecl, redecl_of in Hn.
      apply in_app_or in Hn. destruct Hn as [Hn|Hn].
      + destruct (has_decl DOCANN (trim d)); [|destruct Hn]. destruct Hn as [<-|[]]. rewrite String.eqb_refl. apply orb_true_r.
      + apply in_map_iff in Hn. destruct Hn as [t [<- Ht]]. apply filter_In in Ht. destruct Ht as [Hin Hb]. rewrite Hb. cbn [andb].
        apply orb_true_iff. left. apply negb_true_iff. apply String.eqb_neq. apply lw_no_top. exact Hin.
    - exact lw_docann.
  Qed.

  (* ---------------------------------------------------------------- what is re-emitted is already trimmed *)
  Lemma lw_types_from t : In t (s_types (state_of order d)) -> exists t0, In t0 P /\ t = stype_of_decl t0.
  Proof.
    cbn [state_of s_types]. rewrite spec_types_sel. intros H. apply in_map_iff in H. destruct H as [t0 [<- H0]].
    apply sel_decls_spec in H0. exists t0. tauto.
  Qed.
End LoadWf.

Theorem load_preserves_wf d order s : wf_descrb d = true -> named_descrb d = true -> order_okb order d = true ->
  ts_of_descr order d = Ok s -> wf_tsb s = true.
Proof.
  intros Hwf Hn Hord Hl. rewrite (load_wf d order Hwf Hord) in Hl. injection Hl as <-. apply load_preserves_wf_state; assumption.
Qed.

(* ------------------------------------------------------------------ re-reading what is re-emitted: a fixpoint *)
Lemma emit_d_trim_fix x : trim_d x = x -> emit_d (trim_d (emit_d x)) = emit_d x.
Proof.
  destruct x as [s|]; [|reflexivity]. destruct s as [|c r]; [reflexivity|]. intros H.
  cbn [emit_d]. rewrite H. reflexivity.
Qed.

Lemma renorm_fix_feat f : trim_feat f = f -> renorm_feat (trim_feat (renorm_feat f)) = renorm_feat f.
Proof.
  intros H. pose proof (f_equal f_name H) as H1. pose proof (f_equal f_descr H) as H2. pose proof (f_equal f_range H) as H3.
  pose proof (f_equal f_elem H) as H4. cbn [trim_feat f_name f_descr f_range f_elem] in H1, H2, H3, H4.
  unfold renorm_feat, trim_feat. cbn [f_name f_descr f_range f_elem f_multi].
  rewrite H1, H3, H4, (emit_d_trim_fix _ H2). reflexivity.
Qed.

Lemma renorm_fix_type t : trim_type t = t -> renorm_type (trim_type (renorm_type t)) = renorm_type t.
Proof.
  intros H. pose proof (f_equal t_name H) as H1. pose proof (f_equal t_descr H) as H2. pose proof (f_equal t_super H) as H3.
  pose proof (f_equal t_feats H) as H4. cbn [trim_type t_name t_descr t_super t_feats] in H1, H2, H3, H4.
  unfold renorm_type, trim_type. cbn [t_name t_descr t_super t_feats].
  rewrite H1, H3, (emit_d_trim_fix _ H2). f_equal. rewrite !map_map. apply map_ext_in. intros f Hf.
  apply renorm_fix_feat. apply (map_fix_in trim_feat (t_feats t)); assumption.
Qed.

Lemma emitted_elems s x : In x (descr_of_ts s) -> In x builtins \/ exists t, In t (s_types s) /\ x = emit_type t.
Proof.
  unfold descr_of_ts. intros H. apply in_app_or in H. destruct H as [H|H].
  - apply in_flat_map in H. destruct H as [n [_ H]]. unfold emit_redecl in H.
    destruct (find_decl n builtins) as [b|] eqn:Eb.
    + destruct H as [<-|[]]. left. rewrite find_decl_findk in Eb. apply findk_some in Eb. tauto.
    + destruct (find_st n (s_types s)) as [t|] eqn:Et; [|destruct H]. destruct H as [<-|[]]. right. exists t.
      split; [|reflexivity]. rewrite find_st_findk in Et. apply findk_some in Et. tauto.
  - apply in_map_iff in H. destruct H as [t [<- Ht]]. apply filter_In in Ht. destruct Ht as [Ht _]. right. exists t.
    split; [|reflexivity]. eapply Permutation_in; [apply sort_by_perm|exact Ht].
Qed.

Lemma trimmed_fix d order : wf_descrb d = true -> order_okb order d = true ->
  trimmed (descr_of_ts (state_of order d)) = descr_of_ts (state_of order d).
Proof.
  intros Hwf Hord. unfold trimmed, trim. rewrite map_map.
  transitivity (map (fun x : tdecl => x) (descr_of_ts (state_of order d))); [|apply map_id].
  apply map_ext_in. intros x Hx. destruct (emitted_elems _ x Hx) as [Hb|[t [Ht ->]]].
  - pose proof builtins_trimmed as A. rewrite forallb_forall in A. rewrite (tdecl_eqb_eq _ _ (A x Hb)).
    pose proof builtins_renorm as B. rewrite forallb_forall in B. apply tdecl_eqb_eq. apply B. exact Hb.
  - destruct (lw_types_from d order t Ht) as [t0 [H0 ->]]. rewrite emit_stype_of_decl.
    apply renorm_fix_type. apply (prep_trimmed d). exact H0.
Qed.

(* the descriptor written for a well-formed type system names every type *)
Lemma named_written s : wf_tsb s = true -> named_descrb (descr_of_ts s) = true.
Proof.
  intros Hwf0. pose proof (wf_ts_lax_of s Hwf0) as Hwf. destruct (rt_da s Hwf) as [da [Hda [Hin [Hname Hdef]]]].
  unfold named_descrb. rewrite (rt_prep s Hwf da Hda Hin Hname).
  rewrite forallb_forall. intros x Hx. apply negb_true_iff. apply String.eqb_neq. intros E.
  assert (In "" (map t_name (PE s da))) as Hn by (rewrite <- E; apply in_map; exact Hx).
  rewrite (r2_names s Hwf da Hin Hname Hdef) in Hn. apply in_app_or in Hn. destruct Hn as [Hn|Hn].
  - apply (rt_SN_in s) in Hn. destruct (rt_EN_class s Hwf "" Hn) as [[Hb _]|Hd]; discriminate.
  - apply in_app_or in Hn. destruct Hn as [Hn|Hn].
    + apply in_map_iff in Hn. destruct Hn as [t [En Ht]]. apply (rt_UT_in s) in Ht. destruct Ht as [Ht _].
      pose proof (rt_wf_type s Hwf t Ht) as Hw. apply wf_stype_parts in Hw. destruct Hw as [Hw _].
      apply trimmedb_nonempty in Hw. rewrite En in Hw. discriminate.
    + destruct (memb DOCANN (emit_names s)); [destruct Hn|]. destruct Hn as [Hn|[]]. discriminate.
Qed.

(* write . load . write . load = write . load on well-formed descriptors ("third emission = second") *)
Theorem reemit_fixpoint d o1 s1 o2 :
  wf_descrb d = true -> named_descrb d = true -> order_okb o1 d = true -> ts_of_descr o1 d = Ok s1 ->
  order_okb o2 (descr_of_ts s1) = true ->
  exists s2, ts_of_descr o2 (descr_of_ts s1) = Ok s2 /\ descr_of_ts s2 = descr_of_ts s1 /\
             wf_tsb s2 = true /\ canon s2 = canon (norm_ts s1).
Proof.
  intros Hwf Hn Hord Hl Hord2. pose proof (load_preserves_wf d o1 s1 Hwf Hn Hord Hl) as Hwf1.
  destruct (roundtrip s1 o2 Hwf1 Hord2) as [s2 [Hl2 Hc]]. exists s2. repeat split; [exact Hl2| | |exact Hc].
  - rewrite (write_read_write s1 o2 s2 Hwf1 Hord2 Hl2).
    rewrite (load_wf d o1 Hwf Hord) in Hl. injection Hl as <-. apply trimmed_fix; assumption.
  - apply (load_preserves_wf (descr_of_ts s1) o2 s2); [apply wf_written; exact Hwf1|apply named_written; exact Hwf1|exact Hord2|exact Hl2].
Qed.
