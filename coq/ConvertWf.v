(* ConvertWf.v — C16: the boolean premise of inline_outline (ConvertInline.v), a condition on the schema and the input CAS
   only.  Definitions only.
     wf_inb s c         the XMI writer's input well-formedness (Xmi.v: wf_casb + type_sofa_okb; C04/C01)
     schema_okb s       the schema answers like a TypeSystem (XmiLoad.v; C10/C11): python names by the self_/type_ rule,
                        an array type has exactly the feature `elements`
     wf_jsonb s c       the JSON writer's premise (Json.v; C02): every structure the JSON traversal finds and every sofa
                        byte array carries its id in c — i.e. c is a CAS after a save or a load
     ids_distinctb s c  sofa ids, ids of the structures found and of the sofa byte arrays are pairwise distinct (C04 JSON half)
     arrays_privateb s c  the byte array of a sofa belongs to that sofa alone: no second sofa refers to it and the JSON traversal
                        does not find it (it is neither indexed nor referenced by a feature).  The conversion theorems are
                        proved for such CASes; shared / indexed / referenced sofa arrays (d1bc860, d94ad6a) are covered by the
                        C02 / C04 / C05 theorems and compared per case by CorrC16
     refs_wfb s c       no structure with id 0, the schema calls exactly ArrayBase subtypes arrays, `sofa` slots hold sofas
     slots_declb s h    an object has no attribute besides the features of its type (the generated classes have __slots__) *)
From Cassis Require Import Base Heap Schema Canon Reach JsonDoc Json.
From Cassis Require Xmi XmiLoad.
Open Scope Z_scope.

Definition slots_declb (s : schema) (h : heap) : bool :=
  forallb (fun p => forallb (fun nv => has_feat s (o_type (snd p)) (fst nv)) (o_slots (snd p))) h.

Definition arrays_privateb (s : schema) (c : cas) : bool :=
  nodupN (sofa_arrays c)
  && match find_all_fs true s c with
     | Ok w => forallb (fun io => negb (omem (snd io) (sofa_arrays c))) (w_all w)
     | _ => false end.

Definition wf_convb (s : schema) (c : cas) : bool :=
  Xmi.wf_inb s c && XmiLoad.schema_okb s && wf_jsonb s c && ids_distinctb s c && refs_wfb s c && slots_declb s (c_heap c)
  && arrays_privateb s c.
