(* C10Load.v — C10, fourth part: the property quantifies over type systems "obtained by any sequence of type creation,
   XML LOADING ... and merging".  `obtained` is that closure inside the model: TypeSystem(); any history of create_type /
   create_feature / instantiation applied to an obtained type system; merge_typesystems (Merge.v, C13's model) of any
   tuple of obtained type systems; and load_typesystem of a well-formed descriptor (Descr.ts_of_descr under any order the
   toposort contract admits, embedded into TS.v by DescrTS.tsys_of_content = the create_type / create_feature calls the
   reader makes on TypeSystem(add_document_annotation_type=False); C12's model of the mechanism).  A loaded type system
   may be extended, merged, and merged again.
   Definitions only; C10LoadProofs.obtained_WFh: every such type system satisfies the hierarchy invariant WFh, hence every
   query theorem of Props/C10.v holds of it.  TS is imported after Descr: an unqualified tsys, t_name ... is TS's. *)
From Cassis Require Import Base Descr.
From Cassis Require DescrTS.
From Cassis Require Import TS Merge.

(* the premises under which C12 proves that a descriptor loads to a well-formed content *)
Definition loadable (order : list string) (d : Descr.descr) : bool :=
  Descr.wf_descrb d && Descr.named_descrb d && Descr.order_okb order d.

(* load_typesystem in the hierarchy model: the reader's result at descriptor level, replayed on TS.v *)
Definition load_ts (order : list string) (d : Descr.descr) : res tsys :=
  match Descr.ts_of_descr order d with
  | Ok s => DescrTS.tsys_of_content (Descr.s_types s)
  | Err e => Err e
  | OutOfFuel => OutOfFuel
  end.

Inductive obtained : tsys -> Prop :=
| ob_new : obtained init_ts
| ob_ops : forall ops ts, obtained ts -> obtained (final_ts ops ts)
| ob_merge : forall inputs ts, (forall t, In t inputs -> obtained t) -> merge inputs = Ok ts -> obtained ts
| ob_load : forall order d ts, loadable order d = true -> load_ts order d = Ok ts -> obtained ts.

