(* Views.v — model of views, handles and sofas in cassis/cas.py: Cas.__init__ (219-259), create_view /
   _add_view / get_view (265-320), views / sofas, add (322-345), remove (384-391), select_all (487-494),
   get_sofa, get_document_annotation (537-548), the sofa_* properties (561-640), document_language (642-659),
   _copy (862-869), Sofa (108-150) with its offset-converter rebuild, and
   FeatureStructure.get_covered_text (typesystem.py:408-424).

   One shared store (the dicts _views and _sofas, the Sofa objects, the two id generators, the feature
   structures) and any number of handles; a handle is what Cas._copy copies by value: the current view and
   the lenient flag.  Definitions only; proofs are in ViewsProofs.v. *)
From Cassis Require Import Base.
Open Scope Z_scope.

Definition oid := N.               (* label of a feature structure *)
Definition text := list N.         (* sofa text as code points (Python str indexing) *)

(* a feature structure as far as views are concerned.  f_sofa is a reference to a Sofa object (its address) *)
Record fsobj := mkFs {
  f_type : tname; f_has_sofa : bool; f_has_span : bool;
  f_xid : option Z; f_sofa : option nat; f_begin : option Z; f_end : option Z; f_lang : option string }.

Record sofa := mkSofa {
  s_name : string; s_xid : Z; s_num : Z;
  s_text : option text; s_mime : option string; s_uri : option string; s_arr : option oid;
  s_conv : option text }.          (* what the offset converter was last built from *)

(* View: its sofa (a reference) and its index, here as a bag of labels (order is C06/C07's business) *)
Record view := mkView { v_sofa : nat; v_index : list oid }.

Record store := mkStore {
  st_views : list (string * view);     (* Cas._views, insertion order *)
  st_sofas : list (string * nat);      (* Cas._sofas: name -> Sofa object *)
  st_sheap : list sofa;                (* the Sofa objects, address = position *)
  st_next_id : Z; st_next_sofa : Z;    (* _xmi_id_generator, _sofa_num_generator *)
  st_heap : list (oid * fsobj);
  st_next_auto : N;                    (* label for the next DocumentAnnotation created by the CAS itself *)
  st_genlog : list Z }.                (* ghost: ids handed out by the xmi id generator, and explicit sofa ids it was
                                          moved past while they were still free; most recent first *)

Record handle := mkHandle { h_view : string; h_lenient : bool }.

(* the type system as far as needed: the names it contains, and the names of DocumentAnnotation.descendants *)
Record tsinfo := mkTs { ts_types : list tname; ts_family : list tname }.

Record state := mkState { st : store; hs : list handle }.

Definition DOCANN : tname := "uima.tcas.DocumentAnnotation".

(* ---------------------------------------------------------------- small helpers *)

Fixpoint upd_nth {A} (n : nat) (f : A -> A) (l : list A) : list A :=
  match l, n with
  | [], _ => []
  | x :: r, O => f x :: r
  | x :: r, S k => x :: upd_nth k f r
  end.

Fixpoint hget (o : oid) (h : list (oid * fsobj)) : option fsobj :=
  match h with [] => None | (o', fs) :: r => if N.eqb o o' then Some fs else hget o r end.
Fixpoint hput (o : oid) (fs : fsobj) (h : list (oid * fsobj)) : list (oid * fsobj) :=
  match h with
  | [] => [(o, fs)]
  | (o', fs') :: r => if N.eqb o o' then (o', fs) :: r else (o', fs') :: hput o fs r
  end.

Fixpoint amap {V} (k : string) (f : V -> V) (l : list (string * V)) : list (string * V) :=
  match l with
  | [] => []
  | (k', v) :: r => if String.eqb k k' then (k', f v) :: r else (k', v) :: amap k f r
  end.

Fixpoint remove1 (o : oid) (l : list oid) : option (list oid) :=
  match l with
  | [] => None
  | x :: r => if N.eqb o x then Some r
              else match remove1 o r with Some r' => Some (x :: r') | None => None end
  end.

Definition with_views (s : store) v := mkStore v (st_sofas s) (st_sheap s) (st_next_id s) (st_next_sofa s) (st_heap s) (st_next_auto s) (st_genlog s).
Definition with_sheap (s : store) v := mkStore (st_views s) (st_sofas s) v (st_next_id s) (st_next_sofa s) (st_heap s) (st_next_auto s) (st_genlog s).
Definition with_heap (s : store) v := mkStore (st_views s) (st_sofas s) (st_sheap s) (st_next_id s) (st_next_sofa s) v (st_next_auto s) (st_genlog s).

(* IdGenerator.generate_id / reserve_id on the xmi id generator *)
Definition gen_id (s : store) : Z * store :=
  (st_next_id s,
   mkStore (st_views s) (st_sofas s) (st_sheap s) (st_next_id s + 1) (st_next_sofa s) (st_heap s) (st_next_auto s)
           (st_next_id s :: st_genlog s)).
Definition reserve_id (used : Z) (s : store) : store :=
  if used >=? st_next_id s
  then mkStore (st_views s) (st_sofas s) (st_sheap s) (used + 1) (st_next_sofa s) (st_heap s) (st_next_auto s) (st_genlog s)
  else s.

(* ---------------------------------------------------------------- Python slicing s[b:e] *)

Definition norm_idx (n i : Z) : Z := if i <? 0 then Z.max (i + n) 0 else Z.min i n.
Definition slice_bounds (n : Z) (b e : option Z) : Z * Z :=
  (match b with Some i => norm_idx n i | None => 0 end,
   match e with Some i => norm_idx n i | None => n end).
Definition pyslice {A} (b e : option Z) (l : list A) : list A :=
  let '(b', e') := slice_bounds (Z.of_nat (List.length l)) b e in
  firstn (Z.to_nat (e' - b')) (skipn (Z.to_nat b') l).

(* ---------------------------------------------------------------- the store operations *)

(* _add_view (cas.py:277-297): xmiID given -> _xmi_id_generator.reserve_id(xmiID), else generate_id(); the same
   for sofaNum on the sofa-number generator; then a new Sofa object carrying these two numbers, a new View on it,
   entered under `name` in both dicts.  An explicit id may be any integer: below the generator's next value it is
   taken as it is (and may then repeat an id in use — the caller's business), from the next value on it moves the
   generator past it.  Ghost log: a generated id, or an explicit id accepted while still free. *)
Definition view_xid (xid : option Z) (s : store) : Z := match xid with Some k => k | None => st_next_id s end.
Definition view_next_id (xid : option Z) (s : store) : Z :=
  match xid with Some k => if k >=? st_next_id s then k + 1 else st_next_id s | None => st_next_id s + 1 end.
Definition view_genlog (xid : option Z) (s : store) : list Z :=
  match xid with
  | Some k => if k >=? st_next_id s then k :: st_genlog s else st_genlog s
  | None => st_next_id s :: st_genlog s
  end.
Definition view_num (num : option Z) (s : store) : Z := match num with Some k => k | None => st_next_sofa s end.
Definition view_next_sofa (num : option Z) (s : store) : Z :=
  match num with Some k => if k >=? st_next_sofa s then k + 1 else st_next_sofa s | None => st_next_sofa s + 1 end.
Definition add_view (name : string) (xid num : option Z) (s : store) : store :=
  let addr := List.length (st_sheap s) in
  mkStore (st_views s ++ [(name, mkView addr [])]) (st_sofas s ++ [(name, addr)])
          (st_sheap s ++ [mkSofa name (view_xid xid s) (view_num num s) None None None None None])
          (view_next_id xid s) (view_next_sofa num s) (st_heap s) (st_next_auto s) (view_genlog xid s).

Definition empty_store (heap : list (oid * fsobj)) : store := mkStore [] [] [] 1 1 heap 1000%N [].

(* the sofa a handle works on: self._current_view.sofa *)
Definition cur_sofa (s : store) (h : handle) : option nat :=
  match alookup (h_view h) (st_views s) with Some v => Some (v_sofa v) | None => None end.

Definition upd_sofa (s : store) (a : nat) (f : sofa -> sofa) : store := with_sheap s (upd_nth a f (st_sheap s)).

(* Sofa.sofaString setter: store the value, rebuild the converter (create_offset_mapping(None) returns early) *)
Definition sofa_set_text (v : option text) (x : sofa) : sofa :=
  mkSofa (s_name x) (s_xid x) (s_num x) v (s_mime x) (s_uri x) (s_arr x)
         (match v with Some t => Some t | None => s_conv x end).
Definition sofa_set_mime (v : option string) (x : sofa) : sofa :=
  mkSofa (s_name x) (s_xid x) (s_num x) (s_text x) v (s_uri x) (s_arr x) (s_conv x).
Definition sofa_set_uri (v : option string) (x : sofa) : sofa :=
  mkSofa (s_name x) (s_xid x) (s_num x) (s_text x) (s_mime x) v (s_arr x) (s_conv x).
Definition sofa_set_arr (v : option oid) (x : sofa) : sofa :=
  mkSofa (s_name x) (s_xid x) (s_num x) (s_text x) (s_mime x) (s_uri x) v (s_conv x).

(* Cas.add through handle h (cas.py:322-345) *)
Definition add_fs (ts : tsinfo) (s : store) (h : handle) (o : oid) (keep : bool) : res store :=
  match hget o (st_heap s), alookup (h_view h) (st_views s) with
  | Some fs, Some v =>
      if negb (h_lenient h) && negb (memb (f_type fs) (ts_types ts)) then Err ERuntime
      else
        let '(id, s1) := match keep, f_xid fs with
                         | true, Some x => (x, reserve_id x s)
                         | _, _ => gen_id s
                         end in
        let fs' := mkFs (f_type fs) (f_has_sofa fs) (f_has_span fs) (Some id)
                        (if f_has_sofa fs then Some (v_sofa v) else f_sofa fs)
                        (f_begin fs) (f_end fs) (f_lang fs) in
        let s2 := with_heap s1 (hput o fs' (st_heap s1)) in
        Ok (with_views s2 (amap (h_view h) (fun v => mkView (v_sofa v) (v_index v ++ [o])) (st_views s2)))
  | _, _ => Err EKey
  end.

(* Cas.remove: SortedKeyList.remove raises ValueError when the structure is not in this view's index *)
Definition remove_fs (s : store) (h : handle) (o : oid) : res store :=
  match alookup (h_view h) (st_views s) with
  | Some v =>
      match remove1 o (v_index v) with
      | Some idx => Ok (with_views s (amap (h_view h) (fun v => mkView (v_sofa v) idx) (st_views s)))
      | None => Err EValue
      end
  | None => Err EKey
  end.

Definition is_family (ts : tsinfo) (s : store) (o : oid) : bool :=
  match hget o (st_heap s) with Some fs => memb (f_type fs) (ts_family ts) | None => false end.

(* get_document_annotation: select(DocumentAnnotation)[0], else create one and add it through this handle *)
Definition find_docann (ts : tsinfo) (s : store) (h : handle) : option oid :=
  match alookup (h_view h) (st_views s) with
  | Some v => find (is_family ts s) (v_index v)
  | None => None
  end.
Definition new_docann : fsobj := mkFs DOCANN true true None None None None None.
Definition get_docann (ts : tsinfo) (s : store) (h : handle) : res (oid * store) :=
  match find_docann ts s h with
  | Some d => Ok (d, s)
  | None =>
      let d := st_next_auto s in
      let s1 := mkStore (st_views s) (st_sofas s) (st_sheap s) (st_next_id s) (st_next_sofa s)
                        (hput d new_docann (st_heap s)) (N.succ d) (st_genlog s) in
      match add_fs ts s1 h d true with
      | Ok s2 => Ok (d, s2)
      | Err e => Err e
      | OutOfFuel => OutOfFuel
      end
  end.

(* ---------------------------------------------------------------- operations and observations *)

Inductive op :=
| OCreateView (h : nat) (name : string) (xid num : option Z)   (* create_view(name, xmiID=xid, sofaNum=num) *)
| OGetView (h : nat) (name : string)
| OAdd (h : nat) (o : oid) (keep : bool)
| ORemove (h : nat) (o : oid)
| OSetText (h : nat) (v : option text)
| OSetMime (h : nat) (v : option string)
| OSetUri (h : nat) (v : option string)
| OSetArr (h : nat) (v : option oid)
| OGetText (h : nat) | OGetMime (h : nat) | OGetUri (h : nat) | OGetArr (h : nat)
| OSelectAll (h : nat)
| OGetLang (h : nat)
| OSetLang (h : nat) (v : option string)
| OCovered (o : oid).

Inductive obs :=
| ObUnit | ObHandle (n : nat) | ObErr (e : err)
| ObNoSofa                               (* AnnotationHasNoSofa *)
| ObNotImpl                              (* NotImplementedError *)
| ObText (t : option text) | ObStr (v : option string) | ObArr (v : option oid)
| ObSel (l : list oid)                   (* select_all, as the bag held by the index *)
| ObBad.                                 (* the scenario named a handle or structure that does not exist *)

Definition op_handle (o : op) : option nat :=
  match o with
  | OCreateView h _ _ _ | OGetView h _ | OAdd h _ _ | ORemove h _ | OSetText h _ | OSetMime h _ | OSetUri h _
  | OSetArr h _ | OGetText h | OGetMime h | OGetUri h | OGetArr h | OSelectAll h | OGetLang h | OSetLang h _ => Some h
  | OCovered _ => None
  end.

Definition set_lang (s : store) (d : oid) (v : option string) : store :=
  match hget d (st_heap s) with
  | Some fs => with_heap s (hput d (mkFs (f_type fs) (f_has_sofa fs) (f_has_span fs) (f_xid fs) (f_sofa fs)
                                          (f_begin fs) (f_end fs) v) (st_heap s))
  | None => s
  end.

(* a sofa setter / getter through handle h *)
Definition sofa_write (s : state) (hd : handle) (f : sofa -> sofa) : state * obs :=
  match cur_sofa (st s) hd with
  | Some a => (mkState (upd_sofa (st s) a f) (hs s), ObUnit)
  | None => (s, ObBad)
  end.
Definition sofa_read (s : state) (hd : handle) (f : sofa -> obs) : state * obs :=
  match cur_sofa (st s) hd with
  | Some a => match nth_error (st_sheap (st s)) a with Some x => (s, f x) | None => (s, ObBad) end
  | None => (s, ObBad)
  end.

(* FeatureStructure.get_covered_text *)
Definition covered_text (s : store) (o : oid) : obs :=
  match hget o (st_heap s) with
  | Some fs =>
      if f_has_sofa fs && f_has_span fs then
        match f_sofa fs with
        | None => ObNoSofa
        | Some a =>
            match nth_error (st_sheap s) a with
            | Some x => ObText (match s_text x with Some t => Some (pyslice (f_begin fs) (f_end fs) t) | None => None end)
            | None => ObBad
            end
        end
      else ObNotImpl
  | None => ObBad
  end.

Definition step_h (ts : tsinfo) (s : state) (hd : handle) (o : op) : state * obs :=
  match o with
  | OCreateView _ name xid num =>
      if memb name (akeys (st_views (st s))) then (s, ObErr EValue)
      else (mkState (add_view name xid num (st s)) (hs s ++ [mkHandle name (h_lenient hd)]), ObHandle (List.length (hs s)))
  | OGetView _ name =>
      if memb name (akeys (st_views (st s)))
      then (mkState (st s) (hs s ++ [mkHandle name (h_lenient hd)]), ObHandle (List.length (hs s)))
      else (s, ObErr EKey)
  | OAdd _ o keep =>
      match add_fs ts (st s) hd o keep with
      | Ok s' => (mkState s' (hs s), ObUnit)
      | Err EKey => (s, ObBad)
      | Err e => (s, ObErr e)
      | OutOfFuel => (s, ObBad)
      end
  | ORemove _ o =>
      match remove_fs (st s) hd o with
      | Ok s' => (mkState s' (hs s), ObUnit)
      | Err EKey => (s, ObBad)
      | Err e => (s, ObErr e)
      | OutOfFuel => (s, ObBad)
      end
  | OSetText _ v => sofa_write s hd (sofa_set_text v)
  | OSetMime _ v => sofa_write s hd (sofa_set_mime v)
  | OSetUri _ v => sofa_write s hd (sofa_set_uri v)
  | OSetArr _ v => sofa_write s hd (sofa_set_arr v)
  | OGetText _ => sofa_read s hd (fun x => ObText (s_text x))
  | OGetMime _ => sofa_read s hd (fun x => ObStr (s_mime x))
  | OGetUri _ => sofa_read s hd (fun x => ObStr (s_uri x))
  | OGetArr _ => sofa_read s hd (fun x => ObArr (s_arr x))
  | OSelectAll _ =>
      match alookup (h_view hd) (st_views (st s)) with
      | Some v => (s, ObSel (v_index v))
      | None => (s, ObBad)
      end
  | OGetLang _ =>
      match get_docann ts (st s) hd with
      | Ok (d, s') =>
          (mkState s' (hs s), ObStr (match hget d (st_heap s') with Some fs => f_lang fs | None => None end))
      | Err EKey => (s, ObBad)
      | Err e => (s, ObErr e)
      | OutOfFuel => (s, ObBad)
      end
  | OSetLang _ v =>
      match get_docann ts (st s) hd with
      | Ok (d, s') => (mkState (set_lang s' d v) (hs s), ObUnit)
      | Err EKey => (s, ObBad)
      | Err e => (s, ObErr e)
      | OutOfFuel => (s, ObBad)
      end
  | OCovered o => (s, covered_text (st s) o)
  end.

Definition step (ts : tsinfo) (s : state) (o : op) : state * obs :=
  match op_handle o with
  | Some h => match nth_error (hs s) h with Some hd => step_h ts s hd o | None => (s, ObBad) end
  | None => step_h ts s (mkHandle "" false) o
  end.

Fixpoint run (ts : tsinfo) (s : state) (ops : list op) : state * list obs :=
  match ops with
  | [] => (s, [])
  | o :: r => let '(s1, ob) := step ts s o in let '(s2, obs) := run ts s1 r in (s2, ob :: obs)
  end.

(* The TypeSystem is an object of its own, shared by every handle and consulted at every call (Type.descendants in
   _get_feature_structures, contains_type in add are evaluated when the call runs, nothing is remembered per handle):
   a history may declare types between operations.  TypeSystem.create_type(name, supertypeName = parent): ValueError
   when the name exists; otherwise the type is contained from now on and is a DocumentAnnotation descendant iff its
   parent is one (the parent is a declared type). *)
Inductive ev := EOp (o : op) | EDeclare (name parent : tname).
Definition declare (name parent : tname) (ts : tsinfo) : tsinfo :=
  mkTs (ts_types ts ++ [name]) (if memb parent (ts_family ts) then ts_family ts ++ [name] else ts_family ts).
Definition step_ev (ts : tsinfo) (s : state) (e : ev) : tsinfo * state * obs :=
  match e with
  | EOp o => let '(s', ob) := step ts s o in (ts, s', ob)
  | EDeclare n p => if memb n (ts_types ts) then (ts, s, ObErr EValue) else (declare n p ts, s, ObUnit)
  end.
Fixpoint run_ev (ts : tsinfo) (s : state) (evs : list ev) : tsinfo * state * list obs :=
  match evs with
  | [] => (ts, s, [])
  | e :: r => let '(ts1, s1, ob) := step_ev ts s e in let '(ts2, s2, obs) := run_ev ts1 s1 r in (ts2, s2, ob :: obs)
  end.

(* Cas(typesystem, lenient, sofa_string, sofa_mime, document_language): the initial view, handle 0, then the
   constructor's own use of the setters (sofa_mime only together with sofa_string, default text/plain) *)
Record ctor := mkCtor { k_lenient : bool; k_text : option text; k_mime : option string; k_lang : option string }.
Definition ctor_ops (k : ctor) : list op :=
  match k_text k with
  | Some t => [OSetText 0 (Some t); OSetMime 0 (Some (match k_mime k with Some m => m | None => "text/plain"%string end))]
  | None => []
  end ++ match k_lang k with Some l => [OSetLang 0 (Some l)] | None => [] end.
Definition init0 (lenient : bool) (heap : list (oid * fsobj)) : state :=
  mkState (add_view "_InitialView" None None (empty_store heap)) [mkHandle "_InitialView" lenient].
Definition init (ts : tsinfo) (k : ctor) (heap : list (oid * fsobj)) : state :=
  fst (run ts (init0 (k_lenient k) heap) (ctor_ops k)).

(* ---------------------------------------------------------------- what can be seen of a state *)

Definition view_sofa (s : store) (name : string) : option sofa :=
  match alookup name (st_views s) with Some v => nth_error (st_sheap s) (v_sofa v) | None => None end.
Definition view_index (s : store) (name : string) : list oid :=
  match alookup name (st_views s) with Some v => v_index v | None => [] end.
Definition family_count (ts : tsinfo) (s : store) (name : string) : nat :=
  List.length (filter (is_family ts s) (view_index s name)).

(* retargeting an operation to another handle *)
Definition retarget (h' : nat) (o : op) : op :=
  match o with
  | OCreateView _ n x k => OCreateView h' n x k | OGetView _ n => OGetView h' n
  | OAdd _ x k => OAdd h' x k | ORemove _ x => ORemove h' x
  | OSetText _ v => OSetText h' v | OSetMime _ v => OSetMime h' v | OSetUri _ v => OSetUri h' v | OSetArr _ v => OSetArr h' v
  | OGetText _ => OGetText h' | OGetMime _ => OGetMime h' | OGetUri _ => OGetUri h' | OGetArr _ => OGetArr h'
  | OSelectAll _ => OSelectAll h' | OGetLang _ => OGetLang h' | OSetLang _ v => OSetLang h' v
  | OCovered x => OCovered x
  end.

(* the invariant tying the two dicts, the views and the Sofa objects together *)
Fixpoint wf_from (i : nat) (views : list (string * view)) (sofas : list (string * nat)) (sheap : list sofa) : bool :=
  match views, sofas, sheap with
  | [], [], [] => true
  | (n, v) :: vr, (n', a) :: sr, x :: xr =>
      String.eqb n n' && Nat.eqb (v_sofa v) i && Nat.eqb a i && String.eqb (s_name x) n && wf_from (S i) vr sr xr
  | _, _, _ => false
  end.
Fixpoint nodupb (l : list string) : bool :=
  match l with [] => true | x :: r => negb (memb x r) && nodupb r end.
Definition wf_store (s : store) : bool :=
  wf_from 0 (st_views s) (st_sofas s) (st_sheap s) && nodupb (akeys (st_views s)).

(* Cas._copy before 779cf12 built the new handle with Cas(self._typesystem): lenient fell back to False *)
Definition new_handle_old (name : string) (hd : handle) : handle := mkHandle name false.
