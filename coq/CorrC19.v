(* CorrC19.v — correspondence harness for C19: a case carries the schema, the CAS as built through the public API (as in
   CorrC15: objects by label with their ids before the call, members per view in select_all order, the generator's next id)
   and what Cas.typecheck() did: the error kind if it raised, else the xmiIDs carried by the returned TypeCheckErrors,
   sorted.  check_case evaluates Typecheck.typecheck_cas (which runs Reach.find_all_fs and so assigns ids) and compares. *)
From Cassis Require Import Base Heap Schema Reach Typecheck.
Open Scope Z_scope.

Record case := mkCase {
  k_schema : schema;
  k_cas : cas;
  k_err : option err;          (* Some e: typecheck raised *)
  k_owners : list Z }.         (* xmiID of every returned error, sorted *)

Fixpoint all_some (l : list (option xid)) : option (list Z) :=
  match l with
  | [] => Some []
  | Some i :: r => match all_some r with Some r' => Some (i :: r') | None => None end
  | None :: _ => None
  end.

Definition check_case (c : case) : bool :=
  match typecheck_cas (k_schema c) (k_cas c), k_err c with
  | Ok l, None => match all_some l with Some ids => list_eqb Z.eqb (zsort ids) (k_owners c) | None => false end
  | Err e, Some e' => err_eqb e e'
  | _, _ => false
  end.

(* premises of typecheck_total *)
Definition premises (c : case) : bool :=
  let h := c_heap (k_cas c) in
  wf_heapb false (k_schema c) h && seeds_liveb h (member_seeds (k_cas c)) && ids_okb h (c_next_id (k_cas c))
  && tc_heapb (k_schema c) h.

(* A generated case is a SEQUENCE of calls (harness: `stages`): the stages of one sequence were run on ONE shared TypeSystem
   object that gained features between the calls (a feature declared on a type, on its supertype, or pulled up to a
   supertype with a definition identical to the one a subtype already has), each on a CAS of its own; the feature
   structures of a stage may have been created with the Type objects of a second TypeSystem declaring the same types.
   The model has no state besides its arguments and names types by name, so every stage is checked on its own against
   the schema in force at that call: what an earlier call left behind in the implementation (a cached answer, a stale
   feature list) or which Type object a structure carries must not show.  The theorems of TypecheckProofs.v hold for
   every schema and CAS, hence for every stage.  A single call is a sequence of length one. *)
Definition staged := list case.
Definition check_staged (l : staged) : bool := forallb check_case l.
Definition premises_staged (l : staged) : bool := forallb premises l.

(* The schema of the fixed type system C_TSPEC of harness/props/C19.py, rendered once (scen.g_schema); C19.py re-renders it on
   every run and refers to this constant only when the text between the markers is identical to what it would emit. *)
Definition schemaC : schema :=
(* BEGIN schemaC *)
[mkTi "c.AnnOwner"%string ["c.AnnOwner"%string; "uima.tcas.Annotation"%string; "uima.cas.AnnotationBase"%string; "uima.cas.TOP"%string] [mkFd "items"%string "items"%string "uima.cas.FSArray"%string (Some "c.Mid"%string) false; mkFd "owner"%string "owner"%string "c.Owner"%string None false; mkFd "begin"%string "begin"%string "uima.cas.Integer"%string None false; mkFd "end"%string "end"%string "uima.cas.Integer"%string None false; mkFd "sofa"%string "sofa"%string "uima.cas.Sofa"%string None false];
  mkTi "c.Base"%string ["c.Base"%string; "uima.cas.TOP"%string] [mkFd "n"%string "n"%string "uima.cas.Integer"%string None false];
  mkTi "c.Leaf"%string ["c.Leaf"%string; "c.Mid"%string; "c.Base"%string; "uima.cas.TOP"%string] [mkFd "n"%string "n"%string "uima.cas.Integer"%string None false];
  mkTi "c.Mid"%string ["c.Mid"%string; "c.Base"%string; "uima.cas.TOP"%string] [mkFd "n"%string "n"%string "uima.cas.Integer"%string None false];
  mkTi "c.Other"%string ["c.Other"%string; "uima.cas.TOP"%string] [];
  mkTi "c.Owner"%string ["c.Owner"%string; "uima.cas.TOP"%string] [mkFd "any"%string "any"%string "uima.cas.FSArray"%string None false; mkFd "tops"%string "tops"%string "uima.cas.FSArray"%string (Some "uima.cas.TOP"%string) false; mkFd "bases"%string "bases"%string "uima.cas.FSArray"%string (Some "c.Base"%string) false; mkFd "mids"%string "mids"%string "uima.cas.FSArray"%string (Some "c.Mid"%string) false; mkFd "leaves"%string "leaves"%string "uima.cas.FSArray"%string (Some "c.Leaf"%string) false; mkFd "others"%string "others"%string "uima.cas.FSArray"%string (Some "c.Other"%string) false; mkFd "shared"%string "shared"%string "uima.cas.FSArray"%string (Some "c.Mid"%string) true; mkFd "owners"%string "owners"%string "uima.cas.FSArray"%string (Some "c.Owner"%string) false; mkFd "ref"%string "ref"%string "c.Owner"%string None false; mkFd "top"%string "top"%string "uima.cas.TOP"%string None false; mkFd "lst"%string "lst"%string "uima.cas.FSList"%string None false; mkFd "slst"%string "slst"%string "uima.cas.FSList"%string None true; mkFd "ints"%string "ints"%string "uima.cas.IntegerArray"%string None false];
  mkTi "c.SubOwner"%string ["c.SubOwner"%string; "c.Owner"%string; "uima.cas.TOP"%string] [mkFd "extra"%string "extra"%string "uima.cas.FSArray"%string (Some "c.Leaf"%string) false; mkFd "any"%string "any"%string "uima.cas.FSArray"%string None false; mkFd "tops"%string "tops"%string "uima.cas.FSArray"%string (Some "uima.cas.TOP"%string) false; mkFd "bases"%string "bases"%string "uima.cas.FSArray"%string (Some "c.Base"%string) false; mkFd "mids"%string "mids"%string "uima.cas.FSArray"%string (Some "c.Mid"%string) false; mkFd "leaves"%string "leaves"%string "uima.cas.FSArray"%string (Some "c.Leaf"%string) false; mkFd "others"%string "others"%string "uima.cas.FSArray"%string (Some "c.Other"%string) false; mkFd "shared"%string "shared"%string "uima.cas.FSArray"%string (Some "c.Mid"%string) true; mkFd "owners"%string "owners"%string "uima.cas.FSArray"%string (Some "c.Owner"%string) false; mkFd "ref"%string "ref"%string "c.Owner"%string None false; mkFd "top"%string "top"%string "uima.cas.TOP"%string None false; mkFd "lst"%string "lst"%string "uima.cas.FSList"%string None false; mkFd "slst"%string "slst"%string "uima.cas.FSList"%string None true; mkFd "ints"%string "ints"%string "uima.cas.IntegerArray"%string None false];
  mkTi "uima.cas.AnnotationBase"%string ["uima.cas.AnnotationBase"%string; "uima.cas.TOP"%string] [mkFd "sofa"%string "sofa"%string "uima.cas.Sofa"%string None false];
  mkTi "uima.cas.ArrayBase"%string ["uima.cas.ArrayBase"%string; "uima.cas.TOP"%string] [mkFd "elements"%string "elements"%string "uima.cas.TOP"%string None true];
  mkTi "uima.cas.EmptyFSList"%string ["uima.cas.EmptyFSList"%string; "uima.cas.FSList"%string; "uima.cas.ListBase"%string; "uima.cas.TOP"%string] [];
  mkTi "uima.cas.FSArray"%string ["uima.cas.FSArray"%string; "uima.cas.ArrayBase"%string; "uima.cas.TOP"%string] [mkFd "elements"%string "elements"%string "uima.cas.TOP"%string None true];
  mkTi "uima.cas.FSList"%string ["uima.cas.FSList"%string; "uima.cas.ListBase"%string; "uima.cas.TOP"%string] [];
  mkTi "uima.cas.Integer"%string ["uima.cas.Integer"%string; "uima.cas.TOP"%string] [];
  mkTi "uima.cas.IntegerArray"%string ["uima.cas.IntegerArray"%string; "uima.cas.ArrayBase"%string; "uima.cas.TOP"%string] [mkFd "elements"%string "elements"%string "uima.cas.TOP"%string None true];
  mkTi "uima.cas.ListBase"%string ["uima.cas.ListBase"%string; "uima.cas.TOP"%string] [];
  mkTi "uima.cas.NonEmptyFSList"%string ["uima.cas.NonEmptyFSList"%string; "uima.cas.FSList"%string; "uima.cas.ListBase"%string; "uima.cas.TOP"%string] [mkFd "head"%string "head"%string "uima.cas.TOP"%string None true; mkFd "tail"%string "tail"%string "uima.cas.FSList"%string None true];
  mkTi "uima.cas.Sofa"%string ["uima.cas.Sofa"%string; "uima.cas.TOP"%string] [mkFd "sofaNum"%string "sofaNum"%string "uima.cas.Integer"%string None false; mkFd "sofaID"%string "sofaID"%string "uima.cas.String"%string None false; mkFd "mimeType"%string "mimeType"%string "uima.cas.String"%string None false; mkFd "sofaArray"%string "sofaArray"%string "uima.cas.TOP"%string None true; mkFd "sofaString"%string "sofaString"%string "uima.cas.String"%string None false; mkFd "sofaURI"%string "sofaURI"%string "uima.cas.String"%string None false];
  mkTi "uima.cas.String"%string ["uima.cas.String"%string; "uima.cas.TOP"%string] [];
  mkTi "uima.cas.TOP"%string ["uima.cas.TOP"%string] [];
  mkTi "uima.tcas.Annotation"%string ["uima.tcas.Annotation"%string; "uima.cas.AnnotationBase"%string; "uima.cas.TOP"%string] [mkFd "begin"%string "begin"%string "uima.cas.Integer"%string None false; mkFd "end"%string "end"%string "uima.cas.Integer"%string None false; mkFd "sofa"%string "sofa"%string "uima.cas.Sofa"%string None false]]
(* END schemaC *)
.

(* The built-in part (closure of uima.cas.FSArray, uima.cas.String, Sofa and Annotation) of the schemas of the sequence family
   (S_BASE / S_POOL of C19.py), used under the same verbatim condition; the user types are rendered per call. *)
Definition schemaSB : schema :=
(* BEGIN schemaSB *)
[mkTi "uima.cas.AnnotationBase"%string ["uima.cas.AnnotationBase"%string; "uima.cas.TOP"%string] [mkFd "sofa"%string "sofa"%string "uima.cas.Sofa"%string None false];
  mkTi "uima.cas.ArrayBase"%string ["uima.cas.ArrayBase"%string; "uima.cas.TOP"%string] [mkFd "elements"%string "elements"%string "uima.cas.TOP"%string None true];
  mkTi "uima.cas.FSArray"%string ["uima.cas.FSArray"%string; "uima.cas.ArrayBase"%string; "uima.cas.TOP"%string] [mkFd "elements"%string "elements"%string "uima.cas.TOP"%string None true];
  mkTi "uima.cas.Integer"%string ["uima.cas.Integer"%string; "uima.cas.TOP"%string] [];
  mkTi "uima.cas.Sofa"%string ["uima.cas.Sofa"%string; "uima.cas.TOP"%string] [mkFd "sofaNum"%string "sofaNum"%string "uima.cas.Integer"%string None false; mkFd "sofaID"%string "sofaID"%string "uima.cas.String"%string None false; mkFd "mimeType"%string "mimeType"%string "uima.cas.String"%string None false; mkFd "sofaArray"%string "sofaArray"%string "uima.cas.TOP"%string None true; mkFd "sofaString"%string "sofaString"%string "uima.cas.String"%string None false; mkFd "sofaURI"%string "sofaURI"%string "uima.cas.String"%string None false];
  mkTi "uima.cas.String"%string ["uima.cas.String"%string; "uima.cas.TOP"%string] [];
  mkTi "uima.cas.TOP"%string ["uima.cas.TOP"%string] [];
  mkTi "uima.tcas.Annotation"%string ["uima.tcas.Annotation"%string; "uima.cas.AnnotationBase"%string; "uima.cas.TOP"%string] [mkFd "begin"%string "begin"%string "uima.cas.Integer"%string None false; mkFd "end"%string "end"%string "uima.cas.Integer"%string None false; mkFd "sofa"%string "sofa"%string "uima.cas.Sofa"%string None false]]
(* END schemaSB *)
.
