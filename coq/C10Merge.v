(* C10Merge.v — C10, third part: the property quantifies over type systems "obtained by ANY sequence of type creation ...
   and merging".  `built` is that closure inside the model: TypeSystem(), any history of create_type / create_feature /
   instantiation applied to a built type system, and merge_typesystems (Merge.v, C13's model of the mechanism) of any
   tuple of built type systems — nested to any depth, a merge result being extended and merged again.
   built_WFh: every such type system satisfies the hierarchy invariant WFh, hence every query theorem of Props/C10.v
   (children, descendants, subsumes, is_instance_of, get_type, reference registration) holds of it.
   The proof composes TSProofs.run_WFh with MergeProofs.merge_WFh by a nested induction over `built`. *)
From Cassis Require Import Base TS TSProofs Merge MergeProofs.

Inductive built : tsys -> Prop :=
| built_new : built init_ts
| built_ops : forall ops ts, built ts -> built (final_ts ops ts)
| built_merge : forall inputs ts, (forall t, In t inputs -> built t) -> merge inputs = Ok ts -> built ts.

Fixpoint built_WFh (ts : tsys) (b : built ts) {struct b} : WFh ts :=
  match b in built t return WFh t with
  | built_new => init_WFh
  | built_ops ops ts0 b0 => run_WFh ops ts0 (built_WFh ts0 b0)
  | built_merge inputs ts0 H Hm => merge_WFh inputs ts0 (fun t Hin => built_WFh t (H t Hin)) Hm
  end.

(* the merge of built type systems never runs out of the round bound, and raises nothing but ValueError *)
Lemma built_merge_terminates inputs : (forall t, In t inputs -> built t) -> merge inputs <> OutOfFuel.
Proof. intros H. apply merge_terminates. intros t Hin. apply (built_WFh t (H t Hin)). Qed.

(* descendants on a built type system: the closure of the declared relation, whatever was merged or created before *)
Lemma built_descendants ts a : built ts -> In a ts ->
  exists l, descendants (desc_fuel ts) ts (t_name a) = Some l /\ NoDup l /\ forall d, In d l <-> below ts (t_name a) d.
Proof. intros B. apply descendants_full_spec. apply (built_WFh ts B). Qed.

Lemma built_refs_registered ts t : built ts -> In t ts ->
  find_ty ts (t_name t) = Some t /\
  (forall s, t_super t = Some s -> registered ts s = true) /\
  (forall c, In c (t_children t) -> registered ts c = true) /\
  (forall f, In f (all_features t) -> feat_refs_ok ts f) /\
  (forall f, In f (t_own t) -> f_dom f = t_name t).
Proof. intros B. apply refs_registered. apply (built_WFh ts B). Qed.
