(* CorrC15.v — correspondence harness for C15 (and the reachability half of C04): a case carries the schema, the CAS as
   built through the public API (objects by label, ids before the traversal, indexed members per view in select_all
   order, the id the generator hands out next), the arguments of Cas._find_all_fs (include_inlinable_arrays_and_lists,
   optional explicit seeds) and what `list(cas._find_all_fs(...))` did: the error kind, or the (xmiID, label) pairs in
   the order returned, the xmiID of every object afterwards and the generator's next id afterwards.
   check_case evaluates the model Reach.find_all_fs / find_all_from with fuel_bound and compares.
   Second observation (second-wave hardening): what `cas.to_xmi()` did on a CAS built the same way — returned, or raised
   ValueError; compared with ReachList.to_xmi_lists (traversal + the list walks of the writer: a list of any kind written
   inline whose tail chain is cyclic is refused, a forced duplicate id is refused, everything else is written).
   Third observation (fourth-wave hardening), on graphs whose types live in several packages: from the XMI document alone,
   the packages of the feature-structure elements in the order in which they are first met (raw prefix = last component
   of the package, namespace url) and the prefix the document uses for every namespace other than the writer's own two;
   compared with ReachPrefix.assign_all (the table of prefixes with its search for a free prefix). *)
From Cassis Require Import Base Heap Schema Reach ReachList ReachPrefix.
Open Scope Z_scope.

Record case := mkCase {
  k_schema : schema;
  k_cas : cas;
  k_inl : bool;
  k_seeds : option (list oid);
  k_err : option err;                   (* Some e: the call raised (kind) *)
  k_found : list (xid * oid);           (* returned feature structures, in order *)
  k_ids : list (oid * option xid);      (* xmiID of every object after the call *)
  k_next : Z;                           (* next id of the generator after the call *)
  k_xmi : option bool;                  (* to_xmi on a twin CAS: Some true returned, Some false raised ValueError, None not compared *)
  k_ns : option (list (string * string) * list (string * string)) }.
                                        (* packages (raw prefix, url) in the order first written; (prefix, url) used by the document *)

Definition model (c : case) : res wstate :=
  match k_seeds c with
  | None => find_all_fs (k_inl c) (k_schema c) (k_cas c)
  | Some l => find_all_from (k_inl c) (k_schema c) (k_cas c) l
  end.

Definition pair_eqb (a b : xid * oid) : bool := Z.eqb (fst a) (fst b) && N.eqb (snd a) (snd b).
Definition ids_agree (h : heap) (l : list (oid * option xid)) : bool :=
  forallb (fun p => match hget h (fst p) with Some f => opt_eqb Z.eqb (o_id f) (snd p) | None => false end) l.

Definition xmi_agrees (c : case) : bool :=
  match k_xmi c with
  | None => true
  | Some returned =>
    match to_xmi_lists (k_schema c) (k_cas c) with
    | Ok _ => returned
    | Err EValue | Err EDupId => negb returned       (* both are ValueError in the implementation *)
    | _ => false
    end
  end.

Definition check_traversal (c : case) : bool :=
  match model c, k_err c with
  | Ok w, None => list_eqb pair_eqb (w_all w) (k_found c) && ids_agree (w_heap w) (k_ids c) && Z.eqb (w_next w) (k_next c)
                  && match w_open w with [] => true | _ => false end
  | Err e, Some e' => err_eqb e e'
  | _, _ => false
  end.
(* every namespace of the document carries the prefix the modelled table gives it (the search returned: not OutOfFuel) *)
Definition ns_agrees (c : case) : bool :=
  match k_ns c with
  | None => true
  | Some (seq, decl) =>
    match assign_all ns_init seq with
    | Ok st => forallb (fun pu => match alookup (snd pu) (ns_urls st) with Some p => String.eqb p (fst pu) | None => false end) decl
    | _ => false
    end
  end.

Definition check_case (c : case) : bool := check_traversal c && xmi_agrees c && ns_agrees c.

(* premises of find_all_total: every scanned value is None or a live reference, seeds are live *)
Definition premises (c : case) : bool :=
  wf_heapb (k_inl c) (k_schema c) (c_heap (k_cas c))
  && seeds_liveb (c_heap (k_cas c)) (match k_seeds c with Some l => l | None => member_seeds (k_cas c) end).

(* The schema of the fixed type system G_TSPEC of harness/props/C15.py, rendered once (scen.g_schema) so that the cases
   of the systematic shapes need not repeat it; C15.py re-renders it on every run and uses this constant only when the
   text between the two markers is identical, character for character, to what it would emit. *)
Open Scope string_scope.
Definition schemaG : schema :=
(* BEGIN schemaG *)
[mkTi "g.Ann"%string ["g.Ann"%string; "uima.tcas.Annotation"%string; "uima.cas.AnnotationBase"%string; "uima.cas.TOP"%string] [mkFd "ref"%string "ref"%string "g.Node"%string None false; mkFd "arr"%string "arr"%string "uima.cas.FSArray"%string None false; mkFd "lst"%string "lst"%string "uima.cas.FSList"%string None false; mkFd "begin"%string "begin"%string "uima.cas.Integer"%string None false; mkFd "end"%string "end"%string "uima.cas.Integer"%string None false; mkFd "sofa"%string "sofa"%string "uima.cas.Sofa"%string None false];
  mkTi "g.Node"%string ["g.Node"%string; "uima.cas.TOP"%string] [mkFd "a"%string "a"%string "g.Node"%string None false; mkFd "b"%string "b"%string "g.Node"%string None false; mkFd "top"%string "top"%string "uima.cas.TOP"%string None false; mkFd "arr"%string "arr"%string "uima.cas.FSArray"%string (Some "g.Node"%string) false; mkFd "sarr"%string "sarr"%string "uima.cas.FSArray"%string (Some "g.Node"%string) true; mkFd "lst"%string "lst"%string "uima.cas.FSList"%string None false; mkFd "slst"%string "slst"%string "uima.cas.FSList"%string None true; mkFd "n"%string "n"%string "uima.cas.Integer"%string None false; mkFd "ints"%string "ints"%string "uima.cas.IntegerArray"%string None false; mkFd "strs"%string "strs"%string "uima.cas.StringList"%string None true; mkFd "il"%string "il"%string "uima.cas.IntegerList"%string None false; mkFd "fl"%string "fl"%string "uima.cas.FloatList"%string None false; mkFd "sl"%string "sl"%string "uima.cas.StringList"%string None false; mkFd "sil"%string "sil"%string "uima.cas.IntegerList"%string None true];
  mkTi "g.Sub"%string ["g.Sub"%string; "g.Node"%string; "uima.cas.TOP"%string] [mkFd "c"%string "c"%string "g.Node"%string None false; mkFd "farr"%string "farr"%string "uima.cas.FSArray"%string None false; mkFd "a"%string "a"%string "g.Node"%string None false; mkFd "b"%string "b"%string "g.Node"%string None false; mkFd "top"%string "top"%string "uima.cas.TOP"%string None false; mkFd "arr"%string "arr"%string "uima.cas.FSArray"%string (Some "g.Node"%string) false; mkFd "sarr"%string "sarr"%string "uima.cas.FSArray"%string (Some "g.Node"%string) true; mkFd "lst"%string "lst"%string "uima.cas.FSList"%string None false; mkFd "slst"%string "slst"%string "uima.cas.FSList"%string None true; mkFd "n"%string "n"%string "uima.cas.Integer"%string None false; mkFd "ints"%string "ints"%string "uima.cas.IntegerArray"%string None false; mkFd "strs"%string "strs"%string "uima.cas.StringList"%string None true; mkFd "il"%string "il"%string "uima.cas.IntegerList"%string None false; mkFd "fl"%string "fl"%string "uima.cas.FloatList"%string None false; mkFd "sl"%string "sl"%string "uima.cas.StringList"%string None false; mkFd "sil"%string "sil"%string "uima.cas.IntegerList"%string None true];
  mkTi "uima.cas.AnnotationBase"%string ["uima.cas.AnnotationBase"%string; "uima.cas.TOP"%string] [mkFd "sofa"%string "sofa"%string "uima.cas.Sofa"%string None false];
  mkTi "uima.cas.ArrayBase"%string ["uima.cas.ArrayBase"%string; "uima.cas.TOP"%string] [mkFd "elements"%string "elements"%string "uima.cas.TOP"%string None true];
  mkTi "uima.cas.EmptyFSList"%string ["uima.cas.EmptyFSList"%string; "uima.cas.FSList"%string; "uima.cas.ListBase"%string; "uima.cas.TOP"%string] [];
  mkTi "uima.cas.EmptyFloatList"%string ["uima.cas.EmptyFloatList"%string; "uima.cas.FloatList"%string; "uima.cas.ListBase"%string; "uima.cas.TOP"%string] [];
  mkTi "uima.cas.EmptyIntegerList"%string ["uima.cas.EmptyIntegerList"%string; "uima.cas.IntegerList"%string; "uima.cas.ListBase"%string; "uima.cas.TOP"%string] [];
  mkTi "uima.cas.EmptyStringList"%string ["uima.cas.EmptyStringList"%string; "uima.cas.StringList"%string; "uima.cas.ListBase"%string; "uima.cas.TOP"%string] [];
  mkTi "uima.cas.FSArray"%string ["uima.cas.FSArray"%string; "uima.cas.ArrayBase"%string; "uima.cas.TOP"%string] [mkFd "elements"%string "elements"%string "uima.cas.TOP"%string None true];
  mkTi "uima.cas.FSList"%string ["uima.cas.FSList"%string; "uima.cas.ListBase"%string; "uima.cas.TOP"%string] [];
  mkTi "uima.cas.Float"%string ["uima.cas.Float"%string; "uima.cas.TOP"%string] [];
  mkTi "uima.cas.FloatList"%string ["uima.cas.FloatList"%string; "uima.cas.ListBase"%string; "uima.cas.TOP"%string] [];
  mkTi "uima.cas.Integer"%string ["uima.cas.Integer"%string; "uima.cas.TOP"%string] [];
  mkTi "uima.cas.IntegerArray"%string ["uima.cas.IntegerArray"%string; "uima.cas.ArrayBase"%string; "uima.cas.TOP"%string] [mkFd "elements"%string "elements"%string "uima.cas.TOP"%string None true];
  mkTi "uima.cas.IntegerList"%string ["uima.cas.IntegerList"%string; "uima.cas.ListBase"%string; "uima.cas.TOP"%string] [];
  mkTi "uima.cas.ListBase"%string ["uima.cas.ListBase"%string; "uima.cas.TOP"%string] [];
  mkTi "uima.cas.NonEmptyFSList"%string ["uima.cas.NonEmptyFSList"%string; "uima.cas.FSList"%string; "uima.cas.ListBase"%string; "uima.cas.TOP"%string] [mkFd "head"%string "head"%string "uima.cas.TOP"%string None true; mkFd "tail"%string "tail"%string "uima.cas.FSList"%string None true];
  mkTi "uima.cas.NonEmptyFloatList"%string ["uima.cas.NonEmptyFloatList"%string; "uima.cas.FloatList"%string; "uima.cas.ListBase"%string; "uima.cas.TOP"%string] [mkFd "head"%string "head"%string "uima.cas.Float"%string None false; mkFd "tail"%string "tail"%string "uima.cas.FloatList"%string None true];
  mkTi "uima.cas.NonEmptyIntegerList"%string ["uima.cas.NonEmptyIntegerList"%string; "uima.cas.IntegerList"%string; "uima.cas.ListBase"%string; "uima.cas.TOP"%string] [mkFd "head"%string "head"%string "uima.cas.Integer"%string None false; mkFd "tail"%string "tail"%string "uima.cas.IntegerList"%string None true];
  mkTi "uima.cas.NonEmptyStringList"%string ["uima.cas.NonEmptyStringList"%string; "uima.cas.StringList"%string; "uima.cas.ListBase"%string; "uima.cas.TOP"%string] [mkFd "head"%string "head"%string "uima.cas.String"%string None false; mkFd "tail"%string "tail"%string "uima.cas.StringList"%string None true];
  mkTi "uima.cas.Sofa"%string ["uima.cas.Sofa"%string; "uima.cas.TOP"%string] [mkFd "sofaNum"%string "sofaNum"%string "uima.cas.Integer"%string None false; mkFd "sofaID"%string "sofaID"%string "uima.cas.String"%string None false; mkFd "mimeType"%string "mimeType"%string "uima.cas.String"%string None false; mkFd "sofaArray"%string "sofaArray"%string "uima.cas.TOP"%string None true; mkFd "sofaString"%string "sofaString"%string "uima.cas.String"%string None false; mkFd "sofaURI"%string "sofaURI"%string "uima.cas.String"%string None false];
  mkTi "uima.cas.String"%string ["uima.cas.String"%string; "uima.cas.TOP"%string] [];
  mkTi "uima.cas.StringArray"%string ["uima.cas.StringArray"%string; "uima.cas.ArrayBase"%string; "uima.cas.TOP"%string] [mkFd "elements"%string "elements"%string "uima.cas.TOP"%string None true];
  mkTi "uima.cas.StringList"%string ["uima.cas.StringList"%string; "uima.cas.ListBase"%string; "uima.cas.TOP"%string] [];
  mkTi "uima.cas.TOP"%string ["uima.cas.TOP"%string] [];
  mkTi "uima.tcas.Annotation"%string ["uima.tcas.Annotation"%string; "uima.cas.AnnotationBase"%string; "uima.cas.TOP"%string] [mkFd "begin"%string "begin"%string "uima.cas.Integer"%string None false; mkFd "end"%string "end"%string "uima.cas.Integer"%string None false; mkFd "sofa"%string "sofa"%string "uima.cas.Sofa"%string None false]]
(* END schemaG *)
.

(* The schema of P_TSPEC of harness/props/C15.py (fourth wave: one type <package>.N in each of ten packages whose last
   components collide with each other, with numbered prefixes and with the prefixes the XMI writer reserves); same rule
   as for schemaG: used only when identical to what scen.g_schema renders now. *)
Definition schemaP : schema :=
(* BEGIN schemaP *)
[mkTi "p.type0.N"%string ["p.type0.N"%string; "uima.cas.TOP"%string] [mkFd "next"%string "next"%string "uima.cas.TOP"%string None false; mkFd "arr"%string "arr"%string "uima.cas.FSArray"%string None false; mkFd "lst"%string "lst"%string "uima.cas.FSList"%string None true];
  mkTi "p.type1.N"%string ["p.type1.N"%string; "uima.cas.TOP"%string] [mkFd "next"%string "next"%string "uima.cas.TOP"%string None false; mkFd "arr"%string "arr"%string "uima.cas.FSArray"%string None false; mkFd "lst"%string "lst"%string "uima.cas.FSList"%string None true];
  mkTi "p.v1.type.N"%string ["p.v1.type.N"%string; "uima.cas.TOP"%string] [mkFd "next"%string "next"%string "uima.cas.TOP"%string None false; mkFd "arr"%string "arr"%string "uima.cas.FSArray"%string None false; mkFd "lst"%string "lst"%string "uima.cas.FSList"%string None true];
  mkTi "p.v2.type.N"%string ["p.v2.type.N"%string; "uima.cas.TOP"%string] [mkFd "next"%string "next"%string "uima.cas.TOP"%string None false; mkFd "arr"%string "arr"%string "uima.cas.FSArray"%string None false; mkFd "lst"%string "lst"%string "uima.cas.FSList"%string None true];
  mkTi "p.v3.type.N"%string ["p.v3.type.N"%string; "uima.cas.TOP"%string] [mkFd "next"%string "next"%string "uima.cas.TOP"%string None false; mkFd "arr"%string "arr"%string "uima.cas.FSArray"%string None false; mkFd "lst"%string "lst"%string "uima.cas.FSList"%string None true];
  mkTi "q.cas.N"%string ["q.cas.N"%string; "uima.cas.TOP"%string] [mkFd "next"%string "next"%string "uima.cas.TOP"%string None false; mkFd "arr"%string "arr"%string "uima.cas.FSArray"%string None false; mkFd "lst"%string "lst"%string "uima.cas.FSList"%string None true];
  mkTi "q.cas0.N"%string ["q.cas0.N"%string; "uima.cas.TOP"%string] [mkFd "next"%string "next"%string "uima.cas.TOP"%string None false; mkFd "arr"%string "arr"%string "uima.cas.FSArray"%string None false; mkFd "lst"%string "lst"%string "uima.cas.FSList"%string None true];
  mkTi "q.xmi.N"%string ["q.xmi.N"%string; "uima.cas.TOP"%string] [mkFd "next"%string "next"%string "uima.cas.TOP"%string None false; mkFd "arr"%string "arr"%string "uima.cas.FSArray"%string None false; mkFd "lst"%string "lst"%string "uima.cas.FSList"%string None true];
  mkTi "q.xmi0.N"%string ["q.xmi0.N"%string; "uima.cas.TOP"%string] [mkFd "next"%string "next"%string "uima.cas.TOP"%string None false; mkFd "arr"%string "arr"%string "uima.cas.FSArray"%string None false; mkFd "lst"%string "lst"%string "uima.cas.FSList"%string None true];
  mkTi "r.cas.N"%string ["r.cas.N"%string; "uima.cas.TOP"%string] [mkFd "next"%string "next"%string "uima.cas.TOP"%string None false; mkFd "arr"%string "arr"%string "uima.cas.FSArray"%string None false; mkFd "lst"%string "lst"%string "uima.cas.FSList"%string None true];
  mkTi "uima.cas.AnnotationBase"%string ["uima.cas.AnnotationBase"%string; "uima.cas.TOP"%string] [mkFd "sofa"%string "sofa"%string "uima.cas.Sofa"%string None false];
  mkTi "uima.cas.ArrayBase"%string ["uima.cas.ArrayBase"%string; "uima.cas.TOP"%string] [mkFd "elements"%string "elements"%string "uima.cas.TOP"%string None true];
  mkTi "uima.cas.EmptyFSList"%string ["uima.cas.EmptyFSList"%string; "uima.cas.FSList"%string; "uima.cas.ListBase"%string; "uima.cas.TOP"%string] [];
  mkTi "uima.cas.FSArray"%string ["uima.cas.FSArray"%string; "uima.cas.ArrayBase"%string; "uima.cas.TOP"%string] [mkFd "elements"%string "elements"%string "uima.cas.TOP"%string None true];
  mkTi "uima.cas.FSList"%string ["uima.cas.FSList"%string; "uima.cas.ListBase"%string; "uima.cas.TOP"%string] [];
  mkTi "uima.cas.Integer"%string ["uima.cas.Integer"%string; "uima.cas.TOP"%string] [];
  mkTi "uima.cas.ListBase"%string ["uima.cas.ListBase"%string; "uima.cas.TOP"%string] [];
  mkTi "uima.cas.NonEmptyFSList"%string ["uima.cas.NonEmptyFSList"%string; "uima.cas.FSList"%string; "uima.cas.ListBase"%string; "uima.cas.TOP"%string] [mkFd "head"%string "head"%string "uima.cas.TOP"%string None true; mkFd "tail"%string "tail"%string "uima.cas.FSList"%string None true];
  mkTi "uima.cas.Sofa"%string ["uima.cas.Sofa"%string; "uima.cas.TOP"%string] [mkFd "sofaNum"%string "sofaNum"%string "uima.cas.Integer"%string None false; mkFd "sofaID"%string "sofaID"%string "uima.cas.String"%string None false; mkFd "mimeType"%string "mimeType"%string "uima.cas.String"%string None false; mkFd "sofaArray"%string "sofaArray"%string "uima.cas.TOP"%string None true; mkFd "sofaString"%string "sofaString"%string "uima.cas.String"%string None false; mkFd "sofaURI"%string "sofaURI"%string "uima.cas.String"%string None false];
  mkTi "uima.cas.String"%string ["uima.cas.String"%string; "uima.cas.TOP"%string] [];
  mkTi "uima.cas.TOP"%string ["uima.cas.TOP"%string] [];
  mkTi "uima.tcas.Annotation"%string ["uima.tcas.Annotation"%string; "uima.cas.AnnotationBase"%string; "uima.cas.TOP"%string] [mkFd "begin"%string "begin"%string "uima.cas.Integer"%string None false; mkFd "end"%string "end"%string "uima.cas.Integer"%string None false; mkFd "sofa"%string "sofa"%string "uima.cas.Sofa"%string None false]]
(* END schemaP *)
.
