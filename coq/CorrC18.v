(* CorrC18.v — correspondence harness for C18: a case carries a schema, a heap (objects labelled in
   creation order, slots as the harness assigned them), a sequence of path operations each with the
   observation made on the implementation, and the dump of all feature slots read by plain attribute
   access afterwards.  check_case runs the model of Paths.v over the same operations. *)
From Cassis Require Import Base Paths.

Inductive op :=
| OGet (item : bool) (root : oid) (p : parg)                (* fs.get(p) / fs[p] *)
| OSet (item : bool) (root : oid) (p : parg) (v : val)      (* fs.set(p, v) / fs[p] = v *)
| OValue (root : oid) (name : fname).                       (* fs.value(name) *)
Inductive obs := ObVal (v : val) | ObOk | ObErr (e : err).

Record case := mkCase {
  c_sch : schema; c_heap : heap; c_ops : list (op * obs);
  c_final : list (oid * list (fname * val)) }.

(* Long paths are written run-length encoded in the case files (a string literal of ten thousand characters
   costs seconds to parse): [(n1, segs1); (n2, segs2); ...] spells segs1 n1 times, then segs2 n2 times, ...,
   joined with ".".  The harness decodes its own encoding and compares with the path it ran before writing it. *)
Fixpoint rep_app {A} (n : nat) (l acc : list A) : list A :=
  match n with O => acc | S k => l ++ rep_app k l acc end.
Definition rle (bs : list (N * list string)) : string :=
  join_dot (fold_right (fun b acc => rep_app (N.to_nat (fst b)) (snd b) acc) [] bs).

Definition obs_eqb (a b : obs) : bool :=
  match a, b with
  | ObVal v, ObVal w => val_eqb v w
  | ObOk, ObOk => true
  | ObErr e, ObErr f => err_eqb e f
  | _, _ => false
  end.

Definition run_op (sch : schema) (h : heap) (o : op) : heap * obs :=
  match o with
  | OGet item root p =>
      (h, match get_arg sch h root p with   (* __getitem__ delegates to get *)
          | Ok v => ObVal v | Err e => ObErr e | OutOfFuel => ObErr ERuntime end)
  | OSet item root p v =>
      match set_arg sch h root p v with   (* __setitem__ delegates to set *)
      | (h', None) => (h', ObOk)
      | (h', Some e) => (h', ObErr e)
      end
  | OValue root name =>
      (h, match value sch h root name with
          | Ok v => ObVal v | Err e => ObErr e | OutOfFuel => ObErr ERuntime end)
  end.

Fixpoint run_ops (sch : schema) (h : heap) (ops : list (op * obs)) : heap * bool :=
  match ops with
  | [] => (h, true)
  | (o, expected) :: r =>
      let '(h', got) := run_op sch h o in
      let '(hf, ok) := run_ops sch h' r in
      (hf, obs_eqb got expected && ok)
  end.

Definition final_ok (h : heap) (dump : list (oid * list (fname * val))) : bool :=
  forallb (fun e => forallb (fun fv => val_eqb (slotv h (fst e) (fst fv)) (snd fv)) (snd e)) dump.

Definition check_case (c : case) : bool :=
  let '(hf, ok) := run_ops (c_sch c) (c_heap c) (c_ops c) in
  ok && final_ok hf (c_final c).

(* premise of set_then_get on every string-path set of the case (at the heap it is applied to);
   cases violating it exercise aliasing, where only set_then_get_general applies *)
Fixpoint alias_free (sch : schema) (h : heap) (ops : list (op * obs)) : bool :=
  match ops with
  | [] => true
  | (o, _) :: r =>
      let ok := match o with OSet _ root (PStr s) _ => avoidsb sch h root s | _ => true end in
      ok && alias_free sch (fst (run_op sch h o)) r
  end.
Definition premises (c : case) : bool := alias_free (c_sch c) (c_heap c) (c_ops c).

(* A scenario in stages.  Between two stages the type system grows (create_feature on a type or on one of
   its supertypes, after instances were created and after paths naming the future feature were looked up
   and assignments through it refused); every stage is a case on the schema of that moment with the
   structures created at that moment.  The model has no state besides (schema, heap): the same get / set
   must explain every stage, whatever was looked up before. *)
Definition mcase := list case.
(* the stages of a scenario only add features (sch_leb of Paths.v, sound for sch_le: sch_leb_sound) *)
Fixpoint growingb (m : mcase) : bool :=
  match m with
  | a :: ((b :: _) as r) => sch_leb (c_sch a) (c_sch b) && growingb r
  | _ => true
  end.
Definition check_mcase (m : mcase) : bool := growingb m && forallb check_case m.
Definition mpremises (m : mcase) : bool := forallb premises m.
