(* JsonProofs2.v — second part of the JSON proofs: the C04 half (what the writer produces is closed: ids distinct,
   references resolve) and the C05 half (presentation invariance of the declarative reading; the reader mechanism
   computes the declarative reading).  Builds on JsonProofs.v (denote_save_json) and ReachProofs / ReachSpec. *)
From Coq Require Import Ascii ZifyBool Permutation.
From Cassis Require Import Base Heap Schema Canon Reach ReachProofs ReachSpec JsonDoc Json JsonProofs.
From Cassis Require Offsets LexProofs.
Open Scope Z_scope.

(* ================================================================================================================ *)
(* generic: res, mapM, permutations, association lists, sorting                                                      *)
(* ================================================================================================================ *)

Lemma bind_Ok {A B} (r : res A) (k : A -> res B) b : bind r k = Ok b -> exists a, r = Ok a /\ k a = Ok b.
Proof. destruct r; cbn [bind]; intros H; try discriminate. eauto. Qed.

Lemma mapM_ext {A B} (f g : A -> res B) l : (forall x, In x l -> f x = g x) -> mapM f l = mapM g l.
Proof.
  induction l as [|x r IH]; intros H; cbn [mapM]; [reflexivity|].
  rewrite (H x (or_introl eq_refl)), IH; [reflexivity|]. intros y Hy. apply H. right. exact Hy.
Qed.

Lemma mapM_In {A B} (f : A -> res B) l : forall r, mapM f l = Ok r -> forall b, In b r -> exists a, In a l /\ f a = Ok b.
Proof.
  intros r H b Hb. destruct (Forall2_In_r _ _ _ _ (mapM_Forall2 f l r H) Hb) as (a & Ha & E). exists a. split; assumption.
Qed.
Lemma mapM_In_l {A B} (f : A -> res B) l : forall r, mapM f l = Ok r -> forall a, In a l -> exists b, In b r /\ f a = Ok b.
Proof.
  intros r H a Ha. destruct (Forall2_In_l _ _ _ _ (mapM_Forall2 f l r H) Ha) as (b & Hb & E). exists b. split; assumption.
Qed.

(* mapM over a permuted list: the results are permuted (an error stays an error, possibly another one) *)
Lemma mapM_perm {A B} (f : A -> res B) l l' : Permutation l l' ->
  forall r, mapM f l = Ok r -> exists r', mapM f l' = Ok r' /\ Permutation r r'.
Proof.
  induction 1 as [|x l l' HP IH|x y l|l l' l'' HP1 IH1 HP2 IH2]; intros r H.
  - exists r. split; [exact H|apply Permutation_refl].
  - cbn [mapM] in *. apply bind_Ok in H as (b & Eb & H). apply bind_Ok in H as (bs & Ebs & H). inversion H; subst r.
    destruct (IH bs Ebs) as (r' & Er' & P). exists (b :: r'). rewrite Eb, Er'. split; [reflexivity|constructor; exact P].
  - cbn [mapM] in *. apply bind_Ok in H as (b & Eb & H). apply bind_Ok in H as (bs & Ebs & H). inversion H; subst r.
    apply bind_Ok in Ebs as (c & Ec & Ebs). apply bind_Ok in Ebs as (cs & Ecs & Ebs). inversion Ebs; subst bs.
    exists (c :: b :: cs). rewrite Ec, Eb, Ecs. split; [reflexivity|apply perm_swap].
  - destruct (IH1 r H) as (r1 & E1 & P1). destruct (IH2 r1 E1) as (r2 & E2 & P2). exists r2. split; [exact E2|].
    eapply Permutation_trans; eassumption.
Qed.

Lemma filter_perm {A} (p : A -> bool) l l' : Permutation l l' -> Permutation (filter p l) (filter p l').
Proof.
  induction 1; cbn [filter]; try (constructor; fail).
  - destruct (p x); [constructor|]; assumption.
  - destruct (p x), (p y); try apply Permutation_refl. apply perm_swap.
  - eapply Permutation_trans; eassumption.
Qed.

Lemma zmem_In x l : zmem x l = true <-> In x l.
Proof.
  unfold zmem. rewrite existsb_exists. split.
  - intros (y & Hy & E). apply Z.eqb_eq in E. subst. exact Hy.
  - intros H. exists x. split; [exact H|apply Z.eqb_refl].
Qed.
Lemma znodup_iff l : znodup l = true <-> NoDup l.
Proof.
  split; [apply znodup_NoDup|]. induction 1 as [|x r Hn _ IH]; [reflexivity|]. cbn [znodup]. rewrite IH, andb_true_r.
  apply negb_true_iff. destruct (existsb (Z.eqb x) r) eqn:E; [|reflexivity]. exfalso. apply Hn. apply zmem_In. exact E.
Qed.
Lemma znodup_perm l l' : Permutation l l' -> znodup l = true -> znodup l' = true.
Proof. intros P H. apply znodup_iff. eapply Permutation_NoDup; [exact P|]. apply znodup_iff. exact H. Qed.

Lemma snodup_iff l : snodup l = true <-> NoDup l.
Proof.
  split; [apply snodup_NoDup|]. induction 1 as [|x r Hn _ IH]; [reflexivity|]. cbn [snodup]. rewrite IH, andb_true_r.
  apply negb_true_iff. apply memb_false. exact Hn.
Qed.

(* lookups in association lists with distinct keys do not depend on the order *)
Lemma alookup_In {V} k (l : list (string * V)) v : alookup k l = Some v -> In (k, v) l.
Proof.
  induction l as [|[k' v'] r IH]; cbn [alookup]; [discriminate|]. destruct (String.eqb k k') eqn:E.
  - apply String.eqb_eq in E. subst. intros [= <-]. left. reflexivity.
  - intros H. right. apply IH. exact H.
Qed.
Lemma alookup_None {V} k (l : list (string * V)) : alookup k l = None -> ~ In k (map fst l).
Proof.
  induction l as [|[k' v'] r IH]; cbn [alookup map fst]; [intros _ []|]. destruct (String.eqb k k') eqn:E; [discriminate|].
  intros H [E'|Hin]; [subst; rewrite String.eqb_refl in E; discriminate|]. exact (IH H Hin).
Qed.
Lemma alookup_perm {V} k (l l' : list (string * V)) : NoDup (map fst l) -> Permutation l l' -> alookup k l = alookup k l'.
Proof.
  intros ND P. assert (ND' : NoDup (map fst l')) by (eapply Permutation_NoDup; [apply Permutation_map; exact P|exact ND]).
  destruct (alookup k l) as [v|] eqn:E.
  - symmetry. apply alookup_nodup; [exact ND'|]. eapply Permutation_in; [exact P|]. apply alookup_In. exact E.
  - destruct (alookup k l') as [v'|] eqn:E'; [|reflexivity]. exfalso. apply (alookup_None _ _ E).
    apply alookup_In in E'. apply (in_map fst) in E'. eapply Permutation_in; [apply Permutation_sym, Permutation_map; exact P|exact E'].
Qed.
Lemma zlookup_In {V} k (l : list (Z * V)) v : zlookup k l = Some v -> In (k, v) l.
Proof.
  induction l as [|[k' v'] r IH]; cbn [zlookup]; [discriminate|]. destruct (Z.eqb k k') eqn:E.
  - apply Z.eqb_eq in E. subst. intros [= <-]. left. reflexivity.
  - intros H. right. apply IH. exact H.
Qed.
Lemma zlookup_None {V} k (l : list (Z * V)) : zlookup k l = None -> ~ In k (map fst l).
Proof.
  induction l as [|[k' v'] r IH]; cbn [zlookup map fst]; [intros _ []|]. destruct (Z.eqb k k') eqn:E; [discriminate|].
  intros H [E'|Hin]; [subst; rewrite Z.eqb_refl in E; discriminate|]. exact (IH H Hin).
Qed.
Lemma zlookup_perm {V} k (l l' : list (Z * V)) : NoDup (map fst l) -> Permutation l l' -> zlookup k l = zlookup k l'.
Proof.
  intros ND P. assert (ND' : NoDup (map fst l')) by (eapply Permutation_NoDup; [apply Permutation_map; exact P|exact ND]).
  destruct (zlookup k l) as [v|] eqn:E.
  - symmetry. apply zlookup_nodup; [exact ND'|]. eapply Permutation_in; [exact P|]. apply zlookup_In. exact E.
  - destruct (zlookup k l') as [v'|] eqn:E'; [|reflexivity]. exfalso. apply (zlookup_None _ _ E).
    apply zlookup_In in E'. apply (in_map fst) in E'. eapply Permutation_in; [apply Permutation_sym, Permutation_map; exact P|exact E'].
Qed.

(* insertion sort by an integer key: a permutation with distinct keys sorts to the same list *)
Lemma insert_by_comm {A} (key : A -> Z) x y l : key x <> key y ->
  insert_by key x (insert_by key y l) = insert_by key y (insert_by key x l).
Proof.
  intros Hne. induction l as [|z r IH]; cbn [insert_by];
  repeat (match goal with |- context [(?a <=? ?b)] => destruct (a <=? b) eqn:?; cbn [insert_by] end);
  try reflexivity; try lia. rewrite IH; reflexivity.
Qed.
Lemma sort_by_perm_eq {A} (key : A -> Z) l l' : Permutation l l' -> NoDup (map key l) -> sort_by key l = sort_by key l'.
Proof.
  unfold sort_by. induction 1 as [|x l l' HP IH|x y l|l l' l'' HP1 IH1 HP2 IH2]; intros ND; cbn [fold_right map] in *.
  - reflexivity.
  - inversion ND; subst. rewrite IH; auto.
  - inversion ND as [|? ? Hx ND']; subst. apply insert_by_comm. intros E. apply Hx. left. symmetry. exact E.
  - rewrite IH1; [|exact ND]. apply IH2. eapply Permutation_NoDup; [|exact ND]. apply Permutation_map. exact HP1.
Qed.
Lemma insert_by_is_perm {A} (key : A -> Z) x l : Permutation (insert_by key x l) (x :: l).
Proof.
  induction l as [|y r IH]; cbn [insert_by]; [apply Permutation_refl|].
  destruct (key x <=? key y); [apply Permutation_refl|]. eapply Permutation_trans; [apply perm_skip; exact IH|apply perm_swap].
Qed.
Lemma sort_by_is_perm {A} (key : A -> Z) l : Permutation (sort_by key l) l.
Proof.
  unfold sort_by. induction l as [|x r IH]; cbn [fold_right]; [constructor|].
  eapply Permutation_trans; [apply insert_by_is_perm|constructor; exact IH].
Qed.
Lemma zinsert_comm x y l : zinsert x (zinsert y l) = zinsert y (zinsert x l).
Proof.
  induction l as [|z r IH]; cbn [zinsert];
  repeat (match goal with |- context [(?a <=? ?b)] => destruct (a <=? b) eqn:?; cbn [zinsert] end);
  try reflexivity; try lia; try (assert (x = y) by lia; subst; reflexivity). rewrite IH; reflexivity.
Qed.
Lemma zsort_perm l l' : Permutation l l' -> zsort l = zsort l'.
Proof. unfold zsort. induction 1; cbn [fold_right]; try congruence. apply zinsert_comm. Qed.
Lemma sort_ids_is_perm l : Permutation (sort_ids l) l.
Proof.
  unfold sort_ids. induction l as [|x r IH]; cbn [fold_right]; [constructor|].
  eapply Permutation_trans; [|constructor; exact IH]. generalize (fold_right insert_id [] r). intros m.
  induction m as [|y m' IHm]; cbn [insert_id]; [apply Permutation_refl|].
  destruct (fst x <=? fst y); [apply Permutation_refl|]. eapply Permutation_trans; [apply perm_skip; exact IHm|apply perm_swap].
Qed.

(* ================================================================================================================ *)
(* C05: the declarative reading does not depend on the presentation                                                  *)
(* ================================================================================================================ *)

(* two entries say the same: same id, and the same value under every key except the redundant %ID member (the id-keyed
   form does not repeat it) — in particular the order of the members is free *)
Definition entry_equiv (e e' : entry) : Prop :=
  fst e = fst e' /\ forall k, k <> K_ID -> alookup k (snd e) = alookup k (snd e').
(* two view entries say the same: same name, sofa and members *)
Definition view_equiv (v v' : string * json) : Prop :=
  fst v = fst v' /\ jget K_MEMBERS (snd v) = jget K_MEMBERS (snd v') /\ jget K_SOFA (snd v) = jget K_SOFA (snd v').

(* two documents present the same content: their feature structures are the same up to order and member order, their
   views are the same up to order.  (Whether %FEATURE_STRUCTURES is an array or an id-keyed object, how the members of
   the document are ordered, and what %TYPES says, is invisible in fs_entries / doc_views.) *)
Definition same_content (d d' : json) : Prop :=
  exists es es' vs vs' es1 vs1,
    fs_entries d = Ok es /\ fs_entries d' = Ok es' /\ doc_views d = Ok vs /\ doc_views d' = Ok vs' /\
    NoDup (map fst es) /\ NoDup (map fst vs) /\
    Permutation es es1 /\ Forall2 entry_equiv es1 es' /\ Permutation vs vs1 /\ Forall2 view_equiv vs1 vs'.

(* feature names of the schema are plain (not %, @, # names) *)
Definition schema_keys_okb (s : schema) : bool :=
  forallb (fun ti => forallb (fun fd => name_okb (fd_xname fd)) (ti_feats ti)) s.

Lemma name_ok_not_id x : name_okb x = true -> x <> K_ID.
Proof. intros H E. subst. discriminate. Qed.
Lemma refkey_not_id x : refkey x <> K_ID.
Proof. discriminate. Qed.
Lemma numkey_not_id x : numkey x <> K_ID.
Proof. discriminate. Qed.

Lemma e_type_equiv e e' : entry_equiv e e' -> e_type e = e_type e'.
Proof. intros [_ H]. unfold e_type. rewrite (H K_TYPE); [reflexivity|discriminate]. Qed.
Lemma is_sofa_equiv e e' : entry_equiv e e' -> is_sofa_entry e = is_sofa_entry e'.
Proof. intros H. unfold is_sofa_entry. rewrite (e_type_equiv e e' H). reflexivity. Qed.

Lemma den_feature_equiv m m' fd : name_okb (fd_xname fd) = true ->
  (forall k, k <> K_ID -> alookup k m = alookup k m') -> den_feature m fd = den_feature m' fd.
Proof.
  intros Hn H. unfold den_feature. rewrite (H _ (refkey_not_id _)), (H _ (numkey_not_id _)), (H _ (name_ok_not_id _ Hn)). reflexivity.
Qed.

Lemma sch_find_keys s t ti : schema_keys_okb s = true -> sch_find s t = Some ti ->
  forall fd, In fd (ti_feats ti) -> name_okb (fd_xname fd) = true.
Proof.
  intros Hk Hf fd Hin. destruct (sch_find_name s t ti Hf) as [_ Hti]. unfold schema_keys_okb in Hk.
  rewrite forallb_forall in Hk. specialize (Hk ti Hti). rewrite forallb_forall in Hk. exact (Hk fd Hin).
Qed.

Lemma den_fs_equiv L s stab stab' e e' : schema_keys_okb s = true -> entry_equiv e e' ->
  (forall k, zlookup k stab = zlookup k stab') -> den_fs L s stab e = den_fs L s stab' e'.
Proof.
  intros Hk He Hst. unfold den_fs. rewrite (e_type_equiv e e' He). destruct He as [Hid Hm]. rewrite Hid.
  destruct (e_type e') as [t0|]; [|reflexivity].
  destruct (sch_find s (norm_tname t0)) as [ti|] eqn:Eti; [|reflexivity].
  destruct (is_array_name (norm_tname t0)).
  - rewrite (Hm K_ELEMENTS); [reflexivity|discriminate].
  - rewrite (mapM_ext (den_feature (snd e)) (den_feature (snd e')) (ti_feats ti)).
    + destruct (mapM (den_feature (snd e')) (ti_feats ti)) as [fv| |]; cbn [bind]; try reflexivity.
      destruct (isa s (norm_tname t0) T_ANNOTATION); [|reflexivity].
      destruct (alookup "sofa" fv) as [[]|]; try reflexivity. rewrite Hst. reflexivity.
    + intros fd Hfd. apply den_feature_equiv; [exact (sch_find_keys s _ ti Hk Eti fd Hfd)|exact Hm].
Qed.

Lemma den_sofa_equiv L vs vs' e e' : entry_equiv e e' ->
  (forall n, option_map (jget K_MEMBERS) (alookup n vs) = option_map (jget K_MEMBERS) (alookup n vs')) ->
  den_sofa L vs e = den_sofa L vs' e'.
Proof.
  intros [Hid Hm] Hv. unfold den_sofa. rewrite Hid.
  rewrite (Hm "sofaID"), (Hm "sofaNum"), (Hm "sofaString"), (Hm "mimeType"), (Hm "sofaURI"), (Hm (refkey "sofaArray")); try discriminate.
  destruct (alookup "sofaID" (snd e')) as [[]|]; try reflexivity. destruct (alookup "sofaNum" (snd e')) as [[]|]; try reflexivity.
  specialize (Hv s). destruct (alookup s vs) as [v|], (alookup s vs') as [v'|]; cbn [option_map] in Hv; try discriminate; [|reflexivity].
  inversion Hv as [Hv']. rewrite Hv'. reflexivity.
Qed.

Lemma Forall2_filter_equiv (p : entry -> bool) l l' : (forall e e', entry_equiv e e' -> p e = p e') ->
  Forall2 entry_equiv l l' -> Forall2 entry_equiv (filter p l) (filter p l').
Proof.
  intros Hp. induction 1 as [|e e' r r' He _ IH]; cbn [filter]; [constructor|].
  rewrite (Hp e e' He). destruct (p e'); [constructor; assumption|exact IH].
Qed.
Lemma mapM_Forall2_eq {A B} (f g : A -> res B) (R : A -> A -> Prop) l l' :
  (forall a a', R a a' -> f a = g a') -> Forall2 R l l' -> mapM f l = mapM g l'.
Proof.
  intros H. induction 1 as [|a a' r r' Ha _ IH]; cbn [mapM]; [reflexivity|]. rewrite (H a a' Ha), IH. reflexivity.
Qed.

Lemma views_lookup_equiv vs vs' vs1 : NoDup (map fst vs) -> Permutation vs vs1 -> Forall2 view_equiv vs1 vs' ->
  forall n, option_map (jget K_MEMBERS) (alookup n vs) = option_map (jget K_MEMBERS) (alookup n vs').
Proof.
  intros ND P F n. rewrite (alookup_perm n vs vs1 ND P). clear ND P vs.
  induction F as [|[k v] [k' v'] r r' (Hk & Hm & _) _ IH]; [reflexivity|]. cbn [fst snd] in Hk, Hm. subst k'. cbn [alookup].
  destruct (String.eqb n k); [cbn [option_map]; rewrite Hm; reflexivity|exact IH].
Qed.

(* the id and the text of the sofa a well-read sofa entry describes: its own id *)
Lemma den_sofa_id L vs e cs : den_sofa L vs e = Ok cs -> cs_id cs = fst e.
Proof.
  unfold den_sofa. destruct (alookup "sofaID" (snd e)) as [[]|]; try discriminate. destruct (alookup "sofaNum" (snd e)) as [[]|]; try discriminate.
  intros H. repeat (apply bind_Ok in H as (? & _ & H)). inversion H. reflexivity.
Qed.
Lemma den_fs_id L s stab e r : den_fs L s stab e = Ok r -> fst r = fst e.
Proof.
  unfold den_fs. destruct (e_type e) as [t0|]; [|discriminate]. destruct (sch_find s (norm_tname t0)); [|discriminate].
  destruct (is_array_name (norm_tname t0)); intros H; repeat (apply bind_Ok in H as (? & _ & H)); inversion H; reflexivity.
Qed.
Lemma mapM_keys {A B K} (f : A -> res B) (ka : A -> K) (kb : B -> K) l : (forall a b, f a = Ok b -> kb b = ka a) ->
  forall r, mapM f l = Ok r -> map kb r = map ka l.
Proof.
  intros H. induction l as [|a l' IH]; cbn [mapM]; intros r Hm; [inversion Hm; reflexivity|].
  apply bind_Ok in Hm as (b & Eb & Hm). apply bind_Ok in Hm as (bs & Ebs & Hm). inversion Hm; subst r. cbn [map].
  rewrite (H a b Eb), (IH bs Ebs). reflexivity.
Qed.
Lemma NoDup_filter_map {A K} (k : A -> K) (p : A -> bool) l : NoDup (map k l) -> NoDup (map k (filter p l)).
Proof.
  induction l as [|x r IH]; cbn [map filter]; intros H; [constructor|]. inversion H as [|? ? Hn H']; subst.
  destruct (p x); [|apply IH; exact H']. cbn [map]. constructor; [|apply IH; exact H'].
  intros Hin. apply Hn. apply in_map_iff in Hin. destruct Hin as (y & Ey & Hy). apply filter_In in Hy. destruct Hy as [Hy _].
  apply in_map_iff. exists y. split; assumption.
Qed.

(* C05: documents that present the same content denote the same CAS.  (An unreadable document stays unreadable; which
   error is met first may depend on the order, so the statement is about successful readings.) *)
Theorem denote_json_presentation_invariant L s d d' c :
  schema_keys_okb s = true -> same_content d d' -> denote_json L s d = Ok c -> denote_json L s d' = Ok c.
Proof.
  intros Hk (es & es' & vs & vs' & es1 & vs1 & E1 & E2 & V1 & V2 & NDe & NDv & Pe & Fe & Pv & Fv) H.
  unfold denote_json in *. rewrite E1 in H. rewrite E2. cbn [bind] in *. rewrite V1 in H. rewrite V2. cbn [bind] in *.
  apply bind_Ok in H as (sofas & Es & H). apply bind_Ok in H as (fss & Ef & H). inversion H; subst c. clear H.
  pose proof (views_lookup_equiv vs vs' vs1 NDv Pv Fv) as Hvl.
  (* sofas *)
  destruct (mapM_perm (den_sofa L vs) _ _ (filter_perm is_sofa_entry es es1 Pe) sofas Es) as (sofas1 & Es1 & Ps).
  assert (Es' : mapM (den_sofa L vs') (filter is_sofa_entry es') = Ok sofas1).
  { rewrite <- Es1. symmetry. apply (mapM_Forall2_eq _ _ entry_equiv).
    - intros a a' Ha. apply den_sofa_equiv; assumption.
    - apply Forall2_filter_equiv; [exact is_sofa_equiv|exact Fe]. }
  rewrite Es'. cbn [bind].
  assert (NDs : NoDup (map cs_id sofas)).
  { rewrite (mapM_keys (den_sofa L vs) fst cs_id _ (den_sofa_id L vs) sofas Es). apply NoDup_filter_map. exact NDe. }
  (* the sofa table *)
  assert (Hst : forall k, zlookup k (map (fun cs => (cs_id cs, cs_text cs)) sofas) = zlookup k (map (fun cs => (cs_id cs, cs_text cs)) sofas1)).
  { intros k. apply zlookup_perm; [rewrite map_map; exact NDs|apply Permutation_map; exact Ps]. }
  (* structures *)
  set (ns := fun e : entry => negb (is_sofa_entry e)) in *.
  destruct (mapM_perm (den_fs L s (map (fun cs => (cs_id cs, cs_text cs)) sofas)) _ _ (filter_perm ns es es1 Pe) fss Ef) as (fss1 & Ef1 & Pf).
  assert (Ef' : mapM (den_fs L s (map (fun cs => (cs_id cs, cs_text cs)) sofas1)) (filter ns es') = Ok fss1).
  { rewrite <- Ef1. symmetry. apply (mapM_Forall2_eq _ _ entry_equiv).
    - intros a a' Ha. apply den_fs_equiv; assumption.
    - apply Forall2_filter_equiv; [|exact Fe]. intros e e' He. unfold ns. rewrite (is_sofa_equiv e e' He). reflexivity. }
  rewrite Ef'. cbn [bind].
  assert (NDf : NoDup (map fst fss)).
  { rewrite (mapM_keys _ fst fst _ (den_fs_id L s _) fss Ef). apply NoDup_filter_map. exact NDe. }
  rewrite (sort_by_perm_eq cs_id sofas sofas1 Ps NDs), (sort_by_perm_eq fst fss fss1 Pf NDf). reflexivity.
Qed.

(* ---- the presentation choices of C05 are instances of same_content ---- *)

Lemma Forall2_perm_r {A B} (R : A -> B -> Prop) l l' : Forall2 R l l' -> forall m', Permutation l' m' ->
  exists m, Permutation l m /\ Forall2 R m m'.
Proof.
  intros F m' P. revert l F. induction P as [|y l1 l2 P IH|x y l0|l1 l2 l3 P1 IH1 P2 IH2]; intros l F.
  - inversion F; subst. exists []. split; constructor.
  - inversion F as [|a ? r ? Ha Fr]; subst. destruct (IH r Fr) as (m & Pm & Fm). exists (a :: m). split; constructor; assumption.
  - inversion F as [|a ? r ? Ha Fr]; subst. inversion Fr as [|b ? r' ? Hb Fr']; subst.
    exists (b :: a :: r'). split; [apply perm_swap|]. constructor; [exact Hb|]. constructor; [exact Ha|exact Fr'].
  - destruct (IH1 l F) as (m1 & Pm1 & Fm1). destruct (IH2 m1 Fm1) as (m2 & Pm2 & Fm2). exists m2. split; [|exact Fm2].
    eapply Permutation_trans; eassumption.
Qed.
Lemma Forall2_trans {A} (R : A -> A -> Prop) : (forall a b c, R a b -> R b c -> R a c) ->
  forall l1 l2 l3, Forall2 R l1 l2 -> Forall2 R l2 l3 -> Forall2 R l1 l3.
Proof.
  intros T l1 l2 l3 F. revert l3. induction F; intros l3 G; inversion G; subst; constructor; eauto.
Qed.
Lemma Forall2_refl {A} (R : A -> A -> Prop) : (forall a, R a a) -> forall l, Forall2 R l l.
Proof. intros H. induction l; constructor; auto. Qed.
Lemma entry_equiv_refl e : entry_equiv e e.
Proof. split; reflexivity. Qed.
Lemma entry_equiv_trans a b c : entry_equiv a b -> entry_equiv b c -> entry_equiv a c.
Proof. intros [I1 M1] [I2 M2]. split; [congruence|]. intros k Hk. rewrite (M1 k Hk). apply M2. exact Hk. Qed.
Lemma view_equiv_refl v : view_equiv v v.
Proof. repeat split. Qed.
Lemma view_equiv_trans a b c : view_equiv a b -> view_equiv b c -> view_equiv a c.
Proof. intros (A1 & A2 & A3) (B1 & B2 & B3). repeat split; congruence. Qed.
Lemma Forall2_map_fst {A B} (R : A * B -> A * B -> Prop) : (forall a b, R a b -> fst a = fst b) ->
  forall l l', Forall2 R l l' -> map fst l = map fst l'.
Proof. intros H l l'. induction 1 as [|a b r r' Hab _ IH]; cbn [map]; [reflexivity|]. rewrite (H a b Hab), IH. reflexivity. Qed.

(* presentations compose *)
Theorem same_content_trans d1 d2 d3 : same_content d1 d2 -> same_content d2 d3 -> same_content d1 d3.
Proof.
  intros (es & es' & vs & vs' & es1 & vs1 & E1 & E2 & V1 & V2 & NDe & NDv & Pe & Fe & Pv & Fv)
         (fs & fs' & ws & ws' & fs1 & ws1 & G1 & G2 & W1 & W2 & NDf & NDw & Pf & Ff & Pw & Fw).
  rewrite E2 in G1. inversion G1; subst fs. rewrite V2 in W1. inversion W1; subst ws.
  destruct (Forall2_perm_r _ _ _ Fe fs1 Pf) as (m & Pm & Fm). destruct (Forall2_perm_r _ _ _ Fv ws1 Pw) as (n & Pn & Fn).
  exists es, fs', vs, ws', m, n. repeat split; try assumption.
  - eapply Permutation_trans; eassumption.
  - eapply Forall2_trans; [exact entry_equiv_trans|exact Fm|exact Ff].
  - eapply Permutation_trans; eassumption.
  - eapply Forall2_trans; [exact view_equiv_trans|exact Fn|exact Fw].
Qed.

(* replacing one member of the document *)
Definition set_member (k : string) (v : json) (d : json) : json :=
  match d with JObj l => JObj (map (fun kv => if String.eqb (fst kv) k then (k, v) else kv) l) | _ => d end.
Lemma jget_set_same k v d : jget k d <> None -> jget k (set_member k v d) = Some v.
Proof.
  destruct d as [| | | | | |l]; cbn [jget set_member]; try congruence. induction l as [|[k' v'] r IH]; cbn [alookup map fst]; [congruence|].
  destruct (String.eqb k k') eqn:E.
  - apply String.eqb_eq in E. subst k'. rewrite String.eqb_refl. cbn [alookup]. rewrite String.eqb_refl. reflexivity.
  - intros H. rewrite String.eqb_sym, E. cbn [alookup]. rewrite E. apply IH. exact H.
Qed.
Lemma jget_set_other k k' v d : k' <> k -> jget k' (set_member k v d) = jget k' d.
Proof.
  intros Hne. destruct d as [| | | | | |l]; cbn [jget set_member]; try reflexivity. induction l as [|[k0 v0] r IH]; cbn [alookup map fst]; [reflexivity|].
  destruct (String.eqb k0 k) eqn:E.
  - apply String.eqb_eq in E. subst k0. cbn [alookup]. apply String.eqb_neq in Hne. rewrite Hne. exact IH.
  - cbn [alookup]. rewrite IH. reflexivity.
Qed.
Lemma doc_views_set_fs v d : doc_views (set_member K_FS v d) = doc_views d.
Proof. unfold doc_views. rewrite jget_set_other; [reflexivity|discriminate]. Qed.

Definition entry_of_json (j : json) : res entry :=
  match j with
  | JObj m => match alookup K_ID m with Some (JInt i) => Ok (i, m) | _ => Err EValue end
  | _ => Err EAttribute end.

(* (1) order of the feature structures in the array form (forward references, sofas anywhere) *)
Theorem pres_fs_order d js js' es vs :
  jget K_FS d = Some (JArr js) -> Permutation js js' -> fs_entries d = Ok es -> doc_views d = Ok vs ->
  NoDup (map fst es) -> NoDup (map fst vs) -> same_content d (set_member K_FS (JArr js') d).
Proof.
  intros Hfs P E V NDe NDv. pose proof E as E0. unfold fs_entries in E0. rewrite Hfs in E0.
  destruct (mapM_perm _ _ _ P es E0) as (es' & E' & Pe).
  exists es, es', vs, vs, es', vs. repeat split; try assumption.
  - unfold fs_entries. rewrite jget_set_same by congruence. exact E'.
  - rewrite doc_views_set_fs. exact V.
  - apply Forall2_refl. exact entry_equiv_refl.
  - apply Permutation_refl.
  - apply Forall2_refl. exact view_equiv_refl.
Qed.

(* (2) the id-keyed form: every entry filed under the decimal spelling of its id, without the redundant %ID member *)
Definition strip_id (m : list (string * json)) : list (string * json) := filter (fun kv => negb (String.eqb (fst kv) K_ID)) m.
Definition dict_form (es : list entry) : json := JObj (map (fun e => (jz2s (fst e), JObj (strip_id (snd e)))) es).
Lemma alookup_strip k m : k <> K_ID -> alookup k (strip_id m) = alookup k m.
Proof.
  intros Hk. unfold strip_id. induction m as [|[k' v] r IH]; cbn [filter alookup fst]; [reflexivity|].
  destruct (String.eqb k' K_ID) eqn:E; cbn [negb].
  - apply String.eqb_eq in E. subst k'. apply String.eqb_neq in Hk. rewrite Hk. exact IH.
  - cbn [alookup]. rewrite IH. reflexivity.
Qed.
Theorem pres_dict_form d es vs :
  jget K_FS d <> None -> fs_entries d = Ok es -> doc_views d = Ok vs -> NoDup (map fst es) -> NoDup (map fst vs) ->
  same_content d (set_member K_FS (dict_form es) d).
Proof.
  intros Hfs E V NDe NDv.
  exists es, (map (fun e => (fst e, strip_id (snd e))) es), vs, vs, es, vs. repeat split; try assumption.
  - unfold fs_entries. rewrite jget_set_same by exact Hfs. unfold dict_form. clear.
    match goal with |- mapM ?g _ = _ => set (G := g) end.
    induction es as [|[i m] r IH]; [reflexivity|]. cbn [map mapM]. unfold G at 1. cbn [fst snd].
    rewrite (LexProofs.s2z_z2s i : js2z (jz2s i) = Some i). cbn [bind]. rewrite IH. reflexivity.
  - rewrite doc_views_set_fs. exact V.
  - apply Permutation_refl.
  - clear. induction es as [|e r IH]; cbn [map]; constructor; [|exact IH]. split; [reflexivity|]. intros k Hk. cbn [snd].
    symmetry. apply alookup_strip. exact Hk.
  - apply Permutation_refl.
  - apply Forall2_refl. exact view_equiv_refl.
Qed.

(* (3) order of the members inside the feature structures (and any respelling that keeps every key's value) *)
Theorem pres_member_order d d' es es' vs :
  fs_entries d = Ok es -> fs_entries d' = Ok es' -> doc_views d = Ok vs -> doc_views d' = Ok vs ->
  NoDup (map fst es) -> NoDup (map fst vs) ->
  Forall2 (fun e e' => fst e = fst e' /\ NoDup (map fst (snd e)) /\ Permutation (snd e) (snd e')) es es' ->
  same_content d d'.
Proof.
  intros E E' V V' NDe NDv F. exists es, es', vs, vs, es, vs. repeat split; try assumption; try apply Permutation_refl.
  - clear - F. induction F as [|e e' r r' (Hi & Hn & Hp) _ IH]; constructor; [|exact IH]. split; [exact Hi|].
    intros k _. apply alookup_perm; assumption.
  - apply Forall2_refl. exact view_equiv_refl.
Qed.

(* (4) order of the members of the document itself, and of the view entries, and whatever %TYPES says *)
Theorem pres_document_member_order l l' es vs :
  NoDup (map fst l) -> Permutation l l' -> fs_entries (JObj l) = Ok es -> doc_views (JObj l) = Ok vs ->
  NoDup (map fst es) -> NoDup (map fst vs) -> same_content (JObj l) (JObj l').
Proof.
  intros NDl P E V NDe NDv. exists es, es, vs, vs, es, vs.
  assert (G : forall k, jget k (JObj l') = jget k (JObj l)) by (intros k; cbn [jget]; symmetry; apply alookup_perm; assumption).
  repeat split; try assumption; try apply Permutation_refl.
  - unfold fs_entries in *. rewrite G. exact E.
  - unfold doc_views in *. rewrite G. exact V.
  - apply Forall2_refl. exact entry_equiv_refl.
  - apply Forall2_refl. exact view_equiv_refl.
Qed.
Theorem pres_view_order d vs vs' es :
  fs_entries d = Ok es -> doc_views d = Ok vs -> Permutation vs vs' -> NoDup (map fst es) -> NoDup (map fst vs) ->
  same_content d (set_member K_VIEWS (JObj vs') d).
Proof.
  intros E V P NDe NDv. exists es, es, vs, vs', es, vs'. repeat split; try assumption; try apply Permutation_refl.
  - unfold fs_entries. rewrite jget_set_other by discriminate. exact E.
  - unfold doc_views in *. rewrite jget_set_same; [reflexivity|]. destruct (jget K_VIEWS d); [discriminate|discriminate].
  - apply Forall2_refl. exact entry_equiv_refl.
  - apply Forall2_refl. exact view_equiv_refl.
Qed.

(* ================================================================================================================ *)
(* C04: the document the writer produces is closed                                                                   *)
(* ================================================================================================================ *)

(* the entries and views of a written document *)
Lemma save_json_entries L s mode c d c2 :
  lex_ok L -> save_json L s mode c = Ok (d, c2) -> wf_jsonb s c2 = true -> 0 < c_next_id c ->
  exists w outs fss (Ev Ef : list entry) sofas,
    fs_entries d = Ok (Ev ++ Ef) /\ doc_views d = Ok (map snd outs) /\
    find_all_fs true s c2 = Ok w /\ w_heap w = c_heap c2 /\ c_views c2 = c_views c /\
    mapM (view_out L s c2) (tviews c) = Ok outs /\
    mapM (fun io => do f <- fs_at c2 io ;; do m <- enc_fs L s c2 f ;; Ok (JObj m)) (found_list c2 w) = Ok fss /\
    views_facts L s c2 (tviews c) outs Ev sofas /\ found_facts L s c2 (found_list c2 w) fss Ef /\
    (forall io, In io (w_all w) -> found_okP s c2 io) /\ arrs_okP s c2 (c_views c).
Proof.
  intros HL Hsave Hwf Hpos.
  destruct (save_json_parts L s mode c d c2 HL Hsave Hwf Hpos)
    as (w & types & outs & fss & Ev & Ef & sofas & Ew' & Hheap & Hviews & Hty & -> & Houts & Efss & HV & HF & Hfound & Harrs & Hn & Hi).
  exists w, outs, fss, Ev, Ef, sofas.
  pose proof HV as (V0 & V1 & V2 & _). pose proof HF as (F0 & F1 & F2 & _).
  assert (Hfs : jget K_FS (JObj (types ++ [(K_FS, JArr (List.concat (map fst outs) ++ fss)); (K_VIEWS, JObj (map snd outs))]))
                = Some (JArr (map entry_json (Ev ++ Ef)))).
  { rewrite map_app, <- V1, <- F1. destruct Hty as [->|(j & ->)]; reflexivity. }
  split. { unfold fs_entries. rewrite Hfs. apply entries_written. apply Forall_app. split; assumption. }
  split. { destruct Hty as [->|(j & ->)]; reflexivity. }
  split; [exact Ew'|]. split; [exact Hheap|]. split; [exact Hviews|]. split; [exact Houts|]. split; [exact Efss|].
  split; [exact HV|]. split; [exact HF|]. split; [exact Hfound|exact Harrs].
Qed.

Lemma flat_map_flat_map {A B C} (f : B -> list C) (g : A -> list B) l :
  flat_map f (flat_map g l) = flat_map (fun x => flat_map f (g x)) l.
Proof. induction l as [|a r IH]; [reflexivity|]. cbn [flat_map]. rewrite flat_map_app, IH. reflexivity. Qed.
(* the ids of the arrays the loop writes: those of the sofa byte arrays, each once *)
Lemma arrays_ids_flat c tvs : flat_map (arr_id c) (flat_map arr_of tvs) = flat_map (arr_ids c) tvs.
Proof. rewrite flat_map_flat_map. reflexivity. Qed.
Lemma interleave_perm {A B} (f : A -> list B) (g : A -> B) l :
  Permutation (flat_map (fun a => f a ++ [g a]) l) (map g l ++ flat_map f l).
Proof.
  induction l as [|a r IH]; [constructor|]. cbn [flat_map map app].
  eapply Permutation_trans; [apply Permutation_app_head; exact IH|].
  rewrite <- app_assoc. cbn [app].
  eapply Permutation_trans; [apply Permutation_sym, Permutation_middle|]. constructor. apply Permutation_app_swap_app.
Qed.

(* C04: all ids of the document are distinct -- every %ID occurs once, also when a byte array holds the data of several
   sofas or is indexed / referenced as well (d1bc860).  Premise ids_distinctb: in the CAS the save leaves behind, the ids of
   the sofas, of the sofa byte arrays (each once) and of the other structures found are pairwise distinct (the structures
   found have distinct ids by ReachProofs.find_all_each_once; that sofas and byte arrays are apart from them is a property of
   the CAS). *)
Theorem json_ids_distinct L s mode c d c2 :
  lex_ok L -> save_json L s mode c = Ok (d, c2) -> wf_jsonb s c2 = true -> 0 < c_next_id c ->
  ids_distinctb s c2 = true -> doc_ids_distinctb d = true.
Proof.
  intros HL Hsave Hwf Hpos Hid.
  destruct (save_json_entries L s mode c d c2 HL Hsave Hwf Hpos)
    as (w & outs & fss & Ev & Ef & sofas & Efs & _ & Ew & _ & Hviews & _ & _ & HV & HF & _).
  destruct HV as (V0 & _). destruct HF as (F0 & _).
  assert (Hids : map fst (Ev ++ Ef) = flat_map (fun p => arr_ids c2 p ++ [s_xid (v_sofa (snd p))]) (tviews c) ++ map fst (found_list c2 w)).
  { rewrite map_app. f_equal; [exact V0|exact F0]. }
  unfold doc_ids_distinctb. rewrite Efs. unfold ids_distinctb in Hid. rewrite Ew in Hid.
  assert (Hsa : sofa_arrays_once c2 = flat_map arr_of (tviews c)).
  { rewrite tviews_arrays. unfold sofa_arrays_once, sofa_arrays. rewrite Hviews. reflexivity. }
  rewrite Hsa, arrays_ids_flat, Hviews, map_map in Hid.
  assert (P : Permutation (map (fun v => s_xid (v_sofa v)) (c_views c) ++ map fst (unwritten (sofa_arrays c2) (w_all w)) ++ flat_map (arr_ids c2) (tviews c))
                          (flat_map (fun p => arr_ids c2 p ++ [s_xid (v_sofa (snd p))]) (tviews c) ++ map fst (found_list c2 w))).
  { apply Permutation_sym.
    eapply Permutation_trans; [apply Permutation_app_tail; apply (interleave_perm (arr_ids c2) (fun p => s_xid (v_sofa (snd p))))|].
    rewrite <- (map_map snd (fun v => s_xid (v_sofa v))). unfold tviews at 1. rewrite tag_views_snd.
    rewrite <- app_assoc. apply Permutation_app_head.
    eapply Permutation_trans; [apply Permutation_app_comm|]. apply Permutation_app_tail.
    apply Permutation_map. unfold found_list, unwritten. apply filter_perm. apply sort_ids_is_perm. }
  rewrite <- Hids in P. exact (znodup_perm _ _ P Hid).
Qed.

(* ---- every structure the traversal returns was scanned: its candidates are defined (on the final heap) ---- *)
Definition scanned (inl : bool) (s : schema) (w : wstate) : Prop :=
  forall i o, In (i, o) (w_all w) -> exists f l, hget (w_heap w) o = Some f /\ obj_cands inl s (w_heap w) f = Ok l.

Lemma scanned_transport inl s w h' all' :
  scanned inl s w -> shape_of (w_heap w) = shape_of h' ->
  (forall i o, In (i, o) all' -> In (i, o) (w_all w) \/ exists f l, hget h' o = Some f /\ obj_cands inl s h' f = Ok l) ->
  forall nx q op, scanned inl s (mkW h' nx all' q op).
Proof.
  intros Hsc Hsh Hall nx q op i o Hin. cbn [w_all w_heap] in *. destruct (Hall i o Hin) as [Hold|Hnew]; [|exact Hnew].
  destruct (Hsc i o Hold) as (f & l & Hg & Hc). destruct (shape_some _ _ _ _ Hsh Hg) as (f' & Hg' & Hf').
  exists f', l. split; [exact Hg'|]. rewrite <- Hc. symmetry. apply obj_cands_shape; assumption.
Qed.

Lemma pop_scanned inl s w w' : pop inl s w = Ok w' -> scanned inl s w -> scanned inl s w'.
Proof.
  intros H Hsc. destruct (w_open w) as [|o rest] eqn:Ho.
  - unfold pop in H. rewrite Ho in H. inversion H; subst. exact Hsc.
  - destruct (pop_cases _ _ _ _ _ _ Ho H) as (f & Eg & [[_ ->]|(_ & i & f' & hp & nx & all' & l & add & Hid & Hall & Hc & -> & _)]).
    + apply (scanned_transport inl s w (w_heap w) (w_all w) Hsc eq_refl). intros i o' Hin. left. exact Hin.
    + assert (Hshape : shape_of (w_heap w) = shape_of hp /\ hget hp o = Some f').
      { destruct Hid as [(_ & -> & -> & _)|(_ & _ & -> & -> & _)]; [split; [reflexivity|exact Eg]|].
        split; [symmetry; apply shape_hset; exact Eg|eapply hget_hset_same; exact Eg]. }
      destruct Hshape as [Hsh Hg']. apply (scanned_transport inl s w hp all' Hsc Hsh).
      intros i' o' Hin. destruct Hall as [(_ & ->)|(_ & ->)]; [|left; exact Hin].
      apply in_app_or in Hin. destruct Hin as [Hin|[E|[]]]; [left; exact Hin|]. inversion E; subst i' o'. right. exists f', l. split; assumption.
Qed.
Lemma run_scanned inl s : forall k w wf, run k inl s w = Ok wf -> scanned inl s w -> scanned inl s wf.
Proof.
  induction k as [|k IH]; intros w wf H Hsc; cbn [run] in H.
  - destruct (w_open w); [|discriminate]. inversion H; subst. exact Hsc.
  - destruct (w_open w) eqn:Ho; [inversion H; subst; exact Hsc|].
    destruct (pop inl s w) as [w1| |] eqn:Ep; cbn [bind] in H; try discriminate.
    apply (IH w1 wf H). exact (pop_scanned inl s w w1 Ep Hsc).
Qed.
Lemma find_all_scanned inl s c w : find_all_fs inl s c = Ok w -> scanned inl s w.
Proof.
  unfold find_all_fs, start. intros H. apply bind_Ok in H as (w0 & E0 & H). apply (run_scanned inl s _ w0 w H).
  destruct (enqueue_spec _ _ _ E0) as (add & Hext & _). unfold extends in Hext. subst w0. intros i o []. 
Qed.

(* ---- references written by the writer resolve ---- *)
Section Resolve.
  Variable s : schema.
  Variable c2 : cas.
  Variable w : wstate.
  Hypothesis Ew : find_all_fs true s c2 = Ok w.
  Hypothesis Hheap : w_heap w = c_heap c2.
  Hypothesis Hnonull : forallb (fun p => negb (is_null_id (snd p))) (c_heap c2) = true.
  Hypothesis Harrsch : forallb (fun ti => Bool.eqb (is_array_name (ti_name ti)) (match is_array_type ti with Ok b => b | _ => false end)) s = true.
  Hypothesis Hsofaslot : forallb (fun io => match hget (c_heap c2) (snd io) with
                                            | Some f => match slot f "sofa" with VRef _ => false | _ => true end
                                            | None => false end) (w_all w) = true.

  Lemma found_ids i o : In (i, o) (w_all w) -> exists f, hget (c_heap c2) o = Some f /\ o_id f = Some i.
  Proof.
    intros Hin. change (find_all_fs true s c2) with (find_all_from true s c2 (member_seeds c2)) in Ew.
    destruct (ids_assigned _ _ _ _ _ Ew) as (H1 & _). destruct (H1 i o Hin) as (f & Hg & Hi). rewrite Hheap in Hg. exists f. split; assumption.
  Qed.
  Lemma not_null x : ~ null_in (c_heap c2) x.
  Proof.
    intros (f & Hg & Hn). rewrite forallb_forall in Hnonull. specialize (Hnonull (x, f) (hget_In _ _ _ Hg)). cbn [snd] in Hnonull.
    rewrite Hn in Hnonull. discriminate.
  Qed.
  Lemma returned_resolves x : In x (returned w) -> exists i fx, hget (c_heap c2) x = Some fx /\ o_id fx = Some i /\ In i (map fst (w_all w)).
  Proof.
    intros Hr. apply returned_In in Hr. destruct Hr as (i & Hi). destruct (found_ids i x Hi) as (fx & Hg & Hid).
    exists i, fx. split; [exact Hg|]. split; [exact Hid|]. change i with (fst (i, x)). apply in_map. exact Hi.
  Qed.
  (* a successor of a structure found is found: the id written for it is an id of the document *)
  Lemma target_resolves i0 o f l x : In (i0, o) (w_all w) -> hget (c_heap c2) o = Some f -> obj_cands true s (c_heap c2) f = Ok l ->
    In (VRef x) l -> exists i fx, hget (c_heap c2) x = Some fx /\ o_id fx = Some i /\ In i (map fst (w_all w)).
  Proof.
    intros Hin Hg Hc Hx. change (find_all_fs true s c2) with (find_all_from true s c2 (member_seeds c2)) in Ew.
    assert (Hs : In x (succs true s (c_heap c2) o)) by (unfold succs; rewrite Hg, Hc; apply refs_of_In; exact Hx).
    assert (Hr : In o (returned w)) by (apply returned_In; exists i0; exact Hin).
    destruct (find_all_closed _ _ _ _ _ Ew o x Hr Hs) as [Hret|Hnull]; [|destruct (not_null x Hnull)].
    apply returned_resolves. exact Hret.
  Qed.
  Lemma member_resolves v o : In v (c_views c2) -> In o (v_members v) ->
    exists i fx, hget (c_heap c2) o = Some fx /\ o_id fx = Some i /\ In i (map fst (w_all w)).
  Proof.
    intros Hv Ho. change (find_all_fs true s c2) with (find_all_from true s c2 (member_seeds c2)) in Ew.
    assert (Hs : In o (member_seeds c2)) by (unfold member_seeds; apply in_flat_map; exists v; split; assumption).
    destruct (find_all_contains_seeds _ _ _ _ _ Ew o Hs) as [Hret|Hnull]; [|destruct (not_null o Hnull)].
    apply returned_resolves. exact Hret.
  Qed.

  Lemma array_type_agree t ti : sch_find s t = Some ti -> is_array_type ti = Ok (is_array_name t).
  Proof.
    intros Hf. destruct (sch_find_name s t ti Hf) as [Hn Hin]. rewrite forallb_forall in Harrsch. specialize (Harrsch ti Hin).
    rewrite Hn in Harrsch. unfold is_array_type in *. destruct (ti_anc ti) as [|a [|b r]]; apply Bool.eqb_prop in Harrsch; rewrite Harrsch; reflexivity.
  Qed.

  (* the value a reference member carries *)
  Definition id_ok (ids : list Z) (j : json) : Prop := match j with JInt i => In i ids | _ => True end.

  Lemma ref_json_sofa n j : ref_json c2 (VSofa n) = Ok j -> exists v, In v (c_views c2) /\ j = JInt (s_xid (v_sofa v)).
  Proof.
    unfold ref_json, ref_id, find_sofa. destruct (find _ (c_views c2)) as [v|] eqn:E; cbn [option_map bind]; [|discriminate].
    intros [= <-]. apply find_some in E. exists v. split; [exact (proj1 E)|reflexivity].
  Qed.

  Variable ids : list Z.       (* the ids of the document *)
  Hypothesis Hfound_in : forall i, In i (map fst (w_all w)) -> In i ids.
  Hypothesis Hsofa_in : forall v, In v (c_views c2) -> In (s_xid (v_sofa v)) ids.

  Lemma ref_json_target x j i fx : hget (c_heap c2) x = Some fx -> o_id fx = Some i -> In i (map fst (w_all w)) ->
    ref_json c2 (VRef x) = Ok j -> id_ok ids j.
  Proof.
    intros Hg Hi Hin. unfold ref_json, ref_id. rewrite Hg, Hi. cbn [bind]. intros [= <-]. cbn [id_ok]. apply Hfound_in. exact Hin.
  Qed.

  (* elements of an FSArray found *)
  Lemma elements_resolve i0 o f l' js : In (i0, o) (w_all w) -> hget (c_heap c2) o = Some f -> o_type f = T_FS_ARRAY ->
    slot f "elements" = VList l' -> mapM (ref_json c2) l' = Ok js -> Forall (id_ok ids) js.
  Proof.
    intros Hin Hg Ht Hsl Hm. destruct (find_all_scanned true s c2 w Ew i0 o Hin) as (f0 & l & Hg0 & Hc). rewrite Hheap in Hg0, Hc.
    rewrite Hg in Hg0. inversion Hg0; subst f0. clear Hg0.
    assert (Hl : l = l').
    { unfold obj_cands in Hc. rewrite Ht in Hc. destruct (sch_find s T_FS_ARRAY) as [ti|] eqn:Eti; [|discriminate].
      rewrite (array_type_agree _ _ Eti) in Hc. change (is_array_name T_FS_ARRAY) with true in Hc. cbn [bind] in Hc.
      destruct (sch_find_name s _ ti Eti) as [Hn _]. rewrite Hn, String.eqb_refl in Hc. unfold own_elements in Hc.
      destruct (has_feat s (o_type f) "elements"); [|discriminate]. rewrite Hsl in Hc. inversion Hc. reflexivity. }
    subst l'. apply Forall_forall. intros j Hj. destruct (mapM_In _ _ _ Hm j Hj) as (v & Hv & Ej).
    destruct v; try (unfold ref_json, ref_id in Ej; cbn [bind] in Ej; try discriminate; inversion Ej; exact I).
    - destruct (target_resolves i0 o f l o0 Hin Hg Hc Hv) as (i & fx & Hgx & Hix & Hinx). exact (ref_json_target o0 j i fx Hgx Hix Hinx Ej).
    - destruct (ref_json_sofa n j Ej) as (v & Hv' & ->). cbn [id_ok]. apply Hsofa_in. exact Hv'.
  Qed.

  (* one feature of a non-array structure found: reference members carry ids of the document, other members are not
     reference members *)
  Lemma feature_resolves i0 o f t ti fd ms : In (i0, o) (w_all w) -> hget (c_heap c2) o = Some f -> o_type f = t ->
    is_array_name t = false -> sch_find s t = Some ti -> In fd (ti_feats ti) -> name_okb (fd_xname fd) = true ->
    enc_feature c2 s t f fd = Ok ms ->
    Forall (fun kv => match classify (fst kv) with KRef _ => id_ok ids (snd kv) | _ => True end) ms.
  Proof.
    intros Hin Hg Ht Harr Hti Hfd Hname Henc. unfold enc_feature in Henc.
    destruct (is_vnone (slot f (fd_name fd))) eqn:Evn; [inversion Henc; constructor|].
    apply bind_Ok in Henc as (v1 & Edoc & Henc). unfold enc_value in Henc.
    assert (Hplain : classify (fd_xname fd) = KPlain (fd_xname fd)).
    { unfold classify. unfold name_okb in Hname. destruct (fd_xname fd) as [|a r]; [reflexivity|].
      destruct a as [[] [] [] [] [] [] [] []]; try reflexivity; discriminate. }
    destruct (String.eqb (fd_range fd) T_FLOAT || String.eqb (fd_range fd) T_DOUBLE).
    { destruct v1; try discriminate; inversion Henc; subst ms.
      - constructor; [|constructor]. cbn [fst]. rewrite Hplain. exact I.
      - destruct (special_flt x); (constructor; [|constructor]); cbn [fst]; [reflexivity|rewrite Hplain; exact I]. }
    destruct (is_primitive s (fd_range fd)) eqn:Eprim.
    { apply bind_Ok in Henc as (j & _ & Henc). inversion Henc; subst ms. constructor; [|constructor]. cbn [fst]. rewrite Hplain. exact I. }
    apply bind_Ok in Henc as (j & Ej & Henc). inversion Henc; subst ms. constructor; [|constructor]. cbn [fst snd classify refkey].
    (* v1 is the slot value unless that is an offset *)
    assert (Hv1 : v1 = slot f (fd_name fd) \/ exists z, v1 = VInt z).
    { unfold doc_val in Edoc. destruct (isa s t T_ANNOTATION && is_offset_name (fd_xname fd)); [|inversion Edoc; left; reflexivity].
      destruct (slot f "sofa"); try discriminate. destruct (find_sofa c2 n); [|discriminate]. inversion Edoc.
      destruct (slot f (fd_name fd)); try (left; reflexivity). right. eexists. reflexivity. }
    destruct Hv1 as [->|(z & ->)]; [|unfold ref_json, ref_id in Ej; discriminate].
    destruct (slot f (fd_name fd)) as [|z|q|b|q|x|q|n] eqn:Esl; try (unfold ref_json, ref_id in Ej; cbn [bind] in Ej; try discriminate; inversion Ej; exact I).
    - (* a reference to another structure *)
      destruct (String.eqb (fd_name fd) "sofa") eqn:Esofa.
      + apply String.eqb_eq in Esofa. rewrite Esofa in Esl. rewrite forallb_forall in Hsofaslot. specialize (Hsofaslot (i0, o) Hin).
        cbn [snd] in Hsofaslot. rewrite Hg, Esl in Hsofaslot. discriminate.
      + destruct (find_all_scanned true s c2 w Ew i0 o Hin) as (f0 & l & Hg0 & Hc). rewrite Hheap in Hg0, Hc.
        rewrite Hg in Hg0. inversion Hg0; subst f0. clear Hg0.
        assert (Hsucc : succ_rel true s (c_heap c2) o x).
        { apply (sr_feature true s (c_heap c2) o x f ti fd); try assumption.
          - rewrite Ht. exact Hti.
          - rewrite (array_type_agree t ti Hti), Harr. reflexivity.
          - intros E. rewrite E in Esofa. discriminate.
          - apply fs_ref; [reflexivity|exact Esl]. }
        apply (succs_declarative true s (c_heap c2) o f l Hg Hc x) in Hsucc. apply refs_of_In in Hsucc.
        destruct (target_resolves i0 o f l x Hin Hg Hc Hsucc) as (i & fx & Hgx & Hix & Hinx). exact (ref_json_target x j i fx Hgx Hix Hinx Ej).
    - destruct (ref_json_sofa n j Ej) as (v & Hv' & ->). cbn [id_ok]. apply Hsofa_in. exact Hv'.
  Qed.
  Lemma jints_ok js : Forall (id_ok ids) js -> Forall (fun i => In i ids) (jints js).
  Proof.
    induction 1 as [|j r Hj _ IH]; [constructor|]. unfold jints in *. cbn [flat_map]. destruct j; cbn [app]; try exact IH. constructor; assumption.
  Qed.

  (* the entry written for a structure found mentions only ids of the document *)
  Lemma enc_fs_refs L i0 o f m : In (i0, o) (w_all w) -> hget (c_heap c2) o = Some f -> obj_okb s c2 f = true ->
    enc_fs L s c2 f = Ok m -> Forall (fun i => In i ids) (entry_refs (i0, m)).
  Proof.
    intros Hin Hg Hok Hm. unfold obj_okb in Hok. apply andb_true_iff in Hok. destruct Hok as [Htn Hok].
    unfold tname_okb in Htn. apply andb_true_iff in Htn. destruct Htn as [_ Htn]. apply strip_none_norm in Htn.
    unfold enc_fs in Hm. set (t := o_type f) in *.
    assert (Hty : forall rest, e_type (i0, (K_ID, id_json f) :: (K_TYPE, JStr t) :: rest) = Some t).
    { intros rest. unfold e_type. cbn [snd alookup]. change (String.eqb K_TYPE K_ID) with false. cbv iota. rewrite String.eqb_refl. reflexivity. }
    destruct (is_array_name t) eqn:Earr.
    - (* arrays *)
      assert (Hnorefs : forall rest, (forall kv, In kv rest -> fst kv = K_ELEMENTS) -> String.eqb t T_FS_ARRAY = false ->
                entry_refs (i0, (K_ID, id_json f) :: (K_TYPE, JStr t) :: rest) = []).
      { intros rest Hrest Hne. unfold entry_refs. rewrite Hty, Htn, Hne. cbn [snd flat_map fst]. cbn [classify K_ID K_TYPE app].
        induction rest as [|kv r IH]; [reflexivity|]. cbn [flat_map]. rewrite (Hrest kv (or_introl eq_refl)). cbn [classify K_ELEMENTS app].
        apply IH. intros kv' Hkv'. apply Hrest. right. exact Hkv'. }
      destruct (nonempty_list (slot f "elements")) as [l'|] eqn:Enl.
      + apply bind_Ok in Hm as (j & Ej & Hm). inversion Hm; subst m. cbn [app].
        destruct (String.eqb t T_FS_ARRAY) eqn:Efs.
        * apply String.eqb_eq in Efs. unfold entry_refs. rewrite Hty, Htn, Efs, String.eqb_refl. cbn [snd alookup].
          change (String.eqb K_ELEMENTS K_ID) with false. change (String.eqb K_ELEMENTS K_TYPE) with false. cbv iota. rewrite String.eqb_refl.
          unfold enc_elements in Ej. rewrite Efs in Ej. change (String.eqb T_FS_ARRAY T_BYTE_ARRAY) with false in Ej.
          change (String.eqb T_FS_ARRAY T_DOUBLE_ARRAY || String.eqb T_FS_ARRAY T_FLOAT_ARRAY) with false in Ej. cbv iota in Ej.
          rewrite String.eqb_refl in Ej. apply bind_Ok in Ej as (js & Ejs & Ej). inversion Ej; subst j. apply jints_ok.
          assert (Hsl : slot f "elements" = VList l').
          { unfold nonempty_list in Enl. destruct (slot f "elements") as [| | | | | |[|x r]|]; try discriminate. inversion Enl. reflexivity. }
          exact (elements_resolve i0 o f l' js Hin Hg Efs Hsl Ejs).
        * rewrite (Hnorefs [(K_ELEMENTS, j)]); [constructor| |reflexivity]. intros kv [<-|[]]. reflexivity.
      + inversion Hm; subst m. destruct (String.eqb t T_FS_ARRAY) eqn:Efs.
        * unfold entry_refs. rewrite Hty, Htn, Efs. cbn [snd alookup]. change (String.eqb K_ELEMENTS K_ID) with false.
          change (String.eqb K_ELEMENTS K_TYPE) with false. cbv iota. constructor.
        * rewrite (Hnorefs []); [constructor| |reflexivity]. intros kv [].
    - (* other structures *)
      destruct (sch_find s t) as [ti|] eqn:Eti; [|discriminate].
      apply bind_Ok in Hm as (mss & Ems & Hm). inversion Hm; subst m. cbn [app].
      assert (Efs : String.eqb t T_FS_ARRAY = false).
      { unfold is_array_name in Earr. apply orb_false_iff in Earr. exact (proj2 Earr). }
      apply andb_true_iff in Hok. destruct Hok as [Hok _]. apply andb_true_iff in Hok. destruct Hok as [Hnames _].
      rewrite forallb_forall in Hnames.
      unfold entry_refs. rewrite Hty, Htn, Efs. cbn [snd flat_map fst]. cbn [classify K_ID K_TYPE app].
      apply Forall_forall. intros i Hi. apply in_flat_map in Hi. destruct Hi as ([k j] & Hkv & Hi).
      apply in_concat in Hkv. destruct Hkv as (ms & Hms & Hkv).
      destruct (mapM_In _ _ _ Ems ms Hms) as (fd & Hfd & Efd).
      pose proof (feature_resolves i0 o f t ti fd ms Hin Hg eq_refl Earr Eti Hfd (Hnames fd Hfd) Efd) as HF.
      rewrite Forall_forall in HF. specialize (HF (k, j) Hkv). cbn [fst snd] in HF, Hi.
      destruct (classify k); try (destruct Hi; fail). destruct j; try (destruct Hi; fail). destruct Hi as [<-|[]]. exact HF.
  Qed.
End Resolve.

Lemma found_entries (g : xid * oid -> res json) : forall found (Ef : list entry),
  mapM g found = Ok (map entry_json Ef) -> map fst Ef = map fst found ->
  Forall2 (fun io e => fst e = fst io /\ g io = Ok (JObj (snd e))) found Ef.
Proof.
  induction found as [|io r IH]; intros [|e Ef] Hm Hk; cbn [map mapM] in *; try discriminate; [constructor|].
  apply bind_Ok in Hm as (j & Ej & Hm). apply bind_Ok in Hm as (js & Ejs & Hm). inversion Hm; subst. inversion Hk.
  constructor; [split; [assumption|exact Ej]|]. apply IH; assumption.
Qed.

Lemma zsort_In x l : In x (zsort l) <-> In x l.
Proof.
  assert (P : Permutation (zsort l) l).
  { unfold zsort. induction l as [|y r IH]; cbn [fold_right]; [constructor|].
    eapply Permutation_trans; [|constructor; exact IH]. generalize (fold_right zinsert [] r). intros m.
    induction m as [|z m' IHm]; cbn [zinsert]; [apply Permutation_refl|].
    destruct (y <=? z); [apply Permutation_refl|]. eapply Permutation_trans; [apply perm_skip; exact IHm|apply perm_swap]. }
  split; apply Permutation_in; [exact P|apply Permutation_sym; exact P].
Qed.

Lemma member_ids_In h ms ids i : member_ids h ms = Ok ids -> In i ids -> exists o f, In o ms /\ hget h o = Some f /\ o_id f = Some i.
Proof.
  unfold member_ids. intros Hm Hi. destruct (mapM_In _ _ _ Hm i Hi) as (o & Ho & E).
  destruct (hget h o) as [f|] eqn:Eg; [|discriminate]. destruct (o_id f) as [i'|] eqn:Ei; [|discriminate]. inversion E; subst i'.
  exists o, f. repeat split; assumption.
Qed.

(* the entry of a byte array mentions no ids *)
Lemma enc_fs_bytes_norefs L s c f m i : o_type f = T_BYTE_ARRAY -> enc_fs L s c f = Ok m -> entry_refs (i, m) = [].
Proof.
  intros Ht Hm. unfold enc_fs in Hm. rewrite Ht in Hm. change (is_array_name T_BYTE_ARRAY) with true in Hm. cbv iota in Hm.
  destruct (nonempty_list (slot f "elements")).
  - apply bind_Ok in Hm as (j & _ & Hm). inversion Hm; subst m. reflexivity.
  - inversion Hm; subst m. reflexivity.
Qed.

(* the entry of a sofa: carries its name, and mentions at most the id of its byte array *)
Lemma enc_sofa_facts L c sf ms : enc_sofa L c sf = Ok ms ->
  alookup "sofaID" ms = Some (JStr (s_name sf)) /\
  forall i, In i (entry_refs (s_xid sf, ms)) ->
    exists o f, s_arr sf = Some o /\ hget (c_heap c) o = Some f /\ o_id f = Some i.
Proof.
  unfold enc_sofa. intros H. apply bind_Ok in H as (arr & Earr & H). inversion H; subst ms. clear H. split; [reflexivity|].
  intros i Hi. unfold entry_refs, e_type in Hi. cbn [snd alookup app] in Hi.
  change (String.eqb K_TYPE K_ID) with false in Hi. cbv iota in Hi. rewrite String.eqb_refl in Hi.
  change (String.eqb (norm_tname T_SOFA) T_FS_ARRAY) with false in Hi. cbv iota in Hi.
  cbn [flat_map fst snd] in Hi. cbn [classify K_ID K_TYPE app] in Hi.
  rewrite !flat_map_app in Hi.
  assert (Hno : forall k (o : option string) g, k <> "" -> classify k = KPlain k ->
            flat_map (fun kv : string * json => match classify (fst kv), snd kv with KRef _, JInt i => [i] | _, _ => [] end) (opt_member k g o) = []).
  { intros k o g _ Hk. destruct o; cbn [opt_member flat_map fst]; [rewrite Hk|]; reflexivity. }
  rewrite (Hno "mimeType" _ JStr), (Hno "sofaURI" _ JStr) in Hi by (try discriminate; reflexivity).
  assert (Hno2 : flat_map (fun kv : string * json => match classify (fst kv), snd kv with KRef _, JInt i => [i] | _, _ => [] end)
                          (opt_member "sofaString" (fun t => JStr (txt_enc L t)) (s_text sf)) = []).
  { destruct (s_text sf); reflexivity. }
  rewrite Hno2 in Hi. cbn [app] in Hi. rewrite !app_nil_r in Hi.
  destruct (s_arr sf) as [o|]; [|inversion Earr; subst arr; destruct Hi].
  apply bind_Ok in Earr as (j & Ej & Earr). inversion Earr; subst arr. cbn [flat_map fst snd classify refkey app] in Hi.
  unfold ref_json, ref_id in Ej. destruct (hget (c_heap c) o) as [f|] eqn:Eg; [|discriminate]. cbn [bind] in Ej. inversion Ej; subst j.
  destruct (o_id f) as [i'|] eqn:Ei; [|destruct Hi]. destruct Hi as [<-|[]]. exists o, f. repeat split; assumption.
Qed.

(* C04: every reference of the document resolves inside the document — '@' members (references, TOP-ranged features,
   head / tail of list nodes, shared collections, @sofa, @sofaArray), elements of FSArrays, view members, %SOFA. *)
Theorem json_refs_resolve L s mode c d c2 :
  lex_ok L -> save_json L s mode c = Ok (d, c2) -> wf_jsonb s c2 = true -> 0 < c_next_id c ->
  refs_wfb s c2 = true -> doc_refs_resolveb d = true.
Proof.
  intros HL Hsave Hwf Hpos Hrw.
  destruct (save_json_entries L s mode c d c2 HL Hsave Hwf Hpos)
    as (w & outs & fss & Ev & Ef & sofas & Efs & Evs & Ew & Hheap & Hviews & Houts & Efss & HV & HF & Hfound & Harrs).
  destruct HV as (V0 & V1 & V2 & _). destruct HF as (F0 & F1 & F2 & _).
  unfold refs_wfb in Hrw. rewrite Ew in Hrw. rewrite !andb_true_iff in Hrw. destruct Hrw as [[Hnonull Harrsch] Hsofaslot].
  set (ids := map fst (Ev ++ Ef)).
  assert (Hids : ids = flat_map (fun p => arr_ids c2 p ++ [s_xid (v_sofa (snd p))]) (tviews c) ++ map fst (found_list c2 w)).
  { unfold ids. rewrite map_app. f_equal; [exact V0|exact F0]. }
  assert (Htv : forall p, In p (tviews c) -> In (snd p) (c_views c)).
  { intros p Hp. rewrite <- (tag_views_snd (c_views c) []). apply in_map. exact Hp. }
  assert (Hview_in : forall p i, In p (tviews c) -> In i (arr_ids c2 p ++ [s_xid (v_sofa (snd p))]) -> In i ids).
  { intros p i Hp Hi. rewrite Hids. apply in_or_app. left. apply in_flat_map. exists p. split; assumption. }
  (* a sofa byte array is written by the views loop, once *)
  assert (Harr_in : forall o f i, In o (sofa_arrays c2) -> hget (c_heap c2) o = Some f -> o_id f = Some i -> In i ids).
  { intros o f i Ho Hg Hi. apply omem_In in Ho. rewrite <- sofa_arrays_once_mem in Ho. apply omem_In in Ho.
    assert (Hsa : sofa_arrays_once c2 = flat_map arr_of (tviews c)).
    { rewrite tviews_arrays. unfold sofa_arrays_once, sofa_arrays. rewrite Hviews. reflexivity. }
    rewrite Hsa in Ho. apply in_flat_map in Ho. destruct Ho as (p & Hp & Hop).
    apply (Hview_in p i Hp). apply in_or_app. left. unfold arr_ids. apply in_flat_map. exists o. split; [exact Hop|].
    rewrite Hg, Hi. left. reflexivity. }
  assert (Hfound_in : forall i, In i (map fst (w_all w)) -> In i ids).
  { intros i Hi. apply in_map_iff in Hi. destruct Hi as ([i' o] & Ei & Hio). cbn [fst] in Ei. subst i'.
    destruct (omem o (sofa_arrays c2)) eqn:Eo.
    - destruct (Hfound (i, o) Hio) as (f & Hg & _ & Hid). cbn [fst snd] in Hg, Hid. apply (Harr_in o f i); [apply omem_In; exact Eo|exact Hg|exact Hid].
    - rewrite Hids. apply in_or_app. right. change i with (fst (i, o)). apply in_map. unfold found_list, unwritten. apply filter_In.
      split; [apply (proj2 (sort_ids_In _ _)); exact Hio|]. cbn [snd]. rewrite Eo. reflexivity. }
  assert (Hsofa_in : forall v, In v (c_views c2) -> In (s_xid (v_sofa v)) ids).
  { intros v Hv. rewrite Hviews in Hv. rewrite <- (tag_views_snd (c_views c) []) in Hv. apply in_map_iff in Hv. destruct Hv as (p & <- & Hp).
    apply (Hview_in p _ Hp). apply in_or_app. right. left. reflexivity. }
  (* where an entry of the views loop comes from *)
  assert (HEv : forall e, In e Ev -> exists p out, In p (tviews c) /\ view_out L s c2 p = Ok out /\ In (JObj (snd e)) (fst out)).
  { intros e He. assert (Hj : In (entry_json e) (List.concat (map fst outs))) by (rewrite V1; apply in_map; exact He).
    apply in_concat in Hj. destruct Hj as (js & Hjs & Hj). apply in_map_iff in Hjs. destruct Hjs as (out & <- & Hout).
    destruct (mapM_In _ _ _ Houts out Hout) as (v & Hv & Eo). exists v, out. repeat split; assumption. }
  unfold doc_refs_resolveb. rewrite Efs, Evs. fold ids. apply andb_true_iff. split.
  - (* entries *)
    apply forallb_forall. intros e He. apply forallb_forall. intros i Hi. apply zmem_In.
    apply in_app_or in He. destruct He as [He|He].
    + (* written by the views loop: a byte array or a sofa *)
      destruct (HEv e He) as (p & out & Hp & Eo & Hj). pose proof (Htv p Hp) as Hv. set (v := snd p) in *. unfold view_out in Eo. fold v in Eo.
      apply bind_Ok in Eo as (jv & _ & Eo). apply bind_Ok in Eo as (arrs & Ea & Eo). apply bind_Ok in Eo as (ms & Es & Eo).
      inversion Eo; subst out. cbn [fst] in Hj. apply in_app_or in Hj. destruct Hj as [Hj|[Hj|[]]].
      * unfold arr_out in Ea. fold v in Ea. destruct (s_arr (v_sofa v)) as [o|] eqn:Eo'; [|inversion Ea; subst arrs; destruct Hj].
        destruct (omem o (fst p)); [inversion Ea; subst arrs; destruct Hj|].
        destruct (Harrs v o Hv Eo') as (f & i' & Hg & [Ht _] & _). rewrite Hg in Ea. apply bind_Ok in Ea as (m & Em & Ea). inversion Ea; subst arrs.
        destruct Hj as [Hj|[]]. inversion Hj as [Hm]. apply String.eqb_eq in Ht.
        destruct e as [ie me]. cbn [snd] in Hm. subst me. rewrite (enc_fs_bytes_norefs L s c2 f m ie Ht Em) in Hi. destruct Hi.
      * inversion Hj as [Hm]. destruct e as [ie me]. cbn [snd] in Hm. subst me.
        assert (Hie : ie = s_xid (v_sofa v)).
        { rewrite Forall_forall in V2. specialize (V2 _ He). unfold id_first in V2. cbn [fst snd] in V2.
          destruct (enc_sofa_head L c2 (v_sofa v) ms Es) as [Hid _]. unfold id_first in Hid. cbn [fst snd] in Hid. rewrite Hid in V2. inversion V2. reflexivity. }
        subst ie. destruct (enc_sofa_facts L c2 (v_sofa v) ms Es) as [_ Hr]. destruct (Hr i Hi) as (o & f & Ho & Hg & Hio).
        apply (Harr_in o f i); [|exact Hg|exact Hio]. unfold sofa_arrays. rewrite Hviews. apply in_flat_map. exists v. split; [exact Hv|].
        rewrite Ho. left. reflexivity.
    + (* a structure found *)
      rewrite F1 in Efss. pose proof (found_entries _ _ _ Efss F0) as F.
      destruct (Forall2_In_r _ _ _ _ F He) as (io & Hio & Hfst & Hg). unfold found_list, unwritten in Hio. apply filter_In in Hio. destruct Hio as [Hio _].
      apply (proj1 (sort_ids_In _ _)) in Hio.
      apply bind_Ok in Hg as (f & Ef' & Hg). apply bind_Ok in Hg as (m & Em & Hg). inversion Hg as [Hm].
      unfold fs_at in Ef'. destruct (hget (c_heap c2) (snd io)) as [f'|] eqn:Eg; [|discriminate]. inversion Ef'; subst f'.
      destruct (Hfound io Hio) as (f'' & Eg' & Hok & _). rewrite Eg in Eg'. inversion Eg'; subst f''.
      destruct io as [i0 o]. destruct e as [ie me]. cbn [fst snd] in *. subst ie me.
      pose proof (enc_fs_refs s c2 w Ew Hheap Hnonull Harrsch Hsofaslot ids Hfound_in Hsofa_in L i0 o f m Hio Eg Hok Em) as R.
      rewrite Forall_forall in R. exact (R i Hi).
  - (* views *)
    apply forallb_forall. intros kv Hkv. apply in_map_iff in Hkv. destruct Hkv as (out & <- & Hout).
    destruct (mapM_In _ _ _ Houts out Hout) as (p & Hp & Eo). pose proof (Htv p Hp) as Hv. set (v := snd p) in *. unfold view_out in Eo. fold v in Eo.
    apply bind_Ok in Eo as (jv & Ejv & Eo). apply bind_Ok in Eo as (arrs & Ea & Eo). apply bind_Ok in Eo as (ms & Es & Eo).
    inversion Eo; subst out. cbn [snd]. unfold enc_view in Ejv. apply bind_Ok in Ejv as (mids & Emids & Ejv). inversion Ejv; subst jv.
    unfold view_refs_ok. cbn [snd fst jget alookup]. change (String.eqb K_SOFA K_SOFA) with true. change (String.eqb K_MEMBERS K_SOFA) with false.
    change (String.eqb K_MEMBERS K_MEMBERS) with true. cbv iota. apply andb_true_iff. split.
    + (* the sofa entry *)
      assert (Hj : In (JObj ms) (List.concat (map fst outs))).
      { apply in_concat. exists (arrs ++ [JObj ms]). split; [|apply in_or_app; right; left; reflexivity].
        change (arrs ++ [JObj ms]) with (fst (arrs ++ [JObj ms], (s_name (v_sofa v), JObj [(K_SOFA, JInt (s_xid (v_sofa v))); (K_MEMBERS, JArr (map JInt (zsort mids)))]))).
        apply in_map. exact Hout. }
      rewrite V1 in Hj. apply in_map_iff in Hj. destruct Hj as ([ie me] & Eme & He). inversion Eme; subst me.
      destruct (enc_sofa_head L c2 (v_sofa v) ms Es) as [Hid Hss].
      assert (Hie : ie = s_xid (v_sofa v)).
      { rewrite Forall_forall in V2. specialize (V2 _ He). unfold id_first in *. cbn [fst snd] in *. rewrite Hid in V2. inversion V2. reflexivity. }
      subst ie. apply existsb_exists. exists (s_xid (v_sofa v), ms). split; [apply in_or_app; left; exact He|].
      cbn [fst snd]. rewrite Z.eqb_refl, Hss. destruct (enc_sofa_facts L c2 (v_sofa v) ms Es) as [-> _]. rewrite String.eqb_refl. reflexivity.
    + (* the members *)
      apply forallb_forall. intros j Hj. apply in_map_iff in Hj. destruct Hj as (i & <- & Hi). apply zmem_In. apply (proj1 (zsort_In _ _)) in Hi.
      destruct (member_ids_In _ _ _ i Emids Hi) as (o & f & Ho & Hg & Hio).
      assert (Hv2 : In v (c_views c2)) by (rewrite Hviews; exact Hv).
      destruct (member_resolves s c2 w Ew Hheap Hnonull v o Hv2 Ho) as (i' & fx & Hgx & Hix & Hinx).
      rewrite Hg in Hgx. inversion Hgx; subst fx. rewrite Hio in Hix. inversion Hix; subst i'. apply Hfound_in. exact Hinx.
Qed.
