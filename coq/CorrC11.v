(* CorrC11.v — correspondence harness for C11.  A case is a history applied to a fresh TypeSystem() together with the
   implementation's answers: outcome of every operation and, on the final state, per observed type the effective feature
   table (name, range, element type, multipleReferencesAllowed - compared as a set, the API promises no order),
   get_feature for every candidate name, and which candidate keywords the constructor accepts.
   Both forms of _add_feature are evaluated (DESIGN section 9, two-form models): the functional form (run_ts, about which
   the theorems of Props/C11.v speak) and the mechanism form (run_ts_mech: recursion through _children as written);
   they must produce the same state and the same outcomes, and that state must answer like the implementation.
   Bridge: Bridge.flatten of that state (the schema every heap-level model takes) must equal, on the observed types, the
   chains and the ORDERED effective features read off the implementation, and what harness/scen.schema_of computes. *)
From Cassis Require Import Base TS CorrC10 Schema Bridge.

Record case := mkCase {
  c_ops : list tsop;
  c_out : list opres;
  c_types : list string;                      (* registered full names observed *)
  c_tables : list (list ofeat);               (* per type: all_features *)
  c_fnames : list string;                     (* candidate feature names *)
  c_getf : list (list (option ofeat));        (* per type, per candidate name: get_feature *)
  c_kws : list string;                        (* candidate constructor keywords *)
  c_accept : list N;                          (* per type: mask over c_kws of the accepted keywords *)
  (* Bridge (coq/Bridge.v): the flattened view of the final state, restricted to c_types *)
  c_impl_schema : schema;                     (* read off the implementation: supertype chains, all_features IN THE API'S ORDER *)
  c_scen_schema : option schema;              (* harness/scen.schema_of on the declarations of the history (what every heap-level
                                                 check hands to its model); None: the history is outside its domain D1/D2 *)
  c_scen_exact : bool;                        (* the history has the shape scen.build_ts executes (D3): feature order compared too *)
  (* Merging as a history: merge_typesystems(ts1, ..., tsk) of type systems that declare every shared type with the same
     supertype performs, on a fresh TypeSystem(), the create_type / create_feature operations of its arguments in the order
     of the arguments (a type as soon as its supertype exists); the implementation reports one outcome for the whole
     history - the merged type system or ValueError.  Some ok: c_ops is that history, c_out is not observed, ok = no
     ValueError; the merged type system (or, with a base type system, the one load_cas_from_json returns) answers the
     queries.  None: an ordinary history, every outcome observed. *)
  c_merge : option bool
}.

(* short constructors and constants for the generated case files (harness/bridge.py uses an abbreviation only where the
   observed value is the abbreviated one) *)
Definition U (s : string) : string := ("uima.cas." ++ s)%string.
Definition tAn : string := "uima.tcas.Annotation".
Definition tAb : string := "uima.cas.AnnotationBase".
Definition tTop : string := "uima.cas.TOP".
Definition tSofa : string := "uima.cas.Sofa".
Definition tI : string := "uima.cas.Integer".
Definition tS : string := "uima.cas.String".
Definition Ti := mkTi.
Definition Fd := mkFd.
Definition F1 (n : string) (r : string) (e : option string) (m : bool) : fdecl := mkFd n n r e m.
Definition F0 (n : string) (r : string) : fdecl := mkFd n n r None false.
Definition Fb : fdecl := F0 "begin" tI.
Definition Fe : fdecl := F0 "end" tI.
Definition Fs : fdecl := F0 "sofa" tSofa.
Definition A3 (l : list string) : list string := l ++ [tAn; tAb; tTop].

Definition ofeat_set_eqb (a b : list ofeat) : bool :=
  Nat.eqb (List.length a) (List.length b)
  && forallb (fun x => existsb (ofeat_eqb x) b) a && forallb (fun x => existsb (ofeat_eqb x) a) b.
Definition oofeat_eqb (a b : option ofeat) : bool :=
  match a, b with None, None => true | Some x, Some y => ofeat_eqb x y | _, _ => false end.
Definition accepts (ts : tsys) (n : string) (kw : string) : bool := match ctor_accepts ts n kw with Ok b => b | _ => false end.

Definition all_ok (l : list opres) : bool := forallb (fun o => opres_eqb o ROk) l.

Definition check_case (c : case) : bool :=
  let '(ts, out) := run_ts (c_ops c) init_ts in
  let '(tsm, outm) := run_ts_mech (c_ops c) init_ts in
  (match c_merge c with
   | None => list_eqb opres_eqb out (c_out c) && list_eqb opres_eqb outm (c_out c)
   | Some ok => Bool.eqb (all_ok out) ok && Bool.eqb (all_ok outm) ok      (* refused <-> some definition of the history is *)
   end)
  && tsys_same ts tsm
  && forallb (registered ts) (c_types c)
  && list_eqb ofeat_set_eqb (map (fun n => map ofeat_of (all_features (ty_of ts n))) (c_types c)) (c_tables c)
  && list_eqb (list_eqb oofeat_eqb)
       (map (fun n => map (fun f => option_map ofeat_of (get_feature (ty_of ts n) f)) (c_fnames c)) (c_types c)) (c_getf c)
  && nlist_eqb (map (fun n => bits (map (accepts ts n) (c_kws c))) (c_types c)) (c_accept c)
  (* flatten (model) = the implementation's chains and ordered effective features = scen.schema_of *)
  && (match c_merge c with
      | None => schema_eqb (flatten_on ts (c_types c)) (c_impl_schema c)
      | Some _ => schema_eqb_unordered (flatten_on ts (c_types c)) (c_impl_schema c)   (* the order of merged features is C13's *)
      end)
  && match c_scen_schema c with
     | None => true
     | Some s => if c_scen_exact c then schema_eqb (flatten_on ts (c_types c)) s
                 else schema_eqb_unordered (flatten_on ts (c_types c)) s
     end.

(* premises of the theorems in Props/C11.v: the final state satisfies the invariant (by C11_reachable_WF it always does) *)
Definition premises (c : case) : bool := wfb (final_ts (c_ops c) init_ts).
