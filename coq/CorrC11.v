(* CorrC11.v — correspondence harness for C11.  A case is a history applied to a fresh TypeSystem() together with the
   implementation's answers: outcome of every operation and, on the final state, per observed type the effective feature
   table (name, range, element type, multipleReferencesAllowed - compared as a set, the API promises no order),
   get_feature for every candidate name, and which candidate keywords the constructor accepts.
   Both forms of _add_feature are evaluated (DESIGN section 9, two-form models): the functional form (run_ts, about which
   the theorems of Props/C11.v speak) and the mechanism form (run_ts_mech: recursion through _children as written);
   they must produce the same state and the same outcomes, and that state must answer like the implementation. *)
From Cassis Require Import Base TS CorrC10.

Record case := mkCase {
  c_ops : list tsop;
  c_out : list opres;
  c_types : list string;                      (* registered full names observed *)
  c_tables : list (list ofeat);               (* per type: all_features *)
  c_fnames : list string;                     (* candidate feature names *)
  c_getf : list (list (option ofeat));        (* per type, per candidate name: get_feature *)
  c_kws : list string;                        (* candidate constructor keywords *)
  c_accept : list N                           (* per type: mask over c_kws of the accepted keywords *)
}.

Definition ofeat_set_eqb (a b : list ofeat) : bool :=
  Nat.eqb (List.length a) (List.length b)
  && forallb (fun x => existsb (ofeat_eqb x) b) a && forallb (fun x => existsb (ofeat_eqb x) a) b.
Definition oofeat_eqb (a b : option ofeat) : bool :=
  match a, b with None, None => true | Some x, Some y => ofeat_eqb x y | _, _ => false end.
Definition accepts (ts : tsys) (n : string) (kw : string) : bool := match ctor_accepts ts n kw with Ok b => b | _ => false end.

Definition check_case (c : case) : bool :=
  let '(ts, out) := run_ts (c_ops c) init_ts in
  let '(tsm, outm) := run_ts_mech (c_ops c) init_ts in
  list_eqb opres_eqb out (c_out c)
  && list_eqb opres_eqb outm (c_out c)
  && tsys_same ts tsm
  && forallb (registered ts) (c_types c)
  && list_eqb ofeat_set_eqb (map (fun n => map ofeat_of (all_features (ty_of ts n))) (c_types c)) (c_tables c)
  && list_eqb (list_eqb oofeat_eqb)
       (map (fun n => map (fun f => option_map ofeat_of (get_feature (ty_of ts n) f)) (c_fnames c)) (c_types c)) (c_getf c)
  && nlist_eqb (map (fun n => bits (map (accepts ts n) (c_kws c))) (c_types c)) (c_accept c).

(* premises of the theorems in Props/C11.v: the final state satisfies the invariant (by C11_reachable_WF it always does) *)
Definition premises (c : case) : bool := wfb (final_ts (c_ops c) init_ts).
