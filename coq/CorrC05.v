(* CorrC05.v — correspondence harness for C05 (XMI half): a case carries the schema of the type system, one presentation
   or content variant of a document as an abstract document (harness/xmlabs.py), the table of the float literals that
   occur in it (float(str) of the implementation's platform, as float.hex()) and the canonical content observed from the
   CAS that load_cas_from_xmi returned for the bytes of that variant (harness/scen.py canon, own traversal).
   check_case: the observation equals (a) the canonical content of the model reader's result and (b) the declarative
   denotation of the variant document, both up to norm_xmi and restricted to the feature structures the observation
   can see (those reachable from a view member). *)
From Cassis Require Import Base Offsets Heap Schema Canon Lex XmiDoc XmiLoad.
Open Scope Z_scope.

Record case := mkCase {
  c_schema : schema;
  c_doc : xdoc;
  c_flts : list (string * flt);
  c_obs : ccas }.

Definition flt_of (c : case) : string -> option flt := fun a => alookup a (c_flts c).
Definition restrict (ids : list xid) (cc : ccas) : ccas :=
  mkCcas (cc_sofas cc) (filter (fun p => memZ (fst p) ids) (cc_fs cc)).
Definition same_as_obs (c : case) (r : res ccas) : bool :=
  match r with
  | Ok cc => ccas_eqb (norm_xmi (c_schema c) (restrict (map fst (cc_fs (c_obs c))) cc)) (norm_xmi (c_schema c) (c_obs c))
  | _ => false
  end.
Definition model_content (c : case) : res ccas :=
  do lc <- load_xmi (flt_of c) (c_schema c) false (c_doc c) ;; canon_loaded (c_schema c) lc.
Definition denoted_content (c : case) : res ccas :=
  res_map with_initial (denote_xmi (flt_of c) (c_schema c) (c_doc c)).
(* C05_load_xmi_total on the case: a document satisfying both premises is loaded by the model *)
Definition check_total (c : case) : bool :=
  negb (reader_okb0 (flt_of c) (c_schema c) (c_doc c) && total_okb (c_schema c) (c_doc c))
  || match load_xmi (flt_of c) (c_schema c) false (c_doc c) with Ok _ => true | _ => false end.
Definition check_case (c : case) : bool := same_as_obs c (model_content c) && same_as_obs c (denoted_content c) && check_total c.
(* premises of C05_load_xmi_total (documents with or without an _InitialView sofa) *)
Definition premises (c : case) : bool := reader_okb0 (flt_of c) (c_schema c) (c_doc c) && total_okb (c_schema c) (c_doc c).
