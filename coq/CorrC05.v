(* CorrC05.v — correspondence harness for C05 (XMI half): a case carries the schema of the type system, one presentation
   or content variant of a document as an abstract document (harness/xmlabs.py), the table of the float literals that
   occur in it (float(str) of the implementation's platform, as float.hex()) and the canonical content observed from the
   CAS that load_cas_from_xmi returned for the bytes of that variant (harness/scen.py canon, own traversal).
   check_case: the observation equals (a) the canonical content of the model reader's result and (b) the declarative
   denotation of the variant document, both up to norm_xmi and restricted to the feature structures the observation
   can see (those reachable from a view member).
   The cases the harness generates are of type lcase: a case together with the value of lenient= its bytes were loaded
   with.  A lenient case may contain elements of types the schema does not define (with attributes and nested child
   elements of their own); the model reader is run with the flag, the denotation is the one of the document without
   those elements (XmiLoad.drop_unknown), and the premises are the ones of C05_load_lenient_total.  With lenient = false
   everything is as for a plain case (check_case / premises, still used by CorrC17). *)
From Cassis Require Import Base Offsets Heap Schema Canon Lex XmiDoc XmiLoad.
Open Scope Z_scope.

Record case := mkCase {
  c_schema : schema;
  c_doc : xdoc;
  c_flts : list (string * flt);
  c_obs : ccas }.

Definition flt_of (c : case) : string -> option flt := fun a => alookup a (c_flts c).
Definition restrict (ids : list xid) (cc : ccas) : ccas :=
  mkCcas (cc_sofas cc) (filter (fun p => memZ (fst p) ids) (cc_fs cc)).
Definition same_as_obs (c : case) (r : res ccas) : bool :=
  match r with
  | Ok cc => ccas_eqb (norm_xmi (c_schema c) (restrict (map fst (cc_fs (c_obs c))) cc)) (norm_xmi (c_schema c) (c_obs c))
  | _ => false
  end.
(* the document the loaded CAS is the denotation of *)
Definition said_doc (lenient : bool) (c : case) : xdoc := if lenient then drop_unknown (c_schema c) (c_doc c) else c_doc c.
Definition model_content_l (lenient : bool) (c : case) : res ccas :=
  do lc <- load_xmi (flt_of c) (c_schema c) lenient (c_doc c) ;; canon_loaded (c_schema c) lc.
Definition denoted_content_l (lenient : bool) (c : case) : res ccas :=
  res_map with_initial (denote_xmi (flt_of c) (c_schema c) (said_doc lenient c)).
(* premises of C05_load_xmi_total (documents with or without an _InitialView sofa) / of C05_load_lenient_total *)
Definition premises_l (lenient : bool) (c : case) : bool :=
  (if lenient then dropped_ids_okb (c_schema c) (c_doc c) else true)
  && reader_okb0 (flt_of c) (c_schema c) (said_doc lenient c) && total_okb (c_schema c) (said_doc lenient c).
(* C05_load_xmi_total / C05_load_lenient_total on the case: a document satisfying the premises is loaded by the model *)
Definition check_total_l (lenient : bool) (c : case) : bool :=
  if premises_l lenient c
  then match load_xmi (flt_of c) (c_schema c) lenient (c_doc c) with Ok _ => true | _ => false end
  else true.
Definition check_case_l (lenient : bool) (c : case) : bool :=
  same_as_obs c (model_content_l lenient c) && same_as_obs c (denoted_content_l lenient c) && check_total_l lenient c.

(* strict loading *)
Definition model_content := model_content_l false.
Definition denoted_content := denoted_content_l false.
Definition check_total := check_total_l false.
Definition check_case := check_case_l false.
Definition premises := premises_l false.

(* what the harness renders *)
Record lcase := mkLCase { l_lenient : bool; l_case : case }.
Definition check_lcase (c : lcase) : bool := check_case_l (l_lenient c) (l_case c).
Definition premises_lcase (c : lcase) : bool := premises_l (l_lenient c) (l_case c).
