(* MergeProofs4.v — refinement between the two forms of the model of merge_typesystems (Merge.v): the mechanism form
   (Type._add_feature as written: recursion into _children, TS.add_rec) and the functional form the theorems are stated on
   (TS.add_feature / Merge.inherit_fn: the checks, then all types at once).
   Part 1: tree facts under the skeleton invariant HI (children, siblings, ranks).
   Part 2: `visit`: the recursion of add_rec with inherited = True, as a pure function returning the names it touches;
           add_rec IS visit (code mirror, add_rec_visit); what visit returns (which types are touched, that a refusal
           means a conflicting definition below, that it never runs out of fuel).
   Part 3: _add_feature(f, inherited=False): add_feature_mech = add_feature_res under HI and WFf (TSProofs proves it under
           WFh, which does not hold between two steps of a merge).
   Part 4: _add_feature(f, inherited=True) on a re-parented type: inherit_mech = inherit_fn under the invariants of the
           inherited list (WFp, Qx of MergeProofs and the downward closure DCx).
   Part 5: lifted through merge_features, inherit_list, reparent, merge_super, merge_decl, pass, rounds:
           merge_with mech_form = merge_with fn_form on well-formed inputs (results and errors). *)
From Cassis Require Import Base TS TSProofs Merge MergeProofs.
From Coq Require Import Arith.

(* ================================================================================================ Part 1: tree facts under HI *)
Lemma HI_children u c tc ci : HI u -> find_ty u c = Some tc ->
  (In ci (t_children tc) <-> exists tci, find_ty u ci = Some tci /\ t_super tci = Some c).
Proof.
  intros W Hc. destruct (find_ty_In _ _ _ Hc) as [Hin Hn].
  pose proof (wf_children _ W (strip_ty tc) ci (in_map strip_ty _ _ Hin)) as H. cbn [strip_ty t_children t_name] in H. rewrite Hn in H.
  rewrite H. unfold strip. rewrite (find_map_shape u strip_ty ci strip_shape). split.
  - intros (tci' & Hf & Hs). destruct (find_ty u ci) as [tci|]; [|discriminate]. inversion Hf; subst tci'. exists tci. auto.
  - intros (tci & Hf & Hs). exists (strip_ty tci). rewrite Hf. auto.
Qed.
Lemma HI_children_nodup u c tc : HI u -> find_ty u c = Some tc -> NoDup (t_children tc).
Proof. intros W Hc. destruct (find_ty_In _ _ _ Hc) as [Hin _]. apply (wf_children_nodup _ W (strip_ty tc) (in_map strip_ty _ _ Hin)). Qed.
Lemma below_child u c tc ci x : HI u -> find_ty u c = Some tc -> In ci (t_children tc) -> below u ci x -> below u c x.
Proof.
  intros W Hc Hci Hb. apply (HI_children u c tc ci W Hc) in Hci. destruct Hci as (tci & Hf & Hs).
  eapply below_trans; [|exact Hb]. eapply below_step; [exact Hf|exact Hs|apply below_refl].
Qed.
Lemma below_split u c tc x : HI u -> find_ty u c = Some tc -> below u c x -> x = c \/ exists ci, In ci (t_children tc) /\ below u ci x.
Proof.
  intros W Hc H. induction H as [|d td s Hf Hs Hb IH]; [left; reflexivity|]. right. destruct IH as [->|(ci & Hci & Hbi)].
  - exists d. split; [apply (HI_children u c tc d W Hc); eauto|apply below_refl].
  - exists ci. split; [exact Hci|eapply below_step; eassumption].
Qed.
Lemma child_sbelow u c tc ci : HI u -> find_ty u c = Some tc -> In ci (t_children tc) -> sbelow u c ci.
Proof.
  intros W Hc Hci. apply (HI_children u c tc ci W Hc) in Hci. destruct Hci as (tci & Hf & Hs). exists tci, c. repeat split; auto. apply below_refl.
Qed.
Lemma not_below_parent u c tc ci : HI u -> find_ty u c = Some tc -> In ci (t_children tc) -> ~ below u ci c.
Proof.
  intros W Hc Hci Hb. apply (HI_children u c tc ci W Hc) in Hci. destruct Hci as (tci & Hf & Hs).
  apply (HI_sbelow_neq u ci ci W); [|reflexivity]. exists tci, c. auto.
Qed.
Lemma sib_disjoint u c tc c1 c2 x : HI u -> find_ty u c = Some tc -> In c1 (t_children tc) -> In c2 (t_children tc) -> c1 <> c2 ->
  below u c1 x -> below u c2 x -> False.
Proof.
  intros W Hc H1 H2 Hn B1 B2.
  assert (Hcase : forall a b, In a (t_children tc) -> In b (t_children tc) -> a <> b -> below u a b -> False).
  { intros a b Ha Hb Hab B. destruct (below_cases _ _ _ B) as [E|(tb & s & Hfb & Hsb & Hbs)]; [contradiction|].
    apply (HI_children u c tc b W Hc) in Hb. destruct Hb as (tb' & Hfb' & Hsb'). rewrite Hfb in Hfb'. inversion Hfb'; subst tb'.
    rewrite Hsb in Hsb'. inversion Hsb'; subst s. apply (not_below_parent u c tc a W Hc Ha Hbs). }
  destruct (chain_linear u c1 c2 x B1 B2) as [B|B]; [apply (Hcase c1 c2 H1 H2 Hn B)|apply (Hcase c2 c1 H2 H1 (fun E => Hn (eq_sym E)) B)].
Qed.
Lemma rank_child u c tc ci tci : HI u -> find_ty u c = Some tc -> In ci (t_children tc) -> find_ty u ci = Some tci -> t_rank tc < t_rank tci.
Proof.
  intros W Hc Hci Hf. apply (HI_children u c tc ci W Hc) in Hci. destruct Hci as (tci' & Hf' & Hs). rewrite Hf in Hf'. inversion Hf'; subst tci'.
  destruct (find_ty_In _ _ _ Hf) as [Hin _]. destruct (HI_wf_super u W tci c Hin Hs) as (p & Hp & Hlt). rewrite Hc in Hp. inversion Hp; subst p. exact Hlt.
Qed.

(* ================================================================================================ Part 2: visit *)
(* the children loop, structurally *)
Fixpoint vlist (v : tname -> res (list tname)) (cs : list tname) : res (list tname) :=
  match cs with [] => Ok [] | c :: r => do l <- v c;; do ls <- vlist v r;; Ok (l ++ ls) end.
Lemma fold_left_err {A} (g : res A -> tname -> res A) cs e : (forall c, g (Err e) c = Err e) -> fold_left g cs (Err e) = Err e.
Proof. intros H. induction cs as [|c r IH]; [reflexivity|]. cbn [fold_left]. rewrite H. exact IH. Qed.
Lemma fold_left_fuel {A} (g : res A -> tname -> res A) cs : (forall c, g OutOfFuel c = OutOfFuel) -> fold_left g cs OutOfFuel = OutOfFuel.
Proof. intros H. induction cs as [|c r IH]; [reflexivity|]. cbn [fold_left]. rewrite H. exact IH. Qed.

Section Visit.
  Variables (u : tsys) (f : feat).
  Hypothesis W : HI u.

  Definition mark (S : list tname) (d : ty) : ty := if memb (t_name d) S then with_inh f d else d.
  Definition marked (S : list tname) : tsys := map (mark S) u.
  Lemma mark_shape S : keeps_shape (mark S).
  Proof. intros d. unfold mark. destruct (memb (t_name d) S); repeat split. Qed.
  Lemma marked_nil : marked [] = u.
  Proof. unfold marked, mark. cbn [memb]. apply map_id. Qed.
  Lemma find_marked S c : find_ty (marked S) c = option_map (mark S) (find_ty u c).
  Proof. apply (find_map_shape u (mark S) c (mark_shape S)). Qed.
  Lemma marked_snoc S c tc : find_ty u c = Some tc -> memb c S = false -> upd_ty (marked S) c (with_inh f) = marked (S ++ [c]).
  Proof.
    intros Hf Hm. unfold upd_ty, marked. rewrite map_map. apply map_ext_in. intros d Hd.
    rewrite (proj1 (mark_shape S d)). unfold mark. rewrite memb_app. cbn [memb]. rewrite orb_false_r.
    destruct (String.eqb (t_name d) c) eqn:E.
    - apply String.eqb_eq in E. rewrite E, Hm. reflexivity.
    - rewrite orb_false_r. reflexivity.
  Qed.

  (* Type._add_feature(f, inherited=True) on the type named c, as the list of names whose inherited table gains f *)
  Fixpoint visit (k : nat) (c : tname) : res (list tname) :=
    match k with
    | O => OutOfFuel
    | S k' =>
      match find_ty u c with
      | None => Err ETypeNotFound
      | Some t =>
        match find_feat (f_name f) (t_inh t) with
        | Some g => if feat_eqb g f then Ok [] else Err EValue
        | None =>
          do _ <- (match find_feat (f_name f) (t_own t) with
                   | Some g => if feat_eqb g f then Ok tt else Err EValue
                   | None => Ok tt
                   end);;
          do ls <- vlist (visit k') (t_children t);; Ok (c :: ls)
        end
      end
    end.

  Lemma vlist_below v cs : (forall c l, In c cs -> v c = Ok l -> forall x, In x l -> below u c x) ->
    forall ls, vlist v cs = Ok ls -> forall x, In x ls -> exists c, In c cs /\ below u c x.
  Proof.
    induction cs as [|c r IH]; intros Hv ls H x Hx; cbn [vlist] in H; [inversion H; subst; destruct Hx|].
    destruct (v c) as [l| |] eqn:Ec; cbn [bind] in H; try discriminate.
    destruct (vlist v r) as [lr| |] eqn:Er; cbn [bind] in H; try discriminate. inversion H; subst ls.
    apply in_app_or in Hx. destruct Hx as [Hx|Hx].
    - exists c. split; [left; reflexivity|apply (Hv c l (or_introl eq_refl) Ec x Hx)].
    - destruct (IH (fun c0 l0 H0 => Hv c0 l0 (or_intror H0)) lr eq_refl x Hx) as (c0 & Hc0 & Hb). exists c0. split; [right; exact Hc0|exact Hb].
  Qed.
  Lemma visit_below : forall k c l, visit k c = Ok l -> forall x, In x l -> below u c x.
  Proof.
    induction k as [|k IH]; intros c l H x Hx; cbn [visit] in H; [discriminate|].
    destruct (find_ty u c) as [t|] eqn:Ec; [|discriminate].
    destruct (find_feat (f_name f) (t_inh t)) as [g|]; [destruct (feat_eqb g f); [inversion H; subst; destruct Hx|discriminate]|].
    destruct (match find_feat (f_name f) (t_own t) with Some g => if feat_eqb g f then Ok tt else Err EValue | None => Ok tt end); cbn [bind] in H; try discriminate.
    destruct (vlist (visit k) (t_children t)) as [ls| |] eqn:El; cbn [bind] in H; try discriminate. inversion H; subst l.
    destruct Hx as [<-|Hx]; [apply below_refl|].
    destruct (vlist_below (visit k) (t_children t) (fun c0 l0 _ H0 => IH c0 l0 H0) ls El x Hx) as (ci & Hci & Hb).
    apply (below_child u c t ci x W Ec Hci Hb).
  Qed.

  (* ---- add_rec with inherited = True IS visit ---- *)
  Lemma fold_visit k : (forall c S, (forall x, below u c x -> memb x S = false) ->
                          add_rec k (marked S) c f true = do l <- visit k c;; Ok (marked (S ++ l))) ->
    forall p tp cs S, find_ty u p = Some tp -> incl cs (t_children tp) -> NoDup cs ->
      (forall ci x, In ci cs -> below u ci x -> memb x S = false) ->
      fold_left (fun acc c => do s <- acc;; add_rec k s c f true) cs (Ok (marked S)) = do ls <- vlist (visit k) cs;; Ok (marked (S ++ ls)).
  Proof.
    intros IH p tp cs. induction cs as [|c r IHr]; intros S Hp Hincl Hnd Hfresh; cbn [fold_left vlist bind].
    - rewrite app_nil_r. reflexivity.
    - rewrite (IH c S (fun x Hb => Hfresh c x (or_introl eq_refl) Hb)).
      destruct (visit k c) as [l| |] eqn:Ev; cbn [bind].
      + inversion Hnd as [|? ? Hnotin Hnd']; subst.
        rewrite (IHr (S ++ l) Hp (fun y Hy => Hincl y (or_intror Hy)) Hnd').
        * destruct (vlist (visit k) r) as [ls| |]; cbn [bind]; try reflexivity. rewrite app_assoc. reflexivity.
        * intros ci x Hci Hb. rewrite memb_app, (Hfresh ci x (or_intror Hci) Hb). cbn [orb]. apply memb_false_notin. intros Hx.
          apply (sib_disjoint u p tp c ci x W Hp (Hincl c (or_introl eq_refl)) (Hincl ci (or_intror Hci))); [intros ->; contradiction| |exact Hb].
          apply (visit_below k c l Ev x Hx).
      + apply fold_left_err. intros c0. reflexivity.
      + apply fold_left_fuel. intros c0. reflexivity.
  Qed.
  Lemma add_rec_visit : forall k c S, (forall x, below u c x -> memb x S = false) ->
    add_rec k (marked S) c f true = do l <- visit k c;; Ok (marked (S ++ l)).
  Proof.
    induction k as [|k IH]; intros c S Hfresh; [reflexivity|]. cbn [add_rec visit]. rewrite find_marked.
    destruct (find_ty u c) as [t|] eqn:Ec; cbn [option_map]; [|reflexivity]. destruct (find_ty_In _ _ _ Ec) as [_ Hcn].
    assert (HcS : memb c S = false) by (apply Hfresh; apply below_refl).
    assert (Em : mark S t = t) by (unfold mark; rewrite Hcn, HcS; reflexivity). rewrite Em.
    destruct (find_feat (f_name f) (t_inh t)) as [g|] eqn:Eg.
    - destruct (feat_eqb g f); cbn [bind]; [rewrite app_nil_r; reflexivity|reflexivity].
    - destruct (match find_feat (f_name f) (t_own t) with Some g => if feat_eqb g f then Ok tt else Err EValue | None => Ok tt end) as [[]| |]; cbn [bind]; try reflexivity.
      rewrite (marked_snoc S c t Ec HcS).
      rewrite (fold_visit k IH c t (t_children t) (S ++ [c]) Ec (incl_refl _) (HI_children_nodup u c t W Ec)).
      + destruct (vlist (visit k) (t_children t)) as [ls| |]; cbn [bind]; try reflexivity. rewrite <- app_assoc. reflexivity.
      + intros ci x Hci Hb. rewrite memb_app, (Hfresh x (below_child u c t ci x W Ec Hci Hb)). cbn [memb orb]. rewrite orb_false_r.
        apply String.eqb_neq. intros ->. apply (not_below_parent u c t ci W Ec Hci Hb).
  Qed.

  (* ---- visit does not run out of fuel ---- *)
  Lemma vlist_nofuel v cs : (forall c, In c cs -> v c <> OutOfFuel) -> vlist v cs <> OutOfFuel.
  Proof.
    induction cs as [|c r IH]; intros H; cbn [vlist]; [discriminate|]. pose proof (H c (or_introl eq_refl)) as Hc.
    destruct (v c) as [l| |]; cbn [bind]; try discriminate; [|congruence].
    pose proof (IH (fun c0 H0 => H c0 (or_intror H0))) as Hr. destruct (vlist v r); cbn [bind]; try discriminate. congruence.
  Qed.
  Lemma visit_nofuel : forall k c tc, find_ty u c = Some tc -> max_rank u - t_rank tc < k -> visit k c <> OutOfFuel.
  Proof.
    induction k as [|k IH]; intros c tc Hc Hlt; [lia|]. cbn [visit]. rewrite Hc.
    destruct (find_feat (f_name f) (t_inh tc)) as [g|]; [destruct (feat_eqb g f); discriminate|].
    assert (Hn : vlist (visit k) (t_children tc) <> OutOfFuel).
    { apply vlist_nofuel. intros ci Hci. pose proof Hci as Hci'. apply (HI_children u c tc ci W Hc) in Hci'. destruct Hci' as (tci & Hf & _).
      apply (IH ci tci Hf). pose proof (rank_child u c tc ci tci W Hc Hci Hf). destruct (find_ty_In _ _ _ Hf) as [Hin _].
      pose proof (rank_le_max u tci Hin). lia. }
    destruct (find_feat (f_name f) (t_own tc)) as [g|]; [destruct (feat_eqb g f)|]; cbn [bind]; try discriminate;
      (destruct (vlist (visit k) (t_children tc)); cbn [bind]; try discriminate; congruence).
  Qed.

  (* ---- a refusal is a conflicting definition somewhere below ---- *)
  Definition conflict_at (d : tname) : Prop :=
    exists td g, find_ty u d = Some td /\ In g (t_own td ++ t_inh td) /\ f_name g = f_name f /\ feat_eqb g f = false.
  Lemma vlist_err v cs e : vlist v cs = Err e -> exists c, In c cs /\ v c = Err e.
  Proof.
    induction cs as [|c r IH]; cbn [vlist]; [discriminate|]. destruct (v c) as [l|e0|] eqn:Ec; cbn [bind]; try discriminate.
    - destruct (vlist v r) as [lr|e1|] eqn:Er; cbn [bind]; try discriminate. intros H. inversion H; subst e1.
      destruct (IH eq_refl) as (c0 & Hc0 & H0). exists c0. split; [right; exact Hc0|exact H0].
    - intros H. inversion H; subst e0. exists c. split; [left; reflexivity|exact Ec].
  Qed.
  Lemma visit_err : forall k c e, find_ty u c <> None -> visit k c = Err e -> e = EValue /\ exists d, below u c d /\ conflict_at d.
  Proof.
    induction k as [|k IH]; intros c e Hreg H; cbn [visit] in H; [discriminate|].
    destruct (find_ty u c) as [t|] eqn:Ec; [|congruence].
    destruct (find_feat (f_name f) (t_inh t)) as [g|] eqn:Eg.
    { destruct (feat_eqb g f) eqn:Ee; [discriminate|]. inversion H. split; [reflexivity|]. exists c. split; [apply below_refl|].
      destruct (find_feat_some _ _ _ Eg) as [Hg Hn]. exists t, g. split; [exact Ec|]. split; [apply in_or_app; right; exact Hg|auto]. }
    destruct (find_feat (f_name f) (t_own t)) as [g|] eqn:Eo.
    { destruct (feat_eqb g f) eqn:Ee; cbn [bind] in H.
      2:{ inversion H. split; [reflexivity|]. exists c. split; [apply below_refl|]. destruct (find_feat_some _ _ _ Eo) as [Hg Hn].
          exists t, g. split; [exact Ec|]. split; [apply in_or_app; left; exact Hg|auto]. }
      destruct (vlist (visit k) (t_children t)) as [ls|e1|] eqn:El; cbn [bind] in H; try discriminate. inversion H; subst e1.
      destruct (vlist_err _ _ _ El) as (ci & Hci & Hv). pose proof Hci as Hci'. apply (HI_children u c t ci W Ec) in Hci'. destruct Hci' as (tci & Hf & _).
      destruct (IH ci e ltac:(rewrite Hf; discriminate) Hv) as (He & d & Hb & Hc). split; [exact He|]. exists d. split; [apply (below_child u c t ci d W Ec Hci Hb)|exact Hc]. }
    cbn [bind] in H. destruct (vlist (visit k) (t_children t)) as [ls|e1|] eqn:El; cbn [bind] in H; try discriminate. inversion H; subst e1.
    destruct (vlist_err _ _ _ El) as (ci & Hci & Hv). pose proof Hci as Hci'. apply (HI_children u c t ci W Ec) in Hci'. destruct Hci' as (tci & Hf & _).
    destruct (IH ci e ltac:(rewrite Hf; discriminate) Hv) as (He & d & Hb & Hc). split; [exact He|]. exists d. split; [apply (below_child u c t ci d W Ec Hci Hb)|exact Hc].
  Qed.

  (* ---- what a successful visit touched: exactly the types below c that did not inherit the name, and there is no
          conflicting definition below c.  Premises, for the types below c only: inherited definitions of the name reach
          the whole subtree (DCf), and a type sees one definition of the name (ONE) ---- *)
  Definition DCf (c : tname) : Prop := forall c' tc g, below u c c' -> find_ty u c' = Some tc -> In g (t_inh tc) -> f_name g = f_name f ->
    forall d td, below u c' d -> find_ty u d = Some td -> exists g', In g' (t_inh td) /\ feat_eqb g' g = true.
  Definition ONEf (c : tname) : Prop := forall d td g1 g2, below u c d -> find_ty u d = Some td ->
    In g1 (t_own td ++ t_inh td) -> In g2 (t_own td ++ t_inh td) -> f_name g1 = f_name f -> f_name g2 = f_name f -> feat_eqb g1 g2 = true.
  Definition touched (c : tname) (l : list tname) : Prop :=
    (forall x tx, find_ty u x = Some tx -> (In x l <-> below u c x /\ find_feat (f_name f) (t_inh tx) = None)) /\
    (forall d, below u c d -> ~ conflict_at d).

  Lemma DCf_child c tc ci : find_ty u c = Some tc -> In ci (t_children tc) -> DCf c -> DCf ci.
  Proof. intros Hc Hci H c' tc' g Hb. apply H. apply (below_child u c tc ci c' W Hc Hci Hb). Qed.
  Lemma ONEf_child c tc ci : find_ty u c = Some tc -> In ci (t_children tc) -> ONEf c -> ONEf ci.
  Proof. intros Hc Hci H d td g1 g2 Hb. apply H. apply (below_child u c tc ci d W Hc Hci Hb). Qed.

  Lemma vlist_touched v c tc : find_ty u c = Some tc ->
    forall cs, incl cs (t_children tc) -> (forall ci l, In ci cs -> v ci = Ok l -> touched ci l) ->
    forall ls, vlist v cs = Ok ls ->
      (forall x tx, find_ty u x = Some tx -> (In x ls <-> (exists ci, In ci cs /\ below u ci x) /\ find_feat (f_name f) (t_inh tx) = None)) /\
      (forall ci d, In ci cs -> below u ci d -> ~ conflict_at d).
  Proof.
    intros Hc. induction cs as [|c1 r IH]; intros Hincl Hv ls H; cbn [vlist] in H.
    - inversion H; subst ls. split; [|intros ci d []]. intros x tx Hx. split; [intros []|intros [(ci & [] & _) _]].
    - destruct (v c1) as [l| |] eqn:E1; cbn [bind] in H; try discriminate.
      destruct (vlist v r) as [lr| |] eqn:Er; cbn [bind] in H; try discriminate. inversion H; subst ls.
      destruct (Hv c1 l (or_introl eq_refl) E1) as [T1 C1].
      destruct (IH (fun y Hy => Hincl y (or_intror Hy)) (fun ci l0 Hci => Hv ci l0 (or_intror Hci)) lr eq_refl) as [Tr Cr]. split.
      + intros x tx Hx. rewrite in_app_iff, (T1 x tx Hx), (Tr x tx Hx). split.
        * intros [[Hb Hn]|[(ci & Hci & Hb) Hn]]; (split; [|exact Hn]); [exists c1; split; [left; reflexivity|exact Hb]|exists ci; split; [right; exact Hci|exact Hb]].
        * intros [(ci & [<-|Hci] & Hb) Hn]; [left; auto|right; split; [exists ci; auto|exact Hn]].
      + intros ci d [<-|Hci] Hb; [apply (C1 d Hb)|apply (Cr ci d Hci Hb)].
  Qed.
  Lemma visit_touched : forall k c l, DCf c -> ONEf c -> visit k c = Ok l -> touched c l.
  Proof.
    induction k as [|k IH]; intros c l HD HO H; cbn [visit] in H; [discriminate|].
    destruct (find_ty u c) as [t|] eqn:Ec; [|discriminate].
    destruct (find_feat (f_name f) (t_inh t)) as [g|] eqn:Eg.
    - (* c inherits an equal definition: so does everything below c, nothing is touched *)
      destruct (feat_eqb g f) eqn:Ee; [|discriminate]. inversion H; subst l. destruct (find_feat_some _ _ _ Eg) as [Hg Hgn].
      assert (Hall : forall d td, below u c d -> find_ty u d = Some td -> exists g', In g' (t_inh td) /\ feat_eqb g' f = true).
      { intros d td Hb Hd. destruct (HD c t g (below_refl _ _) Ec Hg Hgn d td Hb Hd) as (g' & Hg' & He'). exists g'. split; [exact Hg'|eapply feat_eqb_trans; eassumption]. }
      split.
      + intros x tx Hx. split; [intros []|]. intros [Hb Hn]. destruct (Hall x tx Hb Hx) as (g' & Hg' & He').
        apply (find_feat_none _ _ Hn g' Hg'). apply (feat_eqb_name _ _ He').
      + intros d Hb (td & h & Hd & Hh & Hhn & Hhe). destruct (Hall d td Hb Hd) as (g' & Hg' & He').
        pose proof (HO d td h g' Hb Hd Hh (in_or_app _ _ _ (or_intror Hg')) Hhn (feat_eqb_name _ _ He')) as E.
        rewrite (feat_eqb_trans _ _ _ E He') in Hhe. discriminate.
    - assert (Hown : forall h, In h (t_own t) -> f_name h = f_name f -> feat_eqb h f = true).
      { intros h Hh Hhn. destruct (find_feat (f_name f) (t_own t)) as [g|] eqn:Eo.
        - destruct (feat_eqb g f) eqn:Ee; [|discriminate]. destruct (find_feat_some _ _ _ Eo) as [Hg Hgn].
          pose proof (HO c t h g (below_refl _ _) Ec (in_or_app _ _ _ (or_introl Hh)) (in_or_app _ _ _ (or_introl Hg)) Hhn Hgn) as E.
          eapply feat_eqb_trans; eassumption.
        - exfalso. apply (find_feat_none _ _ Eo h Hh Hhn). }
      destruct (match find_feat (f_name f) (t_own t) with Some g => if feat_eqb g f then Ok tt else Err EValue | None => Ok tt end); cbn [bind] in H; try discriminate.
      destruct (vlist (visit k) (t_children t)) as [ls| |] eqn:El; cbn [bind] in H; try discriminate. inversion H; subst l.
      destruct (vlist_touched (visit k) c t Ec (t_children t) (incl_refl _)
                  (fun ci l0 Hci Hv => IH ci l0 (DCf_child c t ci Ec Hci HD) (ONEf_child c t ci Ec Hci HO) Hv) ls El) as [Tl Cl].
      destruct (find_ty_In _ _ _ Ec) as [_ Hcn]. split.
      + intros x tx Hx. cbn [In]. rewrite (Tl x tx Hx). split.
        * intros [<-|[(ci & Hci & Hb) Hn]]; [rewrite Ec in Hx; inversion Hx; subst tx; split; [apply below_refl|exact Eg]|].
          split; [apply (below_child u c t ci x W Ec Hci Hb)|exact Hn].
        * intros [Hb Hn]. destruct (below_split u c t x W Ec Hb) as [->|(ci & Hci & Hbi)]; [left; reflexivity|right; split; [exists ci; auto|exact Hn]].
      + intros d Hb. destruct (below_split u c t d W Ec Hb) as [->|(ci & Hci & Hbi)]; [|apply (Cl ci d Hci Hbi)].
        intros (td & h & Hd & Hh & Hhn & Hhe). rewrite Ec in Hd. inversion Hd; subst td. apply in_app_or in Hh. destruct Hh as [Hh|Hh].
        * rewrite (Hown h Hh Hhn) in Hhe. discriminate.
        * apply (find_feat_none _ _ Eg h Hh Hhn).
  Qed.
End Visit.

(* ================================================================================================ Part 3: _add_feature(f, inherited=False) *)
Lemma descendants_map g ts : keeps_shape g -> forall k n, descendants k (map g ts) n = descendants k ts n.
Proof.
  intros K. induction k as [|k IH]; intros n; [reflexivity|]. cbn [descendants]. rewrite (find_map_shape ts g n K).
  destruct (find_ty ts n) as [t|]; cbn [option_map]; [|reflexivity]. rewrite (proj1 (proj2 (proj2 (K t)))).
  erewrite map_ext; [reflexivity|]. intros c. apply IH.
Qed.
Lemma max_rank_map g ts : keeps_shape g -> max_rank (map g ts) = max_rank ts.
Proof.
  intros K. unfold max_rank. induction ts as [|t r IH]; [reflexivity|]. cbn [map fold_right]. rewrite IH, (proj2 (proj2 (proj2 (K t)))). reflexivity.
Qed.
Lemma HI_descendants ts dom t : HI ts -> find_ty ts dom = Some t ->
  exists l, descendants (desc_fuel ts) ts dom = Some l /\ forall d, In d l <-> below ts dom d.
Proof.
  intros W Ht. destruct (find_ty_In _ _ _ Ht) as [Hin Hn].
  destruct (descendants_full_spec (strip ts) (strip_ty t) W (in_map strip_ty _ _ Hin)) as (l & Hl & _ & Hspec).
  cbn [strip_ty t_name] in Hl, Hspec. rewrite Hn in Hl, Hspec. unfold desc_fuel, strip in Hl. rewrite (max_rank_map strip_ty ts strip_shape) in Hl.
  rewrite (descendants_map strip_ty ts strip_shape) in Hl. exists l. split; [exact Hl|]. intros d. rewrite Hspec. apply (below_map strip_ty ts dom d strip_shape).
Qed.
Lemma with_own_upd_shape dom f : keeps_shape (fun t => if String.eqb (t_name t) dom then with_own f t else t).
Proof. intros t. destruct (String.eqb (t_name t) dom); repeat split. Qed.

Section AddOwn.
  Variables (ts : tsys) (dom : tname) (f : feat) (t : ty).
  Hypothesis W : HI ts.
  Hypothesis F : WFf ts.
  Hypothesis Et : find_ty ts dom = Some t.
  Hypothesis Eo : find_feat (f_name f) (t_own t) = None.
  Hypothesis Ei : find_feat (f_name f) (t_inh t) = None.
  Hypothesis Ec : existsb (fun d => is_below ts dom (t_name d) && conflicts (t_own d) f) ts = false.

  Lemma pre_check_HI d : In d ts -> below ts dom (t_name d) -> forall g, In g (t_own d) -> f_name g = f_name f -> feat_eqb g f = true.
  Proof.
    intros Hd Hb g Hg Hn.
    assert (Hx : (is_below ts dom (t_name d) && conflicts (t_own d) f) = false).
    { destruct (is_below ts dom (t_name d) && conflicts (t_own d) f) eqn:E; [|reflexivity].
      assert (existsb (fun d0 => is_below ts dom (t_name d0) && conflicts (t_own d0) f) ts = true) by (apply existsb_exists; eauto). congruence. }
    apply (HI_is_below ts dom (t_name d) d W (In_find_ty _ _ (HI_nodup _ W) Hd)) in Hb. rewrite Hb in Hx. cbn [andb] in Hx.
    eapply conflicts_false; eassumption.
  Qed.
  (* an old feature under the new feature's name, seen from a type below the domain, equals the new feature *)
  Lemma old_same_name_HI t0 x : In t0 ts -> below ts dom (t_name t0) -> In x (t_own t0 ++ t_inh t0) -> f_name x = f_name f -> feat_eqb x f = true.
  Proof.
    intros Hin0 Hb Hx Hn. destruct (find_ty_In _ _ _ Et) as [Htin Htn].
    apply in_app_or in Hx. destruct Hx as [Hx|Hx]; [apply (pre_check_HI t0 Hin0 Hb x Hx Hn)|].
    destruct (wf_inh_sound _ F t0 x Hin0 Hx) as (a & ta & Hs & Ha & Hg). destruct (find_ty_In _ _ _ Ha) as [Hain Han].
    destruct (chain_linear ts a dom (t_name t0) (sbelow_below _ _ _ Hs) Hb) as [Hadom|Hdoma].
    - destruct (below_cases _ _ _ Hadom) as [->|Hs'].
      + rewrite Et in Ha. inversion Ha; subst ta. exfalso. apply (find_feat_none _ _ Eo x Hg). exact Hn.
      + exfalso. rewrite <- Htn in Hs'. destruct (wf_inh_complete _ F t a ta x Htin Hs' Ha Hg) as (f1 & Hf1 & He).
        apply (find_feat_none _ _ Ei f1 Hf1). rewrite (feat_eqb_name _ _ He). exact Hn.
    - rewrite <- Han in Hdoma. apply (pre_check_HI ta Hain Hdoma x Hg Hn).
  Qed.

  Let g0 := fun d : ty => if String.eqb (t_name d) dom then with_own f d else d.
  Let u0 := upd_ty ts dom (with_own f).
  Lemma u0_HI : HI u0.
  Proof. unfold HI, u0, upd_ty. rewrite (strip_map _ ts (with_own_upd_shape dom f)). exact W. Qed.
  Lemma u0_find n : find_ty u0 n = option_map g0 (find_ty ts n).
  Proof. apply (find_map_shape ts _ n (with_own_upd_shape dom f)). Qed.
  Lemma u0_below a d : below u0 a d <-> below ts a d.
  Proof. apply (below_map _ ts a d (with_own_upd_shape dom f)). Qed.
  (* below a child of the domain nothing has changed *)
  Lemma u0_find_below ci d td : In ci (t_children t) -> below ts ci d -> find_ty u0 d = Some td -> find_ty ts d = Some td /\ In td ts /\ sbelow ts dom d.
  Proof.
    intros Hci Hb Hd. rewrite u0_find in Hd. destruct (find_ty ts d) as [td0|] eqn:E; [|discriminate]. cbn [option_map] in Hd.
    destruct (find_ty_In _ _ _ E) as [Hin Hn].
    assert (Hs : sbelow ts dom d).
    { destruct (child_sbelow ts dom t ci W Et Hci) as (tci & s & Hf & Hsup & Hbs). destruct (below_cases _ _ _ Hb) as [<-|(td1 & s1 & Hf1 & Hs1 & Hb1)].
      - exists tci, s. auto.
      - exists td1, s1. repeat split; auto. eapply below_trans; [|exact Hb1]. eapply below_step; eassumption. }
    assert (Hne : String.eqb (t_name td0) dom = false).
    { apply String.eqb_neq. rewrite Hn. intros ->. apply (HI_sbelow_neq ts dom dom W Hs). reflexivity. }
    unfold g0 in Hd. rewrite Hne in Hd. inversion Hd; subst td0. auto.
  Qed.
  Lemma u0_DC ci : In ci (t_children t) -> DCf u0 f ci.
  Proof.
    intros Hci c' tc g Hb Hc' Hg Hgn d td Hbd Hd. apply u0_below in Hb. apply u0_below in Hbd.
    destruct (u0_find_below ci c' tc Hci Hb Hc') as (Hc & Hcin & _).
    destruct (u0_find_below ci d td Hci (below_trans _ _ _ _ Hb Hbd) Hd) as (Hd0 & Hdin & _).
    destruct (wf_inh_sound _ F tc g Hcin Hg) as (a & ta & Hs & Ha & Hoa). destruct (find_ty_In _ _ _ Hc) as [_ Hcn]. rewrite Hcn in Hs.
    destruct (below_cases _ _ _ Hbd) as [<-|(td1 & s1 & Hf1 & Hs1 & Hb1)].
    - rewrite Hc in Hd0. inversion Hd0; subst td. exists g. split; [exact Hg|apply feat_eqb_refl].
    - destruct (find_ty_In _ _ _ Hd0) as [_ Hdn]. apply (wf_inh_complete _ F td a ta g Hdin); auto. rewrite Hdn.
      exists td1, s1. repeat split; auto. eapply below_trans; [apply sbelow_below; exact Hs|exact Hb1].
  Qed.
  Lemma u0_ONE ci : In ci (t_children t) -> ONEf u0 f ci.
  Proof.
    intros Hci d td g1 g2 Hb Hd H1 H2 Hn1 Hn2. apply u0_below in Hb. destruct (u0_find_below ci d td Hci Hb Hd) as (_ & Hdin & _).
    apply (wf_one_def _ F td g1 g2 Hdin H1 H2). congruence.
  Qed.
  Lemma u0_no_conflict ci d : In ci (t_children t) -> below u0 ci d -> ~ conflict_at u0 f d.
  Proof.
    intros Hci Hb (td & g & Hd & Hg & Hn & He). apply u0_below in Hb. destruct (u0_find_below ci d td Hci Hb Hd) as (Hd0 & Hdin & Hs).
    destruct (find_ty_In _ _ _ Hd0) as [_ Hdn].
    rewrite (old_same_name_HI td g Hdin ltac:(rewrite Hdn; apply sbelow_below; exact Hs) Hg Hn) in He. discriminate.
  Qed.

  Theorem add_rec_is_spread_HI : add_feature_mech ts dom f = Ok (map (spread ts dom f) ts).
  Proof.
    destruct (find_ty_In _ _ _ Et) as [Htin Htn]. pose proof u0_HI as W0.
    destruct (HI_descendants ts dom t W Et) as (l & Hl & Hspec).
    unfold add_feature_mech, desc_fuel. cbn [add_rec]. rewrite Et, Eo, Ei. fold (desc_fuel ts). rewrite Hl.
    assert (Hchk : existsb (fun d => match find_ty ts d with Some td => conflicts (t_own td) f | None => false end) l = false).
    { destruct (existsb _ l) eqn:E; [|reflexivity]. exfalso. apply existsb_exists in E. destruct E as (d & Hdl & Hc).
      destruct (find_ty ts d) as [td|] eqn:Ed; [|discriminate]. destruct (find_ty_In _ _ _ Ed) as [Hdin Hdn].
      assert (existsb (fun d0 => is_below ts dom (t_name d0) && conflicts (t_own d0) f) ts = true).
      { apply existsb_exists. exists td. split; [exact Hdin|]. rewrite Hdn.
        rewrite (proj2 (HI_is_below ts dom d td W Ed) (proj1 (Hspec d) Hdl)). exact Hc. }
      congruence. }
    rewrite Hchk. cbn [bind]. fold u0. rewrite <- (marked_nil u0 f) at 1.
    assert (Ht0 : find_ty u0 dom = Some (with_own f t)) by (rewrite u0_find, Et; unfold g0; cbn [option_map]; rewrite Htn, String.eqb_refl; reflexivity).
    assert (Hch : t_children (with_own f t) = t_children t) by reflexivity.
    etransitivity; [apply (fold_visit u0 f W0 (max_rank ts) (add_rec_visit u0 f W0 (max_rank ts)) dom (with_own f t) (t_children t) [] Ht0
               ltac:(rewrite Hch; apply incl_refl) (HI_children_nodup ts dom t W Et) (fun _ _ _ _ => eq_refl))|].
    cbn [app].
    (* the loop over the children neither raises nor runs out of fuel *)
    assert (Hkid : forall ci, In ci (t_children t) -> exists tci, find_ty u0 ci = Some tci /\ find_ty ts ci = Some tci).
    { intros ci Hci. pose proof Hci as Hci'. apply (HI_children ts dom t ci W Et) in Hci'. destruct Hci' as (tci & Hf & _).
      exists tci. split; [|exact Hf]. rewrite u0_find, Hf. cbn [option_map]. unfold g0. destruct (find_ty_In _ _ _ Hf) as [_ Hcn]. rewrite Hcn.
      assert (String.eqb ci dom = false) as ->; [|reflexivity]. apply String.eqb_neq. intros ->.
      apply (not_below_parent ts dom t dom W Et Hci). apply below_refl. }
    destruct (vlist (visit u0 f (max_rank ts)) (t_children t)) as [ls|e|] eqn:El; cbn [bind].
    - f_equal.
      destruct (vlist_touched u0 f (visit u0 f (max_rank ts)) dom (with_own f t) Ht0 (t_children t) ltac:(rewrite Hch; apply incl_refl)
                  (fun ci l0 Hci Hv => visit_touched u0 f W0 (max_rank ts) ci l0 (u0_DC ci Hci) (u0_ONE ci Hci) Hv) ls El) as [Tl _].
      unfold marked, u0, upd_ty. rewrite map_map. apply map_ext_in. intros d Hd.
      pose proof (In_find_ty _ _ (HI_nodup _ W) Hd) as Hfd. unfold mark, spread.
      destruct (String.eqb (t_name d) dom) eqn:E.
      + apply String.eqb_eq in E. cbn [with_own rebuild_ctor t_name]. rewrite E.
        assert (Hm : memb dom ls = false).
        { apply memb_false_notin. intros Hin. apply (Tl dom (with_own f t) Ht0) in Hin. destruct Hin as [(ci & Hci & Hb) _].
          apply u0_below in Hb. apply (not_below_parent ts dom t ci W Et Hci Hb). }
        rewrite Hm. reflexivity.
      + assert (Hfd0 : find_ty u0 (t_name d) = Some d) by (rewrite u0_find, Hfd; cbn [option_map]; unfold g0; rewrite E; reflexivity).
        pose proof (Tl (t_name d) d Hfd0) as Hiff.
        destruct (is_below ts dom (t_name d)) eqn:Eb; cbn [andb].
        * apply (HI_is_below ts dom (t_name d) d W Hfd) in Eb. destruct (find_feat (f_name f) (t_inh d)) as [g|] eqn:Eg.
          -- assert (Hm : memb (t_name d) ls = false) by (apply memb_false_notin; intros Hin; apply Hiff in Hin; destruct Hin as [_ Hn]; discriminate).
             rewrite Hm. reflexivity.
          -- assert (Hm : memb (t_name d) ls = true).
             { apply memb_In. apply Hiff. split; [|reflexivity]. destruct (below_split ts dom t (t_name d) W Et Eb) as [Heq|(ci & Hci & Hb)].
               - apply String.eqb_neq in E. contradiction.
               - exists ci. split; [exact Hci|apply u0_below; exact Hb]. }
             rewrite Hm. reflexivity.
        * assert (Hm : memb (t_name d) ls = false).
          { apply memb_false_notin. intros Hin. apply Hiff in Hin. destruct Hin as [(ci & Hci & Hb) _]. apply u0_below in Hb.
            pose proof (below_child ts dom t ci (t_name d) W Et Hci Hb) as Hbd. apply (HI_is_below ts dom (t_name d) d W Hfd) in Hbd. congruence. }
          rewrite Hm. reflexivity.
    - exfalso. destruct (vlist_err _ _ _ El) as (ci & Hci & Hv). destruct (Hkid ci Hci) as (tci & Hf0 & _).
      destruct (visit_err u0 f W0 (max_rank ts) ci e ltac:(rewrite Hf0; discriminate) Hv) as (_ & d & Hb & Hc).
      apply (u0_no_conflict ci d Hci Hb Hc).
    - exfalso. revert El. apply vlist_nofuel. intros ci Hci. destruct (Hkid ci Hci) as (tci & Hf0 & Hf).
      apply (visit_nofuel u0 f W0 (max_rank ts) ci tci Hf0).
      assert (Hm : max_rank u0 = max_rank ts) by (apply (max_rank_map _ ts (with_own_upd_shape dom f))). rewrite Hm.
      pose proof (rank_child ts dom t ci tci W Et Hci Hf). destruct (find_ty_In _ _ _ Hf) as [Hin _]. pose proof (rank_le_max ts tci Hin). lia.
  Qed.
End AddOwn.

(* Type._add_feature as written and its functional form agree whenever the skeleton invariant and the feature invariant hold *)
Theorem add_feature_mech_HI ts dom f : HI ts -> WFf ts -> add_feature_mech ts dom f = add_feature_res ts dom f.
Proof.
  intros W F. unfold add_feature_res, add_feature. destruct (find_ty ts dom) as [t|] eqn:Et.
  - destruct (find_feat (f_name f) (t_own t)) as [g|] eqn:Eo.
    + unfold add_feature_mech, desc_fuel. cbn [add_rec]. rewrite Et, Eo. destruct (feat_eqb g f); reflexivity.
    + destruct (find_feat (f_name f) (t_inh t)) as [g|] eqn:Ei.
      * unfold add_feature_mech, desc_fuel. cbn [add_rec]. rewrite Et, Eo, Ei. destruct (feat_eqb g f); reflexivity.
      * destruct (existsb (fun d => is_below ts dom (t_name d) && conflicts (t_own d) f) ts) eqn:Ec.
        -- destruct (HI_descendants ts dom t W Et) as (l & Hl & Hspec).
           unfold add_feature_mech, desc_fuel. cbn [add_rec]. rewrite Et, Eo, Ei. fold (desc_fuel ts). rewrite Hl.
           apply existsb_exists in Ec. destruct Ec as (d & Hd & Hc). apply andb_true_iff in Hc. destruct Hc as [Hb Hc].
           pose proof (In_find_ty _ _ (HI_nodup _ W) Hd) as Hfd. apply (HI_is_below ts dom (t_name d) d W Hfd) in Hb.
           assert (existsb (fun d0 => match find_ty ts d0 with Some td => conflicts (t_own td) f | None => false end) l = true) as ->.
           { apply existsb_exists. exists (t_name d). split; [apply Hspec; exact Hb|]. rewrite Hfd. exact Hc. }
           reflexivity.
        -- apply (add_rec_is_spread_HI ts dom f t W F Et Eo Ei Ec).
  - unfold add_feature_mech, desc_fuel. cbn [add_rec]. rewrite Et. reflexivity.
Qed.

(* ================================================================================================ Part 4: _add_feature(f, inherited=True) *)
Lemma conflicts_intro l f g : In g l -> f_name g = f_name f -> feat_eqb g f = false -> conflicts l f = true.
Proof.
  intros Hg Hn He. unfold conflicts. apply existsb_exists. exists g. split; [exact Hg|]. unfold named. rewrite Hn, String.eqb_refl, He. reflexivity.
Qed.
Lemma conflicts_elim l f : conflicts l f = true -> exists g, In g l /\ f_name g = f_name f /\ feat_eqb g f = false.
Proof.
  unfold conflicts. intros H. apply existsb_exists in H. destruct H as (g & Hg & H). apply andb_true_iff in H. destruct H as [H1 H2].
  exists g. split; [exact Hg|]. unfold named in H1. apply String.eqb_eq in H1. split; [exact H1|]. apply negb_true_iff in H2. exact H2.
Qed.

Theorem inherit_mech_agrees u x f : HI u -> ONEf u f x -> DCf u f x -> inherit_mech u x f = inherit_fn u x f.
Proof.
  intros W HO HD. pose proof (HI_nodup _ W) as Hnd.
  assert (X : inherit_mech u x f = do l <- visit u f (desc_fuel u) x;; Ok (marked u f l)).
  { pose proof (add_rec_visit u f W (desc_fuel u) x [] (fun _ _ => eq_refl)) as X. rewrite marked_nil in X. exact X. }
  rewrite X. clear X. unfold inherit_fn. destruct (find_ty u x) as [t|] eqn:Et; [|unfold desc_fuel; cbn [visit]; rewrite Et; reflexivity].
  destruct (find_ty_In _ _ _ Et) as [Htin Htn].
  destruct (find_feat (f_name f) (t_inh t)) as [g|] eqn:Eg.
  { unfold desc_fuel. cbn [visit]. rewrite Et, Eg. destruct (feat_eqb g f); cbn [bind]; [rewrite marked_nil; reflexivity|reflexivity]. }
  destruct (visit u f (desc_fuel u) x) as [l|e|] eqn:Ev; cbn [bind].
  - destruct (visit_touched u f W _ x l HD HO Ev) as [Tl Cl].
    assert (Hex : existsb (fun d => is_below u x (t_name d) && (conflicts (t_own d) f || conflicts (t_inh d) f)) u = false).
    { destruct (existsb _ u) eqn:E; [|reflexivity]. exfalso. apply existsb_exists in E. destruct E as (d & Hd & Hc). apply andb_true_iff in Hc. destruct Hc as [Hb Hc].
      pose proof (In_find_ty _ _ Hnd Hd) as Hfd. apply (HI_is_below u x (t_name d) d W Hfd) in Hb. apply (Cl (t_name d) Hb).
      apply orb_true_iff in Hc. destruct Hc as [Hc|Hc]; destruct (conflicts_elim _ _ Hc) as (g & Hg & Hn & He); exists d, g;
        (split; [exact Hfd|]); (split; [apply in_or_app; auto|auto]). }
    rewrite Hex. f_equal. unfold marked. apply map_ext_in. intros d Hd. pose proof (In_find_ty _ _ Hnd Hd) as Hfd.
    pose proof (Tl (t_name d) d Hfd) as Hiff. unfold mark, spread_inh.
    destruct (is_below u x (t_name d)) eqn:Eb; cbn [andb].
    + apply (HI_is_below u x (t_name d) d W Hfd) in Eb. destruct (find_feat (f_name f) (t_inh d)) as [g|] eqn:Egd.
      * assert (Hm : memb (t_name d) l = false) by (apply memb_false_notin; intros Hin; apply Hiff in Hin; destruct Hin as [_ Hn]; discriminate).
        rewrite Hm. reflexivity.
      * assert (Hm : memb (t_name d) l = true) by (apply memb_In, Hiff; auto). rewrite Hm. reflexivity.
    + assert (Hm : memb (t_name d) l = false).
      { apply memb_false_notin. intros Hin. apply Hiff in Hin. destruct Hin as [Hb _]. apply (HI_is_below u x (t_name d) d W Hfd) in Hb. congruence. }
      rewrite Hm. reflexivity.
  - destruct (visit_err u f W _ x e ltac:(rewrite Et; discriminate) Ev) as (-> & d & Hb & (td & g & Hfd & Hg & Hn & He)).
    destruct (find_ty_In _ _ _ Hfd) as [Hdin Hdn].
    assert (Hex : existsb (fun d => is_below u x (t_name d) && (conflicts (t_own d) f || conflicts (t_inh d) f)) u = true).
    { apply existsb_exists. exists td. split; [exact Hdin|]. rewrite Hdn. rewrite (proj2 (HI_is_below u x d td W Hfd) Hb). cbn [andb].
      apply in_app_or in Hg. apply orb_true_iff. destruct Hg as [Hg|Hg]; [left|right]; apply (conflicts_intro _ f g Hg Hn He). }
    rewrite Hex. reflexivity.
  - exfalso. revert Ev. apply (visit_nofuel u f W (desc_fuel u) x t Et). unfold desc_fuel. lia.
Qed.

(* the inherited tables below x are downward closed, for every feature name *)
Definition DCall (u : tsys) (x : tname) : Prop := forall f, DCf u f x.
Lemma WFp_ONEf u f x : HI u -> WFp u -> ONEf u f x.
Proof.
  intros W P d td g1 g2 _ Hd H1 H2 Hn1 Hn2. destruct (find_ty_In _ _ _ Hd) as [Hin _]. apply (wp_one _ P td g1 g2 Hin H1 H2). congruence.
Qed.
Lemma inherit_fn_DCall u x f u' : HI u -> DCall u x -> inherit_fn u x f = Ok u' -> DCall u' x.
Proof.
  intros W HD H. destruct (inherit_fn_cases _ _ _ _ H) as (tx & Hx & [(g & _ & _ & ->)|(Hnone & Hchk & ->)]); [exact HD|].
  pose proof (spread_inh_shape u x f) as K.
  assert (Hfind : forall n, find_ty (map (spread_inh u x f) u) n = option_map (spread_inh u x f) (find_ty u n)) by (intros n; apply (find_map_shape u _ n K)).
  intros f2 c' tc' g Hb Hc' Hg Hgn d td' Hbd Hd.
  apply (below_map _ u x c' K) in Hb. apply (below_map _ u c' d K) in Hbd.
  rewrite Hfind in Hc', Hd. destruct (find_ty u c') as [tc|] eqn:Ec; [|discriminate]. destruct (find_ty u d) as [td|] eqn:Ed; [|discriminate].
  cbn [option_map] in Hc', Hd. inversion Hc'; subst tc'. inversion Hd; subst td'. clear Hc' Hd.
  destruct (find_ty_In _ _ _ Ed) as [Hdin Hdn].
  apply spread_inh_inh in Hg. destruct Hg as [Hg|(Hbc & Hlack & ->)].
  - destruct (HD f2 c' tc g Hb Ec Hg Hgn d td Hbd Ed) as (g' & Hg' & He'). exists g'. split; [apply spread_inh_inh; left; exact Hg'|exact He'].
  - (* the feature just inherited by c' *)
    assert (Hbx : is_below u x (t_name td) = true) by (rewrite Hdn; apply (HI_is_below u x d td W Ed); eapply below_trans; eassumption).
    destruct (find_feat (f_name f) (t_inh td)) as [h|] eqn:Eh.
    + destruct (find_feat_some _ _ _ Eh) as [Hh Hhn]. exists h. split; [apply spread_inh_inh; left; exact Hh|].
      apply (conflicts_false _ _ (proj2 (Hchk td Hdin Hbx)) h Hh Hhn).
    + exists f. split; [apply spread_inh_inh; right; auto|apply feat_eqb_refl].
Qed.

Lemma inherit_list_agrees x newp fs : forall u tx, HI u -> find_ty u x = Some tx -> t_super tx = Some newp -> WFp u -> Qx x u -> DCall u x ->
  (forall f, In f fs -> owned_above newp u f) -> inherit_list mech_form x fs u = inherit_list fn_form x fs u.
Proof.
  induction fs as [|f r IH]; intros u tx W Hx Hsx P Q HD Hown; cbn [inherit_list]; [reflexivity|]. cbn [mech_form fn_form inhf].
  rewrite (inherit_mech_agrees u x f W (WFp_ONEf u f x W P) (HD f)).
  destruct (inherit_fn u x f) as [u1| |] eqn:E; cbn [bind]; try reflexivity.
  destruct (inherit_fn_step x newp u f u1 tx W Hx Hsx P Q (Hown f (or_introl eq_refl)) E) as (Es1 & G1 & O1 & P1 & Q1 & R1).
  assert (W1 : HI u1) by (unfold HI; rewrite Es1; exact W).
  destruct (strip_eq_find u u1 x tx Es1 Hx) as (tx1 & Hx1 & Hs1). rewrite Hsx in Hs1.
  apply (IH u1 tx1 W1 Hx1 Hs1 P1 Q1 (inherit_fn_DCall u x f u1 W HD E)).
  intros g Hg. destruct (Hown g (or_intror Hg)) as (a & ta & Hb & Hf & Ho). destruct (G1 a ta Hf) as (ta1 & Hf1 & Ho1 & _).
  exists a, ta1. split; [apply (strip_eq_below u u1 a newp Es1); exact Hb|]. split; [exact Hf1|apply Ho1; exact Ho].
Qed.

(* ================================================================================================ Part 5: the two forms of the merge agree *)
Lemma merge_features_agrees i x fs : forall ts tags, HI ts -> WFf ts ->
  merge_features mech_form i x fs ts tags = merge_features fn_form i x fs ts tags.
Proof.
  induction fs as [|f r IH]; intros ts tags W F; cbn [merge_features]; [reflexivity|]. cbn [mech_form fn_form addf].
  rewrite (add_feature_mech_HI ts x f W F). destruct (add_feature_res ts x f) as [ts1| |] eqn:E; cbn [bind]; try reflexivity.
  apply IH; [unfold HI; rewrite (add_feature_res_strip _ _ _ _ E); exact W|apply (add_feature_res_FI _ _ _ _ W F E)].
Qed.

Lemma reparent_agrees ts x oldp newp tx tn : HI ts -> WFf ts -> find_ty ts x = Some tx -> t_super tx = Some oldp ->
  find_ty ts newp = Some tn -> ~ below ts x newp -> below ts oldp newp -> reparent mech_form ts x oldp newp = reparent fn_form ts x oldp newp.
Proof.
  intros W F Hx Hsx Hn Hnb Hon. pose proof (HI_nodup _ W) as Hnd.
  destruct (find_ty_In _ _ _ Hn) as [Hnin Hnn]. destruct (find_ty_In _ _ _ Hx) as [Hxin Hxn].
  unfold reparent. rewrite (get_type_full _ _ _ Hn). cbn [bind]. rewrite Hnn.
  destruct (find_ty ts oldp) as [tp|]; [|reflexivity]. destruct (negb (memb x (t_children tp))); [reflexivity|].
  set (k := S (t_rank tn)). set (ts1 := relink ts x oldp newp k).
  assert (Hf1 : forall n, find_ty ts1 n = option_map (relink_ty ts x oldp newp k) (find_ty ts n)) by (intros n; apply relink_find').
  rewrite Hf1, Hn. cbn [option_map]. set (tn1 := relink_ty ts x oldp newp k tn).
  assert (Haf : all_features tn1 = all_features tn) by (unfold all_features, tn1; rewrite relink_own, relink_inh; reflexivity).
  assert (W1 : HI ts1) by (apply (relink_HI ts x oldp newp k tx tn W Hx Hsx Hn Hnb); apply Nat.lt_succ_diag_r).
  assert (Hx1 : find_ty ts1 x = Some (relink_ty ts x oldp newp k tx)) by (rewrite Hf1, Hx; reflexivity).
  assert (Hsx1 : t_super (relink_ty ts x oldp newp k tx) = Some newp) by (rewrite relink_super, Hxn, String.eqb_refl; reflexivity).
  assert (P1 : WFp ts1).
  { constructor.
    - intros t' f Hin Hf. apply in_map_iff in Hin. destruct Hin as (t & <- & Hin). rewrite relink_inh in Hf. rewrite relink_name.
      destruct (wf_inh_sound _ F t f Hin Hf) as (a & ta & Hs & Ha & Ho). exists a, (relink_ty ts x oldp newp k ta).
      rewrite Hf1, Ha, relink_own. split; [apply (relink_sbelow ts x oldp newp k tx Hx Hsx Hnb Hon); exact Hs|auto].
    - intros t' f g Hin Hf Hg. apply in_map_iff in Hin. destruct Hin as (t & <- & Hin). rewrite relink_own, relink_inh in Hf, Hg.
      apply (wf_one_def _ F t f g Hin Hf Hg).
    - intros t' Hin. apply in_map_iff in Hin. destruct Hin as (t & <- & Hin). destruct (relink_ctor ts x oldp newp k t) as (-> & -> & ->).
      apply (wf_ctor _ F t Hin). }
  (* what a type below x inherits is inherited by everything below it: the subtree of x moved as a whole *)
  assert (Hsub : forall c' d, below ts1 x c' -> below ts1 c' d -> below ts x c' /\ below ts c' d).
  { intros c' d Hb Hbd. apply (relink_subtree ts x oldp newp k tx Hx Hsx Hnb Hon) in Hb. split; [exact Hb|].
    destruct (relink_below_inv ts x oldp newp k Hnb c' d Hbd) as [H1|[_ H2]]; [exact H1|]. exfalso. apply Hnb. eapply below_trans; eassumption. }
  assert (Hdown : forall c' tc g d td, below ts x c' -> find_ty ts c' = Some tc -> In g (t_inh tc) -> below ts c' d -> find_ty ts d = Some td ->
            exists g', In g' (t_inh td) /\ feat_eqb g' g = true).
  { intros c' tc g d td Hb Hc Hg Hbd Hd. destruct (find_ty_In _ _ _ Hc) as [Hcin Hcn]. destruct (find_ty_In _ _ _ Hd) as [Hdin Hdn].
    destruct (below_cases _ _ _ Hbd) as [<-|(td1 & s1 & Hf1' & Hs1 & Hb1)].
    - rewrite Hc in Hd. inversion Hd; subst td. exists g. split; [exact Hg|apply feat_eqb_refl].
    - destruct (wf_inh_sound _ F tc g Hcin Hg) as (a & ta & Hs & Ha & Hoa). rewrite Hcn in Hs.
      apply (wf_inh_complete _ F td a ta g Hdin); auto. rewrite Hdn. exists td1, s1. repeat split; auto.
      eapply below_trans; [apply sbelow_below; exact Hs|exact Hb1]. }
  assert (Q1 : Qx x ts1).
  { intros tx' g' Hx' Hg' t' Hin Hb. rewrite Hx1 in Hx'. inversion Hx'; subst tx'. rewrite relink_inh in Hg'.
    apply in_map_iff in Hin. destruct Hin as (t & <- & Hin). rewrite relink_name in Hb. rewrite relink_inh.
    apply (relink_subtree ts x oldp newp k tx Hx Hsx Hnb Hon) in Hb.
    apply (Hdown x tx g' (t_name t) t (below_refl _ _) Hx Hg' Hb (In_find_ty _ _ Hnd Hin)). }
  assert (D1 : DCall ts1 x).
  { intros f c' tc' g Hb Hc' Hg _ d td' Hbd Hd. destruct (Hsub c' d Hb Hbd) as [Hb0 Hbd0].
    rewrite Hf1 in Hc', Hd. destruct (find_ty ts c') as [tc|] eqn:Ec; [|discriminate]. destruct (find_ty ts d) as [td|] eqn:Ed; [|discriminate].
    cbn [option_map] in Hc', Hd. inversion Hc'; subst tc'. inversion Hd; subst td'. rewrite relink_inh in Hg. rewrite relink_inh.
    apply (Hdown c' tc g d td Hb0 Ec Hg Hbd0 Ed). }
  assert (O1 : forall f, In f (all_features tn1) -> owned_above newp ts1 f).
  { intros f Hf. rewrite Haf in Hf. apply all_features_In in Hf. apply in_app_or in Hf. destruct Hf as [Hf|Hf].
    - exists newp, tn1. split; [apply below_refl|]. split; [rewrite Hf1, Hn; reflexivity|unfold tn1; rewrite relink_own; exact Hf].
    - destruct (wf_inh_sound _ F tn f Hnin Hf) as (a & ta & Hs & Ha & Ho). rewrite Hnn in Hs. exists a, (relink_ty ts x oldp newp k ta).
      split; [apply (relink_below ts x oldp newp k tx Hx Hsx Hnb Hon); apply sbelow_below; exact Hs|].
      split; [rewrite Hf1, Ha; reflexivity|rewrite relink_own; exact Ho]. }
  apply (inherit_list_agrees x newp (all_features tn1) ts1 _ W1 Hx1 Hsx1 P1 Q1 D1 O1).
Qed.

Lemma merge_super_agrees ts x sup tsup : HI ts -> WFf ts -> registered ts x = true -> find_ty ts sup = Some tsup ->
  merge_super mech_form ts x sup = merge_super fn_form ts x sup.
Proof.
  intros W F Hreg Hsup. apply registered_iff in Hreg. destruct Hreg as (ex & Hfx). destruct (find_ty_In _ _ _ Hfx) as [Hexin Hexn].
  unfold merge_super. rewrite (get_type_full _ _ _ Hfx). cbn [bind].
  destruct (t_super ex) as [exsup|] eqn:Es; [|reflexivity]. destruct (find_ty_In _ _ _ Hsup) as [_ Hsn].
  destruct (String.eqb sup exsup); [reflexivity|].
  assert (Hfx' : find_ty ts (t_name ex) = Some ex) by (rewrite Hexn; exact Hfx).
  destruct (HI_subsumes_gen ts (t_name ex) sup ex tsup W (get_type_full _ _ _ Hfx') (get_type_full _ _ _ Hsup)) as (b1 & Hb1 & Hiff1).
  rewrite Hb1. cbn [bind]. destruct b1; [reflexivity|].
  destruct (HI_super ts ex exsup W Hexin Es) as (tp & Hfp & _). destruct (find_ty_In _ _ _ Hfp) as [_ Hpn].
  destruct (HI_subsumes_gen ts exsup sup tp tsup W (get_type_full _ _ _ Hfp) (get_type_full _ _ _ Hsup)) as (b2 & Hb2 & Hiff2).
  rewrite Hb2. cbn [bind]. rewrite Hsn in Hiff1, Hiff2. rewrite Hpn in Hiff2. destruct b2; [|reflexivity].
  apply (reparent_agrees ts (t_name ex) exsup sup ex tsup W F Hfx' Es Hsup); [intros Hb; apply Hiff1 in Hb; discriminate|apply Hiff2; reflexivity].
Qed.

Lemma merge_decl_agrees L st d : Inv L st -> WFf (m_ts st) -> ready st d -> merge_decl mech_form st d = merge_decl fn_form st d.
Proof.
  intros HI F (sup & Hs & Hr). destruct (ready_registered L st d sup HI Hs Hr) as (tsup & Hfsup & _ & _).
  pose proof (inv_HI _ _ HI) as W. unfold merge_decl. rewrite Hs. fold (dname d).
  destruct (registered (m_ts st) (dname d)) eqn:Er.
  - rewrite (merge_super_agrees _ _ _ _ W F Er Hfsup).
    destruct (merge_super fn_form (m_ts st) (dname d) sup) as [ts1| |] eqn:E; cbn [bind]; try reflexivity.
    rewrite (merge_features_agrees _ _ _ ts1 (m_tags st) (merge_super_HI _ _ _ _ W E) (merge_super_FI _ _ _ _ _ W F Er Hfsup E)). reflexivity.
  - destruct (create_type (m_ts st) (dname d) sup (t_desc (d_ty d))) as [ts1| |] eqn:E; cbn [bind]; try reflexivity.
    rewrite (merge_features_agrees _ _ _ ts1 (m_tags st) (create_type_HI _ _ _ _ _ W E) (create_type_FI _ _ _ _ _ W F E)). reflexivity.
Qed.

Section LoopAgree.
  Variable L : list decl.
  Hypothesis Hok : forall d, In d L -> decl_ok L d.
  Lemma pass_agrees : forall l st, incl l L -> Inv L st -> WFf (m_ts st) -> pass mech_form l st = pass fn_form l st.
  Proof.
    induction l as [|d r IH]; intros st Hl HI F; cbn [pass]; [reflexivity|].
    assert (Hd : In d L) by (apply Hl; left; reflexivity).
    assert (Hr : incl r L) by (intros y Hy; apply Hl; right; exact Hy).
    destruct (t_super (d_ty d)) as [s|] eqn:Es; [|reflexivity].
    destruct (is_predef s || memb s (m_done st)) eqn:Erdy.
    - assert (Hrdy : ready st d) by (exists s; auto). rewrite (merge_decl_agrees L st d HI F Hrdy).
      destruct (merge_decl fn_form st d) as [st1| |] eqn:E; cbn [bind]; try reflexivity.
      apply (IH st1 Hr); [apply (merge_decl_Inv L st d st1 HI (Hok d Hd) E)|apply (merge_decl_FI L st d st1 HI F Hrdy E)].
    - rewrite (IH st Hr HI F). reflexivity.
  Qed.
  Lemma pass_keeps_WFf : forall l st st' rest, incl l L -> Inv L st -> WFf (m_ts st) -> pass fn_form l st = Ok (st', rest) ->
    Inv L st' /\ WFf (m_ts st').
  Proof.
    intros l st st' rest Hl HI F H.
    destruct (pass_inv fn_form L (fun s => Inv L s /\ WFf (m_ts s)) (fun _ _ => True)) with (l := l) (st := st) (st' := st') (rest := rest) as (HI' & _); auto.
    intros s d s1 [HI0 F0] Hd Hrdy Hm. split; [split; [apply (merge_decl_Inv L s d s1 HI0 (Hok d Hd) Hm)|apply (merge_decl_FI L s d s1 HI0 F0 Hrdy Hm)]|auto].
  Qed.
  Lemma rounds_agrees : forall fuel l st, incl l L -> Inv L st -> WFf (m_ts st) -> rounds mech_form fuel l st = rounds fn_form fuel l st.
  Proof.
    induction fuel as [|k IH]; intros l st Hl HI F; cbn [rounds]; [reflexivity|]. rewrite (pass_agrees l st Hl HI F).
    destruct (pass fn_form l st) as [[st1 rest]| |] eqn:Ep; cbn [bind fst snd]; try reflexivity.
    destruct rest as [|d0 rest0]; [reflexivity|]. destruct (Nat.eqb (List.length l) (List.length (d0 :: rest0))); [reflexivity|].
    destruct (pass_keeps_WFf l st st1 (d0 :: rest0) Hl HI F Ep) as [HI1 F1]. destruct (pass_shape _ _ _ _ _ Ep) as [Hincl _].
    apply IH; auto. intros y Hy. apply Hl, Hincl, Hy.
  Qed.
End LoopAgree.

(* REFINEMENT: on well-formed inputs the mechanism form (recursion into _children as written) and the functional form of
   the model give the same result - the same merged type system, the same ghost tags, or the same error *)
Theorem merge_with_mech_agrees inputs : all_WFh inputs -> merge_with mech_form inputs = merge_with fn_form inputs.
Proof.
  intros HW. unfold merge_with. fold st0.
  rewrite (rounds_agrees (type_list inputs) (type_list_ok inputs HW) _ (type_list inputs) st0 (incl_refl _) (Inv_st0 _) init_WFf). reflexivity.
Qed.
Theorem merge_mech_agrees inputs : all_WFh inputs -> merge_mech inputs = merge inputs.
Proof. intros HW. unfold merge_mech, merge. rewrite (merge_with_mech_agrees inputs HW). reflexivity. Qed.
