(* Heap.v — shared model of feature structures in memory (cassis/typesystem.py FeatureStructure instances,
   cassis/cas.py Sofa / View / Cas), used by the reachability, codec, path, typecheck and rendering models.
   Object identity (Python `is`, id()) is a label `oid`; xmi:ids are `xid`.  Definitions only. *)
From Cassis Require Import Base.

Definition oid := N.
Definition xid := Z.
Definition flt := string.          (* float.hex() of a double, or "nan" / "inf" / "-inf": floats are opaque tokens *)
Definition text := list N.         (* sofa text as Unicode code points *)

Inductive val :=
 | VNone
 | VInt (z : Z) | VFlt (x : flt) | VBool (b : bool) | VStr (s : string)
 | VRef (o : oid)                  (* reference to a FeatureStructure object *)
 | VList (l : list val)            (* Python list: the `elements` slot of array feature structures *)
 | VSofa (n : string).             (* reference to the Sofa object of the view named n *)

(* a FeatureStructure instance: its type name, its xmiID (None until assigned) and its slots by python name *)
Record fsobj := mkFs { o_type : tname; o_id : option xid; o_slots : list (fname * val) }.
Definition heap := list (oid * fsobj).

Fixpoint hget (h : heap) (o : oid) : option fsobj :=
  match h with [] => None | (o', f) :: r => if N.eqb o o' then Some f else hget r o end.
Fixpoint hset (h : heap) (o : oid) (f : fsobj) : heap :=
  match h with [] => [] | (o', g) :: r => if N.eqb o o' then (o, f) :: r else (o', g) :: hset r o f end.
(* getattr(fs, name) for a declared feature: a missing slot reads as None (attrs default) *)
Definition slot (f : fsobj) (n : fname) : val := match alookup n (o_slots f) with Some v => v | None => VNone end.
Definition set_slot (f : fsobj) (n : fname) (v : val) : fsobj := mkFs (o_type f) (o_id f) (aset n v (o_slots f)).
Definition set_id (f : fsobj) (i : xid) : fsobj := mkFs (o_type f) (Some i) (o_slots f).

(* Sofa feature structure and a view: the members are the indexed structures in View.get_all_annotations order *)
Record sofa := mkSofa { s_xid : xid; s_num : Z; s_name : string; s_text : option text;
                        s_mime : option string; s_uri : option string; s_arr : option oid }.
Record cview := mkView { v_sofa : sofa; v_members : list oid }.
(* a CAS as the serialisers see it: views in Cas.sofas order, the objects, the next id of the xmi:id generator *)
Record cas := mkCas { c_views : list cview; c_heap : heap; c_next_id : Z }.

Fixpoint val_eqb (a b : val) : bool :=
  match a, b with
  | VNone, VNone => true
  | VInt x, VInt y => Z.eqb x y
  | VFlt x, VFlt y => String.eqb x y
  | VBool x, VBool y => Bool.eqb x y
  | VStr x, VStr y => String.eqb x y
  | VRef x, VRef y => N.eqb x y
  | VSofa x, VSofa y => String.eqb x y
  | VList x, VList y =>
      (fix go (x y : list val) : bool :=
         match x, y with [] , [] => true | p :: x', q :: y' => val_eqb p q && go x' y' | _, _ => false end) x y
  | _, _ => false
  end.

Definition opt_eqb {A} (eqb : A -> A -> bool) (a b : option A) : bool :=
  match a, b with None, None => true | Some x, Some y => eqb x y | _, _ => false end.
