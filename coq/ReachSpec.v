(* ReachSpec.v — the successor relation of the reachability traversal as an inductive definition (no fuel, no node set, no
   worklist), and the proof that Reach.succs — what the scan of one object offers to the open list — is exactly that
   relation.  With ReachProofs.find_all_exact this makes the result of Cas._find_all_fs "the structures reachable under
   succ_rel from the seeds".
   The interesting part is the inline FSList: declaratively, the members are the heads of all nodes on the tail chain
   (`chain`); the code walks the chain until it ends or comes back to a node already walked.  On a cyclic chain both give
   the same heads because the positions of the chain are eventually periodic (node_at_periodic). *)
From Cassis Require Import Base Heap Schema Reach ReachProofs.
From Coq Require Import ZifyBool.
Open Scope Z_scope.

(* x is an element of the array object f *)
Definition is_element (s : schema) (f : fsobj) (x : oid) : Prop :=
  has_feat s (o_type f) "elements" = true /\ exists l, slot f "elements" = VList l /\ In (VRef x) l.

(* g is a node of the tail chain that starts at the value v: a live object whose type has a `head` feature, reached from v
   by following `tail` through such nodes *)
Inductive chain (s : schema) (h : heap) : val -> fsobj -> Prop :=
 | chain_here o f : hget h o = Some f -> has_feat s (o_type f) "head" = true -> chain s h (VRef o) f
 | chain_next o f g : hget h o = Some f -> has_feat s (o_type f) "head" = true -> chain s h (slot f "tail") g ->
                      chain s h (VRef o) g.

Inductive feat_succ (inl : bool) (s : schema) (h : heap) (f : fsobj) (fd : fdecl) (x : oid) : Prop :=
 | fs_ref : inlined inl fd = false -> slot f (fd_name fd) = VRef x -> feat_succ inl s h f fd x
 | fs_array a af : inlined inl fd = true -> fd_range fd = T_FS_ARRAY -> slot f (fd_name fd) = VRef a -> hget h a = Some af ->
                   is_element s af x -> feat_succ inl s h f fd x
 | fs_list g : inlined inl fd = true -> fd_range fd = T_FS_LIST -> chain s h (slot f (fd_name fd)) g -> slot g "head" = VRef x ->
               feat_succ inl s h f fd x.

Inductive succ_rel (inl : bool) (s : schema) (h : heap) (o x : oid) : Prop :=
 | sr_elements f t : hget h o = Some f -> sch_find s (o_type f) = Some t -> is_array_type t = Ok true ->
                     ti_name t = T_FS_ARRAY -> is_element s f x -> succ_rel inl s h o x
 | sr_feature f t fd : hget h o = Some f -> sch_find s (o_type f) = Some t -> is_array_type t = Ok false ->
                       In fd (ti_feats t) -> fd_name fd <> "sofa" -> is_primitive s (fd_range fd) = false ->
                       feat_succ inl s h f fd x -> succ_rel inl s h o x.

(* ------------------------------------------------------------------------------------------------ arrays *)

Lemma own_elements_spec s f l x : own_elements s f = Ok l -> (In (VRef x) l <-> is_element s f x).
Proof.
  unfold own_elements, is_element. destruct (has_feat s (o_type f) "elements"); [|discriminate].
  destruct (slot f "elements") eqn:E; cbn [falsy]; intros H;
    try (match type of H with (if ?c then _ else _) = _ => destruct c end);
    inversion H; subst;
    try (split; [intros []|intros (_ & l' & El & _); discriminate]).
  split; [intros Hin; split; [reflexivity|exists l; split; [reflexivity|exact Hin]]|].
  intros (_ & l' & El & Hin). inversion El; subst. exact Hin.
Qed.

(* ------------------------------------------------------------------------------------------------ list chains by position *)

Definition node_here (s : schema) (h : heap) (v : val) : option (oid * fsobj) :=
  match v with
  | VRef o => match hget h o with Some f => if has_feat s (o_type f) "head" then Some (o, f) else None | None => None end
  | _ => None
  end.
Fixpoint node_at (s : schema) (h : heap) (n : nat) (v : val) : option (oid * fsobj) :=
  match n with
  | O => node_here s h v
  | S m => match node_here s h v with Some (_, f) => node_at s h m (slot f "tail") | None => None end
  end.

Lemma node_here_Some s h v o f : node_here s h v = Some (o, f) -> v = VRef o /\ hget h o = Some f /\ has_feat s (o_type f) "head" = true.
Proof.
  unfold node_here. destruct v; try discriminate. destruct (hget h o0) as [f0|] eqn:E; [|discriminate].
  destruct (has_feat s (o_type f0) "head") eqn:Hh; [|discriminate]. intros H. inversion H; subst. repeat split; assumption.
Qed.

Lemma chain_node_at s h v g : chain s h v g <-> exists n o, node_at s h n v = Some (o, g).
Proof.
  split.
  - induction 1 as [o f Hg Hh|o f g Hg Hh _ (n & o' & IH)].
    + exists O, o. cbn [node_at node_here]. rewrite Hg, Hh. reflexivity.
    + exists (S n), o'. cbn [node_at node_here]. rewrite Hg, Hh. exact IH.
  - intros (n & o & H). revert v H. induction n as [|n IH]; intros v H; cbn [node_at] in H.
    + apply node_here_Some in H. destruct H as (-> & Hg & Hh). apply chain_here; assumption.
    + destruct (node_here s h v) as [[o1 f1]|] eqn:E; [|discriminate]. apply node_here_Some in E. destruct E as (-> & Hg & Hh).
      eapply chain_next; [exact Hg|exact Hh|]. apply IH. exact H.
Qed.

(* positions after a return to the first node repeat the positions from the start *)
Lemma node_at_periodic s h v o f m : node_here s h v = Some (o, f) -> forall f', node_at s h m (slot f "tail") = Some (o, f') ->
  forall j, node_at s h (S m + j) v = node_at s h j v.
Proof.
  intros Hv f' Hm. pose proof (node_here_Some _ _ _ _ _ Hv) as (-> & Hg & Hh).
  assert (Hsuf : forall m w, node_at s h m w = Some (o, f') -> forall j, node_at s h (m + j) w = node_at s h j (VRef o)).
  { clear Hm m. induction m as [|m IH]; intros w Hw j.
    - cbn [node_at] in Hw. apply node_here_Some in Hw. destruct Hw as (-> & _). reflexivity.
    - cbn [node_at] in Hw. cbn [plus node_at]. destruct (node_here s h w) as [[o1 f1]|]; [|discriminate]. apply IH. exact Hw. }
  intros j. cbn [plus node_at]. rewrite Hv. apply Hsuf. exact Hm.
Qed.

(* soundness of the walk: every head it collects is the head of a chain node *)
Lemma list_heads_sound s h : forall k seen v l, list_heads k s h seen v = Ok l ->
  forall hd, In hd l -> exists g, chain s h v g /\ slot g "head" = hd.
Proof.
  induction k as [|k IH]; intros seen v l H hd Hin; cbn [list_heads] in H; [discriminate|].
  destruct v; try (inversion H; subst; contradiction).
  destruct (hget h o) as [f|] eqn:Eg; [|discriminate].
  destruct (has_feat s (o_type f) "head") eqn:Hh; cbn [andb] in H; [|inversion H; subst; contradiction].
  destruct (negb (memN o seen)); [|inversion H; subst; contradiction].
  destruct (list_heads k s h (o :: seen) (slot f "tail")) as [r| |] eqn:Er; cbn [bind] in H; try discriminate.
  inversion H; subst l. destruct Hin as [<-|Hin].
  - exists f. split; [apply chain_here; assumption|reflexivity].
  - destruct (IH _ _ _ Er hd Hin) as (g & Hc & Hd). exists g. split; [eapply chain_next; eassumption|exact Hd].
Qed.

(* completeness: the head of the node at any position is collected, unless the walk meets a node of `seen` at or before it *)
Lemma list_heads_complete s h : forall k seen v l, list_heads k s h seen v = Ok l ->
  forall n o g, node_at s h n v = Some (o, g) ->
  In (slot g "head") l \/ exists m o' f', (m <= n)%nat /\ node_at s h m v = Some (o', f') /\ In o' seen.
Proof.
  induction k as [|k IH]; intros seen v l H; [discriminate|].
  induction n as [n IHn] using (well_founded_induction lt_wf). intros o g Hn.
  assert (Hhere : exists o0 f0, node_here s h v = Some (o0, f0)).
  { destruct n; cbn [node_at] in Hn; [eauto|]. destruct (node_here s h v) as [[o0 f0]|]; [eauto|discriminate]. }
  destruct Hhere as (o0 & f0 & Hv). pose proof (node_here_Some _ _ _ _ _ Hv) as (-> & Hg & Hh).
  cbn [list_heads] in H. rewrite Hg, Hh in H. cbn [andb] in H.
  destruct (memN o0 seen) eqn:M; cbn [negb] in H.
  - right. exists O, o0, f0. split; [lia|]. split; [exact Hv|apply memN_In; exact M].
  - destruct (list_heads k s h (o0 :: seen) (slot f0 "tail")) as [r| |] eqn:Er; cbn [bind] in H; try discriminate.
    inversion H; subst l. destruct n as [|n'].
    + cbn [node_at] in Hn. rewrite Hv in Hn. inversion Hn; subst. left. left. reflexivity.
    + cbn [node_at] in Hn. rewrite Hv in Hn.
      destruct (IH _ _ _ Er n' o g Hn) as [Hin|(m & o' & f' & Hm & Hnm & Hseen)].
      * left. right. exact Hin.
      * destruct Hseen as [<-|Hseen].
        -- (* the chain came back to its first node at position m+1: position n'+1 equals position n'-m *)
           pose proof (node_at_periodic s h (VRef o0) o0 f0 m Hv f' Hnm (n' - m)) as Hper.
           replace (S m + (n' - m))%nat with (S n') in Hper by lia.
           assert (Hn2 : node_at s h (n' - m) (VRef o0) = Some (o, g)).
           { rewrite <- Hper. cbn [node_at]. rewrite Hv. exact Hn. }
           assert (Hlt : (n' - m < S n')%nat) by lia.
           destruct (IHn (n' - m)%nat Hlt o g Hn2) as [Hin|(m2 & o2 & f2 & Hm2 & Hn2' & Hs2)]; [left; exact Hin|].
           right. exists m2, o2, f2. split; [lia|]. split; assumption.
        -- right. exists (S m), o', f'. split; [lia|]. split; [|exact Hseen]. cbn [node_at]. rewrite Hv. exact Hnm.
Qed.

Lemma list_heads_spec s h k v l x : list_heads k s h [] v = Ok l ->
  (In (VRef x) l <-> exists g, chain s h v g /\ slot g "head" = VRef x).
Proof.
  intros H. split.
  - intros Hin. exact (list_heads_sound s h _ _ _ _ H _ Hin).
  - intros (g & Hc & Hd). apply chain_node_at in Hc. destruct Hc as (n & o & Hn).
    destruct (list_heads_complete s h _ _ _ _ H n o g Hn) as [Hin|(m & o' & f' & _ & _ & [])]. rewrite Hd in Hin. exact Hin.
Qed.

(* ------------------------------------------------------------------------------------------------ features and objects *)

Lemma fs_names_differ : String.eqb T_FS_LIST T_FS_ARRAY = false.
Proof. reflexivity. Qed.

Lemma feat_cands_spec inl s h f fd l x : feat_cands inl s h f fd = Ok l ->
  (In (VRef x) l <-> (fd_name fd <> "sofa" /\ is_primitive s (fd_range fd) = false /\ feat_succ inl s h f fd x)).
Proof.
  unfold feat_cands. destruct (String.eqb (fd_name fd) "sofa") eqn:Es.
  { intros H. inversion H. split; [intros []|]. intros (Hn & _). apply String.eqb_eq in Es. contradiction. }
  apply String.eqb_neq in Es.
  destruct (is_primitive s (fd_range fd)) eqn:Ep.
  { intros H. inversion H. split; [intros []|]. intros (_ & Hp & _). discriminate. }
  assert (Hgen : forall v, slot f (fd_name fd) = v -> v <> VNone ->
            (if inlined inl fd
             then if String.eqb (fd_range fd) T_FS_ARRAY then elements_of s h v
                  else if String.eqb (fd_range fd) T_FS_LIST then list_heads (S (List.length h)) s h [] v else Ok []
             else match v with VRef _ => Ok [v] | _ => Err EAttribute end) = Ok l ->
            (In (VRef x) l <-> (fd_name fd <> "sofa" /\ is_primitive s (fd_range fd) = false /\ feat_succ inl s h f fd x))).
  { intros v Ev Hnn H. destruct (inlined inl fd) eqn:Ei.
    - destruct (String.eqb (fd_range fd) T_FS_ARRAY) eqn:Ea.
      + apply String.eqb_eq in Ea. unfold elements_of in H. destruct v; try discriminate.
        destruct (hget h o) as [af|] eqn:Eg; [|discriminate]. rewrite (own_elements_spec s af l x H). split.
        * intros He. repeat split; try assumption. eapply fs_array; eassumption.
        * intros (_ & _ & Hs). destruct Hs as [Hi _|a af' _ _ Hv Hg He|g _ Hr _ _].
          -- congruence.
          -- rewrite Ev in Hv. inversion Hv; subst a. rewrite Eg in Hg. inversion Hg; subst af'. exact He.
          -- rewrite Ea in Hr. discriminate.
      + destruct (String.eqb (fd_range fd) T_FS_LIST) eqn:El.
        * apply String.eqb_eq in El. rewrite (list_heads_spec s h _ v l x H). split.
          -- intros (g & Hc & Hd). repeat split; try assumption. eapply fs_list; try eassumption. rewrite Ev. exact Hc.
          -- intros (_ & _ & Hs). destruct Hs as [Hi _|a af' _ Hr _ _ _|g _ _ Hc Hd].
             ++ congruence.
             ++ rewrite Hr, String.eqb_refl in Ea. discriminate.
             ++ exists g. rewrite Ev in Hc. split; assumption.
        * inversion H; subst l. split; [intros []|]. intros (_ & _ & Hs). destruct Hs as [Hi _|a af' _ Hr _ _ _|g _ Hr _ _].
          -- congruence.
          -- rewrite Hr, String.eqb_refl in Ea. discriminate.
          -- rewrite Hr, String.eqb_refl in El. discriminate.
    - destruct v; try discriminate. inversion H; subst l. split.
      + intros [Hx|[]]. inversion Hx; subst o. repeat split; try assumption. apply fs_ref; assumption.
      + intros (_ & _ & Hs). destruct Hs as [_ Hv|a af' Hi _ _ _ _|g Hi _ _ _]; try congruence.
        rewrite Ev in Hv. inversion Hv; subst. left. reflexivity. }
  pose proof (Hgen _ eq_refl) as Hg'. clear Hgen. rewrite Ep in Hg'.
  destruct (slot f (fd_name fd)) eqn:Ev; try (apply Hg'; discriminate).
  intros H. inversion H; subst l. split; [intros []|]. intros (_ & _ & Hs).
  destruct Hs as [_ Hv|a af' _ _ Hv _ _|g _ _ Hc _]; try congruence. rewrite Ev in Hc. inversion Hc.
Qed.

Lemma cands_fold_spec inl s h f x : forall feats l0 l, cands_fold inl s h f feats (Ok l0) = Ok l ->
  (In (VRef x) l <-> (In (VRef x) l0 \/ exists fd, In fd feats /\ fd_name fd <> "sofa" /\ is_primitive s (fd_range fd) = false /\
                                                 feat_succ inl s h f fd x)).
Proof.
  induction feats as [|fd r IH]; intros l0 l H.
  - cbn in H. inversion H; subst. split; [intros Hx; left; exact Hx|intros [Hx|(fd & [] & _)]; exact Hx].
  - rewrite cands_fold_cons in H. cbn [bind] in H.
    destruct (feat_cands inl s h f fd) as [l'| |] eqn:E; cbn [bind] in H;
      [|rewrite cands_fold_err in H; discriminate|rewrite cands_fold_oof in H; discriminate].
    rewrite (IH _ _ H), in_app_iff, (feat_cands_spec inl s h f fd l' x E). split.
    + intros [[Hx|Hx]|(fd' & Hin & Hrest)]; [left; exact Hx|right; exists fd; split; [left; reflexivity|exact Hx]|].
      right. exists fd'. split; [right; exact Hin|exact Hrest].
    + intros [Hx|(fd' & [<-|Hin] & Hrest)]; [left; left; exact Hx|left; right; exact Hrest|].
      right. exists fd'. split; assumption.
Qed.

(* C04: what the scan of an object offers to the open list is exactly its successors under the inductive relation *)
Theorem succs_declarative : forall inl s h o f l, hget h o = Some f -> obj_cands inl s h f = Ok l ->
  forall x, In x (refs_of l) <-> succ_rel inl s h o x.
Proof.
  intros inl s h o f l Hg Hc x. rewrite refs_of_In. unfold obj_cands in Hc.
  destruct (sch_find s (o_type f)) as [t|] eqn:Et; [|discriminate].
  destruct (is_array_type t) as [arr| |] eqn:Ea; cbn [bind] in Hc; try discriminate.
  destruct arr.
  - destruct (String.eqb (ti_name t) T_FS_ARRAY) eqn:En.
    + apply String.eqb_eq in En. rewrite (own_elements_spec s f l x Hc). split.
      * intros He. eapply sr_elements; eassumption.
      * intros Hs. destruct Hs as [f' t' Hg' Et' _ _ He|f' t' fd Hg' Et' Ea' _ _ _ _].
        -- rewrite Hg in Hg'. inversion Hg'; subst f'. exact He.
        -- rewrite Hg in Hg'. inversion Hg'; subst f'. rewrite Et in Et'. inversion Et'; subst t'. rewrite Ea in Ea'. discriminate.
    + inversion Hc; subst l. split; [intros []|]. intros Hs. destruct Hs as [f' t' Hg' Et' _ Hn _|f' t' fd Hg' Et' Ea' _ _ _ _].
      * rewrite Hg in Hg'. inversion Hg'; subst f'. rewrite Et in Et'. inversion Et'; subst t'. rewrite Hn, String.eqb_refl in En. discriminate.
      * rewrite Hg in Hg'. inversion Hg'; subst f'. rewrite Et in Et'. inversion Et'; subst t'. rewrite Ea in Ea'. discriminate.
  - fold (cands_fold inl s h f (ti_feats t) (Ok [])) in Hc. rewrite (cands_fold_spec inl s h f x _ _ _ Hc). split.
    + intros [[]|(fd & Hin & Hn & Hp & Hs)]. eapply sr_feature; eassumption.
    + intros Hs. right. destruct Hs as [f' t' Hg' Et' Ea' _ _|f' t' fd Hg' Et' _ Hin Hn Hp Hs].
      * rewrite Hg in Hg'. inversion Hg'; subst f'. rewrite Et in Et'. inversion Et'; subst t'. rewrite Ea in Ea'. discriminate.
      * rewrite Hg in Hg'. inversion Hg'; subst f'. rewrite Et in Et'. inversion Et'; subst t'. exists fd. repeat split; assumption.
Qed.

Corollary succs_declarative_wf : forall inl s h o, wf_heapb inl s h = true -> live h o = true ->
  forall x, In x (succs inl s h o) <-> succ_rel inl s h o x.
Proof.
  intros inl s h o Hwf Hl x. destruct (live_hget _ _ Hl) as (f & Hg). destruct (wf_obj _ _ _ _ _ Hwf Hg) as (l & Hc & _).
  unfold succs. rewrite Hg, Hc. exact (succs_declarative inl s h o f l Hg Hc x).
Qed.

(* ------------------------------------------------------------------------------------------------ a second traversal changes nothing
   C14 / C02: after a traversal every returned structure has its id, so traversing the resulting CAS again takes the same
   path, assigns nothing and ends in the very same state (same list, same heap, same generator). *)

Lemma wstate_eq w1 w2 : w_heap w2 = w_heap w1 -> w_next w2 = w_next w1 -> w_all w2 = w_all w1 -> w_queued w2 = w_queued w1 ->
  w_open w2 = w_open w1 -> w2 = w1.
Proof. destruct w1, w2. cbn. intros -> -> -> -> ->. reflexivity. Qed.

Lemma enqueue1_rel w1 w2 v w1' : w_queued w2 = w_queued w1 -> w_open w2 = w_open w1 -> enqueue1 w1 v = Ok w1' ->
  enqueue1 w2 v = Ok (mkW (w_heap w2) (w_next w2) (w_all w2) (w_queued w1') (w_open w1')).
Proof.
  intros Hq Ho H. unfold enqueue1 in *. destruct v;
    try (destruct (falsy _); [|discriminate]; inversion H; subst w1'; f_equal; symmetry; apply wstate_eq; cbn; congruence).
  rewrite Hq. destruct (memN o (w_queued w1)); inversion H; subst w1'; cbn [w_queued w_open].
  - f_equal. symmetry. apply wstate_eq; cbn; congruence.
  - rewrite Ho. reflexivity.
Qed.
Lemma enqueue_rel l : forall w1 w2 w1', w_queued w2 = w_queued w1 -> w_open w2 = w_open w1 -> enqueue w1 l = Ok w1' ->
  enqueue w2 l = Ok (mkW (w_heap w2) (w_next w2) (w_all w2) (w_queued w1') (w_open w1')).
Proof.
  induction l as [|v l IH]; intros w1 w2 w1' Hq Ho H.
  - rewrite enqueue_nil in *. inversion H; subst w1'. f_equal. symmetry. apply wstate_eq; cbn; congruence.
  - rewrite enqueue_cons in *. destruct (enqueue1 w1 v) as [w1a| |] eqn:E1; cbn [bind] in H; try discriminate.
    rewrite (enqueue1_rel w1 w2 v w1a Hq Ho E1). cbn [bind].
    pose proof (IH w1a (mkW (w_heap w2) (w_next w2) (w_all w2) (w_queued w1a) (w_open w1a)) w1' eq_refl eq_refl H) as X.
    cbn [w_heap w_next w_all] in X. exact X.
Qed.

Lemma scan_fold_of_cands inl s f : forall feats w0 l0 w l w',
  enqueue w0 l0 = Ok w -> cands_fold inl s (w_heap w0) f feats (Ok l0) = Ok l -> enqueue w0 l = Ok w' ->
  scan_fold inl s f feats (Ok w) = Ok w'.
Proof.
  induction feats as [|fd r IH]; intros w0 l0 w l w' H0 Hc He.
  - cbn in Hc. inversion Hc; subst l. rewrite H0 in He. exact He.
  - rewrite cands_fold_cons in Hc. rewrite scan_fold_cons. cbn [bind] in *. unfold scan_feature.
    rewrite (enqueue_heap _ _ _ H0).
    destruct (feat_cands inl s (w_heap w0) f fd) as [l'| |]; cbn [bind] in *;
      [|rewrite cands_fold_err in Hc; discriminate|rewrite cands_fold_oof in Hc; discriminate].
    destruct (cands_fold_prefix _ _ _ _ _ _ _ Hc) as (rest & Hl).
    assert (E1 : exists w1, enqueue w0 (l0 ++ l') = Ok w1).
    { subst l. rewrite enqueue_app in He. destruct (enqueue w0 (l0 ++ l')) as [w1| |]; cbn [bind] in He; try discriminate. eauto. }
    destruct E1 as (w1 & E1). pose proof E1 as E1'. rewrite enqueue_app, H0 in E1'. cbn [bind] in E1'. rewrite E1'.
    exact (IH w0 (l0 ++ l') w1 l w' E1 Hc He).
Qed.
Lemma scan_of_cands inl s f w l w' : obj_cands inl s (w_heap w) f = Ok l -> enqueue w l = Ok w' -> scan inl s f w = Ok w'.
Proof.
  unfold scan, obj_cands. destruct (sch_find s (o_type f)) as [t|]; [|discriminate].
  destruct (is_array_type t) as [arr| |]; cbn [bind]; try discriminate.
  destruct arr.
  - destruct (String.eqb (ti_name t) T_FS_ARRAY).
    + intros -> He. cbn [bind]. exact He.
    + intros Hl He. inversion Hl; subst l. exact He.
  - intros Hc He. exact (scan_fold_of_cands inl s f (ti_feats t) w [] w l w' eq_refl Hc He).
Qed.

(* one pop, with the enqueue step exposed *)
Lemma pop_cases_enq inl s w o rest w' : w_open w = o :: rest -> pop inl s w = Ok w' ->
  exists f, hget (w_heap w) o = Some f /\
  ( (is_null_id f = true /\ w' = mkW (w_heap w) (w_next w) (w_all w) (w_queued w) rest)
    \/
    (is_null_id f = false /\ exists (i : xid) (f' : fsobj) (hp : heap) (nx : Z) (all' : list (xid * oid)) (l : list val),
       ((o_id f = Some i /\ f' = f /\ hp = w_heap w /\ nx = w_next w) \/
        (o_id f = None /\ i = w_next w /\ f' = set_id f i /\ hp = hset (w_heap w) o f' /\ nx = w_next w + 1)) /\
       record_fs i o (mkW hp nx (w_all w) (w_queued w) rest) = Ok (mkW hp nx all' (w_queued w) rest) /\
       obj_cands inl s hp f' = Ok l /\
       enqueue (mkW hp nx all' (w_queued w) rest) l = Ok w') ).
Proof.
  intros Ho H. unfold pop in H. rewrite Ho in H. cbn [w_heap w_next w_all w_queued w_open] in H.
  destruct (hget (w_heap w) o) as [f|] eqn:Eg; [|discriminate]. exists f. split; [reflexivity|].
  destruct (is_null_id f) eqn:En.
  - left. inversion H. split; reflexivity.
  - right. split; [reflexivity|]. unfold assign_id in H. cbn [w_heap w_next w_all w_queued w_open] in H.
    assert (Hrec : forall i hp nx, exists all', forall w3, record_fs i o (mkW hp nx (w_all w) (w_queued w) rest) = Ok w3 ->
                     w3 = mkW hp nx all' (w_queued w) rest).
    { intros i hp nx. unfold record_fs. cbn [w_heap w_next w_all w_queued w_open].
      destruct (zfind i (w_all w)) as [o'|].
      - exists (w_all w). intros w3 H3. destruct (N.eqb o o'); inversion H3. reflexivity.
      - exists (w_all w ++ [(i, o)]). intros w3 H3. inversion H3. reflexivity. }
    destruct (o_id f) as [i|] eqn:Ei.
    + destruct (Hrec i (w_heap w) (w_next w)) as (all' & Hall).
      destruct (record_fs i o _) as [w3| |] eqn:E3; cbn [bind] in H; try discriminate.
      pose proof (Hall w3 eq_refl) as ->.
      destruct (scan_as_cands _ _ _ _ _ H) as (l & Hc & He). cbn [w_heap] in Hc.
      exists i, f, (w_heap w), (w_next w), all', l. split; [left; repeat split; reflexivity|]. repeat split; assumption.
    + destruct (Hrec (w_next w) (hset (w_heap w) o (set_id f (w_next w))) (w_next w + 1)) as (all' & Hall).
      destruct (record_fs (w_next w) o _) as [w3| |] eqn:E3; cbn [bind] in H; try discriminate.
      pose proof (Hall w3 eq_refl) as ->.
      destruct (scan_as_cands _ _ _ _ _ H) as (l & Hc & He). cbn [w_heap] in Hc.
      exists (w_next w), (set_id f (w_next w)), (hset (w_heap w) o (set_id f (w_next w))), (w_next w + 1), all', l.
      split; [right; repeat split; reflexivity|]. repeat split; assumption.
Qed.

(* ids only appear, the generator only advances *)
Definition ids_le (h h' : heap) : Prop :=
  shape_of h' = shape_of h /\ forall o f i, hget h o = Some f -> o_id f = Some i -> exists f', hget h' o = Some f' /\ o_id f' = Some i.
Lemma ids_le_refl h : ids_le h h.
Proof. split; [reflexivity|]. intros o f i Hg Hi. exists f. split; assumption. Qed.
Lemma ids_le_trans h1 h2 h3 : ids_le h1 h2 -> ids_le h2 h3 -> ids_le h1 h3.
Proof.
  intros [S1 K1] [S2 K2]. split; [congruence|]. intros o f i Hg Hi.
  destruct (K1 _ _ _ Hg Hi) as (f' & Hg' & Hi'). exact (K2 _ _ _ Hg' Hi').
Qed.
Lemma pop_mono inl s w w' : pop inl s w = Ok w' -> ids_le (w_heap w) (w_heap w') /\ w_next w <= w_next w'.
Proof.
  intros H. destruct (w_open w) as [|o rest] eqn:Ho.
  - unfold pop in H. rewrite Ho in H. inversion H. split; [apply ids_le_refl|lia].
  - destruct (pop_cases _ _ _ _ _ _ Ho H) as (f & Eg & [[_ ->]|(_ & i & f' & hp & nx & all' & l & add & Hid & _ & _ & -> & _)]);
      cbn [w_heap w_next]; [split; [apply ids_le_refl|lia]|].
    destruct Hid as [(_ & _ & -> & ->)|(Ei & -> & -> & -> & ->)]; [split; [apply ids_le_refl|lia]|].
    split; [|lia]. split; [apply shape_hset; exact Eg|].
    intros o' g j Hg Hj. destruct (N.eq_dec o' o) as [->|Hne].
    + rewrite Eg in Hg. inversion Hg; subst g. congruence.
    + exists g. split; [rewrite hget_hset_other; assumption|exact Hj].
Qed.
Lemma run_mono inl s : forall k w w', run k inl s w = Ok w' -> ids_le (w_heap w) (w_heap w') /\ w_next w <= w_next w'.
Proof.
  induction k as [|k IH]; intros w w' H; cbn [run] in H.
  - destruct (w_open w); [|discriminate]. inversion H. split; [apply ids_le_refl|lia].
  - destruct (w_open w) eqn:Ho; [inversion H; split; [apply ids_le_refl|lia]|].
    destruct (pop inl s w) as [w1| |] eqn:Ep; cbn [bind] in H; try discriminate.
    destruct (pop_mono _ _ _ _ Ep) as [L1 N1]. destruct (IH _ _ H) as [L2 N2]. split; [eapply ids_le_trans; eassumption|lia].
Qed.

(* lockstep: a run from the same queue over the FINAL heap and generator of a finished run repeats that run *)
Lemma run_sim inl s : forall k w1 wf w2, run k inl s w1 = Ok wf -> 0 < w_next w1 ->
  w_all w2 = w_all w1 -> w_queued w2 = w_queued w1 -> w_open w2 = w_open w1 -> w_heap w2 = w_heap wf -> w_next w2 = w_next wf ->
  run k inl s w2 = Ok wf.
Proof.
  induction k as [|k IH]; intros w1 wf w2 H Hpos Ha Hq Ho Hh Hn.
  - cbn [run] in *. rewrite Ho. destruct (w_open w1) eqn:Ho1; [|discriminate]. inversion H; subst wf. f_equal. apply wstate_eq; congruence.
  - pose proof (run_mono _ _ _ _ _ H) as [[Sf Kf] _].
    cbn [run] in *. rewrite Ho. destruct (w_open w1) as [|o rest] eqn:Ho1.
    + inversion H; subst wf. f_equal. apply wstate_eq; congruence.
    + destruct (pop inl s w1) as [w1'| |] eqn:Ep; cbn [bind] in H; try discriminate.
      pose proof (run_mono _ _ _ _ _ H) as [[Sf' Kf'] _]. destruct (pop_mono _ _ _ _ Ep) as [_ Hnx].
      destruct (pop_cases_enq _ _ _ _ _ _ Ho1 Ep) as (f1 & Eg1 & C).
      assert (Ef2 : exists f2, hget (w_heap wf) o = Some f2 /\ shape f2 = shape f1).
      { apply (shape_some (w_heap w1) (w_heap wf) o f1); [symmetry; exact Sf|exact Eg1]. }
      destruct Ef2 as (f2 & Eg2 & Hs2).
      assert (Hpop2 : exists w2', pop inl s w2 = Ok w2' /\ w_all w2' = w_all w1' /\ w_queued w2' = w_queued w1' /\
                                  w_open w2' = w_open w1' /\ w_heap w2' = w_heap wf /\ w_next w2' = w_next wf).
      { unfold pop. rewrite Ho. cbn [w_heap w_next w_all w_queued w_open]. rewrite Hh, Eg2.
        destruct C as [[En ->]|(En & i & f1' & hp & nx & all' & l & Hid & Hrec & Hc & He)].
        - (* cas:NULL stays cas:NULL *)
          assert (o_id f1 = Some 0) by (unfold is_null_id in En; destruct (o_id f1) as [[| |]|]; try discriminate; reflexivity).
          destruct (Kf _ _ _ Eg1 H0) as (g & Eg & Hg0). rewrite Eg2 in Eg. inversion Eg; subst g.
          unfold is_null_id. rewrite Hg0. eexists. split; [reflexivity|]. cbn [w_heap w_next w_all w_queued w_open]. repeat split; assumption.
        - (* recorded: in the final heap the structure carries the id it was recorded under *)
          assert (Hw1' : w_heap w1' = hp /\ w_next w1' = nx /\ w_all w1' = all').
          { destruct (enqueue_spec _ _ _ He) as (add & Hext & _). unfold extends in Hext. rewrite Hext. cbn. repeat split. }
          destruct Hw1' as (Hhp & Hnx' & Hall').
          assert (Hi2 : o_id f2 = Some i /\ i <> 0 /\ shape f2 = shape f1').
          { destruct Hid as [(Ei & -> & _ & _)|(Ei & -> & -> & Ehp & _)].
            - destruct (Kf _ _ _ Eg1 Ei) as (g & Eg & Hgi). rewrite Eg2 in Eg. inversion Eg; subst g.
              split; [exact Hgi|]. split; [|exact Hs2]. intros ->. unfold is_null_id in En. rewrite Ei in En. discriminate.
            - assert (Eghp : hget (w_heap w1') o = Some (set_id f1 (w_next w1))).
              { rewrite Hhp, Ehp. eapply hget_hset_same. exact Eg1. }
              destruct (Kf' _ _ _ Eghp eq_refl) as (g & Eg & Hgi). rewrite Eg2 in Eg. inversion Eg; subst g.
              split; [exact Hgi|]. split; [lia|exact Hs2]. }
          destruct Hi2 as (Hi2 & Hi0 & Hs2').
          assert (Hnn : is_null_id f2 = false).
          { unfold is_null_id. rewrite Hi2. destruct i; [contradiction|reflexivity|reflexivity]. }
          rewrite Hnn. unfold assign_id. rewrite Hi2.
          (* the same record step *)
          assert (Hrec2 : record_fs i o (mkW (w_heap wf) (w_next w2) (w_all w2) (w_queued w2) rest)
                          = Ok (mkW (w_heap wf) (w_next w2) all' (w_queued w2) rest)).
          { unfold record_fs in *. cbn [w_heap w_next w_all w_queued w_open] in *. rewrite Ha.
            destruct (zfind i (w_all w1)) as [o'|]; [destruct (N.eqb o o'); [|discriminate]|]; inversion Hrec; reflexivity. }
          rewrite Hrec2. cbn [bind].
          (* the same candidates, the same queue *)
          assert (Hc2 : obj_cands inl s (w_heap wf) f2 = Ok l).
          { rewrite <- Hc. apply obj_cands_shape; [rewrite <- Hhp; exact Sf'|symmetry; exact Hs2']. }
          pose proof (enqueue_rel l (mkW hp nx all' (w_queued w1) rest) (mkW (w_heap wf) (w_next w2) all' (w_queued w2) rest) w1'
                                  Hq eq_refl He) as He2.
          cbn [w_heap w_next w_all] in He2.
          rewrite (scan_of_cands inl s f2 (mkW (w_heap wf) (w_next w2) all' (w_queued w2) rest) l _ Hc2 He2). eexists. split; [reflexivity|].
          cbn [w_heap w_next w_all w_queued w_open]. repeat split; try reflexivity; [symmetry; exact Hall'|exact Hn]. }
      destruct Hpop2 as (w2' & Ep2 & Ha' & Hq' & Ho' & Hh' & Hn'). rewrite Ep2. cbn [bind].
      apply (IH w1' wf w2' H); try assumption. lia.
Qed.

Theorem find_all_stable : forall inl s c seeds w, 0 < c_next_id c -> find_all_from inl s c seeds = Ok w ->
  find_all_from inl s (cas_after c w) seeds = Ok w.
Proof.
  intros inl s c seeds w Hpos H. pose proof (find_all_shape _ _ _ _ _ H) as [Hs _].
  unfold find_all_from, start in *. unfold fuel_bound in *. cbn [cas_after c_heap c_next_id].
  destruct (enqueue (mkW (c_heap c) (c_next_id c) [] [] []) (map VRef seeds)) as [w0| |] eqn:E0; cbn [bind] in H; try discriminate.
  rewrite (enqueue_rel (map VRef seeds) (mkW (c_heap c) (c_next_id c) [] [] []) (mkW (w_heap w) (w_next w) [] [] []) w0 eq_refl eq_refl E0).
  cbn [bind w_heap w_next w_all].
  rewrite (shape_length _ _ Hs).
  destruct (enqueue_spec _ _ _ E0) as (add & Hext & _). unfold extends in Hext. cbn [w_heap w_next w_all w_queued w_open app] in Hext.
  apply (run_sim inl s _ w0 w _ H); rewrite Hext; cbn [w_heap w_next w_all w_queued w_open]; try reflexivity. exact Hpos.
Qed.
Corollary find_all_fs_stable : forall inl s c w, 0 < c_next_id c -> find_all_fs inl s c = Ok w ->
  find_all_fs inl s (cas_after c w) = Ok w.
Proof. intros inl s c w Hpos H. rewrite find_all_fs_from in *. exact (find_all_stable inl s c (member_seeds c) w Hpos H). Qed.
