(* ConvertReach.v — C16: the worklist of Convert.reach_c computes a set that contains the seeds and is closed under
   succ_c (reach_c_closed), contains only what is reachable (reach_c_sound), and does not run out of fuel: every visit
   adds a new key of cc_fs to the NoDup list `visited` (reach_c_total).  Purely about canonical content. *)
From Cassis Require Import Base Heap Schema Canon JsonDoc Json JsonProofs2 Convert.
From Coq Require Import Lia.
Open Scope Z_scope.

Lemma NoDup_app_snoc {A} (l : list A) x : NoDup l -> ~ In x l -> NoDup (l ++ [x]).
Proof.
  induction l as [|y r IH]; intros Hnd Hx; cbn [app]; [constructor; [intros []|constructor]|].
  inversion Hnd as [|? ? Hy Hr]; subst. constructor.
  - intros Hin. apply in_app_or in Hin. destruct Hin as [Hin|[<-|[]]]; [contradiction|]. apply Hx. left. reflexivity.
  - apply IH; [exact Hr|]. intros Hin. apply Hx. right. exact Hin.
Qed.

Lemma skip_seen_spec visited : forall open, exists pre, open = (pre ++ skip_seen visited open)%list /\
  (forall j, In j pre -> j = 0 \/ In j visited) /\
  match skip_seen visited open with [] => True | i :: _ => i <> 0 /\ ~ In i visited end.
Proof.
  induction open as [|i rest IH]; cbn [skip_seen].
  - exists []. split; [reflexivity|]. split; [intros j []|exact I].
  - destruct (zmem i visited || Z.eqb i 0) eqn:E.
    + destruct IH as (pre & Hp & Hq & Hr). exists (i :: pre). split; [cbn [app]; f_equal; exact Hp|]. split; [|exact Hr].
      intros j [<-|Hj]; [|exact (Hq j Hj)]. apply Bool.orb_true_iff in E. destruct E as [E|E].
      * right. apply zmem_In. exact E.
      * left. apply Z.eqb_eq. exact E.
    + exists []. split; [reflexivity|]. split; [intros j []|]. apply Bool.orb_false_iff in E. destruct E as [E1 E2]. split.
      * apply Z.eqb_neq. exact E2.
      * intros Hin. apply zmem_In in Hin. congruence.
Qed.

(* everything in the result satisfies an invariant Q that holds of the seeds and is preserved by succ_c *)
Lemma reach_c_sound (Q : xid -> Prop) s cc :
  (forall i l, Q i -> succ_c s cc i = Ok l -> forall j, In j l -> j <> 0 -> Q j) ->
  forall k visited open vis, reach_c k s cc visited open = Ok vis ->
  (forall i, In i visited -> Q i) -> (forall i, In i open -> i <> 0 -> Q i) -> forall i, In i vis -> Q i.
Proof.
  intros Hstep. induction k as [|k IH]; intros visited open vis H Hv Ho; cbn [reach_c] in H;
    destruct (skip_seen_spec visited open) as (pre & Hp & _ & Hhd);
    destruct (skip_seen visited open) as [|i rest] eqn:Es; try discriminate; try (inversion H; subst vis; exact Hv).
  destruct (succ_c s cc i) as [l| |] eqn:El; cbn [bind] in H; try discriminate.
  destruct Hhd as [Hi0 Hiv].
  assert (Qi : Q i). { apply Ho; [rewrite Hp; apply in_or_app; right; left; reflexivity|exact Hi0]. }
  apply (IH _ _ _ H).
  - intros j Hj. apply in_app_or in Hj. destruct Hj as [Hj|[<-|[]]]; [exact (Hv j Hj)|exact Qi].
  - intros j Hj Hj0. apply in_app_or in Hj. destruct Hj as [Hj|Hj].
    + apply Ho; [rewrite Hp; apply in_or_app; right; right; exact Hj|exact Hj0].
    + exact (Hstep i l Qi El j Hj Hj0).
Qed.

(* the result contains what was visited and what was open (0 apart), and every new member was expanded into it *)
Lemma reach_c_closed s cc : forall k visited open vis, reach_c k s cc visited open = Ok vis ->
  incl visited vis /\ (forall j, In j open -> j = 0 \/ In j vis) /\
  (forall i, In i vis -> In i visited \/ exists l, succ_c s cc i = Ok l /\ forall j, In j l -> j = 0 \/ In j vis).
Proof.
  induction k as [|k IH]; intros visited open vis H; cbn [reach_c] in H;
    destruct (skip_seen_spec visited open) as (pre & Hp & Hpre & Hhd);
    destruct (skip_seen visited open) as [|i rest] eqn:Es; try discriminate.
  - inversion H; subst vis. rewrite app_nil_r in Hp. subst pre. split; [intros x Hx; exact Hx|]. split; [exact Hpre|]. intros i Hi. left. exact Hi.
  - inversion H; subst vis. rewrite app_nil_r in Hp. subst pre. split; [intros x Hx; exact Hx|]. split; [exact Hpre|]. intros i Hi. left. exact Hi.
  - destruct (succ_c s cc i) as [l| |] eqn:El; cbn [bind] in H; try discriminate.
    destruct (IH _ _ _ H) as (Hinc & Hopen & Hexp).
    assert (Hvis : incl visited vis) by (intros x Hx; apply Hinc; apply in_or_app; left; exact Hx).
    assert (Hi : In i vis) by (apply Hinc; apply in_or_app; right; left; reflexivity).
    split; [exact Hvis|]. split.
    + intros j Hj. rewrite Hp in Hj. apply in_app_or in Hj. destruct Hj as [Hj|[<-|Hj]].
      * destruct (Hpre j Hj) as [H0|Hv]; [left; exact H0|right; apply Hvis; exact Hv].
      * right. exact Hi.
      * apply Hopen. apply in_or_app. left. exact Hj.
    + intros x Hx. destruct (Hexp x Hx) as [Hxv|Hxe]; [|right; exact Hxe].
      apply in_app_or in Hxv. destruct Hxv as [Hxv|[<-|[]]]; [left; exact Hxv|].
      right. exists l. split; [exact El|]. intros j Hj. apply Hopen. apply in_or_app. right. exact Hj.
Qed.

(* no error and enough fuel: the invariant guarantees that succ_c is defined and that what is visited is a key *)
Lemma reach_c_total (Q : xid -> Prop) s cc :
  (forall i, Q i -> exists l, succ_c s cc i = Ok l) ->
  (forall i l, Q i -> succ_c s cc i = Ok l -> forall j, In j l -> j <> 0 -> Q j) ->
  (forall i, Q i -> In i (map fst (cc_fs cc))) ->
  forall k visited open, NoDup visited -> (forall i, In i visited -> Q i) -> (forall i, In i open -> i <> 0 -> Q i) ->
  (List.length (cc_fs cc) < k + List.length visited)%nat ->
  exists vis, reach_c k s cc visited open = Ok vis.
Proof.
  intros Hdef Hstep Hkey. induction k as [|k IH]; intros visited open Hnd Hv Ho Hlen; cbn [reach_c];
    destruct (skip_seen_spec visited open) as (pre & Hp & _ & Hhd);
    destruct (skip_seen visited open) as [|i rest] eqn:Es; try (eexists; reflexivity).
  - exfalso. assert (Hle : (List.length visited <= List.length (map fst (cc_fs cc)))%nat).
    { apply NoDup_incl_length; [exact Hnd|]. intros x Hx. apply Hkey. apply Hv. exact Hx. }
    rewrite map_length in Hle. cbn [plus] in Hlen. lia.
  - destruct Hhd as [Hi0 Hiv].
    assert (Qi : Q i). { apply Ho; [rewrite Hp; apply in_or_app; right; left; reflexivity|exact Hi0]. }
    destruct (Hdef i Qi) as (l & El). rewrite El. cbn [bind]. apply IH.
    + apply NoDup_app_snoc; assumption.
    + intros j Hj. apply in_app_or in Hj. destruct Hj as [Hj|[<-|[]]]; [exact (Hv j Hj)|exact Qi].
    + intros j Hj Hj0. apply in_app_or in Hj. destruct Hj as [Hj|Hj].
      * apply Ho; [rewrite Hp; apply in_or_app; right; right; exact Hj|exact Hj0].
      * exact (Hstep i l Qi El j Hj Hj0).
    + rewrite app_length. cbn [List.length]. lia.
Qed.
