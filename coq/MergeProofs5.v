(* MergeProofs5.v — regrouping: merge (... merge X ...) against merge (... X ...).
   Part 1: the declarations of a tuple as a union over its inputs; facts about TypeSystem(); every declaration of a
           well-formed input gets ready (proc_all); no type is declared below itself.
   Part 2: restriction.  Under the side condition of the whole tuple, mergeable / agreeing declarations stay so when
           inputs are dropped (the declared chain above a competing supertype lies inside every input that names it).
   Part 3: two type systems that describe declaration lists with the same reachability, the same names and mutually
           exposed features are equivalent (sim_equiv: describes_equiv of MergeProofs3 with a weaker relation).
   Part 4: replacing a group X of inputs by its merge: same reachability, names, mutually exposed features; success
           transfers both ways; merge_regroup. *)
From Cassis Require Import Base TS TSProofs Merge MergeProofs MergeProofs2 MergeProofs3.
From Coq Require Import Arith.
Local Opaque init_ts.

(* ================================================================================================ Part 1 *)
Lemma type_list_has inputs ts t : In ts inputs -> In t (user_types ts) -> exists d, In d (type_list inputs) /\ d_ty d = t.
Proof.
  intros Hts Ht. assert (H : In t (map d_ty (type_list inputs))) by (unfold type_list; rewrite type_list_from_decls; apply in_flat_map; eauto).
  apply in_map_iff in H. destruct H as (d & E & Hd). eauto.
Qed.
Definition ts_edge (ts : tsys) (x s : tname) : Prop := exists t, In t (user_types ts) /\ t_name t = x /\ t_super t = Some s.
Definition ts_feat (ts : tsys) (A : tname) (f : feat) : Prop := exists t, In t (user_types ts) /\ t_name t = A /\ In f (t_own t).
Lemma user_edge_inputs inputs x s : user_edge (type_list inputs) x s <-> exists ts, In ts inputs /\ ts_edge ts x s.
Proof.
  split.
  - intros (d & Hd & Hn & Hs). destruct (type_list_from_In _ _ _ Hd) as (ts & Hts & Hu). exists ts. split; [exact Hts|]. exists (d_ty d). auto.
  - intros (ts & Hts & t & Ht & Hn & Hs). destruct (type_list_has inputs ts t Hts Ht) as (d & Hd & E). exists d. unfold dname. rewrite E. auto.
Qed.
Lemma user_feat_inputs inputs A f : (exists d, In d (type_list inputs) /\ dname d = A /\ In f (t_own (d_ty d))) <-> exists ts, In ts inputs /\ ts_feat ts A f.
Proof.
  split.
  - intros (d & Hd & Hn & Hf). destruct (type_list_from_In _ _ _ Hd) as (ts & Hts & Hu). exists ts. split; [exact Hts|]. exists (d_ty d). auto.
  - intros (ts & Hts & t & Ht & Hn & Hf). destruct (type_list_has inputs ts t Hts Ht) as (d & Hd & E). exists d. unfold dname. rewrite E. auto.
Qed.

(* the supertypes of the built-in types are predefined and not inheritance-final *)
Lemma init_supers t0 s : In t0 init_ts -> t_super t0 = Some s -> is_predef s = true /\ memb s final_types = false.
Proof.
  assert (H : forallb (fun t0 => match t_super t0 with Some s => is_predef s && negb (memb s final_types) | None => true end) init_ts = true)
    by (vm_compute; reflexivity).
  intros Hin Hs. rewrite forallb_forall in H. specialize (H t0 Hin). cbv beta in H. rewrite Hs in H. apply andb_true_iff in H. destruct H as [H1 H2].
  split; [exact H1|apply negb_true_iff; exact H2].
Qed.
Lemma builtin_edge_predef x s : (exists t0, find_ty init_ts x = Some t0 /\ t_super t0 = Some s) -> is_predef s = true /\ memb s final_types = false.
Proof. intros (t0 & Ht0 & Hs). destruct (find_ty_In _ _ _ Ht0) as [Hin _]. apply (init_supers t0 s Hin Hs). Qed.

Lemma dreach_trans L a b d : dreach L a b -> dreach L b d -> dreach L a d.
Proof. intros Hab Hbd. induction Hbd as [|d s He Hr IH]; [exact Hab|]. eapply dr_step; eassumption. Qed.
Lemma edge_dreach L x s : declared_edge L x s -> dreach L s x.
Proof. intros H. eapply dr_step; [exact H|apply dr_refl]. Qed.

(* every declaration of a well-formed input gets ready: the no-progress ValueError needs a hand-made declaration list *)
Lemma proc_all inputs : all_WFh inputs -> forall x s, user_edge (type_list inputs) x s -> proc (type_list inputs) s.
Proof.
  intros HW. set (L := type_list inputs).
  assert (Hk : forall ts, In ts inputs -> forall k tn, In tn ts -> t_rank tn < k -> proc L (t_name tn)).
  { intros ts Hts. pose proof (HW ts Hts) as W. induction k as [|k IH]; intros tn Hin Hlt; [lia|].
    destruct (is_predef (t_name tn)) eqn:Ep; [apply proc_predef; exact Ep|].
    destruct (t_super tn) as [s|] eqn:Es.
    - destruct (wf_super _ W tn s Hin Es) as (p & Hp & Hr). destruct (find_ty_In _ _ _ Hp) as [Hpin Hpn].
      eapply proc_decl with (s := s).
      + apply user_edge_inputs. exists ts. split; [exact Hts|]. exists tn. split; [apply user_types_In; auto|auto].
      + rewrite <- Hpn. apply IH; [exact Hpin|lia].
    - pose proof (wf_root _ W tn Hin Es) as Hn. rewrite Hn in Ep. vm_compute in Ep. discriminate. }
  intros x s He. apply user_edge_inputs in He. destruct He as (ts & Hts & t & Ht & Hn & Hs). apply user_types_In in Ht. destruct Ht as [Hin _].
  pose proof (HW ts Hts) as W. destruct (wf_super _ W t s Hin Hs) as (p & Hp & _). destruct (find_ty_In _ _ _ Hp) as [Hpin Hpn]. rewrite <- Hpn.
  apply (Hk ts Hts (S (t_rank p)) p Hpin). lia.
Qed.
Lemma no_self_edge inputs x : all_WFh inputs -> declared_edge (type_list inputs) x x -> False.
Proof.
  assert (Hself : forall ts t, WFh ts -> In t ts -> t_super t = Some (t_name t) -> False).
  { intros ts t W Hin Hs. destruct (wf_super _ W t _ Hin Hs) as (p & Hp & Hlt). rewrite (In_find_ty _ _ (wf_nodup _ W) Hin) in Hp. inversion Hp; subst p. lia. }
  intros HW [(t0 & Ht0 & Hs0)|He].
  - destruct (find_ty_In _ _ _ Ht0) as [Hin Hn]. apply (Hself init_ts t0 init_WFh Hin). rewrite Hn. exact Hs0.
  - apply user_edge_inputs in He. destruct He as (ts & Hts & t & Ht & Hn & Hs). apply user_types_In in Ht. apply (Hself ts t (HW ts Hts) (proj1 Ht)). rewrite Hn. exact Hs.
Qed.
Lemma type_list_no_predef inputs : all_WFh inputs -> no_predef_decl (type_list inputs).
Proof. intros HW d Hd. apply (proj1 (type_list_ok inputs HW d Hd)). Qed.

(* ================================================================================================ Part 2: restriction *)
Section Restrict.
  Variables X Z : list tsys.
  Hypothesis HXZ : forall ts, In ts X -> In ts Z.
  Hypothesis HWZ : all_WFh Z.
  Let LX := type_list X.
  Let LZ := type_list Z.
  Lemma HWX : all_WFh X.
  Proof. intros ts Hts. apply HWZ, HXZ, Hts. Qed.
  Lemma sub_user_edge x s : user_edge LX x s -> user_edge LZ x s.
  Proof. intros H. apply user_edge_inputs in H. destruct H as (ts & Hts & He). apply user_edge_inputs. exists ts. split; [apply HXZ; exact Hts|exact He]. Qed.
  Lemma sub_edge x s : declared_edge LX x s -> declared_edge LZ x s.
  Proof. intros [H|H]; [left; exact H|right; apply sub_user_edge; exact H]. Qed.
  Lemma sub_dreach a d : dreach LX a d -> dreach LZ a d.
  Proof. intros H. induction H as [|d s He Hr IH]; [apply dr_refl|]. eapply dr_step; [apply sub_edge; exact He|exact IH]. Qed.
  Lemma sub_feat A f : declared_feat LX A f -> declared_feat LZ A f.
  Proof.
    intros [H|H]; [left; exact H|right]. apply user_feat_inputs in H. destruct H as (ts & Hts & Hf). apply user_feat_inputs. exists ts. split; [apply HXZ; exact Hts|exact Hf].
  Qed.

  (* s is predefined or a type of some input of X *)
  Definition anchored (s : tname) : Prop := is_predef s = true \/ exists a, In a X /\ registered a s = true.
  Lemma edge_target_anchored x s : declared_edge LX x s -> anchored s.
  Proof.
    intros [H|H]; [left; apply (builtin_edge_predef x s H)|right]. apply user_edge_inputs in H. destruct H as (ts & Hts & t & Ht & _ & Hs).
    apply user_types_In in Ht. destruct (wf_super _ (HWX ts Hts) t s (proj1 Ht) Hs) as (p & Hp & _). exists ts. split; [exact Hts|apply registered_iff; eauto].
  Qed.
  Lemma anchored_step s s0 : anchored s -> declared_edge LZ s s0 -> settled LZ s -> declared_edge LX s s0 /\ anchored s0.
  Proof.
    intros Ha He Hset. destruct (is_predef s) eqn:Ep.
    - (* a predefined name is declared by TypeSystem() only *)
      destruct He as [He|He].
      + split; [left; exact He|left; apply (builtin_edge_predef s s0 He)].
      + exfalso. destruct He as (d & Hd & Hn & _). pose proof (type_list_no_predef Z HWZ d Hd) as Hp. rewrite Hn in Hp. congruence.
    - destruct Ha as [Ha|(a & Hain & Hreg)]; [congruence|]. apply registered_iff in Hreg. destruct Hreg as (t & Ht). destruct (find_ty_In _ _ _ Ht) as [Hin Hn].
      pose proof (HWX a Hain) as Wa. destruct (t_super t) as [s'|] eqn:Es.
      + assert (HeX : declared_edge LX s s').
        { right. apply user_edge_inputs. exists a. split; [exact Hain|]. exists t. split; [apply user_types_In; rewrite Hn; auto|auto]. }
        assert (E : s' = s0) by (apply (Hset s' s0 (sub_edge _ _ HeX) He)). subst s'. split; [exact HeX|apply (edge_target_anchored s s0 HeX)].
      + exfalso. pose proof (wf_root _ Wa t Hin Es) as Htop. rewrite Hn in Htop. rewrite Htop in Ep. vm_compute in Ep. discriminate.
  Qed.
  Lemma chain_transfer p d : dreach LZ p d -> anchored d -> chain_settled LZ d -> dreach LX p d.
  Proof.
    intros H. induction H as [|d s0 He Hr IH]; intros Ha Hcs; [apply dr_refl|].
    destruct (anchored_step d s0 Ha He (Hcs d (dr_refl _ _))) as [HeX Ha0]. eapply dr_step; [exact HeX|]. apply IH; [exact Ha0|].
    intros a' Ha'. apply Hcs. eapply dr_step; eassumption.
  Qed.

  Lemma restrict_side_cond : side_cond LZ -> side_cond LX.
  Proof.
    intros SC x s1 s2 H1 H2 Hn a Ha s3 s4 H3 H4. apply (SC x s1 s2 (sub_edge _ _ H1) (sub_edge _ _ H2) Hn a (sub_dreach _ _ Ha) s3 s4 (sub_edge _ _ H3) (sub_edge _ _ H4)).
  Qed.
  Lemma restrict_mergeable : side_cond LZ -> mergeable_h LZ -> mergeable_h LX.
  Proof.
    intros SC MH. constructor.
    - intros x s1 s2 H1 H2. destruct (String.eqb s1 s2) eqn:E; [apply String.eqb_eq in E; subst s2; left; apply dr_refl|]. apply String.eqb_neq in E.
      pose proof (SC x s1 s2 (sub_edge _ _ H1) (sub_edge _ _ H2) E) as C1.
      pose proof (SC x s2 s1 (sub_edge _ _ H2) (sub_edge _ _ H1) (fun E' => E (eq_sym E'))) as C2.
      destruct (mh_comparable _ MH x s1 s2 (sub_edge _ _ H1) (sub_edge _ _ H2)) as [D|D].
      + left. apply (chain_transfer s1 s2 D (edge_target_anchored x s2 H2) C2).
      + right. apply (chain_transfer s2 s1 D (edge_target_anchored x s1 H1) C1).
    - intros x s He Hr. apply (mh_acyclic _ MH x s (sub_edge _ _ He) (sub_dreach _ _ Hr)).
    - apply (proc_all X HWX).
  Qed.
  Lemma restrict_AG : AG LZ -> AG LX.
  Proof. intros H A1 A2 f1 f2 D1 D2 Hn Hr. apply (H A1 A2 f1 f2 (sub_feat _ _ D1) (sub_feat _ _ D2) Hn (sub_dreach _ _ Hr)). Qed.
  Lemma restrict_nofinal : nofinal LZ -> nofinal LX.
  Proof. intros H x s He. apply (H x s (sub_user_edge _ _ He)). Qed.
End Restrict.

(* ================================================================================================ Part 3: equivalence under a weaker relation *)
(* every feature declared in L is exposed by a declaration of L' on the same type or on a declared ancestor *)
Definition exposes (L L' : list decl) : Prop := forall A f, declared_feat L A f ->
  exists A' f', declared_feat L' A' f' /\ dreach L' A' A /\ feat_eqb f' f = true.

Section SimEquiv.
  Variables (La Lb : list decl) (a b : tsys).
  Hypothesis Hreach : forall p q, dreach La p q <-> dreach Lb p q.
  Hypothesis Hnm : forall n, nm_ok La n <-> nm_ok Lb n.
  Hypothesis Hexp : exposes La Lb.
  Hypothesis Da : describes La a.
  Hypothesis Db : describes Lb b.

  Lemma se_below p q : below a p q <-> below b p q.
  Proof. rewrite (ds_below _ _ Da), (ds_below _ _ Db). apply Hreach. Qed.
  Lemma se_tree m tm : find_ty a m = Some tm -> exists um, find_ty b m = Some um /\ t_super um = t_super tm.
  Proof.
    intros Hm. pose proof (ds_WFh _ _ Da) as Wa. pose proof (ds_WFh _ _ Db) as Wb.
    assert (Hr : registered b m = true).
    { apply (ds_names _ _ Db). apply Hnm. apply (ds_names _ _ Da). apply registered_iff. eauto. }
    apply registered_iff in Hr. destruct Hr as (um & Hum). exists um. split; [exact Hum|].
    destruct (find_ty_In _ _ _ Hm) as [Hmin Hmn]. destruct (find_ty_In _ _ _ Hum) as [Huin Hun].
    destruct (t_super tm) as [s|] eqn:Es; destruct (t_super um) as [s'|] eqn:Es'; auto.
    - assert (B1 : below b s m) by (apply se_below; eapply below_step; [exact Hm|exact Es|apply below_refl]).
      assert (B2 : below a s' m) by (apply se_below; eapply below_step; [exact Hum|exact Es'|apply below_refl]).
      assert (N1 : s <> m).
      { intros ->. apply (sbelow_neq a m m Wa); [|reflexivity]. exists tm, m. repeat split; auto. apply below_refl. }
      assert (N2 : s' <> m).
      { intros ->. apply (sbelow_neq b m m Wb); [|reflexivity]. exists um, m. repeat split; auto. apply below_refl. }
      destruct (below_cases _ _ _ B1) as [E|(um' & s2 & Hum' & Hs2 & Hb2)]; [contradiction|]. rewrite Hum in Hum'. inversion Hum'; subst um'.
      rewrite Es' in Hs2. inversion Hs2; subst s2.
      destruct (below_cases _ _ _ B2) as [E|(tm' & s3 & Htm' & Hs3 & Hb3)]; [contradiction|]. rewrite Hm in Htm'. inversion Htm'; subst tm'.
      rewrite Es in Hs3. inversion Hs3; subst s3.
      apply se_below in Hb2.
      destruct (below_cases _ _ _ Hb2) as [E|S1]; [congruence|]. exfalso.
      apply (sbelow_neq a s s Wa); [|reflexivity]. destruct S1 as (ts' & s4 & Hf4 & Hs4 & Hb4).
      destruct (below_cases _ _ _ Hb3) as [E|(ts0 & s5 & Hf5 & Hs5 & Hb5)]; [exfalso|].
      + subst s'. apply (sbelow_neq a s s Wa); [|reflexivity]. exists ts', s4. auto.
      + exists ts0, s5. repeat split; auto. eapply below_trans; [|exact Hb5]. eapply below_step; eassumption.
    - exfalso. pose proof (wf_root _ Wb um Huin Es') as Htop. rewrite Hun in Htop.
      destruct (wf_top _ Wa) as (t' & Ht' & Hn'). rewrite <- Htop, Hm in Ht'. inversion Ht' as [Htt]. rewrite <- Htt in Hn'. rewrite Es in Hn'. discriminate.
    - exfalso. pose proof (wf_root _ Wa tm Hmin Es) as Htop. rewrite Hmn in Htop.
      destruct (wf_top _ Wb) as (t' & Ht' & Hn'). rewrite <- Htop, Hum in Ht'. inversion Ht' as [Htt]. rewrite <- Htt in Hn'. rewrite Es' in Hn'. discriminate.
  Qed.
  Lemma se_features n t u : find_ty a n = Some t -> find_ty b n = Some u ->
    forall f, In f (all_features t) -> exists y, In y (all_features u) /\ feat_eqb y f = true.
  Proof.
    intros Ht Hu f Hf. pose proof (ds_WFh _ _ Da) as Wa. pose proof (ds_WFf _ _ Da) as Fa.
    pose proof (ds_WFh _ _ Db) as Wb. pose proof (ds_WFf _ _ Db) as Fb. destruct (find_ty_In _ _ _ Ht) as [Htin Htn].
    assert (Hown : exists A tA, below a A n /\ find_ty a A = Some tA /\ In f (t_own tA)).
    { apply all_features_In in Hf. apply in_app_or in Hf. destruct Hf as [Hf|Hf].
      - exists n, t. split; [apply below_refl|auto].
      - destruct (wf_inh_sound _ Fa t f Htin Hf) as (A & tA & Hs & HA & Ho). rewrite Htn in Hs. exists A, tA. split; [apply sbelow_below; exact Hs|auto]. }
    destruct Hown as (A & tA & HbA & HA & Ho). destruct (find_ty_In _ _ _ HA) as [HAin HAn].
    pose proof (ds_own _ _ Da tA f HAin Ho) as HD. rewrite HAn in HD.
    destruct (Hexp A f HD) as (A' & f' & HD' & Hr' & He').
    destruct (ds_has _ _ Db A' f' HD') as (tB & g & HB & Hg & Heg).
    assert (HbB : below b A' n).
    { eapply below_trans; [apply (ds_below _ _ Db); exact Hr'|apply se_below; exact HbA]. }
    destruct (sees b A' n tB u g Wb Fb HB Hu HbB Hg) as (g' & Hg' & Heg').
    destruct (all_features_complete u g' Hg') as (y & Hy & Hey). exists y. split; [exact Hy|].
    eapply feat_eqb_trans; [exact Hey|]. eapply feat_eqb_trans; [exact Heg'|]. eapply feat_eqb_trans; eassumption.
  Qed.
  Lemma se_incl n t u : find_ty a n = Some t -> find_ty b n = Some u -> incl_keys (eff_keys t) (eff_keys u) = true.
  Proof.
    intros Ht Hu. unfold incl_keys, eff_keys. apply forallb_forall. intros k Hk. apply in_map_iff in Hk. destruct Hk as (f & <- & Hf).
    destruct (se_features n t u Ht Hu f Hf) as (y & Hy & Hey).
    apply existsb_exists. exists (feat_key y). split; [apply in_map; exact Hy|apply feat_eqb_feat_key; exact Hey].
  Qed.
End SimEquiv.

Lemma sim_sub La Lb a b : (forall p q, dreach La p q <-> dreach Lb p q) -> (forall n, nm_ok La n <-> nm_ok Lb n) ->
  exposes La Lb -> exposes Lb La -> describes La a -> describes Lb b -> sub_tsys a b = true.
Proof.
  intros Hreach Hnm E1 E2 Da Db. unfold sub_tsys. apply forallb_forall. intros t Hin.
  pose proof (In_find_ty _ _ (wf_nodup _ (ds_WFh _ _ Da)) Hin) as Ht.
  destruct (se_tree La Lb a b Hreach Hnm Da Db (t_name t) t Ht) as (u & Hu & Hs). rewrite Hu.
  destruct (find_ty_In _ _ _ Hu) as [_ Hun]. unfold ty_equiv. rewrite Hun, String.eqb_refl, Hs.
  assert (Ho : ostr_eqb (t_super t) (t_super t) = true) by (apply ostr_eqb_eq; reflexivity). rewrite Ho. cbn [andb].
  rewrite (se_incl La Lb a b Hreach E1 Da Db (t_name t) t u Ht Hu).
  rewrite (se_incl Lb La b a (fun p q => iff_sym (Hreach p q)) E2 Db Da (t_name t) u t Hu Ht). reflexivity.
Qed.
Theorem sim_equiv La Lb a b : (forall p q, dreach La p q <-> dreach Lb p q) -> (forall n, nm_ok La n <-> nm_ok Lb n) ->
  exposes La Lb -> exposes Lb La -> describes La a -> describes Lb b -> ts_equiv a b = true.
Proof.
  intros Hreach Hnm E1 E2 Da Db. unfold ts_equiv. rewrite (sim_sub La Lb a b Hreach Hnm E1 E2 Da Db).
  rewrite (sim_sub Lb La b a (fun p q => iff_sym (Hreach p q)) (fun n => iff_sym (Hnm n)) E2 E1 Db Da). reflexivity.
Qed.

(* ================================================================================================ Part 4: groups replaced by their merges *)
(* G: the groups, each a list of inputs X with a type system r that describes their declarations (the result of merging
   them, or of merging a regrouping of them); Ys: the inputs that stay as they are.  Z1 is made of the r's and Ys, Z of the
   X's and Ys (in any order, with any repetition). *)
Section Regroup.
  Variables (G : list (list tsys * tsys)) (Ys Z1 Z : list tsys).
  Hypothesis HZ1 : forall ts, In ts Z1 <-> (exists X, In (X, ts) G) \/ In ts Ys.
  Hypothesis HZ : forall ts, In ts Z <-> (exists X r, In (X, r) G /\ In ts X) \/ In ts Ys.
  Hypothesis HWZ : all_WFh Z.
  Hypothesis HG : forall X r, In (X, r) G -> describes (type_list X) r /\ sup_sound (type_list X) r.
  Let L := type_list Z.
  Let L1 := type_list Z1.

  Lemma rg_XZ X r : In (X, r) G -> forall ts, In ts X -> In ts Z.
  Proof. intros HX ts H. apply HZ. left. exists X, r. auto. Qed.
  Lemma rg_HWX X r : In (X, r) G -> all_WFh X.
  Proof. intros HX ts H. apply HWZ, (rg_XZ X r HX), H. Qed.
  Lemma rg_HWZ1 : all_WFh Z1.
  Proof. intros ts H. apply HZ1 in H. destruct H as [(X & HX)|H]; [apply (ds_WFh _ _ (proj1 (HG X ts HX)))|apply HWZ, HZ; right; exact H]. Qed.

  (* the edges of the regrouped tuple are declared edges of the flat one *)
  Lemma rg_edge1 x s : declared_edge L1 x s -> declared_edge L x s.
  Proof.
    intros [H|H]; [left; exact H|]. apply user_edge_inputs in H. destruct H as (ts & Hts & t & Ht & Hn & Hs). apply HZ1 in Hts. destruct Hts as [(X & HX)|Hts].
    - destruct (HG X ts HX) as [D SS]. apply user_types_In in Ht. destruct Ht as [Hin _]. pose proof (In_find_ty _ _ (wf_nodup _ (ds_WFh _ _ D)) Hin) as Hf. rewrite Hn in Hf.
      destruct (SS x t s Hf Hs) as [Hb|Hu]; [left; exact Hb|right; apply (sub_user_edge X Z (rg_XZ X ts HX)); exact Hu].
    - right. apply user_edge_inputs. exists ts. split; [apply HZ; right; exact Hts|]. exists t. auto.
  Qed.
  (* every supertype link of a group's result is a declared edge of the regrouped tuple *)
  Lemma rg_r_edge X r d td s : In (X, r) G -> find_ty r d = Some td -> t_super td = Some s -> declared_edge L1 d s.
  Proof.
    intros HX Hf Hs. destruct (HG X r HX) as [D SS]. destruct (find_ty_In _ _ _ Hf) as [Hin Hn]. destruct (is_predef d) eqn:Ep.
    - destruct (SS d td s Hf Hs) as [Hb|(d0 & Hd0 & Hn0 & _)]; [left; exact Hb|].
      exfalso. pose proof (type_list_no_predef X (rg_HWX X r HX) d0 Hd0) as Hp. rewrite Hn0 in Hp. congruence.
    - right. apply user_edge_inputs. exists r. split; [apply HZ1; left; exists X; exact HX|]. exists td. split; [apply user_types_In; rewrite Hn; auto|auto].
  Qed.
  Lemma rg_below_r X r a d : In (X, r) G -> below r a d -> dreach L1 a d.
  Proof. intros HX H. induction H as [|d td s Hf Hs Hb IH]; [apply dr_refl|]. eapply dr_step; [apply (rg_r_edge X r d td s HX Hf Hs)|exact IH]. Qed.
  Lemma rg_edge_back x s : declared_edge L x s -> dreach L1 s x.
  Proof.
    intros [H|H]; [apply edge_dreach; left; exact H|]. apply user_edge_inputs in H. destruct H as (ts & Hts & He). apply HZ in Hts. destruct Hts as [(X & r & HX & Hts)|Hts].
    - apply (rg_below_r X r s x HX). apply (ds_below _ _ (proj1 (HG X r HX))). apply edge_dreach. right. apply user_edge_inputs. exists ts. auto.
    - apply edge_dreach. right. apply user_edge_inputs. exists ts. split; [apply HZ1; right; exact Hts|exact He].
  Qed.
  Lemma rg_reach a d : dreach L a d <-> dreach L1 a d.
  Proof.
    split; intros H.
    - induction H as [|d s He Hr' IH]; [apply dr_refl|]. eapply dreach_trans; [exact IH|apply rg_edge_back; exact He].
    - induction H as [|d s He Hr' IH]; [apply dr_refl|]. eapply dr_step; [apply rg_edge1; exact He|exact IH].
  Qed.
  Lemma dnames_inputs inputs m : In m (dnames (type_list inputs)) <-> exists ts t, In ts inputs /\ In t (user_types ts) /\ t_name t = m.
  Proof.
    unfold dnames. rewrite in_map_iff. split.
    - intros (d & Hn & Hd). destruct (type_list_from_In _ _ _ Hd) as (ts & Hts & Hu). exists ts, (d_ty d). auto.
    - intros (ts & t & Hts & Ht & Hn). destruct (type_list_has inputs ts t Hts Ht) as (d & Hd & E). exists d. unfold dname. rewrite E. auto.
  Qed.
  Lemma rg_names n : nm_ok L n <-> nm_ok L1 n.
  Proof.
    unfold nm_ok. split; (intros [H|H]; [left; exact H|]); apply dnames_inputs in H; destruct H as (ts & t & Hts & Ht & Hn).
    - apply HZ in Hts. destruct Hts as [(X & r & HX & Hts)|Hts].
      + destruct (HG X r HX) as [D _].
        assert (Hreg : registered r n = true).
        { apply (ds_names _ _ D). right. apply dnames_inputs. exists ts, t. auto. }
        destruct (is_predef n) eqn:Ep; [left; apply predef_in_init; exact Ep|right]. apply registered_iff in Hreg. destruct Hreg as (tr & Htr).
        destruct (find_ty_In _ _ _ Htr) as [Hin Hnn]. apply dnames_inputs. exists r, tr. split; [apply HZ1; left; exists X; exact HX|]. split; [apply user_types_In; rewrite Hnn; auto|exact Hnn].
      + right. apply dnames_inputs. exists ts, t. split; [apply HZ1; right; exact Hts|auto].
    - apply HZ1 in Hts. destruct Hts as [(X & HX)|Hts].
      + destruct (HG X ts HX) as [D _]. apply user_types_In in Ht. destruct Ht as [Hin _].
        assert (Hreg : registered ts n = true) by (apply registered_iff; exists t; rewrite <- Hn; apply (In_find_ty _ _ (wf_nodup _ (ds_WFh _ _ D)) Hin)).
        apply (ds_names _ _ D) in Hreg. destruct Hreg as [Hreg|Hreg]; [left; exact Hreg|right].
        apply dnames_inputs in Hreg. destruct Hreg as (ts' & t' & Hts' & Ht' & Hn'). apply dnames_inputs. exists ts', t'. split; [apply (rg_XZ X ts HX); exact Hts'|auto].
      + right. apply dnames_inputs. exists ts, t. split; [apply HZ; right; exact Hts|auto].
  Qed.
  Lemma rg_feat1 A f : declared_feat L1 A f -> declared_feat L A f.
  Proof.
    intros [H|H]; [left; exact H|]. apply user_feat_inputs in H. destruct H as (ts & Hts & t & Ht & Hn & Hf). apply HZ1 in Hts. destruct Hts as [(X & HX)|Hts].
    - destruct (HG X ts HX) as [D _]. apply user_types_In in Ht. destruct Ht as [Hin _]. pose proof (ds_own _ _ D t f Hin Hf) as D0. rewrite Hn in D0.
      apply (sub_feat X Z (rg_XZ X ts HX)). exact D0.
    - right. apply user_feat_inputs. exists ts. split; [apply HZ; right; exact Hts|]. exists t. auto.
  Qed.
  Lemma rg_r_own X r A t g : In (X, r) G -> find_ty r A = Some t -> In g (t_own t) -> declared_feat L1 A g.
  Proof.
    intros HX Hf Hg. destruct (HG X r HX) as [D _]. destruct (find_ty_In _ _ _ Hf) as [Hin Hn]. destruct (is_predef A) eqn:Ep.
    - pose proof (ds_own _ _ D t g Hin Hg) as D0. rewrite Hn in D0. destruct D0 as [D0|(d0 & Hd0 & Hn0 & _)]; [left; exact D0|].
      exfalso. pose proof (type_list_no_predef X (rg_HWX X r HX) d0 Hd0) as Hp. rewrite Hn0 in Hp. congruence.
    - right. apply user_feat_inputs. exists r. split; [apply HZ1; left; exists X; exact HX|]. exists t. split; [apply user_types_In; rewrite Hn; auto|auto].
  Qed.
  Lemma rg_expose : exposes L L1.
  Proof.
    intros A f [H|H].
    - exists A, f. split; [left; exact H|]. split; [apply dr_refl|apply feat_eqb_refl].
    - apply user_feat_inputs in H. destruct H as (ts & Hts & Hf). apply HZ in Hts. destruct Hts as [(X & r & HX & Hts)|Hts].
      + destruct (HG X r HX) as [D _].
        assert (D0 : declared_feat (type_list X) A f) by (right; apply user_feat_inputs; exists ts; auto).
        destruct (ds_has _ _ D A f D0) as (t & g & Ht & Hg & He). destruct (find_ty_In _ _ _ Ht) as [Hin Hn]. apply in_app_or in Hg. destruct Hg as [Hg|Hg].
        * exists A, g. split; [apply (rg_r_own X r A t g HX Ht Hg)|]. split; [apply dr_refl|exact He].
        * destruct (wf_inh_sound _ (ds_WFf _ _ D) t g Hin Hg) as (A' & ta & Hs & Ha & Ho). rewrite Hn in Hs.
          exists A', g. split; [apply (rg_r_own X r A' ta g HX Ha Ho)|]. split; [apply (rg_below_r X r A' A HX), sbelow_below; exact Hs|exact He].
      + exists A, f. split; [right; apply user_feat_inputs; exists ts; split; [apply HZ1; right; exact Hts|exact Hf]|]. split; [apply dr_refl|apply feat_eqb_refl].
  Qed.
  Lemma rg_expose1 : exposes L1 L.
  Proof. intros A f D. exists A, f. split; [apply rg_feat1; exact D|]. split; [apply dr_refl|apply feat_eqb_refl]. Qed.

  (* ---- the static premises transfer from the flat tuple to the regrouped one ---- *)
  Lemma rg_side_cond : side_cond L -> side_cond L1.
  Proof.
    intros SC x s1 s2 H1 H2 Hn a Ha s3 s4 H3 H4.
    apply (SC x s1 s2 (rg_edge1 _ _ H1) (rg_edge1 _ _ H2) Hn a (proj2 (rg_reach a s1) Ha) s3 s4 (rg_edge1 _ _ H3) (rg_edge1 _ _ H4)).
  Qed.
  Lemma rg_mergeable : mergeable_h L -> mergeable_h L1.
  Proof.
    intros MH. constructor.
    - intros x s1 s2 H1 H2. destruct (mh_comparable _ MH x s1 s2 (rg_edge1 _ _ H1) (rg_edge1 _ _ H2)) as [D|D]; [left|right]; apply rg_reach; exact D.
    - intros x s He Hd. apply (mh_acyclic _ MH x s (rg_edge1 _ _ He)). apply rg_reach. exact Hd.
    - apply (proc_all Z1 rg_HWZ1).
  Qed.
  Lemma rg_AG : AG L -> AG L1.
  Proof. intros H A1 A2 f1 f2 D1 D2 Hn Hd. apply (H A1 A2 f1 f2 (rg_feat1 _ _ D1) (rg_feat1 _ _ D2) Hn). apply rg_reach. exact Hd. Qed.
  Lemma rg_nofinal : nofinal L -> nofinal L1.
  Proof.
    intros H x s He. destruct (rg_edge1 x s (or_intror He)) as [Hb|Hu]; [apply (builtin_edge_predef x s Hb)|apply (H x s Hu)].
  Qed.

  (* ---- and back: what the regrouped merge produced says that the flat declarations are mergeable and agree, and it
          describes the flat declarations ---- *)
  Section Back.
    Variable ts1 : tsys.
    Hypothesis H1 : merge Z1 = Ok ts1.
    Lemma rg_D1 : describes L1 ts1.
    Proof. apply (merge_describes Z1 ts1 rg_HWZ1 H1). Qed.
    Lemma rg_below1 a d : dreach L a d -> below ts1 a d.
    Proof. intros H. apply (ds_below _ _ rg_D1). apply rg_reach. exact H. Qed.
    Lemma rg_has1 A f : declared_feat L A f -> has_feat ts1 A f.
    Proof.
      intros D. destruct (rg_expose A f D) as (A' & f' & D' & Hd & He). pose proof rg_D1 as D1.
      destruct (ds_has _ _ D1 A' f' D') as (tB & g & HB & Hg & Heg).
      assert (Hreg : exists tA, find_ty ts1 A = Some tA).
      { apply registered_iff. apply (ds_names _ _ D1). apply rg_names. destruct D as [(t0 & Ht0 & _)|(d & Hd0 & Hn & _)].
        - left. apply registered_iff. eauto.
        - right. unfold dnames. apply in_map_iff. exists d. auto. }
      destruct Hreg as (tA & HA).
      destruct (sees ts1 A' A tB tA g (ds_WFh _ _ D1) (ds_WFf _ _ D1) HB HA (proj2 (ds_below _ _ D1 A' A) Hd) Hg) as (g' & Hg' & Heg').
      exists tA, g'. split; [exact HA|]. split; [exact Hg'|]. eapply feat_eqb_trans; [exact Heg'|]. eapply feat_eqb_trans; eassumption.
    Qed.
    Lemma rg_back_mergeable : mergeable_h L.
    Proof.
      pose proof rg_D1 as D1. pose proof (ds_WFh _ _ D1) as W1. constructor.
      - intros x s1 s2 E1 E2. pose proof (rg_below1 s1 x (edge_dreach L x s1 E1)) as B1. pose proof (rg_below1 s2 x (edge_dreach L x s2 E2)) as B2.
        destruct (chain_linear ts1 s1 s2 x B1 B2) as [B|B]; [left|right]; apply rg_reach; apply (ds_below _ _ D1); exact B.
      - intros x s He Hd. pose proof (rg_below1 s x (edge_dreach L x s He)) as B1. pose proof (rg_below1 x s Hd) as B2.
        destruct (below_cases _ _ _ B1) as [E|S1].
        + subst s. apply (no_self_edge Z x HWZ He).
        + apply (sbelow_neq ts1 s s W1); [|reflexivity]. destruct S1 as (tx & s0 & Hfx & Hsx & Hbs).
          destruct (below_cases _ _ _ B2) as [E|(tsx & s5 & Hf5 & Hs5 & Hb5)].
          * subst s. exists tx, s0. auto.
          * exists tsx, s5. repeat split; auto. eapply below_trans; [|exact Hb5]. eapply below_step; eassumption.
      - apply (proc_all Z HWZ).
    Qed.
    Lemma rg_back_AG : AG L.
    Proof.
      pose proof rg_D1 as D1. intros A1 A2 f1 f2 Da Db Hn Hd.
      apply (chain_feats_agree ts1 A1 A2 f1 f2 (ds_WFh _ _ D1) (ds_WFf _ _ D1) (rg_has1 _ _ Da) (rg_has1 _ _ Db) (rg_below1 _ _ Hd) Hn).
    Qed.
    (* the result of the regrouped merge describes the flat declarations *)
    Lemma rg_describes_flat : describes L ts1 /\ sup_sound L ts1.
    Proof.
      pose proof rg_D1 as D1. split.
      - constructor.
        + apply (ds_WFh _ _ D1).
        + apply (ds_WFf _ _ D1).
        + intros n. rewrite (ds_names _ _ D1). symmetry. apply rg_names.
        + intros a d. rewrite (ds_below _ _ D1). symmetry. apply rg_reach.
        + apply rg_has1.
        + intros t g Hin Hg. apply rg_feat1. apply (ds_own _ _ D1 t g Hin Hg).
      - intros n t s Hf Hs. apply rg_edge1. apply (proj1 (merge_inv2 Z1 ts1 rg_HWZ1 H1) n t s Hf Hs).
    Qed.
  End Back.

  (* success of the regrouped merge and of the flat merge, under the side condition of the flat tuple *)
  Lemma rg_forward : nofinal L -> side_cond L -> (exists ts, merge Z = Ok ts) -> exists ts1, merge Z1 = Ok ts1.
  Proof.
    intros NF SC (ts & E2). destruct (proj1 (merge_success_iff Z HWZ NF SC) (ex_intro _ ts E2)) as [MH HA].
    apply (merge_succeeds Z1 rg_HWZ1 (rg_nofinal NF) (rg_side_cond SC) (rg_mergeable MH) (rg_AG HA)).
  Qed.
  Lemma rg_backward ts1 : nofinal L -> side_cond L -> merge Z1 = Ok ts1 -> exists ts, merge Z = Ok ts.
  Proof. intros NF SC E1. apply (merge_succeeds Z HWZ NF SC (rg_back_mergeable ts1 E1) (rg_back_AG ts1 E1)). Qed.
End Regroup.

(* the nested merge: X first, its result takes the place of X among the other inputs *)
Definition merge_grouped (X : list tsys) (Z1 : tsys -> list tsys) : res tsys := do r <- merge X;; merge (Z1 r).

(* REGROUPING: under the side condition of the flat tuple, merging a group X of the inputs first and then the result with
   the others (at any position: Z1 r contains r and the other inputs Ys) has the same outcome as merging everything at
   once (Z contains the inputs of X and Ys): both succeed with equivalent results, or both raise ValueError *)
Theorem merge_regroup X Ys Z1 Z : (forall r ts, In ts (Z1 r) <-> ts = r \/ In ts Ys) -> (forall ts, In ts Z <-> In ts X \/ In ts Ys) ->
  all_WFh Z -> nofinal (type_list Z) -> side_cond (type_list Z) -> same_outcome (merge_grouped X Z1) (merge Z).
Proof.
  intros HZ1 HZ HWZ NF SC. set (L := type_list Z) in *.
  assert (HXZ : forall ts, In ts X -> In ts Z) by (intros ts H; apply HZ; left; exact H).
  pose proof (HWX X Z HXZ HWZ) as HWX.
  unfold merge_grouped, same_outcome. destruct (merge X) as [r|e|] eqn:EX; cbn [bind].
  - assert (HZ1' : forall ts, In ts (Z1 r) <-> (exists X0, In (X0, ts) [(X, r)]) \/ In ts Ys).
    { intros ts. rewrite (HZ1 r ts). cbn [In]. split; (intros [H|H]; [left|right; exact H]).
      - exists X. left. rewrite H. reflexivity.
      - destruct H as (X0 & [H|[]]). inversion H. reflexivity. }
    assert (HZ' : forall ts, In ts Z <-> (exists X0 r0, In (X0, r0) [(X, r)] /\ In ts X0) \/ In ts Ys).
    { intros ts. rewrite (HZ ts). cbn [In]. split; (intros [H|H]; [left|right; exact H]).
      - exists X, r. auto.
      - destruct H as (X0 & r0 & [H|[]] & Hin). inversion H; subst X0 r0. exact Hin. }
    assert (HG : forall X0 r0, In (X0, r0) [(X, r)] -> describes (type_list X0) r0 /\ sup_sound (type_list X0) r0).
    { intros X0 r0 [H|[]]. inversion H; subst X0 r0. split; [apply (merge_describes X r HWX EX)|apply (proj1 (merge_inv2 X r HWX EX))]. }
    pose proof (rg_HWZ1 [(X, r)] Ys (Z1 r) Z HZ1' HZ' HWZ HG) as HW1.
    destruct (merge (Z1 r)) as [ts1|e1|] eqn:E1; destruct (merge Z) as [ts|e2|] eqn:E2.
    + apply (describes_equiv L L ts1 ts (same_static_refl L) (type_list_has_supers _ HWZ) (type_list_has_supers _ HWZ)
               (proj1 (rg_describes_flat [(X, r)] Ys (Z1 r) Z HZ1' HZ' HWZ HG ts1 E1)) (merge_describes _ _ HWZ E2)).
    + destruct (rg_backward [(X, r)] Ys (Z1 r) Z HZ1' HZ' HWZ HG ts1 NF SC E1) as (ts & Hts). congruence.
    + apply (merge_terminates Z HWZ E2).
    + destruct (rg_forward [(X, r)] Ys (Z1 r) Z HZ1' HZ' HWZ HG NF SC (ex_intro _ ts E2)) as (ts1 & Hts1). congruence.
    + split; [apply (merge_error_is_value _ e1 HW1 E1)|apply (merge_error_is_value Z e2 HWZ E2)].
    + apply (merge_terminates Z HWZ E2).
    + apply (merge_terminates _ HW1 E1).
    + apply (merge_terminates _ HW1 E1).
    + apply (merge_terminates _ HW1 E1).
  - (* the group does not merge: neither does the whole (restriction) *)
    destruct (merge Z) as [ts|e2|] eqn:E2.
    + destruct (proj1 (merge_success_iff Z HWZ NF SC) (ex_intro _ ts E2)) as [MH HA].
      destruct (merge_succeeds X HWX (restrict_nofinal X Z HXZ NF) (restrict_side_cond X Z HXZ SC) (restrict_mergeable X Z HXZ HWZ SC MH) (restrict_AG X Z HXZ HA)) as (r & Hr).
      congruence.
    + split; [apply (merge_error_is_value X e HWX EX)|apply (merge_error_is_value Z e2 HWZ E2)].
    + apply (merge_terminates Z HWZ E2).
  - apply (merge_terminates X HWX EX).
Qed.

(* the three groupings of a triple *)
Corollary merge_regroup_left a b c : all_WFh [a; b; c] -> nofinal (type_list [a; b; c]) -> side_cond (type_list [a; b; c]) ->
  same_outcome (do r <- merge [a; b];; merge [r; c]) (merge [a; b; c]).
Proof.
  intros HW NF SC. apply (merge_regroup [a; b] [c] (fun r => [r; c]) [a; b; c]); auto.
  - intros r ts. cbn [In]. intuition (subst; auto).
  - intros ts. cbn [In]. intuition (subst; auto).
Qed.
Corollary merge_regroup_right a b c : all_WFh [a; b; c] -> nofinal (type_list [a; b; c]) -> side_cond (type_list [a; b; c]) ->
  same_outcome (do r <- merge [b; c];; merge [a; r]) (merge [a; b; c]).
Proof.
  intros HW NF SC. apply (merge_regroup [b; c] [a] (fun r => [a; r]) [a; b; c]); auto.
  - intros r ts. cbn [In]. intuition (subst; auto).
  - intros ts. cbn [In]. intuition (subst; auto).
Qed.
Corollary merge_regroup_outer a b c : all_WFh [a; b; c] -> nofinal (type_list [a; b; c]) -> side_cond (type_list [a; b; c]) ->
  same_outcome (do r <- merge [a; c];; merge [r; b]) (merge [a; b; c]).
Proof.
  intros HW NF SC. apply (merge_regroup [a; c] [b] (fun r => [r; b]) [a; b; c]); auto.
  - intros r ts. cbn [In]. intuition (subst; auto).
  - intros ts. cbn [In]. intuition (subst; auto).
Qed.

(* ================================================================================================ Part 5: arbitrary groupings *)
(* a merge expression: an input, or merge_typesystems applied to sub-expressions (an exception propagates) *)
Inductive gexp := GIn (ts : tsys) | GM (l : list gexp).
Definition mapM {A B} (f : A -> res B) : list A -> res (list B) :=
  fix go l := match l with [] => Ok [] | c :: r => do a <- f c;; do b <- go r;; Ok (a :: b) end.
Fixpoint geval (e : gexp) : res tsys := match e with GIn ts => Ok ts | GM l => do tss <- mapM geval l;; merge tss end.
Fixpoint leaves (e : gexp) : list tsys := match e with GIn ts => [ts] | GM l => flat_map leaves l end.

Lemma gexp_ind' (P : gexp -> Prop) : (forall ts, P (GIn ts)) -> (forall l, Forall P l -> P (GM l)) -> forall e, P e.
Proof. intros H1 H2. fix IH 1. intros [ts|l]; [apply H1|]. apply H2. induction l as [|c r IHl]; constructor; [apply IH|exact IHl]. Qed.

(* the groups of a node: its sub-merges with their results; the plain inputs *)
Fixpoint groups (l : list gexp) (tss : list tsys) : list (list tsys * tsys) :=
  match l, tss with
  | GM l' :: r, t :: tr => (leaves (GM l'), t) :: groups r tr
  | GIn _ :: r, _ :: tr => groups r tr
  | _, _ => []
  end.
Fixpoint plains (l : list gexp) : list tsys :=
  match l with [] => [] | GIn a :: r => a :: plains r | GM _ :: r => plains r end.

Lemma mapM_groups : forall l tss, mapM geval l = Ok tss ->
  (forall ts, In ts tss <-> (exists X, In (X, ts) (groups l tss)) \/ In ts (plains l)) /\
  (forall ts, In ts (flat_map leaves l) <-> (exists X r, In (X, r) (groups l tss) /\ In ts X) \/ In ts (plains l)) /\
  (forall X r, In (X, r) (groups l tss) -> exists l', In (GM l') l /\ X = leaves (GM l') /\ geval (GM l') = Ok r).
Proof.
  induction l as [|c rest IH]; intros tss H; cbn [mapM] in H.
  - inversion H; subst tss. cbn [groups plains flat_map In]. split; [|split].
    + intros ts. split; [intros []|intros [(X & [])|[]]].
    + intros ts. split; [intros []|intros [(X & r & [] & _)|[]]].
    + intros X r [].
  - destruct (geval c) as [a| |] eqn:Ec; cbn [bind] in H; try discriminate.
    destruct (mapM geval rest) as [tr| |] eqn:Er; cbn [bind] in H; try discriminate. inversion H; subst tss.
    destruct (IH tr eq_refl) as (I1 & I2 & I3). destruct c as [a0|l'].
    + cbn [geval] in Ec. inversion Ec; subst a0. cbn [groups plains flat_map leaves In app]. split; [|split].
      * intros ts. rewrite (I1 ts). tauto.
      * intros ts. rewrite (I2 ts). tauto.
      * intros X r Hin. destruct (I3 X r Hin) as (l' & Hl' & E & Hg). exists l'. split; [right; exact Hl'|auto].
    + cbn [groups plains flat_map In]. split; [|split].
      * intros ts. rewrite (I1 ts). split.
        -- intros [<-|[(X & HX)|Hp]]; [left; exists (leaves (GM l')); left; reflexivity|left; exists X; right; exact HX|right; exact Hp].
        -- intros [(X & [HX|HX])|Hp]; [left; inversion HX; reflexivity|right; left; exists X; exact HX|right; right; exact Hp].
      * intros ts. rewrite in_app_iff, (I2 ts). split.
        -- intros [Hl|[(X & r & HX & Hin)|Hp]]; [left; exists (leaves (GM l')), a; split; [left; reflexivity|exact Hl]|left; exists X, r; split; [right; exact HX|exact Hin]|right; exact Hp].
        -- intros [(X & r & [HX|HX] & Hin)|Hp]; [left; inversion HX; subst X r; exact Hin|right; left; exists X, r; auto|right; right; exact Hp].
      * intros X r [HX|Hin].
        -- inversion HX; subst X r. exists l'. split; [left; reflexivity|auto].
        -- destruct (I3 X r Hin) as (l0 & Hl0 & E & Hg). exists l0. split; [right; exact Hl0|auto].
Qed.
Lemma mapM_err : forall l e, mapM geval l = Err e -> exists c, In c l /\ geval c = Err e.
Proof.
  induction l as [|c rest IH]; intros e H; cbn [mapM] in H; [discriminate|].
  destruct (geval c) as [a|e0|] eqn:Ec; cbn [bind] in H; try discriminate.
  - destruct (mapM geval rest) as [tr|e1|] eqn:Er; cbn [bind] in H; try discriminate. inversion H; subst e1.
    destruct (IH e eq_refl) as (c0 & Hc0 & H0). exists c0. split; [right; exact Hc0|exact H0].
  - inversion H; subst e0. exists c. split; [left; reflexivity|exact Ec].
Qed.
Lemma mapM_fuel : forall l, mapM geval l = OutOfFuel -> exists c, In c l /\ geval c = OutOfFuel.
Proof.
  induction l as [|c rest IH]; intros H; cbn [mapM] in H; [discriminate|].
  destruct (geval c) as [a|e0|] eqn:Ec; cbn [bind] in H; try discriminate.
  - destruct (mapM geval rest) as [tr|e1|] eqn:Er; cbn [bind] in H; try discriminate.
    destruct (IH eq_refl) as (c0 & Hc0 & H0). exists c0. split; [right; exact Hc0|exact H0].
  - exists c. split; [left; reflexivity|exact Ec].
Qed.

(* what holds of a merge node whose flat tuple meets the side condition *)
Definition node_ok (l : list gexp) : Prop :=
  all_WFh (flat_map leaves l) -> nofinal (type_list (flat_map leaves l)) -> side_cond (type_list (flat_map leaves l)) ->
  match geval (GM l) with
  | Ok r => describes (type_list (flat_map leaves l)) r /\ sup_sound (type_list (flat_map leaves l)) r /\ exists ts, merge (flat_map leaves l) = Ok ts
  | Err e => e = EValue /\ forall ts, merge (flat_map leaves l) <> Ok ts
  | OutOfFuel => False
  end.
Definition gP (e : gexp) : Prop := match e with GIn _ => True | GM l => node_ok l end.

Lemma all_nodes_ok : forall e, gP e.
Proof.
  apply gexp_ind'; [intros ts; exact I|]. intros l HF. cbn [gP]. unfold node_ok. intros HW NF SC.
  set (S := flat_map leaves l) in *. rewrite Forall_forall in HF.
  (* a sub-merge sees a sub-tuple: the premises restrict *)
  assert (Hsub : forall l', In (GM l') l -> (forall ts, In ts (flat_map leaves l') -> In ts S) /\
            all_WFh (flat_map leaves l') /\ nofinal (type_list (flat_map leaves l')) /\ side_cond (type_list (flat_map leaves l'))).
  { intros l' Hl'. assert (HXZ : forall ts, In ts (flat_map leaves l') -> In ts S).
    { intros ts Hts. unfold S. apply in_flat_map. exists (GM l'). split; [exact Hl'|exact Hts]. }
    split; [exact HXZ|]. split; [apply (HWX _ S HXZ HW)|]. split; [apply (restrict_nofinal _ S HXZ NF)|apply (restrict_side_cond _ S HXZ SC)]. }
  assert (Hchild : forall l', In (GM l') l -> match geval (GM l') with
            | Ok r => describes (type_list (flat_map leaves l')) r /\ sup_sound (type_list (flat_map leaves l')) r /\ exists ts, merge (flat_map leaves l') = Ok ts
            | Err e => e = EValue /\ forall ts, merge (flat_map leaves l') <> Ok ts
            | OutOfFuel => False end).
  { intros l' Hl'. destruct (Hsub l' Hl') as (_ & H1 & H2 & H3). apply (HF (GM l') Hl' H1 H2 H3). }
  cbn [geval]. destruct (mapM geval l) as [tss|e|] eqn:EM; cbn [bind].
  - destruct (mapM_groups l tss EM) as (HZ1 & HZ & HGsrc).
    assert (HG : forall X r, In (X, r) (groups l tss) -> describes (type_list X) r /\ sup_sound (type_list X) r).
    { intros X r Hin. destruct (HGsrc X r Hin) as (l' & Hl' & -> & Hg). pose proof (Hchild l' Hl') as Hc. rewrite Hg in Hc.
      destruct Hc as (D & SS & _). split; assumption. }
    pose proof (rg_HWZ1 (groups l tss) (plains l) tss S HZ1 HZ HW HG) as HW1.
    destruct (merge tss) as [ts1|e1|] eqn:E1.
    + destruct (rg_describes_flat (groups l tss) (plains l) tss S HZ1 HZ HW HG ts1 E1) as [D SS]. split; [exact D|]. split; [exact SS|].
      apply (rg_backward (groups l tss) (plains l) tss S HZ1 HZ HW HG ts1 NF SC E1).
    + split; [apply (merge_error_is_value tss e1 HW1 E1)|]. intros ts E2.
      destruct (rg_forward (groups l tss) (plains l) tss S HZ1 HZ HW HG NF SC (ex_intro _ ts E2)) as (ts1 & Hts1). congruence.
    + apply (merge_terminates tss HW1 E1).
  - destruct (mapM_err l e EM) as (c & Hc & Hg). destruct c as [a|l']; [discriminate|].
    pose proof (Hchild l' Hc) as Hch. rewrite Hg in Hch. destruct Hch as [-> Hnever]. split; [reflexivity|]. intros ts E2.
    destruct (Hsub l' Hc) as (HXZ & H1 & H2 & H3).
    destruct (proj1 (merge_success_iff S HW NF SC) (ex_intro _ ts E2)) as [MH HA].
    destruct (merge_succeeds (flat_map leaves l') H1 H2 H3 (restrict_mergeable _ S HXZ HW SC MH) (restrict_AG _ S HXZ HA)) as (r & Hr).
    apply (Hnever r Hr).
  - destruct (mapM_fuel l EM) as (c & Hc & Hg). destruct c as [a|l']; [discriminate|].
    pose proof (Hchild l' Hc) as Hch. rewrite Hg in Hch. exact Hch.
Qed.

(* GROUPING, in general: under the side condition of the flat tuple of its inputs, any nesting of merges has the same
   outcome as the merge of all the inputs at once *)
Theorem merge_any_grouping l : all_WFh (flat_map leaves l) -> nofinal (type_list (flat_map leaves l)) -> side_cond (type_list (flat_map leaves l)) ->
  same_outcome (geval (GM l)) (merge (flat_map leaves l)).
Proof.
  intros HW NF SC. pose proof (all_nodes_ok (GM l) HW NF SC) as H. unfold same_outcome.
  destruct (geval (GM l)) as [r|e|].
  - destruct H as (D & _ & ts & Hts). rewrite Hts.
    apply (describes_equiv _ _ r ts (same_static_refl _) (type_list_has_supers _ HW) (type_list_has_supers _ HW) D (merge_describes _ _ HW Hts)).
  - destruct H as [-> Hnever]. destruct (merge (flat_map leaves l)) as [ts|e2|] eqn:E2.
    + exfalso. apply (Hnever ts eq_refl).
    + split; [reflexivity|apply (merge_error_is_value _ e2 HW E2)].
    + apply (merge_terminates _ HW E2).
  - exact H.
Qed.

(* ORDER AND GROUPING together: any nesting of merges over inputs whose flat tuple meets the side condition has the same
   outcome as the flat merge of any tuple with the same declarations (a permutation of the inputs in particular) *)
Theorem merge_any_order_and_grouping l inputs' : all_WFh (flat_map leaves l) -> all_WFh inputs' ->
  nofinal (type_list (flat_map leaves l)) -> side_cond (type_list (flat_map leaves l)) ->
  same_static (type_list (flat_map leaves l)) (type_list inputs') ->
  same_outcome (geval (GM l)) (merge inputs').
Proof.
  intros HW HW' NF SC HS. set (S := flat_map leaves l) in *. set (L := type_list S) in *. set (L' := type_list inputs') in *.
  pose proof (ss_nofinal L L' (proj1 HS) NF) as NF'. pose proof (ss_side_cond L L' (proj1 HS) SC) as SC'. pose proof (same_static_sym _ _ HS) as HS'.
  pose proof (all_nodes_ok (GM l) HW NF SC) as H. unfold same_outcome. destruct (geval (GM l)) as [r|e|].
  - destruct H as (D & _ & ts & Hts). destruct (proj1 (merge_success_iff S HW NF SC) (ex_intro _ ts Hts)) as [MH HA].
    destruct (merge_succeeds inputs' HW' NF' SC' (ss_mergeable L L' (proj1 HS) MH) (ss_AG L L' HS HA)) as (ts' & Hts'). rewrite Hts'.
    apply (describes_equiv L L' r ts' HS (type_list_has_supers _ HW) (type_list_has_supers _ HW') D (merge_describes _ _ HW' Hts')).
  - destruct H as [-> Hnever]. destruct (merge inputs') as [ts'|e2|] eqn:E2.
    + exfalso. destruct (proj1 (merge_success_iff inputs' HW' NF' SC') (ex_intro _ ts' E2)) as [MH HA].
      destruct (merge_succeeds S HW NF SC (ss_mergeable L' L (proj1 HS') MH) (ss_AG L' L HS' HA)) as (ts & Hts). apply (Hnever ts Hts).
    + split; [reflexivity|apply (merge_error_is_value _ e2 HW' E2)].
    + apply (merge_terminates _ HW' E2).
  - exact H.
Qed.
