(* Schema.v — the flattened, query-oriented view of a type system that the heap-level models need:
   per type its ancestor chain and its effective features (Type.all_features) with range, element type and
   the truthiness of multipleReferencesAllowed; plus the fixed name sets of cassis/typesystem.py.
   That a TypeSystem really answers like its schema (all_features = own + ancestors', is_instance_of = ancestor
   membership) is C10/C11; here it is data. Definitions only. *)
From Cassis Require Import Base.

Record fdecl := mkFd {
  fd_name : fname;          (* python attribute name: "self_" / "type_" for the reserved names *)
  fd_xname : fname;         (* name in documents: "self" / "type" *)
  fd_range : tname;
  fd_elem : option tname;
  fd_multi : bool }.        (* bool(feature.multipleReferencesAllowed) *)
Record tinfo := mkTi {
  ti_name : tname;
  ti_anc : list tname;      (* the type itself, its supertype, ..., uima.cas.TOP *)
  ti_feats : list fdecl }.  (* Type.all_features, in that order *)
Definition schema := list tinfo.

Fixpoint sch_find (s : schema) (n : tname) : option tinfo :=
  match s with [] => None | t :: r => if String.eqb n (ti_name t) then Some t else sch_find r n end.
Definition sch_anc (s : schema) (n : tname) : list tname :=
  match sch_find s n with Some t => ti_anc t | None => [] end.
Definition sch_feats (s : schema) (n : tname) : list fdecl :=
  match sch_find s n with Some t => ti_feats t | None => [] end.
(* TypeSystem.is_instance_of(n, m) / subsumes(m, n) *)
Definition isa (s : schema) (n m : tname) : bool := memb m (sch_anc s n).
Fixpoint fd_find (l : list fdecl) (n : fname) : option fdecl :=
  match l with [] => None | f :: r => if String.eqb n (fd_name f) then Some f else fd_find r n end.

Definition T_TOP := "uima.cas.TOP".
Definition T_ANNOTATION := "uima.tcas.Annotation".
Definition T_ANNOTATION_BASE := "uima.cas.AnnotationBase".
Definition T_SOFA := "uima.cas.Sofa".
Definition T_FS_ARRAY := "uima.cas.FSArray".
Definition T_FS_LIST := "uima.cas.FSList".
Definition T_STRING := "uima.cas.String".
Definition T_STRING_ARRAY := "uima.cas.StringArray".
Definition T_STRING_LIST := "uima.cas.StringList".
Definition T_ARRAY_BASE := "uima.cas.ArrayBase".

Definition prim_names : list tname :=
  ["uima.cas.Boolean"; "uima.cas.Byte"; "uima.cas.Short"; "uima.cas.Integer"; "uima.cas.Long";
   "uima.cas.Float"; "uima.cas.Double"; "uima.cas.String"].
Definition prim_array_names : list tname :=
  ["uima.cas.FloatArray"; "uima.cas.IntegerArray"; "uima.cas.BooleanArray"; "uima.cas.ByteArray";
   "uima.cas.ShortArray"; "uima.cas.LongArray"; "uima.cas.DoubleArray"; "uima.cas.StringArray"].
Definition prim_list_names : list tname := ["uima.cas.IntegerList"; "uima.cas.FloatList"; "uima.cas.StringList"].
Definition is_prim_name (n : tname) : bool := memb n prim_names.
Definition is_prim_array_name (n : tname) : bool := memb n prim_array_names.
Definition is_prim_list_name (n : tname) : bool := memb n prim_list_names.
Definition is_array_name (n : tname) : bool := is_prim_array_name n || String.eqb n T_FS_ARRAY.
Definition is_list_name (n : tname) : bool := is_prim_list_name n || String.eqb n T_FS_LIST.

(* TypeSystem.is_primitive: the name or one of its ancestors is a primitive name *)
Definition is_primitive (s : schema) (n : tname) : bool :=
  is_prim_name n || existsb is_prim_name (sch_anc s n).
(* the primitive ancestor of a range (xmi.py _parse_primitive_value after 111b9aa) *)
Definition prim_of (s : schema) (n : tname) : option tname :=
  if is_prim_name n then Some n else find is_prim_name (sch_anc s n).
