(* IdsProofs.v — invariants of the id / sofaNum bookkeeping modelled in Ids.v, for all histories and all traversal
   orders.  Property-level theorems are re-exported by Props/C09.v. *)
From Cassis Require Import Base Ids.
From Coq Require Import ZifyBool.
Open Scope Z_scope.

(* ------------------------------------------------------------------ small list facts *)

Lemma memz_In x l : memz x l = true <-> In x l.
Proof.
  induction l as [|y r IH]; cbn [memz In]; [split; [discriminate|contradiction]|].
  rewrite orb_true_iff, IH, Z.eqb_eq. tauto.
Qed.

Lemma memz_false x l : memz x l = false <-> ~ In x l.
Proof. rewrite <- memz_In. destruct (memz x l); split; congruence. Qed.

Lemma znodupb_NoDup l : znodupb l = true <-> NoDup l.
Proof.
  induction l as [|x r IH]; cbn [znodupb].
  - split; [constructor|reflexivity].
  - rewrite andb_true_iff, negb_true_iff, memz_false, IH. split.
    + intros [H1 H2]. constructor; assumption.
    + intros H. inversion H; subst. split; assumption.
Qed.

Lemma NoDup_app_drop {A} (a b c : list A) : NoDup (a ++ b ++ c) -> NoDup (a ++ c).
Proof.
  induction a as [|x a IH]; cbn [app].
  - induction b as [|y b IHb]; cbn [app]; [tauto|]. intros H. inversion H; subst. auto.
  - intros H. inversion H as [|? ? Hn Hd]; subst. constructor; [|auto].
    intro Hin. apply Hn. rewrite !in_app_iff in *. tauto.
Qed.

Lemma NoDup_app_mid {A} (a c : list A) (n : A) : NoDup (a ++ c) -> ~ In n (a ++ c) -> NoDup (a ++ [n] ++ c).
Proof.
  intros Hd Hn. apply (Permutation_NoDup (l := n :: a ++ c)).
  - cbn [app]. apply Permutation_middle.
  - constructor; assumption.
Qed.

Lemma NoDup_app_r {A} (a b : list A) : NoDup (a ++ b) -> NoDup b.
Proof. induction a; cbn [app]; [tauto|]. intros H; inversion H; auto. Qed.

Lemma NoDup_app_l {A} (a b : list A) : NoDup (a ++ b) -> NoDup a.
Proof. intros H. rewrite <- (app_nil_r a). apply (NoDup_app_drop a b []). rewrite app_nil_r. exact H. Qed.

Lemma NoDup_app_disj {A} (a b : list A) x : NoDup (a ++ b) -> In x a -> In x b -> False.
Proof.
  induction a as [|y a IH]; cbn [app In]; [tauto|].
  intros H [->|Ha] Hb; inversion H; subst.
  - apply H2. apply in_or_app. tauto.
  - eauto.
Qed.

Lemma NoDup_app_intro {A} (a b : list A) :
  NoDup a -> NoDup b -> (forall x, In x a -> In x b -> False) -> NoDup (a ++ b).
Proof.
  induction a as [|y a IH]; cbn [app]; [tauto|]. intros Ha Hb Hd. inversion Ha as [|? ? Hy Ha']; subst.
  constructor.
  - rewrite in_app_iff. intros [H|H]; [tauto|]. apply (Hd y); cbn; auto.
  - apply IH; auto. intros x Hx1 Hx2. apply (Hd x); cbn; auto.
Qed.

Lemma Forall_lt_mono (a b : Z) l : a <= b -> Forall (fun i => i < a) l -> Forall (fun i => i < b) l.
Proof. intros Hab H. eapply Forall_impl; [|exact H]. cbn. intros; lia. Qed.

Lemma Forall_lt_notin (n : Z) l : Forall (fun i => i < n) l -> ~ In n l.
Proof. intros H Hin. rewrite Forall_forall in H. apply H in Hin. lia. Qed.

Lemma zmax_list_ge x l : In x l -> x <= zmax_list l.
Proof.
  unfold zmax_list. induction l as [|y r IH]; cbn [In fold_right]; [contradiction|].
  intros [->|H]; [lia|]. apply IH in H. lia.
Qed.

Lemma filter_perm {A} (p : A -> bool) l : Permutation (filter p l ++ filter (fun x => negb (p x)) l) l.
Proof.
  induction l as [|x r IH]; cbn [filter]; [constructor|].
  destruct (p x); cbn [negb app].
  - constructor. exact IH.
  - apply Permutation_sym. apply Permutation_cons_app. apply Permutation_sym. exact IH.
Qed.

Lemma filter_nil_forallb {A} (p : A -> bool) l : filter p l = [] -> forallb (fun x => negb (p x)) l = true.
Proof.
  induction l as [|x r IH]; cbn [filter forallb]; [reflexivity|].
  destruct (p x); [discriminate|]. cbn. exact IH.
Qed.

Lemma forallb_neg_filter {A} (p : A -> bool) l :
  forallb (fun x => negb (p x)) l = true -> filter p l = [] /\ filter (fun x => negb (p x)) l = l.
Proof.
  induction l as [|x r IH]; cbn [filter forallb]; [split; reflexivity|].
  rewrite andb_true_iff. intros [Hx Hr]. destruct (p x); [discriminate|]. cbn [negb].
  destruct (IH Hr) as [-> ->]. split; reflexivity.
Qed.

Lemma forallb_filter_self {A} (p : A -> bool) l : forallb p (filter p l) = true.
Proof. induction l as [|x r IH]; cbn [filter]; [reflexivity|]. destruct (p x) eqn:E; cbn [forallb]; [rewrite E|]; auto. Qed.

(* ------------------------------------------------------------------ the FS table *)

Lemma fget_split l m f :
  fget l m = Some f -> exists a b, m = a ++ (l, f) :: b /\ forall g, fupd l g m = a ++ (l, g) :: b.
Proof.
  induction m as [|[k h] r IH]; cbn [fget fupd]; [discriminate|].
  destruct (k =? l) eqn:E.
  - intros [= ->]. apply Z.eqb_eq in E. subst k. exists [], r. split; [reflexivity|]. intros g. reflexivity.
  - intros H. destruct (IH H) as (a & b & -> & Hu). exists ((k, h) :: a), b. split; [reflexivity|].
    intros g. rewrite Hu. reflexivity.
Qed.

Lemma fget_fupd_same l m f g : fget l m = Some f -> fget l (fupd l g m) = Some g.
Proof.
  induction m as [|[k h] r IH]; cbn [fget fupd]; [discriminate|].
  destruct (k =? l) eqn:E; cbn [fget]; rewrite E; auto.
Qed.

Lemma fget_fupd_other l l' m g : l' <> l -> fget l' (fupd l g m) = fget l' m.
Proof.
  intros Hne. induction m as [|[k h] r IH]; cbn [fget fupd]; [reflexivity|].
  destruct (k =? l) eqn:E; cbn [fget].
  - apply Z.eqb_eq in E. subst k. destruct (l =? l') eqn:E2; [lia|reflexivity].
  - destruct (k =? l'); [reflexivity|exact IH].
Qed.

Lemma fget_fupd l l' m f g :
  fget l m = Some f -> fget l' (fupd l g m) = if l' =? l then Some g else fget l' m.
Proof.
  intros H. destruct (l' =? l) eqn:E.
  - apply Z.eqb_eq in E. subst. eapply fget_fupd_same; eauto.
  - apply fget_fupd_other. lia.
Qed.

Lemma proj_app c a b : proj c (a ++ b) = proj c a ++ proj c b.
Proof. unfold proj. apply flat_map_app. Qed.

Lemma proj_mid c a l f b : proj c (a ++ (l, f) :: b) = proj c a ++ c f ++ proj c b.
Proof. rewrite proj_app. reflexivity. Qed.

Lemma fget_in_proj c l m f x : fget l m = Some f -> In x (c f) -> In x (proj c m).
Proof.
  intros H Hx. destruct (fget_split _ _ _ H) as (a & b & -> & _). rewrite proj_mid, !in_app_iff. tauto.
Qed.

Lemma proj_incl (c1 c2 : fsr -> list Z) m x :
  (forall f, incl (c1 f) (c2 f)) -> In x (proj c1 m) -> In x (proj c2 m).
Proof.
  intros Hc. unfold proj. rewrite !in_flat_map. intros (p & Hp & Hx). exists p. split; [exact Hp|]. apply Hc, Hx.
Qed.

Lemma gen_low f : incl (gen_ids f) (low_ids f).
Proof. unfold gen_ids, low_ids. destruct (f_prov f), (f_id f); intros x H; cbn in *; tauto. Qed.

Lemma low_any f : incl (low_ids f) (any_ids f).
Proof. unfold any_ids, low_ids. destruct (f_prov f), (f_id f); intros x H; cbn in *; tauto. Qed.

Lemma tracked_low s x : In x (tracked s) -> In x (lowids s).
Proof. apply proj_incl, gen_low. Qed.

(* ------------------------------------------------------------------ invariants *)

Definition init_first (l : list sofa) : Prop :=
  match l with i :: r => is_init i = true /\ forallb (fun x => negb (is_init x)) r = true | [] => False end.

(* holds after every history, whatever ids are forced from outside *)
Record InvB (s : st) : Prop := mkInvB {
  b_sid : Forall (fun i => i < next_id s) (sids s);
  b_low : Forall (fun i => i < next_id s) (lowids s);
  b_num : Forall (fun n => n < next_num s) (snums s);
  b_nds : NoDup (sids s);
  b_ndn : NoDup (snums s);
  b_init : init_first (sofas s) }.

(* additionally: sofa ids and generated / loaded FS ids are pairwise distinct *)
Definition Inv (s : st) : Prop := InvB s /\ NoDup (sids s ++ tracked s).

Lemma fresh_notin s : InvB s -> ~ In (next_id s) (sids s ++ lowids s).
Proof.
  intros H. rewrite in_app_iff. intros [Hx|Hx].
  - apply (Forall_lt_notin _ _ (b_sid _ H) Hx).
  - apply (Forall_lt_notin _ _ (b_low _ H) Hx).
Qed.

Lemma fresh_notin_tracked s : InvB s -> ~ In (next_id s) (sids s ++ tracked s).
Proof.
  intros H Hin. apply (fresh_notin s H). rewrite in_app_iff in *. destruct Hin; [tauto|]. right. apply tracked_low; assumption.
Qed.

(* replacing the record of one label *)
Lemma upd_InvB s l f g n' :
  InvB s -> fget l (fss s) = Some f -> next_id s <= n' -> Forall (fun i => i < n') (low_ids g) ->
  InvB (mkSt n' (next_num s) (sofas s) (fupd l g (fss s))).
Proof.
  intros H Hf Hn Hg. destruct (fget_split _ _ _ Hf) as (a & b & Hm & Hu).
  constructor; cbn [next_id next_num sofas fss]; unfold sids, snums, lowids; cbn [sofas fss].
  - eapply Forall_lt_mono; [exact Hn|]. apply (b_sid _ H).
  - rewrite Hu, proj_mid. pose proof (b_low _ H) as HL. unfold lowids in HL. rewrite Hm, proj_mid in HL.
    rewrite !Forall_app in *. destruct HL as (H1 & _ & H3).
    repeat split; try assumption; eapply Forall_lt_mono; eauto.
  - apply (b_num _ H).
  - apply (b_nds _ H).
  - apply (b_ndn _ H).
  - apply (b_init _ H).
Qed.

Lemma upd_nd s l f g :
  NoDup (sids s ++ tracked s) -> fget l (fss s) = Some f ->
  (gen_ids g = [] \/ gen_ids g = gen_ids f \/ exists n, gen_ids g = [n] /\ ~ In n (sids s ++ tracked s)) ->
  NoDup (sids s ++ proj gen_ids (fupd l g (fss s))).
Proof.
  intros H Hf Hg. destruct (fget_split _ _ _ Hf) as (a & b & Hm & Hu).
  unfold tracked in *. rewrite Hu, proj_mid. rewrite Hm, proj_mid in H. rewrite Hm, proj_mid in Hg.
  assert (Hdrop : NoDup ((sids s ++ proj gen_ids a) ++ proj gen_ids b)).
  { apply (NoDup_app_drop _ (gen_ids f)). rewrite <- app_assoc. exact H. }
  destruct Hg as [-> | [-> | (n & -> & Hn)]].
  - cbn [app]. rewrite app_assoc. exact Hdrop.
  - exact H.
  - rewrite app_assoc. apply NoDup_app_mid; [exact Hdrop|].
    intro Hin. apply Hn. rewrite !in_app_iff in *. tauto.
Qed.

Lemma Inv_upd s l f g n' :
  Inv s -> fget l (fss s) = Some f -> next_id s <= n' -> Forall (fun i => i < n') (low_ids g) ->
  (gen_ids g = [] \/ gen_ids g = gen_ids f \/ gen_ids g = [next_id s]) ->
  Inv (mkSt n' (next_num s) (sofas s) (fupd l g (fss s))).
Proof.
  intros [HB HN] Hf Hn Hg Hc. split.
  - eapply upd_InvB; eauto.
  - unfold tracked, sids. cbn [sofas fss]. eapply upd_nd; eauto.
    destruct Hc as [Hc|[Hc|Hc]]; auto. right; right. exists (next_id s). split; [exact Hc|].
    apply fresh_notin_tracked, HB.
Qed.

(* ------------------------------------------------------------------ single operations *)

Lemma InvB_new l s : InvB s -> InvB (new_fs l s).
Proof.
  intros H. unfold new_fs. destruct (fget l (fss s)); [exact H|].
  destruct H. constructor; unfold sids, snums, lowids, set_fss in *; cbn [next_id next_num sofas fss]; auto.
  rewrite proj_app. cbn. rewrite app_nil_r. assumption.
Qed.

Lemma Inv_new l s : Inv s -> Inv (new_fs l s).
Proof.
  intros [HB HN]. split; [apply InvB_new, HB|].
  unfold new_fs. destruct (fget l (fss s)); [exact HN|].
  unfold tracked, sids, set_fss in *. cbn [sofas fss]. rewrite proj_app. cbn. rewrite app_nil_r. exact HN.
Qed.

Lemma reserve_ge i n : n <= reserve i n /\ i < reserve i n.
Proof. unfold reserve. destruct (n <=? i) eqn:E; lia. Qed.

Lemma low_ids_lt f n i : f_id f = Some i -> i < n -> Forall (fun x => x < n) (low_ids f).
Proof. intros Hi Hn. unfold low_ids. rewrite Hi. destruct (f_prov f); repeat constructor; assumption. Qed.

Lemma assign_Inv l f idx s : Inv s -> fget l (fss s) = Some f -> Inv (assign l f idx s).
Proof.
  intros H Hf. unfold assign. eapply Inv_upd; [exact H|exact Hf|lia| |].
  - unfold low_ids. cbn. repeat constructor. lia.
  - right; right. reflexivity.
Qed.

Lemma assign_InvB l f idx s : InvB s -> fget l (fss s) = Some f -> InvB (assign l f idx s).
Proof.
  intros H Hf. unfold assign. eapply upd_InvB; [exact H|exact Hf|lia|].
  unfold low_ids. cbn. repeat constructor. lia.
Qed.

Lemma InvB_add l keep s : InvB s -> InvB (add l keep s).
Proof.
  intros H. unfold add. destruct (fget l (fss s)) as [f|] eqn:Hf; [|exact H].
  destruct (if keep then f_id f else None) as [i|] eqn:Hk.
  - destruct (reserve_ge i (next_id s)). eapply upd_InvB; [exact H|exact Hf|assumption|].
    eapply low_ids_lt; [reflexivity|]. assumption.
  - apply assign_InvB; assumption.
Qed.

Lemma Inv_add l keep s : Inv s -> Inv (add l keep s).
Proof.
  intros H. unfold add. destruct (fget l (fss s)) as [f|] eqn:Hf; [|exact H].
  destruct (if keep then f_id f else None) as [i|] eqn:Hk.
  - destruct (reserve_ge i (next_id s)). eapply Inv_upd; [exact H|exact Hf|assumption| |].
    + eapply low_ids_lt; [reflexivity|]. assumption.
    + destruct keep; [|discriminate]. unfold gen_ids, keep_prov. cbn [f_prov f_id]. rewrite Hk.
      destruct (f_prov f); auto.
  - apply assign_Inv; assumption.
Qed.

Lemma InvB_add_all ls : forall s, InvB s -> InvB (fold_left (fun s' l => add l true s') ls s).
Proof. induction ls as [|l r IH]; cbn [fold_left]; intros s H; [exact H|]. apply IH, InvB_add, H. Qed.

Lemma Inv_add_all ls : forall s, Inv s -> Inv (fold_left (fun s' l => add l true s') ls s).
Proof. induction ls as [|l r IH]; cbn [fold_left]; intros s H; [exact H|]. apply IH, Inv_add, H. Qed.

Lemma InvB_link p c s : InvB s -> InvB (link p c s).
Proof.
  intros H. unfold link. destruct (fget p (fss s)) as [f|] eqn:Hf; [|exact H].
  destruct (fget c (fss s)); [|exact H]. unfold set_fss.
  eapply upd_InvB; [exact H|exact Hf|lia|].
  pose proof (b_low _ H) as HL. rewrite Forall_forall in *. intros x Hx. apply HL.
  unfold lowids. eapply fget_in_proj; [exact Hf|]. exact Hx.
Qed.

Lemma Inv_link p c s : Inv s -> Inv (link p c s).
Proof.
  intros H. split; [apply InvB_link, H|]. destruct H as [HB HN].
  unfold link. destruct (fget p (fss s)) as [f|] eqn:Hf; [|exact HN].
  destruct (fget c (fss s)); [|exact HN]. unfold set_fss, tracked, sids. cbn [sofas fss].
  eapply upd_nd; [exact HN|exact Hf|]. right; left. reflexivity.
Qed.

Lemma InvB_force l k s : InvB s -> InvB (force l k s).
Proof.
  intros H. unfold force. destruct (fget l (fss s)) as [f|] eqn:Hf; [|exact H]. unfold set_fss.
  eapply upd_InvB; [exact H|exact Hf|lia|]. unfold low_ids. cbn. constructor.
Qed.

Lemma Inv_force l k s : Inv s -> Inv (force l k s).
Proof.
  intros H. split; [apply InvB_force, H|]. destruct H as [HB HN].
  unfold force. destruct (fget l (fss s)) as [f|] eqn:Hf; [|exact HN]. unfold set_fss, tracked, sids. cbn [sofas fss].
  eapply upd_nd; [exact HN|exact Hf|]. left. reflexivity.
Qed.

Lemma existsb_name_false name l :
  existsb (fun x => String.eqb (s_name x) name) l = false -> forall x, In x l -> s_name x <> name.
Proof.
  intros H x Hx Heq. assert (existsb (fun x => String.eqb (s_name x) name) l = true); [|congruence].
  apply existsb_exists. exists x. split; [exact Hx|]. apply String.eqb_eq, Heq.
Qed.

Lemma NoDup_snoc {A} (l : list A) x : NoDup l -> ~ In x l -> NoDup (l ++ [x]).
Proof.
  intros Hd Hn. apply (Permutation_NoDup (l := x :: l)); [|constructor; assumption].
  apply Permutation_cons_append.
Qed.

Lemma InvB_create_view name s : InvB s -> InvB (fst (create_view name s)).
Proof.
  intros H. unfold create_view.
  destruct (existsb (fun x => String.eqb (s_name x) name) (sofas s)) eqn:E; cbn [fst]; [exact H|].
  destruct H as [H1 H2 H3 H4 H5 H6].
  constructor; unfold sids, snums, lowids in *; cbn [next_id next_num sofas fss].
  - rewrite map_app, Forall_app. split; [eapply Forall_lt_mono; [|exact H1]; lia|]. cbn. repeat constructor. lia.
  - eapply Forall_lt_mono; [|exact H2]. lia.
  - rewrite map_app, Forall_app. split; [eapply Forall_lt_mono; [|exact H3]; lia|]. cbn. repeat constructor. lia.
  - rewrite map_app. cbn [map s_id]. apply NoDup_snoc; [exact H4|]. apply Forall_lt_notin, H1.
  - rewrite map_app. cbn [map s_num]. apply NoDup_snoc; [exact H5|]. apply Forall_lt_notin, H3.
  - destruct (sofas s) as [|i r] eqn:Es; [contradiction|]. cbn [app init_first] in *. destruct H6 as [Hi Hr].
    split; [exact Hi|]. rewrite forallb_app, Hr. cbn [forallb andb]. unfold is_init at 1. cbn [s_name].
    unfold is_init in Hi. apply String.eqb_eq in Hi.
    pose proof (existsb_name_false _ _ E i (or_introl eq_refl)) as Hne.
    destruct (String.eqb name init_name) eqn:E2; [|reflexivity].
    apply String.eqb_eq in E2. congruence.
Qed.

Lemma Inv_create_view name s : Inv s -> Inv (fst (create_view name s)).
Proof.
  intros H. split; [apply InvB_create_view, H|]. destruct H as [HB HN].
  unfold create_view.
  destruct (existsb (fun x => String.eqb (s_name x) name) (sofas s)) eqn:E; cbn [fst]; [exact HN|].
  unfold sids, tracked in *. cbn [sofas fss]. rewrite map_app. cbn [map s_id]. rewrite <- app_assoc.
  apply NoDup_app_mid; [exact HN|]. apply (fresh_notin_tracked s HB).
Qed.

(* create_view(name, xmiID=, sofaNum=): a value chosen by the caller is reserved, a missing one is generated *)
Lemma pick_bump o n : n <= bump o n /\ pick o n < bump o n.
Proof. destruct o as [k|]; cbn [pick bump]; [apply reserve_ge|lia]. Qed.

Lemma pick_notin o n l : Forall (fun i => i < n) l -> optmem o l = false -> ~ In (pick o n) l.
Proof.
  intros H Hm. destruct o as [k|]; cbn [pick optmem] in *; [apply memz_false, Hm|apply Forall_lt_notin, H].
Qed.

Lemma InvB_create_view_at name xid num s :
  InvB s -> view_okb s (OpCreateViewAt name xid num) = true -> InvB (fst (create_view_at name xid num s)).
Proof.
  intros H Hok. cbn [view_okb] in Hok. apply andb_true_iff in Hok. destruct Hok as [Hx Hn].
  apply negb_true_iff in Hx. apply negb_true_iff in Hn. unfold create_view_at.
  destruct (existsb (fun x => String.eqb (s_name x) name) (sofas s)) eqn:E; cbn [fst]; [exact H|].
  destruct (pick_bump xid (next_id s)) as [Hi1 Hi2]. destruct (pick_bump num (next_num s)) as [Hn1 Hn2].
  destruct H as [H1 H2 H3 H4 H5 H6].
  constructor; unfold sids, snums, lowids in *; cbn [next_id next_num sofas fss].
  - rewrite map_app, Forall_app. split; [eapply Forall_lt_mono; [|exact H1]; lia|]. cbn [map s_id]. repeat constructor. exact Hi2.
  - eapply Forall_lt_mono; [|exact H2]. lia.
  - rewrite map_app, Forall_app. split; [eapply Forall_lt_mono; [|exact H3]; lia|]. cbn [map s_num]. repeat constructor. exact Hn2.
  - rewrite map_app. cbn [map s_id]. apply NoDup_snoc; [exact H4|]. apply pick_notin; assumption.
  - rewrite map_app. cbn [map s_num]. apply NoDup_snoc; [exact H5|]. apply pick_notin; assumption.
  - destruct (sofas s) as [|i r] eqn:Es; [contradiction|]. cbn [app init_first] in *. destruct H6 as [Hi Hr].
    split; [exact Hi|]. rewrite forallb_app, Hr. cbn [forallb andb]. unfold is_init at 1. cbn [s_name].
    unfold is_init in Hi. apply String.eqb_eq in Hi.
    pose proof (existsb_name_false _ _ E i (or_introl eq_refl)) as Hne.
    destruct (String.eqb name init_name) eqn:E2; [|reflexivity].
    apply String.eqb_eq in E2. congruence.
Qed.

Lemma Inv_create_view_at name xid num s :
  Inv s -> op_okb s (OpCreateViewAt name xid num) = true -> Inv (fst (create_view_at name xid num s)).
Proof.
  intros H Hok. cbn [op_okb] in Hok. apply andb_true_iff in Hok. destruct Hok as [Hv Ht].
  split; [apply InvB_create_view_at; [apply H|exact Hv]|]. destruct H as [HB HN].
  cbn [view_okb] in Hv. apply andb_true_iff in Hv. destruct Hv as [Hx _].
  apply negb_true_iff in Hx. apply negb_true_iff in Ht. unfold create_view_at.
  destruct (existsb (fun x => String.eqb (s_name x) name) (sofas s)) eqn:E; cbn [fst]; [exact HN|].
  unfold sids, tracked in *. cbn [sofas fss]. rewrite map_app. cbn [map s_id]. rewrite <- app_assoc.
  apply NoDup_app_mid; [exact HN|].
  destruct xid as [k|]; cbn [pick optmem] in *.
  - rewrite in_app_iff. intros [Hin|Hin]; [apply memz_false in Hx|apply memz_false in Ht]; tauto.
  - apply (fresh_notin_tracked s HB).
Qed.

(* ------------------------------------------------------------------ the traversal loop *)

Lemma zlookup_None i seen : zlookup i seen = None -> ~ In i (map fst seen).
Proof.
  induction seen as [|[k l] r IH]; cbn [zlookup map fst In]; [tauto|].
  destruct (k =? i) eqn:E; [discriminate|]. intros H [Hk|Hr]; [lia|]. exact (IH H Hr).
Qed.

Lemma zlookup_In i l seen : zlookup i seen = Some l -> In (i, l) seen.
Proof.
  induction seen as [|[k l'] r IH]; cbn [zlookup In]; [discriminate|].
  destruct (k =? i) eqn:E.
  - intros [= ->]. apply Z.eqb_eq in E. subst. left. reflexivity.
  - intros H. right. exact (IH H).
Qed.

(* every entry of the dict all_fs names an FS that carries that id *)
Definition SeenOk (s : st) (seen : list (Z * label)) : Prop :=
  NoDup (map fst seen) /\ forall i l, In (i, l) seen -> exists f, fget l (fss s) = Some f /\ f_id f = Some i.

(* what a traversal may change: FS without an id receive a generated one, nothing else *)
Record Ext (s s1 : st) : Prop := mkExt {
  e_sofas : sofas s1 = sofas s;
  e_keep : forall l f, fget l (fss s) = Some f -> f_id f <> None -> fget l (fss s1) = Some f;
  e_new : forall l f1, fget l (fss s1) = Some f1 -> fget l (fss s) = Some f1 \/ f_prov f1 = Gen;
  e_none : forall l, fget l (fss s) = None -> fget l (fss s1) = None }.

Lemma Ext_refl s : Ext s s.
Proof. constructor; auto. Qed.

Lemma Ext_trans a b c : Ext a b -> Ext b c -> Ext a c.
Proof.
  intros [A1 A2 A3 A4] [B1 B2 B3 B4]. constructor.
  - congruence.
  - intros l f H Hn. apply B2; auto.
  - intros l f1 H. destruct (B3 _ _ H) as [H'|H']; [|auto]. exact (A3 _ _ H').
  - intros l H. apply B4, A4, H.
Qed.

Lemma Ext_assign l f idx s : fget l (fss s) = Some f -> f_id f = None -> Ext s (assign l f idx s).
Proof.
  intros Hf Hn. unfold assign. constructor; cbn [sofas fss].
  - reflexivity.
  - intros l' f' H' Hid. rewrite (fget_fupd _ _ _ _ _ Hf). destruct (l' =? l) eqn:E; [|exact H'].
    apply Z.eqb_eq in E. subst. congruence.
  - intros l' f1. rewrite (fget_fupd _ _ _ _ _ Hf). destruct (l' =? l); [|auto]. intros [= <-]. right. reflexivity.
  - intros l' H'. rewrite (fget_fupd _ _ _ _ _ Hf). destruct (l' =? l) eqn:E; [|exact H'].
    apply Z.eqb_eq in E. subst. congruence.
Qed.

Lemma SeenOk_Ext s s1 seen : Ext s s1 -> SeenOk s seen -> SeenOk s1 seen.
Proof.
  intros HE [Hd Hs]. split; [exact Hd|]. intros i l Hin. destruct (Hs _ _ Hin) as (f & Hf & Hi).
  exists f. split; [|exact Hi]. apply (e_keep _ _ HE); [exact Hf|congruence].
Qed.

Section Loop.
  Variable P : st -> Prop.
  Hypothesis P_assign : forall l f idx s, P s -> fget l (fss s) = Some f -> P (assign l f idx s).

  Lemma save_loop_spec ord : forall s seen s1 r,
    save_loop ord s seen = (s1, r) -> P s -> SeenOk s seen ->
    P s1 /\ Ext s s1 /\
    forall seen1, r = Ok seen1 -> SeenOk s1 seen1 /\ forall i l, In (i, l) seen1 -> In (i, l) seen \/ In l ord.
  Proof.
    induction ord as [|a ord IH]; intros s seen s1 r Hrun HP Hseen; cbn [save_loop] in Hrun.
    - injection Hrun as <- <-. split; [exact HP|]. split; [apply Ext_refl|].
      intros seen1 [= <-]. split; [exact Hseen|]. auto.
    - assert (Hweak : forall s' seen' (HE : Ext s s'),
                (forall i l, In (i, l) seen' -> In (i, l) seen \/ In l (a :: ord)) ->
                save_loop ord s' seen' = (s1, r) -> P s' -> SeenOk s' seen' ->
                P s1 /\ Ext s s1 /\
                forall seen1, r = Ok seen1 -> SeenOk s1 seen1 /\ forall i l, In (i, l) seen1 -> In (i, l) seen \/ In l (a :: ord)).
      { intros s' seen' HE Hsub Hrun' HP' Hs'. destruct (IH _ _ _ _ Hrun' HP' Hs') as (Q1 & Q2 & Q3).
        split; [exact Q1|]. split; [eapply Ext_trans; eauto|].
        intros seen1 Hr. destruct (Q3 _ Hr) as [R1 R2]. split; [exact R1|].
        intros i l Hin. destruct (R2 _ _ Hin) as [H|H]; [apply Hsub, H|]. right. right. exact H. }
      destruct (fget a (fss s)) as [f|] eqn:Hf.
      2:{ apply (Hweak s seen (Ext_refl s)); auto. }
      destruct (f_id f) as [i|] eqn:Hi.
      + destruct (i =? 0) eqn:E0; [apply (Hweak s seen (Ext_refl s)); auto|].
        destruct (zlookup i seen) as [l'|] eqn:Hz.
        * destruct (l' =? a); [apply (Hweak s seen (Ext_refl s)); auto|].
          injection Hrun as <- <-. split; [exact HP|]. split; [apply Ext_refl|]. intros seen1 [=].
        * apply (Hweak s ((i, a) :: seen) (Ext_refl s)); auto.
          -- intros i' l' [[= <- <-]|Hin]; [right; left; reflexivity|left; exact Hin].
          -- destruct Hseen as [Hd Hs]. split.
             ++ cbn [map fst]. constructor; [apply zlookup_None, Hz|exact Hd].
             ++ intros i' l' [[= <- <-]|Hin]; [exists f; auto|apply Hs, Hin].
      + pose proof (Ext_assign a f (f_idx f) s Hf Hi) as HE.
        pose proof (P_assign a f (f_idx f) s HP Hf) as HP'.
        pose proof (SeenOk_Ext _ _ _ HE Hseen) as Hs'.
        destruct (zlookup (next_id s) seen) as [l'|] eqn:Hz.
        * destruct (l' =? a); [apply (Hweak _ seen HE); auto|].
          injection Hrun as <- <-. split; [exact HP'|]. split; [exact HE|]. intros seen1 [=].
        * apply (Hweak _ ((next_id s, a) :: seen) HE); auto.
          -- intros i' l' [[= <- <-]|Hin]; [right; left; reflexivity|left; exact Hin].
          -- destruct Hs' as [Hd Hs]. split.
             ++ cbn [map fst]. constructor; [apply zlookup_None, Hz|exact Hd].
             ++ intros i' l' [[= <- <-]|Hin]; [|apply Hs, Hin].
                unfold assign. cbn [fss]. rewrite (fget_fupd_same _ _ _ _ Hf). eexists. split; reflexivity.
  Qed.
End Loop.

Lemma SeenOk_nil s : SeenOk s [].
Proof. split; [constructor|]. intros i l []. Qed.

(* ------------------------------------------------------------------ reachable set and traversal order *)

Lemma dedup_from_In x l : forall acc, In x (dedup_from acc l) <-> In x l /\ ~ In x acc.
Proof.
  induction l as [|y r IH]; intros acc; cbn [dedup_from In]; [tauto|].
  destruct (memz y acc) eqn:E.
  - apply memz_In in E. rewrite IH. split; [tauto|]. intros [[->|H] Hn]; tauto.
  - apply memz_false in E. cbn [In]. rewrite IH. cbn [In]. split.
    + intros [->|[H Hn]]; tauto.
    + intros [[->|H] Hn]; [tauto|]. destruct (Z.eq_dec y x); [tauto|]. right. tauto.
Qed.

Lemma trav_incl order s l : In l (trav order s) -> In l (reachable s).
Proof.
  unfold trav. rewrite in_app_iff, !filter_In. intros [[_ H]|[H _]]; [apply memz_In, H|exact H].
Qed.

Lemma In_trav order s l : In l (reachable s) -> In l (trav order s).
Proof.
  intros H. unfold trav. rewrite in_app_iff, !filter_In. destruct (memz l order) eqn:E.
  - left. split; [|apply memz_In, H]. apply dedup_from_In. split; [apply memz_In, E|tauto].
  - right. split; [exact H|reflexivity].
Qed.

(* ------------------------------------------------------------------ serialising *)

Lemma save_spec (P : st -> Prop) order s s1 r :
  (forall l f idx s, P s -> fget l (fss s) = Some f -> P (assign l f idx s)) ->
  save order s = (s1, r) -> P s ->
  P s1 /\ Ext s s1 /\
  forall seen, r = Ok seen -> SeenOk s1 seen /\ forall i l, In (i, l) seen -> In l (reachable s).
Proof.
  intros HA Hrun HP. unfold save in Hrun.
  destruct (save_loop_spec P HA _ _ _ _ _ Hrun HP (SeenOk_nil s)) as (Q1 & Q2 & Q3).
  split; [exact Q1|]. split; [exact Q2|]. intros seen Hr. destruct (Q3 _ Hr) as [R1 R2]. split; [exact R1|].
  intros i l Hin. destruct (R2 _ _ Hin) as [[]|H]. eapply trav_incl, H.
Qed.

Lemma forced_clear_use s l f i :
  forced_clearb s = true -> In l (reachable s) -> fget l (fss s) = Some f -> f_prov f <> Gen -> f_id f = Some i ->
  ~ In i (sids s).
Proof.
  intros Hc Hl Hf Hp Hi. unfold forced_clearb in Hc. rewrite forallb_forall in Hc. specialize (Hc _ Hl).
  unfold outside_id_clearb in Hc. rewrite Hf, Hi in Hc. apply memz_false.
  destruct (f_prov f); [congruence| |]; apply negb_true_iff, Hc.
Qed.

(* whenever serialising succeeds, sofa ids and the ids of the FS written are pairwise distinct *)
Lemma written_distinct order s s1 seen :
  Inv s -> forced_clearb s = true -> save order s = (s1, Ok seen) ->
  Inv s1 /\ NoDup (sids s1 ++ map fst seen).
Proof.
  intros HI Hc Hrun.
  destruct (save_spec Inv order s s1 _ assign_Inv Hrun HI) as (H1 & HE & H3).
  destruct (H3 _ eq_refl) as [[Hd Hs] Hr]. split; [exact H1|].
  apply NoDup_app_intro; [apply (b_nds _ (proj1 H1))|exact Hd|].
  intros x Hx1 Hx2. apply in_map_iff in Hx2. destruct Hx2 as ([i l] & Hfst & Hin). cbn [fst] in Hfst. subst i.
  destruct (Hs _ _ Hin) as (f1 & Hf1 & Hi1).
  destruct (f_prov f1) eqn:Hp.
  - apply (NoDup_app_disj _ _ x (proj2 H1) Hx1). unfold tracked. eapply fget_in_proj; [exact Hf1|].
    unfold gen_ids. rewrite Hp, Hi1. left. reflexivity.
  - destruct (e_new _ _ HE _ _ Hf1) as [H0|H0]; [|congruence].
    apply (forced_clear_use s l f1 x Hc (Hr _ _ Hin) H0); [congruence|exact Hi1|].
    unfold sids in *. rewrite <- (e_sofas _ _ HE). exact Hx1.
  - destruct (e_new _ _ HE _ _ Hf1) as [H0|H0]; [|congruence].
    apply (forced_clear_use s l f1 x Hc (Hr _ _ Hin) H0); [congruence|exact Hi1|].
    unfold sids in *. rewrite <- (e_sofas _ _ HE). exact Hx1.
Qed.

(* without any premise: two FS never share an id in a written document, nor do two sofas *)
Lemma written_fs_distinct order s s1 seen :
  InvB s -> save order s = (s1, Ok seen) -> InvB s1 /\ NoDup (map fst seen) /\ NoDup (sids s1) /\ NoDup (snums s1).
Proof.
  intros HI Hrun.
  destruct (save_spec InvB order s s1 _ assign_InvB Hrun HI) as (H1 & HE & H3).
  destruct (H3 _ eq_refl) as [[Hd Hs] Hr]. split; [exact H1|]. split; [exact Hd|]. split; [apply (b_nds _ H1)|apply (b_ndn _ H1)].
Qed.

(* ------------------------------------------------------------------ loading *)

Definition WfDoc (d : doc) : Prop :=
  (List.length (filter is_init (d_sofas d)) <= 1)%nat /\
  NoDup (map s_id (d_sofas d) ++ map d_xid (d_fss d)) /\
  NoDup (map s_num (d_sofas d)).

Lemma wf_docb_spec d : wf_docb d = true <-> WfDoc d.
Proof.
  unfold wf_docb, WfDoc. rewrite !andb_true_iff, Nat.leb_le, !znodupb_NoDup. tauto.
Qed.

Lemma proj_load c l : (forall x, c (snd (load_fs x)) = [d_xid x]) -> proj c (map load_fs l) = map d_xid l.
Proof.
  intros Hc. induction l as [|x r IH]; [reflexivity|].
  cbn [map]. change (proj c (load_fs x :: map load_fs r)) with (c (snd (load_fs x)) ++ proj c (map load_fs r)).
  rewrite Hc, IH. reflexivity.
Qed.

Lemma filter_nil_existsb {A} (p : A -> bool) l : filter p l = [] -> existsb p l = false.
Proof.
  induction l as [|x r IH]; cbn [filter existsb]; [reflexivity|]. destruct (p x); [discriminate|]. exact IH.
Qed.

Lemma load_sofas_cases d :
  (List.length (filter is_init (d_sofas d)) <= 1)%nat ->
  (has_init (d_sofas d) = false /\
   load_sofas d = mkSofa (doc_max_id d + 1) (doc_max_num d + 1) init_name :: d_sofas d /\
   forallb (fun x => negb (is_init x)) (d_sofas d) = true)
  \/
  (has_init (d_sofas d) = true /\ exists i, is_init i = true /\
   load_sofas d = i :: filter (fun x => negb (is_init x)) (d_sofas d) /\
   Permutation (i :: filter (fun x => negb (is_init x)) (d_sofas d)) (d_sofas d)).
Proof.
  intros Hlen. unfold load_sofas, has_init. destruct (filter is_init (d_sofas d)) as [|i t] eqn:E.
  - left. split; [apply filter_nil_existsb, E|]. split; [reflexivity|apply filter_nil_forallb, E].
  - right. destruct t; [|cbn in Hlen; lia].
    assert (Hi : In i (filter is_init (d_sofas d))) by (rewrite E; left; reflexivity).
    apply filter_In in Hi. destruct Hi as [Hin Hinit].
    split; [apply existsb_exists; exists i; auto|]. exists i. split; [exact Hinit|]. split; [reflexivity|].
    pose proof (filter_perm is_init (d_sofas d)) as HP. rewrite E in HP. exact HP.
Qed.

Lemma le_lt_all (M : Z) l k : (forall x, In x l -> x <= M) -> M < k -> Forall (fun x => x < k) l.
Proof. intros H Hk. apply Forall_forall. intros x Hx. apply H in Hx. lia. Qed.

Lemma load_Inv d : WfDoc d -> Inv (load_doc d).
Proof.
  intros (Hlen & Hnd & Hnn).
  assert (Hid : forall x, In x (map s_id (d_sofas d) ++ map d_xid (d_fss d)) -> x <= doc_max_id d)
    by (intros x Hx; apply zmax_list_ge, Hx).
  assert (Hnum : forall x, In x (map s_num (d_sofas d)) -> x <= doc_max_num d)
    by (intros x Hx; apply zmax_list_ge, Hx).
  assert (Hlow : lowids (load_doc d) = map d_xid (d_fss d)) by (apply proj_load; reflexivity).
  assert (Htr : tracked (load_doc d) = map d_xid (d_fss d)) by (apply proj_load; reflexivity).
  destruct (load_sofas_cases d Hlen) as [(Hh & Hl & Hall)|(Hh & i & Hi & Hl & Hperm)].
  - assert (HB : InvB (load_doc d)).
    { constructor; rewrite ?Hlow; unfold sids, snums, load_doc; rewrite ?Hh; cbn [next_id next_num sofas fss]; rewrite ?Hl;
        cbn [map s_id s_num].
      - constructor; [lia|]. apply (le_lt_all (doc_max_id d)); [|lia]. intros x Hx. apply Hid, in_or_app. tauto.
      - apply (le_lt_all (doc_max_id d)); [|lia]. intros x Hx. apply Hid, in_or_app. tauto.
      - constructor; [lia|]. apply (le_lt_all (doc_max_num d)); [|lia]. exact Hnum.
      - constructor; [|apply (NoDup_app_l _ _ Hnd)]. intro Hx. assert (doc_max_id d + 1 <= doc_max_id d); [|lia].
        apply Hid, in_or_app. tauto.
      - constructor; [|exact Hnn]. intro Hx. apply Hnum in Hx. lia.
      - cbn [init_first]. split; [apply String.eqb_refl|exact Hall]. }
    split; [exact HB|]. rewrite Htr. unfold sids, load_doc. cbn [sofas]. rewrite Hl. cbn [map s_id app].
    constructor; [|exact Hnd]. intro Hx. apply Hid in Hx. lia.
  - assert (Hps : Permutation (map s_id (load_sofas d)) (map s_id (d_sofas d)))
      by (rewrite Hl; apply Permutation_map, Hperm).
    assert (Hpn : Permutation (map s_num (load_sofas d)) (map s_num (d_sofas d)))
      by (rewrite Hl; apply Permutation_map, Hperm).
    assert (HB : InvB (load_doc d)).
    { constructor; rewrite ?Hlow; unfold sids, snums, load_doc; rewrite ?Hh; cbn [next_id next_num sofas fss].
      - apply (le_lt_all (doc_max_id d)); [|lia]. intros x Hx. apply Hid, in_or_app. left.
        eapply Permutation_in; [exact Hps|exact Hx].
      - apply (le_lt_all (doc_max_id d)); [|lia]. intros x Hx. apply Hid, in_or_app. tauto.
      - apply (le_lt_all (doc_max_num d)); [|lia]. intros x Hx. apply Hnum.
        eapply Permutation_in; [exact Hpn|exact Hx].
      - eapply Permutation_NoDup; [apply Permutation_sym, Hps|]. apply (NoDup_app_l _ _ Hnd).
      - eapply Permutation_NoDup; [apply Permutation_sym, Hpn|]. exact Hnn.
      - rewrite Hl. cbn [init_first]. split; [exact Hi|]. apply (forallb_filter_self (fun x => negb (is_init x))). }
    split; [exact HB|]. rewrite Htr. unfold sids, load_doc. cbn [sofas].
    eapply Permutation_NoDup; [|exact Hnd]. apply Permutation_app_tail, Permutation_sym, Hps.
Qed.

Lemma Inv_init_empty : Inv init_empty.
Proof.
  split; [constructor|]; unfold sids, snums, lowids, tracked, init_empty; cbn [sofas fss next_id next_num map s_id s_num proj flat_map app].
  - repeat constructor.
  - constructor.
  - repeat constructor.
  - repeat constructor. intros [].
  - repeat constructor. intros [].
  - cbn. split; reflexivity.
  - repeat constructor. intros [].
Qed.

(* ------------------------------------------------------------------ reload *)

Lemma doc_of_xids s l : map d_xid (map (doc_fs s) l) = map fst l.
Proof.
  induction l as [|p r IH]; [reflexivity|]. cbn [map]. rewrite IH. f_equal.
  unfold doc_fs. destruct (fget (snd p) (fss s)); reflexivity.
Qed.

Lemma load_sofas_init_first ds fs : init_first ds -> load_sofas (mkDoc ds fs) = ds /\ has_init ds = true.
Proof.
  destruct ds as [|i r]; cbn [init_first]; [contradiction|]. intros [Hi Hr].
  unfold load_sofas, has_init. cbn [d_sofas filter existsb]. rewrite Hi. cbn [negb orb].
  destruct (forallb_neg_filter _ _ Hr) as [_ ->]. split; reflexivity.
Qed.

Lemma reload_InvB s seen : InvB s -> InvB (load_doc (doc_of s seen)).
Proof.
  intros HB. destruct (load_sofas_init_first (sofas s) (map (doc_fs s) (rev seen)) (b_init _ HB)) as [Hl Hh].
  assert (Hid : forall x, In x (sids s ++ map fst (rev seen)) -> x <= doc_max_id (doc_of s seen)).
  { intros x Hx. apply zmax_list_ge. unfold doc_of. cbn [d_sofas d_fss]. rewrite doc_of_xids. exact Hx. }
  assert (Hnum : forall x, In x (snums s) -> x <= doc_max_num (doc_of s seen)) by (intros x Hx; apply zmax_list_ge, Hx).
  assert (Hlow : lowids (load_doc (doc_of s seen)) = map fst (rev seen)).
  { unfold lowids, load_doc, doc_of. cbn [fss d_fss]. rewrite proj_load; [apply doc_of_xids|reflexivity]. }
  constructor; rewrite ?Hlow; unfold sids, snums, load_doc, doc_of in *; cbn [d_sofas d_fss] in *; rewrite ?Hh;
    cbn [next_id next_num sofas fss]; rewrite ?Hl.
  - apply (le_lt_all (doc_max_id (mkDoc (sofas s) (map (doc_fs s) (rev seen))))); [|lia].
    intros x Hx. apply Hid, in_or_app. tauto.
  - apply (le_lt_all (doc_max_id (mkDoc (sofas s) (map (doc_fs s) (rev seen))))); [|lia].
    intros x Hx. apply Hid, in_or_app. tauto.
  - apply (le_lt_all (doc_max_num (mkDoc (sofas s) (map (doc_fs s) (rev seen))))); [|lia]. exact Hnum.
  - apply (b_nds _ HB).
  - apply (b_ndn _ HB).
  - apply (b_init _ HB).
Qed.

Lemma reload_Inv s seen : InvB s -> NoDup (sids s ++ map fst seen) -> Inv (load_doc (doc_of s seen)).
Proof.
  intros HB Hnd. split; [apply reload_InvB, HB|].
  destruct (load_sofas_init_first (sofas s) (map (doc_fs s) (rev seen)) (b_init _ HB)) as [Hl Hh].
  unfold tracked, sids, load_doc, doc_of. cbn [d_sofas d_fss sofas fss]. rewrite Hl.
  rewrite proj_load; [|reflexivity]. rewrite doc_of_xids, map_rev.
  eapply Permutation_NoDup; [|exact Hnd]. apply Permutation_app_head, Permutation_rev.
Qed.

(* ------------------------------------------------------------------ steps and histories *)

Lemma InvB_step s o : InvB s -> view_okb s o = true -> InvB (fst (step s o)).
Proof.
  intros H Hv. destruct o; cbn [step fst].
  - apply InvB_new, H.
  - apply InvB_add, H.
  - apply InvB_add_all, H.
  - apply InvB_link, H.
  - apply InvB_create_view, H.
  - destruct (save order s) as [s1 r] eqn:E.
    destruct (save_spec InvB order s s1 r assign_InvB E H) as (H1 & _). destruct r; exact H1.
  - destruct (save order s) as [s1 r] eqn:E.
    destruct (save_spec InvB order s s1 r assign_InvB E H) as (H1 & _). destruct r; cbn [fst]; [|exact H1|exact H1].
    apply reload_InvB, H1.
  - apply InvB_force, H.
  - apply InvB_create_view_at; assumption.
Qed.

Lemma Inv_step s o : Inv s -> op_okb s o = true -> Inv (fst (step s o)).
Proof.
  intros H Hok. destruct o; cbn [step fst].
  - apply Inv_new, H.
  - apply Inv_add, H.
  - apply Inv_add_all, H.
  - apply Inv_link, H.
  - apply Inv_create_view, H.
  - destruct (save order s) as [s1 r] eqn:E.
    destruct (save_spec Inv order s s1 r assign_Inv E H) as (H1 & _). destruct r; exact H1.
  - destruct (save order s) as [s1 r] eqn:E. destruct r as [seen|e|]; cbn [fst].
    + cbn [op_okb] in Hok. destruct (written_distinct order s s1 seen H Hok E) as [H1 Hnd].
      apply reload_Inv; [apply H1|exact Hnd].
    + destruct (save_spec Inv order s s1 _ assign_Inv E H) as (H1 & _). exact H1.
    + destruct (save_spec Inv order s s1 _ assign_Inv E H) as (H1 & _). exact H1.
  - apply Inv_force, H.
  - apply Inv_create_view_at; assumption.
Qed.

Lemma InvB_run h : forall s, InvB s -> views_okb s h = true -> InvB (run s h).
Proof.
  induction h as [|o r IH]; intros s H Hok; [exact H|]. cbn [views_okb] in Hok. apply andb_true_iff in Hok.
  destruct Hok as [H1 H2]. cbn [run fold_left]. apply IH; [apply InvB_step; assumption|exact H2].
Qed.

(* histories that never pass a value to create_view satisfy the premise on chosen values *)
Lemma views_okb_plain h : forall s, forallb plain_op h = true -> views_okb s h = true.
Proof.
  induction h as [|o r IH]; intros s Hp; [reflexivity|]. cbn [forallb] in Hp. apply andb_true_iff in Hp.
  destruct Hp as [H1 H2]. cbn [views_okb]. rewrite (IH _ H2), andb_true_r. destruct o; try reflexivity. discriminate.
Qed.

(* the premise of the stronger invariant contains it *)
Lemma op_okb_view s o : op_okb s o = true -> view_okb s o = true.
Proof. destruct o; cbn [op_okb view_okb]; try reflexivity. intros H. apply andb_true_iff in H. apply H. Qed.

Lemma hist_okb_views h : forall s, hist_okb s h = true -> views_okb s h = true.
Proof.
  induction h as [|o r IH]; intros s H; [reflexivity|]. cbn [hist_okb] in H. apply andb_true_iff in H.
  destruct H as [H1 H2]. cbn [views_okb]. rewrite (op_okb_view _ _ H1), (IH _ H2). reflexivity.
Qed.

Lemma Inv_run h : forall s, Inv s -> hist_okb s h = true -> Inv (run s h).
Proof.
  induction h as [|o r IH]; intros s H Hok; [exact H|]. cbn [hist_okb] in Hok. apply andb_true_iff in Hok.
  destruct Hok as [H1 H2]. cbn [run fold_left]. apply IH; [apply Inv_step; assumption|exact H2].
Qed.

(* views which a JSON document declares in its %VIEWS section only: the reader's own create_view calls are inside the
   premises of every history theorem *)
Lemma hist_okb_create_views vs : forall s, hist_okb s (map OpCreateView vs) = true.
Proof. induction vs as [|v r IH]; intros s; [reflexivity|]. cbn [map hist_okb op_okb andb]. apply IH. Qed.

Lemma load_views_Inv d vs : WfDoc d -> Inv (load_doc_views d vs).
Proof. intros H. apply Inv_run; [apply load_Inv, H|apply hist_okb_create_views]. Qed.

(* the initial states: Cas(), a loaded document, a loaded JSON document which declares views without a sofa *)
Inductive Start : st -> Prop :=
| start_empty : Start init_empty
| start_doc d : wf_docb d = true -> Start (load_doc d)
| start_doc_views d vs : wf_docb d = true -> Start (load_doc_views d vs).

Lemma Start_Inv s : Start s -> Inv s.
Proof.
  intros [|d Hd|d vs Hd]; [apply Inv_init_empty|apply load_Inv, wf_docb_spec, Hd|apply load_views_Inv, wf_docb_spec, Hd].
Qed.

(* what the reader's create_view calls do: the FS and the sofas of the document stay, every sofa added lies beyond the
   bounds M / N the generators had passed, the generators only move up *)
Lemma create_views_above (M N : Z) vs : forall s, M < next_id s -> N < next_num s ->
  let s1 := run s (map OpCreateView vs) in
  next_id s <= next_id s1 /\ next_num s <= next_num s1 /\ fss s1 = fss s /\ incl (sofas s) (sofas s1) /\
  forall x, In x (sofas s1) -> In x (sofas s) \/ (M < s_id x /\ N < s_num x).
Proof.
  induction vs as [|v r IH]; intros s HM HN; cbv zeta.
  - cbn [map run fold_left]. repeat split; try lia. + apply incl_refl. + intros x Hx. left. exact Hx.
  - change (run s (map OpCreateView (v :: r))) with (run (fst (create_view v s)) (map OpCreateView r)).
    unfold create_view. destruct (existsb (fun x => String.eqb (s_name x) v) (sofas s)); cbn [fst].
    + apply IH; assumption.
    + set (s' := mkSt (next_id s + 1) (next_num s + 1) (sofas s ++ [mkSofa (next_id s) (next_num s) v]) (fss s)).
      destruct (IH s') as (H1 & H2 & H3 & H4 & H5); [cbn [s' next_id]; lia|cbn [s' next_num]; lia|].
      cbn [s' next_id next_num fss sofas] in H1, H2, H3, H4, H5. repeat split; try lia.
      * exact H3.
      * intros x Hx. apply H4, in_or_app. left. exact Hx.
      * intros x Hx. destruct (H5 x Hx) as [Hin|Hab]; [|right; exact Hab].
        apply in_app_or in Hin. destruct Hin as [Hin|[<-|[]]]; [left; exact Hin|right]. cbn [s_id s_num]. lia.
Qed.

(* a JSON document which declares views without a sofa: the FS keep the ids of the document, its sofas stay, and every
   sofa the reader creates takes an id beyond every id of the document (FS and sofas) and a sofaNum beyond every sofaNum
   of the document; both generators end beyond the document *)
Theorem sofaless_views d vs :
  let s := load_doc_views d vs in
  fss s = fss (load_doc d) /\ incl (sofas (load_doc d)) (sofas s) /\
  doc_max_id d < next_id s /\ doc_max_num d < next_num s /\
  forall x, In x (sofas s) -> In x (sofas (load_doc d)) \/ (doc_max_id d < s_id x /\ doc_max_num d < s_num x).
Proof.
  cbv zeta. unfold load_doc_views.
  assert (HM : doc_max_id d < next_id (load_doc d)) by (unfold load_doc; cbn [next_id]; destruct (has_init (d_sofas d)); lia).
  assert (HN : doc_max_num d < next_num (load_doc d)) by (unfold load_doc; cbn [next_num]; destruct (has_init (d_sofas d)); lia).
  destruct (create_views_above (doc_max_id d) (doc_max_num d) vs (load_doc d) HM HN) as (H1 & H2 & H3 & H4 & H5).
  repeat split; try assumption; lia.
Qed.

(* ------------------------------------------------------------------ forced duplicates are detected *)

Lemma zlookup_cons_other k i a seen : i <> k -> zlookup k ((i, a) :: seen) = zlookup k seen.
Proof. intros H. cbn [zlookup]. destruct (i =? k) eqn:E; [lia|reflexivity]. Qed.

Lemma assign_other l f idx s l' : l' <> l -> fget l' (fss (assign l f idx s)) = fget l' (fss s).
Proof. intros H. unfold assign. cbn [fss]. apply fget_fupd_other, H. Qed.

(* the dict already maps k to l0; another FS with id k comes up later *)
Lemma dup_A ord : forall s seen k l0 l' f',
  zlookup k seen = Some l0 -> In l' ord -> l' <> l0 -> fget l' (fss s) = Some f' -> f_id f' = Some k -> k <> 0 ->
  snd (save_loop ord s seen) = Err EDupId.
Proof.
  induction ord as [|a ord IH]; intros s seen k l0 l' f' Hz Hin Hne Hf' Hk Hk0; [destruct Hin|].
  cbn [save_loop]. destruct (Z.eq_dec a l') as [->|Hal].
  - rewrite Hf', Hk. destruct (k =? 0) eqn:E0; [lia|]. rewrite Hz. destruct (l0 =? l') eqn:E; [lia|reflexivity].
  - destruct Hin as [Hin|Hin]; [congruence|].
    destruct (fget a (fss s)) as [f|] eqn:Hf; [|apply (IH s seen k l0 l' f'); assumption].
    destruct (f_id f) as [i|] eqn:Hi.
    + destruct (i =? 0); [apply (IH s seen k l0 l' f'); assumption|].
      destruct (zlookup i seen) as [l''|] eqn:Hz2.
      * destruct (l'' =? a); [apply (IH s seen k l0 l' f'); assumption|reflexivity].
      * apply (IH s _ k l0 l' f'); try assumption.
        rewrite zlookup_cons_other; [exact Hz|]. intros ->. congruence.
    + assert (Hf1 : fget l' (fss (assign a f (f_idx f) s)) = Some f') by (rewrite assign_other; auto).
      destruct (zlookup (next_id s) seen) as [l''|] eqn:Hz2.
      * destruct (l'' =? a); [apply (IH _ seen k l0 l' f'); assumption|reflexivity].
      * apply (IH _ _ k l0 l' f'); try assumption.
        rewrite zlookup_cons_other; [exact Hz|]. intros Heq. rewrite Heq in Hz2. congruence.
Qed.

Lemma dup_B ord : forall s seen k l1 l2 f1 f2,
  zlookup k seen = None -> In l1 ord -> In l2 ord -> l1 <> l2 ->
  fget l1 (fss s) = Some f1 -> fget l2 (fss s) = Some f2 -> f_id f1 = Some k -> f_id f2 = Some k -> k <> 0 ->
  snd (save_loop ord s seen) = Err EDupId.
Proof.
  induction ord as [|a ord IH]; intros s seen k l1 l2 f1 f2 Hz H1 H2 Hne Hf1 Hf2 Hk1 Hk2 Hk0; [destruct H1|].
  cbn [save_loop]. destruct (Z.eq_dec a l1) as [->|Ha1]; [|destruct (Z.eq_dec a l2) as [->|Ha2]].
  - rewrite Hf1, Hk1. destruct (k =? 0) eqn:E0; [lia|]. rewrite Hz.
    destruct H2 as [H2|H2]; [congruence|].
    apply (dup_A ord s _ k l1 l2 f2); auto. cbn [zlookup]. rewrite Z.eqb_refl. reflexivity.
  - rewrite Hf2, Hk2. destruct (k =? 0) eqn:E0; [lia|]. rewrite Hz.
    destruct H1 as [H1|H1]; [congruence|].
    apply (dup_A ord s _ k l2 l1 f1); auto. cbn [zlookup]. rewrite Z.eqb_refl. reflexivity.
  - destruct H1 as [H1|H1]; [congruence|]. destruct H2 as [H2|H2]; [congruence|].
    destruct (fget a (fss s)) as [f|] eqn:Hf; [|apply (IH s seen k l1 l2 f1 f2); assumption].
    destruct (f_id f) as [i|] eqn:Hi.
    + destruct (i =? 0); [apply (IH s seen k l1 l2 f1 f2); assumption|].
      destruct (zlookup i seen) as [l''|] eqn:Hz2.
      * destruct (l'' =? a); [apply (IH s seen k l1 l2 f1 f2); assumption|reflexivity].
      * destruct (Z.eq_dec i k) as [->|Hik].
        -- apply (dup_A ord s _ k a l1 f1); auto. cbn [zlookup]. rewrite Z.eqb_refl. reflexivity.
        -- apply (IH s _ k l1 l2 f1 f2); try assumption. rewrite zlookup_cons_other; assumption.
    + assert (Hg1 : fget l1 (fss (assign a f (f_idx f) s)) = Some f1) by (rewrite assign_other; auto).
      assert (Hg2 : fget l2 (fss (assign a f (f_idx f) s)) = Some f2) by (rewrite assign_other; auto).
      destruct (zlookup (next_id s) seen) as [l''|] eqn:Hz2.
      * destruct (l'' =? a); [apply (IH _ seen k l1 l2 f1 f2); assumption|reflexivity].
      * destruct (Z.eq_dec (next_id s) k) as [Hnk|Hnk].
        -- apply (dup_A ord _ _ k a l1 f1); auto. cbn [zlookup]. rewrite Hnk, Z.eqb_refl. reflexivity.
        -- apply (IH _ _ k l1 l2 f1 f2); try assumption. rewrite zlookup_cons_other; assumption.
Qed.

Lemma forced_duplicate order s l1 l2 f1 f2 k :
  In l1 (reachable s) -> In l2 (reachable s) -> l1 <> l2 ->
  fget l1 (fss s) = Some f1 -> fget l2 (fss s) = Some f2 -> f_id f1 = Some k -> f_id f2 = Some k -> k <> 0 ->
  snd (save order s) = Err EDupId /\
  snd (step s (OpSave order)) = OErr EDupId /\ snd (step s (OpReload order)) = OErr EDupId.
Proof.
  intros H1 H2 Hne Hf1 Hf2 Hk1 Hk2 Hk0.
  assert (HS : snd (save order s) = Err EDupId).
  { unfold save. apply (dup_B _ s [] k l1 l2 f1 f2); auto using In_trav. }
  split; [exact HS|]. cbn [step]. destruct (save order s) as [s1 r]. cbn [snd] in HS. subst r. split; reflexivity.
Qed.

(* ------------------------------------------------------------------ loaded ids are kept *)

Lemma fget_distinct m : NoDup (proj any_ids m) ->
  forall l l' f f' i, fget l m = Some f -> fget l' m = Some f' -> f_id f = Some i -> f_id f' = Some i -> l = l'.
Proof.
  induction m as [|[k g] r IH]; intros Hnd l l' f f' i Hf Hf' Hi Hi'; [discriminate|].
  change (proj any_ids ((k, g) :: r)) with (any_ids g ++ proj any_ids r) in Hnd.
  cbn [fget] in Hf, Hf'. destruct (k =? l) eqn:E1; destruct (k =? l') eqn:E2.
  - lia.
  - injection Hf as ->. exfalso. apply (NoDup_app_disj _ _ i Hnd).
    + unfold any_ids. rewrite Hi. left. reflexivity.
    + eapply fget_in_proj; [exact Hf'|]. unfold any_ids. rewrite Hi'. left. reflexivity.
  - injection Hf' as ->. exfalso. apply (NoDup_app_disj _ _ i Hnd).
    + unfold any_ids. rewrite Hi'. left. reflexivity.
    + eapply fget_in_proj; [exact Hf|]. unfold any_ids. rewrite Hi. left. reflexivity.
  - eapply IH; eauto. eapply NoDup_app_r, Hnd.
Qed.

(* a state in which every FS has an id and no two FS share one: the traversal changes nothing and writes every FS
   it meets under the id it has *)
Lemma save_loop_full ord : forall s seen,
  (forall l f, fget l (fss s) = Some f -> f_id f <> None) ->
  NoDup (proj any_ids (fss s)) ->
  (forall i l, In (i, l) seen -> exists f, fget l (fss s) = Some f /\ f_id f = Some i) ->
  exists seen1, save_loop ord s seen = (s, Ok seen1) /\
    forall i l, In (i, l) seen1 <->
                In (i, l) seen \/ (In l ord /\ i <> 0 /\ exists f, fget l (fss s) = Some f /\ f_id f = Some i).
Proof.
  induction ord as [|a ord IH]; intros s seen Hall Hnd Hseen; cbn [save_loop].
  - exists seen. split; [reflexivity|]. intros i l. split; [auto|]. intros [H|[[] _]]. exact H.
  - destruct (fget a (fss s)) as [f|] eqn:Hf.
    2:{ destruct (IH s seen Hall Hnd Hseen) as (seen1 & -> & Hiff). exists seen1. split; [reflexivity|].
        intros i l. rewrite Hiff. split; [intros [H|(H1 & H2 & H3)]; [auto|right; cbn [In]; auto]|].
        intros [H|([->|H1] & H2 & f' & H3 & H4)]; [auto|congruence|right; eauto]. }
    destruct (f_id f) as [i0|] eqn:Hi; [|exfalso; eapply Hall; eauto].
    destruct (i0 =? 0) eqn:E0.
    + destruct (IH s seen Hall Hnd Hseen) as (seen1 & -> & Hiff). exists seen1. split; [reflexivity|].
      intros i l. rewrite Hiff. split; [intros [H|(H1 & H2 & H3)]; [auto|right; cbn [In]; auto]|].
      intros [H|([->|H1] & H2 & f' & H3 & H4)]; [auto| |right; eauto].
      rewrite Hf in H3. injection H3 as <-. rewrite Hi in H4. injection H4 as <-. lia.
    + destruct (zlookup i0 seen) as [l'|] eqn:Hz.
      * apply zlookup_In in Hz. destruct (Hseen _ _ Hz) as (f' & Hf' & Hi').
        assert (l' = a) by (eapply (fget_distinct _ Hnd); eauto). subst l'. rewrite Z.eqb_refl.
        destruct (IH s seen Hall Hnd Hseen) as (seen1 & -> & Hiff). exists seen1. split; [reflexivity|].
        intros i l. rewrite Hiff. split; [intros [H|(H1 & H2 & H3)]; [auto|right; cbn [In]; auto]|].
        intros [H|([->|H1] & H2 & f'' & H3 & H4)]; [auto| |right; eauto].
        rewrite Hf in H3. injection H3 as <-. rewrite Hi in H4. injection H4 as <-. auto.
      * assert (Hseen' : forall i l, In (i, l) ((i0, a) :: seen) -> exists f, fget l (fss s) = Some f /\ f_id f = Some i).
        { intros i l [[= <- <-]|H]; [eauto|apply Hseen, H]. }
        destruct (IH s _ Hall Hnd Hseen') as (seen1 & -> & Hiff). exists seen1. split; [reflexivity|].
        intros i l. rewrite Hiff. cbn [In]. split.
        -- intros [[[= <- <-]|H]|(H1 & H2 & H3)]; [right|auto|right; auto].
           split; [auto|]. split; [lia|eauto].
        -- intros [H|([->|H1] & H2 & f'' & H3 & H4)]; [auto| |right; eauto].
           rewrite Hf in H3. injection H3 as <-. rewrite Hi in H4. injection H4 as <-. auto.
Qed.

Lemma fget_load l fs f : fget l (map load_fs fs) = Some f ->
  exists x, In x fs /\ d_lab x = l /\ f_id f = Some (d_xid x).
Proof.
  induction fs as [|x r IH]; cbn [map fget]; [discriminate|]. unfold load_fs at 1.
  destruct (d_lab x =? l) eqn:E.
  - intros [= <-]. exists x. split; [left; reflexivity|]. split; [lia|reflexivity].
  - intros H. destruct (IH H) as (y & Hy & H1 & H2). exists y. split; [right; exact Hy|auto].
Qed.

Lemma loaded_ids_kept d order :
  wf_docb d = true ->
  let s := load_doc d in
  exists seen, save order s = (s, Ok seen) /\
    (forall i l, In (i, l) seen -> exists x, In x (d_fss d) /\ d_lab x = l /\ d_xid x = i) /\
    (forall l f i, In l (reachable s) -> fget l (fss s) = Some f -> f_id f = Some i -> i <> 0 -> In (i, l) seen) /\
    incl (d_sofas d) (sofas s).
Proof.
  intros Hwf s. apply wf_docb_spec in Hwf. destruct Hwf as (Hlen & Hnd & Hnn).
  assert (Hall : forall l f, fget l (fss s) = Some f -> f_id f <> None).
  { intros l f Hf. apply fget_load in Hf. destruct Hf as (x & _ & _ & ->). discriminate. }
  assert (Hnd' : NoDup (proj any_ids (fss s))).
  { unfold s, load_doc. cbn [fss]. rewrite proj_load; [|reflexivity]. eapply NoDup_app_r, Hnd. }
  destruct (save_loop_full (trav order s) s [] Hall Hnd') as (seen & Hrun & Hiff); [intros i l []|].
  exists seen. split; [exact Hrun|]. split; [|split].
  - intros i l Hin. apply Hiff in Hin. destruct Hin as [[]|(_ & _ & f & Hf & Hi)].
    apply fget_load in Hf. destruct Hf as (x & Hx & Hl & Hid). exists x. split; [exact Hx|]. split; [exact Hl|congruence].
  - intros l f i Hl Hf Hi H0. apply Hiff. right. split; [apply In_trav, Hl|]. split; [exact H0|eauto].
  - intros x Hx. unfold s, load_doc. cbn [sofas].
    destruct (load_sofas_cases d Hlen) as [(_ & -> & _)|(_ & i & _ & -> & Hperm)]; [right; exact Hx|].
    eapply Permutation_in; [apply Permutation_sym, Hperm|exact Hx].
Qed.

(* ------------------------------------------------------------------ history-level statements *)

Theorem ids_below_next s0 h : Start s0 -> views_okb s0 h = true ->
  let s := run s0 h in
  Forall (fun i => i < next_id s) (sids s) /\ Forall (fun i => i < next_id s) (lowids s) /\
  Forall (fun n => n < next_num s) (snums s).
Proof.
  intros H0 Hv s. pose proof (InvB_run h _ (proj1 (Start_Inv _ H0)) Hv) as H. fold s in H.
  split; [apply (b_sid _ H)|]. split; [apply (b_low _ H)|apply (b_num _ H)].
Qed.

Theorem fresh_id_unused s0 h : Start s0 -> views_okb s0 h = true ->
  let s := run s0 h in ~ In (next_id s) (sids s ++ lowids s) /\ ~ In (next_num s) (snums s).
Proof.
  intros H0 Hv s. pose proof (InvB_run h _ (proj1 (Start_Inv _ H0)) Hv) as H. fold s in H.
  split; [apply fresh_notin, H|apply Forall_lt_notin, (b_num _ H)].
Qed.

Theorem sofanums_unique s0 h : Start s0 -> views_okb s0 h = true -> NoDup (snums (run s0 h)) /\ NoDup (sids (run s0 h)).
Proof.
  intros H0 Hv. pose proof (InvB_run h _ (proj1 (Start_Inv _ H0)) Hv) as H. split; [apply (b_ndn _ H)|apply (b_nds _ H)].
Qed.

Theorem tracked_ids_distinct s0 h : Start s0 -> hist_okb s0 h = true -> NoDup (sids (run s0 h) ++ tracked (run s0 h)).
Proof. intros H0 Hok. apply (Inv_run h _ (Start_Inv _ H0) Hok). Qed.

Theorem no_two_written s0 h order s1 seen : Start s0 -> hist_okb s0 h = true ->
  let s := run s0 h in
  forced_clearb s = true -> save order s = (s1, Ok seen) -> NoDup (sids s1 ++ map fst seen) /\ NoDup (snums s1).
Proof.
  intros H0 Hok s Hc Hrun. pose proof (Inv_run h _ (Start_Inv _ H0) Hok) as H. fold s in H.
  destruct (written_distinct order s s1 seen H Hc Hrun) as [H1 H2]. split; [exact H2|apply (b_ndn _ (proj1 H1))].
Qed.

Theorem no_two_fs_written s0 h order s1 seen : Start s0 -> views_okb s0 h = true ->
  save order (run s0 h) = (s1, Ok seen) -> NoDup (map fst seen) /\ NoDup (sids s1) /\ NoDup (snums s1).
Proof.
  intros H0 Hv Hrun. pose proof (InvB_run h _ (proj1 (Start_Inv _ H0)) Hv) as H.
  destruct (written_fs_distinct order _ s1 seen H Hrun) as (_ & H1). exact H1.
Qed.

Theorem reload_preserves_invariant s order : Inv s -> forced_clearb s = true -> Inv (fst (step s (OpReload order))).
Proof. intros H Hc. apply Inv_step; [exact H|exact Hc]. Qed.

Theorem reload_preserves_bounds s order : InvB s -> InvB (fst (step s (OpReload order))).
Proof. intros H. apply InvB_step; [exact H|reflexivity]. Qed.

(* reflection of the invariant, so that it can be evaluated on concrete states *)
Definition invb (s : st) : bool :=
  forallb (fun x => x <? next_id s) (sids s) && forallb (fun x => x <? next_id s) (lowids s)
  && forallb (fun x => x <? next_num s) (snums s) && znodupb (sids s ++ tracked s) && znodupb (snums s).

Lemma Inv_invb s : Inv s -> invb s = true.
Proof.
  intros [HB HN]. unfold invb. rewrite !andb_true_iff, !forallb_forall, !znodupb_NoDup.
  pose proof (b_sid _ HB) as H1. pose proof (b_low _ HB) as H2. pose proof (b_num _ HB) as H3.
  rewrite Forall_forall in H1, H2, H3.
  repeat split; try (intros x Hx; apply Z.ltb_lt; auto); [exact HN|apply (b_ndn _ HB)].
Qed.

Theorem invariant_run s0 h : Start s0 -> hist_okb s0 h = true -> Inv (run s0 h) /\ invb (run s0 h) = true.
Proof. intros H0 Hok. pose proof (Inv_run h _ (Start_Inv _ H0) Hok) as H. exact (conj H (Inv_invb _ H)). Qed.

(* without the premise on forced ids the claim fails: an FS is given the id of a sofa and both are written *)
Theorem no_two_written_refuted :
  exists s0 h order s1 seen, Start s0 /\ save order (run s0 h) = (s1, Ok seen) /\ ~ NoDup (sids s1 ++ map fst seen).
Proof.
  exists init_empty, [OpNewFs 1; OpForceId 1 1; OpAdd 1 true], [1], (run init_empty [OpNewFs 1; OpForceId 1 1; OpAdd 1 true]),
    [(1, 1)].
  split; [constructor|]. split; [vm_compute; reflexivity|].
  intro H. apply znodupb_NoDup in H. vm_compute in H. discriminate.
Qed.

(* the premise on values chosen by the caller is needed: create_view does not reject a sofaNum (an xmi:id) that a sofa
   already has *)
Theorem chosen_values_unchecked :
  ~ NoDup (snums (run init_empty [OpCreateViewAt "a" None (Some 1)])) /\
  ~ NoDup (sids (run init_empty [OpCreateViewAt "a" (Some 1) None])).
Proof. split; intro H; apply znodupb_NoDup in H; vm_compute in H; discriminate. Qed.

(* a value chosen by the caller is taken out of the pool of its generator: the sofa created by
   create_view(name, xmiID=Some k, sofaNum=Some n) carries k and n, and both generators are beyond them afterwards *)
Theorem chosen_values_reserved name k n s :
  existsb (fun x => String.eqb (s_name x) name) (sofas s) = false ->
  let s1 := fst (step s (OpCreateViewAt name (Some k) (Some n))) in
  In (mkSofa k n name) (sofas s1) /\ k < next_id s1 /\ n < next_num s1 /\ next_id s <= next_id s1 /\ next_num s <= next_num s1.
Proof.
  intros E s1. unfold s1. cbn [step]. unfold create_view_at. rewrite E. cbn [fst sofas next_id next_num pick bump].
  destruct (reserve_ge k (next_id s)). destruct (reserve_ge n (next_num s)).
  split; [apply in_or_app; right; left; reflexivity|]. lia.
Qed.

(* ------------------------------------------------------------------ an id, once present, stays *)

(* operations that are meant to change the id of the FS labelled l (or to create an FS under that label) *)
Definition touches (o : op) (l : label) : bool :=
  match o with
  | OpNewFs l' => l' =? l
  | OpAdd l' false => l' =? l
  | OpForceId l' _ => l' =? l
  | _ => false
  end.

(* the FS labelled l carries id i, or is no longer part of the CAS (dropped by a reload because unreachable) *)
Definition Stable (s : st) (l : label) (i : Z) : Prop :=
  match fget l (fss s) with Some f => f_id f = Some i | None => True end.

Lemma fget_app l a b : fget l (a ++ b) = match fget l a with Some f => Some f | None => fget l b end.
Proof. induction a as [|[k g] r IH]; cbn [app fget]; [reflexivity|]. destruct (k =? l); [reflexivity|exact IH]. Qed.

Lemma fget_fupd_none l l' g m : fget l m = None -> fget l (fupd l' g m) = None.
Proof.
  induction m as [|[k h] r IH]; cbn [fget fupd]; [reflexivity|].
  destruct (k =? l) eqn:E1; [discriminate|]. intros H. destruct (k =? l'); cbn [fget]; rewrite E1; auto.
Qed.

(* replacing the record of l' by one that agrees on the id at l *)
Lemma Stable_upd s l i l' f g n m' :
  Stable s l i -> fget l' (fss s) = Some f -> (l' = l -> f_id g = Some i) ->
  Stable (mkSt n m' (sofas s) (fupd l' g (fss s))) l i.
Proof.
  unfold Stable. cbn [fss]. intros H Hf Hg. destruct (fget l (fss s)) as [f0|] eqn:H0.
  - rewrite (fget_fupd _ _ _ _ _ Hf). destruct (l =? l') eqn:E; [|rewrite H0; exact H].
    apply Z.eqb_eq in E. subst. auto.
  - rewrite fget_fupd_none; auto.
Qed.

Lemma Stable_add l' keep s l i : Stable s l i -> (keep = true \/ l' <> l) -> Stable (add l' keep s) l i.
Proof.
  intros H Hk. unfold add. destruct (fget l' (fss s)) as [f|] eqn:Hf; [|exact H].
  destruct (if keep then f_id f else None) as [i0|] eqn:Hi.
  - eapply Stable_upd; eauto. intros ->. cbn [f_id]. unfold Stable in H. rewrite Hf in H.
    destruct keep; [congruence|discriminate].
  - unfold assign. eapply Stable_upd; eauto. intros ->. unfold Stable in H. rewrite Hf in H.
    destruct Hk as [->|Hk]; [congruence|congruence].
Qed.

Lemma Stable_step s o l i : Stable s l i -> touches o l = false -> Stable (fst (step s o)) l i.
Proof.
  intros H Ht. destruct o; cbn [step fst touches] in *.
  - unfold new_fs. destruct (fget l0 (fss s)); [exact H|]. unfold Stable, set_fss in *. cbn [fss].
    rewrite fget_app. destruct (fget l (fss s)); [exact H|]. cbn [fget]. rewrite Ht. exact I.
  - apply Stable_add; [exact H|]. destruct keep; [auto|]. right. lia.
  - revert s H. induction ls as [|a r IH]; intros s H; cbn [fold_left]; [exact H|]. apply IH, Stable_add; auto.
  - unfold link. destruct (fget p (fss s)) as [f|] eqn:Hf; [|exact H]. destruct (fget c (fss s)); [|exact H].
    unfold set_fss. eapply Stable_upd; eauto. intros ->. cbn [f_id]. unfold Stable in H. rewrite Hf in H. exact H.
  - unfold create_view. destruct (existsb _ (sofas s)); exact H.
  - destruct (save order s) as [s1 r] eqn:E.
    destruct (save_spec (fun _ => True) order s s1 r (fun _ _ _ _ _ _ => I) E I) as (_ & HE & _).
    assert (Stable s1 l i).
    { unfold Stable in *. destruct (fget l (fss s)) as [f|] eqn:Hf.
      - rewrite (e_keep _ _ HE _ _ Hf); [exact H|congruence].
      - rewrite (e_none _ _ HE _ Hf). exact I. }
    destruct r; assumption.
  - destruct (save order s) as [s1 r] eqn:E.
    destruct (save_spec (fun _ => True) order s s1 r (fun _ _ _ _ _ _ => I) E I) as (_ & HE & HS).
    assert (H1 : Stable s1 l i).
    { unfold Stable in *. destruct (fget l (fss s)) as [f|] eqn:Hf.
      - rewrite (e_keep _ _ HE _ _ Hf); [exact H|congruence].
      - rewrite (e_none _ _ HE _ Hf). exact I. }
    destruct r as [seen|e|]; cbn [fst]; [|exact H1|exact H1].
    destruct (HS _ eq_refl) as [[_ Hs] _].
    unfold Stable, load_doc, doc_of. cbn [fss d_fss].
    destruct (fget l (map load_fs (map (doc_fs s1) (rev seen)))) as [f'|] eqn:Hf'; [|exact I].
    apply fget_load in Hf'. destruct Hf' as (x & Hx & Hl & Hid). apply in_map_iff in Hx. destruct Hx as ([i' l''] & <- & Hp).
    apply in_rev in Hp.
    assert (Hlab : d_lab (doc_fs s1 (i', l'')) = l'') by (unfold doc_fs; cbn [snd fst]; destruct (fget l'' (fss s1)); reflexivity).
    assert (Hxid : d_xid (doc_fs s1 (i', l'')) = i') by (unfold doc_fs; cbn [snd fst]; destruct (fget l'' (fss s1)); reflexivity).
    rewrite Hlab in Hl. subst l''. rewrite Hxid in Hid. destruct (Hs _ _ Hp) as (f1 & Hf1 & Hi1).
    unfold Stable in H1. rewrite Hf1 in H1. congruence.
  - unfold force. destruct (fget l0 (fss s)) as [f|] eqn:Hf; [|exact H]. unfold set_fss.
    eapply Stable_upd; eauto. intros ->. lia.
  - unfold create_view_at. destruct (existsb _ (sofas s)); exact H.
Qed.

Theorem id_stable h : forall s l i,
  Stable s l i -> forallb (fun o => negb (touches o l)) h = true -> Stable (run s h) l i.
Proof.
  induction h as [|o r IH]; intros s l i H Hh; [exact H|]. cbn [forallb] in Hh. apply andb_true_iff in Hh.
  destruct Hh as [H1 H2]. cbn [run fold_left]. apply IH; [|exact H2]. apply Stable_step; [exact H|]. apply negb_true_iff, H1.
Qed.
