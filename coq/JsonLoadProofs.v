(* JsonLoadProofs.v — C05, JSON half: the reader mechanism of cassis/json.py (Json.load_json: sofa-first pass with the
   byte-array pre-fetch, second pass, deferred fix-ups against the final table, initial-view rule, %VIEWS pass with add()
   re-pointing `sofa`) computes the declarative reading of the document (JsonDoc.denote_json) on every well-formed
   document (doc_ok_json), in whatever order the document lists its feature structures. *)
From Coq Require Import Ascii ZifyBool Permutation.
From Cassis Require Import Base Heap Schema Canon Reach ReachProofs JsonDoc Json JsonProofs JsonProofs2.
Open Scope Z_scope.

(* ================================================================================================================ *)
(* generic: folds in the result monad                                                                                *)
(* ================================================================================================================ *)

Definition rfold {A S} (g : S -> A -> res S) (l : list A) (st : res S) : res S :=
  fold_left (fun acc e => do a <- acc ;; g a e) l st.
Lemma rfold_err {A S} (g : S -> A -> res S) l e : rfold g l (Err e) = Err e.
Proof. induction l; [reflexivity|exact IHl]. Qed.
Lemma rfold_oof {A S} (g : S -> A -> res S) l : rfold g l OutOfFuel = OutOfFuel.
Proof. induction l; [reflexivity|exact IHl]. Qed.
Lemma bind_ret {S} (r : res S) : bind r (fun a => Ok a) = r.
Proof. destruct r; reflexivity. Qed.

(* a fold that skips the elements outside p is the fold over the filtered list *)
Lemma fold_filter {A S} (p : A -> bool) (g : S -> A -> res S) l : forall st,
  fold_left (fun acc e => do a <- acc ;; if p e then g a e else Ok a) l st = rfold g (filter p l) st.
Proof.
  induction l as [|x r IH]; intros st; [reflexivity|]. cbn [fold_left filter]. destruct (p x).
  - cbn [rfold fold_left]. apply IH.
  - rewrite bind_ret. apply IH.
Qed.

(* folding with an invariant indexed by the elements done so far *)
Lemma rfold_inv {A S} (g : S -> A -> res S) (I : list A -> S -> Prop) (full : list A) : forall l done st,
  full = done ++ l -> I done st ->
  (forall done e rest st, full = done ++ e :: rest -> I done st -> exists st', g st e = Ok st' /\ I (done ++ [e]) st') ->
  exists st', rfold g l (Ok st) = Ok st' /\ I full st'.
Proof.
  induction l as [|e r IH]; intros done st Hf HI Hstep.
  - exists st. split; [reflexivity|]. rewrite Hf, app_nil_r. exact HI.
  - destruct (Hstep done e r st Hf HI) as (st1 & E1 & I1). unfold rfold. cbn [fold_left bind]. rewrite E1.
    apply (IH (done ++ [e]) st1); [rewrite <- app_assoc; exact Hf|exact I1|exact Hstep].
Qed.

Lemma filter_none r (l : list entry) : ~ In r (map fst l) -> filter (fun e2 : entry => Z.eqb (fst e2) r) l = [].
Proof.
  induction l as [|y l' IH]; intros Hn; [reflexivity|]. cbn [filter].
  destruct (Z.eqb (fst y) r) eqn:E; [apply Z.eqb_eq in E; exfalso; apply Hn; left; exact E|].
  apply IH. intros H. apply Hn. right. exact H.
Qed.
(* exactly one element carries the key *)
Lemma fold_unique {S} (g : S -> entry -> res S) (r : xid) es e st :
  NoDup (map fst es) -> In e es -> fst e = r ->
  fold_left (fun acc e2 => do a <- acc ;; if Z.eqb (fst e2) r then g a e2 else Ok a) es (Ok st) = g st e.
Proof.
  intros ND Hin Hr. rewrite (fold_filter (fun e2 => Z.eqb (fst e2) r) g es (Ok st)).
  match goal with |- context [filter ?p es] => assert (Hf : filter p es = [e]) end.
  { clear st g. induction es as [|x l IH]; [destruct Hin|]. cbn [map] in ND. inversion ND as [|? ? Hn ND']; subst. cbn [filter].
    destruct Hin as [->|Hin].
    - rewrite Z.eqb_refl. f_equal. apply filter_none. exact Hn.
    - match goal with |- context [if ?b then _ else _] => destruct b eqn:E end;
        [apply Z.eqb_eq in E; exfalso; apply Hn; apply in_map_iff; exists e; split; [symmetry; exact E|exact Hin]|].
      apply IH; assumption. }
  rewrite Hf. unfold rfold. cbn [fold_left bind]. reflexivity.
Qed.

(* ================================================================================================================ *)
(* maxima                                                                                                            *)
(* ================================================================================================================ *)

(* m is the maximum of 0 and the elements of l *)
Definition is_max (m : Z) (l : list Z) : Prop := 0 <= m /\ (forall x, In x l -> x <= m) /\ (m = 0 \/ In m l).
Lemma is_max_unique m m' l : is_max m l -> is_max m' l -> m = m'.
Proof. intros (A1 & A2 & A3) (B1 & B2 & B3). destruct A3 as [->|A3], B3 as [->|B3]; try reflexivity; try (specialize (A2 _ B3)); try (specialize (B2 _ A3)); lia. Qed.
Lemma is_max_nil : is_max 0 [].
Proof. split; [lia|]. split; [intros x []|left; reflexivity]. Qed.
Lemma is_max_add m l x l' : is_max m l -> (forall y, In y l' <-> y = x \/ In y l) -> is_max (Z.max x m) l'.
Proof.
  intros (A1 & A2 & A3) H. split; [lia|]. split.
  - intros y Hy. apply H in Hy. destruct Hy as [->|Hy]; [lia|specialize (A2 _ Hy); lia].
  - destruct (Z.max_spec x m) as [[_ ->]|[_ ->]]; [destruct A3 as [->|A3]; [left; reflexivity|right; apply H; right; exact A3]|].
    right. apply H. left. reflexivity.
Qed.
Lemma is_max_ext m l l' : is_max m l -> (forall y, In y l <-> In y l') -> is_max m l'.
Proof. intros (A1 & A2 & A3) H. split; [exact A1|]. split; [intros x Hx; apply A2, H; exact Hx|destruct A3 as [->|A3]; [left; reflexivity|right; apply H; exact A3]]. Qed.
Lemma zmax_list_is_max l : is_max (zmax_list l) l.
Proof.
  unfold zmax_list. assert (G : forall l acc done, is_max acc done -> is_max (fold_left Z.max l acc) (done ++ l)).
  { induction l0 as [|x r IH]; intros acc done H; cbn [fold_left]; [rewrite app_nil_r; exact H|].
    replace (done ++ x :: r) with ((done ++ [x]) ++ r) by (rewrite <- app_assoc; reflexivity). apply IH.
    rewrite Z.max_comm. apply (is_max_add acc done x); [exact H|]. intros y. rewrite in_app_iff. cbn [In].
    split; [intros [H0|[H0|[]]]; [right; exact H0|left; symmetry; exact H0]|intros [H0|H0]; [right; left; symmetry; exact H0|left; exact H0]]. }
  apply (G l 0 []). exact is_max_nil.
Qed.

(* ================================================================================================================ *)
(* one feature structure: _parse_feature_structure computes den_fs                                                  *)
(* ================================================================================================================ *)

Lemma attrs_known_ok s ti ids sofa_ids m : forallb (member_ok s ti ids sofa_ids) m = true -> attrs_known ti m = Ok tt.
Proof.
  unfold attrs_known. intros H. induction m as [|kv r IH]; [reflexivity|]. cbn [forallb] in H. apply andb_true_iff in H. destruct H as [Hk Hr].
  cbn [fold_left bind]. unfold member_ok in Hk.
  destruct (classify (fst kv)) as [n|n|n|]; try (destruct (xfind (ti_feats ti) n); [|discriminate]); exact (IH Hr).
Qed.

Definition after_fs (st : lstate) (i : xid) (cf : cfs) : lstate :=
  mkL (l_sofas st) (l_stab st) (if zmem i (l_tab st) then l_tab st else l_tab st ++ [i]) (zaset i cf (l_fs st))
      (Z.max i (l_max_id st)) (l_max_num st) (l_init st) (l_ahead st) (l_made st ++ [i]).

Lemma load_fs_den L s st e stab r :
  den_fs L s stab e = Ok r ->
  (forall k, zlookup k (l_stab st) = zlookup k stab) ->
  (forall t0 ti, e_type e = Some t0 -> sch_find s (norm_tname t0) = Some ti -> is_array_name (norm_tname t0) = false ->
     attrs_known ti (snd e) = Ok tt) ->
  load_fs L s st e = Ok (after_fs st (fst e) (snd r)) /\ fst r = fst e.
Proof.
  intros Hd Hst Hattrs. unfold den_fs in Hd. unfold load_fs, after_fs.
  destruct (e_type e) as [t0|] eqn:Et; [|discriminate]. destruct (sch_find s (norm_tname t0)) as [ti|] eqn:Eti; [|discriminate].
  destruct (is_array_name (norm_tname t0)) eqn:Ea.
  - apply bind_Ok in Hd as (els & Eels & Hd). inversion Hd; subst r. rewrite Eels. cbn [bind fst snd]. split; reflexivity.
  - rewrite (Hattrs t0 ti eq_refl Eti Ea). cbn [bind].
    apply bind_Ok in Hd as (fv & Efv & Hd). apply bind_Ok in Hd as (fv' & Efv' & Hd). inversion Hd; subst r. rewrite Efv. cbn [bind].
    unfold sofa_text_tab.
    assert (Efv2 : (if isa s (norm_tname t0) T_ANNOTATION
                    then match alookup "sofa" fv with
                         | Some (CRef sid) => match zlookup sid (l_stab st) with
                                              | Some txt => Ok (map (fun p => if is_offset_name (fst p) then (fst p, conv_off txt (snd p)) else p) fv)
                                              | None => Err EAttribute end
                         | _ => Err EAttribute end
                    else Ok fv) = Ok fv').
    { destruct (isa s (norm_tname t0) T_ANNOTATION); [|exact Efv']. destruct (alookup "sofa" fv) as [[]|]; try exact Efv'. rewrite Hst. exact Efv'. }
    rewrite Efv2. cbn [bind fst snd]. split; reflexivity.
Qed.

(* ================================================================================================================ *)
(* one sofa: _parse_sofa computes den_sofa (members are filled in by the %VIEWS pass)                               *)
(* ================================================================================================================ *)

Definition after_sofa (st1 : lstate) (cs0 : csofa) : lstate :=
  mkL (upsert_sofa cs0 (l_sofas st1)) (zaset (cs_id cs0) (cs_text cs0) (l_stab st1))
      (if zmem (cs_id cs0) (l_tab st1) then l_tab st1 else l_tab st1 ++ [cs_id cs0]) (l_fs st1)
      (Z.max (cs_id cs0) (l_max_id st1)) (Z.max (cs_num cs0) (l_max_num st1))
      (l_init st1 || String.eqb (cs_name cs0) "_InitialView") (l_ahead st1) (l_made st1).

Lemma load_sofa_den L s dict es views st st1 e cs :
  den_sofa L views e = Ok cs ->
  prefetch_array L s dict es st (snd e) = Ok st1 ->
  (forall r, cs_arr cs = Some r -> zmem r (l_tab st1) = true) ->
  load_sofa L s dict es st e = Ok (after_sofa st1 (set_members cs [])) /\ cs_id cs = fst e.
Proof.
  intros Hd Hp Harr. unfold load_sofa. rewrite Hp. cbn [bind]. unfold den_sofa in Hd.
  destruct (alookup "sofaID" (snd e)) as [[| | | |name| |]|]; try discriminate.
  destruct (alookup "sofaNum" (snd e)) as [[| |num| | | |]|]; try discriminate.
  apply bind_Ok in Hd as (ot & Eot & Hd). apply bind_Ok in Hd as (txt & Etxt & Hd). apply bind_Ok in Hd as (mime & Emime & Hd).
  apply bind_Ok in Hd as (uri & Euri & Hd). apply bind_Ok in Hd as (arr & Earr & Hd). apply bind_Ok in Hd as (members & _ & Hd).
  inversion Hd; subst cs. clear Hd. rewrite Eot. cbn [bind]. rewrite Etxt. cbn [bind]. rewrite Emime. cbn [bind]. rewrite Euri. cbn [bind].
  cbn [cs_arr] in Harr.
  assert (Ha : match alookup (refkey "sofaArray") (snd e) with
               | Some (JInt r) => if zmem r (l_tab st1) then Some r else None
               | _ => None end = arr).
  { destruct (alookup (refkey "sofaArray") (snd e)) as [[| |i| | | |]|]; inversion Earr; subst arr; try reflexivity.
    rewrite (Harr i eq_refl). reflexivity. }
  rewrite Ha. unfold after_sofa, set_members. cbn [cs_id cs_num cs_name cs_text cs_mime cs_uri cs_arr]. split; reflexivity.
Qed.

(* ================================================================================================================ *)
(* association lists keyed by ids                                                                                    *)
(* ================================================================================================================ *)

Lemma zaset_keys {V} k (v : V) l x : In x (map fst (zaset k v l)) <-> x = k \/ In x (map fst l).
Proof.
  induction l as [|[k' v'] r IH]; cbn [zaset map fst In]; [intuition|].
  destruct (Z.eqb k k') eqn:E; cbn [map fst In].
  - apply Z.eqb_eq in E. subst k'. intuition.
  - rewrite IH. intuition.
Qed.
Lemma zaset_fresh_keys {V} k (v : V) l : ~ In k (map fst l) -> map fst (zaset k v l) = map fst l ++ [k].
Proof.
  induction l as [|[k' v'] r IH]; intros H; cbn [zaset map fst app]; [reflexivity|].
  destruct (Z.eqb k k') eqn:E; [apply Z.eqb_eq in E; subst k'; exfalso; apply H; left; reflexivity|].
  cbn [map fst]. rewrite IH; [reflexivity|]. intros Hin. apply H. right. exact Hin.
Qed.
Lemma zaset_In {V} k (v : V) l x w : In (x, w) (zaset k v l) -> (x = k /\ w = v) \/ In (x, w) l.
Proof.
  induction l as [|[k' v'] r IH]; cbn [zaset In].
  - intros [E|[]]. inversion E. left. split; reflexivity.
  - destruct (Z.eqb k k') eqn:E; cbn [In].
    + apply Z.eqb_eq in E. subst k'. intros [H|H]; [inversion H; left; split; reflexivity|right; right; exact H].
    + intros [H|H]; [right; left; exact H|]. destruct (IH H) as [H'|H']; [left; exact H'|right; right; exact H'].
Qed.
Lemma zaset_In_new {V} k (v : V) l : In (k, v) (zaset k v l).
Proof.
  induction l as [|[k' v'] r IH]; cbn [zaset In]; [left; reflexivity|].
  destruct (Z.eqb k k') eqn:E; cbn [In]; [apply Z.eqb_eq in E; subst; left; reflexivity|right; exact IH].
Qed.
Lemma zaset_NoDup {V} k (v : V) l : NoDup (map fst l) -> NoDup (map fst (zaset k v l)).
Proof.
  induction l as [|[k' v'] r IH]; cbn [zaset map fst]; intros H; [constructor; [intros []|constructor]|].
  inversion H as [|? ? Hn H']; subst. destruct (Z.eqb k k') eqn:E; cbn [map fst].
  - constructor; assumption.
  - constructor; [|apply IH; exact H']. intros Hin. apply zaset_keys in Hin. destruct Hin as [->|Hin]; [rewrite Z.eqb_refl in E; discriminate|contradiction].
Qed.
Lemma zlookup_zaset {V} k (v : V) l x : zlookup x (zaset k v l) = if Z.eqb x k then Some v else zlookup x l.
Proof.
  induction l as [|[k' v'] r IH]; cbn [zaset zlookup]; [reflexivity|].
  destruct (Z.eqb k k') eqn:E; cbn [zlookup].
  - apply Z.eqb_eq in E. subst k'. destruct (Z.eqb x k); reflexivity.
  - rewrite IH. destruct (Z.eqb x k') eqn:E2; [|reflexivity]. apply Z.eqb_eq in E2. subst k'.
    destruct (Z.eqb x k) eqn:E3; [apply Z.eqb_eq in E3; subst; rewrite Z.eqb_refl in E; discriminate|reflexivity].
Qed.
Lemma zlookup_app_new {V} x l k (v : V) : ~ In k (map fst l) ->
  zlookup x (l ++ [(k, v)]) = if Z.eqb x k then Some v else zlookup x l.
Proof.
  intros Hn. induction l as [|[k' v'] r IH]; cbn [app zlookup]; [reflexivity|].
  destruct (Z.eqb x k') eqn:E.
  - apply Z.eqb_eq in E. subst k'. destruct (Z.eqb x k) eqn:E2; [|reflexivity]. apply Z.eqb_eq in E2. subst. exfalso. apply Hn. left. reflexivity.
  - apply IH. intros H. apply Hn. right. exact H.
Qed.
Lemma In_tab_add (i : xid) tab x : In x (if zmem i tab then tab else tab ++ [i]) <-> x = i \/ In x tab.
Proof.
  destruct (zmem i tab) eqn:E.
  - apply zmem_In in E. split; [intros H; right; exact H|intros [->|H]; assumption].
  - rewrite in_app_iff. cbn [In]. intuition.
Qed.
Lemma entry_unique (es : list entry) e e' : NoDup (map fst es) -> In e es -> In e' es -> fst e = fst e' -> e = e'.
Proof.
  induction es as [|x r IH]; intros ND H1 H2 E; [destruct H1|]. cbn [map] in ND. inversion ND as [|? ? Hn ND']; subst.
  destruct H1 as [->|H1], H2 as [->|H2]; try reflexivity.
  - exfalso. apply Hn. rewrite E. apply in_map. exact H2.
  - exfalso. apply Hn. rewrite <- E. apply in_map. exact H1.
  - apply IH; assumption.
Qed.

(* ================================================================================================================ *)
(* cas.sofas under _get_or_create_view                                                                               *)
(* ================================================================================================================ *)

Definition named (n : string) (x : csofa) : bool := String.eqb (cs_name x) n.
Lemma no_name_id n (cs : csofa) r : ~ In n (map cs_name r) ->
  map (fun x => if String.eqb (cs_name x) n then cs else x) r = r /\ filter (fun x => negb (named n x)) r = r.
Proof.
  induction r as [|z r' IH]; intros Hn; [split; reflexivity|]. cbn [map filter]. unfold named at 1.
  destruct (String.eqb (cs_name z) n) eqn:Ez; [apply String.eqb_eq in Ez; exfalso; apply Hn; left; exact Ez|]. cbn [negb].
  destruct IH as [A B]; [intros H; apply Hn; right; exact H|]. rewrite A, B. split; reflexivity.
Qed.
Lemma upsert_perm cs l : NoDup (map cs_name l) ->
  Permutation (upsert_sofa cs l) (filter (fun x => negb (named (cs_name cs) x)) l ++ [cs]) /\ NoDup (map cs_name (upsert_sofa cs l)).
Proof.
  intros ND. unfold upsert_sofa. destruct (existsb (fun x => String.eqb (cs_name x) (cs_name cs)) l) eqn:E.
  - (* replaced in place *)
    revert E. induction l as [|y r IH]; intros E; [discriminate|].
    cbn [map] in ND. inversion ND as [|? ? Hn ND']; subst. cbn [map filter]. unfold named at 1. cbn [existsb] in E.
    destruct (String.eqb (cs_name y) (cs_name cs)) eqn:Ey; cbn [negb].
    + apply String.eqb_eq in Ey.
      destruct (no_name_id (cs_name cs) cs r) as [-> ->]; [rewrite <- Ey; exact Hn|]. split; [apply Permutation_cons_append|]. cbn [map]. rewrite <- Ey. constructor; assumption.
    + cbn [orb] in E. destruct (IH ND' E) as [P N]. split; [cbn [app]; constructor; exact P|]. cbn [map]. constructor; [|exact N].
      intros Hin. apply in_map_iff in Hin. destruct Hin as (z & Ez & Hz). apply in_map_iff in Hz. destruct Hz as (z0 & <- & Hz0).
      destruct (String.eqb (cs_name z0) (cs_name cs)) eqn:E0.
      * rewrite Ez in Ey. rewrite String.eqb_refl in Ey. discriminate.
      * apply Hn. rewrite <- Ez. apply in_map. exact Hz0.
  - (* appended *)
    assert (Hf : filter (fun x => negb (named (cs_name cs) x)) l = l).
    { clear ND. induction l as [|y r IH]; [reflexivity|]. cbn [existsb] in E. apply orb_false_iff in E. destruct E as [E1 E2].
      cbn [filter]. unfold named at 1. rewrite E1. cbn [negb]. rewrite (IH E2). reflexivity. }
    rewrite Hf. split; [apply Permutation_refl|]. rewrite map_app. cbn [map]. apply NoDup_snoc; [exact ND|].
    intros Hin. apply in_map_iff in Hin. destruct Hin as (z & Ez & Hz).
    assert (existsb (fun x => String.eqb (cs_name x) (cs_name cs)) l = true) by (apply existsb_exists; exists z; split; [exact Hz|rewrite Ez; apply String.eqb_refl]).
    congruence.
Qed.

(* all the sofas of the document registered: the initial sofa survives iff no sofa of the document is called _InitialView *)
Lemma filter_true {A} (l : list A) : filter (fun _ => true) l = l.
Proof. induction l as [|a r IH]; [reflexivity|cbn [filter]; rewrite IH; reflexivity]. Qed.
Lemma upsert_fold_perm : forall (l acc : list csofa), NoDup (map cs_name acc) -> NoDup (map cs_name l) ->
  Permutation (fold_left (fun a cs => upsert_sofa cs a) l acc)
              (filter (fun x => negb (existsb (fun cs => named (cs_name cs) x) l)) acc ++ l)
  /\ NoDup (map cs_name (fold_left (fun a cs => upsert_sofa cs a) l acc)).
Proof.
  induction l as [|cs r IH]; intros acc NDa NDl.
  - cbn [fold_left existsb negb]. rewrite app_nil_r. split; [|exact NDa].
    rewrite filter_true.
    apply Permutation_refl.
  - cbn [fold_left]. cbn [map] in NDl. inversion NDl as [|? ? Hn NDr]; subst. destruct (upsert_perm cs acc NDa) as [P1 N1].
    destruct (IH (upsert_sofa cs acc) N1 NDr) as [P2 N2]. split; [|exact N2].
    eapply Permutation_trans; [exact P2|].
    eapply Permutation_trans; [apply Permutation_app_tail; apply filter_perm; exact P1|].
    rewrite filter_app. cbn [filter].
    assert (Hcs : existsb (fun cs0 => named (cs_name cs0) cs) r = false).
    { destruct (existsb (fun cs0 => named (cs_name cs0) cs) r) eqn:E; [|reflexivity]. exfalso. apply existsb_exists in E.
      destruct E as (z & Hz & Ez). unfold named in Ez. apply String.eqb_eq in Ez. apply Hn. rewrite Ez. apply in_map. exact Hz. }
    rewrite Hcs. cbn [negb]. rewrite <- app_assoc. cbn [app].
    assert (Hff : filter (fun x => negb (existsb (fun cs0 => named (cs_name cs0) x) r)) (filter (fun x => negb (named (cs_name cs) x)) acc)
                  = filter (fun x => negb (existsb (fun cs0 => named (cs_name cs0) x) (cs :: r))) acc).
    { clear. induction acc as [|a acc' IHa]; [reflexivity|]. cbn [filter existsb]. destruct (named (cs_name cs) a); cbn [negb orb filter]; [exact IHa|].
      destruct (existsb (fun cs0 => named (cs_name cs0) a) r); cbn [negb]; rewrite IHa; reflexivity. }
    rewrite Hff. apply Permutation_refl.
Qed.

(* ================================================================================================================ *)
(* facts about what den_sofa / den_fs return                                                                         *)
(* ================================================================================================================ *)

Lemma den_sofa_fields L views e cs : den_sofa L views e = Ok cs ->
  cs_arr cs = match alookup (refkey "sofaArray") (snd e) with Some (JInt i) => Some i | _ => None end /\
  (exists ms, cs_members cs = zsort ms /\
      match alookup (cs_name cs) views with
      | Some v => match jget K_MEMBERS v with Some (JArr l) => mapM jint l = Ok ms | _ => False end
      | None => ms = [] end) /\
  alookup "sofaID" (snd e) = Some (JStr (cs_name cs)).
Proof.
  unfold den_sofa. destruct (alookup "sofaID" (snd e)) as [[| | | |name| |]|]; try discriminate.
  destruct (alookup "sofaNum" (snd e)) as [[| |num| | | |]|]; try discriminate. intros Hd.
  apply bind_Ok in Hd as (ot & Eot & Hd). apply bind_Ok in Hd as (txt & Etxt & Hd). apply bind_Ok in Hd as (mime & Emime & Hd).
  apply bind_Ok in Hd as (uri & Euri & Hd). apply bind_Ok in Hd as (arr & Earr & Hd). apply bind_Ok in Hd as (members & Em & Hd).
  inversion Hd; subst cs. cbn [cs_arr cs_members cs_name]. split; [|split; [|reflexivity]].
  - destruct (alookup (refkey "sofaArray") (snd e)) as [[| |i| | | |]|]; inversion Earr; reflexivity.
  - exists members. split; [reflexivity|]. destruct (alookup name views) as [v|]; [|inversion Em; reflexivity].
    destruct (jget K_MEMBERS v) as [[| | | | |l|]|]; try discriminate. exact Em.
Qed.

(* an array entry is read without looking at the sofas *)
Lemma den_fs_array_stab L s stab stab' e t0 : e_type e = Some t0 -> is_array_name (norm_tname t0) = true ->
  den_fs L s stab e = den_fs L s stab' e.
Proof. intros Et Ha. unfold den_fs. rewrite Et. destruct (sch_find s (norm_tname t0)); [|reflexivity]. rewrite Ha. reflexivity. Qed.

(* ---- the deferred fix-ups change nothing when every reference of the document resolves ---- *)
Definition val_refs_in (tab : list xid) (v : cval) : Prop :=
  match v with
  | CRef i => In i tab
  | CColl _ l => forall i, In (CRef i) l -> In i tab
  | _ => True
  end.
Lemma resolve_id tab v : val_refs_in tab v -> resolve tab v = v.
Proof.
  destruct v as [| | | | |i|k l]; cbn [resolve val_refs_in]; try reflexivity.
  - intros H. apply zmem_In in H. rewrite H. reflexivity.
  - intros H. f_equal. induction l as [|x r IH]; [reflexivity|]. cbn [map]. rewrite IH; [|intros i Hi; apply H; right; exact Hi].
    f_equal. destruct x; try reflexivity. assert (Hz : zmem i tab = true) by (apply zmem_In; apply H; left; reflexivity). rewrite Hz. reflexivity.
Qed.
Lemma resolve_fs_id tab cf : (forall x v, In (x, v) (cf_feats cf) -> val_refs_in tab v) -> resolve_fs tab cf = cf.
Proof.
  intros H. unfold resolve_fs. destruct cf as [t feats]. cbn [cf_type cf_feats] in *. f_equal.
  induction feats as [|[x v] r IH]; [reflexivity|]. cbn [map fst snd]. rewrite (resolve_id tab v (H x v (or_introl eq_refl))).
  rewrite IH; [reflexivity|]. intros x' v' Hin. apply (H x' v'). right. exact Hin.
Qed.

Lemma finsert_In x y l : In x (finsert y l) <-> x = y \/ In x l.
Proof.
  induction l as [|z r IH]; cbn [finsert In]; [intuition|]. destruct (String.leb (fst y) (fst z)); cbn [In]; [intuition|]. rewrite IH. intuition.
Qed.
Lemma sort_feats_In x l : In x (sort_feats l) <-> In x l.
Proof.
  unfold sort_feats. induction l as [|y r IH]; cbn [fold_right In]; [tauto|]. rewrite finsert_In, IH. intuition.
Qed.

Lemma den_prim_norefs tab j v : den_prim j = Ok v -> val_refs_in tab v.
Proof. destruct j; cbn [den_prim]; intros H; inversion H; exact I. Qed.
Lemma den_special_norefs tab j v : den_special j = Ok v -> val_refs_in tab v.
Proof.
  destruct j; cbn [den_special]; intros H; try discriminate; [inversion H; exact I|].
  destruct (String.eqb s "NaN"); [inversion H; exact I|]. destruct (String.eqb s "Infinity" || String.eqb s "Inf"); [inversion H; exact I|].
  destruct (String.eqb s "-Infinity" || String.eqb s "-Inf"); [inversion H; exact I|discriminate].
Qed.

Lemma mapM_den_ref_refs tab l : forallb (ref_ok tab) l = true -> forall els, mapM den_ref l = Ok els -> forall i, In (CRef i) els -> In i tab.
Proof.
  induction l as [|j r IH]; intros Hok els Hm i Hi; cbn [mapM] in Hm; [inversion Hm; subst; destruct Hi|].
  cbn [forallb] in Hok. apply andb_true_iff in Hok. destruct Hok as [Hj Hr].
  apply bind_Ok in Hm as (v & Ev & Hm). apply bind_Ok in Hm as (vs & Evs & Hm). inversion Hm; subst els. destruct Hi as [Hi|Hi]; [|exact (IH Hr vs Evs i Hi)].
  subst v. destruct j; cbn [den_ref] in Ev; try discriminate. inversion Ev; subst. cbn [ref_ok] in Hj. apply zmem_In. exact Hj.
Qed.
Lemma mapM_norefs {A} (f : A -> res cval) tab l : (forall a v, f a = Ok v -> val_refs_in tab v) ->
  forall els, mapM f l = Ok els -> forall i, In (CRef i) els -> In i tab.
Proof.
  intros Hf. induction l as [|a r IH]; intros els Hm i Hi; cbn [mapM] in Hm; [inversion Hm; subst; destruct Hi|].
  apply bind_Ok in Hm as (v & Ev & Hm). apply bind_Ok in Hm as (vs & Evs & Hm). inversion Hm; subst els. destruct Hi as [Hi|Hi]; [|exact (IH vs Evs i Hi)].
  subst v. exact (Hf a (CRef i) Ev).
Qed.

(* what a well-formed entry denotes mentions only ids of the document *)
Lemma den_fs_refs L s stab ids sofa_ids tab e r :
  (forall i, In i ids -> In i tab) -> (forall i, In i sofa_ids -> In i tab) ->
  entry_ok L s ids sofa_ids e = true -> den_fs L s stab e = Ok r ->
  forall x v, In (x, v) (cf_feats (snd r)) -> val_refs_in tab v.
Proof.
  intros Hids Hsids Hok Hd. unfold entry_ok in Hok. apply andb_true_iff in Hok. destruct Hok as [_ Hok]. unfold den_fs in Hd.
  destruct (e_type e) as [t0|]; [|discriminate]. destruct (sch_find s (norm_tname t0)) as [ti|]; [|discriminate].
  destruct (is_array_name (norm_tname t0)).
  - apply andb_true_iff in Hok. destruct Hok as [_ Hel]. apply bind_Ok in Hd as (els & Eels & Hd). inversion Hd; subst r. cbn [snd cf_feats].
    intros x v [E|[]]. inversion E; subst x v. cbn [val_refs_in]. unfold den_elements in Eels. unfold elements_ok in Hel.
    destruct (alookup K_ELEMENTS (snd e)) as [j|]; [|inversion Eels; intros i []].
    destruct j as [|b|z|q|str|l|m]; try (inversion Eels; intros i []; fail);
      try (destruct (String.eqb (norm_tname t0) T_BYTE_ARRAY) in Eels; discriminate).
    + (* a string: base64 or "" *)
      destruct str; [inversion Eels; intros i []|]. destruct (String.eqb (norm_tname t0) T_BYTE_ARRAY); [|discriminate].
      destruct (b64_dec L _); [|discriminate]. inversion Eels. intros i Hi. apply in_map_iff in Hi. destruct Hi as (z & Ez & _). discriminate.
    + destruct l as [|j0 l0]; [inversion Eels; intros i []|].
      destruct (String.eqb (norm_tname t0) T_BYTE_ARRAY); [discriminate|].
      destruct (String.eqb (norm_tname t0) T_FLOAT_ARRAY || String.eqb (norm_tname t0) T_DOUBLE_ARRAY).
      * exact (mapM_norefs den_special tab _ (den_special_norefs tab) els Eels).
      * destruct (String.eqb (norm_tname t0) T_FS_ARRAY).
        -- apply (mapM_den_ref_refs tab (j0 :: l0)); [|exact Eels]. rewrite forallb_forall in *. intros j Hj. specialize (Hel j Hj).
           destruct j; cbn [ref_ok] in *; try assumption. apply zmem_In. apply Hids. apply zmem_In. exact Hel.
        -- exact (mapM_norefs den_prim tab _ (den_prim_norefs tab) els Eels).
  - apply andb_true_iff in Hok. destruct Hok as [Hok _]. apply andb_true_iff in Hok. destruct Hok as [Hmem _]. rewrite forallb_forall in Hmem.
    apply bind_Ok in Hd as (fv & Efv & Hd). apply bind_Ok in Hd as (fv' & Efv' & Hd). inversion Hd; subst r. cbn [snd cf_feats].
    assert (Hfv : forall x v, In (x, v) fv -> val_refs_in tab v).
    { intros x v Hin. destruct (mapM_In _ _ _ Efv (x, v) Hin) as (fd & Hfd & Ed). unfold den_feature in Ed.
      apply bind_Ok in Ed as (v0 & Ev0 & Ed). inversion Ed; subst x v0.
      destruct (alookup (refkey (fd_xname fd)) (snd e)) as [j|] eqn:Eref.
      - destruct j; cbn [den_ref] in Ev0; try discriminate; inversion Ev0; [exact I|]. cbn [val_refs_in].
        apply alookup_In in Eref. specialize (Hmem _ Eref). unfold member_ok in Hmem. cbn [fst snd classify refkey] in Hmem.
        destruct (xfind (ti_feats ti) (fd_xname fd)) as [fd'|]; [|discriminate]. apply andb_true_iff in Hmem. destruct Hmem as [_ Hmem].
        destruct (String.eqb (fd_range fd') T_SOFA); cbn [ref_ok] in Hmem; apply zmem_In in Hmem; [apply Hsids|apply Hids]; exact Hmem.
      - destruct (alookup (numkey (fd_xname fd)) (snd e)) as [j|]; [exact (den_special_norefs tab j v Ev0)|].
        destruct (alookup (fd_xname fd) (snd e)) as [j|]; [exact (den_prim_norefs tab j v Ev0)|inversion Ev0; exact I]. }
    intros x v Hin. apply (proj1 (sort_feats_In _ _)) in Hin.
    destruct (isa s (norm_tname t0) T_ANNOTATION); [|inversion Efv'; subst fv'; exact (Hfv x v Hin)].
    destruct (alookup "sofa" fv) as [[| | | | |sid|]|]; try discriminate. destruct (zlookup sid stab) as [txt|]; [|discriminate].
    inversion Efv'; subst fv'. apply in_map_iff in Hin. destruct Hin as ([x0 v0] & E & Hin0). cbn [fst snd] in E.
    destruct (is_offset_name x0); inversion E; subst; [|exact (Hfv _ _ Hin0)].
    specialize (Hfv _ _ Hin0). destruct v0; cbn [conv_off]; try exact Hfv; destruct txt; exact I.
Qed.

(* ================================================================================================================ *)
(* the `sofa` feature of what an entry denotes                                                                        *)
(* ================================================================================================================ *)

Lemma den_feature_key m fd p : den_feature m fd = Ok p -> fst p = fd_xname fd.
Proof. unfold den_feature. intros H. apply bind_Ok in H as (v & _ & H). inversion H. reflexivity. Qed.

Lemma den_fs_feats L s stab e i cf q : den_fs L s stab e = Ok (i, cf) -> In q (cf_feats cf) ->
  fst q = "elements" \/
  exists t0 ti fd, e_type e = Some t0 /\ sch_find s (norm_tname t0) = Some ti /\ is_array_name (norm_tname t0) = false /\
                   In fd (ti_feats ti) /\ fd_xname fd = fst q /\
                   (is_offset_name (fst q) = false -> den_feature (snd e) fd = Ok q).
Proof.
  unfold den_fs. intros Hd Hq. destruct (e_type e) as [t0|] eqn:Et; [|discriminate]. destruct (sch_find s (norm_tname t0)) as [ti|] eqn:Eti; [|discriminate].
  destruct (is_array_name (norm_tname t0)) eqn:Ea.
  - apply bind_Ok in Hd as (els & _ & Hd). inversion Hd; subst. destruct Hq as [<-|[]]. left. reflexivity.
  - right. apply bind_Ok in Hd as (fv & Efv & Hd). apply bind_Ok in Hd as (fv' & Efv' & Hd). inversion Hd; subst i cf. cbn [cf_feats] in Hq.
    apply (proj1 (sort_feats_In _ _)) in Hq.
    assert (Hfv : exists p, In p fv /\ fst p = fst q /\ (is_offset_name (fst q) = false -> p = q)).
    { destruct (isa s (norm_tname t0) T_ANNOTATION); [|inversion Efv'; subst fv'; exists q; repeat split; auto].
      destruct (alookup "sofa" fv) as [[| | | | |sid|]|]; try discriminate. destruct (zlookup sid stab); [|discriminate]. inversion Efv'; subst fv'.
      apply in_map_iff in Hq. destruct Hq as (p & Ep & Hp). exists p. split; [exact Hp|].
      destruct (is_offset_name (fst p)) eqn:Eo; subst q; cbn [fst]; [split; [reflexivity|intros H; congruence]|split; [reflexivity|auto]]. }
    destruct Hfv as (p & Hp & Hk & Hpq). destruct (mapM_In _ _ _ Efv p Hp) as (fd & Hfd & Ed).
    exists t0, ti, fd. split; [reflexivity|]. split; [exact Eti|]. split; [exact Ea|]. split; [exact Hfd|].
    split; [rewrite <- Hk; symmetry; exact (den_feature_key _ _ _ Ed)|]. intros Ho. rewrite <- (Hpq Ho). exact Ed.
Qed.

Lemma mapM_jint_all l : forallb (fun j => match j with JInt _ => true | _ => false end) l = true -> mapM jint l = Ok (jints l).
Proof.
  induction l as [|j r IH]; [reflexivity|]. cbn [forallb]. intros H. apply andb_true_iff in H. destruct H as [Hj Hr].
  destruct j; try discriminate. cbn [mapM jint bind]. rewrite (IH Hr). reflexivity.
Qed.
Lemma mapM_jint_jints l ms : mapM jint l = Ok ms -> jints l = ms.
Proof.
  revert ms. induction l as [|j r IH]; intros ms H; cbn [mapM] in H; [inversion H; reflexivity|].
  apply bind_Ok in H as (i & Ei & H). apply bind_Ok in H as (is & Eis & H). inversion H; subst ms. destruct j; try discriminate. inversion Ei; subst.
  unfold jints. cbn [flat_map app]. f_equal. exact (IH is Eis).
Qed.
Lemma fold_check (cond : Z -> bool) ms : (forall i, In i ms -> cond i = true) ->
  fold_left (fun (acc : res unit) i => do _ <- acc ;; if cond i then Ok tt else Err EKey) ms (Ok tt) = Ok tt.
Proof.
  induction ms as [|i r IH]; intros H; [reflexivity|]. cbn [fold_left bind]. rewrite (H i (or_introl eq_refl)). apply IH. intros j Hj. apply H. right. exact Hj.
Qed.
Lemma find_unique_name n l x : NoDup (map cs_name l) -> In x l -> cs_name x = n -> find (fun y => String.eqb (cs_name y) n) l = Some x.
Proof.
  induction l as [|y r IH]; intros ND Hin Hn; [destruct Hin|]. cbn [map] in ND. inversion ND as [|? ? Hni ND']; subst. cbn [find].
  destruct Hin as [->|Hin]; [rewrite String.eqb_refl; reflexivity|].
  destruct (String.eqb (cs_name y) (cs_name x)) eqn:E; [apply String.eqb_eq in E; exfalso; apply Hni; rewrite E; apply in_map; exact Hin|].
  apply IH; [exact ND'|exact Hin|reflexivity].
Qed.

(* _parse_view on a view whose sofa exists and whose members are structures of the table *)
Definition repoint (sid : xid) (ms : list xid) (p : xid * cfs) : xid * cfs :=
  if zmem (fst p) ms && (match alookup "sofa" (cf_feats (snd p)) with Some _ => true | None => false end)
  then (fst p, mkCfs (cf_type (snd p)) (map (fun q => if String.eqb (fst q) "sofa" then (fst q, CRef sid) else q) (cf_feats (snd p))))
  else p.
Definition add_members (name : string) (ms : list xid) (x : csofa) : csofa :=
  if String.eqb (cs_name x) name then set_members x (cs_members x ++ ms) else x.
Lemma load_view_run st name vj l ms :
  existsb (fun x => String.eqb (cs_name x) name) (l_sofas st) = true ->
  jget K_MEMBERS vj = Some (JArr l) -> mapM jint l = Ok ms ->
  (forall i, In i ms -> zmem i (l_tab st) && negb (existsb (fun x => Z.eqb (cs_id x) i) (l_sofas st)) = true) ->
  load_view (Ok st) (name, vj) =
    Ok (mkL (map (add_members name ms) (l_sofas st)) (l_stab st) (l_tab st)
            (map (repoint (match find (fun x => String.eqb (cs_name x) name) (l_sofas st) with Some x => cs_id x | None => 0 end) ms) (l_fs st))
            (l_max_id st) (l_max_num st) (l_init st) (l_ahead st) (l_made st)).
Proof.
  intros H1 H2 H3 H4. unfold load_view. cbn [bind fst snd]. rewrite H1. cbn [bind]. rewrite H2, H3. cbn [bind].
  rewrite (fold_check (fun i => zmem i (l_tab st) && negb (existsb (fun x => Z.eqb (cs_id x) i) (l_sofas st))) ms H4). cbn [bind]. reflexivity.
Qed.
Lemma load_view_bind acc kv : load_view acc kv = do a <- acc ;; load_view (Ok a) kv.
Proof. destruct acc; reflexivity. Qed.

(* ================================================================================================================ *)
(* the passes of deserialize over a well-formed document                                                             *)
(* ================================================================================================================ *)

Section Load.
  Variable L : lex.
  Variable s : schema.
  Variable d : json.
  Variable es : list entry.
  Variable views : list (string * json).
  Variable sofas : list csofa.
  Variable fss : list (xid * cfs).
  Local Notation S := (filter is_sofa_entry es).
  Local Notation F := (filter not_sofa es).
  Local Notation stab := (map (fun cs => (cs_id cs, cs_text cs)) sofas).
  Hypothesis Hes : fs_entries d = Ok es.
  Hypothesis Hvs : doc_views d = Ok views.
  Hypothesis Hsofas : mapM (den_sofa L views) S = Ok sofas.
  Hypothesis Hfss : mapM (den_fs L s stab) F = Ok fss.
  Hypothesis Hok : doc_ok_json L s d = true.

  Lemma ok_parts :
    NoDup (map fst es) /\ (forall e, In e es -> 0 < fst e) /\ NoDup (map fst views) /\ NoDup (map cs_name sofas) /\
    (forall cs a, In cs sofas -> cs_arr cs = Some a -> exists e, In e F /\ fst e = a /\ e_type e = Some T_BYTE_ARRAY) /\
    (forall cs, In cs sofas -> exists v, alookup (cs_name cs) views = Some v) /\
    (forall kv, In kv views -> view_ok s F sofas kv = true) /\
    (forall e, In e F -> entry_ok L s (map fst F) (map fst S) e = true).
  Proof.
    unfold doc_ok_json in Hok. rewrite Hes, Hvs in Hok. cbv zeta in Hok. rewrite Hsofas in Hok.
    change (fun e : entry => negb (is_sofa_entry e)) with not_sofa in Hok.
    rewrite !andb_true_iff in Hok. destruct Hok as (((((((((A1 & A2) & A3) & A4) & _) & _) & A7) & A8) & A9) & A10).
    rewrite forallb_forall in A2, A7, A8, A9, A10.
    split; [apply znodup_NoDup; exact A1|]. split.
    { intros e He. specialize (A2 (fst e) (in_map fst _ _ He)). lia. }
    split; [apply snodup_NoDup; exact A3|]. split; [apply snodup_NoDup; exact A4|]. split.
    { intros cs a Hcs Ha. specialize (A7 cs Hcs). rewrite Ha in A7. apply existsb_exists in A7. destruct A7 as (e & He & Hc).
      apply andb_true_iff in Hc. destruct Hc as [H1 H2]. apply Z.eqb_eq in H1. exists e. split; [exact He|]. split; [exact H1|].
      destruct (e_type e) as [t|]; [|discriminate]. apply String.eqb_eq in H2. subst t. reflexivity. }
    split.
    { intros cs Hcs. specialize (A8 cs Hcs). destruct (alookup (cs_name cs) views) as [v|]; [exists v; reflexivity|discriminate]. }
    split; [exact A9|exact A10].
  Qed.

  (* ---- facts used throughout ---- *)
  Lemma mapM_app_inv {A B} (f : A -> res B) a b r : mapM f (a ++ b) = Ok r ->
    exists ra rb, mapM f a = Ok ra /\ mapM f b = Ok rb /\ r = ra ++ rb.
  Proof.
    rewrite mapM_app. intros H. apply bind_Ok in H as (ra & Ea & H). apply bind_Ok in H as (rb & Eb & H). inversion H. exists ra, rb. repeat split; assumption.
  Qed.
  Lemma in_S e : In e S -> In e es /\ is_sofa_entry e = true.
  Proof. intros H. apply filter_In in H. exact H. Qed.
  Lemma in_F e : In e F -> In e es /\ is_sofa_entry e = false.
  Proof. intros H. apply filter_In in H. destruct H as [H1 H2]. split; [exact H1|]. unfold not_sofa in H2. apply negb_true_iff in H2. exact H2. Qed.
  Lemma S_F_disjoint e e' : In e S -> In e' F -> fst e <> fst e'.
  Proof.
    intros H1 H2 E. destruct (in_S e H1) as [A1 A2]. destruct (in_F e' H2) as [B1 B2].
    destruct ok_parts as (ND & _). rewrite (entry_unique es e e' ND A1 B1 E) in A2. congruence.
  Qed.
  Lemma F_den e : In e F -> exists cf, den_fs L s stab e = Ok (fst e, cf) /\ In (fst e, cf) fss.
  Proof.
    intros H. destruct (mapM_In_l _ _ _ Hfss e H) as ([i cf] & Hin & E). pose proof (den_fs_id L s _ e _ E) as Hi. cbn [fst] in Hi. subst i.
    exists cf. split; assumption.
  Qed.

  (* ---- pass 1: the sofas, in document order, each after the byte array it refers to ---- *)
  Definition cs0 (cs : csofa) : csofa := set_members cs [].
  Definition U (sd : list csofa) : list csofa := fold_left (fun a cs => upsert_sofa (cs0 cs) a) sd [initial_sofa].

  Definition Inv1 (done : list entry) (st : lstate) : Prop :=
    exists sd, mapM (den_sofa L views) done = Ok sd /\
      l_sofas st = U sd /\
      (forall k, zlookup k (l_stab st) = zlookup k (map (fun cs => (cs_id cs, cs_text cs)) sd)) /\
      (forall i, In i (l_tab st) <-> In i (map fst done) \/ In i (map fst (l_fs st))) /\
      NoDup (map fst (l_fs st)) /\
      (forall i cf, In (i, cf) (l_fs st) -> exists e, In e F /\ den_fs L s stab e = Ok (i, cf)) /\
      is_max (l_max_id st) (l_tab st) /\ is_max (l_max_num st) (map cs_num sd) /\
      l_init st = existsb (named "_InitialView") sd /\
      (* what was fetched ahead is what has been built so far; every object made is the one filed under its id *)
      (forall i, In i (l_ahead st) <-> In i (map fst (l_fs st))) /\ l_made st = map fst (l_fs st).

  Lemma prefetch_step dict done st e cs : Inv1 done st -> In e S -> den_sofa L views e = Ok cs -> In cs sofas ->
    exists st1, prefetch_array L s dict es st (snd e) = Ok st1 /\ Inv1 done st1 /\ (forall r, cs_arr cs = Some r -> zmem r (l_tab st1) = true).
  Proof.
    intros HI He Hd Hcs. destruct (den_sofa_fields L views e cs Hd) as (Harr & _). unfold prefetch_array.
    destruct (alookup (refkey "sofaArray") (snd e)) as [j|]; [|exists st; split; [reflexivity|split; [exact HI|intros r Hr; rewrite Hr in Harr; discriminate]]].
    destruct j as [|b|r|q|q|q|q]; try (exists st; split; [reflexivity|split; [exact HI|intros r0 Hr; rewrite Hr in Harr; discriminate]]).
    destruct ok_parts as (ND & Hpos & _ & _ & Harrays & _).
    destruct (Harrays cs r Hcs Harr) as (ea & Hea & Hr & Hty). destruct (in_F ea Hea) as [Hea_es _].
    assert (Hr0 : Z.eqb r 0 = false) by (apply Z.eqb_neq; specialize (Hpos ea Hea_es); lia).
    rewrite Hr0. cbn [orb]. destruct (zmem r (l_tab st)) eqn:Etab.
    - exists st. split; [reflexivity|]. split; [exact HI|]. intros r0 Hr'. rewrite Harr in Hr'. inversion Hr'; subst r0. exact Etab.
    - assert (Hin : zmem r (map fst es) = true) by (apply zmem_In; rewrite <- Hr; apply in_map; exact Hea_es).
      rewrite Hin. cbn [negb]. rewrite andb_false_r.
      rewrite (fold_unique (load_fs L s) r es ea st ND Hea_es Hr).
      destruct (F_den ea Hea) as (cf & Hden & _). rewrite Hr in Hden.
      assert (Harrname : is_array_name (norm_tname T_BYTE_ARRAY) = true) by reflexivity.
      rewrite (den_fs_array_stab L s stab (l_stab st) ea T_BYTE_ARRAY Hty Harrname) in Hden.
      destruct (load_fs_den L s st ea (l_stab st) (r, cf) Hden (fun k => eq_refl)) as [Hload _].
      { intros t0 ti Et _ Ha. rewrite Hty in Et. inversion Et; subst t0. rewrite Harrname in Ha. discriminate. }
      rewrite Hr in Hload. cbn [snd] in Hload. exists (note_ahead r (after_fs st r cf)). split; [rewrite Hload; reflexivity|].
      destruct HI as (sd & I1 & I2 & I3 & I4 & I5 & I6 & I7 & I8 & I9 & I10 & I11).
      assert (Hfresh : ~ In r (map fst (l_fs st))).
      { intros H. assert (In r (l_tab st)) by (apply I4; right; exact H). apply zmem_In in H0. congruence. }
      split.
      + exists sd. unfold note_ahead, after_fs. cbn [l_sofas l_stab l_tab l_fs l_max_id l_max_num l_init l_ahead l_made]. rewrite Etab.
        split; [exact I1|]. split; [exact I2|]. split; [exact I3|]. split.
        { intros i. rewrite in_app_iff, zaset_keys, I4. cbn [In]. intuition. }
        split; [apply zaset_NoDup; exact I5|]. split.
        { intros i c Hic. apply zaset_In in Hic. destruct Hic as [[-> ->]|Hic]; [|exact (I6 i c Hic)].
          exists ea. split; [exact Hea|]. rewrite (den_fs_array_stab L s stab (l_stab st) ea T_BYTE_ARRAY Hty Harrname). exact Hden. }
        split; [|split; [exact I8|split; [exact I9|]]].
        { apply (is_max_add (l_max_id st) (l_tab st) r); [exact I7|]. intros y. rewrite in_app_iff. cbn [In]. intuition. }
        match goal with |- context [@map ?A ?B ?f (zaset r cf (l_fs st))] =>
          replace (@map A B f (zaset r cf (l_fs st))) with (map fst (l_fs st) ++ [r]) by (symmetry; exact (zaset_fresh_keys r cf (l_fs st) Hfresh)) end.
        split; [|rewrite I11; reflexivity].
        intros i. rewrite !in_app_iff, I10. reflexivity.
      + intros r0 Hr'. rewrite Harr in Hr'. inversion Hr'; subst r0. unfold note_ahead, after_fs. cbn [l_tab]. rewrite Etab. apply zmem_In. apply in_or_app. right. left. reflexivity.
  Qed.

  Lemma NoDup_S : NoDup (map fst S).
  Proof. destruct ok_parts as (ND & _). apply NoDup_filter_map. exact ND. Qed.
  Lemma NoDup_F : NoDup (map fst F).
  Proof. destruct ok_parts as (ND & _). apply NoDup_filter_map. exact ND. Qed.

  Lemma sofa_step dict done e rest st : S = done ++ e :: rest -> Inv1 done st ->
    exists st', load_sofa L s dict es st e = Ok st' /\ Inv1 (done ++ [e]) st'.
  Proof.
    intros Hsplit HI.
    assert (HeS : In e S) by (rewrite Hsplit; apply in_or_app; right; left; reflexivity).
    pose proof Hsofas as Hm. rewrite Hsplit in Hm. destruct (mapM_app_inv _ _ _ _ Hm) as (sd0 & r2 & Esd0 & Er2 & Hsf).
    cbn [mapM] in Er2. apply bind_Ok in Er2 as (cs & Ecs & Er2). apply bind_Ok in Er2 as (sr & Esr & Er2). inversion Er2; subst r2. clear Er2.
    assert (Hcs : In cs sofas) by (rewrite Hsf; apply in_or_app; right; left; reflexivity).
    destruct (prefetch_step dict done st e cs HI HeS Ecs Hcs) as (st1 & Hpre & HI1 & Harr).
    destruct (load_sofa_den L s dict es views st st1 e cs Ecs Hpre Harr) as [Hload Hid].
    exists (after_sofa st1 (set_members cs [])). split; [exact Hload|].
    destruct HI1 as (sd & I1 & I2 & I3 & I4 & I5 & I6 & I7 & I8 & I9 & I10 & I11).
    assert (Hfresh : ~ In (fst e) (map fst done)).
    { pose proof NoDup_S as ND. rewrite Hsplit, map_app in ND. cbn [map] in ND. apply NoDup_remove_2 in ND. intros H. apply ND. apply in_or_app. left. exact H. }
    assert (Hkeys : map cs_id sd = map fst done) by exact (mapM_keys (den_sofa L views) fst cs_id done (den_sofa_id L views) sd I1).
    exists (sd ++ [cs]). unfold after_sofa, set_members.
    cbn [l_sofas l_stab l_tab l_fs l_max_id l_max_num l_init l_ahead l_made cs_id cs_num cs_name cs_text cs_mime cs_uri cs_arr cs_members].
    split. { rewrite mapM_app, I1. cbn [mapM bind]. rewrite Ecs. reflexivity. }
    split. { unfold U. rewrite fold_left_app. cbn [fold_left]. fold (U sd). rewrite <- I2. reflexivity. }
    split.
    { intros k. rewrite zlookup_zaset, map_app. cbn [map]. rewrite zlookup_app_new; [rewrite I3; reflexivity|].
      intros H. rewrite map_map in H. cbn [fst] in H. apply Hfresh. rewrite <- Hid, <- Hkeys.
      apply in_map_iff in H. destruct H as (c0 & Ec & Hc). rewrite <- Ec. apply in_map. exact Hc. }
    split. { intros i. rewrite In_tab_add, I4, map_app, in_app_iff. cbn [map In]. rewrite Hid. intuition. }
    split; [exact I5|]. split; [exact I6|]. split.
    { apply (is_max_add (l_max_id st1) (l_tab st1) (cs_id cs)); [exact I7|]. intros y. apply In_tab_add. }
    split.
    { apply (is_max_add (l_max_num st1) (map cs_num sd) (cs_num cs)); [exact I8|]. intros y. rewrite map_app, in_app_iff. cbn [map In]. intuition. }
    split; [rewrite I9, existsb_app; cbn [existsb]; rewrite orb_false_r; reflexivity|]. split; [exact I10|exact I11].
  Qed.

  Definition st0 : lstate := mkL [initial_sofa] [] [] [] 0 0 false [] [].
  Lemma pass1 dict : exists st1,
    fold_left (fun acc e => do a <- acc ;; if is_sofa_entry e then load_sofa L s dict es a e else Ok a) es (Ok st0) = Ok st1 /\ Inv1 S st1.
  Proof.
    rewrite (fold_filter is_sofa_entry (load_sofa L s dict es) es (Ok st0)).
    apply (rfold_inv (load_sofa L s dict es) Inv1 S S [] st0 eq_refl).
    - exists []. cbn [mapM map l_sofas l_stab l_tab l_fs l_max_id l_max_num l_init l_ahead l_made st0 existsb]. unfold U. cbn [fold_left].
      split; [reflexivity|]. split; [reflexivity|]. split; [reflexivity|]. split; [intros i; split; [intros []|intros [[]|[]]]|].
      split; [constructor|]. split; [intros i cf []|]. split; [exact is_max_nil|]. split; [exact is_max_nil|]. split; [reflexivity|].
      split; [intros i; split; intros []|reflexivity].
    - intros done e rest st Hsplit HI. exact (sofa_step dict done e rest st Hsplit HI).
  Qed.

  (* ---- pass 2: the other feature structures, in document order ---- *)
  Section Pass2.
    Variable st1 : lstate.
    Hypothesis H1 : Inv1 S st1.

    Lemma stab_agree : forall k, zlookup k (l_stab st1) = zlookup k stab.
    Proof. destruct H1 as (sd & I1 & _ & I3 & _). rewrite Hsofas in I1. inversion I1; subst sd. exact I3. Qed.

    (* the entries the second pass parses: not a sofa, not fetched ahead for a sofa (d94ad6a) *)
    Definition todo (e : entry) : bool := negb (is_sofa_entry e || zmem (fst e) (l_ahead st1)).
    Local Notation F2 := (filter todo es).
    Lemma in_F2 e : In e F2 -> In e F /\ ~ In (fst e) (l_ahead st1).
    Proof.
      intros H. apply filter_In in H. destruct H as [He Ht]. unfold todo in Ht. apply negb_true_iff, orb_false_iff in Ht. destruct Ht as [Hs Ha].
      split; [apply filter_In; split; [exact He|unfold not_sofa; rewrite Hs; reflexivity]|]. intros Hin. apply zmem_In in Hin. congruence.
    Qed.
    Lemma NoDup_F2 : NoDup (map fst F2).
    Proof. destruct ok_parts as (ND & _). apply NoDup_filter_map. exact ND. Qed.

    Definition Inv2 (done : list entry) (st : lstate) : Prop :=
      l_sofas st = l_sofas st1 /\ l_stab st = l_stab st1 /\ l_max_num st = l_max_num st1 /\ l_init st = l_init st1 /\
      (forall i, In i (l_tab st) <-> In i (map fst S) \/ In i (map fst (l_fs st))) /\
      NoDup (map fst (l_fs st)) /\
      (forall i cf, In (i, cf) (l_fs st) -> exists e, In e F /\ den_fs L s stab e = Ok (i, cf)) /\
      (forall e, In e done -> In (fst e) (map fst (l_fs st))) /\
      is_max (l_max_id st) (l_tab st) /\
      l_ahead st = l_ahead st1 /\ l_made st = map fst (l_fs st) /\
      (forall i, In i (map fst (l_fs st)) <-> In i (l_ahead st1) \/ In i (map fst done)).

    Lemma fs_step done e rest st : F2 = done ++ e :: rest -> Inv2 done st ->
      exists st', load_fs L s st e = Ok st' /\ Inv2 (done ++ [e]) st'.
    Proof.
      intros Hsplit (J1 & J2 & J3 & J4 & J5 & J6 & J7 & J8 & J9 & J10 & J11 & J12).
      assert (HeF2 : In e F2) by (rewrite Hsplit; apply in_or_app; right; left; reflexivity).
      destruct (in_F2 e HeF2) as [HeF Hnota].
      destruct (F_den e HeF) as (cf & Hden & _).
      destruct (load_fs_den L s st e stab (fst e, cf) Hden) as [Hload _].
      { intros k. rewrite J2. apply stab_agree. }
      { intros t0 ti Et Eti Ea. destruct ok_parts as (_ & _ & _ & _ & _ & _ & _ & Hentry). specialize (Hentry e HeF).
        unfold entry_ok in Hentry. rewrite Et, Eti, Ea in Hentry. rewrite !andb_true_iff in Hentry. destruct Hentry as (_ & (Hm & _) & _).
        exact (attrs_known_ok s ti _ _ _ Hm). }
      (* no object has been made under this id yet *)
      assert (Hfresh : ~ In (fst e) (map fst (l_fs st))).
      { intros Hin. apply J12 in Hin. destruct Hin as [Hin|Hin]; [exact (Hnota Hin)|].
        pose proof NoDup_F2 as ND. rewrite Hsplit, map_app in ND. cbn [map] in ND. apply NoDup_remove_2 in ND. apply ND. apply in_or_app. left. exact Hin. }
      cbn [snd] in Hload. exists (after_fs st (fst e) cf). split; [exact Hload|]. unfold Inv2, after_fs.
      cbn [l_sofas l_stab l_tab l_fs l_max_id l_max_num l_init l_ahead l_made].
      split; [exact J1|]. split; [exact J2|]. split; [exact J3|]. split; [exact J4|]. split.
      { intros i. rewrite In_tab_add, zaset_keys, J5. intuition. }
      split; [apply zaset_NoDup; exact J6|]. split.
      { intros i c Hic. apply zaset_In in Hic. destruct Hic as [[-> ->]|Hic]; [exists e; split; assumption|exact (J7 i c Hic)]. }
      split.
      { intros e' He'. apply zaset_keys. apply in_app_or in He'. destruct He' as [He'|[<-|[]]]; [right; exact (J8 e' He')|left; reflexivity]. }
      split; [apply (is_max_add (l_max_id st) (l_tab st) (fst e)); [exact J9|]; intros y; apply In_tab_add|].
      split; [exact J10|].
      match goal with |- context [@map ?A ?B ?f (zaset (fst e) cf (l_fs st))] =>
        replace (@map A B f (zaset (fst e) cf (l_fs st))) with (map fst (l_fs st) ++ [fst e]) by (symmetry; exact (zaset_fresh_keys (fst e) cf (l_fs st) Hfresh)) end.
      split; [rewrite J11; reflexivity|].
      intros i. rewrite map_app, !in_app_iff, J12. cbn [map In]. intuition.
    Qed.

    Lemma load_fs_ahead st e st' : load_fs L s st e = Ok st' -> l_ahead st' = l_ahead st.
    Proof.
      unfold load_fs. destruct (e_type e); [|discriminate]. destruct (sch_find s (norm_tname s0)); [|discriminate].
      intros H. apply bind_Ok in H as (cf & _ & H). inversion H. reflexivity.
    Qed.
    (* the set consulted by the second pass does not change during the pass *)
    Lemma second_pass_todo : forall l (acc : res lstate), (forall a, acc = Ok a -> l_ahead a = l_ahead st1) ->
      fold_left (fun acc e => do a <- acc ;; if is_sofa_entry e || zmem (fst e) (l_ahead a) then Ok a else load_fs L s a e) l acc
      = fold_left (fun acc e => do a <- acc ;; if todo e then load_fs L s a e else Ok a) l acc.
    Proof.
      induction l as [|x r IH]; intros acc Hacc; [reflexivity|]. cbn [fold_left].
      assert (E : (do a <- acc ;; if is_sofa_entry x || zmem (fst x) (l_ahead a) then Ok a else load_fs L s a x)
                  = (do a <- acc ;; if todo x then load_fs L s a x else Ok a)).
      { destruct acc as [a| |]; cbn [bind]; try reflexivity. unfold todo. rewrite (Hacc a eq_refl).
        destruct (is_sofa_entry x || zmem (fst x) (l_ahead st1)); reflexivity. }
      rewrite E. apply IH. intros a' Ha'. destruct acc as [a| |]; cbn [bind] in Ha'; try discriminate.
      destruct (todo x); [rewrite (load_fs_ahead a x a' Ha'); exact (Hacc a eq_refl)|inversion Ha'; subst a'; exact (Hacc a eq_refl)].
    Qed.

    Lemma pass2 : exists st2, second_pass L s es st1 = Ok st2 /\ Inv2 F st2.
    Proof.
      unfold second_pass. rewrite (second_pass_todo es (Ok st1)) by (intros a [= <-]; reflexivity).
      rewrite (fold_filter todo (load_fs L s) es (Ok st1)).
      destruct (rfold_inv (load_fs L s) Inv2 F2 F2 [] st1 eq_refl) as (st2 & E2 & HI2).
      - destruct H1 as (sd & I1 & I2 & I3 & I4 & I5 & I6 & I7 & I8 & I9 & I10 & I11). unfold Inv2.
        split; [reflexivity|]. split; [reflexivity|]. split; [reflexivity|]. split; [reflexivity|]. split; [exact I4|].
        split; [exact I5|]. split; [exact I6|]. split; [intros e []|]. split; [exact I7|]. split; [reflexivity|]. split; [exact I11|].
        intros i. rewrite I10. cbn [map In]. intuition.
      - intros done e rest st Hsplit HI. exact (fs_step done e rest st Hsplit HI).
      - exists st2. split; [exact E2|]. destruct HI2 as (J1 & J2 & J3 & J4 & J5 & J6 & J7 & J8 & J9 & J10 & J11 & J12).
        unfold Inv2. repeat (split; [assumption|]). split.
        { (* what was fetched ahead is there as well *)
          intros e He. destruct (todo e) eqn:Et.
          - apply J8. apply filter_In. split; [exact (proj1 (in_F e He))|exact Et].
          - apply (proj2 (J12 (fst e))). left. unfold todo in Et. apply negb_false_iff, orb_true_iff in Et. destruct Et as [Et|Et]; [|apply zmem_In; exact Et].
            rewrite (proj2 (in_F e He)) in Et. discriminate. }
        split; [exact J9|]. split; [exact J10|]. split; [exact J11|].
        intros i. rewrite J12. split.
        + intros [H|H]; [left; exact H|right]. apply in_map_iff in H. destruct H as (e & <- & He). apply in_map. exact (proj1 (in_F2 e He)).
        + intros [H|H]; [left; exact H|]. apply in_map_iff in H. destruct H as (e & <- & He). destruct (todo e) eqn:Et.
          * right. apply in_map. apply filter_In. split; [exact (proj1 (in_F e He))|exact Et].
          * left. unfold todo in Et. apply negb_false_iff, orb_true_iff in Et. destruct Et as [Et|Et]; [|apply zmem_In; exact Et].
            rewrite (proj2 (in_F e He)) in Et. discriminate.
    Qed.

    (* ---- after pass 2: the table holds every id, the structures built are what the entries denote ---- *)
    Section After.
      Variable st2 : lstate.
      Hypothesis H2 : Inv2 F st2.

      Lemma fs_keys i : In i (map fst (l_fs st2)) <-> In i (map fst F).
      Proof.
        destruct H2 as (_ & _ & _ & _ & _ & _ & J7 & J8 & _). split.
        - intros H. apply in_map_iff in H. destruct H as ([k cf] & <- & Hin). destruct (J7 k cf Hin) as (e & He & Hd).
          pose proof (den_fs_id L s _ e _ Hd) as Hk. cbn [fst] in *. rewrite Hk. apply in_map. exact He.
        - intros H. apply in_map_iff in H. destruct H as (e & <- & He). exact (J8 e He).
      Qed.
      Lemma tab_all i : In i (l_tab st2) <-> In i (map fst S) \/ In i (map fst F).
      Proof. destruct H2 as (_ & _ & _ & _ & J5 & _). rewrite J5, fs_keys. reflexivity. Qed.

      Lemma fs_perm : Permutation (l_fs st2) fss.
      Proof.
        destruct H2 as (_ & _ & _ & _ & _ & J6 & J7 & J8 & _).
        assert (NDf : NoDup (map fst fss)).
        { rewrite (mapM_keys (den_fs L s stab) fst fst F (den_fs_id L s stab) fss Hfss). exact NoDup_F. }
        apply NoDup_Permutation; [eapply NoDup_map_inv; exact J6|eapply NoDup_map_inv; exact NDf|].
        intros [i cf]. split.
        - intros Hin. destruct (J7 i cf Hin) as (e & He & Hd). destruct (mapM_In_l _ _ _ Hfss e He) as (r & Hr & Er). rewrite Hd in Er. inversion Er; subst r. exact Hr.
        - intros Hin. destruct (mapM_In _ _ _ Hfss (i, cf) Hin) as (e & He & Hd).
          pose proof (den_fs_id L s _ e _ Hd) as Hk. cbn [fst] in Hk. subst i.
          pose proof (J8 e He) as Hkey. apply in_map_iff in Hkey. destruct Hkey as ([k cf'] & Ek & Hin'). cbn [fst] in Ek. subst k.
          destruct (J7 (fst e) cf' Hin') as (e' & He' & Hd'). pose proof (den_fs_id L s _ e' _ Hd') as Hk'. cbn [fst] in Hk'.
          assert (e' = e).
          { destruct (in_F e He) as [A _]. destruct (in_F e' He') as [B _]. destruct ok_parts as (ND & _). apply (entry_unique es e' e ND B A). symmetry. exact Hk'. }
          subst e'. rewrite Hd in Hd'. inversion Hd'; subst cf'. exact Hin'.
      Qed.

      (* the deferred fix-ups find every target *)
      Lemma resolve_all : map (fun p => (fst p, resolve_fs (l_tab st2) (snd p))) (l_fs st2) = l_fs st2.
      Proof.
        destruct H2 as (_ & _ & _ & _ & _ & _ & J7 & _).
        assert (G : forall l, (forall p, In p l -> In p (l_fs st2)) -> map (fun p => (fst p, resolve_fs (l_tab st2) (snd p))) l = l).
        { induction l as [|[i cf] r IH]; intros Hsub; [reflexivity|]. cbn [map fst snd]. rewrite IH; [|intros p Hp; apply Hsub; right; exact Hp].
          f_equal. f_equal. destruct (J7 i cf (Hsub _ (or_introl eq_refl))) as (e & He & Hd).
          destruct ok_parts as (_ & _ & _ & _ & _ & _ & _ & Hentry).
          apply resolve_fs_id. intros x v Hxv.
          refine (den_fs_refs L s stab (map fst F) (map fst S) (l_tab st2) e (i, cf) _ _ (Hentry e He) Hd x v Hxv).
          - intros k Hk. apply tab_all. right. exact Hk.
          - intros k Hk. apply tab_all. left. exact Hk. }
        apply G. auto.
      Qed.

      (* ---- the %VIEWS pass ---- *)
      Section ViewsPass.
        Variable st4 : lstate.
        Hypothesis V1 : NoDup (map cs_name (l_sofas st4)).
        Hypothesis V2 : forall x, In x (l_sofas st4) -> cs_members x = [].
        Hypothesis V3 : forall cs, In cs sofas -> In (cs0 cs) (l_sofas st4).
        Hypothesis V4 : forall x i, In x (l_sofas st4) -> In i (map fst F) -> cs_id x <> i.
        Hypothesis V5 : l_tab st4 = l_tab st2 /\ l_fs st4 = l_fs st2.

        Definition members_of (vj : json) : list Z := match jget K_MEMBERS vj with Some (JArr l) => jints l | _ => [] end.
        Definition G (vdone : list (string * json)) (x : csofa) : csofa :=
          match alookup (cs_name x) vdone with Some vj => set_members x (members_of vj) | None => x end.
        Definition InvV (vdone : list (string * json)) (st : lstate) : Prop :=
          l_sofas st = map (G vdone) (l_sofas st4) /\ l_stab st = l_stab st4 /\ l_tab st = l_tab st4 /\ l_fs st = l_fs st4 /\
          l_max_id st = l_max_id st4 /\ l_max_num st = l_max_num st4 /\ l_init st = l_init st4 /\ l_made st = l_made st4.

        Lemma G_name vdone x : cs_name (G vdone x) = cs_name x.
        Proof. unfold G. destruct (alookup (cs_name x) vdone); reflexivity. Qed.
        Lemma G_id vdone x : cs_id (G vdone x) = cs_id x.
        Proof. unfold G. destruct (alookup (cs_name x) vdone); reflexivity. Qed.

        (* a member with a `sofa` feature already points to the sofa of the view: add() re-points nothing *)
        Lemma repoint_id sid l p : In p (l_fs st2) ->
          forallb (member_sofa_ok s F sid) (jints l) = true -> repoint sid (jints l) p = p.
        Proof.
          intros Hp Hms. unfold repoint. destruct (zmem (fst p) (jints l)) eqn:Em; [|reflexivity]. cbn [andb].
          destruct (alookup "sofa" (cf_feats (snd p))) as [v0|] eqn:Es; [|reflexivity].
          destruct p as [i cf]. cbn [fst snd] in *. f_equal. destruct cf as [t feats]. cbn [cf_type cf_feats] in *. f_equal.
          destruct H2 as (_ & _ & _ & _ & _ & _ & J7 & _). destruct (J7 i _ Hp) as (e & He & Hd).
          rewrite forallb_forall in Hms. apply zmem_In in Em. specialize (Hms i Em). unfold member_sofa_ok in Hms.
          pose proof (den_fs_id L s _ e _ Hd) as Hi. cbn [fst] in Hi.
          match type of Hms with context [find ?p F] => assert (Hfind : find p F = Some e) end.
          { match goal with |- find ?p F = _ => destruct (find p F) as [e'|] eqn:Ef end.
            - apply find_some in Ef. destruct Ef as [He' Hi']. apply Z.eqb_eq in Hi'. f_equal.
              destruct (in_F e He) as [A _]. destruct (in_F e' He') as [B _]. destruct ok_parts as (ND & _). apply (entry_unique es e' e ND B A). etransitivity; [exact Hi'|exact Hi].
            - exfalso. pose proof (find_none _ _ Ef e He) as Hn. cbn beta in Hn.
              assert (Hc : Z.eqb (fst e) i = true) by (apply Z.eqb_eq; symmetry; exact Hi). exact (eq_true_false_abs _ Hc Hn). }
          rewrite Hfind in Hms.
          (* every feature called sofa carries the view's sofa *)
          assert (Hall : forall q, In q feats -> fst q = "sofa" -> snd q = CRef sid).
          { intros q Hq Hk. destruct (den_fs_feats L s stab e i (mkCfs t feats) q Hd Hq) as [Hel|(t0 & ti & fd & Et & Eti & Ea & Hfd & Hx & Hdq)].
            - rewrite Hk in Hel. discriminate.
            - rewrite Et, Ea, Eti in Hms. rewrite Hk in Hx.
              assert (Hxf : xfind (ti_feats ti) "sofa" <> None).
              { unfold xfind. intros Hn. pose proof (find_none _ _ Hn fd Hfd) as Hc. cbn beta in Hc. rewrite Hx, String.eqb_refl in Hc. discriminate. }
              destruct (xfind (ti_feats ti) "sofa"); [|contradiction].
              match type of Hms with context [alookup ?k ?m] => destruct (alookup k m) as [[| |x0| | | |]|] eqn:Eref end; try discriminate.
              apply Z.eqb_eq in Hms. subst x0.
              rewrite Hk in Hdq. specialize (Hdq eq_refl). unfold den_feature in Hdq. cbv zeta in Hdq. rewrite Hx in Hdq. unfold xid in Hdq, Eref. rewrite Eref in Hdq. cbn [den_ref bind] in Hdq. inversion Hdq. reflexivity. }
          clear - Hall. induction feats as [|q r IH]; [reflexivity|]. cbn [map]. rewrite IH; [|intros q' Hq'; apply Hall; right; exact Hq'].
          f_equal. match goal with |- context [if ?b then _ else _] => destruct b eqn:E end; [|reflexivity].
          apply String.eqb_eq in E. destruct q as [k v]. cbn [fst snd] in *.
          pose proof (Hall (k, v) (or_introl eq_refl) E) as Hv. cbn [snd] in Hv. rewrite Hv. reflexivity.
        Qed.

        Lemma view_step vdone kv rest st : views = vdone ++ kv :: rest -> InvV vdone st ->
          exists st', load_view (Ok st) kv = Ok st' /\ InvV (vdone ++ [kv]) st'.
        Proof.
          intros Hsplit (W1 & W2 & W3 & W4 & W5 & W6 & W7 & W8). destruct V5 as [V5a V5b].
          assert (Hkv : In kv views) by (rewrite Hsplit; apply in_or_app; right; left; reflexivity).
          destruct ok_parts as (ND & _ & NDv & NDn & _ & _ & Hviewok & _). specialize (Hviewok kv Hkv). unfold view_ok in Hviewok.
          destruct kv as [name vj]. cbn [fst snd] in *.
          destruct (jget K_SOFA vj) as [[| |sid| | | |]|]; try discriminate. destruct (jget K_MEMBERS vj) as [[| | | | |l|]|] eqn:Emem; try discriminate.
          rewrite !andb_true_iff in Hviewok. destruct Hviewok as ((((Hex & Href) & Hint) & _) & Hmso).
          apply existsb_exists in Hex. destruct Hex as (cs & Hcs & Hc). apply andb_true_iff in Hc. destruct Hc as [Hcid Hcname].
          apply Z.eqb_eq in Hcid. apply String.eqb_eq in Hcname.
          assert (Hfresh : alookup name vdone = None).
          { apply alookup_notin. intros k' v' Hin Hk. subst k'. rewrite Hsplit, map_app in NDv. cbn [map fst] in NDv. apply NoDup_remove_2 in NDv.
            apply NDv. apply in_or_app. left. change name with (fst (name, v')). apply in_map. exact Hin. }
          (* the sofa of the view *)
          assert (Hx0 : In (G vdone (cs0 cs)) (l_sofas st)) by (rewrite W1; apply in_map; apply V3; exact Hcs).
          assert (Hname0 : cs_name (G vdone (cs0 cs)) = name) by (rewrite G_name; exact Hcname).
          assert (NDst : NoDup (map cs_name (l_sofas st))).
          { rewrite W1, map_map. erewrite map_ext; [exact V1|]. intros a. apply G_name. }
          rewrite (load_view_run st name vj l (jints l)).
          - eexists. split; [reflexivity|]. unfold InvV. cbn [l_sofas l_stab l_tab l_fs l_max_id l_max_num l_init l_made].
            split; [|split; [exact W2|split; [exact W3|split; [|split; [exact W5|split; [exact W6|split; [exact W7|exact W8]]]]]]].
            + (* the sofas: this view's members go to its sofa *)
              rewrite W1, map_map. apply map_ext_in. intros x0 Hx0in. unfold add_members. rewrite G_name.
              destruct (String.eqb (cs_name x0) name) eqn:En.
              * apply String.eqb_eq in En.
                assert (Hg : G vdone x0 = x0) by (unfold G; rewrite En, Hfresh; reflexivity). rewrite Hg.
                unfold G. rewrite alookup_app, En, Hfresh. cbn [alookup]. rewrite String.eqb_refl.
                rewrite (V2 x0 Hx0in). cbn [app]. unfold members_of. rewrite Emem. reflexivity.
              * unfold G. rewrite alookup_app. destruct (alookup (cs_name x0) vdone); [reflexivity|]. cbn [alookup]. rewrite En. reflexivity.
            + (* the structures: nothing is re-pointed *)
              rewrite (find_unique_name name (l_sofas st) (G vdone (cs0 cs)) NDst Hx0 Hname0). rewrite G_id. unfold cs0, set_members. cbn [cs_id]. rewrite Hcid.
              rewrite W4, V5b.
              assert (Gm : forall lst, (forall p, In p lst -> In p (l_fs st2)) -> map (repoint sid (jints l)) lst = lst).
              { induction lst as [|p r IH]; intros Hsub; [reflexivity|]. cbn [map]. rewrite (repoint_id sid l p (Hsub p (or_introl eq_refl)) Hmso).
                rewrite IH; [reflexivity|]. intros q Hq. apply Hsub. right. exact Hq. }
              apply Gm. auto.
          - apply existsb_exists. exists (G vdone (cs0 cs)). split; [exact Hx0|]. rewrite Hname0. apply String.eqb_refl.
          - exact Emem.
          - exact (mapM_jint_all l Hint).
          - intros i Hi. apply andb_true_iff. split.
            + apply zmem_In. rewrite W3, V5a. apply tab_all. right. rewrite forallb_forall in Href.
              unfold jints in Hi. apply in_flat_map in Hi. destruct Hi as (j & Hj & Hij). destruct j; try (destruct Hij; fail). destruct Hij as [<-|[]].
              specialize (Href _ Hj). cbn [ref_ok] in Href. apply zmem_In. exact Href.
            + apply negb_true_iff. destruct (existsb (fun x => Z.eqb (cs_id x) i) (l_sofas st)) eqn:Eex; [|reflexivity]. exfalso.
              apply existsb_exists in Eex. destruct Eex as (x & Hx & Hxi). apply Z.eqb_eq in Hxi. rewrite W1 in Hx. apply in_map_iff in Hx.
              destruct Hx as (x0 & <- & Hx0in). rewrite G_id in Hxi. apply (V4 x0 i Hx0in); [|exact Hxi].
              rewrite forallb_forall in Href. unfold jints in Hi. apply in_flat_map in Hi. destruct Hi as (j & Hj & Hij). destruct j; try (destruct Hij; fail). destruct Hij as [<-|[]].
              specialize (Href _ Hj). cbn [ref_ok] in Href. apply zmem_In. exact Href.
        Qed.

        Lemma views_pass : exists st5, fold_left load_view views (Ok st4) = Ok st5 /\ InvV views st5.
        Proof.
          assert (Hfold : forall l (acc : res lstate), fold_left load_view l acc = rfold (fun a kv => load_view (Ok a) kv) l acc).
          { induction l as [|x r IH]; intros acc; [reflexivity|]. cbn [fold_left rfold]. rewrite IH. unfold rfold. f_equal. }
          rewrite Hfold. apply (rfold_inv (fun a kv => load_view (Ok a) kv) InvV views views [] st4 eq_refl).
          - unfold InvV. split; [|repeat split; reflexivity]. rewrite <- (map_id (l_sofas st4)) at 1. try (apply map_ext; intros x; reflexivity).
          - intros vdone kv rest st Hsplit HI. exact (view_step vdone kv rest st Hsplit HI).
        Qed.
      End ViewsPass.
    End After.
  End Pass2.

  (* ---- what the sofas of the CAS are after pass 1 ---- *)
  Lemma fold_upsert_map (l : list csofa) : forall acc,
    fold_left (fun a cs => upsert_sofa (cs0 cs) a) l acc = fold_left (fun a c => upsert_sofa c a) (map cs0 l) acc.
  Proof. induction l as [|x r IH]; intros acc; [reflexivity|]. cbn [fold_left map]. apply IH. Qed.
  Definition doc_init : bool := existsb (named "_InitialView") sofas.
  Lemma U_perm : Permutation (U sofas) ((if doc_init then [] else [initial_sofa]) ++ map cs0 sofas) /\ NoDup (map cs_name (U sofas)).
  Proof.
    destruct ok_parts as (_ & _ & _ & NDn & _). unfold U. rewrite fold_upsert_map.
    assert (NDm : NoDup (map cs_name (map cs0 sofas))) by (rewrite map_map; exact NDn).
    assert (NDi : NoDup (map cs_name [initial_sofa])) by (cbn; constructor; [intros []|constructor]).
    destruct (upsert_fold_perm (map cs0 sofas) [initial_sofa] NDi NDm) as [P N]. split; [|exact N].
    eapply Permutation_trans; [exact P|]. apply Permutation_app_tail. cbn [filter].
    assert (Hex : existsb (fun cs => named (cs_name cs) initial_sofa) (map cs0 sofas) = doc_init).
    { unfold doc_init. clear. induction sofas as [|c r IH]; [reflexivity|]. cbn [map existsb]. rewrite IH. f_equal.
      unfold named, cs0, set_members. cbn [cs_name initial_sofa]. apply String.eqb_sym. }
    rewrite Hex. destruct doc_init; apply Permutation_refl.
  Qed.
  Lemma sofas_from_S cs : In cs sofas -> exists e, In e S /\ den_sofa L views e = Ok cs /\ cs_id cs = fst e.
  Proof.
    intros H. destruct (mapM_In _ _ _ Hsofas cs H) as (e & He & Ed). exists e. split; [exact He|]. split; [exact Ed|exact (den_sofa_id L views e cs Ed)].
  Qed.
  Lemma sofa_ids : map cs_id sofas = map fst S.
  Proof. exact (mapM_keys (den_sofa L views) fst cs_id S (den_sofa_id L views) sofas Hsofas). Qed.

  (* the members the %VIEWS pass gives a sofa of the document, sorted, are the members its entry denotes *)
  Definition fin (x : csofa) : csofa := set_members x (zsort (cs_members x)).
  Lemma fin_G_cs0 cs : In cs sofas -> fin (G views (cs0 cs)) = cs.
  Proof.
    intros Hcs. destruct (sofas_from_S cs Hcs) as (e & _ & Ed & _). destruct (den_sofa_fields L views e cs Ed) as (_ & (ms & Hms & Hv) & _).
    destruct ok_parts as (_ & _ & _ & _ & _ & Hsv & _). destruct (Hsv cs Hcs) as (vj & Evj). rewrite Evj in Hv.
    unfold G, cs0, set_members. cbn [cs_name]. rewrite Evj. unfold fin, set_members, members_of. cbn [cs_members cs_id cs_num cs_name cs_text cs_mime cs_uri cs_arr].
    destruct (jget K_MEMBERS vj) as [[| | | | |l|]|]; try (destruct Hv; fail). rewrite (mapM_jint_jints l ms Hv), <- Hms. destruct cs; reflexivity.
  Qed.
  Lemma view_names_are_sofas n vj : In (n, vj) views -> exists cs, In cs sofas /\ cs_name cs = n.
  Proof.
    intros H. destruct ok_parts as (_ & _ & _ & _ & _ & _ & Hvo & _). specialize (Hvo _ H). unfold view_ok in Hvo. cbn [fst snd] in Hvo.
    destruct (jget K_SOFA vj) as [[| |sid| | | |]|]; try discriminate. destruct (jget K_MEMBERS vj) as [[| | | | |l|]|]; try discriminate.
    rewrite !andb_true_iff in Hvo. destruct Hvo as ((((Hex & _) & _) & _) & _). apply existsb_exists in Hex. destruct Hex as (cs & Hcs & Hc).
    apply andb_true_iff in Hc. destruct Hc as [_ Hn]. apply String.eqb_eq in Hn. exists cs. split; assumption.
  Qed.
End Load.

(* ================================================================================================================ *)
(* assembling deserialize                                                                                            *)
(* ================================================================================================================ *)

Definition fix_initial (st3 : lstate) (x : csofa) : csofa :=
  if String.eqb (cs_name x) "_InitialView"
  then mkCsofa (l_max_id st3 + 1) (l_max_num st3 + 1) (cs_name x) (cs_text x) (cs_mime x) (cs_uri x) (cs_arr x) (cs_members x)
  else x.
Definition mk_st4 (st2 : lstate) : lstate :=
  let tab := l_tab st2 in
  let st3 := mkL (l_sofas st2) (l_stab st2) tab (map (fun p => (fst p, resolve_fs tab (snd p))) (l_fs st2)) (l_max_id st2) (l_max_num st2) (l_init st2)
                 (l_ahead st2) (l_made st2) in
  if l_init st3 then st3
  else mkL (map (fix_initial st3) (l_sofas st3)) (l_stab st3) (l_tab st3) (l_fs st3) (l_max_id st3 + 1) (l_max_num st3 + 1) true (l_ahead st3) (l_made st3).
Definition finish (st5 : lstate) : ccas :=
  mkCcas (sort_by cs_id (map fin (l_sofas st5))) (sort_by fst (l_fs st5)).

Lemma load_json_st_unfold L s d :
  load_json_st L s d =
  do es <- fs_entries d ;;
  do st1 <- fold_left (fun acc e => do a <- acc ;; if is_sofa_entry e then load_sofa L s (is_dict_form d) es a e else Ok a) es (Ok st0) ;;
  do st2 <- second_pass L s es st1 ;;
  do views <- doc_views d ;;
  fold_left load_view views (Ok (mk_st4 st2)).
Proof. reflexivity. Qed.
Lemma content_of_finish st5 : content_of st5 = finish st5.
Proof. reflexivity. Qed.

Lemma existsb_perm {A} (p : A -> bool) l l' : Permutation l l' -> existsb p l = existsb p l'.
Proof.
  intros P. destruct (existsb p l) eqn:E1, (existsb p l') eqn:E2; try reflexivity.
  - apply existsb_exists in E1. destruct E1 as (x & Hx & Hp). assert (existsb p l' = true) by (apply existsb_exists; exists x; split; [eapply Permutation_in; eassumption|exact Hp]). congruence.
  - apply existsb_exists in E2. destruct E2 as (x & Hx & Hp). assert (existsb p l = true) by (apply existsb_exists; exists x; split; [eapply Permutation_in; [apply Permutation_sym|]; eassumption|exact Hp]). congruence.
Qed.

Section Final.
  Variable L : lex.
  Variable s : schema.
  Variable d : json.
  Variable es : list entry.
  Variable views : list (string * json).
  Variable sofas : list csofa.
  Variable fss : list (xid * cfs).
  Local Notation S := (filter is_sofa_entry es).
  Local Notation F := (filter not_sofa es).
  Hypothesis Hes : fs_entries d = Ok es.
  Hypothesis Hvs : doc_views d = Ok views.
  Hypothesis Hsofas : mapM (den_sofa L views) S = Ok sofas.
  Hypothesis Hfss : mapM (den_fs L s (map (fun cs => (cs_id cs, cs_text cs)) sofas)) F = Ok fss.
  Hypothesis Hok : doc_ok_json L s d = true.

  Lemma final_sofas sofas4 extra :
    Permutation sofas4 (extra ++ map cs0 sofas) -> (forall x, In x extra -> fin (G views x) = x) -> NoDup (map cs_id (sofas ++ extra)) ->
    sort_by cs_id (map fin (map (G views) sofas4)) = sort_by cs_id (sofas ++ extra).
  Proof.
    intros P Hex ND. symmetry. apply sort_by_perm_eq; [|exact ND]. rewrite map_map.
    eapply Permutation_trans; [|apply Permutation_map, Permutation_sym; exact P]. rewrite map_app, map_map.
    eapply Permutation_trans; [apply Permutation_app_comm|]. apply Permutation_app.
    - assert (E : map (fun x => fin (G views x)) extra = extra); [|rewrite E; apply Permutation_refl].
      rewrite <- (map_id extra) at 2. apply map_ext_in. intros x Hx. exact (Hex x Hx).
    - assert (E : map (fun x => fin (G views (cs0 x))) sofas = sofas); [|rewrite E; apply Permutation_refl].
      rewrite <- (map_id sofas) at 2. apply map_ext_in. intros cs Hcs.
      exact (fin_G_cs0 L s d es views sofas Hes Hvs Hsofas Hok cs Hcs).
  Qed.

  (* the state the reader ends in: its content is what the document denotes; one object was made per entry that is not a
     sofa (NoDup: none twice) *)
  Lemma load_json_st_denotes : exists st5, load_json_st L s d = Ok st5 /\
    finish st5 = with_initial_view (mkCcas (sort_by cs_id sofas) (sort_by fst fss)) /\
    NoDup (l_made st5) /\ Permutation (l_made st5) (map fst F).
  Proof.
    destruct (pass1 L s d es views sofas fss Hes Hvs Hsofas Hfss Hok (is_dict_form d)) as (st1 & E1 & HI1).
    destruct (pass2 L s d es views sofas fss Hes Hvs Hsofas Hfss Hok st1 HI1) as (st2 & E2 & HI2).
    rewrite load_json_st_unfold, Hes. cbn [bind]. rewrite E1. cbn [bind]. rewrite E2. cbn [bind]. rewrite Hvs. cbn [bind].
    pose proof (resolve_all L s d es views sofas Hes Hvs Hsofas Hok st1 st2 HI2) as Hres.
    pose proof (tab_all L s es sofas st1 st2 HI2) as Htab.
    pose proof (fs_perm L s d es views sofas fss Hes Hvs Hsofas Hfss Hok st1 st2 HI2) as Hfp.
    destruct (U_perm L s d es views sofas Hes Hvs Hsofas Hok) as [HU NDU].
    destruct (ok_parts L s d es views sofas Hes Hvs Hsofas Hok) as (ND & Hpos & NDv & NDn & Harrays & Hsv & Hvo & Hentry).
    pose proof (sofa_ids L es views sofas Hsofas) as Hsids.
    pose proof (NoDup_S L s d es views sofas Hes Hvs Hsofas Hok) as NDS.
    destruct HI1 as (sd & I1 & I2 & _ & _ & _ & _ & _ & I8 & I9 & _). rewrite Hsofas in I1. inversion I1; subst sd. clear I1.
    pose proof HI2 as (J1 & J2 & J3 & J4 & J5 & J6 & J7 & J8 & J9 & J10 & J11 & J12).
    assert (Hmade : NoDup (l_made st2) /\ Permutation (l_made st2) (map fst F)).
    { rewrite J11. split; [exact J6|]. apply NoDup_Permutation; [exact J6|exact (NoDup_F L s d es views sofas Hes Hvs Hsofas Hok)|].
      intros i. exact (fs_keys L s es sofas st1 st2 HI2 i). }
    assert (Hsof2 : l_sofas st2 = U sofas) by (rewrite J1; exact I2).
    assert (Hinit2 : l_init st2 = doc_init sofas) by (rewrite J4; exact I9).
    assert (Hnum2 : is_max (l_max_num st2) (map cs_num sofas)) by (rewrite J3; exact I8).
    (* ids of sofas and of the other structures are apart *)
    assert (Hapart : forall cs i, In cs sofas -> In i (map fst F) -> cs_id cs <> i).
    { intros cs i Hcs Hi E. destruct (sofas_from_S L es views sofas Hsofas cs Hcs) as (e & He & _ & Hid).
      apply in_map_iff in Hi. destruct Hi as (e' & Ee' & He'). apply (S_F_disjoint L s d es views sofas Hes Hvs Hsofas Hok e e' He He'). congruence. }
    assert (NDfs : NoDup (map fst (l_fs st2))) by exact J6.
    assert (Hfsort : sort_by fst (l_fs st2) = sort_by fst fss) by (apply sort_by_perm_eq; assumption).
    (* the state before the %VIEWS pass *)
    unfold mk_st4. cbv zeta. cbn [l_init l_sofas l_stab l_tab l_fs l_max_id l_max_num l_ahead l_made]. rewrite Hres.
    destruct (l_init st2) eqn:Einit.
    - (* the document mentions _InitialView *)
      set (st4 := mkL (l_sofas st2) (l_stab st2) (l_tab st2) (l_fs st2) (l_max_id st2) (l_max_num st2) true (l_ahead st2) (l_made st2)).
      symmetry in Hinit2. rewrite Hinit2 in HU. cbn [app] in HU.
      destruct (views_pass L s d es views sofas Hes Hvs Hsofas Hok st1 st2 HI2 st4) as (st5 & E5 & HV).
      + cbn [st4 l_sofas]. rewrite Hsof2. exact NDU.
      + cbn [st4 l_sofas]. rewrite Hsof2. intros x Hx. apply (Permutation_in _ HU) in Hx. apply in_map_iff in Hx. destruct Hx as (cs & <- & _). reflexivity.
      + cbn [st4 l_sofas]. rewrite Hsof2. intros cs Hcs. apply (Permutation_in _ (Permutation_sym HU)). apply in_map. exact Hcs.
      + cbn [st4 l_sofas]. rewrite Hsof2. intros x i Hx Hi. apply (Permutation_in _ HU) in Hx. apply in_map_iff in Hx. destruct Hx as (cs & <- & Hcs).
        exact (Hapart cs i Hcs Hi).
      + split; reflexivity.
      + exists st5. split; [exact E5|]. destruct HV as (W1 & _ & _ & W4 & _ & _ & _ & W8). split; [|rewrite W8; exact Hmade].
        unfold finish. rewrite W1, W4. cbn [st4 l_sofas l_fs]. rewrite Hsof2.
        rewrite (final_sofas (U sofas) []); [|exact HU|intros x []|rewrite app_nil_r, Hsids; exact NDS]. rewrite app_nil_r, Hfsort.
        unfold with_initial_view. cbn [cc_sofas cc_fs].
        rewrite (existsb_perm _ _ _ (sort_by_is_perm cs_id sofas)). unfold doc_init, named in Hinit2. rewrite Hinit2. reflexivity.
    - (* it does not: the initial view keeps an empty sofa under the next id / sofaNum *)
      set (st3 := mkL (l_sofas st2) (l_stab st2) (l_tab st2) (l_fs st2) (l_max_id st2) (l_max_num st2) false (l_ahead st2) (l_made st2)).
      set (st4 := mkL (map (fix_initial st3) (l_sofas st2)) (l_stab st2) (l_tab st2) (l_fs st2) (l_max_id st2 + 1) (l_max_num st2 + 1) true (l_ahead st2) (l_made st2)).
      symmetry in Hinit2. rewrite Hinit2 in HU.
      set (init' := mkCsofa (l_max_id st2 + 1) (l_max_num st2 + 1) "_InitialView" None None None None []).
      assert (Hnoinit : forall cs, In cs sofas -> String.eqb (cs_name cs) "_InitialView" = false).
      { intros cs Hcs. destruct (String.eqb (cs_name cs) "_InitialView") eqn:E; [|reflexivity].
        assert (doc_init sofas = true) by (apply existsb_exists; exists cs; split; [exact Hcs|exact E]). congruence. }
      assert (HU4 : Permutation (map (fix_initial st3) (U sofas)) ([init'] ++ map cs0 sofas)).
      { eapply Permutation_trans; [apply Permutation_map; exact HU|]. cbn [map app]. constructor.
        assert (E : map (fix_initial st3) (map cs0 sofas) = map cs0 sofas); [|rewrite E; apply Permutation_refl].
        rewrite <- (map_id (map cs0 sofas)) at 2. apply map_ext_in. intros x Hx. apply in_map_iff in Hx. destruct Hx as (cs & <- & Hcs).
        unfold fix_initial, cs0, set_members. cbn [cs_name]. rewrite (Hnoinit cs Hcs). reflexivity. }
      assert (Hmaxid : forall i, In i (l_tab st2) -> i <= l_max_id st2) by (destruct J9 as (_ & H & _); exact H).
      destruct (views_pass L s d es views sofas Hes Hvs Hsofas Hok st1 st2 HI2 st4) as (st5 & E5 & HV).
      + cbn [st4 l_sofas]. rewrite Hsof2, map_map. erewrite map_ext; [exact NDU|]. intros x. unfold fix_initial. destruct (String.eqb (cs_name x) "_InitialView"); reflexivity.
      + cbn [st4 l_sofas]. rewrite Hsof2. intros x Hx. apply (Permutation_in _ HU4) in Hx. destruct Hx as [<-|Hx]; [reflexivity|].
        apply in_map_iff in Hx. destruct Hx as (cs & <- & _). reflexivity.
      + cbn [st4 l_sofas]. rewrite Hsof2. intros cs Hcs. apply (Permutation_in _ (Permutation_sym HU4)). right. apply in_map. exact Hcs.
      + cbn [st4 l_sofas]. rewrite Hsof2. intros x i Hx Hi. apply (Permutation_in _ HU4) in Hx. destruct Hx as [<-|Hx].
        * cbn [init' cs_id]. assert (i <= l_max_id st2) by (apply Hmaxid; apply Htab; right; exact Hi). lia.
        * apply in_map_iff in Hx. destruct Hx as (cs & <- & Hcs). exact (Hapart cs i Hcs Hi).
      + split; reflexivity.
      + exists st5. split; [exact E5|]. destruct HV as (W1 & _ & _ & W4 & _ & _ & _ & W8). split; [|rewrite W8; exact Hmade].
        unfold finish. rewrite W1, W4. cbn [st4 l_sofas l_fs]. rewrite Hsof2.
        (* the new sofa is the one with_initial_view adds *)
        assert (Hid : l_max_id st2 = zmax_list (map cs_id (sort_by cs_id sofas) ++ map fst (sort_by fst fss))).
        { apply (is_max_unique _ _ (l_tab st2)); [exact J9|]. eapply is_max_ext; [apply zmax_list_is_max|]. intros y.
          rewrite Htab, in_app_iff, <- Hsids.
          assert (A : In y (map cs_id (sort_by cs_id sofas)) <-> In y (map cs_id sofas)).
          { split; apply Permutation_in; [|apply Permutation_sym]; apply Permutation_map, sort_by_is_perm. }
          assert (B : In y (map fst (sort_by fst fss)) <-> In y (map fst F)).
          { rewrite <- (fs_keys L s es sofas st1 st2 HI2 y).
            split; apply Permutation_in; [|apply Permutation_sym]; apply Permutation_map;
              (eapply Permutation_trans; [apply sort_by_is_perm|apply Permutation_sym; exact Hfp]). }
          rewrite A, B. reflexivity. }
        assert (Hnum : l_max_num st2 = zmax_list (map cs_num (sort_by cs_id sofas))).
        { apply (is_max_unique _ _ (map cs_num sofas)); [exact Hnum2|]. eapply is_max_ext; [apply zmax_list_is_max|]. intros y.
          split; apply Permutation_in; [|apply Permutation_sym]; apply Permutation_map, sort_by_is_perm. }
        assert (Hviewnone : alookup "_InitialView" views = None).
        { apply alookup_notin. intros k v Hin Hk. subst k. destruct (view_names_are_sofas L s d es views sofas Hes Hvs Hsofas Hok _ _ Hin) as (cs & Hcs & Hn).
          specialize (Hnoinit cs Hcs). rewrite Hn in Hnoinit. discriminate. }
        assert (NDall : NoDup (map cs_id (sofas ++ [init']))).
        { rewrite map_app. cbn [map]. apply NoDup_snoc; [exact (eq_ind_r (fun l => NoDup l) NDS Hsids)|]. intros Hin.
          assert (Hin' : In (l_max_id st2 + 1) (map fst S)) by exact (eq_ind _ (fun l => In (l_max_id st2 + 1) l) Hin _ Hsids).
          assert (l_max_id st2 + 1 <= l_max_id st2) by (apply Hmaxid; apply Htab; left; exact Hin'). lia. }
        rewrite (final_sofas (map (fix_initial st3) (U sofas)) [init']); [|exact HU4| |exact NDall].
        * rewrite Hfsort. unfold with_initial_view. cbn [cc_sofas cc_fs].
          rewrite (existsb_perm _ _ _ (sort_by_is_perm cs_id sofas)). unfold doc_init, named in Hinit2. rewrite Hinit2.
          f_equal.
          match goal with |- _ = sort_by cs_id (_ ++ [?new]) => assert (Hnew : new = init') end.
          { unfold init'. f_equal; [f_equal; symmetry; exact Hid|f_equal; symmetry; exact Hnum]. }
          rewrite Hnew.
          apply sort_by_perm_eq; [apply Permutation_app_tail, Permutation_sym, sort_by_is_perm|exact NDall].
        * intros x [<-|[]]. unfold G, fin, set_members. cbn [init' cs_name]. rewrite Hviewnone. reflexivity.
  Qed.

  Lemma load_json_denotes : load_json L s d = Ok (with_initial_view (mkCcas (sort_by cs_id sofas) (sort_by fst fss))).
  Proof.
    destruct load_json_st_denotes as (st5 & E & Hf & _). unfold load_json. rewrite E. cbn [bind]. rewrite content_of_finish, Hf. reflexivity.
  Qed.
  Lemma load_made_denotes : exists l, load_made L s d = Ok l /\ NoDup l /\ Permutation l (map fst F).
  Proof.
    destruct load_json_st_denotes as (st5 & E & _ & Hm). exists (l_made st5). unfold load_made. rewrite E. split; [reflexivity|exact Hm].
  Qed.
End Final.

(* C05: on a well-formed document the reader mechanism builds the CAS the document describes (plus the view _InitialView
   every CAS has, when the document does not mention it) — in whatever order the document lists its feature structures,
   as an array or keyed by id. *)
Theorem load_json_is_denotation L s d cc :
  doc_ok_json L s d = true -> denote_json L s d = Ok cc -> load_json L s d = Ok (with_initial_view cc).
Proof.
  intros Hok Hden. unfold denote_json in Hden.
  apply bind_Ok in Hden as (es & Hes & Hden). apply bind_Ok in Hden as (views & Hvs & Hden).
  apply bind_Ok in Hden as (sofas & Hsofas & Hden). apply bind_Ok in Hden as (fss & Hfss & Hden). inversion Hden; subst cc.
  exact (load_json_denotes L s d es views sofas fss Hes Hvs Hsofas Hfss Hok).
Qed.

(* C02/C05 (d94ad6a): on a well-formed document the reader makes exactly one object per entry that is not a sofa -- also
   for the byte array it parses ahead of its turn because a sofa refers to it.  Every holder of a reference (a feature, an
   FSArray element, a view member, the sofaArray of one or several sofas) got its object out of the id-keyed dict, so all
   holders of one id hold the same object: what the document shares is shared in the CAS. *)
Theorem load_json_one_object_per_entry L s d cc es :
  doc_ok_json L s d = true -> denote_json L s d = Ok cc -> fs_entries d = Ok es ->
  exists made, load_made L s d = Ok made /\ NoDup made /\ Permutation made (map fst (filter not_sofa es)).
Proof.
  intros Hok Hden Hes0. unfold denote_json in Hden.
  apply bind_Ok in Hden as (es' & Hes & Hden). apply bind_Ok in Hden as (views & Hvs & Hden).
  apply bind_Ok in Hden as (sofas & Hsofas & Hden). apply bind_Ok in Hden as (fss & Hfss & Hden).
  rewrite Hes0 in Hes. inversion Hes; subst es'.
  exact (load_made_denotes L s d es views sofas fss Hes0 Hvs Hsofas Hfss Hok).
Qed.

(* ================================================================================================================ *)
(* corollaries: round trip without an assumption about the reader                                                    *)
(* ================================================================================================================ *)

(* every CAS cassis builds has the view _InitialView *)
Definition initial_view_in (c : cas) : bool := existsb (fun v => String.eqb (s_name (v_sofa v)) "_InitialView") (c_views c).

Lemma with_initial_view_id cc : existsb (fun cs => String.eqb (cs_name cs) "_InitialView") (cc_sofas cc) = true -> with_initial_view cc = cc.
Proof. intros H. unfold with_initial_view. rewrite H. reflexivity. Qed.

Lemma canon_sofa_name c v cs : canon_sofa c v = Ok cs -> cs_name cs = s_name (v_sofa v).
Proof.
  unfold canon_sofa. intros H. apply bind_Ok in H as (arr & _ & H). apply bind_Ok in H as (ms & _ & H). inversion H. reflexivity.
Qed.
Lemma canon_has_initial s c cc : canon_json s c = Ok cc -> initial_view_in c = true -> with_initial_view cc = cc.
Proof.
  intros Hc Hi. apply with_initial_view_id. unfold canon_json in Hc. apply bind_Ok in Hc as (w & _ & Hc). unfold canon_of in Hc.
  apply bind_Ok in Hc as (fss & _ & Hc). apply bind_Ok in Hc as (sofas & Es & Hc). inversion Hc; subst cc. cbn [cc_sofas].
  rewrite (existsb_perm _ _ _ (sort_by_is_perm cs_id sofas)). unfold initial_view_in in Hi. apply existsb_exists in Hi. destruct Hi as (v & Hv & Hn).
  destruct (mapM_In_l _ _ _ Es v Hv) as (cs & Hcs & Ecs). apply existsb_exists. exists cs. split; [exact Hcs|]. rewrite (canon_sofa_name c v cs Ecs). exact Hn.
Qed.

(* C02: what the reader builds from the document the writer produced is the content of the CAS the save left behind.
   The only premise about the document is that it is well-formed (doc_ok_json, a boolean on the document alone). *)
Theorem json_roundtrip L s mode c d c' cc :
  lex_ok L -> save_json L s mode c = Ok (d, c') -> wf_jsonb s c' = true -> 0 < c_next_id c ->
  doc_ok_json L s d = true -> initial_view_in c' = true -> canon_json s c' = Ok cc ->
  load_json L s d = Ok cc.
Proof.
  intros HL HS HW HP HD HI HC. pose proof (denote_save_json L s mode c d c' HL HS HW HP) as Hden. rewrite HC in Hden.
  rewrite (load_json_is_denotation L s d cc HD Hden). rewrite (canon_has_initial s c' cc HC HI). reflexivity.
Qed.

(* C05: loading does not depend on the presentation — documents that present the same content load into the same CAS *)
Theorem load_json_presentation_invariant L s d d' cc :
  schema_keys_okb s = true -> same_content d d' -> doc_ok_json L s d = true -> doc_ok_json L s d' = true ->
  denote_json L s d = Ok cc -> load_json L s d' = load_json L s d.
Proof.
  intros Hk Hsame Hok Hok' Hden. rewrite (load_json_is_denotation L s d cc Hok Hden).
  exact (load_json_is_denotation L s d' cc Hok' (denote_json_presentation_invariant L s d d' cc Hk Hsame Hden)).
Qed.
