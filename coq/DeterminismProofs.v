(* DeterminismProofs.v — lemmas and theorems about coq/Determinism.v (property C14). *)
From Cassis Require Import Base Determinism.
From Coq Require Import ZifyBool Ascii.
Open Scope Z_scope.

(* ------------------------------------------------------------------------------------------------ sort_by *)

Section SortProofs.
  Context {A K : Type}.
  Variable key : A -> K.
  Variable kleb : K -> K -> bool.
  Hypothesis kleb_total : forall a b, kleb a b = true \/ kleb b a = true.
  Hypothesis kleb_antisym : forall a b, kleb a b = true -> kleb b a = true -> a = b.
  Hypothesis kleb_trans : forall a b c, kleb a b = true -> kleb b c = true -> kleb a c = true.

  Notation ins := (insert_by key kleb).
  Notation srt := (sort_by key kleb).

  Lemma kleb_false a b : kleb a b = false -> kleb b a = true.
  Proof. intros H. destruct (kleb_total a b); congruence. Qed.

  Lemma insert_comm x y l : (key x = key y -> x = y) -> ins x (ins y l) = ins y (ins x l).
  Proof.
    intros H. induction l as [|z r IH].
    - cbn [insert_by].
      destruct (kleb (key x) (key y)) eqn:E1, (kleb (key y) (key x)) eqn:E2; auto.
      + rewrite (H (kleb_antisym _ _ E1 E2)); reflexivity.
      + apply kleb_false in E1. congruence.
    - cbn [insert_by].
      destruct (kleb (key y) (key z)) eqn:Eyz, (kleb (key x) (key z)) eqn:Exz; cbn [insert_by]; rewrite ?Eyz, ?Exz.
      + destruct (kleb (key x) (key y)) eqn:E1, (kleb (key y) (key x)) eqn:E2; auto.
        * rewrite (H (kleb_antisym _ _ E1 E2)); reflexivity.
        * apply kleb_false in E1. congruence.
      + destruct (kleb (key x) (key y)) eqn:E1.
        * rewrite (kleb_trans _ _ _ E1 Eyz) in Exz. discriminate.
        * reflexivity.
      + destruct (kleb (key y) (key x)) eqn:E2.
        * rewrite (kleb_trans _ _ _ E2 Exz) in Eyz. discriminate.
        * reflexivity.
      + rewrite IH. reflexivity.
  Qed.

  Definition key_inj_on (l : list A) : Prop := forall x y, In x l -> In y l -> key x = key y -> x = y.

  Lemma key_inj_on_perm l l' : Permutation l l' -> key_inj_on l -> key_inj_on l'.
  Proof.
    intros P H x y Hx Hy. apply H; eapply Permutation_in; try eassumption; apply Permutation_sym; assumption.
  Qed.

  (* the sorted result depends only on the multiset when equal keys mean equal items *)
  Lemma sort_by_perm l l' : Permutation l l' -> key_inj_on l -> srt l = srt l'.
  Proof.
    induction 1 as [|x l l' P IH|x y l|l l' l'' P1 IH1 P2 IH2]; intros Hinj.
    - reflexivity.
    - cbn [sort_by fold_right]. fold (srt l). fold (srt l'). rewrite IH; [reflexivity|].
      intros a b Ha Hb. apply Hinj; right; assumption.
    - cbn [sort_by fold_right]. fold (srt l). apply insert_comm.
      intros E. apply Hinj; [left; reflexivity|right; left; reflexivity|exact E].
    - rewrite IH1 by assumption. apply IH2. eapply key_inj_on_perm; eassumption.
  Qed.

  Lemma nodup_key_inj l : NoDup (map key l) -> key_inj_on l.
  Proof.
    induction l as [|a r IH]; intros ND x y Hx Hy E; [contradiction|].
    cbn [map] in ND. inversion ND as [|? ? Hnin ND']; subst.
    destruct Hx as [->|Hx], Hy as [->|Hy]; auto.
    - exfalso. apply Hnin. rewrite E. apply in_map; assumption.
    - exfalso. apply Hnin. rewrite <- E. apply in_map; assumption.
    - apply IH; assumption.
  Qed.

  Theorem sort_unique l l' : Permutation l l' -> NoDup (map key l) -> srt l = srt l'.
  Proof. intros P ND. apply sort_by_perm; [assumption|apply nodup_key_inj; assumption]. Qed.

  (* the result is a permutation of the input and is sorted: together with sort_unique, "the" sorted listing *)
  Lemma insert_by_perm x l : Permutation (x :: l) (ins x l).
  Proof.
    induction l as [|y r IH]; cbn [insert_by]; [reflexivity|].
    destruct (kleb (key x) (key y)); [reflexivity|].
    eapply perm_trans; [apply perm_swap|]. apply perm_skip. exact IH.
  Qed.
  Lemma sort_by_permutation l : Permutation l (srt l).
  Proof.
    induction l as [|x r IH]; [reflexivity|]. cbn [sort_by fold_right]. fold (srt r).
    eapply perm_trans; [apply perm_skip; exact IH|apply insert_by_perm].
  Qed.

  Definition kle (a b : A) : Prop := kleb (key a) (key b) = true.
  Lemma insert_by_sorted x l : StronglySorted kle l -> StronglySorted kle (ins x l).
  Proof.
    induction 1 as [|y r Hs IH Hall]; cbn [insert_by].
    - constructor; constructor.
    - destruct (kleb (key x) (key y)) eqn:E.
      + constructor; [constructor; assumption|].
        constructor; [exact E|].
        eapply Forall_impl; [|exact Hall]. intros a Ha. unfold kle in *. eapply kleb_trans; eassumption.
      + constructor; [exact IH|].
        assert (P := insert_by_perm x r).
        apply Forall_forall. intros a Ha.
        apply Permutation_sym in P. apply (Permutation_in _ P) in Ha. destruct Ha as [<-|Ha].
        * apply kleb_false in E. exact E.
        * rewrite Forall_forall in Hall. apply Hall; assumption.
  Qed.
  Lemma sort_by_sorted l : StronglySorted kle (srt l).
  Proof.
    induction l as [|x r IH]; [constructor|]. cbn [sort_by fold_right]. apply insert_by_sorted. exact IH.
  Qed.

  (* a list that is already strictly sorted is left alone (used for idempotence of the emit pipelines) *)
  Lemma insert_by_head x l : Forall (kle x) l -> ins x l = x :: l.
  Proof. intros H. destruct l as [|y r]; [reflexivity|]. cbn [insert_by]. inversion H; subst. unfold kle in *. rewrite H2. reflexivity. Qed.
  Lemma sort_by_sorted_id l : StronglySorted kle l -> srt l = l.
  Proof.
    induction 1 as [|x r Hs IH Hall]; [reflexivity|]. cbn [sort_by fold_right]. fold (srt r). rewrite IH.
    apply insert_by_head; assumption.
  Qed.
  Lemma sort_by_idem l : srt (srt l) = srt l.
  Proof. apply sort_by_sorted_id. apply sort_by_sorted. Qed.
End SortProofs.

(* ------------------------------------------------------------------------------------------------ the two key orders *)

Lemma zleb_total a b : (a <=? b) = true \/ (b <=? a) = true. Proof. lia. Qed.
Lemma zleb_antisym a b : (a <=? b) = true -> (b <=? a) = true -> a = b. Proof. lia. Qed.
Lemma zleb_trans a b c : (a <=? b) = true -> (b <=? c) = true -> (a <=? c) = true. Proof. lia. Qed.

Lemma N_of_ascii_inj c d : N_of_ascii c = N_of_ascii d -> c = d.
Proof. intros H. rewrite <- (ascii_N_embedding c), <- (ascii_N_embedding d), H. reflexivity. Qed.

Lemma sleb_total a : forall b, sleb a b = true \/ sleb b a = true.
Proof.
  induction a as [|c a IH]; intros [|d b]; cbn [sleb]; auto.
  destruct (N_of_ascii c <? N_of_ascii d)%N eqn:E1; auto.
  destruct (N_of_ascii d <? N_of_ascii c)%N eqn:E2; auto.
  assert (N_of_ascii c = N_of_ascii d) as E by lia.
  rewrite E, N.eqb_refl. apply IH.
Qed.
Lemma sleb_antisym a : forall b, sleb a b = true -> sleb b a = true -> a = b.
Proof.
  induction a as [|c a IH]; intros [|d b]; cbn [sleb]; auto; try discriminate.
  destruct (N_of_ascii c <? N_of_ascii d)%N eqn:E1, (N_of_ascii d <? N_of_ascii c)%N eqn:E2; try lia.
  - destruct (N_of_ascii d =? N_of_ascii c)%N eqn:E3; [lia|discriminate].
  - destruct (N_of_ascii c =? N_of_ascii d)%N eqn:E3; [lia|discriminate].
  - destruct (N_of_ascii c =? N_of_ascii d)%N eqn:E3; [|discriminate].
    destruct (N_of_ascii d =? N_of_ascii c)%N eqn:E4; [|discriminate].
    intros H1 H2. f_equal; [apply N_of_ascii_inj; lia|apply IH; assumption].
Qed.
Lemma sleb_trans a : forall b c, sleb a b = true -> sleb b c = true -> sleb a c = true.
Proof.
  induction a as [|x a IH]; intros [|y b] [|z c]; cbn [sleb]; auto; try discriminate.
  destruct (N_of_ascii x <? N_of_ascii y)%N eqn:E1, (N_of_ascii y <? N_of_ascii z)%N eqn:E2,
           (N_of_ascii x <? N_of_ascii z)%N eqn:E3; auto; try lia.
  - destruct (N_of_ascii y =? N_of_ascii z)%N eqn:E4; [lia|discriminate].
  - destruct (N_of_ascii x =? N_of_ascii y)%N eqn:E4; [lia|discriminate].
  - destruct (N_of_ascii x =? N_of_ascii y)%N eqn:E4; [|discriminate].
    destruct (N_of_ascii y =? N_of_ascii z)%N eqn:E5; [|discriminate].
    destruct (N_of_ascii x =? N_of_ascii z)%N eqn:E6; [|lia].
    apply IH.
Qed.

Theorem sort_unique_z {A} (key : A -> Z) l l' :
  Permutation l l' -> NoDup (map key l) -> sort_z key l = sort_z key l'.
Proof. apply sort_unique; [exact zleb_total|exact zleb_antisym|exact zleb_trans]. Qed.
Theorem sort_unique_s {A} (key : A -> string) l l' :
  Permutation l l' -> NoDup (map key l) -> sort_s key l = sort_s key l'.
Proof. apply sort_unique; [exact sleb_total|exact sleb_antisym|exact sleb_trans]. Qed.

(* bare keys (view members, redeclared names): no uniqueness needed, equal keys are equal items *)
Lemma sort_members_perm l l' : Permutation l l' -> sort_z (fun m : Z => m) l = sort_z (fun m => m) l'.
Proof.
  intros P. apply sort_by_perm; [exact zleb_total|exact zleb_antisym|exact zleb_trans|assumption|].
  intros x y _ _ E. exact E.
Qed.
Lemma sort_names_perm l l' : Permutation l l' -> sort_s (fun n : string => n) l = sort_s (fun n => n) l'.
Proof.
  intros P. apply sort_by_perm; [exact sleb_total|exact sleb_antisym|exact sleb_trans|assumption|].
  intros x y _ _ E. exact E.
Qed.

(* ------------------------------------------------------------------------------------------------ emit pipelines *)

(* views in the same order, each with a permutation of its members *)
Definition same_views (vs vs' : list viewitem) : Prop :=
  Forall2 (fun v v' => vi_sofa v = vi_sofa v' /\ Permutation (vi_members v) (vi_members v')) vs vs'.

Lemma sort_members_same vs vs' : same_views vs vs' -> map sort_members vs = map sort_members vs'.
Proof.
  induction 1 as [|v v' vs vs' [Hs Hp] _ IH]; [reflexivity|]. cbn [map]. rewrite IH. f_equal.
  unfold sort_members. rewrite Hs, (sort_members_perm _ _ Hp). reflexivity.
Qed.

Theorem xmi_emit_order_independent found found' sofas views views' :
  Permutation found found' -> NoDup (map fi_id found) -> same_views views views' ->
  xmi_emit found sofas views = xmi_emit found' sofas views'.
Proof.
  intros P ND SV. unfold xmi_emit. rewrite (sort_unique_z fi_id _ _ P ND), (sort_members_same _ _ SV). reflexivity.
Qed.

Theorem json_types_emit_order_independent types types' :
  Permutation types types' -> NoDup (map ty_name types) -> json_types_emit types = json_types_emit types'.
Proof. intros P ND. unfold json_types_emit. rewrite (sort_unique_s ty_name _ _ P ND). reflexivity. Qed.

Definition same_named_views (vs vs' : list (string * viewitem)) : Prop :=
  Forall2 (fun v v' => fst v = fst v' /\ vi_sofa (snd v) = vi_sofa (snd v') /\
                       Permutation (vi_members (snd v)) (vi_members (snd v'))) vs vs'.

Lemma filter_perm {A} (f : A -> bool) l l' : Permutation l l' -> Permutation (filter f l) (filter f l').
Proof.
  induction 1 as [|x l l' _ IH|x y l|l l' l'' _ IH1 _ IH2]; cbn [filter].
  - constructor.
  - destruct (f x); [constructor|]; exact IH.
  - destruct (f x), (f y); try apply perm_swap; apply Permutation_refl.
  - eapply perm_trans; eassumption.
Qed.
Lemma filter_map_nodup {A B} (g : A -> B) (f : A -> bool) l : NoDup (map g l) -> NoDup (map g (filter f l)).
Proof.
  induction l as [|x r IH]; cbn [map filter]; intros H; [constructor|]. inversion H as [|? ? Hx Hr]; subst.
  destruct (f x); [|apply IH; exact Hr]. cbn [map]. constructor; [|apply IH; exact Hr].
  intros C. apply Hx. apply in_map_iff in C. destruct C as (y & Ey & Hy). apply filter_In in Hy.
  apply in_map_iff. exists y. tauto.
Qed.

Theorem json_emit_order_independent types types' found found' sofas views views' :
  match types, types' with
  | Some t, Some t' => Permutation t t' /\ NoDup (map ty_name t)
  | None, None => True
  | _, _ => False
  end ->
  Permutation found found' -> NoDup (map fi_id found) -> same_named_views views views' ->
  json_emit types found sofas views = json_emit types' found' sofas views'.
Proof.
  intros HT P ND SV. unfold json_emit, json_fs_emit.
  rewrite (sort_unique_z fi_id _ _ (filter_perm _ _ _ P) (filter_map_nodup fi_id _ _ ND)).
  assert (map (fun nv : string * viewitem => (fst nv, sort_members (snd nv))) views =
          map (fun nv => (fst nv, sort_members (snd nv))) views') as ->.
  { induction SV as [|v v' vs vs' (H1 & H2 & H3) _ IH]; [reflexivity|]. cbn [map]. rewrite IH. f_equal.
    unfold sort_members. rewrite H1, H2, (sort_members_perm _ _ H3). reflexivity. }
  destruct types as [t|], types' as [t'|]; try contradiction; [|reflexivity].
  destruct HT as [PT NT]. cbn [option_map]. rewrite (json_types_emit_order_independent _ _ PT NT). reflexivity.
Qed.

Theorem tsxml_emit_order_independent redecl redecl' types types' :
  Permutation redecl redecl' -> Permutation types types' -> NoDup (map ty_name types) ->
  tsxml_emit redecl types = tsxml_emit redecl' types'.
Proof.
  intros PR PT NT. unfold tsxml_emit.
  rewrite (sort_names_perm _ _ PR), (json_types_emit_order_independent _ _ PT NT). reflexivity.
Qed.

(* the emitted structure list is the sorted listing of what was found *)
Theorem xmi_emit_sorted found sofas views :
  Permutation found (xd_fs (xmi_emit found sofas views)) /\
  StronglySorted (fun a b => (fi_id a <=? fi_id b) = true) (xd_fs (xmi_emit found sofas views)).
Proof.
  split; cbn [xmi_emit xd_fs]; unfold sort_z.
  - apply sort_by_permutation.
  - apply (sort_by_sorted fi_id Z.leb zleb_total zleb_trans).
Qed.

(* ------------------------------------------------------------------------------------------------ save *)

Lemma assign_in_labels l nx es : map e_lab (fst (assign_in l nx es)) = map e_lab es.
Proof.
  induction es as [|e r IH]; [reflexivity|]. cbn [assign_in].
  destruct (N.eqb (e_lab e) l).
  - destruct (e_id e); reflexivity.
  - destruct (assign_in l nx r) as [r' b]. cbn [fst map] in *. rewrite IH. reflexivity.
Qed.

(* what one visit does to the store *)
Lemma assign_in_spec l nx es :
  match id_of l es with
  | Some None => snd (assign_in l nx es) = true /\ id_of l (fst (assign_in l nx es)) = Some (Some nx)
  | _ => assign_in l nx es = (es, false)
  end.
Proof.
  induction es as [|e r IH]; [reflexivity|]. cbn [assign_in id_of].
  destruct (N.eqb (e_lab e) l) eqn:E.
  - destruct e as [lab [i|]]; cbn [e_id e_lab] in *; [reflexivity|].
    cbn [fst snd id_of e_lab e_id]. rewrite E. auto.
  - destruct (assign_in l nx r) as [r' b]. cbn [fst snd] in *.
    destruct (id_of l r) as [[i|]|].
    + inversion IH; subst. reflexivity.
    + cbn [id_of]. rewrite E. exact IH.
    + inversion IH; subst. reflexivity.
Qed.

(* other labels keep what they had *)
Lemma assign_in_other l l' nx es : l' <> l -> id_of l' (fst (assign_in l nx es)) = id_of l' es.
Proof.
  intros Hne. induction es as [|e r IH]; [reflexivity|]. cbn [assign_in].
  destruct (N.eqb (e_lab e) l) eqn:E.
  - destruct (e_id e) eqn:Ei; [reflexivity|]. cbn [fst id_of e_lab].
    apply N.eqb_eq in E. destruct (N.eqb (e_lab e) l') eqn:E'; [apply N.eqb_eq in E'; congruence|reflexivity].
  - destruct (assign_in l nx r) as [r' b]. cbn [fst id_of] in *. rewrite IH. reflexivity.
Qed.

Lemma visit_settled_label s l : id_of l (st_entries s) <> Some None -> visit s l = s.
Proof.
  intros H. unfold visit. assert (S := assign_in_spec l (st_next s) (st_entries s)).
  destruct (id_of l (st_entries s)) as [[i|]|]; try congruence; rewrite S; destruct s; reflexivity.
Qed.

Lemma visit_id_of s l l' :
  id_of l' (st_entries (visit s l)) = id_of l' (st_entries s) \/
  (l' = l /\ id_of l' (st_entries s) = Some None /\ id_of l' (st_entries (visit s l)) = Some (Some (st_next s))).
Proof.
  destruct (N.eq_dec l' l) as [->|Hne].
  - assert (S := assign_in_spec l (st_next s) (st_entries s)). unfold visit.
    destruct (id_of l (st_entries s)) as [[i|]|] eqn:E.
    + rewrite S. cbn [st_entries]. left. exact E.
    + destruct (assign_in l (st_next s) (st_entries s)) as [es b]. cbn [fst snd st_entries] in *. right. tauto.
    + rewrite S. cbn [st_entries]. left. exact E.
  - left. unfold visit. assert (O := assign_in_other l l' (st_next s) (st_entries s) Hne).
    destruct (assign_in l (st_next s) (st_entries s)) as [es b]. exact O.
Qed.

Lemma visit_keeps_settled s l l' : id_of l' (st_entries s) <> Some None -> id_of l' (st_entries (visit s l)) <> Some None.
Proof. intros H. destruct (visit_id_of s l l') as [->|(_ & _ & ->)]; [assumption|discriminate]. Qed.

Lemma visit_settles s l : id_of l (st_entries (visit s l)) <> Some None.
Proof.
  destruct (visit_id_of s l l) as [E|(_ & _ & ->)]; [|discriminate].
  rewrite E. intros H. unfold visit in E. assert (S := assign_in_spec l (st_next s) (st_entries s)). rewrite H in S.
  destruct (assign_in l (st_next s) (st_entries s)) as [es b]. cbn [fst snd st_entries] in *.
  destruct S as [_ S]. congruence.
Qed.

Lemma traverse_keeps_settled trav : forall s l, id_of l (st_entries s) <> Some None ->
  id_of l (st_entries (traverse trav s)) <> Some None.
Proof.
  induction trav as [|x r IH]; intros s l H; [exact H|]. cbn [traverse fold_left]. apply IH.
  apply visit_keeps_settled. exact H.
Qed.

Lemma traverse_settled trav : forall s, settled trav s -> traverse trav s = s.
Proof.
  induction trav as [|x r IH]; intros s H; [reflexivity|]. cbn [traverse fold_left].
  rewrite (visit_settled_label s x) by (apply H; left; reflexivity).
  apply IH. intros l Hl. apply H. right. exact Hl.
Qed.

Lemma traverse_settles trav : forall s, settled trav (traverse trav s).
Proof.
  induction trav as [|x r IH]; intros s l Hl; [contradiction|]. cbn [traverse fold_left].
  destruct Hl as [<-|Hl].
  - apply (traverse_keeps_settled r). apply visit_settles.
  - apply IH. exact Hl.
Qed.

Lemma settled_incl t1 t2 s : incl t1 t2 -> settled t2 s -> settled t1 s.
Proof. intros I H l Hl. apply H. apply I. exact Hl. Qed.

Lemma settledb_spec trav s : settledb trav s = true <-> settled trav s.
Proof.
  unfold settledb, settled. rewrite forallb_forall. split; intros H l Hl; specialize (H l Hl).
  - destruct (id_of l (st_entries s)) as [[i|]|]; congruence.
  - destruct (id_of l (st_entries s)) as [[i|]|]; congruence.
Qed.

(* saving twice: same state, same document *)
Theorem save_idempotent trav s : save trav (fst (save trav s)) = save trav s.
Proof.
  unfold save. cbn [fst]. rewrite (traverse_settled trav (traverse trav s)) by apply traverse_settles. reflexivity.
Qed.

(* when everything a format visits has an id, saving is the identity on the state *)
Theorem save_settled trav s : settled trav s -> save trav s = (s, doc_of trav s).
Proof. intros H. unfold save. rewrite traverse_settled by assumption. reflexivity. Qed.

(* a format that visits no more than another one did changes nothing afterwards (XMI after JSON, typecheck after XMI) *)
Theorem save_after_superset t1 t2 s : incl t1 t2 ->
  save t1 (fst (save t2 s)) = (fst (save t2 s), doc_of t1 (fst (save t2 s))).
Proof. intros I. apply save_settled. eapply settled_incl; [exact I|]. unfold save. cbn [fst]. apply traverse_settles. Qed.

(* any number of saves in any formats, in any order, when all visited structures have ids: state and documents unchanged *)
Fixpoint saves (travs : list (list N)) (s : state) : state * list (list (N * Z)) :=
  match travs with
  | [] => (s, [])
  | t :: r => let (s1, d) := save t s in let (s2, ds) := saves r s1 in (s2, d :: ds)
  end.
Theorem saves_commute_when_ids_present travs s :
  Forall (fun t => settled t s) travs -> saves travs s = (s, map (fun t => doc_of t s) travs).
Proof.
  induction 1 as [|t r Ht _ IH]; [reflexivity|]. cbn [saves map].
  rewrite (save_settled t s Ht), IH. reflexivity.
Qed.

(* ---- content is preserved: same labels in the same order, ids only added *)
Definition extends (lo hi : Z) (e e' : entry) : Prop :=
  e_lab e = e_lab e' /\ (e_id e' = e_id e \/ (e_id e = None /\ exists i, e_id e' = Some i /\ lo <= i < hi)).

Lemma extends_refl lo hi es : Forall2 (extends lo hi) es es.
Proof. induction es; constructor; auto. split; auto. Qed.

Lemma extends_widen lo hi lo' hi' es es' : lo' <= lo -> hi <= hi' -> Forall2 (extends lo hi) es es' -> Forall2 (extends lo' hi') es es'.
Proof.
  intros H1 H2. induction 1 as [|e e' es es' [Hl H] _ IH]; constructor; auto. split; auto.
  destruct H as [H|(Hn & i & Hi & Hr)]; auto. right. split; auto. exists i. split; auto. lia.
Qed.

Lemma extends_trans a b c es1 es2 es3 : a <= b <= c ->
  Forall2 (extends a b) es1 es2 -> Forall2 (extends b c) es2 es3 -> Forall2 (extends a c) es1 es3.
Proof.
  intros Hab H12. revert es3. induction H12 as [|e1 e2 r1 r2 [Hl H] _ IH]; intros es3 H23; inversion H23; subst; constructor.
  - destruct H2 as [Hl' H']. split; [congruence|].
    destruct H as [H|(Hn & i & Hi & Hr)], H' as [H'|(Hn' & j & Hj & Hr')].
    + left. congruence.
    + right. split; [congruence|]. exists j. split; auto. lia.
    + right. split; auto. exists i. split; [congruence|lia].
    + congruence.
  - apply IH. assumption.
Qed.

Lemma assign_in_extends l nx es :
  Forall2 (extends nx (nx + 1)) es (fst (assign_in l nx es)).
Proof.
  induction es as [|e r IH]; [constructor|]. cbn [assign_in].
  destruct (N.eqb (e_lab e) l).
  - destruct (e_id e) eqn:Ei; cbn [fst].
    + apply extends_refl.
    + constructor; [|apply extends_refl]. split; [reflexivity|]. right. split; auto. exists nx. cbn [e_id]. split; auto. lia.
  - destruct (assign_in l nx r) as [r' b]. cbn [fst] in *. constructor; auto. split; auto.
Qed.

Lemma visit_next s l : st_next s <= st_next (visit s l) <= st_next s + 1.
Proof. unfold visit. destruct (assign_in l (st_next s) (st_entries s)) as [es []]; cbn [st_next]; lia. Qed.

Lemma visit_extends s l : Forall2 (extends (st_next s) (st_next (visit s l))) (st_entries s) (st_entries (visit s l)).
Proof.
  assert (E := assign_in_extends l (st_next s) (st_entries s)).
  assert (S := assign_in_spec l (st_next s) (st_entries s)).
  unfold visit. destruct (assign_in l (st_next s) (st_entries s)) as [es b]. cbn [fst snd st_entries st_next] in *.
  destruct b; [exact E|].
  destruct (id_of l (st_entries s)) as [[i|]|]; try (inversion S; subst; apply extends_refl).
  destruct S; discriminate.
Qed.

Lemma traverse_next trav : forall s, st_next s <= st_next (traverse trav s).
Proof.
  induction trav as [|x r IH]; intros s; cbn [traverse fold_left]; [lia|].
  specialize (IH (visit s x)). assert (V := visit_next s x). unfold traverse in IH. lia.
Qed.

Theorem save_preserves_content trav : forall s,
  Forall2 (extends (st_next s) (st_next (traverse trav s))) (st_entries s) (st_entries (traverse trav s)).
Proof.
  induction trav as [|x r IH]; intros s; cbn [traverse fold_left]; [apply extends_refl|].
  assert (V := visit_next s x). assert (T := traverse_next r (visit s x)).
  eapply extends_trans; [|apply visit_extends|apply IH]. unfold traverse in T. lia.
Qed.

Corollary save_keeps_labels trav s : map e_lab (st_entries (traverse trav s)) = map e_lab (st_entries s).
Proof.
  assert (H := save_preserves_content trav s). induction H as [|e e' es es' [Hl _] _ IH]; [reflexivity|].
  cbn [map]. congruence.
Qed.

(* entries that had an id keep it, whatever is saved *)
Corollary save_keeps_ids trav s l i :
  id_of l (st_entries s) = Some (Some i) -> id_of l (st_entries (traverse trav s)) = Some (Some i).
Proof.
  revert s. induction trav as [|x r IH]; intros s H; [exact H|]. cbn [traverse fold_left]. apply IH.
  destruct (visit_id_of s x l) as [->|(_ & E & _)]; [exact H|congruence].
Qed.

(* queries over indexed structures (which all have ids) return the same before and after any save *)
Theorem queries_unchanged_by_save trav s labs :
  (forall l, In l labs -> exists i, id_of l (st_entries s) = Some (Some i)) ->
  query (traverse trav s) labs = query s labs.
Proof.
  intros H. unfold query. f_equal. induction labs as [|l r IH]; [reflexivity|]. cbn [flat_map].
  destruct (H l (or_introl eq_refl)) as [i Hi]. rewrite (save_keeps_ids trav s l i Hi), Hi.
  f_equal. apply IH. intros l' Hl'. apply H. right. exact Hl'.
Qed.

(* ---- ids assigned by a save are fresh and pairwise distinct *)
Definition below_next (s : state) : Prop := Forall (fun i => i < st_next s) (present (st_entries s)).
Definition wf_state (s : state) : Prop := NoDup (present (st_entries s)) /\ below_next s.

Lemma assign_in_present l nx es :
  snd (assign_in l nx es) = true -> Permutation (nx :: present es) (present (fst (assign_in l nx es))).
Proof.
  induction es as [|e r IH]; cbn [assign_in]; [discriminate|].
  destruct (N.eqb (e_lab e) l).
  - destruct (e_id e) eqn:Ei; cbn [fst snd]; [discriminate|]. intros _.
    unfold present. cbn [flat_map e_id]. rewrite Ei. reflexivity.
  - destruct (assign_in l nx r) as [r' b]. cbn [fst snd] in *. intros Hb. specialize (IH Hb).
    unfold present in *. cbn [flat_map]. destruct (e_id e) as [i|]; cbn [app]; [|exact IH].
    eapply perm_trans; [apply perm_swap|]. apply perm_skip. exact IH.
Qed.

Lemma visit_wf s l : wf_state s -> wf_state (visit s l).
Proof.
  intros [ND BN]. assert (P := assign_in_present l (st_next s) (st_entries s)).
  assert (S := assign_in_spec l (st_next s) (st_entries s)).
  unfold visit. destruct (assign_in l (st_next s) (st_entries s)) as [es b]. cbn [fst snd] in *.
  destruct b.
  - specialize (P eq_refl). split; cbn [st_entries st_next].
    + eapply Permutation_NoDup; [exact P|]. constructor; [|exact ND].
      intros Hin. unfold below_next in BN. rewrite Forall_forall in BN. specialize (BN _ Hin). lia.
    + unfold below_next. cbn [st_entries st_next]. eapply Permutation_Forall; [exact P|].
      constructor; [lia|]. eapply Forall_impl; [|exact BN]. cbn. intros; lia.
  - destruct (id_of l (st_entries s)) as [[i|]|]; try (inversion S; subst; destruct s; split; assumption).
    destruct S; discriminate.
Qed.

Theorem save_wf trav : forall s, wf_state s -> wf_state (traverse trav s).
Proof. induction trav as [|x r IH]; intros s H; [exact H|]. cbn [traverse fold_left]. apply IH. apply visit_wf. exact H. Qed.

(* all ids after a save are pairwise distinct; the new ones lie in [next before, next after) hence differ from all old ones *)
Theorem save_ids_fresh_distinct trav s : wf_state s ->
  NoDup (present (st_entries (traverse trav s))) /\
  Forall2 (extends (st_next s) (st_next (traverse trav s))) (st_entries s) (st_entries (traverse trav s)) /\
  Forall (fun i => i < st_next s) (present (st_entries s)).
Proof. intros H. split; [apply (save_wf trav s H)|]. split; [apply save_preserves_content|apply H]. Qed.

(* reflection of the boolean premises *)
Lemma znodupb_spec l : znodupb l = true <-> NoDup l.
Proof.
  induction l as [|x r IH]; cbn [znodupb]; [split; [constructor|reflexivity]|].
  rewrite andb_true_iff, negb_true_iff, IH. split.
  - intros [H1 H2]. constructor; [|assumption]. intros Hin.
    assert (existsb (Z.eqb x) r = true) by (apply existsb_exists; exists x; split; [assumption|apply Z.eqb_refl]). congruence.
  - intros H. inversion H; subst. split; [|assumption].
    destruct (existsb (Z.eqb x) r) eqn:E; [|reflexivity]. apply existsb_exists in E. destruct E as (y & Hy & Exy).
    apply Z.eqb_eq in Exy. subst. contradiction.
Qed.
Lemma wf_stateb_spec s : wf_stateb s = true <-> wf_state s.
Proof.
  unfold wf_stateb, wf_state, below_nextb, below_next. rewrite andb_true_iff, znodupb_spec, forallb_forall, Forall_forall.
  split; intros [H1 H2]; split; auto; intros i Hi; specialize (H2 i Hi); lia.
Qed.

(* with all ids present the document of a format does not depend on the order in which its traversal visits *)
Lemma listed_perm t t' s : Permutation t t' -> Permutation (listed t s) (listed t' s).
Proof.
  intros P. unfold listed. induction P; cbn [flat_map].
  - reflexivity.
  - apply Permutation_app_head. assumption.
  - rewrite !app_assoc. apply Permutation_app_tail. apply Permutation_app_comm.
  - eapply perm_trans; eassumption.
Qed.
Theorem doc_order_independent t t' s :
  Permutation t t' -> NoDup (map snd (listed t s)) -> doc_of t s = doc_of t' s.
Proof. intros P ND. unfold doc_of. apply sort_unique_z; [apply listed_perm; exact P|exact ND]. Qed.

(* ------------------------------------------------------------------------------------------------ histories *)

Definition agree (t : list N) (s1 s2 : state) : Prop :=
  forall l, In l t -> id_of l (st_entries s1) = id_of l (st_entries s2).

Lemma listed_agree t s1 s2 : agree t s1 s2 -> listed t s1 = listed t s2.
Proof.
  unfold listed. induction t as [|l r IH]; intros H; [reflexivity|]. cbn [flat_map].
  rewrite (H l (or_introl eq_refl)). f_equal. apply IH. intros l' Hl'. apply H. right. exact Hl'.
Qed.
Lemma doc_of_agree t s1 s2 : agree t s1 s2 -> doc_of t s1 = doc_of t s2.
Proof. intros H. unfold doc_of. rewrite (listed_agree _ _ _ H). reflexivity. Qed.

Lemma visit_agree_settled t s x : settled t s -> agree t s (visit s x).
Proof.
  intros H l Hl. destruct (visit_id_of s x l) as [->|(_ & E & _)]; [reflexivity|]. exfalso. exact (H l Hl E).
Qed.
Lemma traverse_agree_settled t trav : forall s, settled t s -> agree t s (traverse trav s).
Proof.
  induction trav as [|x r IH]; intros s H l Hl; [reflexivity|]. cbn [traverse fold_left].
  rewrite (visit_agree_settled t s x H l Hl). apply IH; [|exact Hl].
  intros l' Hl'. apply visit_keeps_settled. apply H. exact Hl'.
Qed.
Lemma traverse_settled_mono t trav s : settled t s -> settled t (traverse trav s).
Proof. intros H l Hl. apply traverse_keeps_settled. apply H. exact Hl. Qed.

(* sofa data arrays: what XMI visits is what the traversal visits plus the arrays it did not find, each once *)
Lemma add_array_in acc a l : In l (add_array acc a) <-> In l acc \/ l = a.
Proof.
  unfold add_array. destruct (existsb (N.eqb a) acc) eqn:E.
  - split; [auto|]. intros [H| ->]; [exact H|]. apply existsb_exists in E. destruct E as (x & Hx & Ex).
    apply N.eqb_eq in Ex. subst x. exact Hx.
  - rewrite in_app_iff. cbn [In]. intuition congruence.
Qed.
Theorem xmi_trav_in ta : forall tx l, In l (xmi_trav ta tx) <-> In l tx \/ In l ta.
Proof.
  unfold xmi_trav. induction ta as [|a r IH]; intros tx l; cbn [fold_left In]; [tauto|].
  rewrite IH, add_array_in. intuition congruence.
Qed.
Lemma add_array_nodup acc a : NoDup acc -> NoDup (add_array acc a).
Proof.
  intros H. unfold add_array. destruct (existsb (N.eqb a) acc) eqn:E; [exact H|].
  eapply Permutation_NoDup; [apply Permutation_cons_append|]. constructor; [|exact H].
  intros Hx. assert (existsb (N.eqb a) acc = true) as C; [|congruence].
  apply existsb_exists. exists a. split; [exact Hx|apply N.eqb_refl].
Qed.
Theorem xmi_trav_nodup ta : forall tx, NoDup tx -> NoDup (xmi_trav ta tx).
Proof.
  unfold xmi_trav. induction ta as [|a r IH]; intros tx H; cbn [fold_left]; [exact H|]. apply IH, add_array_nodup, H.
Qed.
Theorem xmi_trav_prefix ta : forall tx, exists extra, xmi_trav ta tx = tx ++ extra.
Proof.
  unfold xmi_trav. induction ta as [|a r IH]; intros tx; cbn [fold_left]; [exists []; rewrite app_nil_r; reflexivity|].
  destruct (IH (add_array tx a)) as [e He]. rewrite He. unfold add_array. destruct (existsb (N.eqb a) tx).
  - exists e. reflexivity.
  - exists (a :: e). rewrite <- app_assoc. reflexivity.
Qed.

(* the JSON save with its leading sofa data arrays *)
Lemma uniq_in ta l : In l (uniq ta) <-> In l ta.
Proof. unfold uniq. rewrite xmi_trav_in. cbn [In]. tauto. Qed.
Lemma uniq_nodup ta : NoDup (uniq ta).
Proof. apply xmi_trav_nodup. constructor. Qed.
Lemma without_nil trav : without [] trav = trav.
Proof. unfold without. induction trav as [|x r IH]; cbn [filter existsb negb]; [reflexivity|]. f_equal. exact IH. Qed.
Lemma without_in ta trav l : In l (without ta trav) <-> In l trav /\ ~ In l ta.
Proof.
  unfold without. rewrite filter_In, negb_true_iff. split; intros [H1 H2]; split; try exact H1.
  - intros C. assert (existsb (N.eqb l) ta = true) as E; [|congruence]. apply existsb_exists. exists l. split; [exact C|apply N.eqb_refl].
  - destruct (existsb (N.eqb l) ta) eqn:E; [|reflexivity]. exfalso. apply H2. apply existsb_exists in E.
    destruct E as (x & Hx & Ex). apply N.eqb_eq in Ex. subst x. exact Hx.
Qed.
Theorem save_pre_nil trav s : save_pre [] trav s = save trav s.
Proof. unfold save_pre, doc_of_pre, save. cbn [uniq xmi_trav fold_left listed flat_map app]. rewrite without_nil. reflexivity. Qed.
Theorem save_pre_state pre trav s : fst (save_pre pre trav s) = traverse (uniq pre ++ trav) s.
Proof. reflexivity. Qed.
Theorem save_pre_idempotent pre trav s : save_pre pre trav (fst (save_pre pre trav s)) = save_pre pre trav s.
Proof.
  unfold save_pre. cbn [fst].
  rewrite (traverse_settled (uniq pre ++ trav) (traverse (uniq pre ++ trav) s)) by apply traverse_settles. reflexivity.
Qed.
Theorem save_pre_settled pre trav s : settled (uniq pre ++ trav) s -> save_pre pre trav s = (s, doc_of_pre pre trav s).
Proof. intros H. unfold save_pre. rewrite traverse_settled by assumption. reflexivity. Qed.

(* a structure of the store that a save visits is listed in its document: in particular every sofa data array is written by
   EVERY XMI save and every JSON save, not only by the one that gives it its id *)
Lemma id_of_in_labels l es : id_of l es <> None <-> In l (map e_lab es).
Proof.
  induction es as [|e r IH]; cbn [id_of map In]; [tauto|]. destruct (N.eqb (e_lab e) l) eqn:E.
  - apply N.eqb_eq in E. split; [auto|discriminate].
  - apply N.eqb_neq in E. rewrite IH. tauto.
Qed.
Lemma listed_in t s l i : In l t -> id_of l (st_entries s) = Some (Some i) -> In (l, i) (listed t s).
Proof.
  intros Hl Hi. unfold listed. apply in_flat_map. exists l. split; [exact Hl|]. rewrite Hi. left. reflexivity.
Qed.
Lemma visited_has_id t s l : In l t -> id_of l (st_entries s) <> None ->
  exists i, id_of l (st_entries (traverse t s)) = Some (Some i).
Proof.
  intros Hl Hs. assert (S := traverse_settles t s l Hl).
  assert (id_of l (st_entries (traverse t s)) <> None) as P.
  { apply id_of_in_labels. rewrite save_keeps_labels. apply id_of_in_labels. exact Hs. }
  destruct (id_of l (st_entries (traverse t s))) as [[i|]|]; [exists i; reflexivity|contradiction|contradiction].
Qed.
Theorem save_lists_visited t s l : In l t -> id_of l (st_entries s) <> None -> exists i, In (l, i) (snd (save t s)).
Proof.
  intros Hl Hs. destruct (visited_has_id t s l Hl Hs) as [i Hi]. exists i. unfold save, doc_of. cbn [snd].
  eapply Permutation_in; [apply sort_by_permutation|]. apply listed_in; assumption.
Qed.
Theorem xmi_save_lists_arrays ta tx s a : In a ta -> id_of a (st_entries s) <> None ->
  exists i, In (a, i) (snd (save (xmi_trav ta tx) s)).
Proof. intros Ha. apply save_lists_visited. apply xmi_trav_in. right. exact Ha. Qed.
Theorem json_save_lists_arrays ta tj s a : In a ta -> id_of a (st_entries s) <> None ->
  exists i, In (a, i) (snd (save_pre ta tj s)).
Proof.
  intros Ha Hs. apply uniq_in in Ha.
  destruct (visited_has_id (uniq ta ++ tj) s a (in_or_app _ _ _ (or_introl Ha)) Hs) as [i Hi]. exists i.
  unfold save_pre, doc_of_pre. cbn [snd]. apply in_or_app. left. apply listed_in; assumption.
Qed.

(* ... and exactly once *)
Definition countN (a : N) (t : list N) : nat := List.length (filter (N.eqb a) t).
Lemma countN_notin a t : ~ In a t -> countN a t = 0%nat.
Proof.
  unfold countN. induction t as [|x r IH]; cbn [filter In]; intros H; [reflexivity|].
  destruct (N.eqb a x) eqn:E; [apply N.eqb_eq in E; subst x; exfalso; apply H; left; reflexivity|]. apply IH. tauto.
Qed.
Lemma countN_nodup a t : NoDup t -> In a t -> countN a t = 1%nat.
Proof.
  unfold countN. induction 1 as [|x r Hx _ IH]; cbn [filter In]; intros Ha; [contradiction|].
  destruct (N.eqb a x) eqn:E.
  - apply N.eqb_eq in E. subst x. cbn [List.length]. f_equal. apply (countN_notin a r Hx).
  - apply N.eqb_neq in E. apply IH. destruct Ha as [Ha|Ha]; [congruence|exact Ha].
Qed.
Lemma count_lab_app a d1 d2 : count_lab a (d1 ++ d2) = (count_lab a d1 + count_lab a d2)%nat.
Proof. unfold count_lab. rewrite filter_app, app_length. reflexivity. Qed.
Lemma count_lab_perm a d d' : Permutation d d' -> count_lab a d = count_lab a d'.
Proof. intros P. unfold count_lab. apply Permutation_length. apply filter_perm. exact P. Qed.
Lemma count_listed a t s : count_lab a (listed t s) =
  match id_of a (st_entries s) with Some (Some _) => countN a t | _ => 0%nat end.
Proof.
  unfold listed, countN. induction t as [|l r IH]; cbn [flat_map filter].
  - destruct (id_of a (st_entries s)) as [[i|]|]; reflexivity.
  - rewrite count_lab_app, IH. destruct (N.eqb a l) eqn:E.
    + apply N.eqb_eq in E. subst l. destruct (id_of a (st_entries s)) as [[i|]|]; cbn [count_lab filter fst List.length];
        rewrite ?N.eqb_refl; reflexivity.
    + assert (count_lab a (match id_of l (st_entries s) with Some (Some i) => [(l, i)] | _ => [] end) = 0%nat) as ->.
      { destruct (id_of l (st_entries s)) as [[i|]|]; try reflexivity. unfold count_lab. cbn [filter fst].
        rewrite N.eqb_sym, E. reflexivity. }
      reflexivity.
Qed.
Lemma count_doc_of a t s : count_lab a (doc_of t s) = count_lab a (listed t s).
Proof. unfold doc_of. symmetry. apply count_lab_perm. apply sort_by_permutation. Qed.
Theorem xmi_save_lists_arrays_once ta tx s a : NoDup tx -> In a ta -> id_of a (st_entries s) <> None ->
  count_lab a (snd (save (xmi_trav ta tx) s)) = 1%nat.
Proof.
  intros ND Ha Hs. assert (In a (xmi_trav ta tx)) as Hin by (apply xmi_trav_in; right; exact Ha).
  destruct (visited_has_id _ s a Hin Hs) as [i Hi]. unfold save. cbn [snd].
  rewrite count_doc_of, count_listed, Hi. apply countN_nodup; [apply xmi_trav_nodup; exact ND|exact Hin].
Qed.
Theorem json_save_lists_arrays_once ta tj s a : In a ta -> id_of a (st_entries s) <> None ->
  count_lab a (snd (save_pre ta tj s)) = 1%nat.
Proof.
  intros Ha Hs. assert (In a (uniq ta)) as Hu by (apply uniq_in; exact Ha).
  destruct (visited_has_id (uniq ta ++ tj) s a (in_or_app _ _ _ (or_introl Hu)) Hs) as [i Hi].
  unfold save_pre, doc_of_pre. cbn [snd]. rewrite count_lab_app, count_doc_of, !count_listed, Hi.
  rewrite (countN_nodup a _ (uniq_nodup ta) Hu), (countN_notin a (without ta tj)); [reflexivity|].
  intros C. apply without_in in C. tauto.
Qed.

Lemma step_traverse ta tx tj o s : exists t, fst (step ta tx tj o s) = traverse t s.
Proof. destruct o; cbn; [exists (xmi_trav ta tx)|exists (uniq ta ++ tj)|exists []|exists []|exists []|exists tx]; reflexivity. Qed.

(* what a format visits, and the document it writes for a state *)
Definition trav_of (ta tx tj : list N) (k : op) : list N :=
  match k with OXmi => xmi_trav ta tx | OJson => uniq ta ++ tj | _ => [] end.
Definition fdoc_of (ta tx tj : list N) (k : op) (s : state) : list (N * Z) :=
  match k with OJson => doc_of_pre ta tj s | _ => doc_of (trav_of ta tx tj k) s end.

Lemma agree_app_l t1 t2 s1 s2 : agree (t1 ++ t2) s1 s2 -> agree t1 s1 s2.
Proof. intros H l Hl. apply H. apply in_or_app. left. exact Hl. Qed.
Lemma agree_app_r t1 t2 s1 s2 : agree (t1 ++ t2) s1 s2 -> agree t2 s1 s2.
Proof. intros H l Hl. apply H. apply in_or_app. right. exact Hl. Qed.
Lemma fdoc_of_agree ta tx tj k s1 s2 : agree (trav_of ta tx tj k) s1 s2 -> fdoc_of ta tx tj k s1 = fdoc_of ta tx tj k s2.
Proof.
  destruct k; cbn [fdoc_of trav_of]; intros H; try (apply doc_of_agree; exact H).
  unfold doc_of_pre. rewrite (listed_agree _ _ _ (agree_app_l _ _ _ _ H)). f_equal. apply doc_of_agree.
  intros l Hl. apply (agree_app_r _ _ _ _ H). apply without_in in Hl. tauto.
Qed.

Lemma step_doc ta tx tj o s d : snd (step ta tx tj o s) = Some d -> d = fdoc_of ta tx tj o (fst (step ta tx tj o s)).
Proof. destruct o; cbn; intros H; inversion H; reflexivity. Qed.
Lemma step_settles ta tx tj o s : settled (trav_of ta tx tj o) (fst (step ta tx tj o s)).
Proof. destruct o; cbn; try (intros l []); apply traverse_settles. Qed.
Lemma op_eqb_eq a b : op_eqb a b = true -> a = b.
Proof. destruct a, b; cbn; congruence. Qed.

Lemma docs_of_settled ta tx tj k ops : forall s, settled (trav_of ta tx tj k) s ->
  forall d, In d (docs_of k ta tx tj ops s) -> d = fdoc_of ta tx tj k s.
Proof.
  induction ops as [|o r IH]; intros s H d Hd; [contradiction|]. cbn [docs_of] in Hd.
  destruct (step_traverse ta tx tj o s) as [t Ht].
  assert (D := step_doc ta tx tj o s). destruct (step ta tx tj o s) as [s' d0]. cbn [fst snd] in *. subst s'.
  assert (A := fdoc_of_agree ta tx tj k _ _ (traverse_agree_settled _ t s H)).
  apply in_app_or in Hd. destruct Hd as [Hd|Hd].
  - destruct d0 as [d0|]; [|contradiction]. destruct (op_eqb o k) eqn:E; [|contradiction].
    apply op_eqb_eq in E. subst o. destruct Hd as [<-|[]]. rewrite (D d0 eq_refl). symmetry. exact A.
  - rewrite A. apply (IH (traverse t s)); [apply traverse_settled_mono; exact H|exact Hd].
Qed.

(* for every history, from every state: all documents of one format are one and the same document *)
Theorem history_documents_repeat ta tx tj k ops : forall s d d',
  In d (docs_of k ta tx tj ops s) -> In d' (docs_of k ta tx tj ops s) -> d = d'.
Proof.
  induction ops as [|o r IH]; intros s d d' Hd Hd'; [contradiction|]. cbn [docs_of] in Hd, Hd'.
  assert (D := step_doc ta tx tj o s). assert (S := step_settles ta tx tj o s).
  destruct (step ta tx tj o s) as [s' d0]. cbn [fst snd] in *.
  destruct d0 as [d0|]; [destruct (op_eqb o k) eqn:E|]; cbn [app] in Hd, Hd'; try (eapply IH; eassumption).
  apply op_eqb_eq in E. subst o.
  assert (forall x, d0 = x \/ In x (docs_of k ta tx tj r s') -> x = fdoc_of ta tx tj k s') as All.
  { intros x [<-|Hx]; [apply D; reflexivity|]. eapply docs_of_settled; eassumption. }
  rewrite (All d Hd), (All d' Hd'). reflexivity.
Qed.

(* ... and every one of them lists every sofa data array (of the store), from the first to the last, exactly once (for XMI:
   when the traversal lists no structure twice) *)
Theorem history_documents_list_arrays ta tx tj k ops : forall s d a, k = OXmi \/ k = OJson ->
  In d (docs_of k ta tx tj ops s) -> In a ta -> id_of a (st_entries s) <> None ->
  (exists i, In (a, i) d) /\ (k = OJson \/ NoDup tx -> count_lab a d = 1%nat).
Proof.
  induction ops as [|o r IH]; intros s d a Hk Hd Ha Hs; [contradiction|]. cbn [docs_of] in Hd.
  destruct (step_traverse ta tx tj o s) as [t Ht].
  assert (Hs' : id_of a (st_entries (fst (step ta tx tj o s))) <> None).
  { rewrite Ht. apply id_of_in_labels. rewrite save_keeps_labels. apply id_of_in_labels. exact Hs. }
  assert (Here : forall d0, snd (step ta tx tj o s) = Some d0 -> op_eqb o k = true ->
                 (exists i, In (a, i) d0) /\ (k = OJson \/ NoDup tx -> count_lab a d0 = 1%nat)).
  { intros d0 E1 E2. apply op_eqb_eq in E2. subst o. destruct Hk as [-> | ->]; cbn in E1; inversion E1.
    - split; [apply xmi_save_lists_arrays; assumption|].
      intros [C|ND]; [discriminate C|]. apply xmi_save_lists_arrays_once; assumption.
    - split; [apply json_save_lists_arrays; assumption|]. intros _. apply json_save_lists_arrays_once; assumption. }
  destruct (step ta tx tj o s) as [s' d0]. cbn [fst snd] in *.
  apply in_app_or in Hd. destruct Hd as [Hd|Hd]; [|eapply IH; eassumption].
  destruct d0 as [d0|]; [|contradiction]. destruct (op_eqb o k) eqn:E; [|contradiction].
  destruct Hd as [<-|[]]. apply Here; reflexivity.
Qed.

(* and the queries answer the same in every state of the history *)
Theorem history_queries_unchanged ta tx tj labs ops : forall s,
  (forall l, In l labs -> exists i, id_of l (st_entries s) = Some (Some i)) ->
  Forall (fun s' => query s' labs = query s labs) (states_of ta tx tj ops s).
Proof.
  induction ops as [|o r IH]; intros s H; [constructor|]. cbn [states_of].
  destruct (step_traverse ta tx tj o s) as [t Ht]. rewrite Ht.
  assert (Q := queries_unchanged_by_save t s labs H).
  constructor; [exact Q|]. rewrite <- Q. apply IH.
  intros l Hl. destruct (H l Hl) as [i Hi]. exists i. apply save_keeps_ids. exact Hi.
Qed.

(* every state of a history extends the initial one: labels kept, ids only added, from the generator's range *)
Theorem history_preserves_content ta tx tj ops : forall s,
  Forall (fun s' => st_next s <= st_next s' /\
                    Forall2 (extends (st_next s) (st_next s')) (st_entries s) (st_entries s')) (states_of ta tx tj ops s).
Proof.
  induction ops as [|o r IH]; intros s; [constructor|]. cbn [states_of].
  destruct (step_traverse ta tx tj o s) as [t Ht]. rewrite Ht.
  assert (C := save_preserves_content t s). assert (Nx := traverse_next t s).
  constructor; [split; assumption|].
  eapply Forall_impl; [|apply IH]. intros s' [H1 H2]. cbn beta. split; [lia|].
  eapply extends_trans; [|exact C|exact H2]. lia.
Qed.

(* ------------------------------------------------------------------------------------------------ handles *)

(* whatever handles the operations of a history are called through: every handle points at the view it pointed at *)
Theorem hrun_handles ta tx tj hops : forall hs,
  Forall (fun x => hs_cur (fst x) = hs_cur hs) (hrun ta tx tj hops hs).
Proof.
  induction hops as [|ho r IH]; intros hs; [constructor|]. cbn [hrun]. unfold hstep.
  destruct (step ta tx tj (snd ho) (hs_store hs)) as [s' d].
  constructor; [reflexivity|]. exact (IH (mkHs (hs_cur hs) s')).
Qed.

(* ... and stores and documents are those of the history without handles *)
Theorem hrun_store ta tx tj hops : forall hs,
  map (fun x => (hs_store (fst x), snd x)) (hrun ta tx tj hops hs) = run ta tx tj (map snd hops) (hs_store hs).
Proof.
  induction hops as [|ho r IH]; intros hs; [reflexivity|]. cbn [hrun map run]. unfold hstep.
  destruct (step ta tx tj (snd ho) (hs_store hs)) as [s' d]. cbn [map fst snd hs_store]. f_equal.
  exact (IH (mkHs (hs_cur hs) s')).
Qed.

Corollary hrun_handle_irrelevant ta tx tj hops hops' hs hs' :
  map snd hops = map snd hops' -> hs_store hs = hs_store hs' ->
  map (fun x => (hs_store (fst x), snd x)) (hrun ta tx tj hops hs) =
  map (fun x => (hs_store (fst x), snd x)) (hrun ta tx tj hops' hs').
Proof. intros E1 E2. rewrite !hrun_store, E1, E2. reflexivity. Qed.

Lemma hrun_states ta tx tj hops : forall hs,
  map (fun x => hs_store (fst x)) (hrun ta tx tj hops hs) = states_of ta tx tj (map snd hops) (hs_store hs).
Proof.
  induction hops as [|ho r IH]; intros hs; [reflexivity|]. cbn [hrun map states_of]. unfold hstep.
  destruct (step ta tx tj (snd ho) (hs_store hs)) as [s' d]. cbn [map fst snd hs_store]. f_equal.
  exact (IH (mkHs (hs_cur hs) s')).
Qed.

(* what a query through handle h returns is, in every state of the history, what it returned before the history *)
Theorem history_handle_queries_unchanged ta tx tj per_view h hops : forall hs,
  (forall l, In l (nth (N.to_nat (view_of hs h)) per_view []) -> exists i, id_of l (st_entries (hs_store hs)) = Some (Some i)) ->
  Forall (fun x => hquery per_view (fst x) h = hquery per_view hs h) (hrun ta tx tj hops hs).
Proof.
  intros hs H.
  assert (Q := history_queries_unchanged ta tx tj _ (map snd hops) _ H).
  rewrite <- hrun_states in Q. rewrite Forall_map in Q.
  assert (C := hrun_handles ta tx tj hops hs).
  rewrite Forall_forall in *. intros x Hx. specialize (Q x Hx). specialize (C x Hx).
  unfold hquery, view_of in *. rewrite C. exact Q.
Qed.
