(* ConvertProofs.v — C16: the conversion statements as compositions through canonical content. *)
From Cassis Require Import Base Heap Schema Canon Reach JsonDoc Json JsonProofs JsonProofs2 JsonLoadProofs JsonWf JsonDocOk Convert ConvertWf ConvertInline.
From Cassis Require Lex Xmi XmiDoc XmiProofs XmiDocOk XmiLoad XmiRt XmiRtProofs XmiRtTotal XmiRtTotalProofs.
Open Scope Z_scope.

(* inline_outline at a CAS: the XMI view of its canonical content is inline_of of its JSON view.  PROVED for every
   well-formed CAS in ConvertInline.v (inline_outline, premise ConvertWf.wf_convb: a boolean on schema and CAS); the
   theorems that take it as a premise are kept below (suffix _given_outline), followed by the ones that do not. *)
Definition inline_outline_at (s : schema) (c : cas) : Prop :=
  (do j <- canon_json s c ;; inline_of s j) = Xmi.canon_xmi s c.

(* XMI -> CAS -> JSON -> CAS.  c1 is the CAS loaded first (from any XMI document), j the JSON document written from it,
   c1' the same CAS with the ids the save assigned.  What the JSON reader builds from j, seen in the XMI view, is the
   XMI view of c1': views, sofa data, feature structures, ids, values, reference structure, offsets, membership. *)
Theorem xmi_json_xmi_given_outline L s mode c1 j c1' cc :
  lex_ok L -> save_json L s mode c1 = Ok (j, c1') -> wf_jsonb s c1' = true -> 0 < c_next_id c1 ->
  doc_ok_json L s j = true ->                       (* the document is well-formed (a boolean on j alone) *)
  initial_view_in c1' = true -> canon_json s c1' = Ok cc ->
  inline_outline_at s c1' ->
  (do x <- load_json L s j ;; inline_of s x) = Xmi.canon_xmi s c1'.
Proof.
  intros HL HS HW HT HD HV HC HI. rewrite (json_roundtrip L s mode c1 j c1' cc HL HS HW HT HD HV HC).
  unfold inline_outline_at in HI. rewrite HC in HI. exact HI.
Qed.

(* the JSON leg alone, in the JSON view (stronger: collections keep their ids); the reader is no longer assumed to agree
   with the denotation — that is JsonLoadProofs.load_json_is_denotation *)
Theorem json_leg_preserves L s mode c1 j c1' cc :
  lex_ok L -> save_json L s mode c1 = Ok (j, c1') -> wf_jsonb s c1' = true -> 0 < c_next_id c1 ->
  doc_ok_json L s j = true -> initial_view_in c1' = true -> canon_json s c1' = Ok cc ->
  load_json L s j = canon_json s c1'.
Proof. intros HL HS HW HT HD HV HC. rewrite HC. exact (json_roundtrip L s mode c1 j c1' cc HL HS HW HT HD HV HC). Qed.

(* JSON -> CAS -> XMI -> CAS.  c1 is the CAS loaded first (its JSON view is what the JSON document j0 denotes), x the XMI
   document written from it.  Read by the XMI denotation, x describes the XMI view of what j0 says, up to ""/null inside
   string collections; the final CAS is whatever the XMI reader builds from x (C01/C05: its content is denote_xmi x). *)
Theorem json_xmi_json_given_outline L s (fmt_flt : flt -> string) (parse_flt : string -> option flt) j0 c1 x c1' :
  (forall f, parse_flt (fmt_flt f) = Some f) -> (forall f, Lex.tok_ok (fmt_flt f)) ->
  canon_json s c1 = denote_json L s j0 ->           (* c1 is a load of j0 *)
  Xmi.save_xmi fmt_flt s c1 = Ok (x, c1') ->
  (forall all, Xmi.written s c1 = Ok (c1', all) -> Xmi.wf_xmib s c1' all = true) ->
  inline_outline_at s c1 ->
  XmiDoc.denote_xmi parse_flt s x = (do j <- denote_json L s j0 ;; do v <- inline_of s j ;; Ok (XmiDoc.norm_xmi s v)).
Proof.
  intros H1 H2 HJ HS HW HI.
  rewrite (XmiProofs.denote_save_xmi fmt_flt parse_flt H1 H2 s c1 x c1' HS HW).
  unfold inline_outline_at in HI. rewrite <- HI, HJ.
  destruct (denote_json L s j0); reflexivity.
Qed.

(* both legs of chain B in one statement about documents: the XMI document written after loading j0 and the XMI view of
   j0's denotation agree; with xmi_json_xmi this closes both chains at the level of canonical content *)
Corollary conversion_documents_agree_given_outline L s mode (fmt_flt : flt -> string) (parse_flt : string -> option flt) c x c' j c'' :
  lex_ok L -> (forall f, parse_flt (fmt_flt f) = Some f) -> (forall f, Lex.tok_ok (fmt_flt f)) ->
  Xmi.save_xmi fmt_flt s c = Ok (x, c') ->
  (forall all, Xmi.written s c = Ok (c', all) -> Xmi.wf_xmib s c' all = true) ->
  save_json L s mode c = Ok (j, c'') -> wf_jsonb s c'' = true -> 0 < c_next_id c ->
  inline_outline_at s c'' -> Xmi.canon_xmi s c'' = Xmi.canon_xmi s c ->
  XmiDoc.denote_xmi parse_flt s x = (do jv <- denote_json L s j ;; do v <- inline_of s jv ;; Ok (XmiDoc.norm_xmi s v)).
Proof.
  intros HL H1 H2 HX HWX HJ HWJ HT HI HE.
  rewrite (XmiProofs.denote_save_xmi fmt_flt parse_flt H1 H2 s c x c' HX HWX).
  rewrite (denote_save_json L s mode c j c'' HL HJ HWJ HT).
  unfold inline_outline_at in HI. rewrite <- HE, <- HI. destruct (canon_json s c''); reflexivity.
Qed.

(* ================================================================================================================ *)
(* without the inline_outline premise                                                                                *)
(* ================================================================================================================ *)

Theorem inline_outline_holds s c j : wf_convb s c = true -> canon_json s c = Ok j -> inline_outline_at s c.
Proof. intros W E. unfold inline_outline_at. rewrite E. cbn [bind]. exact (inline_outline s c j W E). Qed.

(* the statement as DESIGN.md has it (bind form), for every well-formed CAS *)
Theorem inline_outline_at_wf s c : wf_convb s c = true -> inline_outline_at s c.
Proof. intros W. destruct (canon_json_total s c W) as (j & E). exact (inline_outline_holds s c j W E). Qed.

Lemma wf_convb_parts s c : wf_convb s c = true ->
  Xmi.wf_inb s c = true /\ XmiLoad.schema_okb s = true /\ wf_jsonb s c = true /\ ids_distinctb s c = true /\
  refs_wfb s c = true /\ slots_declb s (c_heap c) = true /\ arrays_privateb s c = true.
Proof.
  unfold wf_convb. intros H.
  repeat match type of H with (_ && _ = true) => apply andb_prop in H; let H' := fresh "P" in destruct H as [H H'] end.
  repeat split; assumption.
Qed.

(* a CAS whose structures carry their ids is left unchanged by the JSON save: the views loop assigns no id to a sofa
   byte array, the traversal assigns none (ConvertInline.json_traversal_same) *)
Lemma step_view_same L s c fss views wr v c1 fss1 views1 wr1 :
  (forall o, s_arr (v_sofa v) = Some o -> exists f i, hget (c_heap c) o = Some f /\ o_id f = Some i) ->
  step_view L s (Ok (c, fss, views, wr)) v = Ok (c1, fss1, views1, wr1) -> c1 = c.
Proof.
  intros Harr. unfold step_view. cbn [bind].
  destruct (enc_view (c_heap c) v) as [jv| |]; cbn [bind]; try discriminate.
  destruct (s_arr (v_sofa v)) as [o|] eqn:Ea; [destruct (omem o wr)|].
  - cbn [bind]. destruct (enc_sofa L c (v_sofa v)) as [ms| |]; cbn [bind]; try discriminate. intros [= <- _ _ _]. reflexivity.
  - destruct (Harr o eq_refl) as (f & i & Hg & Hi). rewrite Hg, Hi.
    destruct (enc_fs L s c f) as [m| |]; cbn [bind]; try discriminate.
    destruct (enc_sofa L c (v_sofa v)) as [ms| |]; cbn [bind]; try discriminate. intros [= <- _ _ _]. reflexivity.
  - cbn [bind]. destruct (enc_sofa L c (v_sofa v)) as [ms| |]; cbn [bind]; try discriminate. intros [= <- _ _ _]. reflexivity.
Qed.
Lemma loop_same L s c : forall vs fss views wr c1 fss1 views1 wr1,
  (forall v o, In v vs -> s_arr (v_sofa v) = Some o -> exists f i, hget (c_heap c) o = Some f /\ o_id f = Some i) ->
  fold_left (step_view L s) vs (Ok (c, fss, views, wr)) = Ok (c1, fss1, views1, wr1) -> c1 = c.
Proof.
  induction vs as [|v r IH]; intros fss views wr c1 fss1 views1 wr1 Harr H; cbn [fold_left] in H; [inversion H; reflexivity|].
  destruct (step_view L s (Ok (c, fss, views, wr)) v) as [[[[c2 fss2] views2] wr2]| |] eqn:E;
    [|rewrite fold_step_err in H; discriminate|rewrite fold_step_oof in H; discriminate].
  pose proof (step_view_same L s c fss views wr v c2 fss2 views2 wr2 (fun o Ho => Harr v o (or_introl eq_refl) Ho) E) as ->.
  exact (IH _ _ _ _ _ _ _ (fun v' o Hv' => Harr v' o (or_intror Hv')) H).
Qed.
Theorem save_json_same L s mode c d c' : wf_convb s c = true -> save_json L s mode c = Ok (d, c') -> c' = c.
Proof.
  intros HW HS. destruct (wf_convb_parts s c HW) as (_ & _ & HJ & _).
  assert (Harr : forall v o, In v (c_views c) -> s_arr (v_sofa v) = Some o -> exists f i, hget (c_heap c) o = Some f /\ o_id f = Some i).
  { intros v o Hv Ho. unfold wf_jsonb in HJ. destruct (find_all_fs true s c) as [w| |]; try discriminate HJ.
    apply andb_prop in HJ. destruct HJ as [_ HJ]. rewrite forallb_forall in HJ.
    assert (Hin : In o (sofa_arrays c)) by (unfold sofa_arrays; apply in_flat_map; exists v; split; [exact Hv|rewrite Ho; left; reflexivity]).
    specialize (HJ o Hin). destruct (hget (c_heap c) o) as [f|] eqn:Hg; [|discriminate]. apply andb_prop in HJ. destruct HJ as [_ HJ].
    destruct (o_id f) as [i|] eqn:Hi; [|discriminate]. exists f, i. split; [reflexivity|exact Hi]. }
  unfold save_json, save_found_wr in HS.
  destruct (fold_left (step_view L s) (c_views c) (Ok (c, [], [], []))) as [[[[c1 sofa_fs] views] wr]| |] eqn:El; cbn [bind] in HS; try discriminate.
  pose proof (loop_same L s c _ _ _ _ _ _ _ _ Harr El) as ->.
  destruct (find_all_fs true s c) as [w| |] eqn:Ew; cbn [bind] in HS; try discriminate.
  rewrite (json_traversal_same s c w HW Ew) in HS.
  repeat match type of HS with bind ?m _ = _ => destruct m; cbn [bind] in HS; try discriminate HS end.
  inversion HS. reflexivity.
Qed.

(* XMI -> CAS -> JSON -> CAS.  c1 is the CAS loaded first, j the JSON document written from it, c1' the same CAS with the
   ids the save assigned (nothing changes when c1 comes from a load: every structure has its id).  What the JSON reader
   builds from j, seen in the XMI view, is the XMI view of c1'. *)
Theorem xmi_json_xmi L s mode c1 j c1' :
  lex_ok L -> save_json L s mode c1 = Ok (j, c1') -> wf_convb s c1' = true -> 0 < c_next_id c1 ->
  doc_ok_json L s j = true -> initial_view_in c1' = true ->
  exists x, Xmi.canon_xmi s c1' = Ok x /\ (do y <- load_json L s j ;; inline_of s y) = Ok x.
Proof.
  intros HL HS HW HT HD HV. destruct (wf_convb_parts s c1' HW) as (_ & _ & HJ & _).
  destruct (inline_outline_total s c1' HW) as (cc & x & HC & HX & HI). exists x. split; [exact HX|].
  rewrite <- HX. exact (xmi_json_xmi_given_outline L s mode c1 j c1' cc HL HS HJ HT HD HV HC (inline_outline_holds s c1' cc HW HC)).
Qed.

(* ... with the well-formedness of the written JSON document derived from the CAS (C02 json_doc_ok: JsonDocOk.doc_ok_save_json,
   premise typed_jsonb): no premise about the document is left *)
Theorem xmi_json_xmi_total L s mode c1 j c1' :
  lex_ok L -> save_json L s mode c1 = Ok (j, c1') -> wf_convb s c1' = true -> typed_jsonb s c1' = true -> 0 < c_next_id c1 ->
  initial_view_in c1' = true ->
  exists x, Xmi.canon_xmi s c1' = Ok x /\ (do y <- load_json L s j ;; inline_of s y) = Ok x.
Proof.
  intros HL HS HW HTy HT HV. destruct (wf_convb_parts s c1' HW) as (_ & _ & HJ & HI & HR & _).
  exact (xmi_json_xmi L s mode c1 j c1' HL HS HW HT (doc_ok_save_json L s mode c1 j c1' HL HS HJ HT HI HR HTy) HV).
Qed.

(* JSON -> CAS -> XMI -> CAS.  c1 is the CAS loaded first: its JSON view jv is what the JSON document j0 denotes.  x is
   the XMI document written from it and c2 what the XMI reader mechanism (XmiLoad.load_xmi) builds from x.  The
   canonical content of c2 is the XMI view of what j0 says, up to ""/null inside string collections.  The XMI reader leg
   is the theorem C01_xmi_roundtrip_partial (XmiRtProofs.xmi_roundtrip_load = C04_denote_save_xmi + C01 reader_okb of the
   written document + C05_load_xmi_is_denotation); the adapter between the reader's own CAS type lcas and ccas is
   XmiLoad.canon_loaded. *)
Theorem json_xmi_json L s (fmt_flt : flt -> string) (parse_flt : string -> option flt) j0 c1 jv x c1' c2 :
  (forall f, parse_flt (fmt_flt f) = Some f) -> (forall f, Lex.tok_ok (fmt_flt f)) ->
  denote_json L s j0 = Ok jv -> canon_json s c1 = Ok jv ->                 (* c1 is a load of j0 *)
  wf_convb s c1 = true -> XmiRt.wf_rtb s c1 = true ->
  Xmi.save_xmi fmt_flt s c1 = Ok (x, c1') -> XmiLoad.load_xmi parse_flt s false x = Ok c2 ->
  XmiLoad.canon_loaded s c2 = (do v <- inline_of s jv ;; Ok (XmiDoc.norm_xmi s v)).
Proof.
  intros H1 H2 HD HJ HW HR HS HLd.
  rewrite (XmiRtProofs.xmi_roundtrip_load fmt_flt parse_flt H1 H2 s c1 x c1' c2 HR HS HLd).
  rewrite (inline_outline s c1 jv HW HJ). reflexivity.
Qed.
(* unconditional: under wf_rt_totalb (= wf_rtb + every structure of a type with the feature sofa holds a sofa, what Cas.add
   guarantees) the XMI reader does load the document: C01_xmi_roundtrip (XmiRtTotalProofs.xmi_roundtrip) *)
Theorem json_xmi_json_total L s (fmt_flt : flt -> string) (parse_flt : string -> option flt) j0 c1 jv x c1' :
  (forall f, parse_flt (fmt_flt f) = Some f) -> (forall f, Lex.tok_ok (fmt_flt f)) ->
  denote_json L s j0 = Ok jv -> canon_json s c1 = Ok jv ->
  wf_convb s c1 = true -> XmiRtTotal.wf_rt_totalb s c1 = true ->
  Xmi.save_xmi fmt_flt s c1 = Ok (x, c1') ->
  exists c2, XmiLoad.load_xmi parse_flt s false x = Ok c2 /\
             XmiLoad.canon_loaded s c2 = (do v <- inline_of s jv ;; Ok (XmiDoc.norm_xmi s v)).
Proof.
  intros H1 H2 HD HJ HW HR HS.
  destruct (XmiRtTotalProofs.xmi_roundtrip fmt_flt parse_flt H1 H2 s c1 x c1' HR HS) as (c2 & HL & HC).
  exists c2. split; [exact HL|]. rewrite HC, (inline_outline s c1 jv HW HJ). reflexivity.
Qed.
(* the same leg over the declarative reading of the XMI document (no reader mechanism, no wf_rtb) *)
Theorem json_xmi_json_denote L s (fmt_flt : flt -> string) (parse_flt : string -> option flt) j0 c1 jv x c1' :
  (forall f, parse_flt (fmt_flt f) = Some f) -> (forall f, Lex.tok_ok (fmt_flt f)) ->
  denote_json L s j0 = Ok jv -> canon_json s c1 = Ok jv -> wf_convb s c1 = true ->
  Xmi.save_xmi fmt_flt s c1 = Ok (x, c1') ->
  XmiDoc.denote_xmi parse_flt s x = (do v <- inline_of s jv ;; Ok (XmiDoc.norm_xmi s v)).
Proof.
  intros H1 H2 HD HJ HW HS. destruct (wf_convb_parts s c1 HW) as (HI & _).
  rewrite (XmiDocOk.denote_save_xmi_wf fmt_flt parse_flt H1 H2 s c1 x c1' (proj1 (XmiDocOk.wf_inb_parts s c1 HI)) HS).
  rewrite (inline_outline s c1 jv HW HJ). reflexivity.
Qed.

(* the two documents written from one CAS whose structures carry their ids: the XMI document denotes the XMI view of what
   the JSON document denotes *)
Corollary conversion_documents_agree L s mode (fmt_flt : flt -> string) (parse_flt : string -> option flt) c x c' j c'' :
  lex_ok L -> (forall f, parse_flt (fmt_flt f) = Some f) -> (forall f, Lex.tok_ok (fmt_flt f)) ->
  wf_convb s c = true -> 0 < c_next_id c ->
  Xmi.save_xmi fmt_flt s c = Ok (x, c') -> save_json L s mode c = Ok (j, c'') ->
  XmiDoc.denote_xmi parse_flt s x = (do jv <- denote_json L s j ;; do v <- inline_of s jv ;; Ok (XmiDoc.norm_xmi s v)).
Proof.
  intros HL H1 H2 HW HT HX HJ. destruct (wf_convb_parts s c HW) as (HI & _ & HWJ & _).
  pose proof (save_json_same L s mode c j c'' HW HJ) as ->.
  destruct (canon_json_total s c HW) as (jv & HC).
  rewrite (XmiDocOk.denote_save_xmi_wf fmt_flt parse_flt H1 H2 s c x c' (proj1 (XmiDocOk.wf_inb_parts s c HI)) HX).
  rewrite (denote_save_json L s mode c j c HL HJ HWJ HT), HC. cbn [bind].
  rewrite <- (inline_outline s c jv HW HC). reflexivity.
Qed.
