(* CorrC02.v — correspondence harness for C02.  A case carries the scenario (user part of the schema, the CAS before
   cas.to_json, the mode) and what the implementation produced: the JSON document (parsed by the stdlib into abstract
   JSON), the canonical content observed from the in-memory CAS after the save, the canonical content observed after
   load_cas_from_json, optionally a presentation variant of the document and what loading it gave.
   check_case evaluates, on the implementation's document: doc_ok_json, denote_json (under the original schema and
   under the schema the embedded declarations mean), and the reader model load_json; and on the scenario: the writer
   model save_json (document modulo member order, %TYPES at the level of declarations) and canon_json. *)
From Cassis Require Import Base Heap Schema Canon Reach JsonDoc Json JsonWf.
Open Scope Z_scope.

Record case := mkCase {
  c_user : schema;                 (* user types (and DocumentAnnotation when extended), Type.all_features order *)
  c_builtin : option schema;       (* Some: the schema of a fresh TypeSystem() as the implementation has it *)
  c_mode : tsmode;
  c_cas : cas;
  c_doc : json;
  c_canon : ccas;
  c_loaded : ccas;
  c_variant : option json;
  c_once : bool }.                 (* observed by identity: every loaded CAS holds one object per id (what the document shares is shared) *)

Definition full_schema (user : schema) : schema :=
  user ++ filter (fun ti => negb (memb (ti_name ti) (map ti_name user))) builtin_schema.

Definition fdecl_eqb (a b : fdecl) : bool :=
  String.eqb (fd_name a) (fd_name b) && String.eqb (fd_xname a) (fd_xname b) && String.eqb (fd_range a) (fd_range b)
  && opt_eqb String.eqb (fd_elem a) (fd_elem b) && Bool.eqb (fd_multi a) (fd_multi b).
Definition tinfo_eqb (a b : tinfo) : bool :=
  String.eqb (ti_name a) (ti_name b) && list_eqb String.eqb (ti_anc a) (ti_anc b) && list_eqb fdecl_eqb (ti_feats a) (ti_feats b).

Definition res_ccas_eqb (r : res ccas) (x : ccas) : bool := match r with Ok y => ccas_eqb y x | _ => false end.

(* %TYPES at the level of what is declared: types by name, features by name, multipleReferencesAllowed by truth value *)
Fixpoint jfinsert (x : jfeat) (l : list jfeat) : list jfeat :=
  match l with [] => [x] | y :: r => if String.leb (jf_name x) (jf_name y) then x :: y :: r else y :: jfinsert x r end.
Fixpoint jtinsert (x : jtype) (l : list jtype) : list jtype :=
  match l with [] => [x] | y :: r => if String.leb (jt_name x) (jt_name y) then x :: y :: r else y :: jtinsert x r end.
Definition jfeat_eqb (a b : jfeat) : bool :=
  String.eqb (jf_name a) (jf_name b) && String.eqb (jf_range a) (jf_range b) && opt_eqb String.eqb (jf_elem a) (jf_elem b)
  && Bool.eqb (match jf_multi a with Some true => true | _ => false end) (match jf_multi b with Some true => true | _ => false end).
Definition jtype_eqb (a b : jtype) : bool :=
  String.eqb (jt_name a) (jt_name b) && String.eqb (jt_super a) (jt_super b)
  && list_eqb jfeat_eqb (fold_right jfinsert [] (jt_feats a)) (fold_right jfinsert [] (jt_feats b)).
Definition jtypes_eqb (a b : list jtype) : bool := list_eqb jtype_eqb (fold_right jtinsert [] a) (fold_right jtinsert [] b).
Definition has_types (d : json) : bool := match jget K_TYPES d with Some _ => true | None => false end.
Definition without_types (d : json) : json :=
  match d with JObj l => JObj (filter (fun kv => negb (String.eqb (fst kv) K_TYPES)) l) | _ => d end.
(* the %NAME members repeat the keys *)
Definition names_consistent (d : json) : bool :=
  match jget K_TYPES d with
  | Some (JObj l) =>
      forallb (fun kv => match jget "%NAME" (snd kv) with Some (JStr n) => String.eqb n (fst kv) | _ => false end
                         && match snd kv with
                            | JObj m => forallb (fun fkv => if starts_with "%" (fst fkv) then true
                                                            else match jget "%NAME" (snd fkv) with Some (JStr n) => String.eqb n (fst fkv) | _ => false end) m
                            | _ => false end) l
  | Some _ => false
  | None => true
  end.

(* the order of the feature structures inside %FEATURE_STRUCTURES is presentation (C05): compared sorted by id *)
Definition fs_sorted (d : json) : json :=
  match d, fs_entries d with
  | JObj l, Ok es =>
      JObj (map (fun kv => if String.eqb (fst kv) K_FS then (K_FS, JArr (map (fun e => JObj (snd e)) (sort_by fst es))) else kv) l)
  | _, _ => d
  end.
Definition same_doc (model impl : json) : bool :=
  json_equiv (fs_sorted (without_types model)) (fs_sorted (without_types impl))
  && Bool.eqb (has_types model) (has_types impl)
  && names_consistent impl && names_consistent model
  && match parse_jtypes model, parse_jtypes impl with Ok a, Ok b => jtypes_eqb a b | _, _ => false end.

Definition check_doc (s : schema) (mode : tsmode) (d : json) (want : ccas) : bool :=
  doc_ok_json std_lex s d
  && res_ccas_eqb (denote_json std_lex s d) want
  && match mode with
     | MNone => true
     | _ => match parse_jtypes d with
            | Ok jts => res_ccas_eqb (denote_json std_lex (schema_of_jtypes builtin_schema jts) d) want
            | _ => false end
     end.

(* the reader model makes one object per id (Json.load_made: the ids under which _parse_feature_structure made an object) *)
Definition made_once (s : schema) (d : json) : bool := match load_made std_lex s d with Ok l => znodup l | _ => false end.

Definition check_case (c : case) : bool :=
  let s := full_schema (c_user c) in
  match c_builtin c with Some b => list_eqb tinfo_eqb b builtin_schema | None => true end
  && check_doc s (c_mode c) (c_doc c) (c_canon c)
  && match save_json std_lex s (c_mode c) (c_cas c) with
     | Ok (d, c') => same_doc d (c_doc c) && res_ccas_eqb (canon_json s c') (c_canon c)
     | _ => false
     end
  && res_ccas_eqb (load_json std_lex s (c_doc c)) (c_loaded c)
  && Bool.eqb (made_once s (c_doc c)) (c_once c)
  && match c_variant c with
     | Some v => check_doc s (c_mode c) v (c_canon c) && res_ccas_eqb (load_json std_lex s v) (c_loaded c)
                 && Bool.eqb (made_once s v) (c_once c)
     | None => true
     end.

(* for diagnosis: which conjunct fails (bit list) *)
Definition explain (c : case) : list bool :=
  let s := full_schema (c_user c) in
  [ match c_builtin c with Some b => list_eqb tinfo_eqb b builtin_schema | None => true end;
    doc_ok_json std_lex s (c_doc c);
    res_ccas_eqb (denote_json std_lex s (c_doc c)) (c_canon c);
    check_doc s (c_mode c) (c_doc c) (c_canon c);
    match save_json std_lex s (c_mode c) (c_cas c) with Ok (d, c') => json_equiv (fs_sorted (without_types d)) (fs_sorted (without_types (c_doc c))) | _ => false end;
    match save_json std_lex s (c_mode c) (c_cas c) with Ok (d, c') => same_doc d (c_doc c) | _ => false end;
    match save_json std_lex s (c_mode c) (c_cas c) with Ok (d, c') => res_ccas_eqb (canon_json s c') (c_canon c) | _ => false end;
    res_ccas_eqb (load_json std_lex s (c_doc c)) (c_loaded c);
    match c_variant c with Some v => check_doc s (c_mode c) v (c_canon c) | None => true end;
    match c_variant c with Some v => res_ccas_eqb (load_json std_lex s v) (c_loaded c) | None => true end;
    Bool.eqb (made_once s (c_doc c)) (c_once c);
    match c_variant c with Some v => Bool.eqb (made_once s v) (c_once c) | None => true end ].

(* the boolean premises of the theorems in Props/C02.v, on the CAS the writer model leaves behind (wf_jsonb, ids_distinctb,
   refs_wfb from Json.v; typed_jsonb from JsonWf.v); the lexical contract is tested on the texts and byte arrays of the case *)
Definition lex_tested (c : cas) : bool :=
  forallb (fun v => match s_text (v_sofa v) with
                    | Some t => match utf8_dec (utf8_enc t) with Some t' => list_eqb N.eqb t t' | None => false end
                    | None => true end) (c_views c)
  && forallb (fun of => match slot (snd of) "elements" with
                        | VList l => if String.eqb (o_type (snd of)) T_BYTE_ARRAY then
                                       match mapM byte_of l with
                                       | Ok bs => match std_b64_dec (std_b64_enc bs) with Some bs' => list_eqb Z.eqb bs bs' | None => false end
                                       | _ => false end
                                     else true
                        | _ => true end) (c_heap c).
Definition premises (c : case) : bool :=
  let s := full_schema (c_user c) in
  match save_json std_lex s (c_mode c) (c_cas c) with
  | Ok (_, c') => wf_jsonb s c' && ids_distinctb s c' && refs_wfb s c' && typed_jsonb s c' && (0 <? c_next_id (c_cas c)) && lex_tested c'
  | _ => false
  end.
