"""DESIGN NOTE (not framework code): minimal reproductions of the defects D01..D38 listed in DESIGN.md section 6.

Run with   PYTHONPATH=<tree> /venv/bin/python repro_defects.py
Prints one line per defect: PRESENT / absent.  Each function returns True when the defect shows.
These become the first entries of harness/corpus/ in the build phase.
"""
import signal
import time
import warnings

warnings.simplefilter("ignore")

from cassis import *  # noqa: E402,F403
from cassis.typesystem import *  # noqa: E402,F403


class _Timeout(BaseException):
    pass


def _alarm(sig, frm):
    raise _Timeout()


signal.signal(signal.SIGALRM, _alarm)


def hangs(f, seconds=3):
    signal.alarm(seconds)
    try:
        f()
        return False
    except _Timeout:
        return True
    finally:
        signal.alarm(0)


def raises(f, *kinds):
    try:
        f()
        return False
    except kinds or (Exception,):
        return True


def mklist(ts, kind, elems):
    E = ts.get_type("uima.cas.Empty%sList" % kind)
    NE = ts.get_type("uima.cas.NonEmpty%sList" % kind)
    cur = E()
    for e in reversed(elems):
        cur = NE(head=e, tail=cur)
    return cur


def D01():
    ts = TypeSystem(); T = ts.create_type("a.T"); c = Cas(ts, sofa_string="0123456789")
    c.add(T(begin=5, end=5))
    span = ts.get_type(TYPE_NAME_ANNOTATION)(begin=2, end=5)
    return len(c.select_covered("a.T", span)) != 1


def D02():
    return Cas(TypeSystem(), lenient=True).create_view("v")._lenient is not True


def D03():
    ts = TypeSystem(); H = ts.create_type("a.H", TYPE_NAME_TOP); ts.create_feature(H, "lst", TYPE_NAME_FS_LIST)
    c = Cas(ts); x = H(); c.add(x); c.add(H(lst=mklist(ts, "FS", [x])))
    return hangs(lambda: list(c._find_all_fs()))


def D04():
    ts = TypeSystem(); H = ts.create_type("a.H", TYPE_NAME_TOP)
    ts.create_feature(H, "l", "a.H"); ts.create_feature(H, "r", "a.H")
    c = Cas(ts); cur = H()
    for _ in range(17):
        cur = H(l=cur, r=cur)
    c.add(cur)
    t = time.time(); list(c._find_all_fs())
    return time.time() - t > 1.0


def D05():
    ts = TypeSystem(); H = ts.create_type("a.H", TYPE_NAME_TOP)
    ts.create_feature(H, "arr", TYPE_NAME_FS_ARRAY, elementType="a.H")
    c = Cas(ts); c.add(H(arr=ts.get_type(TYPE_NAME_FS_ARRAY)(elements=[None, H()])))
    return raises(c.typecheck)


def D06():
    ts = TypeSystem(); P = ts.create_type("a.P"); P(); ts.create_feature(P, "f", TYPE_NAME_STRING)
    return raises(lambda: P(f="x"), TypeError)


def D07():
    ts = TypeSystem(); P = ts.create_type("a.P"); C = ts.create_type("a.C", "a.P")
    ts.create_feature(C, "f", TYPE_NAME_STRING)
    return not raises(lambda: ts.create_feature(P, "f", TYPE_NAME_INTEGER), ValueError)


def D08():
    t1 = TypeSystem(); t1.create_type("a.A"); t1.create_type("a.B", "a.A"); t1.create_type("a.X", "a.A")
    t2 = TypeSystem(); t2.create_type("a.A"); t2.create_type("a.B", "a.A"); t2.create_type("a.X", "a.B")
    m = merge_typesystems(t1, t2)
    return [c.name for c in m.get_type("a.B").children] != ["a.X"] or "a.X" in [c.name for c in m.get_type("a.A").children]


def D09():
    t1 = TypeSystem(); t1.create_type("a.A"); t1.create_type("a.B", "a.A")
    t2 = TypeSystem(); t2.create_type("a.B"); t2.create_type("a.A", "a.B")
    return not raises(lambda: merge_typesystems(t1, t2), ValueError)


def D11():
    ts = TypeSystem(); N = ts.create_type("a.N", TYPE_NAME_TOP); ts.create_feature(N, "end", TYPE_NAME_INTEGER)
    c = Cas(ts, sofa_string="x"); c.add(N(end=1))
    return raises(c.to_xmi) or raises(c.to_json)


def D12():
    ts = TypeSystem(); T = ts.create_type("a.T"); ts.create_feature(T, "r", "a.T")
    c = Cas(ts, sofa_string="a\U0001F600bc"); u = T(begin=2, end=3); c.add(T(begin=0, end=1, r=u)); u.sofa = c.get_sofa()
    c2 = load_cas_from_xmi(c.to_xmi(), ts)
    return c2.select("a.T")[0].r.get_covered_text() != "b"


def D14():
    ts = TypeSystem(); c = Cas(ts); c.create_view("v")
    x = c.to_xmi().replace('sofaNum="1"', 'sofaNum="9"').replace('sofaNum="2"', 'sofaNum="1"')
    nums = [s.sofaNum for s in load_cas_from_xmi(x, ts).sofas]
    return len(set(nums)) != len(nums)


def D15():
    ts = TypeSystem(); T = ts.create_type("a.T", TYPE_NAME_TOP); ts.create_feature(T, "r", "a.T")
    # a(5) -> b(6) -> hidden(5): only a is indexed, so the traversal order does not depend on memory addresses
    c = Cas(ts); c.add(T(xmiID=5, r=T(xmiID=6, r=T(xmiID=5))))
    return not raises(c.to_xmi, ValueError)


def _two_views():
    ts = TypeSystem(); T = ts.create_type("a.T"); c = Cas(ts, sofa_string="abc"); c.add(T(begin=0, end=1))
    v = c.create_view("v2"); v.sofa_string = "xyz"; v.add(T(begin=1, end=2))
    return ts, c


def D16():
    ts, c = _two_views()
    return raises(lambda: load_cas_from_json(c.to_json()))


def D17():
    ts = TypeSystem(); c = Cas(ts, sofa_string="abc")
    c2 = load_cas_from_json(c.to_json()); c2.create_view("w")
    nums = [s.sofaNum for s in c2.sofas]; ids = [s.xmiID for s in c2.sofas]
    return len(set(nums)) != len(nums) or len(set(ids)) != len(ids)


def D18():
    ts = TypeSystem(); H = ts.create_type("a.H", TYPE_NAME_TOP); ts.create_feature(H, "a", TYPE_NAME_FS_ARRAY)
    c = Cas(ts); c.add(H(a=ts.get_type(TYPE_NAME_FS_ARRAY)(elements=[])))
    try:
        return load_cas_from_json(c.to_json()).select("a.H")[0].a.elements != []
    except Exception:
        return True


def D19():
    ts = TypeSystem(); H = ts.create_type("a.H", TYPE_NAME_TOP); ts.create_feature(H, "a", TYPE_NAME_INTEGER_ARRAY)
    c = Cas(ts); c.add(H())
    return raises(lambda: load_cas_from_json(c.to_json(), typesystem=ts), ValueError)


def D20():
    ts = TypeSystem(); ts.create_type("a.T"); c = Cas(ts)
    return raises(lambda: load_cas_from_json(c.to_json(type_system_mode=TypeSystemMode.NONE), typesystem=ts))


def D21():
    ts = TypeSystem(); c = Cas(ts); c.sofa_array = ts.get_type(TYPE_NAME_BYTE_ARRAY)(elements=[1, 2])
    return '"%ID": null' in c.to_json()


def D22():
    ts = TypeSystem(); H = ts.create_type("a.H", TYPE_NAME_TOP); ts.create_feature(H, "a", TYPE_NAME_FS_ARRAY)
    c = Cas(ts); c.add(H(a=ts.get_type(TYPE_NAME_FS_ARRAY)(elements=[None])))
    return raises(c.to_xmi)


def D23():
    ts = TypeSystem(); H = ts.create_type("a.H", TYPE_NAME_TOP); ts.create_feature(H, "l", TYPE_NAME_STRING_LIST)
    c = Cas(ts); c.add(H(l=mklist(ts, "String", [])))
    return load_cas_from_xmi(c.to_xmi(), ts).select("a.H")[0].l is None


def D24():
    ts = TypeSystem(); ts.create_type("a.S", TYPE_NAME_STRING); T = ts.create_type("a.T", TYPE_NAME_TOP)
    ts.create_feature(T, "s", "a.S"); c = Cas(ts); c.add(T(s="v"))
    return raises(lambda: load_cas_from_xmi(c.to_xmi(), ts))


def D25():
    ts = TypeSystem(); c = Cas(ts)
    for n in ("c.type0.A", "a.type.B", "b.type.C"):
        ts.create_type(n, TYPE_NAME_TOP)
    for n in ("c.type0.A", "a.type.B", "b.type.C", "c.type0.A"):
        c.add(ts.get_type(n)())
    return raises(lambda: load_cas_from_xmi(c.to_xmi(), ts))


def D26():
    ts = TypeSystem(); ts.create_feature(ts.get_type(TYPE_NAME_DOCUMENT_ANNOTATION), "extra", TYPE_NAME_STRING)
    return load_typesystem(ts.to_xml()).get_type(TYPE_NAME_DOCUMENT_ANNOTATION).get_feature("extra") is None


def D27():
    ts = TypeSystem(); T = ts.create_type("a.T"); ts.create_feature(T, "r", "a.T")
    c = Cas(ts, sofa_string="abcdef"); u = T(begin=0, end=1); c.add(T(begin=2, end=3, r=u)); u.sofa = c.get_sofa()
    return "T[0-1]*" in cas_to_comparable_text(c)


def D28():
    ts = TypeSystem(); T = ts.create_type("a.T"); ts.create_feature(T, "r", "a.T")
    c = Cas(ts, sofa_string="abcdef"); c.add(T(begin=2, end=3, r=T(begin=0, end=1)))
    return raises(lambda: cas_to_comparable_text(c))


def D29():
    ts = TypeSystem(); T = ts.create_type("a.T")
    return T().get("get") is not None


def D30():
    ts1 = TypeSystem(); ts1.create_type("a.Tok"); F = TypeSystem().create_type("Tok")
    return not raises(lambda: Cas(ts1).add(F(begin=0, end=0)), RuntimeError)


def D31():
    ts = TypeSystem(); H = ts.create_type("a.H", TYPE_NAME_TOP)
    ts.create_feature(H, "a", TYPE_NAME_STRING_ARRAY, multipleReferencesAllowed=True)
    c = Cas(ts); c.add(H(a=ts.get_type(TYPE_NAME_STRING_ARRAY)(elements=[])))
    return load_cas_from_xmi(c.to_xmi(), ts).select("a.H")[0].a.elements != []


def D32():
    ts = TypeSystem(); T = ts.create_type("a.T"); ts.create_feature(T, "r", "a.T")
    c = Cas(ts, sofa_string="abc"); u = T(begin=1, end=2); c.add(T(begin=0, end=1, r=u)); u.sofa = c.get_sofa()
    c2 = load_cas_from_xmi(c.to_xmi(), ts)
    return c2.select("a.T")[0].r.sofa is not c2.get_sofa()


def D33():
    ts = TypeSystem(); H = ts.create_type("a.H", TYPE_NAME_TOP); ts.create_feature(H, "lst", TYPE_NAME_FS_LIST)
    n = ts.get_type(TYPE_NAME_NON_EMPTY_FS_LIST)(head=H()); n.tail = n
    c = Cas(ts); c.add(H(lst=n))
    return hangs(lambda: raises(c.typecheck))


def D34():
    ts = TypeSystem(); N = ts.create_type("a.N", TYPE_NAME_TOP); ts.create_feature(N, "begin", TYPE_NAME_STRING)
    c = Cas(ts); c.add(N(begin="x"))
    return raises(lambda: load_cas_from_xmi(c.to_xmi(), ts))


def D35():
    ts = TypeSystem(); N = ts.create_type("a.N", TYPE_NAME_TOP); ts.create_feature(N, "type", "a.N")
    c = Cas(ts); c.add(N(type_=N()))
    try:
        c2 = load_cas_from_json(c.to_json())
        return any(not isinstance(fs.type, Type) for fs in c2.select("a.N"))
    except Exception:
        return True


def D36():
    ts = TypeSystem(); N = ts.create_type("a.N", TYPE_NAME_TOP)
    ts.create_feature(N, "begin", TYPE_NAME_STRING); ts.create_feature(N, "end", TYPE_NAME_STRING)
    c = Cas(ts)
    return raises(lambda: (c.add(N(begin="x")), c.add(N(end="y"))), TypeError)


def D37():
    ts = TypeSystem(); N = ts.create_type("a.N", TYPE_NAME_TOP); ts.create_feature(N, "self", TYPE_NAME_STRING_ARRAY)
    c = Cas(ts); c.add(N(self_=ts.get_type(TYPE_NAME_STRING_ARRAY)(elements=["a"])))
    return raises(lambda: load_cas_from_xmi(c.to_xmi(), ts))


def D38():
    ts = TypeSystem(); H = ts.create_type("a.H", TYPE_NAME_TOP); ts.create_feature(H, "l", TYPE_NAME_STRING_LIST)
    c = Cas(ts); c.add(H(l=mklist(ts, "String", ["a", ""])))
    return load_cas_from_xmi(c.to_xmi(), ts).select("a.H")[0].l.tail.head == "None"


if __name__ == "__main__":
    for name in sorted(n for n in dir() if n[0] == "D" and n[1:].isdigit()):
        try:
            present = globals()[name]()
        except Exception as e:  # an unexpected crash while reproducing also counts as "shows"
            present = "crash: %s %s" % (type(e).__name__, str(e)[:60])
        print(name, "PRESENT" if present is True else ("absent" if present is False else present))
