(* Calibration for C04/C15: the repaired Cas._find_all_fs worklist (every object enters the open list at most once,
   decided by identity) computes a duplicate-free set that contains the seeds and is closed under the successor
   relation, and it needs at most |live objects| pops.  Generic in the successor function. *)
From Coq Require Import List Arith Lia Bool.
Import ListNotations.

Section Worklist.
  Variable succ : nat -> list nat.           (* references, array elements, inline list members, ... of an object *)
  Variable U : list nat.                     (* the live objects *)
  Hypothesis succ_live : forall o, In o U -> incl (succ o) U.

  Record st := mkSt { visited : list nat; queued : list nat; open : list nat }.
  (* enqueue(candidates): `if id(candidate) in queued: continue; queued.add(..); openlist.append(..)` *)
  Definition enqueue1 (qo : list nat * list nat) (c : nat) : list nat * list nat :=
    if existsb (Nat.eqb c) (fst qo) then qo else (fst qo ++ [c], snd qo ++ [c]).
  Definition enqueue (qo : list nat * list nat) (cs : list nat) : list nat * list nat := fold_left enqueue1 cs qo.
  (* one iteration of `while openlist: fs = openlist.pop(0); ...` *)
  Definition step (s : st) : st :=
    match open s with
    | [] => s
    | o :: rest => let qo := enqueue (queued s, rest) (succ o) in mkSt (visited s ++ [o]) (fst qo) (snd qo)
    end.
  Fixpoint run (fuel : nat) (s : st) : option st :=
    match fuel with
    | O => None
    | S k => match open s with [] => Some s | _ :: _ => run k (step s) end
    end.
  Definition start (seeds : list nat) : st := let qo := enqueue ([], []) seeds in mkSt [] (fst qo) (snd qo).

  Record Inv (s : st) : Prop := {
    inv_split : queued s = visited s ++ open s;
    inv_nodup : NoDup (queued s);
    inv_live : incl (queued s) U;
    inv_closed : forall v, In v (visited s) -> incl (succ v) (queued s)
  }.

  Lemma existsb_eqb_In c l : existsb (Nat.eqb c) l = true <-> In c l.
  Proof.
    rewrite existsb_exists. split.
    - intros (x & Hx & He). apply Nat.eqb_eq in He. subst. exact Hx.
    - intros H. exists c. split; [exact H|apply Nat.eqb_refl].
  Qed.

  Lemma enqueue1_old q op c : In c q -> enqueue1 (q, op) c = (q, op).
  Proof. intros H. unfold enqueue1. simpl. apply existsb_eqb_In in H. rewrite H. reflexivity. Qed.
  Lemma enqueue1_new q op c : ~ In c q -> enqueue1 (q, op) c = (q ++ [c], op ++ [c]).
  Proof.
    intros H. unfold enqueue1. simpl. destruct (existsb (Nat.eqb c) q) eqn:E; [|reflexivity].
    apply existsb_eqb_In in E. contradiction.
  Qed.
  Lemma NoDup_snoc (l : list nat) x : NoDup l -> ~ In x l -> NoDup (l ++ [x]).
  Proof.
    induction 1 as [|a r Hn Hnd IH]; simpl; intros Hx; [constructor; [intros []|constructor]|].
    constructor.
    - rewrite in_app_iff. intros [H|[H|[]]]; [contradiction|]. apply Hx. left. symmetry. exact H.
    - apply IH. intros H. apply Hx. right. exact H.
  Qed.

  (* what enqueue does to the pair (queued, open): appends the same fresh elements to both *)
  Lemma enqueue_spec cs : forall q op, NoDup q -> incl q U -> incl cs U ->
    exists add, fst (enqueue (q, op) cs) = q ++ add /\ snd (enqueue (q, op) cs) = op ++ add /\
                NoDup (q ++ add) /\ incl (q ++ add) U /\ incl cs (q ++ add).
  Proof.
    unfold enqueue. induction cs as [|c r IH]; intros q op Hnd Hlive Hcs; cbn [fold_left].
    - exists []. rewrite !app_nil_r. repeat split; auto. intros x [].
    - assert (Hr : incl r U) by (intros x Hx; apply Hcs; right; exact Hx).
      destruct (in_dec Nat.eq_dec c q) as [Hin|Hnin].
      + rewrite (enqueue1_old q op c Hin).
        destruct (IH q op Hnd Hlive Hr) as (add & H1 & H2 & H3 & H4 & H5).
        exists add. repeat split; auto.
        intros x [<-|Hx]; [apply in_or_app; left; exact Hin|apply H5; exact Hx].
      + rewrite (enqueue1_new q op c Hnin).
        assert (Hnd' : NoDup (q ++ [c])) by (apply NoDup_snoc; assumption).
        assert (Hlive' : incl (q ++ [c]) U).
        { intros x Hx. apply in_app_or in Hx. destruct Hx as [Hx|[<-|[]]]; [apply Hlive; exact Hx|apply Hcs; left; reflexivity]. }
        destruct (IH (q ++ [c]) (op ++ [c]) Hnd' Hlive' Hr) as (add & H1 & H2 & H3 & H4 & H5).
        exists (c :: add). rewrite <- !app_assoc in *. cbn [app] in *. repeat split; auto.
        intros x [<-|Hx]; [apply in_or_app; right; left; reflexivity|apply H5; exact Hx].
  Qed.

  Lemma start_Inv seeds : incl seeds U -> Inv (start seeds) /\ incl seeds (queued (start seeds)).
  Proof.
    intros Hs. unfold start.
    destruct (enqueue_spec seeds [] [] (NoDup_nil _) (fun x (H : In x []) => match H with end) Hs) as (add & H1 & H2 & H3 & H4 & H5).
    simpl in *. split; [constructor; simpl|].
    - rewrite H1, H2. reflexivity.
    - rewrite H1. exact H3.
    - rewrite H1. exact H4.
    - intros v [].
    - rewrite H1. exact H5.
  Qed.

  Lemma step_Inv s : Inv s -> Inv (step s).
  Proof.
    intros I. unfold step. destruct (open s) as [|o rest] eqn:Eo; [exact I|].
    pose proof (inv_split _ I) as Hsp. rewrite Eo in Hsp.
    assert (Ho : In o U). { apply (inv_live _ I). rewrite Hsp. apply in_or_app. right. left. reflexivity. }
    destruct (enqueue_spec (succ o) (queued s) rest (inv_nodup _ I) (inv_live _ I) (succ_live o Ho)) as (add & H1 & H2 & H3 & H4 & H5).
    constructor; simpl.
    - rewrite H1, H2, Hsp. rewrite <- !app_assoc. reflexivity.
    - rewrite H1. exact H3.
    - rewrite H1. exact H4.
    - intros v Hv. rewrite H1. apply in_app_or in Hv. destruct Hv as [Hv|[<-|[]]].
      + intros x Hx. apply in_or_app. left. apply (inv_closed _ I v Hv). exact Hx.
      + exact H5.
  Qed.

  Lemma step_visited s o rest : open s = o :: rest -> length (visited (step s)) = S (length (visited s)).
  Proof. intros E. unfold step. rewrite E. simpl. rewrite app_length. simpl. lia. Qed.

  Lemma visited_bound s : Inv s -> length (visited s) + length (open s) <= length U.
  Proof.
    intros I. rewrite <- app_length, <- (inv_split _ I).
    apply NoDup_incl_length; [apply (inv_nodup _ I)|apply (inv_live _ I)].
  Qed.

  (* C15: the loop ends within |U| pops *)
  Lemma run_total : forall k s, Inv s -> length U - length (visited s) < k -> run k s <> None.
  Proof.
    induction k as [|k IH]; intros s I Hk; [lia|].
    simpl. destruct (open s) as [|o rest] eqn:Eo; [discriminate|].
    apply IH.
    - apply step_Inv. exact I.
    - rewrite (step_visited s o rest Eo). pose proof (visited_bound s I) as Hb. rewrite Eo in Hb. simpl in Hb. lia.
  Qed.

  Lemma run_Inv : forall k s s', Inv s -> run k s = Some s' -> Inv s' /\ open s' = [] /\ incl (queued s) (queued s').
  Proof.
    induction k as [|k IH]; intros s s' I H; [discriminate|].
    simpl in H. destruct (open s) as [|o rest] eqn:Eo.
    - inversion H; subst s'. split; [exact I|split; [exact Eo|intros x Hx; exact Hx]].
    - destruct (IH (step s) s' (step_Inv s I) H) as (I' & Ho & Hincl). split; [exact I'|split; [exact Ho|]].
      intros x Hx. apply Hincl. unfold step. rewrite Eo. simpl.
      pose proof (inv_split _ I) as Hsp. rewrite Eo in Hsp.
      assert (Hol : In o U). { apply (inv_live _ I). rewrite Hsp. apply in_or_app. right. left. reflexivity. }
      destruct (enqueue_spec (succ o) (queued s) rest (inv_nodup _ I) (inv_live _ I) (succ_live o Hol)) as (add & H1 & _).
      rewrite H1. apply in_or_app. left. exact Hx.
  Qed.

  (* C04 (closure half) + C15 (termination), for every seed list and every successor function *)
  Theorem find_all_spec seeds : incl seeds U ->
    exists s, run (S (length U)) (start seeds) = Some s /\
              NoDup (visited s) /\ incl seeds (visited s) /\ incl (visited s) U /\
              (forall v, In v (visited s) -> incl (succ v) (visited s)).
  Proof.
    intros Hs. destruct (start_Inv seeds Hs) as [I0 Hseeds].
    destruct (run (S (length U)) (start seeds)) as [s|] eqn:E.
    - exists s. split; [reflexivity|].
      destruct (run_Inv _ _ _ I0 E) as (I & Ho & Hincl).
      pose proof (inv_split _ I) as Hsp. rewrite Ho, app_nil_r in Hsp.
      repeat split.
      + rewrite <- Hsp. apply (inv_nodup _ I).
      + intros x Hx. rewrite <- Hsp. apply Hincl. apply Hseeds. exact Hx.
      + rewrite <- Hsp. apply (inv_live _ I).
      + intros v Hv. rewrite <- Hsp. apply (inv_closed _ I). exact Hv.
    - exfalso. eapply (run_total (S (length U)) (start seeds) I0); [simpl; lia|exact E].
  Qed.
End Worklist.
Print Assumptions find_all_spec.

(* the unrepaired loop re-queues a successor every time it is met before being popped: on a chain of "diamonds"
   (both successors of n are n-1) the number of pops doubles with every level *)
Fixpoint old_pops (fuel : nat) (succ : nat -> list nat) (visited : list nat) (open : list nat) : nat :=
  match fuel with
  | O => 0
  | S k => match open with
           | [] => 0
           | o :: rest => S (old_pops k succ (o :: visited)
                               (rest ++ filter (fun c => negb (existsb (Nat.eqb c) (o :: visited))) (succ o)))
           end
  end.
Definition diamond (n : nat) : list nat := match n with O => [] | S m => [m; m] end.
Example old_loop_exponential : map (fun n => old_pops (2 ^ 12) diamond [] [n]) [1; 2; 3; 4; 5; 6; 7; 8; 9; 10]
                               = [3; 7; 15; 31; 63; 127; 255; 511; 1023; 2047].
Proof. vm_compute. reflexivity. Qed.
