(* Calibration for the lexical layer of the XMI codec: blank-separated token lists (" ".join / str.split) and
   decimal integers (str(int) / int(str)) round-trip. *)
From Coq Require Import List String Ascii ZArith Lia Bool DecimalString DecimalZ DecimalPos Decimal.
Import ListNotations.
Open Scope list_scope.
Open Scope string_scope.

(* " ".join(tokens) *)
Fixpoint join (l : list string) : string :=
  match l with
  | [] => ""
  | [x] => x
  | x :: r => x ++ " " ++ join r
  end.
Definition is_ws (c : ascii) : bool :=                  (* ASCII part of str.split()'s separator set *)
  match c with " "%char | "009"%char | "010"%char | "011"%char | "012"%char | "013"%char => true | _ => false end.
(* str.split(): split on runs of whitespace, no empty tokens *)
Fixpoint split_ws_aux (cur : string) (s : string) : list string :=
  match s with
  | EmptyString => if String.eqb cur "" then [] else [cur]
  | String c r => if is_ws c then (if String.eqb cur "" then split_ws_aux "" r else cur :: split_ws_aux "" r)
                  else split_ws_aux (cur ++ String c "") r
  end.
Definition split_ws (s : string) : list string := split_ws_aux "" s.

Fixpoint no_ws (s : string) : bool := match s with EmptyString => true | String c r => negb (is_ws c) && no_ws r end.
Definition tok_ok (s : string) : Prop := s <> "" /\ no_ws s = true.

Lemma append_assoc_s a b c : (a ++ b) ++ c = a ++ (b ++ c).
Proof. induction a as [|x a IH]; simpl; [reflexivity|]. rewrite IH. reflexivity. Qed.
Lemma append_nil_r s : s ++ "" = s.
Proof. induction s as [|x s IH]; simpl; [reflexivity|]. rewrite IH. reflexivity. Qed.
Lemma append_eq_nil a b : a ++ b = "" -> a = "" /\ b = "".
Proof. destruct a; simpl; intros H; [auto|discriminate]. Qed.

(* scanning a whitespace-free token t followed by rest: the accumulator grows by t *)
Lemma split_aux_token t : no_ws t = true -> forall cur rest,
  split_ws_aux cur (t ++ rest) = split_ws_aux (cur ++ t) rest.
Proof.
  induction t as [|c t IH]; simpl; intros Hn cur rest.
  - rewrite append_nil_r. reflexivity.
  - apply andb_prop in Hn. destruct Hn as [Hc Ht]. apply negb_true_iff in Hc. rewrite Hc.
    rewrite IH by exact Ht. rewrite append_assoc_s. reflexivity.
Qed.

Lemma eqb_nonempty s : s <> "" -> String.eqb s "" = false.
Proof. intros H. apply String.eqb_neq. exact H. Qed.

Theorem split_join l : Forall tok_ok l -> split_ws (join l) = l.
Proof.
  unfold split_ws. induction l as [|x r IH]; intros H; [reflexivity|].
  inversion H as [|? ? [Hne Hnw] Hr]; subst.
  destruct r as [|y r'].
  - simpl. rewrite <- (append_nil_r x) at 1. rewrite split_aux_token by exact Hnw. simpl.
    rewrite eqb_nonempty by exact Hne. reflexivity.
  - change (join (x :: y :: r')) with (x ++ " " ++ join (y :: r')).
    rewrite split_aux_token by exact Hnw. cbn [append split_ws_aux is_ws].
    rewrite eqb_nonempty by exact Hne. f_equal. apply IH. exact Hr.
Qed.

(* ---- decimal integers: str(int) / int(str) ---- *)
Definition z2s (z : Z) : string := NilZero.string_of_int (Z.to_int z).
Definition s2z (s : string) : option Z := option_map Z.of_int (NilZero.int_of_string s).
Theorem s2z_z2s z : s2z (z2s z) = Some z.
Proof.
  unfold s2z, z2s. rewrite NilZero.isi.
  - simpl. rewrite DecimalZ.of_to. reflexivity.
  - destruct z as [|p|p]; simpl; try discriminate.
    intros H. injection H as H. exact (DecimalPos.Unsigned.to_uint_nonnil p H).
  - destruct z as [|p|p]; simpl; try discriminate.
    intros H. injection H as H. exact (DecimalPos.Unsigned.to_uint_nonnil p H).
Qed.
Print Assumptions split_join.
Print Assumptions s2z_z2s.
Example join_split_example : split_ws (join ["12"; "0"; "-7"]) = ["12"; "0"; "-7"] /\ map s2z (split_ws "3  44") = [Some 3%Z; Some 44%Z].
Proof. vm_compute. split; reflexivity. Qed.
